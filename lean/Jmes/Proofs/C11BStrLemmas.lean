/-
  C11 (strings are sequences of code points; valid UTF-8 in → valid UTF-8 out): the remaining string functions of
  Jmes/Model/String.lean lifted from bytes to code points, the way Jmes/Proofs/Utf8.lean did for `indexOf`.

  `indexOf`, `splitOn`, `replaceAux`, `joinStrs` … are polymorphic in what a list element is (`Bytes = List Nat`, and a
  code point list is a `List Nat` too), so "the same function applied to the code point list" is the specification.
-/
import Jmes.Proofs.Utf8
import Jmes.Properties.C11
namespace Jmes.C11S
open Jmes Jmes.Utf8

/-! ## Block 1 — validity algebra -/

/-- the empty string is valid UTF-8 -/
theorem validUTF8_nil : validUTF8 ([] : Bytes) = true := rfl

/-- concatenating two valid strings gives a valid string -/
theorem validUTF8_append {a b : Bytes} (ha : validUTF8 a = true) (hb : validUTF8 b = true) :
    validUTF8 (a ++ b) = true := by
  obtain ⟨as, h1, rfl⟩ := (validUTF8_iff a).1 ha
  obtain ⟨bs, h2, rfl⟩ := (validUTF8_iff b).1 hb
  rw [← encodeAll_append]
  exact validUTF8_encodeAll _ (h1.append h2)

example : validUTF8 ([0xC3, 0xA9] ++ [0x6C]) = true :=
  validUTF8_append (by decide) (by decide)
/-- (the hypotheses are needed: two halves of "é" are each invalid, their concatenation is valid, and a valid
    string followed by half a code point is not) -/
example : validUTF8 ([0x6C] ++ [0xC3]) = false := by decide

/-- concatenating any number of valid strings gives a valid string -/
theorem validUTF8_concat {l : List Bytes} (h : ∀ o ∈ l, validUTF8 o = true) :
    validUTF8 (l.foldr (· ++ ·) []) = true := by
  induction l with
  | nil => rfl
  | cons a l ih =>
    simp only [List.foldr_cons]
    exact validUTF8_append (h a List.mem_cons_self) (ih (fun o ho => h o (List.mem_cons_of_mem _ ho)))

example : validUTF8 ([[0x68], [0xC3, 0xA9], [0x6C]].foldr (· ++ ·) []) = true := by decide

/-- what `encodeRune` really encodes: the code point itself, or U+FFFD for a surrogate / out of range value -/
def fixRune (r : Nat) : Nat := if isScalar r = true then r else RuneError

theorem isScalar_fixRune (r : Nat) : isScalar (fixRune r) = true := by
  unfold fixRune; split
  · assumption
  · exact isScalar_runeError

theorem encodeRune_fixRune (r : Nat) : encodeRune r = encodeRune (fixRune r) := by
  unfold fixRune
  by_cases h : isScalar r = true
  · rw [if_pos h]
  · rw [if_neg h]
    have hs : ¬ (r < 0xD800 ∨ (0xDFFF < r ∧ r ≤ 0x10FFFF)) := fun k => h ((isScalar_iff r).2 k)
    have e : encodeRune RuneError = [0xEF, 0xBF, 0xBD] := by decide
    rw [e]
    unfold encodeRune
    have h1 : ¬ r < 0x80 := by omega
    have h2 : ¬ r < 0x800 := by omega
    simp [h1, h2, h]

theorem encodeAll_fixRune (rs : List Nat) : encodeAll rs = encodeAll (rs.map fixRune) := by
  induction rs with
  | nil => rfl
  | cons r rs ih => rw [List.map_cons, encodeAll_cons, encodeAll_cons, ih, ← encodeRune_fixRune]

theorem scalars_map_fixRune (rs : List Nat) : Scalars (rs.map fixRune) := by
  intro c hc
  obtain ⟨r, _, rfl⟩ := List.mem_map.1 hc
  exact isScalar_fixRune r

/-- `encodeRune` of ANY number is valid UTF-8: a non-scalar value is written as U+FFFD -/
theorem validUTF8_encodeRune_any (r : Nat) : validUTF8 (encodeRune r) = true := by
  rw [encodeRune_fixRune, ← encodeAll_singleton]
  exact validUTF8_encodeAll _ (Scalars.cons (isScalar_fixRune r) Scalars.nil)

example : validUTF8 (encodeRune 0xD800) = true := validUTF8_encodeRune_any _
example : encodeRune 0xD800 = [0xEF, 0xBF, 0xBD] := by decide

/-- `encodeAll` of ANY list of numbers is valid UTF-8 -/
theorem validUTF8_encodeAll_any (rs : List Nat) : validUTF8 (encodeAll rs) = true := by
  rw [encodeAll_fixRune]
  exact validUTF8_encodeAll _ (scalars_map_fixRune rs)

example : validUTF8 (encodeAll [0x68, 0x110000, 0xE9]) = true := validUTF8_encodeAll_any _

theorem encodeAll_ascii {s : Bytes} (h : ∀ b ∈ s, b < 0x80) : encodeAll s = s := by
  induction s with
  | nil => rfl
  | cons b s ih =>
    have hb : b < 0x80 := h b List.mem_cons_self
    rw [encodeAll_cons, ih (fun x hx => h x (List.mem_cons_of_mem _ hx))]
    simp [encodeRune, hb]

theorem scalars_ascii {s : Bytes} (h : ∀ b ∈ s, b < 0x80) : Scalars s := by
  intro c hc
  have := h c hc
  exact (isScalar_iff c).2 (by omega)

/-- an ASCII string is valid UTF-8 -/
theorem validUTF8_ascii {s : Bytes} (h : ∀ b ∈ s, b < 0x80) : validUTF8 s = true := by
  rw [← encodeAll_ascii h]
  exact validUTF8_encodeAll _ (scalars_ascii h)

example : validUTF8 [0x68, 0x65, 0x6C, 0x6C, 0x6F] = true := validUTF8_ascii (by decide)

/-- `reverse` on a string only ever writes `encodeRune`s: the output is valid whatever the input -/
theorem valid_reverseRunes (n : Nat) (s : Bytes) : validUTF8 (reverseRunes n s) = true := by
  induction n generalizing s with
  | zero => rfl
  | succ n ih =>
    by_cases hs : s = []
    · subst hs; rfl
    · rw [reverseRunes_succ n s hs]
      exact validUTF8_append (validUTF8_encodeRune_any _) (ih _)

example : reverseRunes 3 [0x68, 0xC3, 0x6C] = [0x6C, 0xEF, 0xBF, 0xBD, 0x68] := by decide
example : validUTF8 (reverseRunes 3 [0x68, 0xC3, 0x6C]) = true := valid_reverseRunes _ _

/-- the forward stepping walk only writes `encodeRune`s -/
theorem valid_walkFwd (step n : Nat) (s : Bytes) : validUTF8 (walkFwd step n s) = true := by
  induction n generalizing s with
  | zero => rfl
  | succ n ih =>
    rw [walkFwd_succ]
    exact validUTF8_append (validUTF8_encodeRune_any _) (ih _)

example : validUTF8 (walkFwd 2 2 [0xC3, 0x68, 0xC3, 0xA9]) = true := valid_walkFwd _ _ _
example : walkFwd 2 2 [0xC3, 0x68, 0xC3, 0xA9] = [0xEF, 0xBF, 0xBD, 0xC3, 0xA9] := by decide

/-- the backward stepping walk only writes `encodeRune`s -/
theorem valid_walkBwd (step n : Nat) (s : Bytes) : validUTF8 (walkBwd step n s) = true := by
  induction n generalizing s with
  | zero => rfl
  | succ n ih =>
    rw [walkBwd_succ]
    exact validUTF8_append (validUTF8_encodeRune_any _) (ih _)

example : validUTF8 (walkBwd 1 2 [0x68, 0xC3]) = true := valid_walkBwd _ _ _
example : walkBwd 1 2 [0x68, 0xC3] = [0xEF, 0xBF, 0xBD, 0x68] := by decide

theorem joinStrs_cons_cons (sep a b : Bytes) (rest : List Bytes) :
    joinStrs sep (a :: b :: rest) = a ++ sep ++ joinStrs sep (b :: rest) := rfl

/-- joining valid strings with a valid separator gives a valid string -/
theorem valid_joinStrs {sep : Bytes} {ss : List Bytes} (hsep : validUTF8 sep = true)
    (h : ∀ o ∈ ss, validUTF8 o = true) : validUTF8 (joinStrs sep ss) = true := by
  induction ss with
  | nil => rfl
  | cons a ss ih =>
    cases ss with
    | nil => exact h a List.mem_cons_self
    | cons b rest =>
      rw [joinStrs_cons_cons]
      exact validUTF8_append (validUTF8_append (h a List.mem_cons_self) hsep)
        (ih (fun o ho => h o (List.mem_cons_of_mem _ ho)))

example : validUTF8 (joinStrs [0xC3, 0xA9] [[0x68], [0xE2, 0x82, 0xAC], []]) = true :=
  valid_joinStrs (by decide) (by decide)

/-! ## Block 2 — `split` on a non-empty separator -/

theorem splitAux_zero (s p : Bytes) (n : Option Nat) (cur : Bytes) : splitAux 0 s p n cur = [cur ++ s] := rfl

theorem splitAux_stop (f : Nat) (s p cur : Bytes) : splitAux f s p (some 0) cur = [cur ++ s] := by
  cases f <;> simp [splitAux]

theorem splitAux_nil (f : Nat) (p : Bytes) (n : Option Nat) (cur : Bytes) (hn : n ≠ some 0) :
    splitAux (f + 1) [] p n cur = [cur] := by
  simp [splitAux, hn]

theorem splitAux_hit (f : Nat) (s p : Bytes) (n : Option Nat) (cur : Bytes) (hn : n ≠ some 0) (hs : s ≠ [])
    (hp : p.isPrefixOf s = true) :
    splitAux (f + 1) s p n cur = cur :: splitAux f (s.drop p.length) p (n.map (· - 1)) [] := by
  cases s with
  | nil => exact absurd rfl hs
  | cons b t => simp [splitAux, hn, hp]

theorem splitAux_miss (f : Nat) (b : Nat) (t p : Bytes) (n : Option Nat) (cur : Bytes) (hn : n ≠ some 0)
    (hp : p.isPrefixOf (b :: t) = false) :
    splitAux (f + 1) (b :: t) p n cur = splitAux f t p n (cur ++ [b]) := by
  simp [splitAux, hn, hp]

/-- bytes at which the separator does not start are moved to the current piece -/
theorem splitAux_skip (p : Bytes) (n : Option Nat) (hn : n ≠ some 0) : ∀ (x y : Bytes) (f : Nat) (cur : Bytes),
    (∀ j, j < x.length → p.isPrefixOf ((x ++ y).drop j) = false) →
    splitAux (f + x.length) (x ++ y) p n cur = splitAux f y p n (cur ++ x)
  | [], y, f, cur, _ => by simp
  | a :: x, y, f, cur, h => by
    have h0 := h 0 (by simp)
    rw [List.drop_zero, List.cons_append] at h0
    have e : f + (a :: x).length = (f + x.length) + 1 := by simp only [List.length_cons]; omega
    rw [e, List.cons_append, splitAux_miss _ _ _ _ _ _ hn h0,
      splitAux_skip p n hn x y f (cur ++ [a]) (fun j hj => by
        have := h (j + 1) (by simpa using hj)
        simpa using this)]
    simp

/-- once the fuel exceeds the length of the string, `splitAux` no longer depends on it (non-empty separator) -/
theorem splitAux_fuel (p : Bytes) (hne : p ≠ []) : ∀ (f1 f2 : Nat) (s : Bytes) (n : Option Nat) (cur : Bytes),
    s.length < f1 → s.length < f2 → splitAux f1 s p n cur = splitAux f2 s p n cur
  | 0, _, _, _, _, h, _ => by omega
  | _ + 1, 0, _, _, _, _, h => by omega
  | f1 + 1, f2 + 1, s, n, cur, h1, h2 => by
    by_cases hn : n = some 0
    · subst hn; rw [splitAux_stop, splitAux_stop]
    · cases s with
      | nil => rw [splitAux_nil _ _ _ _ hn, splitAux_nil _ _ _ _ hn]
      | cons b t =>
        simp only [List.length_cons] at h1 h2
        by_cases hp : p.isPrefixOf (b :: t) = true
        · rw [splitAux_hit _ _ _ _ _ hn (by simp) hp, splitAux_hit _ _ _ _ _ hn (by simp) hp]
          have hl : 0 < p.length := List.length_pos_iff.2 hne
          have : ((b :: t).drop p.length).length < t.length + 1 := by
            simp only [List.length_drop, List.length_cons]; omega
          rw [splitAux_fuel p hne f1 f2 _ _ _ (by omega) (by omega)]
        · have hp' : p.isPrefixOf (b :: t) = false := Bool.eq_false_iff.2 hp
          rw [splitAux_miss _ _ _ _ _ _ hn hp', splitAux_miss _ _ _ _ _ _ hn hp']
          exact splitAux_fuel p hne f1 f2 t n _ (by omega) (by omega)

theorem drop_encodeAll_prefix {ps cs : List Nat} (h : ps <+: cs) :
    (encodeAll cs).drop (encodeAll ps).length = encodeAll (cs.drop ps.length) := by
  obtain ⟨t, rfl⟩ := h
  rw [encodeAll_append, List.drop_left, List.drop_left]

/-- the byte-level split of an encoded string is the encoding of the code-point-level split -/
theorem splitAux_encodeAll (ps : List Nat) (hps : Scalars ps) (hne : ps ≠ []) :
    ∀ (g : Nat) (cs : List Nat) (n : Option Nat) (cur : List Nat) (f : Nat), Scalars cs →
    cs.length < g → (encodeAll cs).length < f →
    splitAux f (encodeAll cs) (encodeAll ps) n (encodeAll cur) = (splitAux g cs ps n cur).map encodeAll
  | 0, _, _, _, _, _, h, _ => by omega
  | _ + 1, _, _, _, 0, _, _, h => by omega
  | g + 1, cs, n, cur, f + 1, hcs, hg, hf => by
    have hpne : encodeAll ps ≠ [] := fun h => hne ((encodeAll_eq_nil ps).1 h)
    by_cases hn : n = some 0
    · subst hn; rw [splitAux_stop, splitAux_stop, ← encodeAll_append]; rfl
    · cases cs with
      | nil =>
        rw [encodeAll_nil, splitAux_nil _ _ _ _ hn, splitAux_nil _ _ _ _ hn]; rfl
      | cons c ct =>
        simp only [List.length_cons] at hg
        by_cases hp : ps.isPrefixOf (c :: ct) = true
        · have hpb : (encodeAll ps).isPrefixOf (encodeAll (c :: ct)) = true := by
            rw [isPrefixOf_encodeAll ps _ hps hcs, hp]
          have hpre : ps <+: c :: ct := List.isPrefixOf_iff_prefix.1 hp
          have hl : 0 < ps.length := List.length_pos_iff.2 hne
          rw [splitAux_hit _ _ _ _ _ hn (encodeAll_cons_ne_nil c ct) hpb,
            splitAux_hit _ _ _ _ _ hn (by simp) hp, drop_encodeAll_prefix hpre, List.map_cons]
          have hd : ((c :: ct).drop ps.length).length < g := by
            simp only [List.length_drop, List.length_cons]; omega
          have hl2 : 0 < (encodeAll ps).length := List.length_pos_iff.2 hpne
          have hd2 : (encodeAll ((c :: ct).drop ps.length)).length < f := by
            have hpos : 0 < (encodeAll (c :: ct)).length := List.length_pos_iff.2 (encodeAll_cons_ne_nil c ct)
            rw [← drop_encodeAll_prefix hpre, List.length_drop]; omega
          have := splitAux_encodeAll ps hps hne g _ (n.map (· - 1)) [] f (hcs.drop _) hd hd2
          rw [encodeAll_nil] at this
          rw [this]
        · have hp' : ps.isPrefixOf (c :: ct) = false := Bool.eq_false_iff.2 hp
          rw [splitAux_miss _ _ _ _ _ _ hn hp']
          have hlen : (encodeAll (c :: ct)).length = (encodeRune c).length + (encodeAll ct).length := by
            rw [encodeAll_cons, List.length_append]
          have hpos := encodeRune_length_pos c
          -- normalise the fuel to `f0 + |encodeRune c|`
          have hfuel := splitAux_fuel (encodeAll ps) hpne (f + 1)
            ((encodeAll ct).length + 1 + (encodeRune c).length) (encodeAll (c :: ct)) n (encodeAll cur)
            hf (by omega)
          rw [hfuel, encodeAll_cons, splitAux_skip _ n hn (encodeRune c) (encodeAll ct)]
          · have := splitAux_encodeAll ps hps hne g ct n (cur ++ [c]) ((encodeAll ct).length + 1)
              hcs.tail (by omega) (by omega)
            rw [encodeAll_append, encodeAll_singleton] at this
            exact this
          · intro j hj
            by_cases h0 : j = 0
            · subst h0
              rw [List.drop_zero, ← encodeAll_cons, isPrefixOf_encodeAll ps _ hps hcs, hp']
            · exact not_prefix_interior ps hps hne c hcs.head _ j (by omega) hj

/-- `split(s, sep)` (non-empty `sep`): the pieces of the byte string are the encodings of the pieces of the
    code point sequence, split by the same (element-polymorphic) function -/
theorem splitOn_encodeAll (cs ps : List Nat) (hcs : Scalars cs) (hps : Scalars ps) (hne : ps ≠ []) (n : Option Nat) :
    splitOn (encodeAll cs) (encodeAll ps) n = (splitOn cs ps n).map encodeAll := by
  unfold splitOn
  have := splitAux_encodeAll ps hps hne (cs.length + 1) cs n [] ((encodeAll cs).length + 1) hcs
    (by omega) (by omega)
  rw [encodeAll_nil] at this
  exact this

/-- "héllo wörld" as code points -/
def helloWorld : List Nat := [0x68, 0xE9, 0x6C, 0x6C, 0x6F, 0x20, 0x77, 0xF6, 0x72, 0x6C, 0x64]
theorem helloWorld_scalars : Scalars helloWorld := by unfold Scalars; decide

/-- split("héllo wörld", "ö") = ["héllo w", "rld"], on code points and (hence) on bytes -/
example : splitOn helloWorld [0xF6] none = [[0x68, 0xE9, 0x6C, 0x6C, 0x6F, 0x20, 0x77], [0x72, 0x6C, 0x64]] := by
  decide
example : splitOn (encodeAll helloWorld) (encodeAll [0xF6]) none
    = [encodeAll [0x68, 0xE9, 0x6C, 0x6C, 0x6F, 0x20, 0x77], encodeAll [0x72, 0x6C, 0x64]] := by
  rw [splitOn_encodeAll _ _ helloWorld_scalars (by unfold Scalars; decide) (by decide)]; decide
/-- "é" = C3 A9 and "ò" … share no bytes here, but "é" (C3 A9) and "ã" (C3 A3) share the lead byte: no false match -/
example : splitOn (encodeAll [0xE9, 0xE3, 0xE9]) (encodeAll [0xE3]) none = [[0xC3, 0xA9], [0xC3, 0xA9]] := by decide

theorem splitAux_mem (p : Bytes) : ∀ (f : Nat) (s : Bytes) (n : Option Nat) (cur : Bytes),
    ∀ o ∈ splitAux f s p n cur, ∀ x ∈ o, x ∈ cur ∨ x ∈ s
  | 0, s, n, cur, o, ho, x, hx => by
    rw [splitAux_zero] at ho
    rw [List.mem_singleton.1 ho] at hx
    exact List.mem_append.1 hx
  | f + 1, s, n, cur, o, ho, x, hx => by
    by_cases hn : n = some 0
    · subst hn
      rw [splitAux_stop] at ho
      rw [List.mem_singleton.1 ho] at hx
      exact List.mem_append.1 hx
    · cases s with
      | nil =>
        rw [splitAux_nil _ _ _ _ hn] at ho
        rw [List.mem_singleton.1 ho] at hx
        exact Or.inl hx
      | cons b t =>
        by_cases hp : p.isPrefixOf (b :: t) = true
        · rw [splitAux_hit _ _ _ _ _ hn (by simp) hp] at ho
          rcases List.mem_cons.1 ho with rfl | ho
          · exact Or.inl hx
          · rcases splitAux_mem p f _ _ _ o ho x hx with h | h
            · cases h
            · exact Or.inr (List.mem_of_mem_drop h)
        · have hp' : p.isPrefixOf (b :: t) = false := Bool.eq_false_iff.2 hp
          rw [splitAux_miss _ _ _ _ _ _ hn hp'] at ho
          rcases splitAux_mem p f _ _ _ o ho x hx with h | h
          · rcases List.mem_append.1 h with h | h
            · exact Or.inl h
            · rw [List.mem_singleton.1 h]; exact Or.inr List.mem_cons_self
          · exact Or.inr (List.mem_cons_of_mem _ h)

/-- every piece of a split consists of elements of the string: pieces of scalar values are scalar values -/
theorem splitOn_scalars (cs ps : List Nat) (hcs : Scalars cs) (n : Option Nat) : ∀ o ∈ splitOn cs ps n, Scalars o := by
  intro o ho x hx
  rcases splitAux_mem ps _ _ _ _ o ho x hx with h | h
  · cases h
  · exact hcs x h

example : ∀ o ∈ splitOn helloWorld [0xF6] none, Scalars o := splitOn_scalars _ _ helloWorld_scalars _

/-- `split` of a valid string on a valid non-empty separator gives valid strings -/
theorem valid_splitOn {s p : Bytes} (hs : validUTF8 s = true) (hp : validUTF8 p = true) (hne : p ≠ []) (n : Option Nat) :
    ∀ o ∈ splitOn s p n, validUTF8 o = true := by
  obtain ⟨cs, hcs, rfl⟩ := (validUTF8_iff s).1 hs
  obtain ⟨ps, hps, rfl⟩ := (validUTF8_iff p).1 hp
  have hne' : ps ≠ [] := fun h => hne (by rw [h]; rfl)
  rw [splitOn_encodeAll cs ps hcs hps hne' n]
  intro o ho
  obtain ⟨q, hq, rfl⟩ := List.mem_map.1 ho
  exact validUTF8_encodeAll q (splitOn_scalars cs ps hcs n q hq)

example : ∀ o ∈ splitOn (encodeAll helloWorld) [0xC3, 0xB6] (some 1), validUTF8 o = true :=
  valid_splitOn (validUTF8_encodeAll _ helloWorld_scalars) (by decide) (by decide) _
/-- (an invalid separator can cut a code point in two: the hypothesis on the separator is needed) -/
example : splitOn [0xC3, 0xA9] [0xA9] none = [[0xC3], []] := by decide

/-- `split` on the empty separator (one piece per code point, the last piece taking the rest when limited) gives
    valid strings -/
theorem valid_splitRunes {s : Bytes} (hs : validUTF8 s = true) (n : Option Nat) :
    ∀ o ∈ splitRunes s n, validUTF8 o = true := by
  obtain ⟨cs, hcs, rfl⟩ := (validUTF8_iff s).1 hs
  have hpieces : ∀ o ∈ runePieces (encodeAll cs), validUTF8 o = true := by
    rw [runePieces_encodeAll cs hcs]
    intro o ho
    obtain ⟨c, _, rfl⟩ := List.mem_map.1 ho
    exact validUTF8_encodeRune_any c
  unfold splitRunes
  cases n with
  | none => exact hpieces
  | some k =>
    simp only
    split
    · exact hpieces
    · intro o ho
      rcases List.mem_append.1 ho with h | h
      · exact hpieces o (List.mem_of_mem_take h)
      · rw [List.mem_singleton.1 h]
        exact validUTF8_concat (fun q hq => hpieces q (List.mem_of_mem_drop hq))

example : splitRunes (encodeAll C11.hello) (some 2) = [[0x68], [0xC3, 0xA9], [0x6C, 0x6C, 0x6F]] := by decide
example : ∀ o ∈ splitRunes (encodeAll C11.hello) (some 2), validUTF8 o = true :=
  valid_splitRunes (validUTF8_encodeAll _ C11.hello_scalars) _

theorem splitAux_ne_nil (f : Nat) (s p : Bytes) (n : Option Nat) (cur : Bytes) : splitAux f s p n cur ≠ [] := by
  induction f generalizing s n cur with
  | zero => simp [splitAux]
  | succ f ih =>
    by_cases hn : n = some 0
    · subst hn; simp [splitAux_stop]
    · cases s with
      | nil => simp [splitAux_nil _ _ _ _ hn]
      | cons b t =>
        by_cases hp : p.isPrefixOf (b :: t) = true
        · simp [splitAux_hit _ _ _ _ _ hn (by simp) hp]
        · rw [splitAux_miss _ _ _ _ _ _ hn (Bool.eq_false_iff.2 hp)]; exact ih _ _ _

theorem joinStrs_cons_ne (sep a : Bytes) (l : List Bytes) (h : l ≠ []) :
    joinStrs sep (a :: l) = a ++ sep ++ joinStrs sep l := by
  cases l with
  | nil => exact absurd rfl h
  | cons b r => rfl

/-- joining the pieces with the separator gives back what was split (any fuel, any limit, any separator) -/
theorem splitAux_join (p : Bytes) : ∀ (f : Nat) (s : Bytes) (n : Option Nat) (cur : Bytes),
    joinStrs p (splitAux f s p n cur) = cur ++ s
  | 0, s, n, cur => rfl
  | f + 1, s, n, cur => by
    by_cases hn : n = some 0
    · subst hn; rw [splitAux_stop]; rfl
    · cases s with
      | nil => rw [splitAux_nil _ _ _ _ hn]; simp [joinStrs]
      | cons b t =>
        by_cases hp : p.isPrefixOf (b :: t) = true
        · rw [splitAux_hit _ _ _ _ _ hn (by simp) hp, joinStrs_cons_ne _ _ _ (splitAux_ne_nil _ _ _ _ _),
            splitAux_join p f, List.nil_append, List.append_assoc]
          obtain ⟨r, hr⟩ := List.isPrefixOf_iff_prefix.1 hp
          rw [← hr, List.drop_left]
        · rw [splitAux_miss _ _ _ _ _ _ hn (Bool.eq_false_iff.2 hp), splitAux_join p f]; simp

set_option linter.unusedVariables false in
/-- what `splitOn` means on any lists (code points or bytes): joining the pieces with the separator gives the
    string back -/
theorem splitOn_join (s p : List Nat) (hne : p ≠ []) : joinStrs p (splitOn s p none) = s := by
  have := splitAux_join p (s.length + 1) s none []
  simpa [splitOn] using this

/-- the same with a limit on the number of splits -/
theorem splitOn_join_limit (s p : List Nat) (n : Option Nat) : joinStrs p (splitOn s p n) = s := by
  have := splitAux_join p (s.length + 1) s n []
  simpa [splitOn] using this

example : joinStrs [0xF6] (splitOn helloWorld [0xF6] none) = helloWorld := splitOn_join _ _ (by decide)
example : splitOn ([] : List Nat) [0xF6] none = [[]] := by decide

/-! ## Block 3 — `trim` -/

theorem trimLeftBy_succ (p : Nat → Bool) (f : Nat) (s : Bytes) (h : s ≠ []) :
    trimLeftBy p (f + 1) s = if p (decodeRune s).1 then trimLeftBy p f (s.drop (decodeRune s).2) else s := by
  cases s with
  | nil => exact absurd rfl h
  | cons b bs => rfl

theorem trimLeftBy_nil (p : Nat → Bool) (f : Nat) : trimLeftBy p f [] = [] := by cases f <;> rfl

theorem trimLeftBy_encodeAll (p : Nat → Bool) (cs : List Nat) (h : Scalars cs) :
    ∀ f, cs.length ≤ f → trimLeftBy p f (encodeAll cs) = encodeAll (cs.dropWhile p) := by
  induction cs with
  | nil => intro f _; exact trimLeftBy_nil p f
  | cons c cs ih =>
    intro f hf
    match f, hf with
    | f + 1, hf =>
      rw [trimLeftBy_succ _ _ _ (encodeAll_cons_ne_nil c cs), decodeRune_cons c cs h.head]
      simp only [drop_cons, List.dropWhile_cons]
      by_cases hp : p c = true
      · rw [if_pos hp, if_pos hp]; exact ih h.tail f (by simpa using hf)
      · rw [if_neg hp, if_neg hp]

/-- `strings.TrimLeftFunc` drops the leading code points that satisfy the predicate -/
theorem trimLeftF_encodeAll (p : Nat → Bool) (cs : List Nat) (h : Scalars cs) :
    trimLeftF p (encodeAll cs) = encodeAll (cs.dropWhile p) :=
  trimLeftBy_encodeAll p cs h _ (length_le_encodeAll cs)

/-- "ééhéé" -/
def eeHee : List Nat := [0xE9, 0xE9, 0x68, 0xE9, 0xE9]
theorem eeHee_scalars : Scalars eeHee := by unfold Scalars; decide

example : trimLeftF (· == 0xE9) (encodeAll eeHee) = encodeAll [0x68, 0xE9, 0xE9] := by
  rw [trimLeftF_encodeAll _ _ eeHee_scalars]; decide
example : trimLeftF (· == 0xE9) (encodeAll eeHee) = [0x68, 0xC3, 0xA9, 0xC3, 0xA9] := by decide

theorem trimRightBy_succ (p : Nat → Bool) (f : Nat) (s : Bytes) (h : s ≠ []) :
    trimRightBy p (f + 1) s
      = if p (decodeLastRune s).1 then trimRightBy p f (s.take (s.length - (decodeLastRune s).2)) else s := by
  cases s with
  | nil => exact absurd rfl h
  | cons b bs => rfl

theorem trimRightBy_nil (p : Nat → Bool) (f : Nat) : trimRightBy p f [] = [] := by cases f <;> rfl

theorem trimRightBy_encodeAll (p : Nat → Bool) (rs : List Nat) (h : Scalars rs) :
    ∀ f, rs.length ≤ f → trimRightBy p f (encodeAll rs.reverse) = encodeAll (rs.dropWhile p).reverse := by
  induction rs with
  | nil => intro f _; exact trimRightBy_nil p f
  | cons c rs ih =>
    intro f hf
    match f, hf with
    | f + 1, hf =>
      rw [trimRightBy_succ _ _ _ (encodeAll_reverse_cons_ne_nil c rs), decodeLastRune_snoc c rs h.head]
      simp only [take_snoc, List.dropWhile_cons]
      by_cases hp : p c = true
      · rw [if_pos hp, if_pos hp]; exact ih h.tail f (by simpa using hf)
      · rw [if_neg hp, if_neg hp]

/-- `strings.TrimRightFunc` drops the trailing code points that satisfy the predicate -/
theorem trimRightF_encodeAll (p : Nat → Bool) (cs : List Nat) (h : Scalars cs) :
    trimRightF p (encodeAll cs) = encodeAll (cs.reverse.dropWhile p).reverse := by
  have := trimRightBy_encodeAll p cs.reverse h.reverse (encodeAll cs).length
    (by rw [List.length_reverse]; exact length_le_encodeAll cs)
  rw [List.reverse_reverse] at this
  exact this

example : trimRightF (· == 0xE9) (encodeAll eeHee) = encodeAll [0xE9, 0xE9, 0x68] := by
  rw [trimRightF_encodeAll _ _ eeHee_scalars]; decide

/-- the cutset of `trim(s, chars)` is a set of code points -/
theorem inCutset_encodeAll (cut : List Nat) (h : Scalars cut) (r : Nat) : inCutset (encodeAll cut) r = cut.contains r := by
  unfold inCutset; rw [decodeAll_encodeAll cut h]

example : inCutset (encodeAll [0xE9, 0x20AC]) 0x20AC = true := by
  rw [inCutset_encodeAll _ (by unfold Scalars; decide)]; decide
/-- (a byte of the cutset's encoding is not in the cutset: 0xC3 is the lead byte of "é") -/
example : inCutset (encodeAll [0xE9]) 0xC3 = false := by
  rw [inCutset_encodeAll _ (by unfold Scalars; decide)]; decide

/-- trim("ééhéé", "é") = "h" -/
example : trimRightF (inCutset (encodeAll [0xE9])) (trimLeftF (inCutset (encodeAll [0xE9])) (encodeAll eeHee)) = [0x68] := by
  decide

theorem scalars_dropWhile (p : Nat → Bool) {cs : List Nat} (h : Scalars cs) : Scalars (cs.dropWhile p) :=
  fun c hc => h c ((List.dropWhile_sublist p).subset hc)

/-- trimming on the left keeps a valid string valid -/
theorem valid_trimLeftF (p : Nat → Bool) {s : Bytes} (hs : validUTF8 s = true) : validUTF8 (trimLeftF p s) = true := by
  obtain ⟨cs, hcs, rfl⟩ := (validUTF8_iff s).1 hs
  rw [trimLeftF_encodeAll p cs hcs]
  exact validUTF8_encodeAll _ (scalars_dropWhile p hcs)

/-- trimming on the right keeps a valid string valid -/
theorem valid_trimRightF (p : Nat → Bool) {s : Bytes} (hs : validUTF8 s = true) : validUTF8 (trimRightF p s) = true := by
  obtain ⟨cs, hcs, rfl⟩ := (validUTF8_iff s).1 hs
  rw [trimRightF_encodeAll p cs hcs]
  exact validUTF8_encodeAll _ (scalars_dropWhile p hcs.reverse).reverse

example : validUTF8 (trimLeftF isSpaceRune [0x20, 0xC2, 0xA0, 0xC3, 0xA9]) = true := valid_trimLeftF _ (by decide)
example : trimLeftF isSpaceRune [0x20, 0xC2, 0xA0, 0xC3, 0xA9] = [0xC3, 0xA9] := by decide
example : validUTF8 (trimRightF isSpaceRune [0xC3, 0xA9, 0xE3, 0x80, 0x80]) = true := valid_trimRightF _ (by decide)
example : trimRightF isSpaceRune [0xC3, 0xA9, 0xE3, 0x80, 0x80] = [0xC3, 0xA9] := by decide

/-! ## Block 4 — `replace` -/

/-- code point level `strings.Replace`: the same (element-polymorphic) functions, applied to the code points; for an
    empty `old` the "pieces" between which `new` is inserted are the single code points -/
def cpReplace (cs old new : List Nat) (n : Option Nat) : List Nat :=
  if old.isEmpty then replaceEmptyAux (cs.map (fun c => [c])) new n else replaceAux (cs.length + 1) cs old new n

theorem replaceAux_stop (f : Nat) (s old new : Bytes) : replaceAux f s old new (some 0) = s := by
  cases f <;> simp [replaceAux]

theorem replaceAux_nil (f : Nat) (old new : Bytes) (n : Option Nat) : replaceAux f [] old new n = [] := by
  cases f with
  | zero => rfl
  | succ f => by_cases hn : n = some 0 <;> simp [replaceAux, hn]

theorem replaceAux_hit (f : Nat) (s old new : Bytes) (n : Option Nat) (hn : n ≠ some 0) (hs : s ≠ [])
    (hp : old.isPrefixOf s = true) :
    replaceAux (f + 1) s old new n = new ++ replaceAux f (s.drop old.length) old new (n.map (· - 1)) := by
  cases s with
  | nil => exact absurd rfl hs
  | cons b t => simp [replaceAux, hn, hp]

theorem replaceAux_miss (f : Nat) (b : Nat) (t old new : Bytes) (n : Option Nat) (hn : n ≠ some 0)
    (hp : old.isPrefixOf (b :: t) = false) :
    replaceAux (f + 1) (b :: t) old new n = b :: replaceAux f t old new n := by
  simp [replaceAux, hn, hp]

/-- bytes at which `old` does not start are copied -/
theorem replaceAux_skip (old new : Bytes) (n : Option Nat) (hn : n ≠ some 0) : ∀ (x y : Bytes) (f : Nat),
    (∀ j, j < x.length → old.isPrefixOf ((x ++ y).drop j) = false) →
    replaceAux (f + x.length) (x ++ y) old new n = x ++ replaceAux f y old new n
  | [], y, f, _ => by simp
  | a :: x, y, f, h => by
    have h0 := h 0 (by simp)
    rw [List.drop_zero, List.cons_append] at h0
    have e : f + (a :: x).length = (f + x.length) + 1 := by simp only [List.length_cons]; omega
    rw [e, List.cons_append, replaceAux_miss _ _ _ _ _ _ hn h0,
      replaceAux_skip old new n hn x y f (fun j hj => by
        have := h (j + 1) (by simpa using hj)
        simpa using this)]
    simp

/-- once the fuel exceeds the length of the string, `replaceAux` no longer depends on it (non-empty `old`) -/
theorem replaceAux_fuel (old new : Bytes) (hne : old ≠ []) : ∀ (f1 f2 : Nat) (s : Bytes) (n : Option Nat),
    s.length < f1 → s.length < f2 → replaceAux f1 s old new n = replaceAux f2 s old new n
  | 0, _, _, _, h, _ => by omega
  | _ + 1, 0, _, _, _, h => by omega
  | f1 + 1, f2 + 1, s, n, h1, h2 => by
    by_cases hn : n = some 0
    · subst hn; rw [replaceAux_stop, replaceAux_stop]
    · cases s with
      | nil => rw [replaceAux_nil, replaceAux_nil]
      | cons b t =>
        simp only [List.length_cons] at h1 h2
        by_cases hp : old.isPrefixOf (b :: t) = true
        · rw [replaceAux_hit _ _ _ _ _ hn (by simp) hp, replaceAux_hit _ _ _ _ _ hn (by simp) hp]
          have hl : 0 < old.length := List.length_pos_iff.2 hne
          have : ((b :: t).drop old.length).length < t.length + 1 := by
            simp only [List.length_drop, List.length_cons]; omega
          rw [replaceAux_fuel old new hne f1 f2 _ _ (by omega) (by omega)]
        · have hp' : old.isPrefixOf (b :: t) = false := Bool.eq_false_iff.2 hp
          rw [replaceAux_miss _ _ _ _ _ _ hn hp', replaceAux_miss _ _ _ _ _ _ hn hp']
          rw [replaceAux_fuel old new hne f1 f2 t n (by omega) (by omega)]

/-- the byte-level replacement in an encoded string is the encoding of the code-point-level replacement -/
theorem replaceAux_encodeAll (os ns : List Nat) (hos : Scalars os) (hne : os ≠ []) :
    ∀ (g : Nat) (cs : List Nat) (n : Option Nat) (f : Nat), Scalars cs →
    cs.length < g → (encodeAll cs).length < f →
    replaceAux f (encodeAll cs) (encodeAll os) (encodeAll ns) n = encodeAll (replaceAux g cs os ns n)
  | 0, _, _, _, _, h, _ => by omega
  | _ + 1, _, _, 0, _, _, h => by omega
  | g + 1, cs, n, f + 1, hcs, hg, hf => by
    have hpne : encodeAll os ≠ [] := fun h => hne ((encodeAll_eq_nil os).1 h)
    by_cases hn : n = some 0
    · subst hn; rw [replaceAux_stop, replaceAux_stop]
    · cases cs with
      | nil => rw [encodeAll_nil, replaceAux_nil, replaceAux_nil]; rfl
      | cons c ct =>
        simp only [List.length_cons] at hg
        by_cases hp : os.isPrefixOf (c :: ct) = true
        · have hpb : (encodeAll os).isPrefixOf (encodeAll (c :: ct)) = true := by
            rw [isPrefixOf_encodeAll os _ hos hcs, hp]
          have hpre : os <+: c :: ct := List.isPrefixOf_iff_prefix.1 hp
          have hl : 0 < os.length := List.length_pos_iff.2 hne
          rw [replaceAux_hit _ _ _ _ _ hn (encodeAll_cons_ne_nil c ct) hpb,
            replaceAux_hit _ _ _ _ _ hn (by simp) hp, drop_encodeAll_prefix hpre, encodeAll_append]
          have hd : ((c :: ct).drop os.length).length < g := by
            simp only [List.length_drop, List.length_cons]; omega
          have hl2 : 0 < (encodeAll os).length := List.length_pos_iff.2 hpne
          have hd2 : (encodeAll ((c :: ct).drop os.length)).length < f := by
            have hpos : 0 < (encodeAll (c :: ct)).length := List.length_pos_iff.2 (encodeAll_cons_ne_nil c ct)
            rw [← drop_encodeAll_prefix hpre, List.length_drop]; omega
          rw [replaceAux_encodeAll os ns hos hne g _ (n.map (· - 1)) f (hcs.drop _) hd hd2]
        · have hp' : os.isPrefixOf (c :: ct) = false := Bool.eq_false_iff.2 hp
          rw [replaceAux_miss _ _ _ _ _ _ hn hp']
          have hlen : (encodeAll (c :: ct)).length = (encodeRune c).length + (encodeAll ct).length := by
            rw [encodeAll_cons, List.length_append]
          have hpos := encodeRune_length_pos c
          have hfuel := replaceAux_fuel (encodeAll os) (encodeAll ns) hpne (f + 1)
            ((encodeAll ct).length + 1 + (encodeRune c).length) (encodeAll (c :: ct)) n hf (by omega)
          rw [hfuel, encodeAll_cons, replaceAux_skip _ _ n hn (encodeRune c) (encodeAll ct)]
          · rw [replaceAux_encodeAll os ns hos hne g ct n ((encodeAll ct).length + 1)
              hcs.tail (by omega) (by omega), encodeAll_cons]
          · intro j hj
            by_cases h0 : j = 0
            · subst h0
              rw [List.drop_zero, ← encodeAll_cons, isPrefixOf_encodeAll os _ hos hcs, hp']
            · exact not_prefix_interior os hos hne c hcs.head _ j (by omega) hj

theorem concat_singletons (cs : List Nat) : (cs.map (fun c => [c])).foldr (· ++ ·) [] = cs := by
  induction cs with
  | nil => rfl
  | cons c cs ih => simp only [List.map_cons, List.foldr_cons, ih]; rfl

/-- replacement of the empty string: `new` is inserted before every code point (and at the end) -/
theorem replaceEmptyAux_encodeAll (ns : List Nat) : ∀ (cs : List Nat) (n : Option Nat),
    replaceEmptyAux (cs.map encodeRune) (encodeAll ns) n
      = encodeAll (replaceEmptyAux (cs.map (fun c => [c])) ns n)
  | [], n => by
    simp only [List.map_nil, replaceEmptyAux]
    split <;> rfl
  | c :: cs, n => by
    simp only [List.map_cons, replaceEmptyAux]
    split
    · rw [C11.concat_pieces, concat_singletons, encodeAll_append, encodeAll_singleton]
    · rw [replaceEmptyAux_encodeAll ns cs, encodeAll_append, encodeAll_append, encodeAll_singleton]

set_option linter.unusedVariables false in
/-- `strings.Replace(s, old, new, n)` acts on code points: the bytes of the result are the encoding of the result of
    the same replacement carried out on the code point sequences -/
theorem stringsReplace_encodeAll (cs os ns : List Nat) (hcs : Scalars cs) (hos : Scalars os) (hns : Scalars ns)
    (n : Option Nat) :
    stringsReplace (encodeAll cs) (encodeAll os) (encodeAll ns) n = encodeAll (cpReplace cs os ns n) := by
  unfold stringsReplace cpReplace
  cases os with
  | nil =>
    simp only [encodeAll_nil, List.isEmpty_nil, if_true]
    rw [runePieces_encodeAll cs hcs]
    exact replaceEmptyAux_encodeAll ns cs n
  | cons o os =>
    have e : (encodeAll (o :: os)).isEmpty = false := isEmpty_encodeAll _ (by simp)
    rw [e]
    simp only [List.isEmpty_cons, Bool.false_eq_true, if_false]
    exact replaceAux_encodeAll (o :: os) ns hos (by simp) _ cs n _ hcs (by omega) (by omega)

/-- replace("héllo", "l", "ł") = "héłło" (ł = U+0142) -/
example : cpReplace C11.hello [0x6C] [0x142] none = [0x68, 0xE9, 0x142, 0x142, 0x6F] := by decide
example : stringsReplace (encodeAll C11.hello) (encodeAll [0x6C]) (encodeAll [0x142]) none
    = encodeAll [0x68, 0xE9, 0x142, 0x142, 0x6F] := by
  rw [stringsReplace_encodeAll _ _ _ C11.hello_scalars (by unfold Scalars; decide) (by unfold Scalars; decide)]
  decide
/-- replace("héllo", "", "-", 3) = "-h-é-llo": the empty string is found between code points, not between bytes -/
example : stringsReplace (encodeAll C11.hello) [] [0x2D] (some 3)
    = [0x2D, 0x68, 0x2D, 0xC3, 0xA9, 0x2D, 0x6C, 0x6C, 0x6F] := by decide
example : cpReplace C11.hello [] [0x2D] (some 3) = [0x2D, 0x68, 0x2D, 0xE9, 0x2D, 0x6C, 0x6C, 0x6F] := by decide

theorem replaceAux_mem (old new : Bytes) : ∀ (f : Nat) (s : Bytes) (n : Option Nat),
    ∀ x ∈ replaceAux f s old new n, x ∈ s ∨ x ∈ new
  | 0, s, n, x, hx => Or.inl hx
  | f + 1, s, n, x, hx => by
    by_cases hn : n = some 0
    · subst hn; rw [replaceAux_stop] at hx; exact Or.inl hx
    · cases s with
      | nil => rw [replaceAux_nil] at hx; cases hx
      | cons b t =>
        by_cases hp : old.isPrefixOf (b :: t) = true
        · rw [replaceAux_hit _ _ _ _ _ hn (by simp) hp] at hx
          rcases List.mem_append.1 hx with h | h
          · exact Or.inr h
          · rcases replaceAux_mem old new f _ _ x h with h | h
            · exact Or.inl (List.mem_of_mem_drop h)
            · exact Or.inr h
        · rw [replaceAux_miss _ _ _ _ _ _ hn (Bool.eq_false_iff.2 hp)] at hx
          rcases List.mem_cons.1 hx with rfl | h
          · exact Or.inl List.mem_cons_self
          · rcases replaceAux_mem old new f _ _ x h with h | h
            · exact Or.inl (List.mem_cons_of_mem _ h)
            · exact Or.inr h

theorem replaceEmptyAux_mem (new : Bytes) : ∀ (ps : List Bytes) (n : Option Nat),
    ∀ x ∈ replaceEmptyAux ps new n, x ∈ new ∨ x ∈ ps.foldr (· ++ ·) []
  | [], n, x, hx => by
    simp only [replaceEmptyAux] at hx
    split at hx
    · cases hx
    · exact Or.inl hx
  | p :: ps, n, x, hx => by
    simp only [replaceEmptyAux] at hx
    split at hx
    · exact Or.inr hx
    · rcases List.mem_append.1 hx with h | h
      · rcases List.mem_append.1 h with h | h
        · exact Or.inl h
        · exact Or.inr (by simp only [List.foldr_cons]; exact List.mem_append_left _ h)
      · rcases replaceEmptyAux_mem new ps _ x h with h | h
        · exact Or.inl h
        · exact Or.inr (by simp only [List.foldr_cons]; exact List.mem_append_right _ h)

/-- the result of a replacement consists of code points of the string and of `new` -/
theorem cpReplace_mem (cs os ns : List Nat) (n : Option Nat) : ∀ x ∈ cpReplace cs os ns n, x ∈ cs ∨ x ∈ ns := by
  intro x hx
  unfold cpReplace at hx
  split at hx
  · rcases replaceEmptyAux_mem ns _ _ x hx with h | h
    · exact Or.inr h
    · rw [concat_singletons] at h; exact Or.inl h
  · exact replaceAux_mem os ns _ _ _ x hx

set_option linter.unusedVariables false in
/-- replacing within scalar values by scalar values gives scalar values -/
theorem cpReplace_scalars (cs os ns : List Nat) (hcs : Scalars cs) (hos : Scalars os) (hns : Scalars ns)
    (n : Option Nat) : Scalars (cpReplace cs os ns n) := by
  intro x hx
  rcases cpReplace_mem cs os ns n x hx with h | h
  · exact hcs x h
  · exact hns x h

example : Scalars (cpReplace C11.hello [0x6C] [0x142] none) :=
  cpReplace_scalars _ _ _ C11.hello_scalars (by unfold Scalars; decide) (by unfold Scalars; decide) _

/-- `replace` on valid strings gives a valid string -/
theorem valid_stringsReplace {s old new : Bytes} (hs : validUTF8 s = true) (ho : validUTF8 old = true)
    (hn : validUTF8 new = true) (n : Option Nat) : validUTF8 (stringsReplace s old new n) = true := by
  obtain ⟨cs, hcs, rfl⟩ := (validUTF8_iff s).1 hs
  obtain ⟨os, hos, rfl⟩ := (validUTF8_iff old).1 ho
  obtain ⟨ns, hns, rfl⟩ := (validUTF8_iff new).1 hn
  rw [stringsReplace_encodeAll cs os ns hcs hos hns n]
  exact validUTF8_encodeAll _ (cpReplace_scalars cs os ns hcs hos hns n)

example : validUTF8 (stringsReplace (encodeAll C11.hello) [0x6C] [0xC5, 0x82] (some 1)) = true :=
  valid_stringsReplace (validUTF8_encodeAll _ C11.hello_scalars) (by decide) (by decide) _
/-- (an invalid `old` can cut a code point in two: the hypotheses are needed) -/
example : stringsReplace [0xC3, 0xA9] [0xA9] [] none = [0xC3] := by decide

/-! ## Block 5 — case mapping and `join` -/

theorem lowerRune_ascii (b : Nat) (h : b < 0x80) : (lowerRune b).getD b < 0x80 := by
  unfold lowerRune; rw [if_pos h]; simp only [Option.getD_some]; split <;> omega

theorem upperRune_ascii (b : Nat) (h : b < 0x80) : (upperRune b).getD b < 0x80 := by
  unfold upperRune; rw [if_pos h]; simp only [Option.getD_some]; split <;> omega

/-- the result of `strings.Map`-style case mapping is valid UTF-8 whatever the input: the ASCII fast path maps ASCII to
    ASCII, the general path re-encodes decoded runes -/
theorem valid_caseMap (f : Nat → Option Nat) (hf : ∀ b, b < 0x80 → (f b).getD b < 0x80) {s out : Bytes}
    (h : caseMap f s = .ok (.str out)) : validUTF8 out = true := by
  unfold caseMap at h
  split at h
  · rename_i ha
    injection h with h; injection h with h
    subst h
    apply validUTF8_ascii
    intro b hb
    obtain ⟨a, ha', rfl⟩ := List.mem_map.1 hb
    have : a < 0x80 := by simpa using (List.all_eq_true.1 ha) a ha'
    exact hf a this
  · split at h
    · injection h with h; injection h with h
      subst h
      exact validUTF8_encodeAll_any _
    · cases h

theorem caseMap_shape (f : Nat → Option Nat) (s : Bytes) (v : Val) (h : caseMap f s = .ok v) : ∃ out, v = .str out := by
  unfold caseMap at h
  split at h
  · injection h with h; exact ⟨_, h.symm⟩
  · split at h
    · injection h with h; exact ⟨_, h.symm⟩
    · cases h

/-- `lower` of ANY string (valid or not) gives valid UTF-8 -/
theorem valid_lower {s out : Bytes} (h : lower (.str s) = .ok (.str out)) : validUTF8 out = true :=
  valid_caseMap lowerRune lowerRune_ascii h

/-- `upper` of ANY string (valid or not) gives valid UTF-8 -/
theorem valid_upper {s out : Bytes} (h : upper (.str s) = .ok (.str out)) : validUTF8 out = true :=
  valid_caseMap upperRune upperRune_ascii h

/-- a successful `lower` of a string is a string -/
theorem lower_str_shape (s : Bytes) (v : Val) (h : lower (.str s) = .ok v) : ∃ out, v = .str out :=
  caseMap_shape lowerRune s v h

/-- a successful `upper` of a string is a string -/
theorem upper_str_shape (s : Bytes) (v : Val) (h : upper (.str s) = .ok v) : ∃ out, v = .str out :=
  caseMap_shape upperRune s v h

/-- lower of the invalid "H\xC3" is "h�": valid -/
example : lower (.str [0x48, 0xC3]) = .ok (.str [0x68, 0xEF, 0xBF, 0xBD]) := rfl
example : validUTF8 [0x68, 0xEF, 0xBF, 0xBD] = true :=
  valid_lower (s := [0x48, 0xC3]) rfl
example : upper (.str [0x68, 0xC3, 0xA9]) = .ok (.str [0x48, 0xC3, 0x89]) := rfl
example : ∃ out, (Val.str [0x48, 0xC3, 0x89]) = .str out := upper_str_shape [0x68, 0xC3, 0xA9] _ rfl

/-- `join` acts on code points: joining encodings with an encoded separator is the encoding of the join -/
theorem joinStrs_encodeAll (sep : List Nat) (ss : List (List Nat)) :
    joinStrs (encodeAll sep) (ss.map encodeAll) = encodeAll (joinStrs sep ss) := by
  induction ss with
  | nil => rfl
  | cons a ss ih =>
    cases ss with
    | nil => rfl
    | cons b rest =>
      rw [List.map_cons, List.map_cons, joinStrs_cons_cons, joinStrs_cons_cons, encodeAll_append, encodeAll_append]
      rw [List.map_cons] at ih
      rw [ih]

example : joinStrs (encodeAll [0xE9]) ([[0x68], [0x20AC], []].map encodeAll) = encodeAll [0x68, 0xE9, 0x20AC, 0xE9] := by
  rw [joinStrs_encodeAll]; decide

/-- a code point whose encoding is all ASCII bytes is an ASCII code point -/
theorem ascii_of_encodeRune_ascii (c : Nat) (h : ∀ b ∈ encodeRune c, b < 0x80) : c < 0x80 := by
  unfold encodeRune at h
  by_cases h1 : c < 0x80
  · exact h1
  · rw [if_neg h1] at h
    split at h
    · have := h _ List.mem_cons_self; omega
    · split at h
      · have := h _ List.mem_cons_self; omega
      · split at h
        · have := h _ List.mem_cons_self; omega
        · have := h _ List.mem_cons_self; omega

theorem ascii_of_encodeAll_ascii : ∀ (cs : List Nat), (∀ b ∈ encodeAll cs, b < 0x80) → ∀ c ∈ cs, c < 0x80
  | [], _, c, hc => by cases hc
  | a :: cs, h, c, hc => by
    rw [encodeAll_cons] at h
    rcases List.mem_cons.1 hc with rfl | hc
    · exact ascii_of_encodeRune_ascii _ (fun b hb => h b (List.mem_append_left _ hb))
    · exact ascii_of_encodeAll_ascii cs (fun b hb => h b (List.mem_append_right _ hb)) c hc

theorem mapRunes_some_getD (f : Nat → Option Nat) : ∀ (cs rs : List Nat), mapRunes f cs = some rs →
    rs = cs.map (fun b => (f b).getD b)
  | [], rs, h => by simp only [mapRunes] at h; injection h with h; exact h.symm
  | c :: cs, rs, h => by
    simp only [mapRunes] at h
    split at h
    · cases h
    · rename_i r' hr
      cases hm : mapRunes f cs with
      | none => rw [hm] at h; cases h
      | some rs' =>
        rw [hm] at h
        simp only [Option.map_some] at h
        injection h with h
        rw [← h, List.map_cons, hr, ← mapRunes_some_getD f cs rs' hm]; rfl

/-- the modelled part of case mapping acts code point by code point; the ASCII fast path (which maps bytes) agrees
    with it -/
theorem caseMap_codepoints (f : Nat → Option Nat) (hf : ∀ b, b < 0x80 → (f b).getD b < 0x80)
    (cs : List Nat) (h : Scalars cs) (rs : List Nat) (hm : mapRunes f cs = some rs) :
    caseMap f (encodeAll cs) = .ok (.str (encodeAll rs)) := by
  unfold caseMap
  split
  · rename_i ha
    have hb : ∀ b ∈ encodeAll cs, b < 0x80 := fun b hb => by simpa using (List.all_eq_true.1 ha) b hb
    have hc := ascii_of_encodeAll_ascii cs hb
    have hrs := mapRunes_some_getD f cs rs hm
    have hr : ∀ b ∈ rs, b < 0x80 := by
      intro b hb
      rw [hrs] at hb
      obtain ⟨a, ha', rfl⟩ := List.mem_map.1 hb
      exact hf a (hc a ha')
    rw [encodeAll_ascii hc, encodeAll_ascii hr, hrs]
  · rw [decodeAll_encodeAll cs h, hm]

/-- `lower` maps a string code point by code point (where the model covers the alphabet) -/
theorem lower_codepoints (cs : List Nat) (h : Scalars cs) (rs : List Nat) (hm : mapRunes lowerRune cs = some rs) :
    lower (.str (encodeAll cs)) = .ok (.str (encodeAll rs)) :=
  caseMap_codepoints lowerRune lowerRune_ascii cs h rs hm

/-- `upper` maps a string code point by code point (where the model covers the alphabet) -/
theorem upper_codepoints (cs : List Nat) (h : Scalars cs) (rs : List Nat) (hm : mapRunes upperRune cs = some rs) :
    upper (.str (encodeAll cs)) = .ok (.str (encodeAll rs)) :=
  caseMap_codepoints upperRune upperRune_ascii cs h rs hm

/-- upper("héllo") = "HÉLLO", lower("HÉ") = "hé"; pure ASCII goes through the fast path with the same result -/
example : upper (.str (encodeAll C11.hello)) = .ok (.str (encodeAll [0x48, 0xC9, 0x4C, 0x4C, 0x4F])) :=
  upper_codepoints _ C11.hello_scalars _ (by decide)
example : lower (.str (encodeAll [0x48, 0xC9])) = .ok (.str (encodeAll [0x68, 0xE9])) :=
  lower_codepoints _ (by unfold Scalars; decide) _ (by decide)
example : lower (.str (encodeAll [0x48, 0x49])) = .ok (.str (encodeAll [0x68, 0x69])) :=
  lower_codepoints _ (by unfold Scalars; decide) _ (by decide)

/-! ## the pieces of an unlimited split do not contain the separator -/

theorem splitAux_no_sep (p : Bytes) (hne : p ≠ []) : ∀ (f : Nat) (s cur : Bytes), s.length < f →
    (∀ k, k < cur.length → ¬ p <+: (cur ++ s).drop k) →
    ∀ o ∈ splitAux f s p none cur, ∀ j, ¬ p <+: o.drop j
  | 0, _, _, h, _, _, _, _ => by omega
  | f + 1, s, cur, hf, hinv, o, ho, j => by
    have hn : (none : Option Nat) ≠ some 0 := by simp
    have hcur : ∀ j, ¬ p <+: cur.drop j := by
      intro j hp
      by_cases hj : j < cur.length
      · apply hinv j hj
        rw [List.drop_append_of_le_length (by omega)]
        exact hp.trans (List.prefix_append _ _)
      · rw [List.drop_eq_nil_of_le (by omega), List.prefix_nil] at hp
        exact hne hp
    cases s with
    | nil =>
      rw [splitAux_nil _ _ _ _ hn] at ho
      rw [List.mem_singleton.1 ho]; exact hcur j
    | cons b t =>
      simp only [List.length_cons] at hf
      by_cases hp : p.isPrefixOf (b :: t) = true
      · rw [splitAux_hit _ _ _ _ _ hn (by simp) hp] at ho
        rcases List.mem_cons.1 ho with rfl | ho
        · exact hcur j
        · have hl : 0 < p.length := List.length_pos_iff.2 hne
          exact splitAux_no_sep p hne f _ [] (by simp only [List.length_drop, List.length_cons]; omega)
            (fun k hk => by simp at hk) o ho j
      · rw [splitAux_miss _ _ _ _ _ _ hn (Bool.eq_false_iff.2 hp)] at ho
        refine splitAux_no_sep p hne f t (cur ++ [b]) (by omega) ?_ o ho j
        intro k hk
        rw [List.append_assoc, List.singleton_append]
        by_cases hk' : k < cur.length
        · exact hinv k hk'
        · have : k = cur.length := by simp only [List.length_append, List.length_singleton] at hk; omega
          subst this
          rw [List.drop_left]
          exact fun hh => hp (List.isPrefixOf_iff_prefix.2 hh)

theorem indexOf_none_of_no_occurrence (s p : List Nat) (h : ∀ j, ¬ p <+: s.drop j) : indexOf s p = none := by
  cases hi : indexOf s p with
  | none => rfl
  | some k =>
    obtain ⟨i, _, _, hp, _⟩ := indexOfAux_spec s p 0 k hi
    exact absurd hp (h i)

/-- no piece of an unlimited split contains the separator (on any lists: code points or bytes) -/
theorem splitOn_no_sep (s p : List Nat) (hne : p ≠ []) : ∀ o ∈ splitOn s p none, indexOf o p = none := by
  intro o ho
  apply indexOf_none_of_no_occurrence
  exact splitAux_no_sep p hne (s.length + 1) s [] (by omega) (fun k hk => by simp at hk) o ho

example : ∀ o ∈ splitOn helloWorld [0x6C] none, indexOf o [0x6C] = none := splitOn_no_sep _ _ (by decide)
example : splitOn helloWorld [0x6C] none = [[0x68, 0xE9], [], [0x6F, 0x20, 0x77, 0xF6, 0x72], [0x64]] := by decide
/-- (with a limit the last piece may contain the separator) -/
example : splitOn helloWorld [0x6C] (some 1) = [[0x68, 0xE9], [0x6C, 0x6F, 0x20, 0x77, 0xF6, 0x72, 0x6C, 0x64]] := by
  decide

#print axioms validUTF8_append
#print axioms validUTF8_concat
#print axioms validUTF8_encodeRune_any
#print axioms validUTF8_encodeAll_any
#print axioms validUTF8_ascii
#print axioms valid_reverseRunes
#print axioms valid_walkFwd
#print axioms valid_walkBwd
#print axioms valid_joinStrs
#print axioms splitOn_encodeAll
#print axioms splitOn_scalars
#print axioms valid_splitOn
#print axioms valid_splitRunes
#print axioms splitOn_join
#print axioms splitOn_join_limit
#print axioms splitOn_no_sep
#print axioms trimLeftF_encodeAll
#print axioms trimRightF_encodeAll
#print axioms inCutset_encodeAll
#print axioms valid_trimLeftF
#print axioms valid_trimRightF
#print axioms stringsReplace_encodeAll
#print axioms cpReplace_scalars
#print axioms valid_stringsReplace
#print axioms valid_lower
#print axioms valid_upper
#print axioms lower_str_shape
#print axioms upper_str_shape
#print axioms joinStrs_encodeAll
#print axioms lower_codepoints
#print axioms upper_codepoints

end Jmes.C11S
