/-
  Parser ⟷ grammar, part 4: soundness of the operator loop, of `primaryExpression` and of `projection`, and the
  induction on fuel (`sound`).

  `graft` re-roots the tree that `projection` obtains from `expression` after `.name` (an ordinary expression) at the
  implicit current node, so that the right-hand side is a chain in the sense of `WellPrec`.
-/
import Jmes.Proofs.GrammarS
namespace Jmes.GrammarS
open Jmes Jmes.Parser Jmes.Pratt Jmes.Grammar Jmes.GrammarF0 Jmes.GrammarF2
set_option linter.unusedSimpArgs false

/-! ## Introduction rules for `wp` -/

theorem wp_pos {e : PTree} (hw : wp false e = true) (hl : lvlMul < llevel e) : wp false (.pos e) = true := by
  simp [wp, hw, hl]
theorem wp_neg {t : Token} {e : PTree} (ht : t.type = .subtract) (hw : wp false e = true) (hl : lvlMul < llevel e) :
    wp false (.neg t e) = true := by
  simp [wp, hw, hl, ht]
theorem wp_not {e : PTree} (hw : wp false e = true) (hl : lvlNot < llevel e) : wp false (.not e) = true := by
  simp [wp, hw, hl]
theorem wp_paren {e : PTree} (hw : wp false e = true) : wp false (.paren e) = true := by
  simp [wp, hw]
theorem wp_atom {t : Token} {n : INode} (h : atomNode t = some n) : wp false (.atom t) = true := by
  simp [wp, h]

theorem wp_star0 {rhs : PTree} (b : Bool) (h : RhsOK rhs) : wp b (.star .icur rhs) = true := by
  simp only [wp, PTree.isIcur, if_true, Bool.true_and]; exact h
theorem wp_ostar0 {rhs : PTree} (b : Bool) (h : RhsOK rhs) : wp b (.ostar .icur rhs) = true := by
  simp only [wp, PTree.isIcur, if_true, Bool.true_and]; exact h
theorem wp_flat0 {rhs : PTree} (h : RhsOK rhs) : wp false (.flat .icur rhs) = true := by
  simp only [wp, PTree.isIcur, if_true, Bool.not_false, Bool.true_and]; exact h
theorem wp_filt0 {c rhs : PTree} (b : Bool) (hc : wp false c = true) (h : RhsOK rhs) :
    wp b (.filt .icur c rhs) = true := by
  simp only [wp, PTree.isIcur, if_true, Bool.true_and, hc]; exact h
theorem wp_slice0 {a bb : Option Token} {c : Option (Option Token)} {rhs : PTree} (b : Bool)
    (hok : sliceOK a bb c = true) (h : RhsOK rhs) : wp b (.slice .icur a bb c rhs) = true := by
  simp only [wp, PTree.isIcur, if_true, Bool.true_and, hok]; exact h
theorem wp_index0 {nt : Token} (b : Bool) (h : isIntTok nt = true) : wp b (.index .icur nt) = true := by
  simp only [wp, PTree.isIcur, if_true, Bool.true_and, h]

theorem left_ok {b : Bool} {l : PTree} {X : Bool} {lvl : Nat} (hw : wp b l = true) (hle : lvl ≤ rlevel l) :
    (if l.isIcur = true then X else wp b l && decide (lvl ≤ rlevel l)) = true := by
  simp [wp_ne_icur hw, hw, hle]

theorem wp_star {b : Bool} {l rhs : PTree} (hw : wp b l = true) (hle : lvlBracket ≤ rlevel l) (h : RhsOK rhs) :
    wp b (.star l rhs) = true := by
  simp only [wp, left_ok hw hle, Bool.true_and]; exact h
theorem wp_ostar {b : Bool} {l rhs : PTree} (hw : wp b l = true) (hle : lvlDot ≤ rlevel l) (h : RhsOK rhs) :
    wp b (.ostar l rhs) = true := by
  simp only [wp, left_ok hw hle, Bool.true_and]; exact h
theorem wp_flat {b : Bool} {l rhs : PTree} (hw : wp b l = true) (hle : lvlFlatten ≤ rlevel l) (h : RhsOK rhs) :
    wp b (.flat l rhs) = true := by
  simp only [wp, left_ok hw hle, Bool.true_and]; exact h
theorem wp_filt {b : Bool} {l c rhs : PTree} (hw : wp b l = true) (hle : lvlFilter ≤ rlevel l)
    (hc : wp false c = true) (h : RhsOK rhs) : wp b (.filt l c rhs) = true := by
  simp only [wp, left_ok hw hle, Bool.true_and, hc]; exact h
theorem wp_slice {b : Bool} {l rhs : PTree} {a bb : Option Token} {c : Option (Option Token)} (hw : wp b l = true)
    (hle : lvlBracket ≤ rlevel l) (hok : sliceOK a bb c = true) (h : RhsOK rhs) :
    wp b (.slice l a bb c rhs) = true := by
  simp only [wp, left_ok hw hle, Bool.true_and, hok]; exact h
theorem wp_index {b : Bool} {l : PTree} {nt : Token} (hw : wp b l = true) (hle : lvlBracket ≤ rlevel l)
    (h : isIntTok nt = true) : wp b (.index l nt) = true := by
  simp only [wp, left_ok hw hle, Bool.true_and, h]
theorem wp_dotStarList {b : Bool} {l : PTree} (hw : wp b l = true) (hle : lvlDot ≤ rlevel l) :
    wp b (.dotStarList l) = true := by
  simp only [wp, left_ok hw hle]
theorem wp_dotList {b : Bool} {l : PTree} {es : List PTree} (hw : wp b l = true) (hle : lvlDot ≤ rlevel l)
    (hne : es ≠ []) (hes : wpL es = true) : wp b (.dotList l es) = true := by
  cases es with
  | nil => exact absurd rfl hne
  | cons e es => simp only [wp, left_ok hw hle, Bool.true_and, hes, List.isEmpty_cons, Bool.not_false]
theorem wp_dotHash {b : Bool} {l : PTree} {kvs : List (Token × PTree)} (hw : wp b l = true)
    (hle : lvlDot ≤ rlevel l) (hne : kvs ≠ []) (hes : wpKVs keyOK kvs = true) : wp b (.dotHash l kvs) = true := by
  cases kvs with
  | nil => exact absurd rfl hne
  | cons e es => simp only [wp, left_ok hw hle, Bool.true_and, hes, List.isEmpty_cons, Bool.not_false]
theorem wp_dotId {b : Bool} {l r : PTree} (hw : wp b l = true) (hle : lvlDot ≤ rlevel l) (hr : wp false r = true)
    (hl : lvlDot < llevel r) (hs : startsWithIdent r = true) : wp b (.dotId l r) = true := by
  simp only [wp, left_ok hw hle, Bool.true_and, hr, hs, decide_eq_true hl]
theorem wp_bin {b : Bool} {op : Token} {lvl : Nat} {l r : PTree} (hop : binLevel op.type = some lvl)
    (hw : wp b l = true) (hle : lvl ≤ rlevel l) (hr : wp false r = true) (hl : lvl < llevel r) :
    wp b (.bin op l r) = true := by
  simp only [wp, hop, wp_ne_icur hw, hw, hr, decide_eq_true hle, decide_eq_true hl, Bool.not_false, Bool.and_self]
theorem wp_multiList {es : List PTree} (hne : es ≠ []) (hes : wpL es = true) : wp false (.multiList es) = true := by
  cases es with
  | nil => exact absurd rfl hne
  | cons e es => simp only [wp, Bool.true_and, hes, List.isEmpty_cons, Bool.not_false]
theorem wp_multiHash {kvs : List (Token × PTree)} (hne : kvs ≠ []) (hes : wpKVs keyOK kvs = true) :
    wp false (.multiHash kvs) = true := by
  cases kvs with
  | nil => exact absurd rfl hne
  | cons e es => simp only [wp, Bool.true_and, hes, List.isEmpty_cons, Bool.not_false]
theorem wp_letIn {bs : List (Token × PTree)} {body : PTree} (hne : bs ≠ []) (hes : wpKVs isVarTok bs = true)
    (hb : wp false body = true) : wp false (.letIn bs body) = true := by
  cases bs with
  | nil => exact absurd rfl hne
  | cons e es => simp only [wp, Bool.true_and, hes, hb, List.isEmpty_cons, Bool.not_false]


theorem starNode_none (o : Option INode) :
    (match o with | none => INode.pruneArrayCurrent | some c => .projectArrayCurrent c) = starNode none o := by
  cases o <;> rfl
theorem ostarNode_none (o : Option INode) :
    (match o with | none => INode.objectValuesCurrent | some c => .projectObjectCurrent c) = ostarNode none o := by
  cases o <;> rfl
theorem flatNode_none (o : Option INode) :
    (match o with | none => INode.flattenCurrent | some c => .flattenAndProjectCurrent c) = flatNode none o := by
  cases o <;> rfl
theorem filtNode_none (c : INode) (o : Option INode) :
    (match o with | none => INode.filterCurrent c | some r => .filterAndProjectCurrent c r) = filtNode none c o := by
  cases o <;> rfl

theorem sound_prim {f : Nat} (ih : Sound f) : ∀ ts n s', AllCanon ts →
    primaryExpression (f + 1) (stOf ts) = .ok (n, s') →
    ∃ pt rest, s' = stOf rest ∧ ts = flat false pt ++ rest ∧ wp false pt = true ∧ erase pt = n ∧ llevel pt = top ∧
      okAfter (rlevel pt) rest := by
  intro ts n s' hC h
  rw [primaryExpression.eq_2] at h
  pm_at h []
  tok_cases h ((stOf ts).curr.type) hc
  case add =>
    obtain ⟨ts1, rfl, hC1⟩ := curr_canon hC hc rfl
    pm_at h []
    split at h
    · rename_i n0 s1 heq
      obtain ⟨e, rest, rfl, rfl, hw, rfl, hl, ho⟩ := ih.expr _ ts1 n0 s1 hC1 (by decide) heq
      cases h
      exact ⟨.pos e, rest, rfl, rfl, wp_pos hw hl, rfl, rfl, ho⟩
    · cases h
  case subtract =>
    obtain ⟨t, ts1, rfl, ht⟩ := curr_cons hc (by decide)
    pm_at h []
    split at h
    · rename_i n0 s1 heq
      obtain ⟨e, rest, rfl, rfl, hw, rfl, hl, ho⟩ := ih.expr _ ts1 n0 s1 hC.tail (by decide) heq
      cases h
      exact ⟨.neg t e, rest, rfl, rfl, wp_neg ht hw hl, rfl, rfl, ho⟩
    · cases h
  case not =>
    obtain ⟨ts1, rfl, hC1⟩ := curr_canon hC hc rfl
    pm_at h []
    split at h
    · rename_i n0 s1 heq
      obtain ⟨e, rest, rfl, rfl, hw, rfl, hl, ho⟩ := ih.expr _ ts1 n0 s1 hC1 (by decide) heq
      cases h
      exact ⟨.not e, rest, rfl, rfl, wp_not hw hl, rfl, rfl, ho⟩
    · cases h
  case openParen =>
    obtain ⟨ts1, rfl, hC1⟩ := curr_canon hC hc rfl
    pm_at h []
    split at h
    · rename_i n0 s1 heq
      obtain ⟨e, rest0, rfl, rfl, hw, rfl, hl, ho⟩ := ih.expr _ ts1 n0 s1 hC1 (by decide) heq
      by_cases hcp : (stOf rest0).curr.type = TokenType.closeParen
      case neg => simp only [hcp, not_false_eq_true, if_true, reduceCtorEq] at h
      simp only [hcp, not_true_eq_false, if_false] at h
      obtain ⟨rest, rfl, hCr⟩ := curr_canon hC1.right hcp rfl
      pm_at h []
      cases h
      exact ⟨.paren e, rest, rfl, by simp only [flat, List.cons_append, List.append_assoc]; rfl, wp_paren hw, rfl, rfl,
        okAfter_top _⟩
    · cases h
  case arrayWildcard =>
    obtain ⟨ts1, rfl, hC1⟩ := curr_canon hC hc rfl
    pm_at h []
    split at h
    · rename_i o s1 heq
      obtain ⟨rhs, rest, rfl, rfl, hok, rfl, ho⟩ := ih.proj ts1 o s1 hC1 heq
      cases h
      exact ⟨.star .icur rhs, rest, rfl, rfl, wp_star0 _ hok, (starNode_none _).symm, rfl, ho⟩
    · cases h
  case asterisk =>
    obtain ⟨ts1, rfl, hC1⟩ := curr_canon hC hc rfl
    pm_at h []
    split at h
    · rename_i o s1 heq
      obtain ⟨rhs, rest, rfl, rfl, hok, rfl, ho⟩ := ih.proj ts1 o s1 hC1 heq
      cases h
      exact ⟨.ostar .icur rhs, rest, rfl, rfl, wp_ostar0 _ hok, (ostarNode_none _).symm, rfl, ho⟩
    · cases h
  case flatten =>
    obtain ⟨ts1, rfl, hC1⟩ := curr_canon hC hc rfl
    pm_at h []
    split at h
    · rename_i o s1 heq
      obtain ⟨rhs, rest, rfl, rfl, hok, rfl, ho⟩ := ih.proj ts1 o s1 hC1 heq
      cases h
      exact ⟨.flat .icur rhs, rest, rfl, rfl, wp_flat0 hok, (flatNode_none _).symm, rfl, ho⟩
    · cases h
  case filter =>
    obtain ⟨ts1, rfl, hC1⟩ := curr_canon hC hc rfl
    pm_at h []
    split at h
    · rename_i c0 s1 heq
      obtain ⟨c, rest0, rfl, rfl, hwc, rfl⟩ := ih.filt ts1 c0 s1 hC1 heq
      split at h
      · rename_i o s2 heq2
        obtain ⟨rhs, rest, rfl, rfl, hok, rfl, ho⟩ := ih.proj rest0 o s2 hC1.right.tail heq2
        cases h
        exact ⟨.filt .icur c rhs, rest, rfl, by simp only [flat, List.cons_append, List.append_assoc, List.nil_append]; rfl,
          wp_filt0 _ hwc hok, (filtNode_none _ _).symm, rfl, ho⟩
      · cases h
    · cases h
  case current =>
    obtain ⟨t, ts1, rfl, ht⟩ := curr_cons hc (by decide)
    pm_at h []
    cases h
    have ha : atomNode t = some .current := by simp [atomNode, ht]
    exact ⟨.atom t, ts1, rfl, rfl, wp_atom ha, by simp [erase, ha], rfl, okAfter_top _⟩
  case root =>
    obtain ⟨t, ts1, rfl, ht⟩ := curr_cons hc (by decide)
    pm_at h []
    cases h
    have ha : atomNode t = some .root := by simp [atomNode, ht]
    exact ⟨.atom t, ts1, rfl, rfl, wp_atom ha, by simp [erase, ha], rfl, okAfter_top _⟩
  case «variable» =>
    obtain ⟨t, ts1, rfl, ht⟩ := curr_cons hc (by decide)
    pm_at h []
    cases h
    have ha : atomNode t = some (.variable t.value) := by simp [atomNode, ht]
    exact ⟨.atom t, ts1, rfl, rfl, wp_atom ha, by simp [erase, ha], rfl, okAfter_top _⟩
  case stringLiteral =>
    obtain ⟨t, ts1, rfl, ht⟩ := curr_cons hc (by decide)
    pm_at h []
    cases h
    have ha : atomNode t = some (.lit (.str (parseStringLiteral t.value))) := by simp [atomNode, ht]
    exact ⟨.atom t, ts1, rfl, rfl, wp_atom ha, by simp [erase, ha], rfl, okAfter_top _⟩
  case jsonLiteral =>
    obtain ⟨t, ts1, rfl, ht⟩ := curr_cons hc (by decide)
    pm_at h []
    cases hv : parseJSONLiteral t.value with
    | none => simp only [hv, fail_run, reduceCtorEq] at h
    | some v =>
      simp only [hv] at h
      pm_at h []
      cases h
      have ha : atomNode t = some (.lit v) := by simp [atomNode, ht, hv]
      exact ⟨.atom t, ts1, rfl, rfl, wp_atom ha, by simp [erase, ha], rfl, okAfter_top _⟩
  case quotedIdentifier =>
    obtain ⟨t, ts1, rfl, ht⟩ := curr_cons hc (by decide)
    pm_at h []
    cases hv : parseQuotedIdentifier t.value with
    | none => simp only [hv, fail_run, reduceCtorEq] at h
    | some v =>
      simp only [hv] at h
      pm_at h []
      cases h
      have ha : atomNode t = some (.field v) := by simp [atomNode, ht, hv]
      exact ⟨.atom t, ts1, rfl, rfl, wp_atom ha, by simp [erase, ha], rfl, okAfter_top _⟩
  case unquotedIdentifier =>
    obtain ⟨t, ts1, rfl, ht⟩ := curr_cons hc (by decide)
    by_cases hp : (stOf ts1).curr.type = TokenType.openParen
    · have hp' : (stOf (t :: ts1)).next.type = TokenType.openParen := hp
      simp only [hp', if_true] at h
      obtain ⟨ts2, rfl, hC2⟩ := curr_canon hC.tail hp rfl
      obtain ⟨as, rest, rfl, rfl, hw, rfl⟩ := ih.func t ts2 n s' hC2 ht h
      exact ⟨.call t as, rest, rfl, by simp only [flat, List.cons_append, List.append_assoc, List.nil_append]; rfl,
        hw, rfl, rfl, okAfter_top _⟩
    · have hp' : ¬ (stOf (t :: ts1)).next.type = TokenType.openParen := hp
      simp only [hp', if_false] at h
      pm_at h []
      cases h
      have ha : atomNode t = some (.field t.value) := by simp [atomNode, ht]
      exact ⟨.atom t, ts1, rfl, rfl, wp_atom ha, by simp [erase, ha], rfl, okAfter_top _⟩
  case «let» =>
    obtain ⟨ts1, rfl, hC1⟩ := curr_canon hC hc rfl
    pm_at h []
    obtain ⟨bs, body, rest, rfl, hne, rfl, hwbs, hwb, rfl, ho⟩ := ih.letp [] ts1 n s' hC1 h
    exact ⟨.letIn bs body, rest, rfl, by simp only [flat, List.cons_append, List.append_assoc]; rfl,
      wp_letIn hne hwbs hwb, rfl, rfl, ho⟩
  case openBrace =>
    obtain ⟨ts1, rfl, hC1⟩ := curr_canon hC hc rfl
    pm_at h []
    obtain ⟨kvs, rest, rfl, hne, rfl, hw, rfl⟩ := ih.sobj none ts1 n s' hC1 h
    exact ⟨.multiHash kvs, rest, rfl, by simp only [flat, List.cons_append, List.append_assoc]; rfl,
      wp_multiHash hne hw, rfl, rfl, okAfter_top _⟩
  case openSqBrace =>
    obtain ⟨ts1, rfl, hC1⟩ := curr_canon hC hc rfl
    pm_at h []
    by_cases hix : (stOf ts1).curr.type = TokenType.integerLiteral ∨ (stOf ts1).curr.type = TokenType.colon
    · simp only [Bool.or_eq_true, beq_iff_eq, hix, if_true] at h
      split at h
      · rename_i r s1 heq
        obtain ⟨n0, pr⟩ := r
        rcases indexP_inv hC1 heq with ⟨nt, i, rest, rfl, hnt, hi, rfl, rfl, rfl⟩ |
          ⟨a, b, c, rest0, rfl, hok, rfl, rfl, rfl⟩
        · pm_at h []
          cases h
          exact ⟨.index .icur nt, rest, rfl, rfl, wp_index0 _ hnt, by simp [erase, optNode_icur, hi], rfl,
            okAfter_top _⟩
        · pm_at h []
          split at h
          · rename_i o s2 heq2
            obtain ⟨rhs, rest, rfl, rfl, hrok, rfl, ho⟩ := ih.proj rest0 o s2 hC1.right.tail heq2
            cases h
            exact ⟨.slice .icur a b c rhs, rest, rfl,
              by simp only [flat, List.cons_append, List.append_assoc, List.nil_append]; rfl,
              wp_slice0 _ hok hrok, by simp only [erase, optNode_icur], rfl, ho⟩
          · cases h
      · cases h
    · simp only [Bool.or_eq_true, beq_iff_eq, hix, if_false] at h
      obtain ⟨es, rest, rfl, hne, rfl, hw, rfl⟩ := ih.sarr none ts1 n s' hC1 h
      exact ⟨.multiList es, rest, rfl, by simp only [flat, List.cons_append, List.append_assoc]; rfl,
        wp_multiList hne hw, rfl, rfl, okAfter_top _⟩


/-- `.name…` as a right-hand side: the parser reads `name…` as an ordinary expression (at the projection power);
    `graft` re-roots that tree at the implicit current node: the maximal prefix tighter than `.` becomes the right
    operand of a `dotId` whose left operand is `icur` -/
def graft : PTree → PTree
  | .bin op l r => if lvlDot < llevel (.bin op l r) then .dotId .icur (.bin op l r) else .bin op (graft l) r
  | .dotId l r => if lvlDot < llevel (.dotId l r) then .dotId .icur (.dotId l r) else .dotId (graft l) r
  | .dotList l es => if lvlDot < llevel (.dotList l es) then .dotId .icur (.dotList l es) else .dotList (graft l) es
  | .dotHash l kvs => if lvlDot < llevel (.dotHash l kvs) then .dotId .icur (.dotHash l kvs) else .dotHash (graft l) kvs
  | .dotStarList l => if lvlDot < llevel (.dotStarList l) then .dotId .icur (.dotStarList l) else .dotStarList (graft l)
  | .index l n => if lvlDot < llevel (.index l n) then .dotId .icur (.index l n) else .index (graft l) n
  | .star l r => if lvlDot < llevel (.star l r) then .dotId .icur (.star l r) else .star (graft l) r
  | .ostar l r => if lvlDot < llevel (.ostar l r) then .dotId .icur (.ostar l r) else .ostar (graft l) r
  | .flat l r => if lvlDot < llevel (.flat l r) then .dotId .icur (.flat l r) else .flat (graft l) r
  | .filt l c r => if lvlDot < llevel (.filt l c r) then .dotId .icur (.filt l c r) else .filt (graft l) c r
  | .slice l a b c r =>
    if lvlDot < llevel (.slice l a b c r) then .dotId .icur (.slice l a b c r) else .slice (graft l) a b c r
  | t => .dotId .icur t

theorem flat_ne_nil {b : Bool} {t : PTree} (h : wp b t = true) : flat b t ≠ [] := by
  cases t <;> simp [wp] at h <;> simp [flat]
  intro h2; exfalso
  split at h2
  · split at h2 <;> simp at h2
  · simp at h2


structure Grafted (t : PTree) : Prop where
  wp : wp true (graft t) = true
  flat : flat true (graft t) = tDot :: flat false t
  erase : erase (graft t) = erase t
  lvl : lvlProj < llevel (graft t)
  ne : (graft t).isIcur = false
  rl : if lvlDot < llevel t then rlevel (graft t) = min lvlDot (rlevel t) else rlevel (graft t) = rlevel t

theorem grafted_base {t : PTree} (hg : graft t = .dotId .icur t) (hw : Grammar.wp false t = true)
    (hl : lvlDot < llevel t) (hs : startsWithIdent t = true) : Grafted t where
  wp := by rw [hg]; simp [Grammar.wp, PTree.isIcur, hw, hl, hs]
  flat := by rw [hg]; simp [Grammar.flat]
  erase := by rw [hg]; simp [Grammar.erase, optNode_icur, subNode]
  lvl := by rw [hg]; simp [llevel, lmin, PTree.isIcur, top, lvlProj]
  ne := by rw [hg]; rfl
  rl := by rw [hg, if_pos hl]; rfl

theorem startsWithIdent_left {t l : PTree} {toks : List Token} (h : Grammar.flat false t = Grammar.flat false l ++ toks)
    (hne : Grammar.flat false l ≠ []) : startsWithIdent t = startsWithIdent l := by
  unfold startsWithIdent
  rw [h]
  cases hf : Grammar.flat false l with
  | nil => exact absurd hf hne
  | cons a as => rfl

/-- what the recursive case needs of the left operand -/
theorem graft_left {l : PTree} {lvl : Nat} (hg : Grafted l) (hle : lvl ≤ rlevel l)
    (hn : ¬ lvlDot < min lvl (llevel l)) : lvl ≤ rlevel (graft l) := by
  have := hg.rl
  split at this
  · rename_i h1
    rw [this]
    have : lvl ≤ lvlDot := by
      rcases Nat.lt_or_ge lvlDot lvl with h2 | h2
      · exact absurd (Nat.lt_min.2 ⟨h2, h1⟩) hn
      · exact h2
    exact Nat.le_min.2 ⟨this, hle⟩
  · rw [this]; exact hle

theorem graft_index {l : PTree} {nt : Token} (ih : Grammar.wp false l = true → lvlProj < llevel l →
    startsWithIdent l = true → Grafted l) (hw : Grammar.wp false (.index l nt) = true)
    (hl : lvlProj < llevel (.index l nt)) (hs : startsWithIdent (.index l nt) = true) : Grafted (.index l nt) := by
  by_cases hb : lvlDot < llevel (.index l nt)
  · exact grafted_base (by simp only [graft, hb, if_true]) hw hb hs
  have hgr : graft (.index l nt) = (.index (graft l) nt) := by simp only [graft, hb, if_false]
  have hleft : ∃ X, (if l.isIcur = true then X else Grammar.wp false l && decide (lvlBracket ≤ rlevel l)) = true := by
    simp only [Grammar.wp, Bool.and_eq_true] at hw
    exact ⟨_, hw.1⟩
  obtain ⟨X, hleft⟩ := hleft
  rcases left_cases hleft with ⟨rfl, _⟩ | ⟨hi, hwl, hle⟩
  · exact absurd (by simp [llevel, lmin, PTree.isIcur, top, lvlDot]) hb
  simp only [llevel, lmin_of_ne hi] at hl hb
  have hg := ih hwl (Nat.lt_of_lt_of_le hl (Nat.min_le_right _ _))
    (by rw [← startsWithIdent_left (t := (.index l nt)) (by simp only [Grammar.flat, hi, Bool.false_eq_true, if_false, List.append_assoc, List.cons_append]; rfl) (flat_ne_nil hwl)]; exact hs)
  have hle' := graft_left hg hle hb
  exact {
    wp := by
      rw [hgr]
      have e1 := fun X => left_ok (X := X) hg.wp hle'
      have e0 := fun X => left_ok (X := X) hwl hle
      simp only [Grammar.wp, e0] at hw
      simp only [Grammar.wp, e1]
      all_goals exact hw
    flat := by rw [hgr]; simp only [Grammar.flat, hg.flat, List.cons_append, hg.ne, hi, Bool.false_eq_true, if_false]
    erase := by rw [hgr]; simp only [Grammar.erase, optNode_of_ne hg.ne, optNode_of_ne hi, hg.erase]
    lvl := by rw [hgr]; simp only [llevel, lmin_of_ne hg.ne]; exact Nat.lt_min.2 ⟨by decide, hg.lvl⟩
    ne := by rw [hgr]; rfl
    rl := by rw [hgr, if_neg (by simpa only [llevel, lmin_of_ne hi] using hb)]; rfl }

theorem graft_dotId {l : PTree} {r : PTree} (ih : Grammar.wp false l = true → lvlProj < llevel l →
    startsWithIdent l = true → Grafted l) (hw : Grammar.wp false (.dotId l r) = true)
    (hl : lvlProj < llevel (.dotId l r)) (hs : startsWithIdent (.dotId l r) = true) : Grafted (.dotId l r) := by
  by_cases hb : lvlDot < llevel (.dotId l r)
  · exact grafted_base (by simp only [graft, hb, if_true]) hw hb hs
  have hgr : graft (.dotId l r) = (.dotId (graft l) r) := by simp only [graft, hb, if_false]
  have hleft : ∃ X, (if l.isIcur = true then X else Grammar.wp false l && decide (lvlDot ≤ rlevel l)) = true := by
    simp only [Grammar.wp, Bool.and_eq_true] at hw
    exact ⟨_, hw.1.1.1⟩
  obtain ⟨X, hleft⟩ := hleft
  rcases left_cases hleft with ⟨rfl, _⟩ | ⟨hi, hwl, hle⟩
  · exact absurd (by simp [llevel, lmin, PTree.isIcur, top, lvlDot]) hb
  simp only [llevel, lmin_of_ne hi] at hl hb
  have hg := ih hwl (Nat.lt_of_lt_of_le hl (Nat.min_le_right _ _))
    (by rw [← startsWithIdent_left (t := (.dotId l r)) (by simp only [Grammar.flat, hi, Bool.false_eq_true, if_false, List.append_assoc, List.cons_append]; rfl) (flat_ne_nil hwl)]; exact hs)
  have hle' := graft_left hg hle hb
  exact {
    wp := by
      rw [hgr]
      have e1 := fun X => left_ok (X := X) hg.wp hle'
      have e0 := fun X => left_ok (X := X) hwl hle
      simp only [Grammar.wp, e0] at hw
      simp only [Grammar.wp, e1]
      all_goals exact hw
    flat := by rw [hgr]; simp only [Grammar.flat, hg.flat, List.cons_append, hg.ne, hi, Bool.false_eq_true, if_false]
    erase := by rw [hgr]; simp only [Grammar.erase, optNode_of_ne hg.ne, optNode_of_ne hi, hg.erase]
    lvl := by rw [hgr]; simp only [llevel, lmin_of_ne hg.ne]; exact Nat.lt_min.2 ⟨by decide, hg.lvl⟩
    ne := by rw [hgr]; rfl
    rl := by rw [hgr, if_neg (by simpa only [llevel, lmin_of_ne hi] using hb)]; rfl }

theorem graft_dotList {l : PTree} {es : List PTree} (ih : Grammar.wp false l = true → lvlProj < llevel l →
    startsWithIdent l = true → Grafted l) (hw : Grammar.wp false (.dotList l es) = true)
    (hl : lvlProj < llevel (.dotList l es)) (hs : startsWithIdent (.dotList l es) = true) : Grafted (.dotList l es) := by
  by_cases hb : lvlDot < llevel (.dotList l es)
  · exact grafted_base (by simp only [graft, hb, if_true]) hw hb hs
  have hgr : graft (.dotList l es) = (.dotList (graft l) es) := by simp only [graft, hb, if_false]
  have hleft : ∃ X, (if l.isIcur = true then X else Grammar.wp false l && decide (lvlDot ≤ rlevel l)) = true := by
    simp only [Grammar.wp, Bool.and_eq_true] at hw
    exact ⟨_, hw.1.1⟩
  obtain ⟨X, hleft⟩ := hleft
  rcases left_cases hleft with ⟨rfl, _⟩ | ⟨hi, hwl, hle⟩
  · exact absurd (by simp [llevel, lmin, PTree.isIcur, top, lvlDot]) hb
  simp only [llevel, lmin_of_ne hi] at hl hb
  have hg := ih hwl (Nat.lt_of_lt_of_le hl (Nat.min_le_right _ _))
    (by rw [← startsWithIdent_left (t := (.dotList l es)) (by simp only [Grammar.flat, hi, Bool.false_eq_true, if_false, List.append_assoc, List.cons_append]; rfl) (flat_ne_nil hwl)]; exact hs)
  have hle' := graft_left hg hle hb
  exact {
    wp := by
      rw [hgr]
      have e1 := fun X => left_ok (X := X) hg.wp hle'
      have e0 := fun X => left_ok (X := X) hwl hle
      simp only [Grammar.wp, e0] at hw
      simp only [Grammar.wp, e1]
      all_goals exact hw
    flat := by rw [hgr]; simp only [Grammar.flat, hg.flat, List.cons_append, hg.ne, hi, Bool.false_eq_true, if_false]
    erase := by rw [hgr]; simp only [Grammar.erase, optNode_of_ne hg.ne, optNode_of_ne hi, hg.erase]
    lvl := by rw [hgr]; simp only [llevel, lmin_of_ne hg.ne]; exact Nat.lt_min.2 ⟨by decide, hg.lvl⟩
    ne := by rw [hgr]; rfl
    rl := by rw [hgr, if_neg (by simpa only [llevel, lmin_of_ne hi] using hb)]; rfl }

theorem graft_dotHash {l : PTree} {kvs : List (Token × PTree)} (ih : Grammar.wp false l = true → lvlProj < llevel l →
    startsWithIdent l = true → Grafted l) (hw : Grammar.wp false (.dotHash l kvs) = true)
    (hl : lvlProj < llevel (.dotHash l kvs)) (hs : startsWithIdent (.dotHash l kvs) = true) : Grafted (.dotHash l kvs) := by
  by_cases hb : lvlDot < llevel (.dotHash l kvs)
  · exact grafted_base (by simp only [graft, hb, if_true]) hw hb hs
  have hgr : graft (.dotHash l kvs) = (.dotHash (graft l) kvs) := by simp only [graft, hb, if_false]
  have hleft : ∃ X, (if l.isIcur = true then X else Grammar.wp false l && decide (lvlDot ≤ rlevel l)) = true := by
    simp only [Grammar.wp, Bool.and_eq_true] at hw
    exact ⟨_, hw.1.1⟩
  obtain ⟨X, hleft⟩ := hleft
  rcases left_cases hleft with ⟨rfl, _⟩ | ⟨hi, hwl, hle⟩
  · exact absurd (by simp [llevel, lmin, PTree.isIcur, top, lvlDot]) hb
  simp only [llevel, lmin_of_ne hi] at hl hb
  have hg := ih hwl (Nat.lt_of_lt_of_le hl (Nat.min_le_right _ _))
    (by rw [← startsWithIdent_left (t := (.dotHash l kvs)) (by simp only [Grammar.flat, hi, Bool.false_eq_true, if_false, List.append_assoc, List.cons_append]; rfl) (flat_ne_nil hwl)]; exact hs)
  have hle' := graft_left hg hle hb
  exact {
    wp := by
      rw [hgr]
      have e1 := fun X => left_ok (X := X) hg.wp hle'
      have e0 := fun X => left_ok (X := X) hwl hle
      simp only [Grammar.wp, e0] at hw
      simp only [Grammar.wp, e1]
      all_goals exact hw
    flat := by rw [hgr]; simp only [Grammar.flat, hg.flat, List.cons_append, hg.ne, hi, Bool.false_eq_true, if_false]
    erase := by rw [hgr]; simp only [Grammar.erase, optNode_of_ne hg.ne, optNode_of_ne hi, hg.erase]
    lvl := by rw [hgr]; simp only [llevel, lmin_of_ne hg.ne]; exact Nat.lt_min.2 ⟨by decide, hg.lvl⟩
    ne := by rw [hgr]; rfl
    rl := by rw [hgr, if_neg (by simpa only [llevel, lmin_of_ne hi] using hb)]; rfl }

theorem graft_dotStarList {l : PTree}  (ih : Grammar.wp false l = true → lvlProj < llevel l →
    startsWithIdent l = true → Grafted l) (hw : Grammar.wp false (.dotStarList l) = true)
    (hl : lvlProj < llevel (.dotStarList l)) (hs : startsWithIdent (.dotStarList l) = true) : Grafted (.dotStarList l) := by
  by_cases hb : lvlDot < llevel (.dotStarList l)
  · exact grafted_base (by simp only [graft, hb, if_true]) hw hb hs
  have hgr : graft (.dotStarList l) = (.dotStarList (graft l)) := by simp only [graft, hb, if_false]
  have hleft : ∃ X, (if l.isIcur = true then X else Grammar.wp false l && decide (lvlDot ≤ rlevel l)) = true := by
    simp only [Grammar.wp, Bool.and_eq_true] at hw
    exact ⟨_, hw⟩
  obtain ⟨X, hleft⟩ := hleft
  rcases left_cases hleft with ⟨rfl, _⟩ | ⟨hi, hwl, hle⟩
  · exact absurd (by simp [llevel, lmin, PTree.isIcur, top, lvlDot]) hb
  simp only [llevel, lmin_of_ne hi] at hl hb
  have hg := ih hwl (Nat.lt_of_lt_of_le hl (Nat.min_le_right _ _))
    (by rw [← startsWithIdent_left (t := (.dotStarList l)) (by simp only [Grammar.flat, hi, Bool.false_eq_true, if_false, List.append_assoc, List.cons_append]; rfl) (flat_ne_nil hwl)]; exact hs)
  have hle' := graft_left hg hle hb
  exact {
    wp := by
      rw [hgr]
      have e1 := fun X => left_ok (X := X) hg.wp hle'
      have e0 := fun X => left_ok (X := X) hwl hle
      simp only [Grammar.wp, e0] at hw
      simp only [Grammar.wp, e1]
      all_goals exact hw
    flat := by rw [hgr]; simp only [Grammar.flat, hg.flat, List.cons_append, hg.ne, hi, Bool.false_eq_true, if_false]
    erase := by rw [hgr]; simp only [Grammar.erase, optNode_of_ne hg.ne, optNode_of_ne hi, hg.erase]
    lvl := by rw [hgr]; simp only [llevel, lmin_of_ne hg.ne]; exact Nat.lt_min.2 ⟨by decide, hg.lvl⟩
    ne := by rw [hgr]; rfl
    rl := by rw [hgr, if_neg (by simpa only [llevel, lmin_of_ne hi] using hb)]; rfl }

theorem graft_star {l : PTree} {r : PTree} (ih : Grammar.wp false l = true → lvlProj < llevel l →
    startsWithIdent l = true → Grafted l) (hw : Grammar.wp false (.star l r) = true)
    (hl : lvlProj < llevel (.star l r)) (hs : startsWithIdent (.star l r) = true) : Grafted (.star l r) := by
  by_cases hb : lvlDot < llevel (.star l r)
  · exact grafted_base (by simp only [graft, hb, if_true]) hw hb hs
  have hgr : graft (.star l r) = (.star (graft l) r) := by simp only [graft, hb, if_false]
  have hleft : ∃ X, (if l.isIcur = true then X else Grammar.wp false l && decide (lvlBracket ≤ rlevel l)) = true := by
    simp only [Grammar.wp, Bool.and_eq_true] at hw
    exact ⟨_, hw.1⟩
  obtain ⟨X, hleft⟩ := hleft
  rcases left_cases hleft with ⟨rfl, _⟩ | ⟨hi, hwl, hle⟩
  · exact absurd (by simp [llevel, lmin, PTree.isIcur, top, lvlDot]) hb
  simp only [llevel, lmin_of_ne hi] at hl hb
  have hg := ih hwl (Nat.lt_of_lt_of_le hl (Nat.min_le_right _ _))
    (by rw [← startsWithIdent_left (t := (.star l r)) (by simp only [Grammar.flat, hi, Bool.false_eq_true, if_false, List.append_assoc, List.cons_append]; rfl) (flat_ne_nil hwl)]; exact hs)
  have hle' := graft_left hg hle hb
  exact {
    wp := by
      rw [hgr]
      have e1 := fun X => left_ok (X := X) hg.wp hle'
      have e0 := fun X => left_ok (X := X) hwl hle
      simp only [Grammar.wp, e0] at hw
      simp only [Grammar.wp, e1]
      all_goals exact hw
    flat := by rw [hgr]; simp only [Grammar.flat, hg.flat, List.cons_append, hg.ne, hi, Bool.false_eq_true, if_false]
    erase := by rw [hgr]; simp only [Grammar.erase, optNode_of_ne hg.ne, optNode_of_ne hi, hg.erase]
    lvl := by rw [hgr]; simp only [llevel, lmin_of_ne hg.ne]; exact Nat.lt_min.2 ⟨by decide, hg.lvl⟩
    ne := by rw [hgr]; rfl
    rl := by rw [hgr, if_neg (by simpa only [llevel, lmin_of_ne hi] using hb)]; rfl }

theorem graft_ostar {l : PTree} {r : PTree} (ih : Grammar.wp false l = true → lvlProj < llevel l →
    startsWithIdent l = true → Grafted l) (hw : Grammar.wp false (.ostar l r) = true)
    (hl : lvlProj < llevel (.ostar l r)) (hs : startsWithIdent (.ostar l r) = true) : Grafted (.ostar l r) := by
  by_cases hb : lvlDot < llevel (.ostar l r)
  · exact grafted_base (by simp only [graft, hb, if_true]) hw hb hs
  have hgr : graft (.ostar l r) = (.ostar (graft l) r) := by simp only [graft, hb, if_false]
  have hleft : ∃ X, (if l.isIcur = true then X else Grammar.wp false l && decide (lvlDot ≤ rlevel l)) = true := by
    simp only [Grammar.wp, Bool.and_eq_true] at hw
    exact ⟨_, hw.1⟩
  obtain ⟨X, hleft⟩ := hleft
  rcases left_cases hleft with ⟨rfl, _⟩ | ⟨hi, hwl, hle⟩
  · exact absurd (by simp [llevel, lmin, PTree.isIcur, top, lvlDot]) hb
  simp only [llevel, lmin_of_ne hi] at hl hb
  have hg := ih hwl (Nat.lt_of_lt_of_le hl (Nat.min_le_right _ _))
    (by rw [← startsWithIdent_left (t := (.ostar l r)) (by simp only [Grammar.flat, hi, Bool.false_eq_true, if_false, List.append_assoc, List.cons_append]; rfl) (flat_ne_nil hwl)]; exact hs)
  have hle' := graft_left hg hle hb
  exact {
    wp := by
      rw [hgr]
      have e1 := fun X => left_ok (X := X) hg.wp hle'
      have e0 := fun X => left_ok (X := X) hwl hle
      simp only [Grammar.wp, e0] at hw
      simp only [Grammar.wp, e1]
      all_goals exact hw
    flat := by rw [hgr]; simp only [Grammar.flat, hg.flat, List.cons_append, hg.ne, hi, Bool.false_eq_true, if_false]
    erase := by rw [hgr]; simp only [Grammar.erase, optNode_of_ne hg.ne, optNode_of_ne hi, hg.erase]
    lvl := by rw [hgr]; simp only [llevel, lmin_of_ne hg.ne]; exact Nat.lt_min.2 ⟨by decide, hg.lvl⟩
    ne := by rw [hgr]; rfl
    rl := by rw [hgr, if_neg (by simpa only [llevel, lmin_of_ne hi] using hb)]; rfl }

theorem graft_filt {l : PTree} {c r : PTree} (ih : Grammar.wp false l = true → lvlProj < llevel l →
    startsWithIdent l = true → Grafted l) (hw : Grammar.wp false (.filt l c r) = true)
    (hl : lvlProj < llevel (.filt l c r)) (hs : startsWithIdent (.filt l c r) = true) : Grafted (.filt l c r) := by
  by_cases hb : lvlDot < llevel (.filt l c r)
  · exact grafted_base (by simp only [graft, hb, if_true]) hw hb hs
  have hgr : graft (.filt l c r) = (.filt (graft l) c r) := by simp only [graft, hb, if_false]
  have hleft : ∃ X, (if l.isIcur = true then X else Grammar.wp false l && decide (lvlFilter ≤ rlevel l)) = true := by
    simp only [Grammar.wp, Bool.and_eq_true] at hw
    exact ⟨_, hw.1.1⟩
  obtain ⟨X, hleft⟩ := hleft
  rcases left_cases hleft with ⟨rfl, _⟩ | ⟨hi, hwl, hle⟩
  · exact absurd (by simp [llevel, lmin, PTree.isIcur, top, lvlDot]) hb
  simp only [llevel, lmin_of_ne hi] at hl hb
  have hg := ih hwl (Nat.lt_of_lt_of_le hl (Nat.min_le_right _ _))
    (by rw [← startsWithIdent_left (t := (.filt l c r)) (by simp only [Grammar.flat, hi, Bool.false_eq_true, if_false, List.append_assoc, List.cons_append]; rfl) (flat_ne_nil hwl)]; exact hs)
  have hle' := graft_left hg hle hb
  exact {
    wp := by
      rw [hgr]
      have e1 := fun X => left_ok (X := X) hg.wp hle'
      have e0 := fun X => left_ok (X := X) hwl hle
      simp only [Grammar.wp, e0] at hw
      simp only [Grammar.wp, e1]
      all_goals exact hw
    flat := by rw [hgr]; simp only [Grammar.flat, hg.flat, List.cons_append, hg.ne, hi, Bool.false_eq_true, if_false]
    erase := by rw [hgr]; simp only [Grammar.erase, optNode_of_ne hg.ne, optNode_of_ne hi, hg.erase]
    lvl := by rw [hgr]; simp only [llevel, lmin_of_ne hg.ne]; exact Nat.lt_min.2 ⟨by decide, hg.lvl⟩
    ne := by rw [hgr]; rfl
    rl := by rw [hgr, if_neg (by simpa only [llevel, lmin_of_ne hi] using hb)]; rfl }

theorem graft_slice {l : PTree} {a bb : Option Token} {c : Option (Option Token)} {r : PTree} (ih : Grammar.wp false l = true → lvlProj < llevel l →
    startsWithIdent l = true → Grafted l) (hw : Grammar.wp false (.slice l a bb c r) = true)
    (hl : lvlProj < llevel (.slice l a bb c r)) (hs : startsWithIdent (.slice l a bb c r) = true) : Grafted (.slice l a bb c r) := by
  by_cases hb : lvlDot < llevel (.slice l a bb c r)
  · exact grafted_base (by simp only [graft, hb, if_true]) hw hb hs
  have hgr : graft (.slice l a bb c r) = (.slice (graft l) a bb c r) := by simp only [graft, hb, if_false]
  have hleft : ∃ X, (if l.isIcur = true then X else Grammar.wp false l && decide (lvlBracket ≤ rlevel l)) = true := by
    simp only [Grammar.wp, Bool.and_eq_true] at hw
    exact ⟨_, hw.1.1⟩
  obtain ⟨X, hleft⟩ := hleft
  rcases left_cases hleft with ⟨rfl, _⟩ | ⟨hi, hwl, hle⟩
  · exact absurd (by simp [llevel, lmin, PTree.isIcur, top, lvlDot]) hb
  simp only [llevel, lmin_of_ne hi] at hl hb
  have hg := ih hwl (Nat.lt_of_lt_of_le hl (Nat.min_le_right _ _))
    (by rw [← startsWithIdent_left (t := (.slice l a bb c r)) (by simp only [Grammar.flat, hi, Bool.false_eq_true, if_false, List.append_assoc, List.cons_append]; rfl) (flat_ne_nil hwl)]; exact hs)
  have hle' := graft_left hg hle hb
  exact {
    wp := by
      rw [hgr]
      have e1 := fun X => left_ok (X := X) hg.wp hle'
      have e0 := fun X => left_ok (X := X) hwl hle
      simp only [Grammar.wp, e0] at hw
      simp only [Grammar.wp, e1]
      all_goals exact hw
    flat := by rw [hgr]; simp only [Grammar.flat, hg.flat, List.cons_append, hg.ne, hi, Bool.false_eq_true, if_false]
    erase := by rw [hgr]; simp only [Grammar.erase, optNode_of_ne hg.ne, optNode_of_ne hi, hg.erase]
    lvl := by rw [hgr]; simp only [llevel, lmin_of_ne hg.ne]; exact Nat.lt_min.2 ⟨by decide, hg.lvl⟩
    ne := by rw [hgr]; rfl
    rl := by rw [hgr, if_neg (by simpa only [llevel, lmin_of_ne hi] using hb)]; rfl }


theorem graft_spec : ∀ t, Grammar.wp false t = true → lvlProj < llevel t → startsWithIdent t = true → Grafted t
  | .index l nt, hw, hl, hs => graft_index (graft_spec l) hw hl hs
  | .dotId l r, hw, hl, hs => graft_dotId (graft_spec l) hw hl hs
  | .dotList l es, hw, hl, hs => graft_dotList (graft_spec l) hw hl hs
  | .dotHash l kvs, hw, hl, hs => graft_dotHash (graft_spec l) hw hl hs
  | .dotStarList l, hw, hl, hs => graft_dotStarList (graft_spec l) hw hl hs
  | .star l r, hw, hl, hs => graft_star (graft_spec l) hw hl hs
  | .ostar l r, hw, hl, hs => graft_ostar (graft_spec l) hw hl hs
  | .filt l c r, hw, hl, hs => graft_filt (graft_spec l) hw hl hs
  | .slice l a b c r, hw, hl, hs => graft_slice (graft_spec l) hw hl hs
  | .bin op l r, hw, hl, _ => by
    exfalso
    simp only [Grammar.wp] at hw
    split at hw
    · cases hw
    · rename_i lvl hlvl
      simp only [Bool.and_eq_true, Bool.not_eq_true', decide_eq_true_eq] at hw
      simp only [llevel, hlvl, Option.getD_some, lmin_of_ne hw.1.1.1.1] at hl
      have := (binLevel_range hlvl).2
      simp only [lvlProj] at hl; omega
  | .flat l r, hw, hl, hs => by
    exfalso
    simp only [Grammar.wp, Bool.and_eq_true] at hw
    rcases left_cases hw.1 with ⟨rfl, _⟩ | ⟨hi, _, _⟩
    · simp [startsWithIdent, Grammar.flat, tFlatten] at hs
    · simp only [llevel, lmin_of_ne hi, lvlProj, lvlFlatten] at hl; omega
  | .icur, hw, _, _ => by simp [Grammar.wp] at hw
  | .atom t, hw, _, hs => grafted_base rfl hw (show lvlDot < top by decide) hs
  | .paren t, hw, _, hs => grafted_base rfl hw (show lvlDot < top by decide) hs
  | .not t, hw, _, hs => grafted_base rfl hw (show lvlDot < top by decide) hs
  | .neg tok t, hw, _, hs => grafted_base rfl hw (show lvlDot < top by decide) hs
  | .pos t, hw, _, hs => grafted_base rfl hw (show lvlDot < top by decide) hs
  | .call name args, hw, _, hs => grafted_base rfl hw (show lvlDot < top by decide) hs
  | .ref t, hw, _, hs => grafted_base rfl hw (show lvlDot < top by decide) hs
  | .letIn bs body, hw, _, hs => grafted_base rfl hw (show lvlDot < top by decide) hs
  | .multiList es, hw, _, hs => grafted_base rfl hw (show lvlDot < top by decide) hs
  | .multiHash kvs, hw, _, hs => grafted_base rfl hw (show lvlDot < top by decide) hs



/-! ## The operator loop -/

theorem loop_continue {f : Nat} (ih : Sound f) {b : Bool} {pl pl' : PTree} {p : Nat} {ts1 toks : List Token} {n s'}
    (hC1 : AllCanon ts1) (hfl : Grammar.flat b pl' = Grammar.flat b pl ++ toks) (hw' : Grammar.wp b pl' = true)
    (hl' : p < llevel pl') (ho' : okAfter (rlevel pl') ts1)
    (h : exprLoop f (erase pl') p (stOf ts1) = .ok (n, s')) :
    ∃ pt mid rest, s' = stOf rest ∧ toks ++ ts1 = mid ++ rest ∧ Grammar.flat b pt = Grammar.flat b pl ++ mid ∧
      Grammar.wp b pt = true ∧ erase pt = n ∧ p < llevel pt ∧ okAfter (min p (rlevel pt)) rest := by
  obtain ⟨pt, mid, rest, rfl, rfl, hfl2, hw, rfl, hl, ho⟩ := ih.loop b pl' p ts1 n s' hC1 hw' hl' ho' h
  exact ⟨pt, toks ++ mid, rest, rfl, by simp, by rw [hfl2, hfl, List.append_assoc], hw, rfl, hl, ho⟩

theorem prec_of_okAfter {lev : Nat} {t : Token} {ts : List Token} (h : okAfter lev (t :: ts)) (hn : t.type ≠ .not) :
    precedence t.type ≤ lev := by
  rcases h with h | h
  · exact h
  · exact absurd h hn

theorem canon_tok {t : Token} (hc : Canon t) {τ : TokenType} {v : Bytes} (ht : t.type = τ)
    (hv : canonValue τ = some v) : t = ⟨τ, v⟩ := by
  have := hc v (by rw [ht]; exact hv)
  obtain ⟨ty, val⟩ := t
  simp only at ht this
  rw [ht, this]

theorem starNode_some (l : INode) (o : Option INode) :
    (match o with | none => INode.pruneArray l | some r => .projectArray l r) = starNode (some l) o := by
  cases o <;> rfl
theorem ostarNode_some (l : INode) (o : Option INode) :
    (match o with | none => INode.objectValues l | some r => .projectObject l r) = ostarNode (some l) o := by
  cases o <;> rfl
theorem flatNode_some (l : INode) (o : Option INode) :
    (match o with | none => INode.flatten l | some r => .flattenAndProject l r) = flatNode (some l) o := by
  cases o <;> rfl
theorem filtNode_some (l c : INode) (o : Option INode) :
    (match o with | none => INode.filter l c | some r => .filterAndProject l c r) = filtNode (some l) c o := by
  cases o <;> rfl

theorem startsWithIdent_of_cons {r : PTree} {t : Token} {ts ts' : List Token} (h : Grammar.flat false r ++ ts = t :: ts')
    (hne : Grammar.flat false r ≠ []) (ht : t.type = .unquotedIdentifier ∨ t.type = .quotedIdentifier) :
    startsWithIdent r = true := by
  unfold startsWithIdent
  cases hf : Grammar.flat false r with
  | nil => exact absurd hf hne
  | cons a as =>
    rw [hf] at h
    simp only [List.cons_append, List.cons.injEq] at h
    rw [h.1]
    simpa using ht

theorem sound_loop {f : Nat} (ih : Sound f) : ∀ b pl p ts n s', AllCanon ts → Grammar.wp b pl = true →
    p < llevel pl → okAfter (rlevel pl) ts → exprLoop (f + 1) (erase pl) p (stOf ts) = .ok (n, s') →
    ∃ pt mid rest, s' = stOf rest ∧ ts = mid ++ rest ∧ Grammar.flat b pt = Grammar.flat b pl ++ mid ∧
      Grammar.wp b pt = true ∧ erase pt = n ∧ p < llevel pt ∧ okAfter (min p (rlevel pt)) rest := by
  intro b pl p ts n s' hC hw hp hok h
  have stop : ∀ {n s'}, (Except.ok (erase pl, stOf ts) : Except PErr _) = .ok (n, s') →
      okAfter p ts → ∃ pt mid rest, s' = stOf rest ∧ ts = mid ++ rest ∧
      Grammar.flat b pt = Grammar.flat b pl ++ mid ∧ Grammar.wp b pt = true ∧ erase pt = n ∧ p < llevel pt ∧
      okAfter (min p (rlevel pt)) rest := by
    intro n s' h ho
    cases h
    exact ⟨pl, [], ts, rfl, rfl, by simp, hw, rfl, hp, okAfter_min ho hok⟩
  have hi := wp_ne_icur hw
  by_cases hle : precedence (stOf ts).curr.type ≤ p
  · rw [exprLoop_stop hle] at h
    exact stop h (Or.inl hle)
  obtain ⟨t, ts1, rfl⟩ : ∃ t ts1, ts = t :: ts1 := by
    cases ts with
    | nil => exact absurd (Nat.zero_le _) hle
    | cons t ts1 => exact ⟨t, ts1, rfl⟩
  simp only [stOf_curr] at hle
  have hlt : p < precedence t.type := by omega
  cases hb : binLevel t.type with
  | some lvl =>
    have hprec := binLevel_precedence hb
    rw [exprLoop_bin (s := stOf (t :: ts1)) (binLevel_mkBin hb) hlt, bind_run, advance_stOf] at h
    simp only [stOf_curr, hprec] at h
    rw [bind_run] at h
    split at h
    · rename_i n0 s1 heq
      have hlv := binLevel_range hb
      obtain ⟨r, rest0, rfl, rfl, hwr, rfl, hlr, hor⟩ := ih.expr lvl ts1 n0 s1 hC.tail
        (by simp only [top]; omega) heq
      have hne : t.type ≠ .not := by intro h0; rw [h0] at hb; simp [binLevel] at hb
      have hle2 : lvl ≤ rlevel pl := by rw [← hprec]; exact prec_of_okAfter hok hne
      exact loop_continue ih (pl' := .bin t pl r) (toks := t :: Grammar.flat false r) hC.tail.right
        (by simp only [Grammar.flat]) (wp_bin hb hw hle2 hwr hlr)
        (by simp only [llevel, hb, Option.getD_some, lmin_of_ne hi]; omega)
        (by simpa only [rlevel, hb, Option.getD_some] using hor) (by simpa only [Grammar.erase] using h)
    · cases h
  | none =>
    rw [exprLoop.eq_2] at h
    pm_at h []
    have hle' : ¬ precedence t.type ≤ p := hle
    simp only [hle', if_false] at h
    have hC1 := hC.tail
    have hCt := hC.head
    have hlp := fun (hne : t.type ≠ .not) => prec_of_okAfter hok hne
    generalize hτ : t.type = τ at h hlt hb hlp
    cases τ <;> first
      | (simp [precedence] at hlt; done)
      | (simp [binLevel] at hb; done)
      | skip
    case not =>
      pm_at h [binOpOf]
      exact stop h (Or.inr hτ)
    case arrayWildcard =>
      obtain rfl : t = tArrayStar := canon_tok hCt hτ rfl
      pm_at h [binOpOf]
      split at h
      · rename_i o s1 heq
        obtain ⟨rhs, rest0, rfl, rfl, hrok, rfl, ho⟩ := ih.proj ts1 o s1 hC1 heq
        exact loop_continue ih (pl' := .star pl rhs) (toks := tArrayStar :: Grammar.flat true rhs) hC1.right
          (by simp only [Grammar.flat]) (wp_star hw (hlp (by decide)) hrok)
          (by simp only [llevel, lmin_of_ne hi]; exact Nat.lt_min.2 ⟨hlt, hp⟩) ho
          (by simp only [Grammar.erase, optNode_of_ne hi]; generalize optNode rhs (erase rhs) = o at h ⊢
              cases o <;> exact h)
      · cases h
    case objectWildcard =>
      obtain rfl : t = tDotStar := canon_tok hCt hτ rfl
      pm_at h [binOpOf]
      split at h
      · rename_i o s1 heq
        obtain ⟨rhs, rest0, rfl, rfl, hrok, rfl, ho⟩ := ih.proj ts1 o s1 hC1 heq
        exact loop_continue ih (pl' := .ostar pl rhs) (toks := tDotStar :: Grammar.flat true rhs) hC1.right
          (by simp only [Grammar.flat, hi, Bool.false_eq_true, if_false, List.append_assoc, List.singleton_append])
          (wp_ostar hw (hlp (by decide)) hrok)
          (by simp only [llevel, lmin_of_ne hi]; exact Nat.lt_min.2 ⟨hlt, hp⟩) ho
          (by simp only [Grammar.erase, optNode_of_ne hi]; generalize optNode rhs (erase rhs) = o at h ⊢
              cases o <;> exact h)
      · cases h
    case flatten =>
      obtain rfl : t = tFlatten := canon_tok hCt hτ rfl
      pm_at h [binOpOf]
      split at h
      · rename_i o s1 heq
        obtain ⟨rhs, rest0, rfl, rfl, hrok, rfl, ho⟩ := ih.proj ts1 o s1 hC1 heq
        exact loop_continue ih (pl' := .flat pl rhs) (toks := tFlatten :: Grammar.flat true rhs) hC1.right
          (by simp only [Grammar.flat]) (wp_flat hw (hlp (by decide)) hrok)
          (by simp only [llevel, lmin_of_ne hi]; exact Nat.lt_min.2 ⟨hlt, hp⟩) ho
          (by simp only [Grammar.erase, optNode_of_ne hi]; generalize optNode rhs (erase rhs) = o at h ⊢
              cases o <;> exact h)
      · cases h
    case filter =>
      obtain rfl : t = tFilter := canon_tok hCt hτ rfl
      pm_at h [binOpOf]
      split at h
      · rename_i c0 s1 heq
        obtain ⟨c, rest0, rfl, rfl, hwc, rfl⟩ := ih.filt ts1 c0 s1 hC1 heq
        split at h
        · rename_i o s2 heq2
          obtain ⟨rhs, rest1, rfl, rfl, hrok, rfl, ho⟩ := ih.proj rest0 o s2 hC1.right.tail heq2
          have := loop_continue ih (pl := pl) (n := n) (s' := s') (pl' := .filt pl c rhs)
            (toks := tFilter :: Grammar.flat false c ++ tRBracket :: Grammar.flat true rhs) hC1.right.tail.right
            (by simp only [Grammar.flat, List.append_assoc, List.cons_append]) (wp_filt hw (hlp (by decide)) hwc hrok)
            (by simp only [llevel, lmin_of_ne hi]; exact Nat.lt_min.2 ⟨hlt, hp⟩) ho
            (by simp only [Grammar.erase, optNode_of_ne hi]; generalize optNode rhs (erase rhs) = o at h ⊢
                cases o <;> exact h)
          simpa only [List.cons_append, List.append_assoc] using this
        · cases h
      · cases h
    case openSqBrace =>
      obtain rfl : t = tLBracket := canon_tok hCt hτ rfl
      pm_at h [binOpOf]
      split at h
      · rename_i r s1 heq
        obtain ⟨n0, pr⟩ := r
        rcases indexP_inv hC1 heq with ⟨nt, i, rest, rfl, hnt, hint, rfl, rfl, rfl⟩ |
          ⟨a, bb, c, rest0, rfl, hsok, rfl, rfl, rfl⟩
        · pm_at h []
          exact loop_continue ih (pl' := .index pl nt) (toks := [tLBracket, nt, tRBracket]) hC1.tail.tail
            (by simp only [Grammar.flat]) (wp_index hw (hlp (by decide)) hnt)
            (by simp only [llevel, lmin_of_ne hi]; exact Nat.lt_min.2 ⟨hlt, hp⟩) (okAfter_top _)
            (by simpa only [Grammar.erase, optNode_of_ne hi, hint, Option.getD_some, indexNode] using h)
        · pm_at h []
          split at h
          · rename_i o s2 heq2
            obtain ⟨rhs, rest1, rfl, rfl, hrok, rfl, ho⟩ := ih.proj rest0 o s2 hC1.right.tail heq2
            have := loop_continue ih (pl := pl) (n := n) (s' := s') (pl' := .slice pl a bb c rhs)
              (toks := tLBracket :: sliceToks a bb c ++ tRBracket :: Grammar.flat true rhs) hC1.right.tail.right
              (by simp only [Grammar.flat, List.append_assoc, List.cons_append]) (wp_slice hw (hlp (by decide)) hsok hrok)
              (by simp only [llevel, lmin_of_ne hi]; exact Nat.lt_min.2 ⟨hlt, hp⟩) ho
              (by simpa only [Grammar.erase, optNode_of_ne hi] using h)
            simpa only [List.cons_append, List.append_assoc] using this
          · cases h
      · cases h
    case dot =>
      obtain rfl : t = tDot := canon_tok hCt hτ rfl
      pm_at h [binOpOf]
      have hld := hlp (by decide)
      have hll : p < llevel (.dotStarList pl) := by
        simp only [llevel, lmin_of_ne hi]; exact Nat.lt_min.2 ⟨hlt, hp⟩
      tok_cases h ((stOf ts1).curr.type) hc
      case arrayWildcard =>
        obtain ⟨ts2, rfl, hC2⟩ := curr_canon hC1 hc rfl
        pm_at h []
        exact loop_continue ih (pl' := .dotStarList pl) (toks := [tDot, tArrayStar]) hC2
          (by simp only [Grammar.flat]) (wp_dotStarList hw hld) hll (okAfter_top _)
          (by simpa only [Grammar.erase, optNode_of_ne hi, listNode] using h)
      case openBrace =>
        obtain ⟨ts2, rfl, hC2⟩ := curr_canon hC1 hc rfl
        pm_at h []
        split at h
        · rename_i n0 s1 heq
          obtain ⟨kvs, rest0, rfl, hne, rfl, hwk, rfl⟩ := ih.sobj (some (erase pl)) ts2 n0 s1 hC2 heq
          have := loop_continue ih (pl := pl) (n := n) (s' := s') (pl' := .dotHash pl kvs)
            (toks := tDot :: tLBrace :: flatKVs tColon kvs ++ [tRBrace]) hC2.right.tail
            (by simp only [Grammar.flat, List.append_assoc, List.cons_append]) (wp_dotHash hw hld hne hwk) hll
            (okAfter_top _) (by simpa only [Grammar.erase, optNode_of_ne hi] using h)
          simp only [List.cons_append, List.append_assoc, List.nil_append] at this
          exact this
        · cases h
      case openSqBrace =>
        obtain ⟨ts2, rfl, hC2⟩ := curr_canon hC1 hc rfl
        pm_at h []
        split at h
        · rename_i n0 s1 heq
          obtain ⟨es, rest0, rfl, hne, rfl, hwk, rfl⟩ := ih.sarr (some (erase pl)) ts2 n0 s1 hC2 heq
          have := loop_continue ih (pl := pl) (n := n) (s' := s') (pl' := .dotList pl es)
            (toks := tDot :: tLBracket :: flatSep es ++ [tRBracket]) hC2.right.tail
            (by simp only [Grammar.flat, List.append_assoc, List.cons_append]) (wp_dotList hw hld hne hwk) hll
            (okAfter_top _) (by simpa only [Grammar.erase, optNode_of_ne hi] using h)
          simp only [List.cons_append, List.append_assoc, List.nil_append] at this
          exact this
        · cases h
      all_goals
        pm_at h []
        split at h
        · rename_i n0 s1 heq
          obtain ⟨r, rest0, rfl, hts, hwr, rfl, hlr, hor⟩ := ih.expr _ ts1 n0 s1 hC1 (by decide) heq
          obtain ⟨t2, ts2, hts2, ht2⟩ := curr_cons hc (by decide)
          have hsi : startsWithIdent r = true :=
            startsWithIdent_of_cons (t := t2) (ts := rest0) (ts' := ts2) (by rw [← hts, hts2]) (flat_ne_nil hwr)
              (by first | exact Or.inl ht2 | exact Or.inr ht2)
          subst hts
          exact loop_continue ih (pl' := .dotId pl r) (toks := tDot :: Grammar.flat false r) hC1.right
            (by simp only [Grammar.flat]) (wp_dotId hw hld hwr hlr hsi) hll hor
            (by simpa only [Grammar.erase, optNode_of_ne hi, subNode] using h)
        · cases h

/-! ## Right-hand sides -/

theorem rhsOK_of {pt : PTree} (hw : Grammar.wp true pt = true) (hl : lvlProj < llevel pt) : RhsOK pt := by
  simp [RhsOK, hw, hl]

theorem proj_finish {f : Nat} (ih : Sound f) {pl : PTree} {ts1 toks : List Token} {n1 : INode} {s1 : PState}
    (hC1 : AllCanon ts1) (hfl0 : Grammar.flat true pl = toks) (hw : Grammar.wp true pl = true)
    (hl : lvlProj < llevel pl) (ho : okAfter (rlevel pl) ts1)
    (h : exprLoop f (erase pl) projectionPrecedence (stOf ts1) = .ok (n1, s1)) :
    ∃ rhs rest, s1 = stOf rest ∧ toks ++ ts1 = Grammar.flat true rhs ++ rest ∧ RhsOK rhs ∧
      some n1 = optNode rhs (erase rhs) ∧ okAfter lvlProj rest := by
  obtain ⟨pt, mid, rest, rfl, rfl, hfl, hwp, rfl, hlp, hop⟩ := ih.loop true pl _ ts1 n1 s1 hC1 hw hl ho h
  refine ⟨pt, rest, rfl, by rw [hfl, hfl0, List.append_assoc], rhsOK_of hwp hlp, ?_, hop.mono (Nat.min_le_left _ _)⟩
  rw [optNode_of_ne (wp_ne_icur hwp)]

theorem sound_proj {f : Nat} (ih : Sound f) : ∀ ts o s', AllCanon ts →
    projection (f + 1) projectionPrecedence (stOf ts) = .ok (o, s') →
    ∃ rhs rest, s' = stOf rest ∧ ts = Grammar.flat true rhs ++ rest ∧ RhsOK rhs ∧ o = optNode rhs (erase rhs) ∧
      okAfter lvlProj rest := by
  intro ts o s' hC h
  rw [projection.eq_2] at h
  pm_at h []
  generalize hτ : (stOf ts).curr.type = τ at h
  cases τ
  all_goals try (
    pm_at h []
    cases h
    exact ⟨.icur, ts, rfl, rfl, rfl, rfl, by first | exact Or.inl (by rw [hτ]; decide) | exact Or.inr hτ⟩)
  case arrayWildcard =>
    pm_at h []
    split at h
    · rename_i n0 s0 heq0
      obtain ⟨pl, ts1, rfl, rfl, hw, rfl, hl, ho⟩ := ih.primR ts n0 s0 hC (Or.inl hτ) heq0
      split at h
      · rename_i n1 s1 heq1
        cases h
        exact proj_finish ih hC.right rfl hw (by rw [hl]; decide) ho heq1
      · cases h
    · cases h
  case filter =>
    pm_at h []
    split at h
    · rename_i n0 s0 heq0
      obtain ⟨pl, ts1, rfl, rfl, hw, rfl, hl, ho⟩ := ih.primR ts n0 s0 hC (Or.inr hτ) heq0
      split at h
      · rename_i n1 s1 heq1
        cases h
        exact proj_finish ih hC.right rfl hw (by rw [hl]; decide) ho heq1
      · cases h
    · cases h
  case objectWildcard =>
    obtain ⟨ts1, rfl, hC1⟩ := curr_canon hC hτ rfl
    pm_at h []
    split at h
    · rename_i o1 s1 heq1
      obtain ⟨rhs1, rest1, rfl, rfl, hrok, rfl, ho1⟩ := ih.proj ts1 o1 s1 hC1 heq1
      split at h
      · rename_i n1 s2 heq2
        cases h
        have := proj_finish ih (n1 := n1) (s1 := s') (pl := .ostar .icur rhs1) (toks := tDotStar :: Grammar.flat true rhs1) hC1.right
          (by simp only [Grammar.flat, PTree.isIcur, if_true, List.singleton_append, List.cons_append, List.nil_append])
          (wp_ostar0 _ hrok) (show lvlProj < top by decide) ho1
          (by simp only [Grammar.erase, optNode_icur]
              generalize optNode rhs1 (erase rhs1) = o at heq2 ⊢; cases o <;> exact heq2)
        simp only [List.cons_append, List.append_assoc] at this
        exact this
      · cases h
    · cases h
  case openSqBrace =>
    obtain ⟨ts1, rfl, hC1⟩ := curr_canon hC hτ rfl
    pm_at h []
    split at h
    · rename_i r s1 heq
      obtain ⟨n0, pr⟩ := r
      rcases indexP_inv hC1 heq with ⟨nt, i, rest, rfl, hnt, hint, rfl, rfl, rfl⟩ |
        ⟨a, bb, c, rest0, rfl, hsok, rfl, rfl, rfl⟩
      · pm_at h []
        split at h
        · rename_i n1 s2 heq2
          cases h
          have := proj_finish ih (n1 := n1) (s1 := s') (pl := .index .icur nt) (toks := [tLBracket, nt, tRBracket]) hC1.tail.tail
            (by simp only [Grammar.flat, List.nil_append]) (wp_index0 _ hnt) (show lvlProj < top by decide) (okAfter_top _)
            (by simpa only [Grammar.erase, optNode_icur, hint, Option.getD_some] using heq2)
          exact this
        · cases h
      · pm_at h []
        split at h
        · rename_i o1 s2 heq1
          obtain ⟨rhs1, rest1, rfl, rfl, hrok, rfl, ho1⟩ := ih.proj rest0 o1 s2 hC1.right.tail heq1
          split at h
          · rename_i n1 s3 heq2
            cases h
            have := proj_finish ih (n1 := n1) (s1 := s') (pl := .slice .icur a bb c rhs1)
              (toks := tLBracket :: sliceToks a bb c ++ tRBracket :: Grammar.flat true rhs1) hC1.right.tail.right
              (by simp only [Grammar.flat, List.nil_append]) (wp_slice0 _ hsok hrok) (show lvlProj < top by decide) ho1
              (by simpa only [Grammar.erase, optNode_icur] using heq2)
            simp only [List.cons_append, List.append_assoc] at this
            exact this
          · cases h
        · cases h
    · cases h
  case dot =>
    obtain ⟨ts1, rfl, hC1⟩ := curr_canon hC hτ rfl
    pm_at h []
    tok_cases h ((stOf ts1).curr.type) hc
    case arrayWildcard =>
      obtain ⟨ts2, rfl, hC2⟩ := curr_canon hC1 hc rfl
      pm_at h []
      split at h
      · rename_i n1 s2 heq2
        cases h
        exact proj_finish ih (pl := .dotStarList .icur) (toks := [tDot, tArrayStar]) hC2
          (by simp only [Grammar.flat, List.nil_append]) (by simp [Grammar.wp, PTree.isIcur]) (show lvlProj < top by decide)
          (okAfter_top _) (by simpa only [Grammar.erase, optNode_icur, listNode] using heq2)
      · cases h
    case openBrace =>
      obtain ⟨ts2, rfl, hC2⟩ := curr_canon hC1 hc rfl
      pm_at h []
      split at h
      · rename_i n0 s1 heq
        obtain ⟨kvs, rest0, rfl, hne, rfl, hwk, rfl⟩ := ih.sobj none ts2 n0 s1 hC2 heq
        split at h
        · rename_i n1 s2 heq2
          cases h
          have hwp : Grammar.wp true (.dotHash .icur kvs) = true := by
            cases kvs with
            | nil => exact absurd rfl hne
            | cons kv kvs => simp [Grammar.wp, PTree.isIcur, hwk]
          have := proj_finish ih (n1 := n1) (s1 := s') (pl := .dotHash .icur kvs)
            (toks := tDot :: tLBrace :: flatKVs tColon kvs ++ [tRBrace]) hC2.right.tail
            (by simp only [Grammar.flat, List.nil_append]) hwp (show lvlProj < top by decide) (okAfter_top _)
            (by simpa only [Grammar.erase, optNode_icur] using heq2)
          simp only [List.cons_append, List.append_assoc, List.nil_append] at this
          exact this
        · cases h
      · cases h
    case openSqBrace =>
      obtain ⟨ts2, rfl, hC2⟩ := curr_canon hC1 hc rfl
      pm_at h []
      split at h
      · rename_i n0 s1 heq
        obtain ⟨es, rest0, rfl, hne, rfl, hwk, rfl⟩ := ih.sarr none ts2 n0 s1 hC2 heq
        split at h
        · rename_i n1 s2 heq2
          cases h
          have hwp : Grammar.wp true (.dotList .icur es) = true := by
            cases es with
            | nil => exact absurd rfl hne
            | cons e es => simp [Grammar.wp, PTree.isIcur, hwk]
          have := proj_finish ih (n1 := n1) (s1 := s') (pl := .dotList .icur es)
            (toks := tDot :: tLBracket :: flatSep es ++ [tRBracket]) hC2.right.tail
            (by simp only [Grammar.flat, List.nil_append]) hwp (show lvlProj < top by decide) (okAfter_top _)
            (by simpa only [Grammar.erase, optNode_icur] using heq2)
          simp only [List.cons_append, List.append_assoc, List.nil_append] at this
          exact this
        · cases h
      · cases h
    all_goals
      pm_at h []
      split at h
      · rename_i n0 s1 heq
        obtain ⟨r, rest0, rfl, hts, hwr, rfl, hlr, hor⟩ := ih.expr _ ts1 n0 s1 hC1 (by decide) heq
        cases h
        obtain ⟨t2, ts2, hts2, ht2⟩ := curr_cons hc (by decide)
        have hsi : startsWithIdent r = true :=
          startsWithIdent_of_cons (t := t2) (ts := rest0) (ts' := ts2) (by rw [← hts, hts2]) (flat_ne_nil hwr)
            (by first | exact Or.inl ht2 | exact Or.inr ht2)
        have hg := graft_spec r hwr hlr hsi
        subst hts
        refine ⟨graft r, rest0, rfl, by rw [hg.flat]; rfl, rhsOK_of hg.wp hg.lvl, ?_,
          hor.mono (Nat.min_le_left _ _)⟩
        rw [optNode_of_ne hg.ne, hg.erase]
      · cases h

theorem sound_primR {f : Nat} (ih : Sound f) : ∀ ts n s', AllCanon ts →
    ((stOf ts).curr.type = .arrayWildcard ∨ (stOf ts).curr.type = .filter) →
    primaryExpression (f + 1) (stOf ts) = .ok (n, s') →
    ∃ pt rest, s' = stOf rest ∧ ts = Grammar.flat true pt ++ rest ∧ Grammar.wp true pt = true ∧ erase pt = n ∧
      llevel pt = top ∧ okAfter (rlevel pt) rest := by
  intro ts n s' hC hcur h
  rw [primaryExpression.eq_2] at h
  pm_at h []
  rcases hcur with hc | hc
  · obtain ⟨ts1, rfl, hC1⟩ := curr_canon hC hc rfl
    pm_at h []
    split at h
    · rename_i o s1 heq
      obtain ⟨rhs, rest, rfl, rfl, hok, rfl, ho⟩ := ih.proj ts1 o s1 hC1 heq
      cases h
      exact ⟨.star .icur rhs, rest, rfl, rfl, wp_star0 _ hok, (starNode_none _).symm, rfl, ho⟩
    · cases h
  · obtain ⟨ts1, rfl, hC1⟩ := curr_canon hC hc rfl
    pm_at h []
    split at h
    · rename_i c0 s1 heq
      obtain ⟨c, rest0, rfl, rfl, hwc, rfl⟩ := ih.filt ts1 c0 s1 hC1 heq
      split at h
      · rename_i o s2 heq2
        obtain ⟨rhs, rest, rfl, rfl, hok, rfl, ho⟩ := ih.proj rest0 o s2 hC1.right.tail heq2
        cases h
        exact ⟨.filt .icur c rhs, rest, rfl, by simp only [Grammar.flat, List.cons_append, List.append_assoc, List.nil_append]; rfl,
          wp_filt0 _ hwc hok, (filtNode_none _ _).symm, rfl, ho⟩
      · cases h
    · cases h


/-! ## The induction on fuel -/

theorem sound : ∀ f, Sound f
  | 0 => sound_zero
  | f + 1 =>
    have ih := sound f
    ⟨sound_expr ih, sound_loop ih, sound_prim ih, sound_primR ih, sound_proj ih, sound_filt ih, sound_sarrl ih,
      sound_sarr ih, sound_sobjl ih, sound_sobj ih, sound_args ih, sound_vargs ih, sound_func ih, sound_letp ih⟩

/-! ## No end marker inside a tree -/

def NoEnd (l : List Token) : Prop := ∀ x ∈ l, x.type ≠ .end

theorem NoEnd.nil : NoEnd [] := fun _ h => by cases h
theorem noEnd_cons {a : Token} {l : List Token} : NoEnd (a :: l) ↔ a.type ≠ .end ∧ NoEnd l := by
  simp [NoEnd]
theorem noEnd_append {a b : List Token} : NoEnd (a ++ b) ↔ NoEnd a ∧ NoEnd b := by
  simp only [NoEnd, List.mem_append]
  constructor
  · intro h; exact ⟨fun x hx => h x (Or.inl hx), fun x hx => h x (Or.inr hx)⟩
  · rintro ⟨h1, h2⟩ x (hx | hx)
    · exact h1 x hx
    · exact h2 x hx

theorem noEnd_flatSep : ∀ {es : List PTree}, (∀ e ∈ es, NoEnd (Grammar.flat false e)) → NoEnd (flatSep es)
  | [], _ => NoEnd.nil
  | [e], h => by simpa [flatSep] using h e (by simp)
  | e :: e' :: es, h => by
    rw [flatSep_cons2, noEnd_append, noEnd_cons]
    exact ⟨h e (by simp), by decide, noEnd_flatSep fun x hx => h x (by simp [hx])⟩

theorem noEnd_flatKVs {sep : Token} (hsep : sep.type ≠ .end) : ∀ {kvs : List (Token × PTree)},
    (∀ kv ∈ kvs, kv.1.type ≠ .end ∧ NoEnd (Grammar.flat false kv.2)) → NoEnd (flatKVs sep kvs)
  | [], _ => NoEnd.nil
  | [(k, e)], h => by
    simp only [flatKVs, noEnd_cons]
    exact ⟨(h (k, e) (by simp)).1, hsep, (h (k, e) (by simp)).2⟩
  | (k, e) :: kv :: kvs, h => by
    rw [flatKVs_cons2]
    simp only [noEnd_cons, noEnd_append]
    exact ⟨⟨(h (k, e) (by simp)).1, hsep, (h (k, e) (by simp)).2⟩, by decide,
      noEnd_flatKVs hsep fun x hx => h x (by simp [hx])⟩

def QN (t : PTree) : Prop := ∀ b, Grammar.wp b t = true → NoEnd (Grammar.flat b t)
def PN (x : PTree) : Prop := QN x ∧ ∀ t, x = .ref t → QN t

theorem left_noEnd {b : Bool} {l : PTree} {X : Bool} {lvl : Nat} (hl : QN l)
    (h : (if l.isIcur = true then X else Grammar.wp b l && decide (lvl ≤ rlevel l)) = true) :
    NoEnd (Grammar.flat b l) := by
  rcases left_cases h with ⟨rfl, _⟩ | ⟨_, hw, _⟩
  · exact NoEnd.nil
  · exact hl b hw

theorem rhs_noEnd {rhs : PTree} (hr : QN rhs)
    (h : (rhs.isIcur || (Grammar.wp true rhs && decide (lvlProj < llevel rhs))) = true) :
    NoEnd (Grammar.flat true rhs) := by
  cases hi : rhs.isIcur
  · simp only [hi, Bool.false_or, Bool.and_eq_true] at h
    exact hr true h.1
  · rw [isIcur_eq hi]; exact NoEnd.nil

theorem atom_ne_end {t : Token} (h : (atomNode t).isSome = true) : t.type ≠ .end := by
  intro h0
  simp [atomNode, h0] at h

theorem sliceToks_noEnd {a b : Option Token} {c : Option (Option Token)} (h : sliceOK a b c = true) :
    NoEnd (sliceToks a b c) := by
  simp only [sliceOK, Bool.and_eq_true] at h
  obtain ⟨⟨ha, hb⟩, hc⟩ := h
  have int_ne : ∀ {t : Token}, isIntTok t = true → t.type ≠ .end := by
    intro t ht h0
    simp [isIntTok, h0] at ht
  rcases a with _ | a <;> rcases b with _ | b <;> rcases c with _ | _ | c <;>
    simp only [sliceToks, Option.toList, List.nil_append, List.cons_append, List.append_nil, noEnd_cons,
      optIntTok, Bool.and_eq_true] at ha hb hc ⊢ <;>
    (first
      | exact ⟨by decide, NoEnd.nil⟩
      | exact ⟨by decide, by decide, NoEnd.nil⟩
      | exact ⟨by decide, by decide, int_ne hc.1, NoEnd.nil⟩
      | exact ⟨by decide, int_ne hb, NoEnd.nil⟩
      | exact ⟨by decide, int_ne hb, by decide, NoEnd.nil⟩
      | exact ⟨by decide, int_ne hb, by decide, int_ne hc.1, NoEnd.nil⟩
      | exact ⟨int_ne ha, by decide, NoEnd.nil⟩
      | exact ⟨int_ne ha, by decide, by decide, NoEnd.nil⟩
      | exact ⟨int_ne ha, by decide, by decide, int_ne hc.1, NoEnd.nil⟩
      | exact ⟨int_ne ha, by decide, int_ne hb, NoEnd.nil⟩
      | exact ⟨int_ne ha, by decide, int_ne hb, by decide, NoEnd.nil⟩
      | exact ⟨int_ne ha, by decide, int_ne hb, by decide, int_ne hc.1, NoEnd.nil⟩)

theorem key_ne_end {k : Token} (h : keyOK k = true) : k.type ≠ .end := by
  intro h0; simp [keyOK, h0] at h
theorem var_ne_end {k : Token} (h : isVarTok k = true) : k.type ≠ .end := by
  intro h0; simp [isVarTok, h0] at h

theorem pn_of_qn {t : PTree} (h : QN t) (hn : ∀ x, t ≠ .ref x) : PN t := ⟨h, fun x hx => absurd hx (hn x)⟩

macro "ne_close" : tactic => `(tactic|
  (simp only [Grammar.flat, noEnd_cons, noEnd_append]
   repeat' apply And.intro
   all_goals first | exact NoEnd.nil | decide | assumption))

theorem noEnd_all : ∀ t, PN t := by
  apply PTree.ind
  · exact pn_of_qn (fun b h => by simp [Grammar.wp] at h) (fun _ h => by cases h)
  · refine fun t => pn_of_qn (fun b h => ?_) (fun _ h => by cases h)
    simp only [Grammar.wp, Bool.and_eq_true] at h
    have := atom_ne_end h.2
    ne_close
  · refine fun t ht => pn_of_qn (fun b h => ?_) (fun _ h => by cases h)
    simp only [Grammar.wp, Bool.and_eq_true] at h
    have := ht.1 false h.2
    ne_close
  · refine fun t ht => pn_of_qn (fun b h => ?_) (fun _ h => by cases h)
    simp only [Grammar.wp, Bool.and_eq_true] at h
    have := ht.1 false h.1.2
    ne_close
  · refine fun tok t ht => pn_of_qn (fun b h => ?_) (fun _ h => by cases h)
    simp only [Grammar.wp, Bool.and_eq_true, beq_iff_eq] at h
    have := ht.1 false h.1.2
    have : tok.type ≠ .end := by rw [h.1.1.2]; decide
    ne_close
  · refine fun t ht => pn_of_qn (fun b h => ?_) (fun _ h => by cases h)
    simp only [Grammar.wp, Bool.and_eq_true] at h
    have := ht.1 false h.1.2
    ne_close
  · refine fun op l r hl hr => pn_of_qn (fun b h => ?_) (fun _ h => by cases h)
    simp only [Grammar.wp] at h
    split at h
    · cases h
    · rename_i lvl hlvl
      simp only [Bool.and_eq_true, Bool.not_eq_true', decide_eq_true_eq] at h
      have := hl.1 b h.1.1.1.2
      have := hr.1 false h.1.2
      have : op.type ≠ .end := by intro h0; rw [h0] at hlvl; simp [binLevel] at hlvl
      ne_close
  · refine fun l r hl hr => pn_of_qn (fun b h => ?_) (fun _ h => by cases h)
    simp only [Grammar.wp, Bool.and_eq_true] at h
    have := left_noEnd hl.1 h.1.1.1
    have := hr.1 false h.1.1.2
    ne_close
  · refine fun l es hl hes => pn_of_qn (fun b h => ?_) (fun _ h => by cases h)
    simp only [Grammar.wp, Bool.and_eq_true] at h
    have := left_noEnd hl.1 h.1.1
    have := noEnd_flatSep fun e he => (hes e he).1 false (mem_wpL h.2 e he)
    ne_close
  · refine fun l kvs hl hes => pn_of_qn (fun b h => ?_) (fun _ h => by cases h)
    simp only [Grammar.wp, Bool.and_eq_true] at h
    have := left_noEnd hl.1 h.1.1
    have := noEnd_flatKVs (sep := tColon) (by decide) fun kv he => ⟨key_ne_end (mem_wpKVs h.2 kv he).1,
        (hes kv he).1 false (mem_wpKVs h.2 kv he).2⟩
    ne_close
  · refine fun l hl => pn_of_qn (fun b h => ?_) (fun _ h => by cases h)
    simp only [Grammar.wp] at h
    have := left_noEnd hl.1 h
    ne_close
  · refine fun l n hl => pn_of_qn (fun b h => ?_) (fun _ h => by cases h)
    simp only [Grammar.wp, Bool.and_eq_true] at h
    have := left_noEnd hl.1 h.1
    have : n.type ≠ .end := by intro h0; simp [isIntTok, h0] at h
    ne_close
  · refine fun name args hargs => pn_of_qn (fun b h => ?_) (fun _ h => by cases h)
    simp only [Grammar.wp, Bool.and_eq_true, beq_iff_eq] at h
    have : name.type ≠ .end := by rw [h.1.1.2]; decide
    have hwa : ∀ {es : List PTree}, wpArgs es = true → ∀ e ∈ es, Grammar.wp false (unref e) = true := by
      intro es
      induction es with
      | nil => intro _ e he; cases he
      | cons x xs ih =>
        intro hw e he
        rw [wpArgs_cons, Bool.and_eq_true] at hw
        rcases List.mem_cons.1 he with rfl | he
        · exact hw.1
        · exact ih hw.2 e he
    have : NoEnd (flatSep args) := by
      refine noEnd_flatSep fun e he => ?_
      have hwe := hwa h.2 e he
      cases hr : e.isRef
      · rw [unref_of_not hr] at hwe
        exact (hargs e he).1 false hwe
      · obtain ⟨x, rfl⟩ := isRef_eq hr
        have := (hargs _ he).2 x rfl false hwe
        ne_close
    ne_close
  · exact fun t ht => ⟨fun b h => by simp [Grammar.wp] at h, fun x hx => by cases hx; exact ht.1⟩
  · refine fun bs body hbs hb => pn_of_qn (fun b h => ?_) (fun _ h => by cases h)
    simp only [Grammar.wp, Bool.and_eq_true] at h
    have := noEnd_flatKVs (sep := tAssign) (by decide) fun kv he => ⟨var_ne_end (mem_wpKVs h.1.2 kv he).1,
        (hbs kv he).1 false (mem_wpKVs h.1.2 kv he).2⟩
    have := hb.1 false h.2
    ne_close
  · refine fun es hes => pn_of_qn (fun b h => ?_) (fun _ h => by cases h)
    simp only [Grammar.wp, Bool.and_eq_true] at h
    have := noEnd_flatSep fun e he => (hes e he).1 false (mem_wpL h.2 e he)
    ne_close
  · refine fun kvs hes => pn_of_qn (fun b h => ?_) (fun _ h => by cases h)
    simp only [Grammar.wp, Bool.and_eq_true] at h
    have := noEnd_flatKVs (sep := tColon) (by decide) fun kv he => ⟨key_ne_end (mem_wpKVs h.2 kv he).1,
        (hes kv he).1 false (mem_wpKVs h.2 kv he).2⟩
    ne_close
  · refine fun l rhs hl hr => pn_of_qn (fun b h => ?_) (fun _ h => by cases h)
    simp only [Grammar.wp, Bool.and_eq_true] at h
    have := left_noEnd hl.1 h.1
    have := rhs_noEnd hr.1 h.2
    ne_close
  · refine fun l rhs hl hr => pn_of_qn (fun b h => ?_) (fun _ h => by cases h)
    simp only [Grammar.wp, Bool.and_eq_true] at h
    have := left_noEnd hl.1 h.1
    have := rhs_noEnd hr.1 h.2
    simp only [Grammar.flat]
    split
    · split <;> ne_close
    · ne_close
  · refine fun l rhs hl hr => pn_of_qn (fun b h => ?_) (fun _ h => by cases h)
    simp only [Grammar.wp, Bool.and_eq_true] at h
    have := left_noEnd hl.1 h.1
    have := rhs_noEnd hr.1 h.2
    ne_close
  · refine fun l c rhs hl hc hr => pn_of_qn (fun b h => ?_) (fun _ h => by cases h)
    simp only [Grammar.wp, Bool.and_eq_true] at h
    have := left_noEnd hl.1 h.1.1
    have := hc.1 false h.1.2
    have := rhs_noEnd hr.1 h.2
    ne_close
  · refine fun l a bb c rhs hl hr => pn_of_qn (fun b h => ?_) (fun _ h => by cases h)
    simp only [Grammar.wp, Bool.and_eq_true] at h
    have := left_noEnd hl.1 h.1.1
    have := sliceToks_noEnd h.1.2
    have := rhs_noEnd hr.1 h.2
    ne_close

theorem flat_noEnd {b : Bool} {t : PTree} (h : Grammar.wp b t = true) : NoEnd (Grammar.flat b t) :=
  (noEnd_all t).1 b h


end Jmes.GrammarS
