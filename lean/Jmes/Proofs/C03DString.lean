/-
  C03D — checked mirrors of /repo/internal/evaluator/string.go (the functions that index or slice).

  Every Go expression `s[a:b]`, `s[a:]`, `s[:b]`, `r[i] = x`, `r[:k]`, `make([]any, n)` of the functions below goes
  through a checked primitive of `Jmes/Proofs/C03DChecked.lean` (answers `Res.panic …` out of bounds).  For each
  checked mirror `fC` the theorem `fC_eq` says `fC x = f x` for the model function `f` — for ALL values, all integers,
  all byte strings (valid UTF-8 or not): the checks never fire, the guards in the Go source suffice.

  The functions of string.go NOT listed here (`endsWith`, `startsWith`, `pad*`, `replace*`, `trim*`) contain no
  indexing, slicing, `make` or unchecked type assertion of their own (they call `strings.*` / `strings.Builder`);
  `join` (`a[0]`, `a[1:]`) is in `Jmes/Proofs/C03DArray.lean`.
-/
import Jmes.Proofs.C03DChecked
import Jmes.Properties.C09
import Jmes.Proofs.C11CSplitLemmas
namespace Jmes.C03D.StrGo
open Jmes Jmes.C03D

/-! ## `int64(utf8.RuneCountInString(s[:r]))` -/

/-- Go sites: string.go:56 `s[:r]`, :173 `s[:r+i]`, :239 `s[:r+i]`, :269 `s[:r]`, :386 `s[:r+i]`, :452 `s[:r+i]` -/
def runeIndexC (s : Bytes) (r : Int) : Res Val := do
  let pre ← sliceTo? s r
  pure (.num (.int .i64 (runeCount pre)))

/-- within the string the prefix slice succeeds and gives the model's `runeIndexVal` -/
theorem runeIndexC_eq (s : Bytes) (r : Nat) (h : r ≤ s.length) : runeIndexC s (r : Int) = .ok (runeIndexVal s r) := by
  unfold runeIndexC
  rw [sliceTo?_ok_nat s r h]
  rfl

example : runeIndexC [0xC3, 0xA9, 0x61] 2 = .ok (.num (.int .i64 1)) := rfl
example : runeIndexC [0xC3, 0xA9, 0x61] 4 = .panic sliceMsg := rfl

/-! ## `findFirst`, `findLast` -/

/-- `findFirst` (`last = false`, string.go:30-58) and `findLast` (`last = true`, string.go:243-271); the two Go
    functions differ only in `strings.Index` / `strings.LastIndex`.
    Go sites: string.go:56 `s[:r]`; string.go:269 `s[:r]`. -/
def findC (last : Bool) (value sub : Val) : Res Val := do
  let s ← strArg value
  let p ← strArg sub
  if s.isEmpty || p.isEmpty then pure .null
  else match (if last then lastIndexOf s p else indexOf s p) with
    | none => pure .null
    | some r => runeIndexC s r

/-- `find_first(s, p)`: the checked mirror equals the model — `s[:r]` never panics because
    `strings.Index` answers a position inside the string -/
theorem findFirstC_eq (value sub : Val) : findC false value sub = findFirst value sub := by
  unfold findC findFirst
  apply Res.bind_congr; intro s
  apply Res.bind_congr; intro p
  split
  · rfl
  · simp only [Bool.false_eq_true, if_false]
    cases h : indexOf s p with
    | none => rfl
    | some r => simp only [runeIndexC_eq s r (Utf8.indexOf_le s p r h)]; rfl

/-- `find_last(s, p)`: the same for `strings.LastIndex` -/
theorem findLastC_eq (value sub : Val) : findC true value sub = findLast value sub := by
  unfold findC findLast
  apply Res.bind_congr; intro s
  apply Res.bind_congr; intro p
  split
  · rfl
  · simp only [if_true]
    cases h : lastIndexOf s p with
    | none => rfl
    | some r => simp only [runeIndexC_eq s r (Utf8.lastIndexOf_le s p r h)]; rfl

example : findC false (.str [0xC3, 0xA9, 0x61]) (.str [0x61]) = .ok (.num (.int .i64 1)) := rfl
example : findC true (.str [0x61, 0x62, 0x61]) (.str [0x61]) = .ok (.num (.int .i64 2)) := rfl

/-! ## the rune-offset loops of `find*From` / `find*Between` -/

/-- the loop converting `start` from a rune count to a byte offset,
    `n := 0; for k := 0; k < i; k++ { _, sz := utf8.DecodeRuneInString(s[n:]); if sz == 0 { return nil, nil }; n += sz }`.
    First argument: iterations left; `none` = the `return nil, nil` exit.
    Go sites: string.go:135 `s[n:]`, :223 `s[n:]`, :348 `s[n:]`, :436 `s[n:]`. -/
def startLoopC (s : Bytes) : Nat → Int → Res (Option Int)
  | 0, n => .ok (some n)
  | k + 1, n => do
    let t ← sliceFrom? s n
    let sz := (decodeRune t).2
    if sz = 0 then .ok none else startLoopC s k (n + sz)

/-- the same loop for `finish`, which leaves with `break` (string.go:152-159, 365-372): the result is `n` at exit.
    Go sites: string.go:153 `s[n:]`, :366 `s[n:]`. -/
def finishLoopC (s : Bytes) : Nat → Int → Res Int
  | 0, n => .ok n
  | k + 1, n => do
    let t ← sliceFrom? s n
    let sz := (decodeRune t).2
    if sz = 0 then .ok n else finishLoopC s k (n + sz)

/-- if nothing is left after position `n ≤ len`, then `n = len` -/
theorem drop_eq_nil_len {s : Bytes} {n : Nat} (hn : n ≤ s.length) (h : s.drop n = []) : n = s.length := by
  have := congrArg List.length h
  rw [List.length_drop] at this
  simp at this; omega

/-- `s[n:]` in the start loop is always within bounds: `n` only grows by the size of a rune decoded at `n` -/
theorem startLoopC_eq (s : Bytes) : ∀ (k n : Nat), n ≤ s.length →
    startLoopC s k (n : Int) = .ok ((runeOffset k (s.drop n) n).map Int.ofNat) := by
  intro k
  induction k with
  | zero => intro n _; rfl
  | succ k ih =>
    intro n hn
    unfold startLoopC
    rw [sliceFrom?_ok_nat s n hn]
    simp only [Res.ok_bind]
    by_cases hne : s.drop n = []
    · rw [hne]; rfl
    · have hp := C09.decodeRune_pos _ hne
      have hl := C09.decodeRune_le (s.drop n)
      rw [List.length_drop] at hl
      rw [if_neg (by omega), Utf8.runeOffset_succ _ _ _ hne, List.drop_drop]
      have := ih (n + (decodeRune (s.drop n)).2) (by omega)
      rw [← this]; congr 1

/-- `s[n:]` in the finish loop is always within bounds; at the `break` exit `n = len(s)` -/
theorem finishLoopC_eq (s : Bytes) : ∀ (k n : Nat), n ≤ s.length →
    finishLoopC s k (n : Int) = .ok (((runeOffset k (s.drop n) n).getD s.length : Nat) : Int) := by
  intro k
  induction k with
  | zero => intro n _; rfl
  | succ k ih =>
    intro n hn
    unfold finishLoopC
    rw [sliceFrom?_ok_nat s n hn]
    simp only [Res.ok_bind]
    by_cases hne : s.drop n = []
    · rw [hne, drop_eq_nil_len hn hne]; rfl
    · have hp := C09.decodeRune_pos _ hne
      have hl := C09.decodeRune_le (s.drop n)
      rw [List.length_drop] at hl
      rw [if_neg (by omega), Utf8.runeOffset_succ _ _ _ hne, List.drop_drop]
      have := ih (n + (decodeRune (s.drop n)).2) (by omega)
      rw [← this]; congr 1

/-- a rune offset is a position inside the string -/
theorem runeOffset_le : ∀ (i : Nat) (t : Bytes) (acc r : Nat), runeOffset i t acc = some r → r ≤ acc + t.length := by
  intro i
  induction i with
  | zero => intro t acc r h; simp [runeOffset] at h; omega
  | succ i ih =>
    intro t acc r h
    by_cases hne : t = []
    · subst hne; simp [runeOffset] at h
    · rw [Utf8.runeOffset_succ _ _ _ hne] at h
      have := ih _ _ _ h
      have hl := C09.decodeRune_le t
      rw [List.length_drop] at this
      omega

/-- string.go:128-144 (also :216-232, :341-357, :429-445): conversion of `start`;
    `none` = the function returns null -/
def startC (s : Bytes) (i : Int) : Res (Option Int) :=
  if i < 0 then .ok (some 0)
  else if i > s.length then .ok none
  else startLoopC s i.toNat 0

/-- string.go:146-162 (also :359-375): conversion of `finish` -/
def finishC (s : Bytes) (j : Int) : Res (Option Int) :=
  if j < 0 then .ok none
  else if j > s.length then .ok (some s.length)
  else do
    let n ← finishLoopC s j.toNat 0
    pure (some n)

/-- the checked conversion of `start` is the model's `startOffset` -/
theorem startC_eq (s : Bytes) (i : Int) : startC s i = .ok ((startOffset s i).map Int.ofNat) := by
  unfold startC startOffset
  split
  · rfl
  · split
    · rfl
    · have := startLoopC_eq s i.toNat 0 (Nat.zero_le _)
      simpa using this

/-- the checked conversion of `finish` is the model's `finishOffset` -/
theorem finishC_eq (s : Bytes) (j : Int) : finishC s j = .ok ((finishOffset s j).map Int.ofNat) := by
  unfold finishC finishOffset
  split
  · rfl
  · split
    · rfl
    · have := finishLoopC_eq s j.toNat 0 (Nat.zero_le _)
      simp only [List.drop_zero, Int.natCast_zero] at this
      rw [this]; rfl

/-- the byte offset computed for `start` lies inside the string -/
theorem startOffset_le (s : Bytes) (i : Int) (a : Nat) (h : startOffset s i = some a) : a ≤ s.length := by
  unfold startOffset at h
  split at h
  · injection h with h; omega
  · split at h
    · cases h
    · have := runeOffset_le _ _ _ _ h; omega

/-- the byte offset computed for `finish` lies inside the string -/
theorem finishOffset_le (s : Bytes) (j : Int) (b : Nat) (h : finishOffset s j = some b) : b ≤ s.length := by
  unfold finishOffset at h
  split at h
  · cases h
  · split at h
    · injection h with h; omega
    · injection h with h
      cases hr : runeOffset j.toNat s 0 with
      | none => rw [hr] at h; simp at h; omega
      | some r =>
        rw [hr] at h; simp at h
        have := runeOffset_le _ _ _ _ hr; omega

example : startC [0xC3, 0xA9, 0x61] 1 = .ok (some 2) := rfl
example : startC [0xC3, 0xA9, 0x61] 3 = .ok none := rfl      -- 3 ≤ len(s) bytes but only 2 runes: the `sz == 0` exit
example : finishC [0xC3, 0xA9, 0x61] 3 = .ok (some 3) := rfl   -- the `break` exit

/-! ## `findFirstFrom`, `findLastFrom` -/

/-- `findFirstFrom` (string.go:177-241) / `findLastFrom` (string.go:390-454).
    Go sites: :223/:436 `s[n:]` (in `startC`), :234 `s[i:]` / :447 `s[i:]`, :239/:452 `s[:r+i]`. -/
def findFromC (last : Bool) (value sub start : Val) : Res Val := do
  let s ← strArg value
  let p ← strArg sub
  let i ← intArg start
  let i? ← startC s i
  match i? with
  | none => pure .null
  | some i => do
    let t ← sliceFrom? s i
    match (if last then lastIndexOf t p else indexOf t p) with
    | none => pure .null
    | some r => runeIndexC s (r + i)

/-- `find_first(s, p, start)` / `find_last(s, p, start)`: no slice of the mirror can panic, whatever the integer `start`
    and whatever bytes `s` holds -/
theorem findFromC_eq (last : Bool) (value sub start : Val) :
    findFromC last value sub start = findFrom last value sub start := by
  unfold findFromC findFrom
  apply Res.bind_congr; intro s
  apply Res.bind_congr; intro p
  apply Res.bind_congr; intro i
  rw [startC_eq]
  simp only [Res.ok_bind]
  cases hs : startOffset s i with
  | none => rfl
  | some a =>
    have ha := startOffset_le s i a hs
    simp only [Option.map_some, Int.ofNat_eq_natCast]
    rw [sliceFrom?_ok_nat s a ha]
    simp only [Res.ok_bind]
    cases hr : (if last = true then lastIndexOf (s.drop a) p else indexOf (s.drop a) p) with
    | none => rfl
    | some r =>
      have hrl : r ≤ (s.drop a).length := by
        cases last
        · exact Utf8.indexOf_le _ _ _ (by simpa using hr)
        · exact Utf8.lastIndexOf_le _ _ _ (by simpa using hr)
      rw [List.length_drop] at hrl
      have e : ((r : Int) + (a : Int)) = ((r + a : Nat) : Int) := by omega
      simp only [e, runeIndexC_eq s (r + a) (by omega)]
      rfl

example : findFromC false (.str [0x61, 0x62, 0x61]) (.str [0x61]) (.num (.int .i64 1)) = .ok (.num (.int .i64 2)) := rfl
example : findFromC false (.str [0x61, 0x62, 0x61]) (.str [0x61]) (.num (.int .i64 (2 ^ 63 - 1))) = .ok .null := rfl
example : findFromC true (.str [0xFF, 0xFE]) (.str [0xFE]) (.num (.int .i64 (-5))) = .ok (.num (.int .i64 1)) := rfl

/-! ## `findFirstBetween`, `findLastBetween` -/

/-- `findFirstBetween` (string.go:60-175) / `findLastBetween` (string.go:273-388), transliterated.
    `guardIJ = false` drops the guard `if i > j { return nil, nil }` (string.go:164 / :377), for the demonstration below.
    Go sites: :135/:348 `s[n:]` (`startC`), :153/:366 `s[n:]` (`finishC`), :168 `s[i:j]` / :381 `s[i:j]`,
    :173/:386 `s[:r+i]`. -/
def findBetweenG (guardIJ : Bool) (last : Bool) (value sub start finish : Val) : Res Val := do
  let s ← strArg value
  let p ← strArg sub
  let i ← (match toInt start with
    | .int i => (.ok i : Res Int)
    | .notNum => errType
    | .notInt =>
      (match toInt finish with
       | .notNum => errType
       | .panic => .panic "Decimal(NaN).Int64()"
       | .unmodelled => .unmodelled "strconv.ParseFloat on a hexadecimal literal"
       | _ => (match toDecimal start with
         | none => errType
         | some _ => errValue))
    | .panic => .panic "Decimal(NaN).Int64()"
    | .unmodelled => .unmodelled "strconv.ParseFloat on a hexadecimal literal")
  let j ← intArg finish
  let i? ← startC s i
  match i? with
  | none => pure .null
  | some i => do
    let j? ← finishC s j
    match j? with
    | none => pure .null
    | some j =>
      if guardIJ && i > j then pure .null
      else do
        let w ← slice? s i j
        match (if last then lastIndexOf w p else indexOf w p) with
        | none => pure .null
        | some r => runeIndexC s (r + i)

/-- the Go function as it is (guard present) -/
def findBetweenC := findBetweenG true

/-- `find_first(s, p, start, end)` / `find_last(s, p, start, end)`: `s[i:j]` and `s[:r+i]` never panic — for every pair of
    integers `start`, `end` (also `start > end`, negative, huge) and every byte string -/
theorem findBetweenC_eq (last : Bool) (value sub start finish : Val) :
    findBetweenC last value sub start finish = findBetween last value sub start finish := by
  unfold findBetweenC findBetweenG findBetween
  apply Res.bind_congr; intro s
  apply Res.bind_congr; intro p
  apply Res.bind_congr; intro i
  apply Res.bind_congr; intro j
  rw [startC_eq]
  simp only [Res.ok_bind]
  cases hs : startOffset s i with
  | none => rfl
  | some a =>
    have ha := startOffset_le s i a hs
    simp only [Option.map_some, Int.ofNat_eq_natCast]
    rw [finishC_eq]
    simp only [Res.ok_bind]
    cases hf : finishOffset s j with
    | none => rfl
    | some b =>
      have hb := finishOffset_le s j b hf
      simp only [Option.map_some, Int.ofNat_eq_natCast, Bool.true_and]
      by_cases hab : a > b
      · have : ((a : Int) > (b : Int)) := by omega
        simp only [this, decide_true, if_true, hab]
      · have h1 : ¬ ((a : Int) > (b : Int)) := by omega
        simp only [h1, decide_false, Bool.false_eq_true, if_false, hab]
        rw [slice?_ok_nat s a b (by omega) hb]
        simp only [Res.ok_bind]
        cases hr : (if last = true then lastIndexOf ((s.drop a).take (b - a)) p
                    else indexOf ((s.drop a).take (b - a)) p) with
        | none => rfl
        | some r =>
          have hrl : r ≤ ((s.drop a).take (b - a)).length := by
            cases last
            · exact Utf8.indexOf_le _ _ _ (by simpa using hr)
            · exact Utf8.lastIndexOf_le _ _ _ (by simpa using hr)
          rw [List.length_take, List.length_drop] at hrl
          have e : ((r : Int) + (a : Int)) = ((r + a : Nat) : Int) := by omega
          simp only [e, runeIndexC_eq s (r + a) (by omega)]
          rfl

example : findBetweenC false (.str [0x61, 0x62, 0x61]) (.str [0x61]) (.num (.int .i64 1)) (.num (.int .i64 3))
    = .ok (.num (.int .i64 2)) := rfl
/-- `find_first('aba', 'a', `2`, `1`)`: start beyond end gives null (the guard at string.go:164) -/
example : findBetweenC false (.str [0x61, 0x62, 0x61]) (.str [0x61]) (.num (.int .i64 2)) (.num (.int .i64 1))
    = .ok .null := rfl

/-- **Guard deletion 1** — without `if i > j { return nil, nil }` (string.go:164) the very same call
    `find_first('aba', 'a', `2`, `1`)` reaches `s[2:1]` and panics (this was a real defect of the library).
    So `findBetweenC_eq` is false for the guard-less mirror: the theorem does depend on the guard. -/
example : findBetweenG false false (.str [0x61, 0x62, 0x61]) (.str [0x61]) (.num (.int .i64 2)) (.num (.int .i64 1))
    = .panic sliceMsg := rfl
/-- … and likewise for `find_last` (string.go:377) -/
example : findBetweenG false true (.str [0x61, 0x62, 0x61]) (.str [0x61]) (.num (.int .i64 3)) (.num (.int .i64 0))
    = .panic sliceMsg := rfl

/-! ## `split`, `splitCount` -/

/-- `strings.Count(s, p)` for a non-empty `p`: the number of non-overlapping occurrences, counted from the left
    (`for { i := Index(s, p); if i == -1 { return n }; n++; s = s[i+len(p):] }` in package strings) -/
def countAux (p : Bytes) : Nat → Bytes → Nat
  | 0, _ => 0
  | f + 1, s =>
    match indexOf s p with
    | none => 0
    | some j => 1 + countAux p f (s.drop (j + p.length))
/-- `strings.Count(s, p)` (fuel = length + 1 suffices: every hit consumes a byte) -/
def countOf (s p : Bytes) : Nat := countAux p (s.length + 1) s

example : countOf [0x61, 0x2C, 0x62, 0x2C, 0x63] [0x2C] = 2 := by decide
example : countOf [0x61, 0x61, 0x61] [0x61, 0x61] = 1 := by decide

/-- state of the split loops: the result slice `r`, the index `i`, the rest of the string `s` -/
abbrev SplitSt := List Val × Int × Bytes

/-- `for i < n { _, l := utf8.DecodeRuneInString(s); r[i] = s[:l]; s = s[l:]; i++ }`; first argument = `n - i`.
    Go sites: string.go:856 `r[i] = …`, :856 `s[:l]`, :857 `s[l:]`; string.go:947 `r[i] = …`, :947 `s[:l]`, :948 `s[l:]`. -/
def splitRunesLoopC : Nat → List Val → Int → Bytes → Res SplitSt
  | 0, r, i, s => .ok (r, i, s)
  | k + 1, r, i, s => do
    let l := (decodeRune s).2
    let piece ← sliceTo? s l
    let r ← set? r i (.str piece)
    let s ← sliceFrom? s l
    splitRunesLoopC k r (i + 1) s

/-- `for i < n { j := strings.Index(s, p); if j < 0 { break }; r[i] = s[:j]; s = s[j+len(p):]; i++ }`.
    Go sites: string.go:875 `r[i] = …`, :875 `s[:j]`, :876 `s[j+len(p):]`; string.go:969 `r[i] = …`, :969 `s[:j]`,
    :970 `s[j+len(p):]`. -/
def splitSepLoopC (p : Bytes) : Nat → List Val → Int → Bytes → Res SplitSt
  | 0, r, i, s => .ok (r, i, s)
  | k + 1, r, i, s =>
    match indexOf s p with
    | none => .ok (r, i, s)
    | some j => do
      let piece ← sliceTo? s j
      let r ← set? r i (.str piece)
      let s ← sliceFrom? s (j + p.length)
      splitSepLoopC p k r (i + 1) s

/-- `r[i] = s; return r[:i+1], nil`.
    Go sites: string.go:861 `r[i] = s`, :862 `r[:i+1]`; :880, :881; :952, :953; :974, :975. -/
def splitFinishC (st : SplitSt) : Res Val := do
  let r ← set? st.1 st.2.1 (.str st.2.2)
  let out ← sliceTo? r (st.2.1 + 1)
  pure (.arr .plain out)

/-- the pieces the rune loop cuts off in `k` rounds, and what is left -/
def piecesK : Nat → Bytes → List Bytes × Bytes
  | 0, s => ([], s)
  | k + 1, s =>
    let l := (decodeRune s).2
    let q := piecesK k (s.drop l)
    (s.take l :: q.1, q.2)

/-- the pieces the separator loop cuts off in at most `k` rounds, and what is left -/
def sepK (p : Bytes) : Nat → Bytes → List Bytes × Bytes
  | 0, s => ([], s)
  | k + 1, s =>
    match indexOf s p with
    | none => ([], s)
    | some j =>
      let q := sepK p k (s.drop (j + p.length))
      (s.take j :: q.1, q.2)

/-- `k` rounds cut at most `k` pieces -/
theorem sepK_length (p : Bytes) : ∀ (k : Nat) (s : Bytes), (sepK p k s).1.length ≤ k := by
  intro k
  induction k with
  | zero => intro s; simp [sepK]
  | succ k ih =>
    intro s
    unfold sepK
    cases indexOf s p with
    | none => simp
    | some j => simp only [List.length_cons]; have := ih (s.drop (j + p.length)); omega

/-- `k` rounds of the rune loop cut exactly `k` pieces -/
theorem piecesK_length : ∀ (k : Nat) (s : Bytes), (piecesK k s).1.length = k := by
  intro k
  induction k with
  | zero => intro s; rfl
  | succ k ih => intro s; simp only [piecesK, List.length_cons, ih]

/-- writing the first free slot of a partly filled slice -/
theorem set_fill (pre : List Val) (m : Nat) (x : Val) (hm : 1 ≤ m) :
    (pre ++ List.replicate m Val.null).set pre.length x = (pre ++ [x]) ++ List.replicate (m - 1) Val.null := by
  obtain ⟨m', rfl⟩ : ∃ m', m = m' + 1 := ⟨m - 1, by omega⟩
  rw [List.set_append_right _ _ (Nat.le_refl _)]
  simp [List.replicate_succ]

/-- the rune loop never indexes or slices out of range, as long as `r` has room for the `k` pieces -/
theorem splitRunesLoopC_eq : ∀ (k : Nat) (pre : List Val) (m : Nat) (s : Bytes), k ≤ m →
    splitRunesLoopC k (pre ++ List.replicate m Val.null) pre.length s
      = .ok (pre ++ (piecesK k s).1.map Val.str ++ List.replicate (m - k) Val.null,
             ((pre.length + k : Nat) : Int), (piecesK k s).2) := by
  intro k
  induction k with
  | zero => intro pre m s _; simp [splitRunesLoopC, piecesK]
  | succ k ih =>
    intro pre m s hk
    unfold splitRunesLoopC
    have hl := C09.decodeRune_le s
    simp only []
    rw [sliceTo?_ok_nat s _ hl]
    simp only [Res.ok_bind]
    rw [set?_ok _ _ _ (by omega) (by simp; omega)]
    simp only [Res.ok_bind, Int.toNat_natCast]
    rw [sliceFrom?_ok_nat s _ hl, set_fill pre m _ (by omega)]
    simp only [Res.ok_bind]
    have := ih (pre ++ [Val.str (s.take (decodeRune s).2)]) (m - 1) (s.drop (decodeRune s).2) (by omega)
    simp only [List.length_append, List.length_cons, List.length_nil] at this
    have e : ((pre.length : Int) + 1) = ((pre.length + (0 + 1) : Nat) : Int) := by omega
    rw [e, this]
    simp only [piecesK, List.map_cons, List.append_assoc, List.cons_append, List.nil_append]
    have e1 : m - 1 - k = m - (k + 1) := by omega
    have e2 : pre.length + (0 + 1) + k = pre.length + (k + 1) := by omega
    rw [e1, e2]

/-- the separator loop never indexes or slices out of range, as long as `r` has room for `k` pieces -/
theorem splitSepLoopC_eq (p : Bytes) : ∀ (k : Nat) (pre : List Val) (m : Nat) (s : Bytes), k ≤ m →
    splitSepLoopC p k (pre ++ List.replicate m Val.null) pre.length s
      = .ok (pre ++ (sepK p k s).1.map Val.str ++ List.replicate (m - (sepK p k s).1.length) Val.null,
             ((pre.length + (sepK p k s).1.length : Nat) : Int), (sepK p k s).2) := by
  intro k
  induction k with
  | zero => intro pre m s _; simp [splitSepLoopC, sepK]
  | succ k ih =>
    intro pre m s hk
    unfold splitSepLoopC sepK
    cases hi : indexOf s p with
    | none => simp
    | some j =>
      obtain ⟨hj, hpre, _⟩ := C11.indexOf_spec s p j hi
      have hjp : j + p.length ≤ s.length := by
        have := hpre.length_le
        rw [List.length_drop] at this
        by_cases hp0 : p.length = 0
        · omega
        · omega
      simp only []
      rw [sliceTo?_ok_nat s _ hj]
      simp only [Res.ok_bind]
      rw [set?_ok _ _ _ (by omega) (by simp; omega)]
      simp only [Res.ok_bind, Int.toNat_natCast]
      have e2 : ((j : Int) + (p.length : Int)) = ((j + p.length : Nat) : Int) := by omega
      rw [e2, sliceFrom?_ok_nat s _ hjp, set_fill pre m _ (by omega)]
      simp only [Res.ok_bind]
      have := ih (pre ++ [Val.str (s.take j)]) (m - 1) (s.drop (j + p.length)) (by omega)
      simp only [List.length_append, List.length_cons, List.length_nil] at this
      have e : ((pre.length : Int) + 1) = ((pre.length + (0 + 1) : Nat) : Int) := by omega
      rw [e, this]
      simp only [List.map_cons, List.append_assoc, List.cons_append, List.nil_append, List.length_cons]
      generalize (sepK p k (List.drop (j + List.length p) s)).fst.length = q
      have e1 : m - 1 - q = m - (q + 1) := by omega
      have e2 : pre.length + (0 + 1) + q = pre.length + (q + 1) := by omega
      rw [e1, e2]

/-- the final `r[i] = s; r[:i+1]` is in range when one slot is left -/
theorem splitFinishC_eq (pieces : List Val) (m : Nat) (hm : 1 ≤ m) (s : Bytes) :
    splitFinishC (pieces ++ List.replicate m Val.null, (pieces.length : Int), s)
      = .ok (.arr .plain (pieces ++ [.str s])) := by
  unfold splitFinishC
  simp only []
  rw [set?_ok _ _ _ (by omega) (by simp; omega)]
  simp only [Res.ok_bind, Int.toNat_natCast]
  rw [set_fill pieces m _ hm]
  have e : ((pieces.length : Int) + 1) = ((pieces.length + 1 : Nat) : Int) := by omega
  rw [e, sliceTo?_ok_nat _ _ (by simp)]
  simp only [Res.ok_bind, Res.pure_eq]
  congr 2
  rw [List.take_append_of_le_length (by simp)]
  apply List.take_of_length_le; simp

/-! ### what the loops compute is what the model says -/

open Jmes.C11C.Split in
/-- at most `k` cuts at the leftmost separators: the separator loop computes the model's `splitOn … (some k)` -/
theorem splitOn_sepK (p : Bytes) (hp : p ≠ []) : ∀ (k : Nat) (s : Bytes),
    splitOn s p (some k) = (sepK p k s).1 ++ [(sepK p k s).2] := by
  intro k
  induction k with
  | zero => intro s; rw [splitOn_stop]; rfl
  | succ k ih =>
    intro s
    unfold sepK
    cases hi : indexOf s p with
    | none => exact splitOn_absent s p _ hp ((absent_iff_indexOf s p).2 hi)
    | some j =>
      obtain ⟨hj, ⟨r, hr⟩, _⟩ := C11.indexOf_spec s p j hi
      have hrest : s.drop (j + p.length) = r := by
        rw [← List.drop_drop, ← hr, List.drop_left]
      have hs : s = s.take j ++ p ++ s.drop (j + p.length) := by
        rw [hrest, List.append_assoc, hr, List.take_append_drop]
      have hlen : (s.take j).length = j := by rw [List.length_take]; omega
      have := (splitOn_first_indexOf s p (s.take j) (s.drop (j + p.length)) hp hs (by rw [hlen]; exact hi)).2 k
      rw [this, ih]
      rfl

open Jmes.C11C.Split in
/-- `strings.Count` cuts suffice: an unlimited split is a split with `Count(s, p)` cuts -/
theorem splitOn_countAux (p : Bytes) (hp : p ≠ []) : ∀ (f : Nat) (s : Bytes), s.length < f →
    splitOn s p none = splitOn s p (some (countAux p f s)) := by
  intro f
  induction f with
  | zero => intro s h; omega
  | succ f ih =>
    intro s hf
    unfold countAux
    cases hi : indexOf s p with
    | none =>
      have ha := (absent_iff_indexOf s p).2 hi
      simp only []
      rw [splitOn_absent s p _ hp ha, splitOn_stop]
    | some j =>
      obtain ⟨hj, ⟨r, hr⟩, _⟩ := C11.indexOf_spec s p j hi
      have hrest : s.drop (j + p.length) = r := by
        rw [← List.drop_drop, ← hr, List.drop_left]
      have hs : s = s.take j ++ p ++ s.drop (j + p.length) := by
        rw [hrest, List.append_assoc, hr, List.take_append_drop]
      have hlen : (s.take j).length = j := by rw [List.length_take]; omega
      have hpl : 0 < p.length := List.length_pos_iff.2 hp
      have h2 := splitOn_first_indexOf s p (s.take j) (s.drop (j + p.length)) hp hs (by rw [hlen]; exact hi)
      have hjp : j + p.length ≤ s.length := by
        have := congrArg List.length hr
        rw [List.length_drop, List.length_append] at this
        omega
      simp only []
      rw [h2.1, Nat.add_comm 1, h2.2, ih _ (by rw [List.length_drop]; omega)]

/-- `split(s, p)` is `split(s, p, Count(s, p))` -/
theorem splitOn_countOf (s p : Bytes) (hp : p ≠ []) : splitOn s p none = splitOn s p (some (countOf s p)) :=
  splitOn_countAux p hp _ s (by omega)

/-- `strings.Count(s, p) ≤ len(s)` for a non-empty `p` -/
theorem countAux_le (p : Bytes) (hp : p ≠ []) : ∀ (f : Nat) (s : Bytes), countAux p f s ≤ s.length := by
  intro f
  induction f with
  | zero => intro s; simp [countAux]
  | succ f ih =>
    intro s
    unfold countAux
    cases hi : indexOf s p with
    | none => simp
    | some j =>
      obtain ⟨hj, hpre, _⟩ := C11.indexOf_spec s p j hi
      have hpl : 0 < p.length := List.length_pos_iff.2 hp
      have h1 := hpre.length_le
      rw [List.length_drop] at h1
      have := ih (s.drop (j + p.length))
      rw [List.length_drop] at this
      simp only []
      omega

/-- `strings.Count(s, p) ≤ len(s)` -/
theorem countOf_le (s p : Bytes) (hp : p ≠ []) : countOf s p ≤ s.length := countAux_le p hp _ s

/-- `runePiecesAux` does not depend on the fuel once it covers the length -/
theorem rpa_fuel : ∀ (f1 f2 : Nat) (s : Bytes), s.length ≤ f1 → s.length ≤ f2 →
    runePiecesAux f1 s = runePiecesAux f2 s := by
  intro f1
  induction f1 with
  | zero =>
    intro f2 s h1 _
    have : s = [] := List.eq_nil_of_length_eq_zero (by omega)
    subst this; rw [Utf8.runePiecesAux_nil, Utf8.runePiecesAux_nil]
  | succ f1 ih =>
    intro f2 s h1 h2
    by_cases hne : s = []
    · subst hne; rw [Utf8.runePiecesAux_nil, Utf8.runePiecesAux_nil]
    · have hp := C09.decodeRune_pos s hne
      have hl := C09.length_pos_of_ne_nil hne
      match f2, h2 with
      | 0, h2 => omega
      | f2 + 1, h2 =>
        rw [Utf8.runePiecesAux_succ _ _ hne, Utf8.runePiecesAux_succ _ _ hne]
        congr 1
        apply ih <;> (rw [List.length_drop]; omega)

/-- one step of `runePieces` on a non-empty string -/
theorem runePieces_cons (s : Bytes) (h : s ≠ []) :
    runePieces s = s.take (decodeRune s).2 :: runePieces (s.drop (decodeRune s).2) := by
  have hp := C09.decodeRune_pos s h
  have hl := C09.length_pos_of_ne_nil h
  unfold runePieces
  obtain ⟨k, hk⟩ : ∃ k, s.length = k + 1 := ⟨s.length - 1, by omega⟩
  rw [hk, Utf8.runePiecesAux_succ _ _ h]
  congr 1
  apply rpa_fuel
  · rw [List.length_drop]; omega
  · exact Nat.le_refl _

/-- the rune pieces concatenate back to the string -/
theorem runePieces_concat : ∀ (n : Nat) (s : Bytes), s.length ≤ n → (runePieces s).foldr (· ++ ·) [] = s := by
  intro n
  induction n with
  | zero =>
    intro s h
    have : s = [] := List.eq_nil_of_length_eq_zero (by omega)
    subst this; rfl
  | succ n ih =>
    intro s h
    by_cases hne : s = []
    · subst hne; rfl
    · have hp := C09.decodeRune_pos s hne
      rw [runePieces_cons s hne, List.foldr_cons, ih _ (by rw [List.length_drop]; omega), List.take_append_drop]

/-- `k` rounds of the rune loop cut off the first `k` rune pieces -/
theorem runePieces_piecesK : ∀ (k : Nat) (s : Bytes), k ≤ runeCount s →
    runePieces s = (piecesK k s).1 ++ runePieces (piecesK k s).2 := by
  intro k
  induction k with
  | zero => intro s _; rfl
  | succ k ih =>
    intro s hk
    have hne : s ≠ [] := by intro h; subst h; simp [C09.runeCount_nil] at hk
    have hstep := C09.runeCount_step s hne
    rw [runePieces_cons s hne, ih (s.drop (decodeRune s).2) (by omega)]
    rfl

/-- the rune loop with `k ≤ RuneCount(s) - 1` rounds computes the model's `splitRunes … (some k)` -/
theorem splitRunes_piecesK (k : Nat) (s : Bytes) (hk : k + 1 ≤ runeCount s) :
    splitRunes s (some k) = (piecesK k s).1 ++ [(piecesK k s).2] := by
  have h1 := runePieces_piecesK k s (by omega)
  have hlen := piecesK_length k s
  have hcat := runePieces_concat _ (piecesK k s).2 (Nat.le_refl _)
  have htot := C09.runePieces_length s
  unfold splitRunes
  simp only []
  have htake : (runePieces s).take k = (piecesK k s).1 := by
    rw [h1, List.take_append_of_le_length (by omega), List.take_of_length_le (by omega)]
  have hdrop : (runePieces s).drop k = runePieces (piecesK k s).2 := by
    rw [h1, List.drop_append_of_le_length (by omega), List.drop_of_length_le (by omega), List.nil_append]
  split
  · -- exactly one rune piece is left: it is the rest itself
    rename_i hge
    have hone : (runePieces (piecesK k s).2).length = 1 := by
      have := congrArg List.length h1
      rw [List.length_append] at this
      omega
    match hq : runePieces (piecesK k s).2, hone with
    | [x], _ =>
      rw [hq] at hcat
      simp at hcat
      rw [h1, hq, hcat]
  · rw [htake, hdrop, hcat]

/-- … and with exactly `RuneCount(s) - 1` rounds the model's unlimited `splitRunes` -/
theorem splitRunes_none_piecesK (s : Bytes) (hne : s ≠ []) :
    splitRunes s none = (piecesK (runeCount s - 1) s).1 ++ [(piecesK (runeCount s - 1) s).2] := by
  have hpos := C09.runeCount_pos s hne
  rw [← splitRunes_piecesK _ s (by omega)]
  unfold splitRunes
  simp only []
  rw [if_pos (by rw [C09.runePieces_length]; omega)]

/-- a limit beyond the rune count changes nothing (`if c := … - 1; n > c { n = c }`) -/
theorem splitRunes_clamp (k : Nat) (s : Bytes) (hk : runeCount s ≤ k + 1) :
    splitRunes s (some k) = splitRunes s (some (runeCount s - 1)) := by
  unfold splitRunes
  simp only []
  rw [if_pos (by rw [C09.runePieces_length]; omega), if_pos (by rw [C09.runePieces_length]; omega)]

open Jmes.C11C.Split in
/-- a limit of at least `strings.Count(s, p)` changes nothing (`if c := strings.Count(s, p); n > c { n = c }`) -/
theorem splitOn_clampAux (p : Bytes) (hp : p ≠ []) : ∀ (f : Nat) (s : Bytes) (n : Nat), s.length < f →
    countAux p f s ≤ n → splitOn s p (some n) = splitOn s p (some (countAux p f s)) := by
  intro f
  induction f with
  | zero => intro s n h; omega
  | succ f ih =>
    intro s n hf hn
    unfold countAux at hn ⊢
    cases hi : indexOf s p with
    | none =>
      have ha := (absent_iff_indexOf s p).2 hi
      simp only []
      rw [splitOn_absent s p _ hp ha, splitOn_stop]
    | some j =>
      rw [hi] at hn
      simp only [] at hn
      obtain ⟨hj, ⟨r, hr⟩, _⟩ := C11.indexOf_spec s p j hi
      have hrest : s.drop (j + p.length) = r := by
        rw [← List.drop_drop, ← hr, List.drop_left]
      have hs : s = s.take j ++ p ++ s.drop (j + p.length) := by
        rw [hrest, List.append_assoc, hr, List.take_append_drop]
      have hlen : (s.take j).length = j := by rw [List.length_take]; omega
      have hpl : 0 < p.length := List.length_pos_iff.2 hp
      have h2 := splitOn_first_indexOf s p (s.take j) (s.drop (j + p.length)) hp hs (by rw [hlen]; exact hi)
      have hjp : j + p.length ≤ s.length := by
        have := congrArg List.length hr
        rw [List.length_drop, List.length_append] at this
        omega
      obtain ⟨n', rfl⟩ : ∃ n', n = n' + 1 := ⟨n - 1, by omega⟩
      simp only []
      rw [h2.2, Nat.add_comm 1, h2.2, ih _ n' (by rw [List.length_drop]; omega) (by omega)]

/-- a limit of at least `Count(s, p)` is as good as `Count(s, p)` -/
theorem splitOn_clamp (s p : Bytes) (hp : p ≠ []) (n : Nat) (hn : countOf s p ≤ n) :
    splitOn s p (some n) = splitOn s p (some (countOf s p)) :=
  splitOn_clampAux p hp _ s n (by omega) hn

/-- no 64-bit wrap-around below the allocation limit -/
theorem wrap64_small (x : Int) (h0 : 0 ≤ x) (h1 : x ≤ makeLimit) : wrap64 x = x := by
  unfold makeLimit at h1
  unfold wrap64
  omega

/-- the empty-separator branch once `n` is known: `r := make([]any, n+1); i := 0; for i < n {…}; r[i] = s; return r[:i+1]`.
    Go sites: string.go:851 `make([]any, n+1)`, :853-862; string.go:942 `make([]any, n+1)`, :944-953. -/
def splitEmptyC (s : Bytes) (n : Int) : Res Val := do
  let r ← make? (wrap64 (n + 1))
  let st ← splitRunesLoopC n.toNat r 0 s
  splitFinishC st

/-- the non-empty-separator branch once `n` is known.
    Go sites: string.go:866 `make([]any, n+1)`, :868-881; string.go:960 `make([]any, n+1)`, :962-975. -/
def splitSepC (s p : Bytes) (n : Int) : Res Val := do
  let r ← make? (wrap64 (n + 1))
  let st ← splitSepLoopC p n.toNat r 0 s
  splitFinishC st

/-- the empty-separator branch with `n ≤ RuneCount(s) - 1`: no check fires, result = the model's `splitRunes` -/
theorem splitEmptyC_eq (s : Bytes) (k : Nat) (hk : k + 1 ≤ runeCount s) (hlim : (s.length : Int) ≤ makeLimit) :
    splitEmptyC s (k : Int) = .ok (strsToArr (splitRunes s (some k))) := by
  have hrl := C09.runeCount_le_length _ s (Nat.le_refl _)
  unfold splitEmptyC
  rw [wrap64_small _ (by omega) (by omega), make?_ok _ (by omega) (by omega)]
  simp only [Res.ok_bind, Int.toNat_natCast]
  have e : ((k : Int) + 1).toNat = k + 1 := by omega
  rw [e]
  have := splitRunesLoopC_eq k [] (k + 1) s (by omega)
  simp only [List.nil_append, List.length_nil, Int.natCast_zero, Nat.zero_add] at this
  rw [this]
  simp only [Res.ok_bind]
  have e2 : k + 1 - k = 1 := by omega
  have e3 : (k : Int) = (((piecesK k s).1.map Val.str).length : Int) := by
    rw [List.length_map, piecesK_length]
  rw [e2, e3, splitFinishC_eq _ 1 (Nat.le_refl _), splitRunes_piecesK k s hk]
  simp [strsToArr]

/-- the separator branch with any `n` below the allocation limit: no check fires, result = the model's `splitOn … (some n)` -/
theorem splitSepC_eq (s p : Bytes) (hp : p ≠ []) (k : Nat) (hlim : (k : Int) < makeLimit) :
    splitSepC s p (k : Int) = .ok (strsToArr (splitOn s p (some k))) := by
  unfold splitSepC
  rw [wrap64_small _ (by omega) (by omega), make?_ok _ (by omega) (by omega)]
  simp only [Res.ok_bind, Int.toNat_natCast]
  have e : ((k : Int) + 1).toNat = k + 1 := by omega
  rw [e]
  have := splitSepLoopC_eq p k [] (k + 1) s (by omega)
  simp only [List.nil_append, List.length_nil, Int.natCast_zero, Nat.zero_add] at this
  rw [this]
  simp only [Res.ok_bind]
  have hq := sepK_length p k s
  have e3 : (((sepK p k s).1.length : Nat) : Int) = (((sepK p k s).1.map Val.str).length : Int) := by
    rw [List.length_map]
  rw [e3, splitFinishC_eq _ _ (by omega), splitOn_sepK p hp k s]
  simp [strsToArr]

/-- `split` (string.go:828-882), transliterated. `guardEmpty = false` drops `if len(s) == 0 { return []any{}, nil }`
    (string.go:845), for the demonstration below.
    Go sites: via `splitEmptyC` (:851-862) and `splitSepC` (:866-881). -/
def splitG (guardEmpty : Bool) (value sep : Val) : Res Val := do
  let s ← strArg value
  let p ← strArg sep
  if guardEmpty && s.isEmpty then pure (.arr .plain [])
  else if p.isEmpty then splitEmptyC s ((runeCount s : Int) - 1)
  else splitSepC s p (countOf s p)

/-- the Go function as it is (guard present) -/
def splitC := splitG true

/-- `splitCount` (string.go:884-976), transliterated. `guardEmpty = false` drops `if len(s) == 0` (string.go:933),
    `guardClamp = false` drops both `if c := …; n > c { n = c }` (string.go:938 and :956).
    Go sites: via `splitEmptyC` (:942-953) and `splitSepC` (:960-975). -/
def splitCountG (guardEmpty guardClamp : Bool) (value sep count : Val) : Res Val := do
  let s ← strArg value
  let p ← strArg sep
  let n ← intArg count
  if n < 0 then errValue
  else if n = 0 then pure (.arr .plain [.str s])
  else if guardEmpty && s.isEmpty then pure (.arr .plain [])
  else if p.isEmpty then
    let c : Int := (runeCount s : Int) - 1
    splitEmptyC s (if guardClamp && n > c then c else n)
  else
    let c : Int := countOf s p
    splitSepC s p (if guardClamp && n > c then c else n)

/-- the Go function as it is (all guards present) -/
def splitCountC := splitCountG true true

/-- the length hypothesis of the two theorems below: the subject string (if the value is one) is shorter than the largest
    `[]any` that `make` accepts (`makeLimit = maxAlloc / 16 = 2^44` elements, Go's own `makeslice` limit on 64-bit
    platforms).  NOT vacuous in principle: `split(s, '')` makes one element per rune, so for a string of more than 2^44
    runes (≥ 16 TiB) Go's `make([]any, n+1)` itself panics with `makeslice: len out of range`; no such string fits in a
    real process next to its 256 TiB result, which is why this is a hypothesis and not a finding. -/
def StrFits (value : Val) : Prop := ∀ s, value = .str s → (s.length : Int) < makeLimit

/-- `split(s, sep)`: `make`, every `r[i] = …`, `s[:l]`, `s[l:]`, `s[:j]`, `s[j+len(p):]` and `r[:i+1]` stay in range, for every
    byte string and separator -/
theorem splitC_eq (value sep : Val) (hfit : StrFits value) : splitC value sep = split value sep := by
  unfold splitC splitG split
  cases value with
  | str s =>
    have hlim := hfit s rfl
    simp only [strArg, Res.ok_bind]
    apply Res.bind_congr; intro p
    simp only [Bool.true_and]
    by_cases hs : s.isEmpty = true
    · simp [hs]
    · simp only [hs, Bool.false_eq_true, if_false]
      have hne : s ≠ [] := by intro h; subst h; simp at hs
      have hpos := C09.runeCount_pos s hne
      have hrl := C09.runeCount_le_length _ s (Nat.le_refl _)
      by_cases hp : p.isEmpty = true
      · simp only [hp, if_true]
        have e : ((runeCount s : Int) - 1) = ((runeCount s - 1 : Nat) : Int) := by omega
        rw [e, splitEmptyC_eq s _ (by omega) (by omega)]
        unfold splitRunes
        simp only []
        rw [if_pos (by rw [C09.runePieces_length]; omega)]
        rfl
      · simp only [hp, Bool.false_eq_true, if_false]
        have hpne : p ≠ [] := by intro h; subst h; simp at hp
        have hc := countOf_le s p hpne
        rw [splitSepC_eq s p hpne _ (by omega), ← splitOn_countOf s p hpne]
        rfl
  | _ => simp only [strArg, errType, Res.err_bind]

/-- `split(s, sep, n)`: the same for every integer `n` (negative, zero, 2^63-1, …) -/
theorem splitCountC_eq (value sep count : Val) (hfit : StrFits value) :
    splitCountC value sep count = splitCount value sep count := by
  unfold splitCountC splitCountG splitCount
  cases value with
  | str s =>
    have hlim := hfit s rfl
    simp only [strArg, Res.ok_bind]
    apply Res.bind_congr; intro p
    apply Res.bind_congr; intro n
    simp only [Bool.true_and]
    by_cases hn : n < 0
    · simp [hn]
    · simp only [hn, if_false]
      by_cases hn0 : n = 0
      · simp [hn0]
      · simp only [hn0, if_false]
        by_cases hs : s.isEmpty = true
        · simp [hs]
        · simp only [hs, Bool.false_eq_true, if_false]
          have hne : s ≠ [] := by intro h; subst h; simp at hs
          have hpos := C09.runeCount_pos s hne
          have hrl := C09.runeCount_le_length _ s (Nat.le_refl _)
          obtain ⟨k, rfl⟩ : ∃ k : Nat, n = (k : Int) := ⟨n.toNat, by omega⟩
          simp only [Int.toNat_natCast]
          by_cases hp : p.isEmpty = true
          · simp only [hp, if_true]
            by_cases hc : (k : Int) > (runeCount s : Int) - 1
            · simp only [hc, decide_true, if_true]
              have e : ((runeCount s : Int) - 1) = ((runeCount s - 1 : Nat) : Int) := by omega
              rw [e, splitEmptyC_eq s _ (by omega) (by omega), splitRunes_clamp k s (by omega)]
              rfl
            · simp only [hc, decide_false, Bool.false_eq_true, if_false]
              rw [splitEmptyC_eq s k (by omega) (by omega)]
              rfl
          · simp only [hp, Bool.false_eq_true, if_false]
            have hpne : p ≠ [] := by intro h; subst h; simp at hp
            have hcl := countOf_le s p hpne
            by_cases hc : (k : Int) > (countOf s p : Int)
            · simp only [hc, decide_true, if_true]
              rw [splitSepC_eq s p hpne _ (by omega), ← splitOn_clamp s p hpne k (by omega)]
              rfl
            · simp only [hc, decide_false, Bool.false_eq_true, if_false]
              rw [splitSepC_eq s p hpne k (by omega)]
              rfl
  | _ => simp only [strArg, errType, Res.err_bind]

/-! ### examples and guard deletions for `split` -/

example : StrFits (.str [0x61, 0x2C, 0x62]) := by intro s h; injection h with h; subst h; decide
example : StrFits .null := by intro s h; cases h

/-- `split('a,b,c', ',')` -/
example : splitC (.str [0x61, 0x2C, 0x62, 0x2C, 0x63]) (.str [0x2C])
    = .ok (.arr .plain [.str [0x61], .str [0x62], .str [0x63]]) := rfl
/-- `split('aé\xff', '')`: runes, the invalid byte is a piece of its own -/
example : splitC (.str [0x61, 0xC3, 0xA9, 0xFF]) (.str [])
    = .ok (.arr .plain [.str [0x61], .str [0xC3, 0xA9], .str [0xFF]]) := rfl
/-- `split('a,b,c', ',', `1`)` -/
example : splitCountC (.str [0x61, 0x2C, 0x62, 0x2C, 0x63]) (.str [0x2C]) (.num (.int .i64 1))
    = .ok (.arr .plain [.str [0x61], .str [0x62, 0x2C, 0x63]]) := rfl
/-- `split('a,b', ',', `9223372036854775807`)`: the huge count is clamped to `strings.Count` (string.go:956) -/
example : splitCountC (.str [0x61, 0x2C, 0x62]) (.str [0x2C]) (.num (.int .i64 (2 ^ 63 - 1)))
    = .ok (.arr .plain [.str [0x61], .str [0x62]]) := rfl

/-- **Guard deletion 2** — without `if len(s) == 0 { return []any{}, nil }` (string.go:845) the call `split('', '')`
    computes `n = -1`, allocates `make([]any, 0)`, skips the loop and panics at `r[i] = s` (string.go:861, `r[0]` of an
    empty slice). -/
example : splitG false (.str []) (.str []) = .panic idxMsg := rfl
/-- the same guard in `splitCount` (string.go:933): `split('', '', `1`)` -/
example : splitCountG false true (.str []) (.str []) (.num (.int .i64 1)) = .panic idxMsg := rfl

/-- **Guard deletion 3** — without the clamp `if c := strings.Count(s, p); n > c { n = c }` (string.go:956) the call
    `split('a,b', ',', `9223372036854775807`)` computes `n+1`, which wraps to -2^63, and `make([]any, n+1)` panics
    ("split with a huge count"). -/
example : splitCountG true false (.str [0x61, 0x2C, 0x62]) (.str [0x2C]) (.num (.int .i64 (2 ^ 63 - 1)))
    = .panic makeMsg := rfl
/-- … and with a merely large count the allocation size is the count, not the number of pieces:
    `split('a,b', ',', `1000000000000000`)` asks for 10^15 + 1 slots -/
example : splitCountG true false (.str [0x61, 0x2C, 0x62]) (.str [0x2C]) (.num (.int .i64 (10 ^ 15)))
    = .panic makeMsg := rfl

end Jmes.C03D.StrGo
