/-
  Property C18, fourth pass — results that contain MAP-ORDERED arrays (`keys`, `values`, `items`, `*`).

  `C18C.json_result_roundtrip` excludes them (`r.NoEnum`).  The model gives such an array the tag `enum`; what a run of
  the Go program returns is a CONCRETISATION `r'` of the model's value `r` (`Jmes.Conc r r'` = `C15B.PermEnum r r'`: every
  `enum` array replaced by a plain array holding the — concretised — elements in some order; C15B.oracle_enum proves
  that every run returns such an `r'`).  Here: the invariants the round trip needs pass from `r` to every concretisation:

    * `conc_wf`        — `r` plain, `Fin`, valid UTF-8, key-sorted  ⇒  `r'` is `WF` (in particular free of `enum`);
    * `conc_numsAll`   — every number of `r'` is a number of `r`;
    * `conc_dp_le`     — `r'` nests no deeper than `r`;
    * `conc_gd`        — `Gd r ⇒ Gd r'`.
-/
import Jmes.Proofs.C15BConcLemmas
import Jmes.Proofs.C18ELemmas
import Jmes.Properties.C16B
namespace Jmes.C18E
open Jmes Jmes.C18CR

/-! ## list forms of the predicates -/

theorem wfL_iff : ∀ {xs : List Val}, WFL xs ↔ ∀ x ∈ xs, WF x
  | [] => by simp [WFL]
  | x :: xs => by simp [WFL, wfL_iff (xs := xs)]

theorem numsAllL_iff {P : Num → Prop} : ∀ {xs : List Val}, NumsAllL P xs ↔ ∀ x ∈ xs, NumsAll P x
  | [] => by simp [NumsAllL]
  | x :: xs => by simp [NumsAllL, numsAllL_iff (xs := xs)]

theorem dpL_le_iff {n : Nat} : ∀ {xs : List Val}, C16B.dpL xs ≤ n ↔ ∀ x ∈ xs, C16B.dp x ≤ n
  | [] => by simp [C16B.dpL]
  | x :: xs => by
    simp only [C16B.dpL, List.mem_cons, forall_eq_or_imp, ← dpL_le_iff (xs := xs)]
    omega

example : WFL [.null, .bool true] := wfL_iff.mpr (by simp [WF])

/-- membership along `ConcL` -/
theorem concL_mem_right : ∀ {xs xs' : List Val}, ConcL xs xs' → ∀ x' ∈ xs', ∃ x ∈ xs, Conc x x'
  | [], xs', h, x', hx' => by simp only [ConcL] at h; subst h; cases hx'
  | x :: xs, xs', h, y', hy' => by
    simp only [ConcL] at h
    obtain ⟨x', t', hx, ht, rfl⟩ := h
    rcases List.mem_cons.mp hy' with rfl | hm
    · exact ⟨x, List.mem_cons_self .., hx⟩
    · obtain ⟨z, hz, hc⟩ := concL_mem_right ht y' hm
      exact ⟨z, List.mem_cons_of_mem _ hz, hc⟩

/-- the keys of a concretised object are the keys of the object -/
theorem concF_key_mem : ∀ {kvs kvs' : List (Bytes × Val)}, ConcF kvs kvs' → ∀ p ∈ kvs', ∃ q ∈ kvs, q.1 = p.1
  | [], kvs', h, p, hp => by simp only [ConcF] at h; subst h; cases hp
  | (k, x) :: kvs, kvs', h, p, hp => by
    simp only [ConcF] at h
    obtain ⟨x', t', _, ht, rfl⟩ := h
    rcases List.mem_cons.mp hp with rfl | hm
    · exact ⟨(k, x), List.mem_cons_self .., rfl⟩
    · obtain ⟨q, hq, he⟩ := concF_key_mem ht p hm
      exact ⟨q, List.mem_cons_of_mem _ hq, he⟩

/-! ## well-formedness of every concretisation -/

mutual
/-- **every concretisation of a plain, `Fin`, valid, key-sorted value is a well-formed result** (`WF`: plain arrays
    only, so `json.Marshal` writes it and the decoder reads it back) -/
theorem conc_wf : ∀ (r r' : Val), Conc r r' → r.Plain = true → r.Fin = true → r.Valid = true → Sorted r → WF r'
  | .null, r', h, _, _, _, _ => by simp only [Conc] at h; subst h; trivial
  | .bool _, r', h, _, _, _, _ => by simp only [Conc] at h; subst h; trivial
  | .str s, r', h, _, _, hv, _ => by simp only [Conc] at h; subst h; simpa [WF, Val.Valid] using hv
  | .num n, r', h, _, hf, _, _ => by
    simp only [Conc] at h; subst h
    simp only [WF]; exact wfNum_of_fin (by simpa [Val.Fin] using hf)
  | .foreign _, r', _, hp, _, _, _ => by simp [Val.Plain, Val.TagsAll] at hp
  | .arr t xs, r', h, hp, hf, hv, hs => by
    simp only [Val.Plain, Val.TagsAll, Bool.and_eq_true, bne_iff_ne, ne_eq] at hp
    simp only [Conc] at h
    obtain ⟨ys', hl, hcase⟩ := h
    have hwl : WFL ys' := concL_wf xs ys' hl hp.2 (by simpa [Val.Fin] using hf) (by simpa [Val.Valid] using hv)
      (by simpa [Sorted] using hs)
    rcases hcase with ⟨_, xs', hperm, rfl⟩ | ⟨hne, rfl⟩
    · simp only [WF]
      exact wfL_iff.mpr (fun x hx => wfL_iff.mp hwl x (hperm.mem_iff.mp hx))
    · cases t with
      | nil => exact absurd rfl hp.1
      | enum => exact absurd rfl hne
      | plain => simpa [WF] using hwl
  | .obj kvs, r', h, hp, hf, hv, hs => by
    simp only [Val.Plain, Val.TagsAll] at hp
    simp only [Sorted] at hs
    simp only [Conc] at h
    obtain ⟨kvs', hl, rfl⟩ := h
    simp only [WF]
    exact concF_wf kvs kvs' hl hp (by simpa [Val.Fin] using hf) (by simpa [Val.Valid] using hv) hs.1 hs.2
/-- … element by element -/
theorem concL_wf : ∀ (xs xs' : List Val), ConcL xs xs' → Val.TagsAllL (fun t => t != .nil) false xs = true →
    Val.FinL xs = true → Val.ValidL xs = true → SortedL xs → WFL xs'
  | [], xs', h, _, _, _, _ => by simp only [ConcL] at h; subst h; trivial
  | x :: xs, xs', h, hp, hf, hv, hs => by
    simp only [Val.TagsAllL, Val.FinL, Val.ValidL, Bool.and_eq_true] at hp hf hv
    simp only [SortedL] at hs
    simp only [ConcL] at h
    obtain ⟨x', t', hx, ht, rfl⟩ := h
    exact ⟨conc_wf x x' hx hp.1 hf.1 hv.1 hs.1, concL_wf xs t' ht hp.2 hf.2 hv.2 hs.2⟩
/-- … member by member (same keys in the same order) -/
theorem concF_wf : ∀ (kvs kvs' : List (Bytes × Val)), ConcF kvs kvs' →
    Val.TagsAllF (fun t => t != .nil) false kvs = true → Val.FinF kvs = true → Val.ValidF kvs = true →
    KeySorted kvs → SortedF kvs → WFF kvs'
  | [], kvs', h, _, _, _, _, _ => by simp only [ConcF] at h; subst h; trivial
  | (k, x) :: kvs, kvs', h, hp, hf, hv, hk, hs => by
    simp only [Val.TagsAllF, Val.FinF, Val.ValidF, Bool.and_eq_true] at hp hf hv
    simp only [SortedF] at hs
    unfold KeySorted at hk
    rw [List.pairwise_cons] at hk
    simp only [ConcF] at h
    obtain ⟨x', t', hx, ht, rfl⟩ := h
    refine ⟨hv.1.1, conc_wf x x' hx hp.1 hf.1 hv.1.2 hs.1, ?_, concF_wf kvs t' ht hp.2 hf.2 hv.2 hk.2 hs.2⟩
    intro p hp'
    obtain ⟨q, hq, he⟩ := concF_key_mem ht p hp'
    rw [← he]; exact hk.1 q hq
end

/-- `values(@)` over `{"a": 1, "b": 2}` is the map-ordered `[1, 2]`; the run that visits `b` first returns the plain
    `[2, 1]`, a concretisation -/
example : Conc (.arr .enum [.num (.jnum [0x31]), .num (.jnum [0x32])]) (.arr .plain [.num (.jnum [0x32]), .num (.jnum [0x31])]) :=
  conc_enumArr ⟨[.num (.jnum [0x31]), .num (.jnum [0x32])], by simp [ConcL, Conc], List.Perm.swap _ _ _⟩

example : WF (.arr .plain [.num (.jnum [0x32]), .num (.jnum [0x31])]) :=
  conc_wf (.arr .enum [.num (.jnum [0x31]), .num (.jnum [0x32])]) _
    (conc_enumArr ⟨[.num (.jnum [0x31]), .num (.jnum [0x32])], by simp [ConcL, Conc], List.Perm.swap _ _ _⟩)
    (by decide) (by decide) (by decide) (by simp [Sorted, SortedL])

/-! ## numbers and depth of a concretisation -/

mutual
/-- every number of a concretisation is a number of the value -/
theorem conc_numsAll (P : Num → Prop) : ∀ (r r' : Val), Conc r r' → NumsAll P r → NumsAll P r'
  | .null, r', h, _ => by simp only [Conc] at h; subst h; trivial
  | .bool _, r', h, _ => by simp only [Conc] at h; subst h; trivial
  | .str _, r', h, _ => by simp only [Conc] at h; subst h; trivial
  | .num n, r', h, hn => by simp only [Conc] at h; subst h; exact hn
  | .foreign _, r', h, _ => by simp only [Conc] at h; subst h; trivial
  | .arr t xs, r', h, hn => by
    simp only [NumsAll] at hn
    simp only [Conc] at h
    obtain ⟨ys', hl, hcase⟩ := h
    have hy := conc_numsAllL P xs ys' hl hn
    rcases hcase with ⟨_, xs', hperm, rfl⟩ | ⟨_, rfl⟩
    · simp only [NumsAll]
      exact numsAllL_iff.mpr (fun x hx => numsAllL_iff.mp hy x (hperm.mem_iff.mp hx))
    · simpa [NumsAll] using hy
  | .obj kvs, r', h, hn => by
    simp only [NumsAll] at hn
    simp only [Conc] at h
    obtain ⟨kvs', hl, rfl⟩ := h
    simp only [NumsAll]
    exact conc_numsAllF P kvs kvs' hl hn
theorem conc_numsAllL (P : Num → Prop) : ∀ (xs xs' : List Val), ConcL xs xs' → NumsAllL P xs → NumsAllL P xs'
  | [], xs', h, _ => by simp only [ConcL] at h; subst h; trivial
  | x :: xs, xs', h, hn => by
    simp only [NumsAllL] at hn
    simp only [ConcL] at h
    obtain ⟨x', t', hx, ht, rfl⟩ := h
    exact ⟨conc_numsAll P x x' hx hn.1, conc_numsAllL P xs t' ht hn.2⟩
theorem conc_numsAllF (P : Num → Prop) : ∀ (kvs kvs' : List (Bytes × Val)), ConcF kvs kvs' → NumsAllF P kvs →
    NumsAllF P kvs'
  | [], kvs', h, _ => by simp only [ConcF] at h; subst h; trivial
  | (k, x) :: kvs, kvs', h, hn => by
    simp only [NumsAllF] at hn
    simp only [ConcF] at h
    obtain ⟨x', t', hx, ht, rfl⟩ := h
    exact ⟨conc_numsAll P x x' hx hn.1, conc_numsAllF P kvs t' ht hn.2⟩
end

example : NumsAll GoodNum (.arr .plain [.num (.int .i64 2), .num (.int .i64 1)]) :=
  conc_numsAll GoodNum (.arr .enum [.num (.int .i64 1), .num (.int .i64 2)]) _
    (conc_enumArr ⟨[.num (.int .i64 1), .num (.int .i64 2)], by simp [ConcL, Conc], List.Perm.swap _ _ _⟩)
    (by simp [NumsAll, NumsAllL, GoodNum, IntKind.InRange])

mutual
/-- a concretisation nests no deeper than the value -/
theorem conc_dp_le (n : Nat) : ∀ (r r' : Val), Conc r r' → C16B.dp r ≤ n → C16B.dp r' ≤ n
  | .null, r', h, hd => by simp only [Conc] at h; subst h; exact hd
  | .bool _, r', h, hd => by simp only [Conc] at h; subst h; exact hd
  | .str _, r', h, hd => by simp only [Conc] at h; subst h; exact hd
  | .num _, r', h, hd => by simp only [Conc] at h; subst h; exact hd
  | .foreign _, r', h, hd => by simp only [Conc] at h; subst h; exact hd
  | .arr t xs, r', h, hd => by
    simp only [C16B.dp] at hd
    simp only [Conc] at h
    obtain ⟨ys', hl, hcase⟩ := h
    have hy : C16B.dpL ys' ≤ n - 1 := conc_dpL_le (n - 1) xs ys' hl (by omega)
    rcases hcase with ⟨_, xs', hperm, rfl⟩ | ⟨_, rfl⟩
    · simp only [C16B.dp]
      have : C16B.dpL xs' ≤ n - 1 := dpL_le_iff.mpr (fun x hx => dpL_le_iff.mp hy x (hperm.mem_iff.mp hx))
      omega
    · simp only [C16B.dp]; omega
  | .obj kvs, r', h, hd => by
    simp only [C16B.dp] at hd
    simp only [Conc] at h
    obtain ⟨kvs', hl, rfl⟩ := h
    simp only [C16B.dp]
    have := conc_dpF_le (n - 1) kvs kvs' hl (by omega)
    omega
theorem conc_dpL_le (n : Nat) : ∀ (xs xs' : List Val), ConcL xs xs' → C16B.dpL xs ≤ n → C16B.dpL xs' ≤ n
  | [], xs', h, hd => by simp only [ConcL] at h; subst h; exact hd
  | x :: xs, xs', h, hd => by
    simp only [C16B.dpL] at hd
    simp only [ConcL] at h
    obtain ⟨x', t', hx, ht, rfl⟩ := h
    simp only [C16B.dpL]
    have h1 := conc_dp_le n x x' hx (by omega)
    have h2 := conc_dpL_le n xs t' ht (by omega)
    omega
theorem conc_dpF_le (n : Nat) : ∀ (kvs kvs' : List (Bytes × Val)), ConcF kvs kvs' → C16B.dpF kvs ≤ n → C16B.dpF kvs' ≤ n
  | [], kvs', h, hd => by simp only [ConcF] at h; subst h; exact hd
  | (k, x) :: kvs, kvs', h, hd => by
    simp only [C16B.dpF] at hd
    simp only [ConcF] at h
    obtain ⟨x', t', hx, ht, rfl⟩ := h
    simp only [C16B.dpF]
    have h1 := conc_dp_le n x x' hx (by omega)
    have h2 := conc_dpF_le n kvs t' ht (by omega)
    omega
end

example : C16B.dp (.arr .plain [.null, .arr .plain []]) ≤ 2 :=
  conc_dp_le 2 (.arr .plain [.null, .arr .plain []]) _ (conc_refl _ (by decide)) (by decide)

mutual
/-- `Gd` passes to every concretisation -/
theorem conc_gd : ∀ (r r' : Val), Conc r r' → Gd r → Gd r'
  | .null, r', h, _ => by simp only [Conc] at h; subst h; simp
  | .bool _, r', h, _ => by simp only [Conc] at h; subst h; simp
  | .str _, r', h, _ => by simp only [Conc] at h; subst h; simp
  | .num n, r', h, hn => by simp only [Conc] at h; subst h; exact hn
  | .foreign _, r', h, hn => absurd hn (gd_foreign _)
  | .arr t xs, r', h, hn => by
    simp only [Gd] at hn
    simp only [Conc] at h
    obtain ⟨ys', hl, hcase⟩ := h
    have hy := conc_gdL xs ys' hl hn
    rcases hcase with ⟨_, xs', hperm, rfl⟩ | ⟨_, rfl⟩
    · exact gd_arr.mpr (fun x hx => gdL_iff.mp hy x (hperm.mem_iff.mp hx))
    · simpa [Gd] using hy
  | .obj kvs, r', h, hn => by
    simp only [Gd] at hn
    simp only [Conc] at h
    obtain ⟨kvs', hl, rfl⟩ := h
    simp only [Gd]
    exact conc_gdF kvs kvs' hl hn
theorem conc_gdL : ∀ (xs xs' : List Val), ConcL xs xs' → GdL xs → GdL xs'
  | [], xs', h, _ => by simp only [ConcL] at h; subst h; trivial
  | x :: xs, xs', h, hn => by
    simp only [GdL] at hn
    simp only [ConcL] at h
    obtain ⟨x', t', hx, ht, rfl⟩ := h
    exact ⟨conc_gd x x' hx hn.1, conc_gdL xs t' ht hn.2⟩
theorem conc_gdF : ∀ (kvs kvs' : List (Bytes × Val)), ConcF kvs kvs' → GdF kvs → GdF kvs'
  | [], kvs', h, _ => by simp only [ConcF] at h; subst h; trivial
  | (k, x) :: kvs, kvs', h, hn => by
    simp only [GdF] at hn
    simp only [ConcF] at h
    obtain ⟨x', t', hx, ht, rfl⟩ := h
    exact ⟨conc_gd x x' hx hn.1, conc_gdF kvs t' ht hn.2⟩
end

example : Gd (.arr .plain [.str [0x62], .str [0x61]]) :=
  conc_gd (.arr .enum [.str [0x61], .str [0x62]]) _
    (conc_enumArr ⟨[.str [0x61], .str [0x62]], by simp [ConcL, Conc], List.Perm.swap _ _ _⟩) (by simp [Gd, GdL])

end Jmes.C18E
