/-
  C03D (lexer part) — the POSITION-BASED checked mirror of /repo/internal/lexer/lexer.go.

  The Go lexer keeps `(expression string, position int)` and reads the input with `l.expression[pos:]`
  (decodeRune, lexer.go:397) and `l.expression[start:l.position]` / `l.expression[start:next]` (every token value).
  The model (`Jmes/Model/Lexer.lean`: `lexDecode`, `spanRunes`, `scanDelim`, `peek`, `lexToken`, `skipWsLex`,
  `lexAllAux`) works on the REMAINING input with the total `List.drop` / `List.take`, so it cannot exhibit a
  slice-bounds panic.  Here every `l.expression[a:b]` goes through the checked `slice?` and every
  `l.expression[pos:]` through `sliceFrom?` (`Jmes/Proofs/C03DChecked.lean`), and the theorems
  `decodeRuneC_eq`, `nextC_eq`, `lexAllC_eq` say that for EVERY byte string (valid UTF-8 or not) and every
  position `0 ≤ pos ≤ len` the checks never fire and the result is the model's.

  Result type of the mirrors: `Res (Except LexErr α)` — `.ok (.ok a)` is Go's `return nil` (with the token written
  to `*t` and the new `l.position`), `.ok (.error e)` is Go's `return err`, `.panic _` is a runtime panic, and
  `.unmodelled fuelMsg` would be a Go `for` loop that runs more than `len(expression) + 1` times (the theorems
  exclude it, i.e. they also bound the number of iterations).
-/
import Jmes.Proofs.C03DChecked
import Jmes.Proofs.Lex
namespace Jmes.C03D.LexGo
open Jmes Jmes.C03D Jmes.Lex

/-- what a mirror answers when its loop fuel runs out (never happens: see the theorems) -/
def fuelMsg : String := "lexer loop fuel exhausted"

/-- result of a token-producing Go method: the token written to `*t` and the new `l.position`, or the `error` -/
abbrev Step := Except LexErr (Token × Int)

/-- `Lexer.decodeRune(pos)` (lexer.go:396-407), `e = l.expression`.
    Sites: lexer.go:397 `l.expression[pos:]`.
    Go returns `(r, sz, err)`; every caller looks at `r`, `sz` only when `err == nil`, so the error case carries
    no rune.  Guards kept: :398 `sz == 0`, :402 `r == utf8.RuneError && sz == 1`. -/
def decodeRuneC (e : Bytes) (pos : Int) : Res (Except LexErr (Nat × Nat)) := do
  let t ← sliceFrom? e pos                                         -- :397 l.expression[pos:]
  let (r, sz) := decodeRune t                                      -- :397 utf8.DecodeRuneInString
  if sz = 0 then pure (.error .unexpectedEnd)                      -- :398
  else if r = RuneError ∧ sz = 1 then pure (.error .invalidRune)   -- :402
  else pure (.ok (r, sz))                                          -- :406

/-- the statement group `l.position += n; *t = Token{Type: ty, Value: l.expression[start:l.position]}; return nil`
    where `l.position = start` before (`start := l.position`, lexer.go:49).
    Sites (`l.expression[start:l.position]`), with `n = sz`: lexer.go:60 79 89 97 105 113 121 134 153 172 180 199
    218 237 245 289 297 307 326 334 342 350 358 379; with `n = sz + nsz`: lexer.go:70 144 163 190 209 228 268 278
    317 370; with `n = sz + nsz + nnsz`: lexer.go:258. -/
def tokC (e : Bytes) (start : Int) (n : Nat) (ty : TokenType) : Res Step := do
  let position := start + n
  let v ← slice? e start position
  pure (.ok (⟨ty, v⟩, position))

/-- the one-rune cases of the switch in `Next`: `l.position += sz; … Value: l.expression[start:l.position]`.
    Stands for lexer.go:56-63 `%`, 85-92 `(`, 93-100 `)`, 101-108 `*`, 109-116 `+`, 117-124 `,`, 176-183 `:`,
    241-248 `@`, 293-300 `]`, 303-310 `{`, 330-337 `}`, 338-345 U+00D7, 346-353 U+00F7, 354-361 U+2212. -/
def oneC (e : Bytes) (start : Int) (sz : Nat) (ty : TokenType) : Res Step := tokC e start sz ty

/-- the two-rune cases of the switch in `Next`:
    `nr, nsz, err := l.decodeRune(start + sz); if err == nil && nr == c { l.position += sz + nsz; … t2 }`
    `l.position += sz; … t1`.
    Stands for lexer.go:64-82 `&`/`&&`, 138-156 `.`/`.*`, 157-175 `/`/`//`, 184-202 `<`/`<=`, 203-221 `=`/`==`,
    222-240 `>`/`>=`, 311-329 `|`/`||`, 364-383 `!`/`!=`. -/
def twoC (e : Bytes) (start : Int) (sz : Nat) (c : Nat) (t2 t1 : TokenType) : Res Step := do
  let d ← decodeRuneC e (start + sz)
  match d with
  | .ok (nr, nsz) => if nr = c then tokC e start (sz + nsz) t2 else tokC e start sz t1
  | .error _ => tokC e start sz t1

/-- `jsonLiteral` (lexer.go:409-437, delim = '`', ty = JSONLiteralToken), `quotedIdentifier` (lexer.go:457-485,
    delim = '"', QuotedIdentifierToken), `stringLiteral` (lexer.go:487-515, delim = '\'', StringLiteralToken): the
    three Go functions are textually identical up to the delimiter and the token type, so one mirror serves.
    Sites: the decodeRune calls :411/:459/:489 and :429/:477/:507 (each `l.expression[pos:]`), and
    `l.expression[start:next]` at lexer.go:422 / 470 / 500.  The Go `for` is unbounded: fuel. -/
def scanDelimC (delim : Nat) (ty : TokenType) (e : Bytes) (start : Int) : Nat → Int → Res Step
  | 0, _ => .unmodelled fuelMsg
  | fuel + 1, next => do
    let d ← decodeRuneC e next                      -- :411
    match d with
    | .error err => pure (.error err)               -- :412
    | .ok (r, sz) =>
      let next := next + sz                         -- :416
      if r = delim then do                          -- :418
        let v ← slice? e start next                 -- :422 l.expression[start:next]
        pure (.ok (⟨ty, v⟩, next))                  -- :419 l.position = next
      else if r = 0x5C then do                      -- :428
        let d2 ← decodeRuneC e next                 -- :429
        match d2 with
        | .error err => pure (.error err)           -- :430
        | .ok (_, sz2) => scanDelimC delim ty e start fuel (next + sz2)   -- :434
      else scanDelimC delim ty e start fuel next

/-- the loop shared by `numberLiteral` (lexer.go:440-445, `p` = digit), `unquotedIdentifier` (lexer.go:518-523) and
    the second part of `variable` (lexer.go:557-562) (`p` = digit ∨ letter ∨ `_`):
    `for { r, sz, err := l.decodeRune(next); if err == nil && p(r) { next += sz; continue }; …finish…; return }`.
    Returns the value of `next` with which the finishing statements run.  Sites: the decodeRune call. -/
def spanLoopC (p : Nat → Bool) (e : Bytes) : Nat → Int → Res Int
  | 0, _ => .unmodelled fuelMsg
  | fuel + 1, next => do
    let d ← decodeRuneC e next
    match d with
    | .ok (r, sz) => if p r then spanLoopC p e fuel (next + sz) else pure next
    | .error _ => pure next

/-- Go's `r >= '0' && r <= '9' || r >= 'A' && r <= 'Z' || r >= 'a' && r <= 'z' || r == '_'` (lexer.go:520, 559),
    in Go's order (the model writes `isAlphaR r || isDigitR r`) -/
def isIdGo (r : Nat) : Bool := isDigitR r || isAlphaR r

/-- `numberLiteral(t, start, next)` (lexer.go:439-455). Sites: :441 decodeRune, :450 `l.expression[start:next]`. -/
def numberLiteralC (e : Bytes) (fuel : Nat) (start next : Int) : Res Step := do
  let next ← spanLoopC isDigitR e fuel next         -- :440-445
  let v ← slice? e start next                       -- :450
  pure (.ok (⟨.integerLiteral, v⟩, next))           -- :447 l.position = next

/-- `unquotedIdentifier(t, start, next)` (lexer.go:517-541).
    Sites: :519 decodeRune, :526 `switch l.expression[start:next]`, :536 `l.expression[start:next]`. -/
def unquotedIdentifierC (e : Bytes) (fuel : Nat) (start next : Int) : Res Step := do
  let next ← spanLoopC isIdGo e fuel next           -- :518-523
  let sw ← slice? e start next                      -- :526
  let typ := if sw = [0x69, 0x6E] then TokenType.in                  -- :527 "in"
             else if sw = [0x6C, 0x65, 0x74] then TokenType.let      -- :529 "let"
             else TokenType.unquotedIdentifier                       -- :525
  let v ← slice? e start next                       -- :536
  pure (.ok (⟨typ, v⟩, next))                       -- :533 l.position = next

/-- `variable(t, start, next)` (lexer.go:543-572).
    Sites: :544 and :558 decodeRune, :549 and :567 `l.expression[start:next]`. -/
def variableC (e : Bytes) (fuel : Nat) (start next : Int) : Res Step := do
  let d ← decodeRuneC e next                        -- :544
  let root : Res Step := do                         -- :546-552
    let v ← slice? e start next                     -- :549
    pure (.ok (⟨.root, v⟩, next))
  match d with
  | .error _ => root                                -- :545 err != nil
  | .ok (r, sz) =>
    if !(isAlphaR r) then root                      -- :545 !(…)
    else do
      let next := next + sz                         -- :555
      let next ← spanLoopC isIdGo e fuel next       -- :557-562
      let v ← slice? e start next                   -- :567
      pure (.ok (⟨.variable, v⟩, next))             -- :564

/-- the part of `Next` after the whitespace loop: `start := l.position` (lexer.go:49), the `switch r`
    (lexer.go:51-362) and the three `if`s after it (lexer.go:364-393); `r`, `sz` are the rune decoded last by the
    loop.  Every `l.expression[start:l.position]` is inside `tokC`/`oneC`/`twoC` (site lists there); the other
    sites: the decodeRune calls :126 (`-`), :250 and :253 (`[`), and the scanner calls :53 :55 :84 :128 :302 :386
    :390. `fuel` is the bound for the loops of the scanners. -/
def switchC (e : Bytes) (fuel : Nat) (start : Int) (r sz : Nat) : Res Step :=
  if r = 0x22 then scanDelimC 0x22 .quotedIdentifier e start fuel (start + sz)      -- :52 '"'
  else if r = 0x24 then variableC e fuel start (start + sz)                         -- :54 '$'
  else if r = 0x25 then oneC e start sz .modulo                                     -- :56 '%'
  else if r = 0x26 then twoC e start sz 0x26 .and .expression                       -- :64 '&'
  else if r = 0x27 then scanDelimC 0x27 .stringLiteral e start fuel (start + sz)    -- :83 '\''
  else if r = 0x28 then oneC e start sz .openParen                                  -- :85
  else if r = 0x29 then oneC e start sz .closeParen                                 -- :93
  else if r = 0x2A then oneC e start sz .asterisk                                   -- :101
  else if r = 0x2B then oneC e start sz .add                                        -- :109
  else if r = 0x2C then oneC e start sz .comma                                      -- :117
  else if r = 0x2D then do                                                          -- :125 '-'
    let d ← decodeRuneC e (start + sz)                                              -- :126
    match d with
    | .ok (nr, nsz) =>
      if isDigitR nr then numberLiteralC e fuel start (start + sz + nsz)            -- :128
      else tokC e start sz .subtract                                                -- :131-137
    | .error _ => tokC e start sz .subtract
  else if r = 0x2E then twoC e start sz 0x2A .objectWildcard .dot                   -- :138 '.'
  else if r = 0x2F then twoC e start sz 0x2F .integerDivide .divide                 -- :157 '/'
  else if r = 0x3A then oneC e start sz .colon                                      -- :176
  else if r = 0x3C then twoC e start sz 0x3D .lessOrEqual .less                     -- :184 '<'
  else if r = 0x3D then twoC e start sz 0x3D .equal .assign                         -- :203 '='
  else if r = 0x3E then twoC e start sz 0x3D .greaterOrEqual .greater               -- :222 '>'
  else if r = 0x40 then oneC e start sz .current                                    -- :241 '@'
  else if r = 0x5B then do                                                          -- :249 '['
    let d ← decodeRuneC e (start + sz)                                              -- :250
    match d with
    | .ok (nr, nsz) =>                                                              -- :251 err == nil
      if nr = 0x2A then do                                                          -- :252
        let d2 ← decodeRuneC e (start + sz + nsz)                                   -- :253
        match d2 with
        | .ok (nnr, nnsz) =>
          if nnr = 0x5D then tokC e start (sz + nsz + nnsz) .arrayWildcard          -- :254-261
          else tokC e start sz .openSqBrace                                         -- :286
        | .error _ => tokC e start sz .openSqBrace
      else if nr = 0x3F then tokC e start (sz + nsz) .filter                        -- :264
      else if nr = 0x5D then tokC e start (sz + nsz) .flatten                       -- :274
      else tokC e start sz .openSqBrace                                             -- :286
    | .error _ => tokC e start sz .openSqBrace
  else if r = 0x5D then oneC e start sz .closeSqBrace                               -- :293
  else if r = 0x60 then scanDelimC 0x60 .jsonLiteral e start fuel (start + sz)      -- :301 '`'
  else if r = 0x7B then oneC e start sz .openBrace                                  -- :303
  else if r = 0x7C then twoC e start sz 0x7C .or .pipe                              -- :311 '|'
  else if r = 0x7D then oneC e start sz .closeBrace                                 -- :330
  else if r = 0xD7 then oneC e start sz .multiply                                   -- :338
  else if r = 0xF7 then oneC e start sz .divide                                     -- :346
  else if r = 0x2212 then oneC e start sz .subtract                                 -- :354
  else if r = 0x21 then twoC e start sz 0x3D .notEqual .not                         -- :364 '!'
  else if isDigitR r then numberLiteralC e fuel start (start + sz)                  -- :385
  else if isAlphaR r then unquotedIdentifierC e fuel start (start + sz)             -- :389
  else pure (.error (.unexpectedRune r))                                            -- :393

/-- the `for` loop of `Next` (lexer.go:28-47) followed by the rest of `Next` (`switchC`).
    Sites: :29 decodeRune.  Guards kept: :30 `err != nil`, :34 the whitespace test (`!isWsR r` is Go's
    `r != '\t' && r != '\n' && r != '\r' && r != ' '`), :40 `l.position == len(l.expression)`.
    `dropEndGuard = true` deletes the guard at :40 (guard-deletion demonstration, see `wsLoopC_noguard`). -/
def wsLoopC (dropEndGuard : Bool) (e : Bytes) (fuel0 : Nat) : Nat → Int → Res Step
  | 0, _ => .unmodelled fuelMsg
  | fuel + 1, position => do
    let d ← decodeRuneC e position                  -- :29
    match d with
    | .error err => pure (.error err)               -- :30-32
    | .ok (r, sz) =>
      if !(isWsR r) then switchC e fuel0 position r sz     -- :34 break; :49 start := l.position
      else
        let position := position + sz               -- :38
        if !dropEndGuard && position = e.length then       -- :40
          pure (.ok (⟨.end, []⟩, position))         -- :41-45
        else wsLoopC dropEndGuard e fuel0 fuel position

/-- `Lexer.Next(t)` (lexer.go:16-394) from the state `(expression = e, position = pos)`: the token and the new
    position, or the error.  Guards kept: :17 `l.position == len(l.expression)`.  All loops get the fuel
    `len(e) + 1`. -/
def NextC (e : Bytes) (pos : Int) : Res Step :=
  if pos = e.length then pure (.ok (⟨.end, []⟩, pos))       -- :17-23
  else wsLoopC false e (e.length + 1) (e.length + 1) pos

/-- the token stream a client (the parser) pulls: `NewLexer(e)` (position 0), then `Next` until the `EndToken` or an
    error; in the shape of the model's `lexAll` (tokens so far, error if any). -/
def lexAllC (e : Bytes) : Nat → Int → Res (List Token × Option LexErr)
  | 0, _ => .unmodelled fuelMsg
  | fuel + 1, pos => do
    let st ← NextC e pos
    match st with
    | .error er => pure ([], some er)
    | .ok (t, pos') =>
      if t.type = .end then pure ([t], none)
      else do
        let (ts, er) ← lexAllC e fuel pos'
        pure (t :: ts, er)

/-! ## `decodeRune` -/

/-- working form of `decodeRuneC_eq` (position given as a natural number) -/
theorem decodeRuneC_nat (e : Bytes) (pos : Int) (k : Nat) (hp : pos = k) (hk : k ≤ e.length) :
    decodeRuneC e pos = .ok (lexDecode (e.drop k)) := by
  subst hp
  unfold decodeRuneC lexDecode
  rw [sliceFrom?_ok_nat e k hk]
  simp only [Res.ok_bind]
  generalize decodeRune (e.drop k) = p
  obtain ⟨r, sz⟩ := p
  simp only []
  split
  · rfl
  · split <;> rfl


/-- the model's result (token, byte count) of a step that starts at position `k`, as the mirror reports it
    (token, new position) -/
def liftE (k : Int) : Except LexErr (Token × Nat) → Step
  | .ok (t, n) => .ok (t, k + n)
  | .error er => .error er

/-- unfolding equations of `liftE` -/
@[simp] theorem liftE_ok (k : Int) (t : Token) (n : Nat) : liftE k (.ok (t, n)) = .ok (t, k + n) := rfl
@[simp] theorem liftE_error (k : Int) (er : LexErr) : liftE k (.error er) = .error er := rfl

/-- `l.position += n; … l.expression[start:l.position]` is in bounds whenever `start + n ≤ len`, and the token value
    is the model's `(e.drop start).take n`. -/
theorem tokC_nat (e : Bytes) (start : Int) (st n : Nat) (ty : TokenType) (hs : start = st)
    (hle : st + n ≤ e.length) :
    tokC e start n ty = .ok (liftE start (.ok (⟨ty, (e.drop st).take n⟩, n))) := by
  subst hs
  unfold tokC
  have h1 : (st : Int) + (n : Int) = ((st + n : Nat) : Int) := by omega
  simp only [h1]
  rw [slice?_ok_nat e st (st + n) (by omega) hle]
  simp only [Res.ok_bind, Res.pure_eq, liftE_ok, h1]
  have : st + n - st = n := by omega
  rw [this]

example : tokC [0x61, 0x25, 0x62] 1 1 .modulo = .ok (.ok (⟨.modulo, [0x25]⟩, 2)) := by rfl

/-- a two-rune case of the switch never panics and equals the model's local helper `two` of `lexToken`
    (written out: `peek`, then `tok t2 (sz + nsz)` or `tok t1 sz`). -/
theorem twoC_nat (e : Bytes) (start : Int) (st r sz c : Nat) (t2 t1 : TokenType) (hs : start = st)
    (hdec : lexDecode (e.drop st) = .ok (r, sz)) :
    twoC e start sz c t2 t1 = .ok (liftE start
      (match peek (e.drop st) sz with
       | some (nr, nsz) =>
         if nr = c then .ok (⟨t2, (e.drop st).take (sz + nsz)⟩, sz + nsz) else .ok (⟨t1, (e.drop st).take sz⟩, sz)
       | none => .ok (⟨t1, (e.drop st).take sz⟩, sz))) := by
  have hp := lexDecode_pos hdec
  rw [List.length_drop] at hp
  unfold twoC peek
  rw [decodeRuneC_nat e (start + sz) (st + sz) (by omega) (by omega), List.drop_drop]
  simp only [Res.ok_bind]
  cases h2 : lexDecode (e.drop (st + sz)) with
  | error er => simp only []; exact tokC_nat e start st sz t1 hs (by omega)
  | ok p =>
    obtain ⟨nr, nsz⟩ := p
    have hp2 := lexDecode_pos h2
    rw [List.length_drop] at hp2
    simp only []
    split
    · exact tokC_nat e start st (sz + nsz) t2 hs (by omega)
    · exact tokC_nat e start st sz t1 hs (by omega)

example : twoC [0x3C, 0x3D] 0 1 0x3D .lessOrEqual .less = .ok (.ok (⟨.lessOrEqual, [0x3C, 0x3D]⟩, 2)) := by rfl
example : twoC [0x3C] 0 1 0x3D .lessOrEqual .less = .ok (.ok (⟨.less, [0x3C]⟩, 1)) := by rfl

/-! ## the scanners -/

/-- how `lexToken` turns the byte count of `scanDelim` into a token -/
def delimM (ty : TokenType) (s : Bytes) : Except LexErr Nat → Except LexErr (Token × Nat)
  | .ok m => .ok (⟨ty, s.take m⟩, m)
  | .error er => .error er

/-- `jsonLiteral` / `quotedIdentifier` / `stringLiteral` entered with `next = k`, `start + n = k ≤ len`: no checked
    slice fires, the loop ends within `len - k + 1` iterations, and the result is the model's `scanDelim` on the
    remaining input `e.drop k` (any sufficient model fuel `fM`). -/
theorem scanDelimC_nat (d : Nat) (ty : TokenType) (e : Bytes) (start : Int) (st : Nat) (hs : start = st) :
    ∀ (fC fM : Nat) (next : Int) (k n : Nat), next = k → st + n = k → k ≤ e.length →
      e.length - k < fC → e.length - k < fM →
      scanDelimC d ty e start fC next = .ok (liftE start (delimM ty (e.drop st) (scanDelim d fM (e.drop k) n)))
  | 0, _, _, _, _, _, _, _, h, _ => by omega
  | _, 0, _, _, _, _, _, _, _, h => by omega
  | fC + 1, fM + 1, next, k, n, hn, hk, hle, h1, h2 => by
    unfold scanDelimC scanDelim
    rw [decodeRuneC_nat e next k hn hle]
    simp only [Res.ok_bind]
    cases hd : lexDecode (e.drop k) with
    | error er => rfl
    | ok p =>
      obtain ⟨r, sz⟩ := p
      have hp := lexDecode_pos hd
      rw [List.length_drop] at hp
      simp only []
      split
      · -- the closing delimiter
        have h3 : next + (sz : Int) = ((st + (n + sz) : Nat) : Int) := by omega
        rw [h3, hs, slice?_ok_nat e st (st + (n + sz)) (by omega) (by omega)]
        simp only [Res.ok_bind, Res.pure_eq, delimM, liftE_ok]
        have : st + (n + sz) - st = n + sz := by omega
        rw [this]
        congr 3
      · split
        · -- backslash: one more rune
          rw [decodeRuneC_nat e (next + sz) (k + sz) (by omega) (by omega), List.drop_drop]
          simp only [Res.ok_bind]
          cases hd2 : lexDecode (e.drop (k + sz)) with
          | error er => rfl
          | ok p2 =>
            obtain ⟨r2, sz2⟩ := p2
            have hp2 := lexDecode_pos hd2
            rw [List.length_drop] at hp2
            simp only []
            rw [List.drop_drop]
            have := scanDelimC_nat d ty e start st hs fC fM (next + sz + sz2) (k + (sz + sz2)) (n + sz + sz2)
              (by omega) (by omega) (by omega) (by omega) (by omega)
            rw [this]
        · rw [List.drop_drop]
          exact scanDelimC_nat d ty e start st hs fC fM (next + sz) (k + sz) (n + sz)
            (by omega) (by omega) (by omega) (by omega) (by omega)

/-- `'a\'b'` (an escaped quote inside a raw string), entered after the opening quote -/
example : scanDelimC 0x27 .stringLiteral [0x27, 0x61, 0x5C, 0x27, 0x62, 0x27] 0 7 1
    = .ok (.ok (⟨.stringLiteral, [0x27, 0x61, 0x5C, 0x27, 0x62, 0x27]⟩, 6)) := by rfl
/-- `"a\` ends inside the escape: the error, no panic -/
example : scanDelimC 0x22 .quotedIdentifier [0x22, 0x61, 0x5C] 0 4 1 = .ok (.error .unexpectedEnd) := by rfl

/-- `spanRunes` never counts more bytes than there are (for any predicate, any fuel). -/
theorem spanRunes_le (p : Nat → Bool) : ∀ (fuel : Nat) (s : Bytes), spanRunes p fuel s ≤ s.length
  | 0, s => by simp [spanRunes]
  | fuel + 1, s => by
    unfold spanRunes
    cases hd : lexDecode s with
    | error er => simp
    | ok q =>
      obtain ⟨r, sz⟩ := q
      have hp := lexDecode_pos hd
      have ih := spanRunes_le p fuel (s.drop sz)
      rw [List.length_drop] at ih
      simp only []
      split
      · omega
      · omega

/-- the digit / identifier loop entered with `next = k ≤ len`: no checked slice fires, it ends within
    `len - k + 1` iterations, and `next` advances by the model's `spanRunes` on `e.drop k`. -/
theorem spanLoopC_nat (p : Nat → Bool) (e : Bytes) :
    ∀ (fC fM : Nat) (next : Int) (k : Nat), next = k → k ≤ e.length → e.length - k < fC → e.length - k ≤ fM →
      spanLoopC p e fC next = .ok ((k : Int) + (spanRunes p fM (e.drop k) : Nat))
  | 0, _, _, _, _, _, h, _ => by omega
  | fC + 1, 0, next, k, hn, hle, h1, h2 => by
    have hk : k = e.length := by omega
    unfold spanLoopC spanRunes
    rw [decodeRuneC_nat e next k hn hle, hk, List.drop_length, lexDecode_nil]
    simp only [Res.ok_bind, Res.pure_eq]
    rw [hn, hk]; simp
  | fC + 1, fM + 1, next, k, hn, hle, h1, h2 => by
    unfold spanLoopC spanRunes
    rw [decodeRuneC_nat e next k hn hle]
    simp only [Res.ok_bind]
    cases hd : lexDecode (e.drop k) with
    | error er => simp only [Res.pure_eq]; rw [hn]; simp
    | ok q =>
      obtain ⟨r, sz⟩ := q
      have hp := lexDecode_pos hd
      rw [List.length_drop] at hp
      simp only []
      split
      · rw [List.drop_drop, spanLoopC_nat p e fC fM (next + sz) (k + sz) (by omega) (by omega) (by omega) (by omega)]
        congr 1
        omega
      · simp only [Res.pure_eq]; rw [hn]; simp

/-- Go's order of the identifier-character test (digit first) is the model's predicate. -/
theorem isIdGo_eq : isIdGo = fun r => isAlphaR r || isDigitR r := by
  funext r; unfold isIdGo; exact Bool.or_comm _ _

/-- the loop of a scanner that was entered with `next = start + m`, against the model's `spanRunes` on the input
    remaining at `start` -/
theorem spanLoopC_at (p : Nat → Bool) (e : Bytes) (fuel : Nat) (next : Int) (st m : Nat) (hn : next = (st : Int) + m)
    (hle : st + m ≤ e.length) (hf : e.length < fuel) :
    spanLoopC p e fuel next
      = .ok ((st : Int) + ((m + spanRunes p (e.drop st).length ((e.drop st).drop m) : Nat) : Int)) ∧
    st + (m + spanRunes p (e.drop st).length ((e.drop st).drop m)) ≤ e.length := by
  rw [List.drop_drop, List.length_drop]
  have hb := spanRunes_le p (e.length - st) (e.drop (st + m))
  rw [List.length_drop] at hb
  refine ⟨?_, by omega⟩
  rw [spanLoopC_nat p e fuel (e.length - st) next (st + m) (by omega) hle (by omega) (by omega)]
  congr 1
  omega

/-- `numberLiteral(t, start, start + m)` never panics and produces the model's integer-literal token
    `tok .integerLiteral (m + spanRunes isDigitR …)` (`m = sz` for a digit, `m = sz + nsz` after `-`). -/
theorem numberLiteralC_nat (e : Bytes) (fuel : Nat) (start next : Int) (st m : Nat) (hs : start = st)
    (hn : next = (st : Int) + m) (hle : st + m ≤ e.length) (hf : e.length < fuel) :
    numberLiteralC e fuel start next = .ok (liftE start
      (.ok (⟨.integerLiteral, (e.drop st).take (m + spanRunes isDigitR (e.drop st).length ((e.drop st).drop m))⟩,
            m + spanRunes isDigitR (e.drop st).length ((e.drop st).drop m)))) := by
  obtain ⟨h1, h2⟩ := spanLoopC_at isDigitR e fuel next st m hn hle hf
  unfold numberLiteralC
  rw [h1]
  simp only [Res.ok_bind]
  generalize m + spanRunes isDigitR (e.drop st).length ((e.drop st).drop m) = n at h2 ⊢
  have := tokC_nat e start st n .integerLiteral hs h2
  unfold tokC at this
  rw [hs] at this ⊢
  exact this

/-- `unquotedIdentifier(t, start, start + m)` never panics (both `l.expression[start:next]`, lexer.go:526 and :536,
    are in bounds) and produces the model's identifier / `in` / `let` token. -/
theorem unquotedIdentifierC_nat (e : Bytes) (fuel : Nat) (start next : Int) (st m : Nat) (hs : start = st)
    (hn : next = (st : Int) + m) (hle : st + m ≤ e.length) (hf : e.length < fuel) :
    unquotedIdentifierC e fuel start next = .ok (liftE start
      (let n := m + spanRunes (fun r => isAlphaR r || isDigitR r) (e.drop st).length ((e.drop st).drop m)
       let v := (e.drop st).take n
       let t := if v = [0x69, 0x6E] then TokenType.in else if v = [0x6C, 0x65, 0x74] then TokenType.let
                else TokenType.unquotedIdentifier
       .ok (⟨t, v⟩, n))) := by
  rw [← isIdGo_eq]
  obtain ⟨h1, h2⟩ := spanLoopC_at isIdGo e fuel next st m hn hle hf
  unfold unquotedIdentifierC
  rw [h1]
  simp only [Res.ok_bind]
  generalize m + spanRunes isIdGo (e.drop st).length ((e.drop st).drop m) = n at h2 ⊢
  subst hs
  have h3 : (st : Int) + (n : Int) = ((st + n : Nat) : Int) := by omega
  rw [h3, slice?_ok_nat e st (st + n) (by omega) h2]
  have : st + n - st = n := by omega
  simp only [Res.ok_bind, Res.pure_eq, liftE_ok, this, h3]

/-- `variable(t, start, start + sz)` never panics and produces the model's `$` case of `lexToken`
    (root token, or variable token spanning the identifier). -/
theorem variableC_nat (e : Bytes) (fuel : Nat) (start next : Int) (st sz : Nat) (hs : start = st)
    (hn : next = (st : Int) + sz) (hle : st + sz ≤ e.length) (hf : e.length < fuel) :
    variableC e fuel start next = .ok (liftE start
      (match peek (e.drop st) sz with
       | some (nr, nsz) =>
         if isAlphaR nr then
           let n := sz + nsz + spanRunes (fun r => isAlphaR r || isDigitR r) (e.drop st).length
                      ((e.drop st).drop (sz + nsz))
           .ok (⟨.variable, (e.drop st).take n⟩, n)
         else .ok (⟨.root, (e.drop st).take sz⟩, sz)
       | none => .ok (⟨.root, (e.drop st).take sz⟩, sz))) := by
  subst hs; subst hn
  have hroot := tokC_nat e st st sz .root rfl hle
  unfold tokC at hroot
  unfold variableC peek
  rw [decodeRuneC_nat e _ (st + sz) (by omega) hle, List.drop_drop]
  simp only [Res.ok_bind]
  cases hd : lexDecode (e.drop (st + sz)) with
  | error er => simp only []; exact hroot
  | ok q =>
    obtain ⟨nr, nsz⟩ := q
    have hp := lexDecode_pos hd
    rw [List.length_drop] at hp
    simp only []
    cases hal : isAlphaR nr with
    | false => simp only [Bool.not_false, if_true]; exact hroot
    | true =>
      simp only [Bool.not_true, Bool.false_eq_true, if_false, if_true]
      rw [← isIdGo_eq]
      obtain ⟨h1, h2⟩ := spanLoopC_at isIdGo e fuel ((st : Int) + sz + nsz) st (sz + nsz) (by omega) (by omega) hf
      rw [h1]
      simp only [Res.ok_bind]
      generalize sz + nsz + spanRunes isIdGo (e.drop st).length ((e.drop st).drop (sz + nsz)) = n at h2 ⊢
      have := tokC_nat e st st n .variable rfl h2
      unfold tokC at this
      exact this

example : numberLiteralC [0x2D, 0x31, 0x32, 0x5D] 5 0 2 = .ok (.ok (⟨.integerLiteral, [0x2D, 0x31, 0x32]⟩, 3)) := by rfl
example : unquotedIdentifierC [0x69, 0x6E, 0x20] 4 0 1 = .ok (.ok (⟨.in, [0x69, 0x6E]⟩, 2)) := by rfl
example : variableC [0x24, 0x78, 0x31] 4 0 1 = .ok (.ok (⟨.variable, [0x24, 0x78, 0x31]⟩, 3)) := by rfl
example : variableC [0x24, 0x31] 3 0 1 = .ok (.ok (⟨.root, [0x24]⟩, 1)) := by rfl

/-! ## the switch of `Next` -/

/-- the three delimited-token arms of the switch, in the exact shape `lexToken` has them -/
theorem delim_leaf (d : Nat) (ty : TokenType) (e : Bytes) (fuel : Nat) (start : Int) (st r sz : Nat) (hs : start = st)
    (hf : e.length < fuel) (hdec : lexDecode (e.drop st) = .ok (r, sz)) :
    scanDelimC d ty e start fuel (start + sz) = .ok (liftE start
      (match scanDelim d ((e.drop st).length + 1) ((e.drop st).drop sz) sz with
       | .ok n => .ok (⟨ty, (e.drop st).take n⟩, n)
       | .error er => .error er)) := by
  have hp := lexDecode_pos hdec
  rw [List.length_drop] at hp
  rw [scanDelimC_nat d ty e start st hs fuel ((e.drop st).length + 1) (start + sz) (st + sz) sz
    (by omega) rfl (by omega) (by omega) (by rw [List.length_drop]; omega), List.drop_drop]
  cases scanDelim d ((e.drop st).length + 1) (e.drop (st + sz)) sz <;> rfl

/-- one arm of the two parallel `if r = v then … else …` chains (`switchC` and `lexToken`) -/
local macro "sw_arm " r:ident v:term " => " t:tacticSeq : tactic =>
  `(tactic| (by_cases hr : $r = $v
             · (rw [if_pos hr, if_pos hr]; ($t))
             rw [if_neg hr, if_neg hr]; clear hr))

/-- THE SWITCH OF `Next`: if the rune at `start` decodes to `(r, sz)` (as the whitespace loop found), the rest of
    `Next` never panics, and is the model's `lexToken` on the remaining input `e.drop start`: same token, new
    position `start + n`, same error. -/
theorem switchC_nat (e : Bytes) (fuel : Nat) (start : Int) (st r sz : Nat) (hs : start = st)
    (hf : e.length < fuel) (hdec : lexDecode (e.drop st) = .ok (r, sz)) :
    switchC e fuel start r sz = .ok (liftE start (lexToken (e.drop st))) := by
  have hp := lexDecode_pos hdec
  rw [List.length_drop] at hp
  have h1 : ∀ ty, oneC e start sz ty = .ok (liftE start (.ok (⟨ty, (e.drop st).take sz⟩, sz))) :=
    fun ty => tokC_nat e start st sz ty hs (by omega)
  have h2 : ∀ c t2 t1, twoC e start sz c t2 t1 = _ := fun c t2 t1 => twoC_nat e start st r sz c t2 t1 hs hdec
  have h3 : ∀ d ty, scanDelimC d ty e start fuel (start + sz) = _ :=
    fun d ty => delim_leaf d ty e fuel start st r sz hs hf hdec
  unfold lexToken
  rw [hdec]
  simp only []
  delta switchC
  sw_arm r 0x22 => exact h3 _ _
  sw_arm r 0x24 => exact variableC_nat e fuel start _ st sz hs (by omega) (by omega) hf
  sw_arm r 0x25 => exact h1 _
  sw_arm r 0x26 => exact h2 _ _ _
  sw_arm r 0x27 => exact h3 _ _
  sw_arm r 0x28 => exact h1 _
  sw_arm r 0x29 => exact h1 _
  sw_arm r 0x2A => exact h1 _
  sw_arm r 0x2B => exact h1 _
  sw_arm r 0x2C => exact h1 _
  sw_arm r 0x2D =>
    unfold peek
    rw [decodeRuneC_nat e (start + sz) (st + sz) (by omega) (by omega), List.drop_drop]
    simp only [Res.ok_bind]
    cases hd2 : lexDecode (e.drop (st + sz)) with
    | error er => exact tokC_nat e start st sz _ hs (by omega)
    | ok q =>
      obtain ⟨nr, nsz⟩ := q
      have hp2 := lexDecode_pos hd2
      rw [List.length_drop] at hp2
      simp only []
      split
      · exact numberLiteralC_nat e fuel start _ st (sz + nsz) hs (by omega) (by omega) hf
      · exact tokC_nat e start st sz _ hs (by omega)
  sw_arm r 0x2E => exact h2 _ _ _
  sw_arm r 0x2F => exact h2 _ _ _
  sw_arm r 0x3A => exact h1 _
  sw_arm r 0x3C => exact h2 _ _ _
  sw_arm r 0x3D => exact h2 _ _ _
  sw_arm r 0x3E => exact h2 _ _ _
  sw_arm r 0x40 => exact h1 _
  sw_arm r 0x5B =>
    unfold peek
    rw [decodeRuneC_nat e (start + sz) (st + sz) (by omega) (by omega), List.drop_drop]
    simp only [Res.ok_bind]
    cases hd2 : lexDecode (e.drop (st + sz)) with
    | error er => exact tokC_nat e start st sz _ hs (by omega)
    | ok q =>
      obtain ⟨nr, nsz⟩ := q
      have hp2 := lexDecode_pos hd2
      rw [List.length_drop] at hp2
      simp only []
      split
      · rw [decodeRuneC_nat e (start + sz + nsz) (st + (sz + nsz)) (by omega) (by omega), List.drop_drop]
        simp only [Res.ok_bind]
        cases hd3 : lexDecode (e.drop (st + (sz + nsz))) with
        | error er => exact tokC_nat e start st sz _ hs (by omega)
        | ok q3 =>
          obtain ⟨nnr, nnsz⟩ := q3
          have hp3 := lexDecode_pos hd3
          rw [List.length_drop] at hp3
          simp only []
          split
          · exact tokC_nat e start st (sz + nsz + nnsz) _ hs (by omega)
          · exact tokC_nat e start st sz _ hs (by omega)
      · split
        · exact tokC_nat e start st (sz + nsz) _ hs (by omega)
        · split
          · exact tokC_nat e start st (sz + nsz) _ hs (by omega)
          · exact tokC_nat e start st sz _ hs (by omega)
  sw_arm r 0x5D => exact h1 _
  sw_arm r 0x60 => exact h3 _ _
  sw_arm r 0x7B => exact h1 _
  sw_arm r 0x7C => exact h2 _ _ _
  sw_arm r 0x7D => exact h1 _
  sw_arm r 0xD7 => exact h1 _
  sw_arm r 0xF7 => exact h1 _
  sw_arm r 0x2212 => exact h1 _
  sw_arm r 0x21 => exact h2 _ _ _
  split
  · exact numberLiteralC_nat e fuel start _ st sz hs (by omega) (by omega) hf
  · split
    · exact unquotedIdentifierC_nat e fuel start _ st sz hs (by omega) (by omega) hf
    · rfl

/-- `[*]` and `[*` -/
example : switchC [0x5B, 0x2A, 0x5D] 4 0 0x5B 1 = .ok (.ok (⟨.arrayWildcard, [0x5B, 0x2A, 0x5D]⟩, 3)) := by rfl
example : switchC [0x5B, 0x2A] 3 0 0x5B 1 = .ok (.ok (⟨.openSqBrace, [0x5B]⟩, 1)) := by rfl
/-- U+2212 MINUS SIGN is a three-byte one-rune token -/
example : switchC [0xE2, 0x88, 0x92] 4 0 0x2212 3 = .ok (.ok (⟨.subtract, [0xE2, 0x88, 0x92]⟩, 3)) := by rfl

/-! ## `Next` -/

/-- what `lexAllAux` does with the input `s'` that `skipWsLex` leaves of an input of `len` bytes: the token and
    the number of bytes consumed, whitespace included -/
def afterWs (len : Nat) : Bytes → Except LexErr (Token × Nat)
  | [] => .ok (⟨.end, []⟩, len)
  | s' =>
    match lexToken s' with
    | .error er => .error er
    | .ok (t, n) => .ok (t, len - s'.length + n)

/-- ONE STEP OF THE MODEL'S LEXER on the remaining input `s`, composed from `skipWsLex` and `lexToken` exactly as
    `lexAllAux` composes them (see `lexAllAux_step`): the token and the number of bytes consumed (whitespace +
    token; the whole rest for the end token), or the error. -/
def lexStep (s : Bytes) : Except LexErr (Token × Nat) := afterWs s.length (skipWsLex s.length s)

/-- unfolding equations of `afterWs` -/
theorem afterWs_nil (len : Nat) : afterWs len [] = .ok (⟨.end, []⟩, len) := rfl
theorem afterWs_cons (len b : Nat) (t : Bytes) :
    afterWs len (b :: t) = match lexToken (b :: t) with
      | .error er => .error er
      | .ok (tk, n) => .ok (tk, len - (b :: t).length + n) := rfl

/-- nothing to skip in the empty input -/
theorem skipWsLex_nil : ∀ fuel, skipWsLex fuel [] = []
  | 0 => rfl
  | _ + 1 => rfl

/-- `skipWsLex` returns a suffix, hence something no longer than its input -/
theorem skipWsLex_length_le (fuel : Nat) (s : Bytes) : (skipWsLex fuel s).length ≤ s.length := by
  obtain ⟨w, _, h⟩ := skipWsLex_spec fuel s
  have := congrArg List.length h
  rw [List.length_append] at this
  omega

/-- skipping `sz` bytes of whitespace first and counting from there is the same as counting from the start -/
theorem liftE_afterWs_shift (k sz L : Nat) (x : Bytes) (h1 : sz ≤ L) (h2 : x.length ≤ L - sz) :
    liftE ((k : Int) + sz) (afterWs (L - sz) x) = liftE k (afterWs L x) := by
  cases x with
  | nil => simp only [afterWs_nil, liftE_ok]; congr 2; omega
  | cons b t =>
    rw [afterWs_cons, afterWs_cons]
    cases lexToken (b :: t) with
    | error er => rfl
    | ok q =>
      obtain ⟨tk, n⟩ := q
      simp only [liftE_ok]
      congr 2
      omega

/-- THE WHITESPACE LOOP OF `Next` (with the rest of `Next` behind its `break`) entered at a position `k < len`:
    no checked slice fires, it ends within `len - k + 1` iterations and equals the model's `skipWsLex` followed by
    `lexToken` (or the end token), positions made absolute. -/
theorem wsLoopC_nat (e : Bytes) (fuel0 : Nat) (hf : e.length < fuel0) :
    ∀ (fC fM : Nat) (pos : Int) (k : Nat), pos = k → k < e.length → e.length - k < fC → e.length - k ≤ fM →
      wsLoopC false e fuel0 fC pos = .ok (liftE pos (afterWs (e.drop k).length (skipWsLex fM (e.drop k))))
  | 0, _, _, _, _, _, h, _ => by omega
  | _, 0, _, _, _, _, _, h => by omega
  | fC + 1, fM + 1, pos, k, hn, hlt, h1, h2 => by
    unfold wsLoopC
    rw [decodeRuneC_nat e pos k hn (by omega)]
    simp only [Res.ok_bind]
    obtain ⟨b, t, hbt⟩ : ∃ b t, e.drop k = b :: t := by
      cases hd : e.drop k with
      | nil => have := congrArg List.length hd; rw [List.length_drop, List.length_nil] at this; omega
      | cons b t => exact ⟨b, t, rfl⟩
    have hlen : (e.drop k).length = e.length - k := List.length_drop
    have hsk : skipWsLex (fM + 1) (e.drop k) = match lexDecode (e.drop k) with
        | .ok (r, sz) => if isWsR r then skipWsLex fM ((e.drop k).drop sz) else e.drop k
        | .error _ => e.drop k := by
      rw [hbt]; rfl
    rw [hsk]
    cases hd : lexDecode (e.drop k) with
    | error er =>
      simp only [Res.pure_eq]
      rw [hbt, afterWs_cons, ← hbt]
      unfold lexToken
      rw [hd]
      rfl
    | ok q =>
      obtain ⟨r, sz⟩ := q
      have hp := lexDecode_pos hd
      rw [hlen] at hp
      simp only []
      cases hw : isWsR r with
      | false =>
        simp only [Bool.not_false, if_true, Bool.false_eq_true, if_false]
        rw [switchC_nat e fuel0 pos k r sz hn hf hd]
        conv => rhs; rw [hbt, afterWs_cons, ← hbt]
        cases lexToken (e.drop k) with
        | error er => rfl
        | ok q2 =>
          obtain ⟨tk, n⟩ := q2
          simp only [liftE_ok]
          congr 3
          rw [hbt] at hlen
          omega
      | true =>
        simp only [Bool.not_true, Bool.false_eq_true, if_false, if_true, Bool.not_false, Bool.true_and,
          decide_eq_true_eq]
        split
        · rename_i hend
          have hks : k + sz = e.length := by omega
          rw [List.drop_drop, hks, List.drop_length, skipWsLex_nil, afterWs_nil]
          simp only [Res.pure_eq, liftE_ok, hlen]
          congr 3
          omega
        · rename_i hend
          rw [wsLoopC_nat e fuel0 hf fC fM (pos + sz) (k + sz) (by omega) (by omega) (by omega) (by omega)]
          have hsl := skipWsLex_length_le fM (e.drop (k + sz))
          rw [List.length_drop] at hsl
          have := liftE_afterWs_shift k sz (e.drop k).length (skipWsLex fM (e.drop (k + sz))) (by omega) (by omega)
          rw [List.drop_drop, hn, ← this]
          congr 3
          rw [List.length_drop, List.length_drop]
          omega

/-- two blanks then `%`, entered at position 0 -/
example : wsLoopC false [0x20, 0x20, 0x25] 4 4 0 = .ok (.ok (⟨.modulo, [0x25]⟩, 3)) := by rfl

/-- `lexStep` is one round of the model's `lexAllAux`: same error, or the same token and then the recursive call on
    the input with the consumed bytes dropped (`lexAllAux`'s `max n 1` is `n` because a token has `n ≥ 1` bytes,
    and `lexToken` never produces the end token). -/
theorem lexAllAux_step (fuel : Nat) (s : Bytes) :
    lexAllAux (fuel + 1) s =
      match lexStep s with
      | .error er => ([], some er)
      | .ok (t, m) =>
        if t.type = .end then ([t], none)
        else
          let (ts, er) := lexAllAux fuel (s.drop m)
          (t :: ts, er) := by
  obtain ⟨w, _, hs⟩ := skipWsLex_spec s.length s
  rw [lexAllAux]
  unfold lexStep
  cases h : skipWsLex s.length s with
  | nil => rfl
  | cons b t =>
    rw [afterWs_cons]
    rw [h] at hs
    dsimp only
    cases hl : lexToken (b :: t) with
    | error er => rfl
    | ok q =>
      obtain ⟨tk, n⟩ := q
      have g := lexToken_good hl
      have hne : ¬ tk.type = .end := by
        intro h; have := g.shape; rw [h] at this; exact this
      have hmax : max n 1 = n := by have := g.pos; omega
      have hlen : s.length = w.length + (b :: t).length := by
        have := congrArg List.length hs; rw [List.length_append] at this; exact this
      have hdrop : s.drop (s.length - (b :: t).length + n) = (b :: t).drop n := by
        have e1 : s.length - (b :: t).length + n = w.length + n := by omega
        rw [e1, ← List.drop_drop]
        congr 1
        rw [hs]; simp
      simp only [if_neg hne, hmax, hdrop]

example : lexStep [0x20, 0x61, 0x62, 0x2E] = .ok (⟨.unquotedIdentifier, [0x61, 0x62]⟩, 3) := by rfl
example : lexStep [0x20, 0x20] = .ok (⟨.end, []⟩, 2) := by rfl

/-- a step consumes no more than there is, and at least one byte unless it is the end token -/
theorem lexStep_bounds {s : Bytes} {t : Token} {m : Nat} (h : lexStep s = .ok (t, m)) :
    m ≤ s.length ∧ (t.type ≠ .end → 1 ≤ m) := by
  unfold lexStep at h
  have hle := skipWsLex_length_le s.length s
  cases hsk : skipWsLex s.length s with
  | nil =>
    rw [hsk, afterWs_nil] at h
    cases h
    exact ⟨Nat.le_refl _, fun h => absurd rfl h⟩
  | cons b tl =>
    rw [hsk] at h hle
    rw [afterWs_cons] at h
    cases hl : lexToken (b :: tl) with
    | error er => rw [hl] at h; cases h
    | ok q =>
      obtain ⟨tk, n⟩ := q
      rw [hl] at h
      cases h
      have g := lexToken_good hl
      have := g.pos; have := g.le
      exact ⟨by omega, fun _ => by omega⟩

/-! ## the three main theorems -/

/-- `decodeRune` never slices out of bounds: for every byte string `e` (valid UTF-8 or not) and every position
    `0 ≤ pos ≤ len(e)`, the checked `l.expression[pos:]` of lexer.go:397 succeeds and the result is the model's
    `lexDecode` on the remaining input `e.drop pos`. -/
theorem decodeRuneC_eq (e : Bytes) (pos : Int) (h0 : 0 ≤ pos) (h1 : pos ≤ e.length) :
    decodeRuneC e pos = .ok (lexDecode (e.drop pos.toNat)) :=
  decodeRuneC_nat e pos pos.toNat (by omega) (by omega)

example : decodeRuneC [0x61, 0xC3, 0x97] 1 = .ok (.ok (0xD7, 2)) := by rfl
example : decodeRuneC [0x61, 0xC3] 1 = .ok (.error .invalidRune) := by rfl
example : decodeRuneC [0x61, 0xC3] 2 = .ok (.error .unexpectedEnd) := by rfl
/-- the hypothesis `pos ≤ len` is needed: outside, Go's `l.expression[pos:]` panics -/
example : decodeRuneC [0x61, 0xC3] 3 = .panic sliceMsg := by rfl

/-- `Lexer.Next` never panics and computes the model's step: for every byte string `e` and every position
    `0 ≤ pos ≤ len(e)` (the lexer's state), no checked slice of `Next` or of the scanners it calls fires, no loop
    runs more than `len(e) + 1` times, and the outcome is `lexStep` (= `skipWsLex` then `lexToken`, as `lexAllAux`
    composes them) on the remaining input `e.drop pos`: same token (type and value), new position = `pos` + bytes
    consumed (whitespace + token), same error. -/
theorem nextC_eq (e : Bytes) (pos : Int) (h0 : 0 ≤ pos) (h1 : pos ≤ e.length) :
    NextC e pos = .ok (liftE pos (lexStep (e.drop pos.toNat))) := by
  unfold NextC
  split
  · rename_i h
    have : pos.toNat = e.length := by omega
    rw [this, List.drop_length]
    simp [lexStep, skipWsLex_nil, afterWs_nil]
  · rename_i h
    rw [wsLoopC_nat e (e.length + 1) (by omega) (e.length + 1) (e.drop pos.toNat).length pos pos.toNat
      (by omega) (by omega) (by omega) (by rw [List.length_drop]; omega)]
    rfl

/-- `a .* b` from position 1: whitespace skipped, the two-rune token `.*`, new position 4 -/
example : NextC [0x61, 0x20, 0x2E, 0x2A, 0x62] 1 = .ok (.ok (⟨.objectWildcard, [0x2E, 0x2A]⟩, 4)) := by rfl
/-- an unterminated string literal: the error, no panic -/
example : NextC [0x27, 0x61, 0x5C] 0 = .ok (.error .unexpectedEnd) := by rfl
/-- the position hypothesis is needed -/
example : NextC [0x61] 2 = .panic sliceMsg := by rfl

/-- working form of `lexAllC_eq`: pulling the rest of the stream from any position `k ≤ len` with fuel `> len - k` -/
theorem lexAllC_nat (e : Bytes) :
    ∀ (fuel : Nat) (pos : Int) (k : Nat), pos = k → k ≤ e.length → e.length - k < fuel →
      lexAllC e fuel pos = .ok (lexAllAux fuel (e.drop k))
  | 0, _, _, _, _, h => by omega
  | fuel + 1, pos, k, hp, hle, hf => by
    have hk : pos.toNat = k := by omega
    unfold lexAllC
    rw [nextC_eq e pos (by omega) (by omega), hk, lexAllAux_step]
    simp only [Res.ok_bind]
    cases hst : lexStep (e.drop k) with
    | error er => rfl
    | ok q =>
      obtain ⟨t, m⟩ := q
      obtain ⟨hb1, hb2⟩ := lexStep_bounds hst
      rw [List.length_drop] at hb1
      simp only [liftE_ok]
      split
      · rfl
      · rename_i hne
        have hm := hb2 hne
        rw [lexAllC_nat e fuel (pos + m) (k + m) (by omega) (by omega) (by omega), List.drop_drop]
        simp only [Res.ok_bind]
        cases lexAllAux fuel (e.drop (k + m))
        rfl

/-- THE WHOLE TOKEN STREAM: for EVERY byte string `e`, pulling tokens with the checked `Next` from the state
    `NewLexer(e)` (position 0) until the end token or an error never panics, never exhausts the loop bounds, and
    yields exactly the model's `lexAll e`. -/
theorem lexAllC_eq (e : Bytes) : lexAllC e (e.length + 1) 0 = .ok (lexAll e) :=
  lexAllC_nat e (e.length + 1) 0 0 rfl (Nat.zero_le _) (by omega)

/-- `a.b` -/
example : lexAllC [0x61, 0x2E, 0x62] 4 0
    = .ok ([⟨.unquotedIdentifier, [0x61]⟩, ⟨.dot, [0x2E]⟩, ⟨.unquotedIdentifier, [0x62]⟩, ⟨.end, []⟩], none) := by rfl
/-- `[*` then a stray continuation byte 0x80 -/
example : lexAllC [0x5B, 0x2A, 0x80] 4 0
    = .ok ([⟨.openSqBrace, [0x5B]⟩, ⟨.asterisk, [0x2A]⟩], some .invalidRune) := by rfl

/-- The state invariant `0 ≤ position ≤ len(expression)` that `nextC_eq` assumes is established by the lexer
    itself: `NewLexer` starts at 0 and a successful `Next` from a position within bounds moves to a position within
    bounds (and never backwards). -/
theorem nextC_position (e : Bytes) (pos : Int) (h0 : 0 ≤ pos) (h1 : pos ≤ e.length) {t : Token} {pos' : Int}
    (h : NextC e pos = .ok (.ok (t, pos'))) : pos ≤ pos' ∧ pos' ≤ e.length := by
  rw [nextC_eq e pos h0 h1] at h
  cases hst : lexStep (e.drop pos.toNat) with
  | error er => rw [hst] at h; cases h
  | ok q =>
    obtain ⟨t', m⟩ := q
    rw [hst] at h
    cases h
    have := (lexStep_bounds hst).1
    rw [List.length_drop] at this
    omega

example : NextC [0x61, 0x20] 1 = .ok (.ok (⟨.end, []⟩, 2)) := by rfl

/-! ## guard deletion

  The lexer contains NO guard whose removal makes a checked slice fire.  Every slice is `l.expression[start:next]`
  or `l.expression[pos:]` with `start ≤ next ≤ len` because `next` only ever advances by the `sz` that
  `utf8.DecodeRuneInString(l.expression[next:])` returned, and `0 ≤ sz ≤ len(l.expression[next:])`
  (`lexDecode_pos`, from `decodeRune`'s definition).  That arithmetic — not a guard — is what `nextC_eq` verifies;
  `oneC_needs_sz` below shows the slice does fire as soon as the arithmetic fact fails.  The guards of the lexer
  serve functional correctness and termination instead, as the following deletions show. -/

/-- `tokC`/`oneC` is safe only because `sz ≤ len - start`: with a (wrong) rune size 2 for the one-byte input `%`,
    `l.expression[0:2]` panics. -/
theorem oneC_needs_sz : oneC [0x25] 0 2 .modulo = .panic sliceMsg := by rfl

/-- Guard lexer.go:40 (`if l.position == len(l.expression)` inside the whitespace loop) deleted: NO panic —
    `decodeRune(len)` slices `l.expression[len:]` (legal) and reports `errUnexpectedEndOfExpression`; but the
    behaviour changes: trailing whitespace (here the expression `a␠`, `Next` from position 1) becomes a syntax
    error instead of the end token.  So the guard is needed for correctness, not for memory safety. -/
theorem wsLoopC_noguard :
    wsLoopC true [0x61, 0x20] 3 3 1 = .ok (.error .unexpectedEnd) ∧
    wsLoopC false [0x61, 0x20] 3 3 1 = .ok (.ok (⟨.end, []⟩, 2)) := ⟨by rfl, by rfl⟩

/-- `Next` without the guard lexer.go:17 (`if l.position == len(l.expression)` at the top) -/
def NextNo17C (e : Bytes) (pos : Int) : Res Step := wsLoopC false e (e.length + 1) (e.length + 1) pos

/-- Guard lexer.go:17 deleted: no panic either; the empty expression yields `errUnexpectedEndOfExpression` from
    `decodeRune(0)` instead of the end token. -/
theorem nextNo17C_demo : NextNo17C [] 0 = .ok (.error .unexpectedEnd) ∧ NextC [] 0 = .ok (.ok (⟨.end, []⟩, 0)) :=
  ⟨by rfl, by rfl⟩

/-- `decodeRune` without the guard lexer.go:398 (`if sz == 0 { return …, errUnexpectedEndOfExpression }`) -/
def decodeRuneNo398C (e : Bytes) (pos : Int) : Res (Except LexErr (Nat × Nat)) := do
  let t ← sliceFrom? e pos
  let (r, sz) := decodeRune t
  if r = RuneError ∧ sz = 1 then pure (.error .invalidRune)
  else pure (.ok (r, sz))

/-- `stringLiteral`/`quotedIdentifier`/`jsonLiteral` over `decodeRuneNo398C` -/
def scanDelimNo398C (delim : Nat) (ty : TokenType) (e : Bytes) (start : Int) : Nat → Int → Res Step
  | 0, _ => .unmodelled fuelMsg
  | fuel + 1, next => do
    let d ← decodeRuneNo398C e next
    match d with
    | .error err => pure (.error err)
    | .ok (r, sz) =>
      let next := next + sz
      if r = delim then do
        let v ← slice? e start next
        pure (.ok (⟨ty, v⟩, next))
      else if r = 0x5C then do
        let d2 ← decodeRuneNo398C e next
        match d2 with
        | .error err => pure (.error err)
        | .ok (_, sz2) => scanDelimNo398C delim ty e start fuel (next + sz2)
      else scanDelimNo398C delim ty e start fuel next

/-- Guard lexer.go:398 deleted: still no panic, but the unterminated raw string `'` (JMESPath expression `'`) makes
    `stringLiteral` spin forever: at the end of the input `decodeRune` answers `(RuneError, 0, nil)`, `next += 0`,
    and the loop never ends — whatever the fuel, the mirror runs out of it.  The guard is a TERMINATION guard. -/
theorem scanDelimNo398C_spins : ∀ fuel, scanDelimNo398C 0x27 .stringLiteral [0x27] 0 fuel 1 = .unmodelled fuelMsg
  | 0 => rfl
  | fuel + 1 => by
    have ih := scanDelimNo398C_spins fuel
    unfold scanDelimNo398C
    exact ih

/-- with the guard, the same input is the error `errUnexpectedEndOfExpression` -/
example : scanDelimC 0x27 .stringLiteral [0x27] 0 2 1 = .ok (.error .unexpectedEnd) := by rfl

end Jmes.C03D.LexGo
