/-
  Helpers for Jmes/Properties/C15C.lean, part 1: two PARSER invariants that the oracle theorems of C15B assume.

  * `erase_parserOK` / `compile_parserOK`: in the node of every parse tree — hence in whatever `compile` returns — every
    multi-select hash (`selectObject`, `selectObjectCurrent`) and every `let` (`defineVariables`), anywhere in the node,
    has pairwise distinct member keys (`INode.keysNodup`; the parser collects the members with `assocInsert`), and
    every literal is free of map-ordered (`enum`-tagged) arrays (`INode.litOk (Val.Good true)`: a literal comes from
    `Json.decode` or from a raw string).
-/
import Jmes.Proofs.C19BGrammar
import Jmes.Proofs.ParserLits
import Jmes.Proofs.C15BConcMainLemmas
namespace Jmes.C15C
open Jmes Jmes.Grammar Jmes.Parser Invar

/-! ### what `encoding/json` decodes holds no map-ordered array -/

theorem parse_noEnum : ∀ fuel : Nat,
    (∀ depth s v r, Json.parseValue fuel depth s = some (v, r) → v.Good true = true) ∧
    (∀ depth s acc xs r, Val.GoodL true acc = true → Json.parseElems fuel depth s acc = some (xs, r) →
      Val.GoodL true xs = true) ∧
    (∀ depth s acc kvs r, Val.GoodF true acc = true → Json.parseMembers fuel depth s acc = some (kvs, r) →
      Val.GoodF true kvs = true)
  | 0 => ⟨by simp [Json.parseValue], by simp [Json.parseElems], by simp [Json.parseMembers]⟩
  | fuel + 1 => by
    obtain ⟨ihV, ihE, ihM⟩ := parse_noEnum fuel
    refine ⟨?_, ?_, ?_⟩
    · intro depth s v r h
      simp only [Json.parseValue] at h
      split at h
      · cases h
      · cases h; rfl
      · cases h; rfl
      · cases h; rfl
      · simp only [Option.map_eq_some_iff] at h
        obtain ⟨⟨b, r'⟩, _, h⟩ := h
        cases h; rfl
      · split at h
        · cases h
        · split at h
          · cases h; rfl
          · simp only [Option.map_eq_some_iff] at h
            obtain ⟨⟨xs, r'⟩, he, h⟩ := h
            cases h
            exact good_plainArr (ihE _ _ _ _ _ rfl he)
      · split at h
        · cases h
        · split at h
          · cases h; rfl
          · simp only [Option.map_eq_some_iff] at h
            obtain ⟨⟨kvs, r'⟩, he, h⟩ := h
            cases h
            exact good_obj.mpr (ihM _ _ _ _ _ rfl he)
      · split at h
        · simp only [Option.map_eq_some_iff] at h
          obtain ⟨⟨n, r'⟩, _, h⟩ := h
          cases h; rfl
        · cases h
    · intro depth s acc xs r ha h
      simp only [Json.parseElems] at h
      split at h
      · cases h
      · next v r' hv =>
        split at h
        · exact ihE _ _ _ _ _ (Invar.goodL_snoc ha (ihV _ _ _ _ hv)) h
        · cases h
          exact Invar.goodL_snoc ha (ihV _ _ _ _ hv)
        · cases h
    · intro depth s acc kvs r ha h
      simp only [Json.parseMembers] at h
      split at h
      · split at h
        · cases h
        · split at h
          · split at h
            · cases h
            · next v r2 hv =>
              split at h
              · exact ihM _ _ _ _ _ (goodF_objInsert (ihV _ _ _ _ hv) ha) h
              · cases h
                exact goodF_objInsert (ihV _ _ _ _ hv) ha
              · cases h
          · cases h
      · cases h

/-- every value decoded from JSON text is free of map-ordered arrays -/
theorem decode_noEnum {s : Bytes} {v : Val} (h : Json.decode s = some v) : v.Good true = true := by
  simp only [Json.decode] at h
  split at h
  · next v' r hp =>
    split at h
    · cases h
      exact (parse_noEnum _).1 _ _ _ _ hp
    · cases h
  · cases h

/-- the literal between backticks is free of map-ordered arrays -/
theorem parseJSONLiteral_noEnum {s : Bytes} {v : Val} (h : parseJSONLiteral s = some v) : v.Good true = true := by
  simp only [parseJSONLiteral] at h
  split at h
  · cases h
  · exact decode_noEnum h

/-! ### the per-node requirement and its closure under the node constructors of the grammar -/

/-- per-node: distinct member keys, and a literal holds no map-ordered array -/
def pk (n : INode) : Bool := INode.keysNodup n && INode.litOk (Val.Good true) n

/-- the two parser invariants, at every sub-node -/
abbrev OK (n : INode) : Prop := n.all pk = true
abbrev OKL (ns : List INode) : Prop := INode.allL pk ns = true
abbrev OKF (fs : List (Bytes × INode)) : Prop := INode.allF pk fs = true

theorem okF_iff : ∀ (l : List (Bytes × INode)), OKF l ↔ ∀ p ∈ l, OK p.2
  | [] => by simp [OKF, INode.allF]
  | (k, v) :: rest => by
    have := okF_iff rest
    simp only [OKF, OK] at this ⊢
    simp [INode.allF, this]

theorem okL_iff : ∀ (l : List INode), OKL l ↔ ∀ p ∈ l, OK p
  | [] => by simp [OKL, INode.allL]
  | v :: rest => by
    have := okL_iff rest
    simp only [OKL, OK] at this ⊢
    simp [INode.allL, this]

theorem okF_assocInsert {k : Bytes} {v : INode} {l : List (Bytes × INode)} (hv : OK v) (hl : OKF l) :
    OKF (assocInsert k v l) := by
  rw [okF_iff] at hl ⊢
  intro p hp
  rcases mem_assocInsert hp with rfl | hp
  · exact hv
  · exact hl p hp

theorem okF_assocOf {ps : List (Bytes × INode)} (h : OKF ps) : OKF (assocOf ps) := by
  induction ps using list_snoc_ind with
  | nil => rfl
  | snoc ps p ih =>
    obtain ⟨k, v⟩ := p
    rw [GrammarF0.assocOf_snoc]
    rw [okF_iff] at h
    exact okF_assocInsert (h (k, v) (by simp)) (ih ((okF_iff ps).mpr (fun q hq => h q (by simp [hq]))))

/-- unfold `INode.all pk` at a constructor -/
macro "ok_simp" : tactic =>
  `(tactic| simp_all [OK, OKL, OKF, INode.all, INode.allL, INode.allF, pk, INode.keysNodup, INode.litOk])

theorem optNode_ok {l : PTree} {n : INode} (h : OK n) : ∀ c, optNode l n = some c → OK c := by
  intro c hc
  simp only [optNode] at hc
  split at hc
  · cases hc
  · cases hc; exact h

theorem subNode_ok {o : Option INode} {r : INode} (ho : ∀ c, o = some c → OK c) (hr : OK r) : OK (subNode o r) := by
  cases o with
  | none => exact hr
  | some c => have := ho c rfl; simp only [subNode]; ok_simp

theorem listNode_ok {o : Option INode} {fs : List INode} (ho : ∀ c, o = some c → OK c) (hf : OKL fs) :
    OK (listNode o fs) := by
  unfold listNode
  split
  · ok_simp
  · have := ho _ rfl; ok_simp
  · ok_simp
  · have := ho _ rfl; ok_simp

theorem hashNode_ok {o : Option INode} {ps : List (Bytes × INode)} (ho : ∀ c, o = some c → OK c) (hf : OKF ps) :
    OK (hashNode o ps) := by
  unfold hashNode
  split
  · ok_simp
  · have := ho _ rfl; ok_simp
  · have h1 := okF_assocOf hf
    have h2 := assocOf_nodup ps
    simp only [OK, OKF, INode.all, pk, INode.keysNodup, INode.litOk, Bool.and_true, Bool.and_eq_true,
      decide_eq_true_eq] at h1 ⊢
    exact ⟨h2, h1⟩
  · have h1 := okF_assocOf hf
    have h2 := assocOf_nodup ps
    have h3 := ho _ rfl
    simp only [OK, OKF, INode.all, pk, INode.keysNodup, INode.litOk, Bool.and_true, Bool.and_eq_true,
      decide_eq_true_eq] at h1 h3 ⊢
    exact ⟨⟨h2, h3⟩, h1⟩

theorem indexNode_ok {o : Option INode} (i : Int) (ho : ∀ c, o = some c → OK c) : OK (indexNode o i) := by
  unfold indexNode
  split
  · split <;> rfl
  · have := ho _ rfl; ok_simp

theorem sliceNode_ok {o : Option INode} (a b c : Option Int) (ho : ∀ c, o = some c → OK c) :
    OK (sliceNode o a b c) := by
  unfold sliceNode
  dsimp only
  split <;> split <;> first | rfl | (have := ho _ rfl; ok_simp)

theorem starNode_ok {o1 o2 : Option INode} (h1 : ∀ c, o1 = some c → OK c) (h2 : ∀ c, o2 = some c → OK c) :
    OK (starNode o1 o2) := by
  unfold starNode
  split <;> first | rfl | (have := h1 _ rfl; have := h2 _ rfl; ok_simp) | (have := h1 _ rfl; ok_simp) |
    (have := h2 _ rfl; ok_simp)

theorem ostarNode_ok {o1 o2 : Option INode} (h1 : ∀ c, o1 = some c → OK c) (h2 : ∀ c, o2 = some c → OK c) :
    OK (ostarNode o1 o2) := by
  unfold ostarNode
  split <;> first | rfl | (have := h1 _ rfl; have := h2 _ rfl; ok_simp) | (have := h1 _ rfl; ok_simp) |
    (have := h2 _ rfl; ok_simp)

theorem flatNode_ok {o1 o2 : Option INode} (h1 : ∀ c, o1 = some c → OK c) (h2 : ∀ c, o2 = some c → OK c) :
    OK (flatNode o1 o2) := by
  unfold flatNode
  split <;> first | rfl | (have := h1 _ rfl; have := h2 _ rfl; ok_simp) | (have := h1 _ rfl; ok_simp) |
    (have := h2 _ rfl; ok_simp)

theorem filtNode_ok {o1 o2 : Option INode} {f : INode} (h1 : ∀ c, o1 = some c → OK c) (hf : OK f)
    (h2 : ∀ c, o2 = some c → OK c) : OK (filtNode o1 f o2) := by
  unfold filtNode
  split <;> first | (have := h1 _ rfl; have := h2 _ rfl; ok_simp) | (have := h1 _ rfl; ok_simp) |
    (have := h2 _ rfl; ok_simp) | ok_simp

theorem binNode_ok (ty : TokenType) {a b : INode} (ha : OK a) (hb : OK b) : OK (binNode ty a b) := by
  cases ty <;> simp only [binNode] <;> ok_simp

/-- every builtin's node constructor keeps the property -/
def SpecOK : ArgSpec → Prop
  | .fixed _ _ mk => ∀ args, OKL args → OK (mk args)
  | .varArg mk => ∀ args, OKL args → OK (mk args)
  | .expArg mk => ∀ a b, OK a → OK b → OK (mk a b)
  | .mapArg mk => ∀ a b, OK a → OK b → OK (mk a b)

theorem call_ok (f : Fn) {args : List INode} (h : OKL args) : OK (.call f args) := by ok_simp

theorem builtin_ok : ∀ e ∈ builtinTable, SpecOK e.2 := by
  simp only [builtinTable, List.forall_mem_cons]
  repeat' apply And.intro
  all_goals first
    | (intro args h; exact call_ok _ h)
    | (intro args h; show OK (if _ then _ else _); split <;> exact call_ok _ h)
    | (intro args h; show OK (match _ with | 2 => _ | 3 => _ | _ => _); split <;> exact call_ok _ h)
    | (intro args h; ok_simp; done)
    | (intro a b ha hb; ok_simp; done)
    | (intro x hx; cases hx)

theorem callNode_ok {spec : ArgSpec} (h : SpecOK spec) {ns : List INode} (hn : OKL ns) : OK (callNode spec ns) := by
  cases spec with
  | fixed mn mx mk => exact h ns hn
  | varArg mk => exact h ns hn
  | expArg mk =>
    unfold callNode
    split <;> first | rfl | skip
    all_goals simp_all [SpecOK, OK, OKL, INode.allL]
  | mapArg mk =>
    unfold callNode
    split <;> first | rfl | skip
    all_goals simp_all [SpecOK, OK, OKL, INode.allL]

theorem eraseL_ok : ∀ (es : List PTree), (∀ e ∈ es, OK (erase e)) → OKL (eraseL es)
  | [], _ => rfl
  | e :: es, h => by
    have h1 := h e (by simp)
    have h2 := eraseL_ok es (fun x hx => h x (by simp [hx]))
    simp only [eraseL]; ok_simp

theorem eraseKVs_ok (key : Token → Bytes) : ∀ (kvs : List (Token × PTree)), (∀ kv ∈ kvs, OK (erase kv.2)) →
    OKF (eraseKVs key kvs)
  | [], _ => rfl
  | (k, e) :: kvs, h => by
    have h1 := h (k, e) (by simp)
    have h2 := eraseKVs_ok key kvs (fun x hx => h x (by simp [hx]))
    simp only [eraseKVs]; ok_simp

/-- **the node of any parse tree satisfies the two parser invariants at every sub-node**: distinct member keys in
    every multi-select hash and `let`, no map-ordered array in a literal -/
theorem erase_parserOK : ∀ t : PTree, OK (erase t) := by
  apply GrammarF0.PTree.ind
  case h_icur => rfl
  case h_atom =>
    intro t
    simp only [erase, atomNode]
    split <;> try rfl
    · cases parseQuotedIdentifier t.value <;> rfl
    · cases h : parseJSONLiteral t.value with
      | none => rfl
      | some v =>
        have := parseJSONLiteral_noEnum h
        simp only [Option.map_some, Option.getD_some]
        ok_simp
  case h_paren => intro t ih; exact ih
  case h_not => intro t ih; simp only [erase]; ok_simp
  case h_neg => intro _ t ih; simp only [erase]; ok_simp
  case h_pos => intro t ih; simp only [erase]; ok_simp
  case h_bin => intro op l r ihl ihr; exact binNode_ok _ ihl ihr
  case h_dotId => intro l r ihl ihr; exact subNode_ok (optNode_ok ihl) ihr
  case h_dotList => intro l es ihl ihes; exact listNode_ok (optNode_ok ihl) (eraseL_ok es ihes)
  case h_dotHash => intro l kvs ihl ih; exact hashNode_ok (optNode_ok ihl) (eraseKVs_ok _ kvs ih)
  case h_dotStarList => intro l ihl; exact listNode_ok (optNode_ok ihl) rfl
  case h_index => intro l n ihl; exact indexNode_ok _ (optNode_ok ihl)
  case h_call =>
    intro name args ih
    simp only [erase]
    cases hb : lookupBuiltin name.value with
    | none => rfl
    | some spec =>
      simp only [lookupBuiltin, Option.map_eq_some_iff] at hb
      obtain ⟨e, he, rfl⟩ := hb
      exact callNode_ok (builtin_ok e (List.mem_of_find?_eq_some he)) (eraseL_ok args ih)
  case h_ref => intro t ih; exact ih
  case h_letIn =>
    intro bs body ihb ih
    have h1 := okF_assocOf (eraseKVs_ok (fun t => t.value) bs ihb)
    have h2 := assocOf_nodup (eraseKVs (fun t => t.value) bs)
    simp only [erase, OK, OKF, INode.all, pk, INode.keysNodup, INode.litOk, Bool.and_true, Bool.and_eq_true,
      decide_eq_true_eq] at h1 ih ⊢
    exact ⟨⟨h2, h1⟩, ih⟩
  case h_multiList => intro es ih; exact listNode_ok (fun _ h => by cases h) (eraseL_ok es ih)
  case h_multiHash => intro kvs ih; exact hashNode_ok (fun _ h => by cases h) (eraseKVs_ok _ kvs ih)
  case h_star => intro l rhs ihl ihr; exact starNode_ok (optNode_ok ihl) (optNode_ok ihr)
  case h_ostar => intro l rhs ihl ihr; exact ostarNode_ok (optNode_ok ihl) (optNode_ok ihr)
  case h_flat => intro l rhs ihl ihr; exact flatNode_ok (optNode_ok ihl) (optNode_ok ihr)
  case h_filt => intro l c rhs ihl ihc ihr; exact filtNode_ok (optNode_ok ihl) ihc (optNode_ok ihr)
  case h_slice =>
    intro l a b c rhs ihl ihr
    have h1 := sliceNode_ok (a.bind intOf) (b.bind intOf) (c.bind fun s => s.bind intOf) (optNode_ok (l := l) ihl)
    have h2 : OK ((optNode rhs (erase rhs)).getD .current) := by
      cases ho : optNode rhs (erase rhs) with
      | none => rfl
      | some r => exact optNode_ok ihr r ho
    simp only [erase]
    ok_simp

/-! ### at the level of `compile` -/

theorem all_pk (n : INode) : n.all pk = (n.all INode.keysNodup && n.all (INode.litOk (Val.Good true))) :=
  INode.all_and INode.keysNodup (INode.litOk (Val.Good true)) n

/-- whatever `compile` returns satisfies the two parser invariants at every sub-node -/
theorem compile_parserOK {e : Bytes} {n : INode} (h : compile e = .ok n) :
    n.all INode.keysNodup = true ∧ n.all (INode.litOk (Val.Good true)) = true := by
  obtain ⟨t, _, _, rfl, _⟩ := Jmes.C04G.parse_sound h
  have := erase_parserOK t
  rw [OK, all_pk, Bool.and_eq_true] at this
  exact this

end Jmes.C15C
