/-
  Helpers for C19B, grammar side.

  Part 5: `head_let`: a well-formed parse tree whose first token is `let` is a `let … in …` as a whole (the `let` form has
          right level 1, so it is never a left operand: its body extends as far as possible).
  Part 6: a repeated name in `let`: `assocOf` keeps the last expression per name (`assocLookup_assocOf`), its names are
          strictly sorted, hence distinct (`assocOf_nodup`); `erase_letsOK`: every `let` node in the node of any parse
          tree binds pairwise distinct names.
-/
import Jmes.Proofs.C19BLemmas
import Jmes.Properties.C04G
namespace Jmes
open Jmes.Grammar Jmes.Parser

/-! ## Part 5: `let` in the grammar -/

theorem rlevel_letIn (bs : List (Token × PTree)) (body : PTree) : rlevel (.letIn bs body) = 1 := rfl

/-- the printing of `l`, followed by a token that is not `let`, does not start with `let` unless `l` does -/
theorem head_left {b : Bool} {l : PTree} {tok : Token} {rest : List Token}
    (htok : tok.type ≠ .let)
    (ih : ((flat b l).head?.map (·.type)) = some .let → ∃ bs body, l = .letIn bs body)
    (hr : l.isIcur = false → 2 ≤ rlevel l) :
    ((flat b l ++ tok :: rest).head?.map (·.type)) ≠ some .let := by
  intro h
  cases hf : flat b l with
  | nil => rw [hf] at h; simp only [List.nil_append, List.head?_cons, Option.map_some, Option.some.injEq] at h; exact htok h
  | cons c cs =>
    rw [hf] at h ih
    simp only [List.cons_append, List.head?_cons, Option.map_some] at h ih
    obtain ⟨bs, body, rfl⟩ := ih h
    have := hr rfl
    rw [rlevel_letIn] at this
    omega

/-- the left operand of a postfix / infix form at level `lvl ≥ 2` -/
theorem let_left_ok {b : Bool} {l : PTree} {c : Bool} {lvl : Nat} (h2 : 2 ≤ lvl)
    (h : (if l.isIcur then c else wp b l && decide (lvl ≤ rlevel l)) = true) :
    (l.isIcur = false → wp b l = true) ∧ (l.isIcur = false → 2 ≤ rlevel l) := by
  constructor <;> intro hi <;>
    simp only [hi, Bool.false_eq_true, if_false, Bool.and_eq_true, decide_eq_true_eq] at h
  · exact h.1
  · omega

theorem icur_or {l : PTree} (b : Bool) (hw : l.isIcur = false → wp b l = true) (h : (flat b l) ≠ []) :
    wp b l = true := by
  cases hi : l.isIcur
  · exact hw hi
  · rw [GrammarF0.isIcur_eq hi] at h; exact absurd rfl h

/-- **An expression that starts with `let` is a `let` as a whole**: in a well-formed tree the `let` form is never the
    left operand of anything, so a tree whose first token is `let` is `let … in body` — the body takes everything up to
    the end of the (sub)expression. -/
theorem head_let : ∀ (b : Bool) (t : PTree), wp b t = true →
    ((flat b t).head?.map (·.type)) = some .let → ∃ bs body, t = .letIn bs body
  | _, .letIn bs body, _, _ => ⟨bs, body, rfl⟩
  | _, .icur, h, _ => by simp [wp] at h
  | b, .atom t, h, hh => by
    simp only [wp, Bool.and_eq_true] at h
    simp only [flat, List.head?_cons, Option.map_some, Option.some.injEq] at hh
    have := h.2
    simp [atomNode, hh] at this
  | _, .paren t, _, hh => by simp [flat, tLParen] at hh
  | _, .not t, _, hh => by simp [flat, tNot] at hh
  | _, .pos t, _, hh => by simp [flat, tPlus] at hh
  | _, .neg tok t, h, hh => by
    simp only [wp, Bool.and_eq_true, beq_iff_eq] at h
    simp only [flat, List.head?_cons, Option.map_some, Option.some.injEq] at hh
    rw [h.1.1.2] at hh; cases hh
  | _, .call name args, h, hh => by
    simp only [wp, Bool.and_eq_true, beq_iff_eq] at h
    simp only [flat, List.cons_append, List.head?_cons, Option.map_some, Option.some.injEq] at hh
    rw [h.1.1.2] at hh; cases hh
  | _, .ref t, h, _ => by simp [wp] at h
  | _, .multiList es, _, hh => by simp [flat, tLBracket] at hh
  | _, .multiHash kvs, _, hh => by simp [flat, tLBrace] at hh
  | b, .bin op l r, h, hh => by
    exfalso
    simp only [wp] at h
    split at h
    · cases h
    · rename_i lvl hl
      simp only [Bool.and_eq_true, Bool.not_eq_true', decide_eq_true_eq] at h
      have h2 := (GrammarF0.binLevel_range hl).1
      refine head_left (b := b) (l := l) (tok := op) (rest := flat false r) ?_
        (head_let b l h.1.1.1.2) (fun _ => by omega) (by simpa only [flat, List.append_assoc, List.cons_append] using hh)
      intro ho; rw [ho] at hl; cases hl
  | b, .dotId l r, h, hh => by
    exfalso
    simp only [wp, Bool.and_eq_true] at h
    have hl := let_left_ok (by decide) h.1.1.1
    refine head_left (b := b) (l := l) (tok := tDot) (rest := flat false r) (by decide) ?_ hl.2
      (by simpa only [flat, List.append_assoc, List.cons_append] using hh)
    intro h1
    exact head_let b l (icur_or b hl.1 (by intro h0; rw [h0] at h1; cases h1)) h1
  | b, .dotList l es, h, hh => by
    exfalso
    simp only [wp, Bool.and_eq_true] at h
    have hl := let_left_ok (by decide) h.1.1
    refine head_left (b := b) (l := l) (tok := tDot) (rest := tLBracket :: (flatSep es ++ [tRBracket])) (by decide) ?_ hl.2
      (by simpa only [flat, List.append_assoc, List.cons_append] using hh)
    intro h1
    exact head_let b l (icur_or b hl.1 (by intro h0; rw [h0] at h1; cases h1)) h1
  | b, .dotHash l kvs, h, hh => by
    exfalso
    simp only [wp, Bool.and_eq_true] at h
    have hl := let_left_ok (by decide) h.1.1
    refine head_left (b := b) (l := l) (tok := tDot) (rest := tLBrace :: (flatKVs tColon kvs ++ [tRBrace])) (by decide) ?_ hl.2
      (by simpa only [flat, List.append_assoc, List.cons_append] using hh)
    intro h1
    exact head_let b l (icur_or b hl.1 (by intro h0; rw [h0] at h1; cases h1)) h1
  | b, .dotStarList l, h, hh => by
    exfalso
    simp only [wp] at h
    have hl := let_left_ok (by decide) h
    refine head_left (b := b) (l := l) (tok := tDot) (rest := [tArrayStar]) (by decide) ?_ hl.2
      (by simpa only [flat, List.append_assoc, List.cons_append] using hh)
    intro h1
    exact head_let b l (icur_or b hl.1 (by intro h0; rw [h0] at h1; cases h1)) h1
  | b, .index l n, h, hh => by
    exfalso
    simp only [wp, Bool.and_eq_true] at h
    have hl := let_left_ok (by decide) h.1
    refine head_left (b := b) (l := l) (tok := tLBracket) (rest := [n, tRBracket]) (by decide) ?_ hl.2
      (by simpa only [flat, List.append_assoc, List.cons_append] using hh)
    intro h1
    exact head_let b l (icur_or b hl.1 (by intro h0; rw [h0] at h1; cases h1)) h1
  | b, .star l rhs, h, hh => by
    exfalso
    simp only [wp, Bool.and_eq_true] at h
    have hl := let_left_ok (by decide) h.1
    refine head_left (b := b) (l := l) (tok := tArrayStar) (rest := flat true rhs) (by decide) ?_ hl.2
      (by simpa only [flat, List.append_assoc, List.cons_append] using hh)
    intro h1
    exact head_let b l (icur_or b hl.1 (by intro h0; rw [h0] at h1; cases h1)) h1
  | b, .flat l rhs, h, hh => by
    exfalso
    simp only [wp, Bool.and_eq_true] at h
    have hl := let_left_ok (by decide) h.1
    refine head_left (b := b) (l := l) (tok := tFlatten) (rest := flat true rhs) (by decide) ?_ hl.2
      (by simpa only [flat, List.append_assoc, List.cons_append] using hh)
    intro h1
    exact head_let b l (icur_or b hl.1 (by intro h0; rw [h0] at h1; cases h1)) h1
  | b, .filt l c rhs, h, hh => by
    exfalso
    simp only [wp, Bool.and_eq_true] at h
    have hl := let_left_ok (by decide) h.1.1
    refine head_left (b := b) (l := l) (tok := tFilter) (rest := flat false c ++ (tRBracket :: flat true rhs)) (by decide) ?_ hl.2
      (by simpa only [flat, List.append_assoc, List.cons_append] using hh)
    intro h1
    exact head_let b l (icur_or b hl.1 (by intro h0; rw [h0] at h1; cases h1)) h1
  | b, .slice l a bb c rhs, h, hh => by
    exfalso
    simp only [wp, Bool.and_eq_true] at h
    have hl := let_left_ok (by decide) h.1.1
    refine head_left (b := b) (l := l) (tok := tLBracket) (rest := sliceToks a bb c ++ (tRBracket :: flat true rhs)) (by decide) ?_ hl.2
      (by simpa only [flat, List.append_assoc, List.cons_append] using hh)
    intro h1
    exact head_let b l (icur_or b hl.1 (by intro h0; rw [h0] at h1; cases h1)) h1
  | b, .ostar l rhs, h, hh => by
    exfalso
    simp only [wp, Bool.and_eq_true] at h
    have hl := let_left_ok (by decide) h.1
    cases hi : l.isIcur
    · simp only [flat, hi, Bool.false_eq_true, if_false, List.append_assoc, List.singleton_append] at hh
      refine head_left (b := b) (l := l) (tok := tDotStar) (rest := flat true rhs) (by decide) ?_ hl.2 hh
      intro h1
      exact head_let b l (hl.1 hi) h1
    · simp only [flat, hi, if_true] at hh
      cases b <;> simp [tStar, tDotStar] at hh


/-! ## Part 6: a repeated name in `let` -/

mutual
/-- every `let` inside the node binds pairwise distinct names -/
def INode.letsOK : INode → Prop
  | .lit _ => True
  | .current => True
  | .root => True
  | .field _ => True
  | .variable _ => True
  | .binop _ l r => l.letsOK ∧ r.letsOK
  | .and l r => l.letsOK ∧ r.letsOK
  | .or l r => l.letsOK ∧ r.letsOK
  | .not c => c.letsOK
  | .negate c => c.letsOK
  | .assertNumber c => c.letsOK
  | .call _ args => letsOKList args
  | .defineVariables vars child => (vars.map Prod.fst).Nodup ∧ letsOKFields vars ∧ child.letsOK
  | .filter c f => c.letsOK ∧ f.letsOK
  | .filterCurrent f => f.letsOK
  | .filterAndProject l f r => l.letsOK ∧ f.letsOK ∧ r.letsOK
  | .filterAndProjectCurrent f c => f.letsOK ∧ c.letsOK
  | .flatten c => c.letsOK
  | .flattenCurrent => True
  | .flattenAndProject l r => l.letsOK ∧ r.letsOK
  | .flattenAndProjectCurrent c => c.letsOK
  | .index c _ => c.letsOK
  | .indexCurrent _ => True
  | .smallIndexCurrent _ => True
  | .objectValues c => c.letsOK
  | .objectValuesCurrent => True
  | .pipe l r => l.letsOK ∧ r.letsOK
  | .projectArray l r => l.letsOK ∧ r.letsOK
  | .projectArrayCurrent c => c.letsOK
  | .projectObject l r => l.letsOK ∧ r.letsOK
  | .projectObjectCurrent c => c.letsOK
  | .pruneArray c => c.letsOK
  | .pruneArrayCurrent => True
  | .selectArray c fs => c.letsOK ∧ letsOKList fs
  | .selectArrayCurrent fs => letsOKList fs
  | .selectArraySingle c f => c.letsOK ∧ f.letsOK
  | .selectArraySingleCurrent f => f.letsOK
  | .selectObject c fs => c.letsOK ∧ letsOKFields fs
  | .selectObjectCurrent fs => letsOKFields fs
  | .selectObjectSingle c _ f => c.letsOK ∧ f.letsOK
  | .selectObjectSingleCurrent _ f => f.letsOK
  | .slice c _ _ => c.letsOK
  | .sliceCurrent _ _ => True
  | .sliceStep c _ _ _ => c.letsOK
  | .sliceStepCurrent _ _ _ => True
  | .groupBy a e => a.letsOK ∧ e.letsOK
  | .map e a => e.letsOK ∧ a.letsOK
  | .maxBy a e => a.letsOK ∧ e.letsOK
  | .minBy a e => a.letsOK ∧ e.letsOK
  | .sortBy a e => a.letsOK ∧ e.letsOK
  | .merge args => letsOKList args
  | .notNull args => letsOKList args
  | .zip args => letsOKList args
def letsOKList : List INode → Prop
  | [] => True
  | n :: ns => n.letsOK ∧ letsOKList ns
def letsOKFields : List (Bytes × INode) → Prop
  | [] => True
  | (_, n) :: rest => n.letsOK ∧ letsOKFields rest
end

theorem list_snoc_ind {α} {P : List α → Prop} (nil : P []) (snoc : ∀ l a, P l → P (l ++ [a])) : ∀ l, P l := by
  intro l
  rw [← List.reverse_reverse l]
  induction l.reverse with
  | nil => exact nil
  | cons a r ih => rw [List.reverse_cons]; exact snoc _ _ ih

/-- first-match lookup in a member list -/
def assocLookup (k : Bytes) : List (Bytes × INode) → Option INode
  | [] => none
  | (k', v) :: rest => if k = k' then some v else assocLookup k rest

theorem assocLookup_assocInsert (x k : Bytes) (v : INode) : ∀ l : List (Bytes × INode),
    assocLookup x (assocInsert k v l) = if x = k then some v else assocLookup x l
  | [] => by simp [assocInsert, assocLookup]
  | (k', v') :: rest => by
    simp only [assocInsert]
    by_cases h1 : k = k'
    · subst h1
      simp only [if_true, assocLookup]
      split <;> rfl
    · simp only [h1, if_false]
      by_cases h2 : bytesLt k k' = true
      · simp only [h2, if_true, assocLookup]
      · rw [if_neg h2]
        simp only [assocLookup, assocLookup_assocInsert x k v rest]
        by_cases h3 : x = k
        · subst h3
          simp [h1]
        · simp [h3]

/-- **the last binding of a name wins**: looking a name up in the member list the parser builds = looking it up in the
    source list read backwards -/
theorem assocLookup_assocOf (x : Bytes) (ps : List (Bytes × INode)) :
    assocLookup x (assocOf ps) = assocLookup x ps.reverse := by
  induction ps using list_snoc_ind with
  | nil => rfl
  | snoc ps p ih =>
    obtain ⟨k, v⟩ := p
    rw [GrammarF0.assocOf_snoc, assocLookup_assocInsert, List.reverse_append, ih]
    simp only [List.reverse_cons, List.reverse_nil, List.nil_append, List.cons_append, assocLookup]

/-- strictly sorted by key -/
def SortedKeys (l : List (Bytes × INode)) : Prop := l.Pairwise (fun a b => bytesLt a.1 b.1 = true)

example : assocLookup [0x78] (assocOf [([0x78], .current), ([0x79], .root), ([0x78], .field [])]) = some (.field []) := by
  rw [assocLookup_assocOf]; simp [assocLookup]

theorem mem_assocInsert {p : Bytes × INode} {k : Bytes} {v : INode} : ∀ {l : List (Bytes × INode)},
    p ∈ assocInsert k v l → p = (k, v) ∨ p ∈ l
  | [], h => by simp [assocInsert] at h; exact Or.inl h
  | (k', v') :: rest, h => by
    simp only [assocInsert] at h
    split at h
    · simp only [List.mem_cons] at h ⊢
      rcases h with h | h
      · exact Or.inl h
      · exact Or.inr (Or.inr h)
    · split at h
      · simp only [List.mem_cons] at h ⊢
        exact h
      · simp only [List.mem_cons] at h ⊢
        rcases h with h | h
        · exact Or.inr (Or.inl h)
        · rcases mem_assocInsert h with h | h
          · exact Or.inl h
          · exact Or.inr (Or.inr h)

theorem SortedKeys_assocInsert (k : Bytes) (v : INode) : ∀ {l : List (Bytes × INode)},
    SortedKeys l → SortedKeys (assocInsert k v l)
  | [], _ => by simp [assocInsert, SortedKeys]
  | (k', v') :: rest, h => by
    unfold SortedKeys at h ⊢
    rw [List.pairwise_cons] at h
    simp only [assocInsert]
    by_cases h1 : k = k'
    · subst h1
      simp only [if_true]
      exact List.pairwise_cons.mpr ⟨h.1, h.2⟩
    · simp only [h1, if_false]
      by_cases h2 : bytesLt k k' = true
      · simp only [h2, if_true]
        refine List.pairwise_cons.mpr ⟨?_, List.pairwise_cons.mpr h⟩
        intro p hp
        rcases List.mem_cons.mp hp with hp | hp
        · subst hp; exact h2
        · exact bytesLt_trans h2 (h.1 p hp)
      · simp only [h2]
        refine List.pairwise_cons.mpr ⟨?_, SortedKeys_assocInsert k v h.2⟩
        intro p hp
        rcases mem_assocInsert hp with hp | hp
        · subst hp
          rcases bytesLt_total k k' with h3 | h3 | h3
          · exact absurd h3 h2
          · exact absurd h3 h1
          · exact h3
        · exact h.1 p hp

theorem SortedKeys_assocOf (ps : List (Bytes × INode)) : SortedKeys (assocOf ps) := by
  induction ps using list_snoc_ind with
  | nil => exact List.Pairwise.nil
  | snoc ps p ih =>
    obtain ⟨k, v⟩ := p
    rw [GrammarF0.assocOf_snoc]
    exact SortedKeys_assocInsert k v ih

theorem SortedKeys.nodup {l : List (Bytes × INode)} (h : SortedKeys l) : (l.map Prod.fst).Nodup := by
  unfold SortedKeys at h
  rw [List.Nodup, List.pairwise_map]
  refine h.imp ?_
  intro a b hab heq
  rw [heq, bytesLt_irrefl] at hab
  cases hab

/-- the member list of a `let` (or of a multi-select hash) that the parser builds has pairwise distinct names -/
theorem assocOf_nodup (ps : List (Bytes × INode)) : ((assocOf ps).map Prod.fst).Nodup :=
  (SortedKeys_assocOf ps).nodup

example : ((assocOf [([0x78], .current), ([0x79], .root), ([0x78], .field [])]).map Prod.fst).Nodup := assocOf_nodup _

theorem letsOKFields_iff : ∀ (l : List (Bytes × INode)), letsOKFields l ↔ ∀ p ∈ l, p.2.letsOK
  | [] => by simp [letsOKFields]
  | (k, v) :: rest => by simp [letsOKFields, letsOKFields_iff rest]

theorem letsOKList_iff : ∀ (l : List INode), letsOKList l ↔ ∀ p ∈ l, p.letsOK
  | [] => by simp [letsOKList]
  | v :: rest => by simp [letsOKList, letsOKList_iff rest]

theorem letsOKFields_assocInsert {k : Bytes} {v : INode} {l : List (Bytes × INode)} (hv : v.letsOK)
    (hl : letsOKFields l) : letsOKFields (assocInsert k v l) := by
  rw [letsOKFields_iff] at hl ⊢
  intro p hp
  rcases mem_assocInsert hp with rfl | hp
  · exact hv
  · exact hl p hp

theorem letsOKFields_assocOf {ps : List (Bytes × INode)} (h : letsOKFields ps) : letsOKFields (assocOf ps) := by
  induction ps using list_snoc_ind with
  | nil => trivial
  | snoc ps p ih =>
    obtain ⟨k, v⟩ := p
    rw [GrammarF0.assocOf_snoc]
    rw [letsOKFields_iff] at h
    exact letsOKFields_assocInsert (h (k, v) (by simp))
      (ih ((letsOKFields_iff ps).mpr (fun q hq => h q (by simp [hq]))))

/-! ### every node the parser builds has duplicate-free lets -/

theorem optNode_ok {l : PTree} {n : INode} (h : n.letsOK) : ∀ c, optNode l n = some c → c.letsOK := by
  intro c hc
  simp only [optNode] at hc
  split at hc
  · cases hc
  · cases hc; exact h

theorem subNode_ok {o : Option INode} {r : INode} (ho : ∀ c, o = some c → c.letsOK) (hr : r.letsOK) :
    (subNode o r).letsOK := by
  cases o with
  | none => exact hr
  | some c => exact ⟨ho c rfl, hr⟩

theorem listNode_ok {o : Option INode} {fs : List INode} (ho : ∀ c, o = some c → c.letsOK) (hf : letsOKList fs) :
    (listNode o fs).letsOK := by
  unfold listNode
  split
  · simp only [letsOKList] at hf; exact hf.1
  · simp only [letsOKList] at hf; exact ⟨ho _ rfl, hf.1⟩
  · exact hf
  · exact ⟨ho _ rfl, hf⟩

theorem hashNode_ok {o : Option INode} {ps : List (Bytes × INode)} (ho : ∀ c, o = some c → c.letsOK)
    (hf : letsOKFields ps) : (hashNode o ps).letsOK := by
  unfold hashNode
  split
  · simp only [letsOKFields] at hf; exact hf.1
  · simp only [letsOKFields] at hf; exact ⟨ho _ rfl, hf.1⟩
  · exact letsOKFields_assocOf hf
  · exact ⟨ho _ rfl, letsOKFields_assocOf hf⟩

theorem indexNode_ok {o : Option INode} (i : Int) (ho : ∀ c, o = some c → c.letsOK) : (indexNode o i).letsOK := by
  unfold indexNode
  split
  · split <;> trivial
  · simp only [INode.letsOK]; exact ho _ rfl

theorem sliceNode_ok {o : Option INode} (a b c : Option Int) (ho : ∀ c, o = some c → c.letsOK) :
    (sliceNode o a b c).letsOK := by
  unfold sliceNode
  dsimp only
  split <;> split <;> simp only [INode.letsOK] <;> exact ho _ rfl

theorem starNode_ok {o1 o2 : Option INode} (h1 : ∀ c, o1 = some c → c.letsOK) (h2 : ∀ c, o2 = some c → c.letsOK) :
    (starNode o1 o2).letsOK := by
  unfold starNode
  split <;> simp only [INode.letsOK] <;> first | exact h1 _ rfl | exact h2 _ rfl | exact ⟨h1 _ rfl, h2 _ rfl⟩

theorem ostarNode_ok {o1 o2 : Option INode} (h1 : ∀ c, o1 = some c → c.letsOK) (h2 : ∀ c, o2 = some c → c.letsOK) :
    (ostarNode o1 o2).letsOK := by
  unfold ostarNode
  split <;> simp only [INode.letsOK] <;> first | exact h1 _ rfl | exact h2 _ rfl | exact ⟨h1 _ rfl, h2 _ rfl⟩

theorem flatNode_ok {o1 o2 : Option INode} (h1 : ∀ c, o1 = some c → c.letsOK) (h2 : ∀ c, o2 = some c → c.letsOK) :
    (flatNode o1 o2).letsOK := by
  unfold flatNode
  split <;> simp only [INode.letsOK] <;> first | exact h1 _ rfl | exact h2 _ rfl | exact ⟨h1 _ rfl, h2 _ rfl⟩

theorem filtNode_ok {o1 o2 : Option INode} {f : INode} (h1 : ∀ c, o1 = some c → c.letsOK) (hf : f.letsOK)
    (h2 : ∀ c, o2 = some c → c.letsOK) : (filtNode o1 f o2).letsOK := by
  unfold filtNode
  split <;> simp only [INode.letsOK] <;>
    first | exact hf | exact ⟨hf, h2 _ rfl⟩ | exact ⟨h1 _ rfl, hf⟩ | exact ⟨h1 _ rfl, hf, h2 _ rfl⟩

theorem binNode_ok (ty : TokenType) {a b : INode} (ha : a.letsOK) (hb : b.letsOK) : (binNode ty a b).letsOK := by
  cases ty <;> first | exact ⟨ha, hb⟩ | exact ha

/-- every builtin's node constructor keeps the property -/
def SpecLets : ArgSpec → Prop
  | .fixed _ _ mk => ∀ args, letsOKList args → (mk args).letsOK
  | .varArg mk => ∀ args, letsOKList args → (mk args).letsOK
  | .expArg mk => ∀ a b, a.letsOK → b.letsOK → (mk a b).letsOK
  | .mapArg mk => ∀ a b, a.letsOK → b.letsOK → (mk a b).letsOK

theorem builtin_lets : ∀ e ∈ builtinTable, SpecLets e.2 := by
  simp only [builtinTable, List.forall_mem_cons]
  repeat' apply And.intro
  all_goals first
    | (intro args h; exact h)
    | (intro args h; show INode.letsOK (if _ then _ else _); split <;> exact h)
    | (intro args h; show INode.letsOK (match _ with | 2 => _ | 3 => _ | _ => _); split <;> exact h)
    | (intro a b ha hb; exact ⟨ha, hb⟩)
    | (intro x hx; cases hx)

theorem callNode_ok {spec : ArgSpec} (h : SpecLets spec) {ns : List INode} (hn : letsOKList ns) :
    (callNode spec ns).letsOK := by
  cases spec with
  | fixed mn mx mk => exact h ns hn
  | varArg mk => exact h ns hn
  | expArg mk =>
    unfold callNode
    split <;> first | trivial | skip
    all_goals simp_all [SpecLets, letsOKList]
  | mapArg mk =>
    unfold callNode
    split <;> first | trivial | skip
    all_goals simp_all [SpecLets, letsOKList]

theorem eraseL_ok : ∀ (es : List PTree), (∀ e ∈ es, (erase e).letsOK) → letsOKList (eraseL es)
  | [], _ => trivial
  | e :: es, h => ⟨h e (by simp), eraseL_ok es (fun x hx => h x (by simp [hx]))⟩

theorem eraseKVs_ok (key : Token → Bytes) : ∀ (kvs : List (Token × PTree)), (∀ kv ∈ kvs, (erase kv.2).letsOK) →
    letsOKFields (eraseKVs key kvs)
  | [], _ => trivial
  | (k, e) :: kvs, h => ⟨h (k, e) (by simp), eraseKVs_ok key kvs (fun x hx => h x (by simp [hx]))⟩

/-- **the node of any parse tree has duplicate-free lets** -/
theorem erase_letsOK : ∀ t : PTree, (erase t).letsOK := by
  apply GrammarF0.PTree.ind
  case h_icur => trivial
  case h_atom =>
    intro t
    simp only [erase, atomNode]
    split <;> try trivial
    · cases parseQuotedIdentifier t.value <;> trivial
    · cases parseJSONLiteral t.value <;> trivial
  case h_paren => intro t ih; exact ih
  case h_not => intro t ih; exact ih
  case h_neg => intro _ t ih; exact ih
  case h_pos => intro t ih; exact ih
  case h_bin => intro op l r ihl ihr; exact binNode_ok _ ihl ihr
  case h_dotId => intro l r ihl ihr; exact subNode_ok (optNode_ok ihl) ihr
  case h_dotList => intro l es ihl ihes; exact listNode_ok (optNode_ok ihl) (eraseL_ok es ihes)
  case h_dotHash => intro l kvs ihl ih; exact hashNode_ok (optNode_ok ihl) (eraseKVs_ok _ kvs ih)
  case h_dotStarList => intro l ihl; exact listNode_ok (optNode_ok ihl) ⟨trivial, trivial⟩
  case h_index => intro l n ihl; exact indexNode_ok _ (optNode_ok ihl)
  case h_call =>
    intro name args ih
    simp only [erase]
    cases hb : lookupBuiltin name.value with
    | none => trivial
    | some spec =>
      simp only [lookupBuiltin, Option.map_eq_some_iff] at hb
      obtain ⟨e, he, rfl⟩ := hb
      exact callNode_ok (builtin_lets e (List.mem_of_find?_eq_some he)) (eraseL_ok args ih)
  case h_ref => intro t ih; exact ih
  case h_letIn =>
    intro bs body ihb ih
    exact ⟨assocOf_nodup _, letsOKFields_assocOf (eraseKVs_ok _ bs ihb), ih⟩
  case h_multiList => intro es ih; exact listNode_ok (fun _ h => by cases h) (eraseL_ok es ih)
  case h_multiHash => intro kvs ih; exact hashNode_ok (fun _ h => by cases h) (eraseKVs_ok _ kvs ih)
  case h_star => intro l rhs ihl ihr; exact starNode_ok (optNode_ok ihl) (optNode_ok ihr)
  case h_ostar => intro l rhs ihl ihr; exact ostarNode_ok (optNode_ok ihl) (optNode_ok ihr)
  case h_flat => intro l rhs ihl ihr; exact flatNode_ok (optNode_ok ihl) (optNode_ok ihr)
  case h_filt => intro l c rhs ihl ihc ihr; exact filtNode_ok (optNode_ok ihl) ihc (optNode_ok ihr)
  case h_slice =>
    intro l a b c rhs ihl ihr
    refine ⟨sliceNode_ok _ _ _ (optNode_ok ihl), ?_⟩
    cases ho : optNode rhs (erase rhs) with
    | none => trivial
    | some r => exact optNode_ok ihr r ho


/-- `let $x = a in $x | b`: the tree starts with `let`, so it is a `letIn` -/
example : ∃ bs body, Ex.e13 = .letIn bs body := head_let false Ex.e13 (by decide) (by decide)
example : (erase Ex.e13).letsOK := erase_letsOK _

end Jmes
