/-
  Helper lemmas for C20C / C13C: the order of the rationals `m · 10^e` on pairs `(m, e)`, extended rationals (with the
  two infinities a Go `float64` or a `decimal128.Decimal` can hold), and the value every kind of Go number denotes.
-/
import Jmes.Properties.C20B
import Jmes.Proofs.Order
namespace Jmes.C20C
open Jmes.Dec Jmes.C05 Jmes.C20 Jmes.C20B

/-! ## 1. The order of the rationals `m · 10^e` -/

/-- `m1 · 10^e1 ≤ m2 · 10^e2`, stated over the integers: both sides written at the smaller exponent -/
def ratLe (p q : Int × Int) : Prop :=
  p.1 * (10 : Int) ^ (p.2 - min p.2 q.2).toNat ≤ q.1 * (10 : Int) ^ (q.2 - min p.2 q.2).toNat

/-- `m1 · 10^e1 < m2 · 10^e2` -/
def ratLt (p q : Int × Int) : Prop :=
  p.1 * (10 : Int) ^ (p.2 - min p.2 q.2).toNat < q.1 * (10 : Int) ^ (q.2 - min p.2 q.2).toNat

instance (p q : Int × Int) : Decidable (ratLe p q) := by unfold ratLe; exact inferInstance
instance (p q : Int × Int) : Decidable (ratLt p q) := by unfold ratLt; exact inferInstance

theorem ratLt_iff_not_le (p q : Int × Int) : ratLt p q ↔ ¬ ratLe q p := by
  unfold ratLt ratLe
  rw [Int.min_comm q.2 p.2]
  omega

/-- `Cmp` on two finite decimals is the three-way comparison of the rationals they denote -/
theorem cmpFin_decRat (n1 : Bool) (c1 : Nat) (e1 : Int) (n2 : Bool) (c2 : Nat) (e2 : Int) :
    cmpFin n1 c1 e1 n2 c2 e2 =
      if ratLt (decRat (.fin n1 c1 e1)) (decRat (.fin n2 c2 e2)) then -1
      else if RatEq (decRat (.fin n1 c1 e1)) (decRat (.fin n2 c2 e2)) then 0 else 1 := by
  unfold cmpFin
  simp only [ratLt, RatEq, decRat, pow10, natCast_mul_pow]
  cases n1 <;> cases n2 <;> simp [Int.neg_mul]

theorem cmpFin_le_iff (n1 : Bool) (c1 : Nat) (e1 : Int) (n2 : Bool) (c2 : Nat) (e2 : Int) :
    cmpFin n1 c1 e1 n2 c2 e2 ≤ 0 ↔ ratLe (decRat (.fin n1 c1 e1)) (decRat (.fin n2 c2 e2)) := by
  rw [cmpFin_decRat]
  generalize decRat (.fin n1 c1 e1) = p
  generalize decRat (.fin n2 c2 e2) = q
  by_cases h1 : ratLt p q
  · simp only [h1, if_true]; unfold ratLt at h1; unfold ratLe; omega
  · by_cases h2 : RatEq p q
    · simp only [h1, h2, if_true, if_false]; unfold RatEq at h2; unfold ratLe; omega
    · simp only [h1, h2, if_false]; unfold ratLt at h1; unfold RatEq at h2; unfold ratLe; omega

/-! ## 2. Extended rationals -/

/-- a rational `m · 10^e` (as the pair `(m, e)`) or one of the two infinities -/
inductive XRat where
  | fin (p : Int × Int)
  | inf (neg : Bool)
  deriving DecidableEq, Repr

namespace XRat

/-- normal form: the pair in the normal form of `C20B.ratNorm` -/
def norm : XRat → XRat
  | .fin p => .fin (ratNorm p)
  | .inf n => .inf n

/-- the order: `-∞ ≤` everything `≤ +∞`, rationals by value -/
def le : XRat → XRat → Prop
  | .inf true, _ => True
  | .inf false, .inf false => True
  | .inf false, _ => False
  | .fin _, .inf n => n = false
  | .fin p, .fin q => ratLe p q

def lt (x y : XRat) : Prop := ¬ le y x

instance (x y : XRat) : Decidable (le x y) := by
  cases x with
  | fin p => cases y <;> (unfold le; exact inferInstance)
  | inf n => cases n <;> cases y with
    | fin q => unfold le; exact inferInstance
    | inf m => cases m <;> (unfold le; exact inferInstance)
instance (x y : XRat) : Decidable (lt x y) := by unfold lt; exact inferInstance

/-- the decimal with that value (for the proofs: the order of `Dec` is transported along it) -/
def toDec : XRat → Dec
  | .fin p => .fin (decide (p.1 < 0)) p.1.natAbs p.2
  | .inf n => .inf n

theorem toDec_ne_nan (x : XRat) : x.toDec ≠ .nan := by cases x <;> simp [toDec]

theorem decRat_toDec (p : Int × Int) : decRat (toDec (.fin p)) = p := decRat_ofPair p.1 p.2

/-- `Compare ≤ 0` on the decimals is the order of the values -/
theorem compare_toDec_le (x y : XRat) : Dec.compare x.toDec y.toDec ≤ 0 ↔ le x y := by
  cases x with
  | fin p =>
    cases y with
    | fin q =>
      show cmpFin _ _ _ _ _ _ ≤ 0 ↔ ratLe p q
      rw [cmpFin_le_iff, decRat_ofPair, decRat_ofPair]
    | inf m => cases m <;> simp [toDec, Dec.compare, Dec.cmp, le]
  | inf n =>
    cases y with
    | fin q => cases n <;> simp [toDec, Dec.compare, Dec.cmp, le]
    | inf m => cases n <;> cases m <;> simp [toDec, Dec.compare, Dec.cmp, le]

/-- `Cmp = 0` on the decimals is equality of the normal forms -/
theorem cmp_toDec_zero (x y : XRat) : Dec.cmp x.toDec y.toDec = some 0 ↔ x.norm = y.norm := by
  cases x with
  | fin p =>
    cases y with
    | fin q =>
      show Dec.cmp (.fin _ _ _) (.fin _ _ _) = some 0 ↔ _
      rw [cmp_zero_iff_ratNorm, decRat_ofPair, decRat_ofPair]
      simp [norm]
    | inf m => cases m <;> simp [toDec, Dec.cmp, norm]
  | inf n =>
    cases y with
    | fin q => cases n <;> simp [toDec, Dec.cmp, norm]
    | inf m => cases n <;> cases m <;> simp [toDec, Dec.cmp, norm]

end XRat

/-! ## 3. `Compare` respects `Cmp = 0` -/

theorem compare_of_cmp_zero {a b : Dec} (h : Dec.cmp a b = some 0) : Dec.compare a b = 0 := by
  cases a with
  | nan => rw [cmp_nan_left] at h; cases h
  | inf n => cases b with
    | nan => rw [cmp_nan_right] at h; cases h
    | inf m => simpa [Dec.compare] using congrArg (·.getD 0) h
    | fin m c e => simpa [Dec.compare] using congrArg (·.getD 0) h
  | fin n c e => cases b with
    | nan => rw [cmp_nan_right] at h; cases h
    | inf m => simpa [Dec.compare] using congrArg (·.getD 0) h
    | fin m c' e' => simpa [Dec.compare] using congrArg (·.getD 0) h

theorem ne_nan_of_cmp {a b : Dec} (h : Dec.cmp a b = some 0) : a ≠ .nan ∧ b ≠ .nan := by
  constructor
  · rintro rfl; rw [cmp_nan_left] at h; cases h
  · rintro rfl; rw [cmp_nan_right] at h; cases h

theorem key_eq_of_cmp_zero {a a' : Dec} (h : Dec.cmp a a' = some 0) (m : Int) (ha : m ≤ expo a) (ha' : m ≤ expo a') :
    key m a = key m a' := by
  have hc := compare_of_cmp_zero h
  rw [compare_eq_key a a' m ha ha'] at hc
  revert hc
  unfold lexcmp
  generalize key m a = p
  generalize key m a' = q
  intro hc
  apply Prod.ext
  · split at hc <;> (try split at hc) <;> omega
  · split at hc <;> (try split at hc) <;> (try split at hc) <;> (try split at hc) <;> omega

/-- decimals that compare equal are interchangeable in `Compare` -/
theorem compare_congr {a a' b b' : Dec} (ha : Dec.cmp a a' = some 0) (hb : Dec.cmp b b' = some 0) :
    Dec.compare a b = Dec.compare a' b' := by
  have hm1 : min (min (expo a) (expo a')) (min (expo b) (expo b')) ≤ expo a := by omega
  have hm2 : min (min (expo a) (expo a')) (min (expo b) (expo b')) ≤ expo a' := by omega
  have hm3 : min (min (expo a) (expo a')) (min (expo b) (expo b')) ≤ expo b := by omega
  have hm4 : min (min (expo a) (expo a')) (min (expo b) (expo b')) ≤ expo b' := by omega
  rw [compare_eq_key a b _ hm1 hm3, compare_eq_key a' b' _ hm2 hm4,
    key_eq_of_cmp_zero ha _ hm1 hm2, key_eq_of_cmp_zero hb _ hm3 hm4]

/-- `Cmp = 0` is `Compare = 0` away from NaN -/
theorem cmp_zero_iff_compare {a b : Dec} (ha : a ≠ .nan) (hb : b ≠ .nan) :
    Dec.cmp a b = some 0 ↔ Dec.compare a b = 0 := by
  cases a with
  | nan => exact absurd rfl ha
  | inf n => cases b with
    | nan => exact absurd rfl hb
    | inf m => simp [Dec.compare, Dec.cmp]
    | fin m c e => simp [Dec.compare, Dec.cmp]
  | fin n c e => cases b with
    | nan => exact absurd rfl hb
    | inf m => simp [Dec.compare, Dec.cmp]
    | fin m c' e' => simp [Dec.compare, Dec.cmp]

/-! ## 4. "The decimal `d` has the value `x`" -/

/-- `d` is not NaN and compares equal to the decimal written from `x` -/
def Den (d : Dec) (x : XRat) : Prop := Dec.cmp d x.toDec = some 0

theorem Den.ne_nan {d : Dec} {x : XRat} (h : Den d x) : d ≠ .nan := (ne_nan_of_cmp h).1

theorem den_fin (n : Bool) (c : Nat) (e : Int) : Den (.fin n c e) (.fin (decRat (.fin n c e))) := by
  show Dec.cmp (.fin n c e) (.fin _ _ _) = some 0
  exact decRat_eq_cmp (by rw [decRat_ofPair])

theorem den_inf (n : Bool) : Den (.inf n) (.inf n) := by simp [Den, XRat.toDec, Dec.cmp]

/-- a finite decimal whose pair has the normal form of `p` has the value `p` -/
theorem den_of_ratNorm {n : Bool} {c : Nat} {e : Int} {p : Int × Int}
    (h : ratNorm (decRat (.fin n c e)) = ratNorm p) : Den (.fin n c e) (.fin p) := by
  show Dec.cmp (.fin n c e) (.fin _ _ _) = some 0
  rw [cmp_zero_iff_ratNorm, decRat_ofPair]
  exact h

theorem den_normalize {n : Bool} {c : Nat} {e : Int} {p : Int × Int}
    (h : ratNorm (decRat (.fin n c e)) = ratNorm p) : Den (normalize (.fin n c e)) (.fin p) :=
  cmp_zero_trans (cmp_normalize_self n c e) (den_of_ratNorm h)

theorem den_equal {d1 d2 : Dec} {x1 x2 : XRat} (h1 : Den d1 x1) (h2 : Den d2 x2) :
    Dec.cmp d1 d2 = some 0 ↔ x1.norm = x2.norm := by
  rw [← XRat.cmp_toDec_zero]
  constructor
  · intro h; exact cmp_zero_trans (cmp_zero_symm h1) (cmp_zero_trans h h2)
  · intro h; exact cmp_zero_trans h1 (cmp_zero_trans h (cmp_zero_symm h2))

theorem den_compare_le {d1 d2 : Dec} {x1 x2 : XRat} (h1 : Den d1 x1) (h2 : Den d2 x2) :
    Dec.compare d1 d2 ≤ 0 ↔ XRat.le x1 x2 := by
  rw [compare_congr h1 h2, XRat.compare_toDec_le]

theorem den_compare_lt {d1 d2 : Dec} {x1 x2 : XRat} (h1 : Den d1 x1) (h2 : Den d2 x2) :
    Dec.compare d1 d2 = -1 ↔ XRat.lt x1 x2 := by
  unfold XRat.lt
  rw [← den_compare_le h2 h1, Dec.compare_antisymm d1 d2]
  rcases Dec.compare_range d1 d2 with h | h | h <;> omega

theorem den_compare_gt {d1 d2 : Dec} {x1 x2 : XRat} (h1 : Den d1 x1) (h2 : Den d2 x2) :
    Dec.compare d1 d2 = 1 ↔ XRat.lt x2 x1 := by
  unfold XRat.lt
  rw [← den_compare_le h1 h2]
  rcases Dec.compare_range d1 d2 with h | h | h <;> omega

theorem isNaN_false {d : Dec} (h : d ≠ .nan) : d.isNaN = false := by cases d <;> simp_all [Dec.isNaN]

theorem den_less {d1 d2 : Dec} {x1 x2 : XRat} (h1 : Den d1 x1) (h2 : Den d2 x2) :
    Dec.less d1 d2 = decide (XRat.lt x1 x2) := by
  rw [Bool.eq_iff_iff, Dec.less_iff, decide_eq_true_iff, ← den_compare_lt h1 h2]
  simp [isNaN_false h1.ne_nan, isNaN_false h2.ne_nan]

theorem den_greater {d1 d2 : Dec} {x1 x2 : XRat} (h1 : Den d1 x1) (h2 : Den d2 x2) :
    Dec.greater d1 d2 = decide (XRat.lt x2 x1) := by
  rw [Bool.eq_iff_iff, Dec.greater_iff, decide_eq_true_iff, ← den_compare_gt h1 h2]
  simp [isNaN_false h1.ne_nan, isNaN_false h2.ne_nan]

theorem den_dec_equal {d1 d2 : Dec} {x1 x2 : XRat} (h1 : Den d1 x1) (h2 : Den d2 x2) :
    Dec.equal d1 d2 = decide (x1.norm = x2.norm) := by
  rw [Bool.eq_iff_iff, Dec.equal_iff, decide_eq_true_iff, den_equal h1 h2]

/-- equal normal forms: each is `≤` the other -/
theorem norm_eq_iff_le_le (x y : XRat) : x.norm = y.norm ↔ (XRat.le x y ∧ XRat.le y x) := by
  rw [← XRat.cmp_toDec_zero, cmp_zero_iff_compare x.toDec_ne_nan y.toDec_ne_nan,
    ← XRat.compare_toDec_le, ← XRat.compare_toDec_le, Dec.compare_antisymm x.toDec y.toDec]
  omega

theorem le_iff_lt_or_eq (x y : XRat) : XRat.le x y ↔ (XRat.lt x y ∨ x.norm = y.norm) := by
  unfold XRat.lt
  rw [norm_eq_iff_le_le, ← XRat.compare_toDec_le, ← XRat.compare_toDec_le, Dec.compare_antisymm x.toDec y.toDec]
  omega

theorem den_lessEq {d1 d2 : Dec} {x1 x2 : XRat} (h1 : Den d1 x1) (h2 : Den d2 x2) :
    Dec.lessEq d1 d2 = decide (XRat.le x1 x2) := by
  unfold Dec.lessEq
  rw [den_less h1 h2, den_dec_equal h1 h2, Bool.eq_iff_iff]
  simp only [Bool.or_eq_true, decide_eq_true_iff]
  exact (le_iff_lt_or_eq x1 x2).symm

theorem den_greaterEq {d1 d2 : Dec} {x1 x2 : XRat} (h1 : Den d1 x1) (h2 : Den d2 x2) :
    Dec.greaterEq d1 d2 = decide (XRat.le x2 x1) := by
  unfold Dec.greaterEq
  rw [den_greater h1 h2, den_dec_equal h1 h2, Bool.eq_iff_iff]
  simp only [Bool.or_eq_true, decide_eq_true_iff]
  rw [le_iff_lt_or_eq x2 x1]
  constructor
  · rintro (h | h)
    · exact .inl h
    · exact .inr h.symm
  · rintro (h | h)
    · exact .inl h
    · exact .inr h.symm

/-! ## 5. The value of a Go `float64` -/

/-- a finite value `±m · 2^x` that a `float64` (or `float32`) can hold: 53 bits, exponent of the last bit in
    `[-1074, 971]` -/
def F64Real : F64 → Prop
  | .fin _ m x => m < 2 ^ 53 ∧ -1074 ≤ x ∧ x ≤ 971
  | _ => True

instance (f : F64) : Decidable (F64Real f) := by cases f <;> (unfold F64Real; exact inferInstance)

/-- **the exact decimal expansion of `±m · 2^x`**: `m · 2^x · 10^0` for `x ≥ 0`, and `m · 5^(-x) · 10^x` for `x < 0`
    (`2^x = 5^(-x) · 10^x`) -/
def floatRat (neg : Bool) (m : Nat) (x : Int) : Int × Int :=
  if x ≥ 0 then (if neg then -((m * 2 ^ x.toNat : Nat) : Int) else ((m * 2 ^ x.toNat : Nat) : Int), 0)
  else (if neg then -((m * 5 ^ (-x).toNat : Nat) : Int) else ((m * 5 ^ (-x).toNat : Nat) : Int), x)

theorem ndrop_le {V N : Nat} (h : V < 10 ^ N) : ndrop V ≤ N := by
  by_cases h0 : ndrop V = 0
  · omega
  · have h1 := (ndrop_spec V).2 (by omega)
    have h2 : 0 < V / 10 ^ (ndrop V - 1) := by omega
    have h3 : 10 ^ (ndrop V - 1) ≤ V := by
      have hp : 0 < 10 ^ (ndrop V - 1) := Nat.pow_pos (by decide)
      have := (Nat.le_div_iff_mul_le hp).mp h2
      omega
    have h4 : 10 ^ (ndrop V - 1) < 10 ^ N := by omega
    have := (Nat.pow_lt_pow_iff_right (by decide : 1 < 10)).mp h4
    omega

/-- what `reduce` makes of an exact magnitude `C · 10^E` with `E` in range that cannot overflow: the value
    `round34 (±C, E)` -/
theorem reduce_den (neg : Bool) (C : Nat) (E : Int) (N : Nat) (hlo : EMIN ≤ E) (hC : C < 10 ^ N)
    (hhi : E + N + 1 ≤ EMAX) :
    Den (reduce neg C E false) (.fin (round34 (if neg then -(C : Int) else (C : Int), E))) := by
  by_cases hs : C ≤ MAXSIG
  · rw [Dec.reduce_exact neg C E hs hlo (by omega)]
    apply den_normalize
    rw [round34_small (by cases neg <;> simpa using hs)]
    rfl
  · have hr := (reduce_round neg C E false C 0 0 (by simp) (by simp) (by simp) (by omega) hlo).2
    have hn := ndrop_le hC
    have hno : ¬ (E - ((0 : Nat) : Int) + (ndrop C : Nat) + (if rhe C (ndrop C) ≤ MAXSIG then 0 else 1) > EMAX) := by
      split <;> omega
    rw [hr, if_neg hno]
    apply den_normalize
    rw [round34_signed]
    simp

set_option exponentiation.threshold 2000 in
theorem toDec_real (neg : Bool) (m : Nat) (x : Int) (h : F64Real (.fin neg m x)) :
    Den (F64.toDec (.fin neg m x)) (.fin (round34 (floatRat neg m x))) := by
  obtain ⟨hm, hlo, hhi⟩ := h
  show Den (Dec.ofBinary neg m x) _
  unfold Dec.ofBinary floatRat
  by_cases hm0 : m = 0
  · subst hm0
    simp only [if_true, Nat.zero_mul]
    apply den_of_ratNorm
    have h1 : ∀ e : Int, ratNorm (round34 (if neg then -((0 : Nat) : Int) else ((0 : Nat) : Int), e)) = (0, 0) := by
      intro e
      rw [ratNorm_eq_zero_iff, round34_fst_eq_zero_iff]; cases neg <;> rfl
    have h2 : ratNorm (decRat (.fin neg 0 0)) = (0, 0) := by cases neg <;> decide
    rw [h2]
    split <;> exact (h1 _).symm
  · simp only [hm0, if_false]
    by_cases hx : x ≥ 0
    · simp only [hx, if_true]
      refine reduce_den neg _ 0 309 (by decide) ?_ (by decide)
      have h1 : 2 ^ x.toNat ≤ 2 ^ 971 := Nat.pow_le_pow_right (by decide) (by omega)
      have h2 : m * 2 ^ x.toNat < 2 ^ 53 * 2 ^ 971 := Nat.mul_lt_mul_of_lt_of_le hm h1 (Nat.pow_pos (by decide))
      have h3 : 2 ^ 53 * 2 ^ 971 < 10 ^ 309 := by decide +kernel
      omega
    · simp only [hx, if_false]
      refine reduce_den neg _ x 767 (by simp only [EMIN]; omega) ?_ (by simp only [EMAX]; omega)
      have h1 : 5 ^ (-x).toNat ≤ 5 ^ 1074 := Nat.pow_le_pow_right (by decide) (by omega)
      have h2 : m * 5 ^ (-x).toNat < 2 ^ 53 * 5 ^ 1074 := Nat.mul_lt_mul_of_lt_of_le hm h1 (Nat.pow_pos (by decide))
      have h3 : 2 ^ 53 * 5 ^ 1074 < 10 ^ 767 := by decide +kernel
      omega

/-! ## 6. The value of every kind of Go number -/

/-- the value of a `float64` / `float32`: its exact decimal expansion, rounded half-even to the longest coefficient
    `≤ MAXSIG` (`round34`: the identity when the expansion has at most 34 digits); NaN has no value -/
def f64X : F64 → Option XRat
  | .nan => none
  | .inf n => some (.inf n)
  | .fin n m x => some (.fin (round34 (floatRat n m x)))

/-- **the value of a Go number**, by kind:
    * `json.Number` text: `ratRaw t` (the text read as `digits · 10^exponent`) rounded by `round34`; zero for a text
      too small to be told from zero (`C20B.Tiny`);
    * `decimal128.Decimal`: the stored coefficient and exponent; `±Inf`; none for NaN;
    * the ten integer kinds: `(v, 0)`;
    * `float64`, `float32`: see `f64X`. -/
def numX : Num → Option XRat
  | .jnum t => some (if Tiny t then .fin (0, 0) else .fin (round34 (ratRaw t)))
  | .dec .nan => none
  | .dec (.inf n) => some (.inf n)
  | .dec (.fin n c e) => some (.fin (decRat (.fin n c e)))
  | .int _ v => some (.fin (v, 0))
  | .f64 f => f64X f
  | .f32 f => f64X f

/-- the finite value, as a pair `(mantissa, exponent10)`; `none` for NaN and the infinities -/
def numRat (a : Num) : Option (Int × Int) :=
  match numX a with
  | some (.fin p) => some p
  | _ => none

/-- the side conditions under which the value is established: a `json.Number` text is in the regular range of C20B
    or tiny; a float is one a `float64` can hold -/
def Covered : Num → Prop
  | .jnum t => Regular t ∨ Tiny t
  | .f64 f => F64Real f
  | .f32 f => F64Real f
  | _ => True

instance (a : Num) : Decidable (Covered a) := by cases a <;> (unfold Covered; exact inferInstance)

/-- **`toDecimal` computes that value** -/
theorem numDen {a : Num} (hok : NumOk a) (hc : Covered a) :
    ∃ d x, toDecimal (.num a) = some d ∧ numX a = some x ∧ Den d x := by
  cases a with
  | jnum t =>
    by_cases ht : Tiny t
    · refine ⟨_, .fin (0, 0), toDecimal_tiny ht, by simp [numX, ht], ?_⟩
      apply den_of_ratNorm
      cases (numParts t).neg <;> decide
    · have hr : Regular t := hc.resolve_right ht
      obtain ⟨n, c, e, hd, hp⟩ := toDecimal_regular hr
      exact ⟨_, .fin (round34 (ratRaw t)), hd, by simp [numX, ht], den_normalize (by rw [hp])⟩
  | dec d =>
    cases d with
    | nan => obtain ⟨d, hd, hn⟩ := hok; cases hd; exact absurd rfl hn
    | inf n => exact ⟨_, _, rfl, rfl, den_inf n⟩
    | fin n c e => exact ⟨_, _, rfl, rfl, den_fin n c e⟩
  | int k v =>
    refine ⟨_, _, rfl, rfl, ?_⟩
    rw [ofInt_exact]
    exact cmp_normalize_self _ _ _
  | f64 f =>
    cases f with
    | nan => obtain ⟨d, hd, hn⟩ := hok; cases hd; exact absurd rfl hn
    | inf n => exact ⟨_, _, rfl, rfl, den_inf n⟩
    | fin n m x => exact ⟨_, _, rfl, rfl, toDec_real n m x hc⟩
  | f32 f =>
    cases f with
    | nan => obtain ⟨d, hd, hn⟩ := hok; cases hd; exact absurd rfl hn
    | inf n => exact ⟨_, _, rfl, rfl, den_inf n⟩
    | fin n m x => exact ⟨_, _, rfl, rfl, toDec_real n m x hc⟩

/-! ## 7. `ratLe` is the order of the rationals -/

theorem ratLe_iff_compare (p q : Int × Int) :
    ratLe p q ↔ Dec.compare (XRat.toDec (.fin p)) (XRat.toDec (.fin q)) ≤ 0 :=
  (XRat.compare_toDec_le (.fin p) (.fin q)).symm

theorem sv_ofPair (m e b : Int) : sv (decide (m < 0)) m.natAbs e b = m * (10 : Int) ^ (e - b).toNat := by
  unfold sv pow10
  rw [natCast_mul_pow]
  by_cases h : m < 0
  · have : ((m.natAbs : Nat) : Int) = -m := by omega
    simp [h, this, Int.neg_mul]
  · have : ((m.natAbs : Nat) : Int) = m := by omega
    simp [h, this]

/-- the comparison may be made at any common exponent `b` below both: `m1 · 10^(e1-b) ≤ m2 · 10^(e2-b)` are the two
    numerators over the common denominator `10^(-b)` -/
theorem ratLe_iff_at (p q : Int × Int) (b : Int) (h1 : b ≤ p.2) (h2 : b ≤ q.2) :
    ratLe p q ↔ p.1 * (10 : Int) ^ (p.2 - b).toNat ≤ q.1 * (10 : Int) ^ (q.2 - b).toNat := by
  rw [ratLe_iff_compare]
  show cmpFin _ _ _ _ _ _ ≤ 0 ↔ _
  rw [cmpFin_eq _ _ _ _ _ _ b h1 h2, sv_ofPair, sv_ofPair]
  generalize p.1 * (10 : Int) ^ (p.2 - b).toNat = x
  generalize q.1 * (10 : Int) ^ (q.2 - b).toNat = y
  by_cases h1 : x < y
  · simp only [h1, if_true]; omega
  · by_cases h2 : x = y
    · subst h2; simp
    · simp only [h1, h2, if_false]; omega

theorem ratLe_refl (p : Int × Int) : ratLe p p := by unfold ratLe; exact Int.le_refl _

theorem ratLe_trans {p q r : Int × Int} (h1 : ratLe p q) (h2 : ratLe q r) : ratLe p r := by
  rw [ratLe_iff_compare] at *
  exact Dec.compare_trans h1 h2

theorem ratLe_total (p q : Int × Int) : ratLe p q ∨ ratLe q p := by
  rw [ratLe_iff_compare, ratLe_iff_compare]
  exact Dec.compare_total _ _

/-- antisymmetry: each `≤` the other iff the same rational (same normal form) -/
theorem ratLe_antisymm_iff (p q : Int × Int) : (ratLe p q ∧ ratLe q p) ↔ ratNorm p = ratNorm q := by
  have := norm_eq_iff_le_le (.fin p) (.fin q)
  simp only [XRat.norm, XRat.fin.injEq] at this
  rw [this]
  rfl

theorem ratNorm_idem (p : Int × Int) : ratNorm (ratNorm p) = ratNorm p := by
  obtain ⟨m, e⟩ := p
  rw [← decRat_ofPair m e, ratNorm_decRat]
  obtain ⟨c', e', h⟩ := normalize_fin (decide (m < 0)) m.natAbs e
  rw [h, ratNorm_decRat, ← h, normalize_idem]

/-- the order does not depend on the representative: it is an order on the normal forms -/
theorem ratLe_norm (p q : Int × Int) : ratLe (ratNorm p) (ratNorm q) ↔ ratLe p q := by
  rw [ratLe_iff_compare, ratLe_iff_compare]
  have hp : Dec.cmp (XRat.toDec (.fin (ratNorm p))) (XRat.toDec (.fin p)) = some 0 :=
    (XRat.cmp_toDec_zero _ _).mpr (by simp [XRat.norm, ratNorm_idem])
  have hq : Dec.cmp (XRat.toDec (.fin (ratNorm q))) (XRat.toDec (.fin q)) = some 0 :=
    (XRat.cmp_toDec_zero _ _).mpr (by simp [XRat.norm, ratNorm_idem])
  rw [compare_congr hp hq]

theorem xle_norm (x y : XRat) : XRat.le x.norm y.norm ↔ XRat.le x y := by
  cases x with
  | fin p => cases y with
    | fin q => exact ratLe_norm p q
    | inf m => rfl
  | inf n => cases n <;> cases y with
    | fin q => rfl
    | inf m => cases m <;> rfl

theorem xle_refl (x : XRat) : XRat.le x x := by
  rw [← XRat.compare_toDec_le, Dec.compare_self]; exact Int.le_refl 0

theorem xle_trans {x y z : XRat} (h1 : XRat.le x y) (h2 : XRat.le y z) : XRat.le x z := by
  rw [← XRat.compare_toDec_le] at *
  exact Dec.compare_trans h1 h2

theorem xle_total (x y : XRat) : XRat.le x y ∨ XRat.le y x := by
  rw [← XRat.compare_toDec_le, ← XRat.compare_toDec_le]
  exact Dec.compare_total _ _

end Jmes.C20C
