/-
  C11 (third wave), helper file K: the builtins driven by a key sub-expression — `group_by`, `max_by`, `min_by`,
  `sort_by` — commute with the renaming (`RRV`), given that the key evaluator does (`FnRel f k k'`).
-/
import Jmes.Proofs.C11CLemmas
namespace Jmes.C11C
open Jmes Jmes.Utf8 Jmes.C11 Jmes.C11S Jmes.C11R Jmes.C11V Jmes.Invar

/-! ## keys -/

/-- rename a sort key: string keys are renamed, number keys stay -/
def renKey (f : Nat → Nat) : Key → Key
  | .s b => .s (renB f b)
  | .n d => .n d

/-- a key that can be renamed -/
def RnKey (f : Nat → Nat) : Key → Prop
  | .s b => rnB f b = true
  | .n _ => True

/-- lists of keys -/
abbrev RRK (f : Nat → Nat) (r r' : Res (List Key)) : Prop :=
  RR (fun ks : List Key => ∀ k ∈ ks, RnKey f k) (List.map (renKey f)) r r'

private theorem key_ok {f : Nat → Nat} {a b : Val} (h : RnV f a = true) (e : renV f a = b) :
    RRV f (.ok a) (.ok b) := by
  subst e; exact RR.ok h

private theorem key_single {f : Nat → Nat} {k k' : Val → Res Val} (hk : FnRel f k k') :
    ∀ p ∈ [(k, k')], FnRel f p.1 p.2 := by
  intro p hp
  simp at hp
  subst hp
  exact hk

/-- one key, in string mode or in number mode -/
theorem keyOne_rr {f : Nat → Nat} (isStr : Bool) (rv : Val) : RnV f rv = true →
    RR (RnKey f) (renKey f)
      (if isStr then (match rv with | .str s => (.ok (Key.s s) : Res Key) | _ => errType)
        else (match toDecimal rv with | some d => .ok (Key.n d) | none => errType))
      (if isStr then (match renV f rv with | .str s => (.ok (Key.s s) : Res Key) | _ => errType)
        else (match toDecimal (renV f rv) with | some d => .ok (Key.n d) | none => errType)) := by
  intro hrv
  cases isStr
  · simp only [toDecimal_ren, Bool.false_eq_true, if_false]
    cases toDecimal rv with
    | none => exact RR.errType
    | some d => exact RR.ok (g := renKey f) (a := Key.n d) trivial
  · simp only [if_true]
    cases rv with
    | str s => simp only [renV]; exact RR.ok (g := renKey f) (a := Key.s s) (rn_str.mp hrv)
    | _ => simp only [renV]; exact RR.errType

theorem keysFrom_rr {f : Nat → Nat} {k k' : Val → Res Val} (hk : FnRel f k k') (isStr : Bool) :
    ∀ {xs : List Val}, RnVL f xs = true → RRK f (keysFrom k isStr xs) (keysFrom k' isStr (renVL f xs))
  | [], _ => by
    simp only [renVL, keysFrom]
    exact RR.ok (g := List.map (renKey f)) (a := []) (fun _ h => by cases h)
  | x :: xs, h => by
    have h' := rnVL_cons.mp h
    simp only [renVL, keysFrom]
    refine RR.bind (hk x h'.1) fun rv hrv => ?_
    refine RR.bind (keyOne_rr isStr rv hrv) fun key hkey => ?_
    refine RR.bind (keysFrom_rr hk isStr h'.2) fun rest hrest => ?_
    refine RR.pure (g := List.map (renKey f)) (a := key :: rest) ?_
    intro a ha
    rcases List.mem_cons.1 ha with rfl | ha
    · exact hkey
    · exact hrest a ha

theorem keysOf_rr {f : Nat → Nat} {k k' : Val → Res Val} (hk : FnRel f k k') :
    ∀ {xs : List Val}, RnVL f xs = true → RRK f (keysOf k xs) (keysOf k' (renVL f xs))
  | [], _ => by
    simp only [renVL, keysOf]
    exact RR.ok (g := List.map (renKey f)) (a := []) (fun _ h => by cases h)
  | x :: xs, h => by
    have h' := rnVL_cons.mp h
    simp only [renVL, keysOf]
    refine RR.bind (hk x h'.1) fun first hfirst => ?_
    have num : ∀ v : Val, RRK f
        (match toDecimal v with
          | none => errType
          | some d => do
            let rest ← keysFrom k false xs
            pure (Key.n d :: rest))
        (match toDecimal (renV f v) with
          | none => errType
          | some d => do
            let rest ← keysFrom k' false (renVL f xs)
            pure (Key.n d :: rest)) := by
      intro v
      rw [toDecimal_ren]
      cases toDecimal v with
      | none => exact RR.errType
      | some d =>
        refine RR.bind (keysFrom_rr hk false h'.2) fun rest hrest => ?_
        refine RR.pure (g := List.map (renKey f)) (a := Key.n d :: rest) ?_
        intro a ha
        rcases List.mem_cons.1 ha with rfl | ha
        · trivial
        · exact hrest a ha
    cases first with
    | str s =>
      simp only [renV]
      refine RR.bind (keysFrom_rr hk true h'.2) fun rest hrest => ?_
      refine RR.pure (g := List.map (renKey f)) (a := Key.s s :: rest) ?_
      intro a ha
      rcases List.mem_cons.1 ha with rfl | ha
      · exact rn_str.mp hfirst
      · exact hrest a ha
    | null => simp only [renV]; exact num .null
    | bool b => simp only [renV]; exact num (.bool b)
    | num n => simp only [renV]; exact num (.num n)
    | arr t ys => have := num (.arr t ys); rw [renV_arr] at this; simp only [renV]; exact this
    | obj kvs => have := num (.obj kvs); rw [renV_obj] at this; simp only [renV]; exact this
    | foreign n => simp only [renV]; exact num (.foreign n)

/-! ## comparisons of keys -/

/-- a comparison of keys that does not see the renaming -/
def KeyInv (f : Nat → Nat) (better : Key → Key → Bool) : Prop :=
  ∀ a b, RnKey f a → RnKey f b → better (renKey f a) (renKey f b) = better a b

theorem keyLt_ren {f : Nat → Nat} (hm : Mono f) : KeyInv f Key.lt := by
  intro a b ha hb
  cases a <;> cases b <;> simp only [renKey, Key.lt]
  exact renB_lt hm ha hb

theorem keyGtMax_ren {f : Nat → Nat} (hm : Mono f) : KeyInv f Key.gtMax := by
  intro a b ha hb
  cases a <;> cases b <;> simp only [renKey, Key.gtMax]
  exact renB_lt hm hb ha

theorem keyLtMin_ren {f : Nat → Nat} (hm : Mono f) : KeyInv f Key.ltMin := by
  intro a b ha hb
  cases a <;> cases b <;> simp only [renKey, Key.ltMin]
  exact renB_lt hm ha hb

theorem all_mapKey {f : Nat → Nat} (p q : Key → Bool) : ∀ ks : List Key, (∀ k ∈ ks, q (renKey f k) = p k) →
    (ks.map (renKey f)).all q = ks.all p
  | [], _ => rfl
  | k :: ks, h => by
    simp only [List.map_cons, List.all_cons]
    rw [h k List.mem_cons_self, all_mapKey p q ks (fun y hy => h y (List.mem_cons_of_mem _ hy))]

theorem filter_mapKey {f : Nat → Nat} (p q : Key → Bool) : ∀ ks : List Key, (∀ k ∈ ks, q (renKey f k) = p k) →
    (ks.map (renKey f)).filter q = (ks.filter p).map (renKey f)
  | [], _ => rfl
  | k :: ks, h => by
    have ih := filter_mapKey p q ks (fun y hy => h y (List.mem_cons_of_mem _ hy))
    simp only [List.map_cons, List.filter_cons]
    rw [h k List.mem_cons_self, ih]
    split <;> rfl

theorem uniqueExtremum_ren {f : Nat → Nat} {better : Key → Key → Bool} (hb : KeyInv f better) {ks : List Key}
    (hks : ∀ k ∈ ks, RnKey f k) : uniqueExtremum better (ks.map (renKey f)) = uniqueExtremum better ks := by
  unfold uniqueExtremum
  rw [filter_mapKey (fun k => ks.all (fun k' => !better k' k)) _ ks, List.length_map]
  intro k hk
  apply all_mapKey
  intro k' hk'
  rw [hb k' k (hks k' hk') (hks k hk)]

theorem keysDistinct_ren {f : Nat → Nat} (hm : Mono f) : ∀ {ks : List Key}, (∀ k ∈ ks, RnKey f k) →
    keysDistinct (ks.map (renKey f)) = keysDistinct ks
  | [], _ => rfl
  | k :: ks, h => by
    simp only [List.map_cons, keysDistinct]
    rw [keysDistinct_ren hm (fun y hy => h y (List.mem_cons_of_mem _ hy)),
      all_mapKey (fun k' => Key.lt k k' || Key.lt k' k) _ ks]
    intro k' hk'
    have h1 := h k List.mem_cons_self
    have h2 := h k' (List.mem_cons_of_mem _ hk')
    rw [keyLt_ren hm k k' h1 h2, keyLt_ren hm k' k h2 h1]

/-! ## `max_by` / `min_by` -/

theorem pickBy_ren {f : Nat → Nat} {better : Key → Key → Bool} (hb : KeyInv f better) :
    ∀ (l : List (Val × Key)) (best : Val) (bk : Key), RnKey f bk → (∀ p ∈ l, RnKey f p.2) →
      pickBy better (renV f best) (renKey f bk) (l.map (Prod.map (renV f) (renKey f)))
        = renV f (pickBy better best bk l)
  | [], _, _, _, _ => rfl
  | (v, k) :: rest, best, bk, hbk, hl => by
    have hk : RnKey f k := hl (v, k) List.mem_cons_self
    have hrest : ∀ p ∈ rest, RnKey f p.2 := fun p hp => hl p (List.mem_cons_of_mem _ hp)
    simp only [List.map_cons, Prod.map_apply, pickBy]
    rw [hb k bk hk hbk]
    split
    · exact pickBy_ren hb rest v k hk hrest
    · exact pickBy_ren hb rest best bk hbk hrest

theorem zip_renKeys (f : Nat → Nat) (xs : List Val) (ks : List Key) :
    (renVL f xs).zip (ks.map (renKey f)) = (xs.zip ks).map (Prod.map (renV f) (renKey f)) := by
  rw [renVL_eq_map, List.zip_map]

theorem arrayPickBy_rr {f : Nat → Nat} {better : Key → Key → Bool} (hb : KeyInv f better) {k k' : Val → Res Val}
    (hk : FnRel f k k') {v : Val} (hv : RnV f v = true) :
    RRV f (arrayPickBy better k v) (arrayPickBy better k' (renV f v)) := by
  cases v with
  | arr t xs =>
    have h := rn_arr.mp hv
    cases xs with
    | nil => simp only [renV, renVL, arrayPickBy]; exact key_ok rfl (renV_null f)
    | cons x0 rest =>
      have h' := rnVL_cons.mp h
      simp only [renV, renVL, arrayPickBy]
      rw [← renVL_cons]
      refine widen_rr t h (ps := [(k, k')]) (key_single hk) [Cat.invalidType] ?_
      refine RR.bind (keysOf_rr hk h) fun ks hks => ?_
      cases ks with
      | nil => exact key_ok rfl (renV_null f)
      | cons k0 krest =>
        have e := uniqueExtremum_ren hb hks
        simp only [List.map_cons] at e ⊢
        rw [enum2_ren, e, zip_renKeys]
        split
        · exact RR.nondet
        · have hk0 : RnKey f k0 := hks k0 List.mem_cons_self
          have hz : ∀ p ∈ rest.zip krest, RnKey f p.2 := by
            intro p hp
            obtain ⟨a, b⟩ := p
            exact hks b (List.mem_cons_of_mem _ (List.of_mem_zip hp).2)
          refine key_ok ?_ (pickBy_ren hb (rest.zip krest) x0 k0 hk0 hz).symm
          rcases pickBy_mem better (rest.zip krest) x0 k0 with e' | ⟨p, hp, e'⟩
          · rw [e']; exact h'.1
          · rw [e']
            obtain ⟨a, b⟩ := p
            exact rnVL_iff.mp h'.2 a (List.of_mem_zip hp).1
  | _ => simp only [renV, arrayPickBy]; exact RR.errType

theorem arrayMaxBy_rr {f : Nat → Nat} (hm : Mono f) {k k' : Val → Res Val} (hk : FnRel f k k') {v : Val}
    (hv : RnV f v = true) : RRV f (arrayMaxBy k v) (arrayMaxBy k' (renV f v)) :=
  arrayPickBy_rr (keyGtMax_ren hm) hk hv

theorem arrayMinBy_rr {f : Nat → Nat} (hm : Mono f) {k k' : Val → Res Val} (hk : FnRel f k k') {v : Val}
    (hv : RnV f v = true) : RRV f (arrayMinBy k v) (arrayMinBy k' (renV f v)) :=
  arrayPickBy_rr (keyLtMin_ren hm) hk hv

/-! ## `sort_by` -/

theorem sortByKeys_ren {f : Nat → Nat} (hm : Mono f) (xs : List Val) {ks : List Key} (hks : ∀ k ∈ ks, RnKey f k) :
    sortByKeys (renVL f xs) (ks.map (renKey f)) = renVL f (sortByKeys xs ks) := by
  unfold sortByKeys
  rw [zip_renKeys, renVL_eq_map, List.map_map]
  rw [← List.map_mergeSort (r := fun a b => !Key.lt b.2 a.2) (f := Prod.map (renV f) (renKey f))]
  · rw [List.map_map]
    rfl
  · intro a ha b hb
    obtain ⟨a1, a2⟩ := a
    obtain ⟨b1, b2⟩ := b
    simp only [Prod.map_apply]
    rw [keyLt_ren hm b2 a2 (hks b2 (List.of_mem_zip hb).2) (hks a2 (List.of_mem_zip ha).2)]

theorem rnVL_sortByKeys {f : Nat → Nat} {xs : List Val} (ks : List Key) (h : RnVL f xs = true) :
    RnVL f (sortByKeys xs ks) = true := by
  refine rnVL_sub h fun y hy => ?_
  simp only [sortByKeys, List.mem_map] at hy
  obtain ⟨⟨a, b⟩, hp, rfl⟩ := hy
  exact (List.of_mem_zip (List.mem_mergeSort.mp hp)).1

theorem sortArrayBy_rr {f : Nat → Nat} (hm : Mono f) {k k' : Val → Res Val} (hk : FnRel f k k') {v : Val}
    (hv : RnV f v = true) : RRV f (sortArrayBy k v) (sortArrayBy k' (renV f v)) := by
  cases v with
  | arr t xs =>
    have h := rn_arr.mp hv
    simp only [renV, sortArrayBy, renVL_isEmpty]
    split
    · exact key_ok hv (renV_arr f t xs)
    · refine widen_rr t h (ps := [(k, k')]) (key_single hk) [Cat.invalidType] ?_
      refine RR.bind (keysOf_rr hk h) fun ks hks => ?_
      rw [enum2_ren, keysDistinct_ren hm hks, sortByKeys_ren hm xs hks]
      split
      · exact RR.nondet
      · exact key_ok (rn_arr.mpr (rnVL_sortByKeys ks h)) (renV_arr f _ _)
  | _ => simp only [renV, sortArrayBy]; exact RR.errType

/-! ## `group_by` -/

/-- rename the groups: the keys and the members -/
def renG (f : Nat → Nat) (gs : List (Bytes × List Val)) : List (Bytes × List Val) :=
  gs.map (fun kg => (renB f kg.1, renVL f kg.2))

/-- groups that can be renamed -/
def RnG (f : Nat → Nat) (gs : List (Bytes × List Val)) : Prop :=
  ∀ kg ∈ gs, rnB f kg.1 = true ∧ RnVL f kg.2 = true

theorem rnG_cons {f : Nat → Nat} {k : Bytes} {g : List Val} {gs : List (Bytes × List Val)} :
    RnG f ((k, g) :: gs) ↔ rnB f k = true ∧ RnVL f g = true ∧ RnG f gs := by
  unfold RnG
  constructor
  · intro h
    exact ⟨(h (k, g) List.mem_cons_self).1, (h (k, g) List.mem_cons_self).2,
      fun kg hkg => h kg (List.mem_cons_of_mem _ hkg)⟩
  · rintro ⟨h1, h2, h3⟩ kg hkg
    rcases List.mem_cons.1 hkg with rfl | hkg
    · exact ⟨h1, h2⟩
    · exact h3 kg hkg

theorem groupInsert_ren {f : Nat → Nat} (hm : Mono f) {s : Bytes} (hs : rnB f s = true) (v : Val) :
    ∀ {gs : List (Bytes × List Val)}, RnG f gs →
      groupInsert (renB f s) (renV f v) (renG f gs) = renG f (groupInsert s v gs)
  | [], _ => by simp only [renG, groupInsert, List.map_cons, List.map_nil, renVL]
  | (k, g) :: rest, h => by
    have h' := rnG_cons.mp h
    have ih := groupInsert_ren hm hs v h'.2.2
    simp only [renG, List.map_cons, groupInsert] at ih ⊢
    rw [renB_lt hm hs h'.1]
    by_cases e : s = k
    · subst e
      simp only [if_true, List.map_cons, renVL_append, renVL]
    · have : renB f s ≠ renB f k := fun e' => e (renB_inj hm hs h'.1 e')
      simp only [e, this, if_false]
      split
      · simp only [List.map_cons, renVL]
      · simp only [List.map_cons]; rw [ih]

theorem rnG_groupInsert {f : Nat → Nat} {s : Bytes} {v : Val} (hs : rnB f s = true) (hv : RnV f v = true) :
    ∀ {gs : List (Bytes × List Val)}, RnG f gs → RnG f (groupInsert s v gs)
  | [], _ => rnG_cons.mpr ⟨hs, rnVL_cons.mpr ⟨hv, rfl⟩, fun _ h => by cases h⟩
  | (k, g) :: rest, h => by
    have h' := rnG_cons.mp h
    simp only [groupInsert]
    split
    · exact rnG_cons.mpr ⟨h'.1, rnVL_append h'.2.1 (rnVL_cons.mpr ⟨hv, rfl⟩), h'.2.2⟩
    · split
      · exact rnG_cons.mpr ⟨hs, rnVL_cons.mpr ⟨hv, rfl⟩, h⟩
      · exact rnG_cons.mpr ⟨h'.1, h'.2.1, rnG_groupInsert hs hv h'.2.2⟩

theorem groupLoop_rr {f : Nat → Nat} (hm : Mono f) {k k' : Val → Res Val} (hk : FnRel f k k') :
    ∀ {xs : List Val} {acc : List (Bytes × List Val)}, RnVL f xs = true → RnG f acc →
      RR (RnG f) (renG f) (groupLoop k xs acc) (groupLoop k' (renVL f xs) (renG f acc))
  | [], acc, _, ha => by simp only [renVL, groupLoop]; exact RR.ok ha
  | x :: xs, acc, h, ha => by
    have h' := rnVL_cons.mp h
    simp only [renVL, groupLoop]
    refine RR.bind (hk x h'.1) fun rv hrv => ?_
    cases rv with
    | str s =>
      simp only [renV]
      rw [groupInsert_ren hm (rn_str.mp hrv) x ha]
      exact groupLoop_rr hm hk h'.2 (rnG_groupInsert (rn_str.mp hrv) h'.1 ha)
    | _ => simp only [renV]; exact RR.errType

theorem groupBy_rr {f : Nat → Nat} (hm : Mono f) {k k' : Val → Res Val} (hk : FnRel f k k') {v : Val}
    (hv : RnV f v = true) : RRV f (groupBy k v) (groupBy k' (renV f v)) := by
  cases v with
  | arr t xs =>
    have h := rn_arr.mp hv
    simp only [renV, groupBy, renVL_isEmpty]
    split
    · exact key_ok rfl (renV_null f)
    · refine widen_rr t h (ps := [(k, k')]) (key_single hk) [Cat.invalidType] ?_
      have h0 : RnG f [] := fun _ h => by cases h
      have := groupLoop_rr hm hk (acc := []) h h0
      refine RR.bind this fun gs hgs => ?_
      refine key_ok ?_ ?_
      · refine rn_obj.mpr (rnVF_iff.mpr ?_)
        intro kv hkv
        obtain ⟨kg, hkg, rfl⟩ := List.mem_map.1 hkv
        exact ⟨(hgs kg hkg).1, rn_arr.mpr (hgs kg hkg).2⟩
      · rw [renV_obj, renVF_eq_map]
        simp only [renG, List.map_map]
        refine congrArg Val.obj (List.map_congr_left fun kg _ => ?_)
        simp only [Function.comp, renV_arr]
  | _ => simp only [renV, groupBy]; exact RR.errType

/-! ## concrete instances (the shift `c ↦ c + 0x350`, key expression `@`) -/

private theorem okBind {α β} (a : α) (k : α → Res β) : (Res.ok a >>= k) = k a := rfl
private theorem errBind {α β} (c : List Cat) (k : α → Res β) : ((Res.err c : Res α) >>= k) = Res.err c := rfl
private theorem pureOk {α} (a : α) : (pure a : Res α) = Res.ok a := rfl

/-- ["z", "é", "a"] -/
private def zea : Val := .arr .plain [.str [0x7A], .str [0xC3, 0xA9], .str [0x61]]

private theorem rn_zea : RnV shift zea = true := by
  have h1 : rnB shift [0x7A] = true := rnB_enc (cs := [0x7A]) (by unfold Scalars; decide) (by unfold Scalars; decide)
  have h2 : rnB shift [0xC3, 0xA9] = true :=
    rnB_enc (cs := [0xE9]) (by unfold Scalars; decide) (by unfold Scalars; decide)
  have h3 : rnB shift [0x61] = true := rnB_enc (cs := [0x61]) (by unfold Scalars; decide) (by unfold Scalars; decide)
  exact rn_arr.mpr (rnVL_cons.mpr ⟨rn_str.mpr h1, rnVL_cons.mpr ⟨rn_str.mpr h2, rnVL_cons.mpr ⟨rn_str.mpr h3, rfl⟩⟩⟩)

private theorem fnRel_id (f : Nat → Nat) : FnRel f (fun x => .ok x) (fun x => .ok x) := fun _ hx => RR.ok hx

/-- sort_by(["z", "é", "a"], &@) = ["a", "z", "é"], and the renamed run gives the renamed array -/
example : sortArrayBy (fun x => .ok x) zea = .ok (.arr .plain [.str [0x61], .str [0x7A], .str [0xC3, 0xA9]]) := by
  simp [okBind, pureOk, zea, sortArrayBy, widen, keysOf, keysFrom, enum2, sortByKeys, List.mergeSort, Key.lt, bytesLt]
example : sortArrayBy (fun x => .ok x) (renV shift zea)
    = .ok (renV shift (.arr .plain [.str [0x61], .str [0x7A], .str [0xC3, 0xA9]])) := by
  have := (sortArrayBy_rr shift_mono (fnRel_id shift) rn_zea).eq
  rw [this]
  simp [okBind, pureOk, zea, sortArrayBy, widen, keysOf, keysFrom, enum2, sortByKeys, List.mergeSort, Key.lt, bytesLt]

/-- max_by(["z", "é", "a"], &@) = "é", min_by = "a" -/
example : arrayMaxBy (fun x => .ok x) zea = .ok (.str [0xC3, 0xA9]) := by
  simp [okBind, pureOk, zea, arrayMaxBy, arrayPickBy, widen, keysOf, keysFrom, enum2, pickBy, Key.gtMax, bytesLt]
example : arrayMaxBy (fun x => .ok x) (renV shift zea) = .ok (renV shift (.str [0xC3, 0xA9])) := by
  have := (arrayMaxBy_rr shift_mono (fnRel_id shift) rn_zea).eq
  rw [this]
  simp [okBind, pureOk, zea, arrayMaxBy, arrayPickBy, widen, keysOf, keysFrom, enum2, pickBy, Key.gtMax, bytesLt]
example : arrayMinBy (fun x => .ok x) (renV shift zea) = .ok (renV shift (.str [0x61])) := by
  have := (arrayMinBy_rr shift_mono (fnRel_id shift) rn_zea).eq
  rw [this]
  simp [okBind, pureOk, zea, arrayMinBy, arrayPickBy, widen, keysOf, keysFrom, enum2, pickBy, Key.ltMin, bytesLt]

/-- group_by(["z", "é", "a"], &@) = {"a": ["a"], "z": ["z"], "é": ["é"]} -/
example : groupBy (fun x => .ok x) zea
    = .ok (.obj [([0x61], .arr .plain [.str [0x61]]), ([0x7A], .arr .plain [.str [0x7A]]),
        ([0xC3, 0xA9], .arr .plain [.str [0xC3, 0xA9]])]) := by
  simp [okBind, pureOk, zea, groupBy, widen, groupLoop, groupInsert, bytesLt, ATag.derived]
example : groupBy (fun x => .ok x) (renV shift zea)
    = .ok (renV shift (.obj [([0x61], .arr .plain [.str [0x61]]), ([0x7A], .arr .plain [.str [0x7A]]),
        ([0xC3, 0xA9], .arr .plain [.str [0xC3, 0xA9]])])) := by
  have := (groupBy_rr shift_mono (fnRel_id shift) rn_zea).eq
  rw [this]
  simp [okBind, pureOk, zea, groupBy, widen, groupLoop, groupInsert, bytesLt, ATag.derived]

/-- a key expression that fails on one element: both runs report the same error -/
example : sortArrayBy (fun x => if x.isNull then errType else .ok x) (renV shift (.arr .plain [.str [0x61], .null]))
    = .err [Cat.invalidType] := by
  have hk : FnRel shift (fun x => if x.isNull then errType else .ok x)
      (fun x => if x.isNull then errType else .ok x) := by
    intro x hx
    simp only [isNull_ren]
    split
    · exact RR.errType
    · exact RR.ok hx
  have hv : RnV shift (.arr .plain [.str [0x61], .null]) = true :=
    rn_arr.mpr (rnVL_cons.mpr
      ⟨rn_str.mpr (rnB_enc (cs := [0x61]) (by unfold Scalars; decide) (by unfold Scalars; decide)), rfl⟩)
  have := (sortArrayBy_rr shift_mono hk hv).eq
  rw [this]
  simp [okBind, errBind, pureOk, sortArrayBy, widen, keysOf, keysFrom, enum2, errType, Val.isNull]


end Jmes.C11C
