/-
  Helpers for C03 (no expression and no data value makes the library panic).

  Every outcome of the model is a `Res`; a Go panic is the constructor `.panic`.  The central predicate is

      Sat pe r  :=  r is not `.panic _`, and if r = `.err cs` then `pe cs`

  for a predicate `pe` on category lists that holds of singletons and is stable under `widen`-style extension
  (`PeOk`).  Two instances are used:

      pe = fun _ => True   gives   NoPanic r  (∀ w, r ≠ .panic w)
      pe = (· ≠ [])        gives   Safe r     (no panic, and every failure carries at least one category)

  Each value-level function of the evaluator is shown to satisfy `Sat pe` (given that the function arguments do),
  by one tactic (`sat_auto`) that walks through `do`-blocks, `if`s and `match`es.
-/
import Jmes.Model.Eval
namespace Jmes

/-! ## `toInt` never answers `panic` -/

theorem Dec.int64_ne_panic_of_not_nan (d : Dec) (h : d.isNaN = false) : d.int64 ≠ .panic := by
  cases d with
  | nan => simp [Dec.isNaN] at h
  | inf n => simp [Dec.int64]
  | fin n c e =>
    simp only [Dec.int64]
    repeat' split
    all_goals simp

theorem decToInt_no_panic (d : Dec) : decToInt d ≠ .panic := by
  unfold decToInt
  cases hn : d.isNaN
  · simp only [Bool.false_eq_true, if_false]
    have := Dec.int64_ne_panic_of_not_nan d hn
    split
    · contradiction
    · simp
    · split <;> simp
  · simp

theorem toInt_no_panic (v : Val) : toInt v ≠ .panic := by
  unfold toInt
  repeat' split
  all_goals first | exact decToInt_no_panic _ | simp

example : toInt (.num (.dec .nan)) = .notInt := by decide
example : decToInt .nan = .notInt := by decide

/-! ## the predicate -/

/-- `r` is not a panic -/
def NoPanic {α} (r : Res α) : Prop := ∀ w, r ≠ .panic w

/-- no panic, and an error outcome satisfies `pe` -/
def Sat (pe : List Cat → Prop) {α} (r : Res α) : Prop :=
  match r with
  | .err cs => pe cs
  | .panic _ => False
  | _ => True

/-- what the proofs need of the predicate on category lists -/
class PeOk (pe : List Cat → Prop) : Prop where
  single : ∀ c, pe [c]
  more : ∀ cs extra, pe cs → pe (Cat.dedup (cs ++ extra))

instance : PeOk (fun _ => True) := ⟨fun _ => trivial, fun _ _ _ => trivial⟩

theorem Cat.dedup_eq_nil : ∀ (l : List Cat), Cat.dedup l = [] → l = []
  | [], _ => rfl
  | c :: cs, h => by
    simp only [Cat.dedup] at h
    split at h
    · rename_i hc
      have := Cat.dedup_eq_nil cs h
      subst this
      simp at hc
    · simp at h

instance : PeOk (fun cs => cs ≠ []) where
  single := fun _ => by simp
  more := fun cs extra h hd => by
    have := Cat.dedup_eq_nil _ hd
    simp at this
    exact h this.1

/-- no panic and every failure carries a category -/
abbrev Safe {α} (r : Res α) : Prop := Sat (fun cs => cs ≠ []) r

/-- non-vacuity: the predicates reject a panic, and `Safe` rejects an error without category -/
example : ¬ Sat (fun _ => True) (Res.panic "x" : Res Val) := id
example : ¬ Safe (Res.err [] : Res Val) := fun h => h rfl
example : Safe (Res.err [Cat.syntax] : Res Val) := by simp [Sat]

theorem noPanic_iff_sat {α} (r : Res α) : NoPanic r ↔ Sat (fun _ => True) r := by
  cases r <;> simp [NoPanic, Sat]

theorem Sat.noPanic {pe α} {r : Res α} (h : Sat pe r) : NoPanic r := by
  intro w hw; subst hw; exact h

theorem Sat.err_pe {pe α} {r : Res α} (h : Sat pe r) {cs} (hr : r = .err cs) : pe cs := by
  subst hr; exact h

theorem Safe.err_ne_nil {α} {r : Res α} (h : Safe r) {cs} (hr : r = .err cs) : cs ≠ [] := h.err_pe hr

section basic
variable {pe : List Cat → Prop} {α β : Type}

theorem Sat.ok (a : α) : Sat pe (Res.ok a) := trivial
theorem Sat.pure (a : α) : Sat pe (pure a : Res α) := trivial
theorem Sat.nondet : Sat pe (Res.nondet : Res α) := trivial
theorem Sat.unmodelled (w : String) : Sat pe (Res.unmodelled w : Res α) := trivial
theorem Sat.err1 [PeOk pe] (c : Cat) : Sat pe (Res.err [c] : Res α) := PeOk.single c
theorem Sat.errType [PeOk pe] : Sat pe (errType : Res α) := PeOk.single _
theorem Sat.errValue [PeOk pe] : Sat pe (errValue : Res α) := PeOk.single _
theorem Sat.errNaN [PeOk pe] : Sat pe (errNaN : Res α) := PeOk.single _

theorem Sat.bind {x : Res α} {f : α → Res β} (hx : Sat pe x) (hf : ∀ a, Sat pe (f a)) : Sat pe (x >>= f) := by
  cases x with
  | ok a => exact hf a
  | err cs => exact hx
  | panic w => exact hx.elim
  | nondet => trivial
  | unmodelled w => trivial

theorem Sat.bind' {x : Res α} {f : α → Res β} (hx : Sat pe x) (hf : ∀ a, Sat pe (f a)) : Sat pe (Res.bind x f) :=
  Sat.bind hx hf

theorem NoPanic.ok (a : α) : NoPanic (Res.ok a) := fun _ h => by cases h
theorem NoPanic.err (cs : List Cat) : NoPanic (Res.err cs : Res α) := fun _ h => by cases h
theorem NoPanic.nondet : NoPanic (Res.nondet : Res α) := fun _ h => by cases h
theorem NoPanic.unmodelled (w : String) : NoPanic (Res.unmodelled w : Res α) := fun _ h => by cases h
theorem NoPanic.bind {x : Res α} {f : α → Res β} (hx : NoPanic x) (hf : ∀ a, NoPanic (f a)) : NoPanic (x >>= f) := by
  rw [noPanic_iff_sat] at *
  exact Sat.bind hx (fun a => (noPanic_iff_sat _).1 (hf a))
theorem not_noPanic_panic (w : String) : ¬ NoPanic (Res.panic w : Res α) := fun h => h w rfl

end basic

/-- one step of the walk through a `do`-block -/
macro "sat_step" : tactic => `(tactic| first
  | assumption
  | exact Sat.ok _
  | exact Sat.pure _
  | exact Sat.nondet
  | exact Sat.unmodelled _
  | exact Sat.err1 _
  | exact Sat.errType
  | exact Sat.errValue
  | exact Sat.errNaN
  | (exfalso; exact toInt_no_panic _ ‹_›)
  | (apply Sat.bind)
  | (apply Sat.bind')
  | (intro _)
  | (apply_assumption; done)
  | split
  | (dsimp only))

/-- walk through `do`-blocks, `if`s and `match`es; the optional list gives lemmas to `apply` at the leaves -/
syntax "sat_auto" (" [" term,* "]")? : tactic
macro_rules
  | `(tactic| sat_auto) => `(tactic| repeat' sat_step)
  | `(tactic| sat_auto [$ts,*]) => `(tactic| repeat' (first $[| apply $ts]* | sat_step))

/-! ## value-level functions -/

section fns
set_option linter.unusedSectionVars false
variable {pe : List Cat → Prop} [PeOk pe]

theorem strArg_sat (v : Val) : Sat pe (strArg v) := by unfold strArg; sat_auto
theorem intArg_sat (v : Val) : Sat pe (intArg v) := by unfold intArg; sat_auto
theorem checkF_sat (r : F64) : Sat pe (checkF r) := by unfold checkF; sat_auto
theorem checkD_sat (r : Dec) : Sat pe (checkD r) := by unfold checkD; sat_auto

/-! ### number.go -/

theorem arith_sat (fop : F64 → F64 → F64) (dop : Dec → Dec → Dec) (x y : Val) : Sat pe (arith fop dop x y) := by
  unfold arith; sat_auto [checkF_sat, checkD_sat]
theorem numAbs_sat (v : Val) : Sat pe (numAbs v) := by unfold numAbs; sat_auto
theorem numCeil_sat (v : Val) : Sat pe (numCeil v) := by unfold numCeil; sat_auto
theorem numFloor_sat (v : Val) : Sat pe (numFloor v) := by unfold numFloor; sat_auto
theorem numSum_sat (v : Val) : Sat pe (numSum v) := by unfold numSum; sat_auto [checkD_sat]
theorem numAvg_sat (v : Val) : Sat pe (numAvg v) := by unfold numAvg; sat_auto [checkD_sat]

/-! ### compare.go -/

theorem equalR_sat (x y : Val) : Sat pe (equalR x y) := by unfold equalR; sat_auto
theorem contains_sat (x y : Val) : Sat pe (contains x y) := by unfold contains; sat_auto

theorem applyBinOp_sat (op : BinOp) (l r : Val) : Sat pe (applyBinOp op l r) := by
  cases op <;> simp only [applyBinOp, add, subtract, multiply, divide, integerDivide, modulo]
  all_goals sat_auto [arith_sat, equalR_sat]

/-! ### array.go -/

theorem widen_sat {α} (t : ATag) (xs : List Val) (fs : List (Val → Res Val)) (extra : List Cat) {r : Res α}
    (h : Sat pe r) : Sat pe (widen t xs fs extra r) := by
  cases r with
  | err cs =>
    simp only [widen]
    split
    · split
      · trivial
      · rw [List.append_assoc]; exact PeOk.more _ _ h
    · exact h
  | ok a => exact h
  | panic w => exact h
  | nondet => exact h
  | unmodelled w => exact h

theorem index_sat (v : Val) (i : Int) : Sat pe (index v i) := by unfold index; sat_auto

section hof
variable {f c : Val → Res Val} (hf : ∀ x, Sat pe (f x)) (hc : ∀ x, Sat pe (c x))
include hf

theorem mapPrune_sat : ∀ xs, Sat pe (mapPrune f xs)
  | [] => Sat.ok _
  | x :: xs => by
    have ih := mapPrune_sat xs
    simp only [mapPrune]; sat_auto [hf]

theorem mapAll_sat : ∀ xs, Sat pe (mapAll f xs)
  | [] => Sat.ok _
  | x :: xs => by
    have ih := mapAll_sat xs
    simp only [mapAll]; sat_auto [hf]

theorem filterLoop_sat : ∀ xs, Sat pe (filterLoop f xs)
  | [] => Sat.ok _
  | x :: xs => by
    have ih := filterLoop_sat xs
    simp only [filterLoop]; sat_auto [hf]

theorem projectArray_sat (v : Val) : Sat pe (projectArray f v) := by
  unfold projectArray; sat_auto [widen_sat, mapPrune_sat hf]

theorem filterArray_sat (v : Val) : Sat pe (filterArray f v) := by
  unfold filterArray; sat_auto [widen_sat, filterLoop_sat hf]

theorem flattenAndProjectArray_sat (v : Val) : Sat pe (flattenAndProjectArray f v) := by
  unfold flattenAndProjectArray; sat_auto [widen_sat, mapPrune_sat hf]

theorem mapArray_sat (v : Val) : Sat pe (mapArray f v) := by
  unfold mapArray; sat_auto [widen_sat, mapAll_sat hf]

theorem projectObject_sat (v : Val) : Sat pe (projectObject f v) := by
  unfold projectObject; sat_auto [widen_sat, mapPrune_sat hf]

theorem keysFrom_sat (isStr : Bool) : ∀ xs, Sat pe (keysFrom f isStr xs)
  | [] => Sat.ok _
  | x :: xs => by
    have ih := keysFrom_sat isStr xs
    simp only [keysFrom]; sat_auto [hf]

theorem keysOf_sat : ∀ xs, Sat pe (keysOf f xs)
  | [] => Sat.ok _
  | x :: xs => by
    simp only [keysOf]; sat_auto [hf, keysFrom_sat hf]

theorem arrayPickBy_sat (better : Key → Key → Bool) (v : Val) : Sat pe (arrayPickBy better f v) := by
  unfold arrayPickBy; sat_auto [widen_sat, keysOf_sat hf]

theorem arrayMaxBy_sat (v : Val) : Sat pe (arrayMaxBy f v) := arrayPickBy_sat hf _ v
theorem arrayMinBy_sat (v : Val) : Sat pe (arrayMinBy f v) := arrayPickBy_sat hf _ v

theorem sortArrayBy_sat (v : Val) : Sat pe (sortArrayBy f v) := by
  unfold sortArrayBy; sat_auto [widen_sat, keysOf_sat hf]

theorem groupLoop_sat : ∀ xs acc, Sat pe (groupLoop f xs acc)
  | [], acc => Sat.ok _
  | x :: xs, acc => by
    have ih := groupLoop_sat xs
    simp only [groupLoop]; sat_auto [hf, ih]

theorem groupBy_sat (v : Val) : Sat pe (groupBy f v) := by
  unfold groupBy; sat_auto [widen_sat, groupLoop_sat hf]

include hc
theorem filterMapPrune_sat : ∀ xs, Sat pe (filterMapPrune c f xs)
  | [] => Sat.ok _
  | x :: xs => by
    have ih := filterMapPrune_sat xs
    simp only [filterMapPrune]; sat_auto [hf, hc]

theorem filterAndProjectArray_sat (v : Val) : Sat pe (filterAndProjectArray c f v) := by
  unfold filterAndProjectArray; sat_auto [widen_sat, filterMapPrune_sat hf hc]

end hof

theorem arrayMax_sat (v : Val) : Sat pe (arrayMax v) := by unfold arrayMax; sat_auto
theorem arrayMin_sat (v : Val) : Sat pe (arrayMin v) := by unfold arrayMin; sat_auto
theorem sortArray_sat (v : Val) : Sat pe (sortArray v) := by unfold sortArray; sat_auto

/-! ### object.go -/

theorem values_sat (v : Val) : Sat pe (values v) := by unfold values; sat_auto
theorem keys_sat (v : Val) : Sat pe (keys v) := by unfold keys; sat_auto
theorem items_sat (v : Val) : Sat pe (items v) := by unfold items; sat_auto

theorem fromItemsLoop_sat : ∀ xs acc, Sat pe (fromItemsLoop xs acc)
  | [], acc => Sat.ok _
  | x :: rest, acc => by
    have ih := fromItemsLoop_sat rest
    cases x <;> simp only [fromItemsLoop] <;> sat_auto [ih]

theorem fromItems_sat (v : Val) : Sat pe (fromItems v) := by
  unfold fromItems
  split
  · rename_i t xs
    have h := fromItemsLoop_sat (pe := pe) xs []
    generalize fromItemsLoop xs [] = r at h
    cases r with
    | ok kvs => simp only []; sat_auto
    | err cs =>
      simp only []
      split
      · exact PeOk.more _ _ h
      · exact h
    | panic w => exact h.elim
    | nondet => exact Sat.nondet
    | unmodelled w => exact Sat.unmodelled _
  · exact Sat.errType

/-! ### slice.go -/

theorem slice_sat (v : Val) (a b : Int) : Sat pe (slice v a b) := by unfold slice; sat_auto
theorem sliceStep_sat (v : Val) (a b s : Int) : Sat pe (sliceStep v a b s) := by unfold sliceStep; sat_auto

/-! ### string.go -/

theorem caseMap_sat (f : Nat → Option Nat) (s : Bytes) : Sat pe (caseMap f s) := by unfold caseMap; sat_auto
theorem startsWith_sat (a b : Val) : Sat pe (startsWith a b) := by unfold startsWith; sat_auto [strArg_sat]
theorem endsWith_sat (a b : Val) : Sat pe (endsWith a b) := by unfold endsWith; sat_auto [strArg_sat]
theorem findFirst_sat (a b : Val) : Sat pe (findFirst a b) := by unfold findFirst; sat_auto [strArg_sat]
theorem findLast_sat (a b : Val) : Sat pe (findLast a b) := by unfold findLast; sat_auto [strArg_sat]
theorem findFrom_sat (l : Bool) (a b c : Val) : Sat pe (findFrom l a b c) := by
  unfold findFrom; sat_auto [strArg_sat, intArg_sat]
theorem findBetween_sat (l : Bool) (a b c d : Val) : Sat pe (findBetween l a b c d) := by
  unfold findBetween; sat_auto [strArg_sat, intArg_sat]
theorem join_sat (a b : Val) : Sat pe (join a b) := by unfold join; sat_auto
theorem padWith_sat (l : Bool) (s : Bytes) (w : Int) (p : Bytes) (o : Val) : Sat pe (padWith l s w p o) := by
  unfold padWith; sat_auto
theorem padLeft_sat (a b c : Val) : Sat pe (padLeft a b c) := by
  unfold padLeft; sat_auto [strArg_sat, intArg_sat, padWith_sat]
theorem padRight_sat (a b c : Val) : Sat pe (padRight a b c) := by
  unfold padRight; sat_auto [strArg_sat, intArg_sat, padWith_sat]
theorem padSpaceLeft_sat (a b : Val) : Sat pe (padSpaceLeft a b) := by
  unfold padSpaceLeft; sat_auto [strArg_sat, intArg_sat, padWith_sat]
theorem padSpaceRight_sat (a b : Val) : Sat pe (padSpaceRight a b) := by
  unfold padSpaceRight; sat_auto [strArg_sat, intArg_sat, padWith_sat]
theorem replace_sat (a b c : Val) : Sat pe (replace a b c) := by unfold replace; sat_auto [strArg_sat]
theorem replaceCount_sat (a b c d : Val) : Sat pe (replaceCount a b c d) := by
  unfold replaceCount; sat_auto [strArg_sat, intArg_sat]
theorem split_sat (a b : Val) : Sat pe (split a b) := by unfold split; sat_auto [strArg_sat]
theorem splitCount_sat (a b c : Val) : Sat pe (splitCount a b c) := by
  unfold splitCount; sat_auto [strArg_sat, intArg_sat]
theorem trim_sat (a b : Val) : Sat pe (trim a b) := by unfold trim; sat_auto [strArg_sat]
theorem trimLeft_sat (a b : Val) : Sat pe (trimLeft a b) := by unfold trimLeft; sat_auto [strArg_sat]
theorem trimRight_sat (a b : Val) : Sat pe (trimRight a b) := by unfold trimRight; sat_auto [strArg_sat]
theorem trimSpace_sat (a : Val) : Sat pe (trimSpace a) := by unfold trimSpace; sat_auto [strArg_sat]
theorem trimSpaceLeft_sat (a : Val) : Sat pe (trimSpaceLeft a) := by unfold trimSpaceLeft; sat_auto [strArg_sat]
theorem trimSpaceRight_sat (a : Val) : Sat pe (trimSpaceRight a) := by unfold trimSpaceRight; sat_auto [strArg_sat]

/-! ### functions.go -/

theorem length_sat (v : Val) : Sat pe (length v) := by unfold length; sat_auto
theorem lower_sat (v : Val) : Sat pe (lower v) := by unfold lower; sat_auto [caseMap_sat]
theorem upper_sat (v : Val) : Sat pe (upper v) := by unfold upper; sat_auto [caseMap_sat]
theorem reverse_sat (v : Val) : Sat pe (reverse v) := by unfold reverse; sat_auto
theorem toStringV_sat (v : Val) : Sat pe (toStringV v) := by unfold toStringV; sat_auto
theorem typeName_sat (v : Val) : Sat pe (typeName v) := by unfold typeName; sat_auto

/-! ### evaluator.go: the dispatch of the eager builtins, and the helpers of merge / zip / multi-select hash -/

theorem applyFn_sat (f : Fn) (args : List Val) : Sat pe (applyFn f args) := by
  unfold applyFn
  split
  all_goals first
    | exact Sat.ok _ | exact Sat.err1 _
    | apply numAbs_sat | apply numAvg_sat | apply numCeil_sat | apply contains_sat | apply endsWith_sat
    | apply findFirst_sat | apply findBetween_sat | apply findFrom_sat | apply findLast_sat
    | apply numFloor_sat | apply fromItems_sat | apply items_sat | apply join_sat | apply keys_sat
    | apply length_sat | apply lower_sat | apply arrayMax_sat | apply arrayMin_sat
    | apply padLeft_sat | apply padRight_sat | apply padSpaceLeft_sat | apply padSpaceRight_sat
    | apply replace_sat | apply replaceCount_sat | apply reverse_sat | apply sortArray_sat
    | apply split_sat | apply splitCount_sat | apply startsWith_sat | apply numSum_sat
    | apply toStringV_sat | apply trim_sat | apply trimLeft_sat | apply trimRight_sat
    | apply trimSpace_sat | apply trimSpaceLeft_sat | apply trimSpaceRight_sat
    | apply typeName_sat | apply upper_sat | apply values_sat

theorem combineUnordered_sat {acc : Res (List (Bytes × Val))} {r : Res Val} (k : Bytes)
    (ha : Sat pe acc) (hr : Sat pe r) : Sat pe (combineUnordered acc k r) := by
  cases acc <;> cases r <;> simp only [combineUnordered] <;>
    first | exact ha.elim | exact hr.elim | exact PeOk.more _ _ ha | exact ha | exact hr | trivial

theorem zipArgs_sat : ∀ vs, Sat pe (zipArgs vs)
  | [] => Sat.ok _
  | v :: rest => by
    have ih := zipArgs_sat rest
    cases v <;> simp only [zipArgs] <;> sat_auto

theorem zipCheck_sat : ∀ vs, Sat pe (zipCheck vs)
  | [] => Sat.ok _
  | v :: rest => by
    have ih := zipCheck_sat rest
    cases v <;> simp only [zipCheck] <;> sat_auto

theorem mergeArgs_sat : ∀ vs acc, Sat pe (mergeArgs vs acc)
  | [], acc => Sat.ok _
  | v :: rest, acc => by
    have ih := mergeArgs_sat rest
    cases v <;> simp only [mergeArgs] <;> sat_auto [ih]

end fns

/-! ## the evaluator -/

section eval
set_option linter.unusedSectionVars false
set_option linter.unusedVariables false
variable {pe : List Cat → Prop} [PeOk pe]

/-- one constructor of `ieval`: unfold one step, then walk, closing leaves with the value-level lemmas and the
    induction hypotheses in the context -/
local macro "ev_case" : tactic => `(tactic| (
  simp only [ieval]
  sat_auto [applyBinOp_sat, applyFn_sat, index_sat, slice_sat, sliceStep_sat, zipArgs_sat,
    filterArray_sat, filterAndProjectArray_sat, flattenAndProjectArray_sat, projectArray_sat, projectObject_sat,
    groupBy_sat, mapArray_sat, arrayMaxBy_sat, arrayMinBy_sat, sortArrayBy_sat]))

mutual
theorem ieval_sat (root : Val) : (n : INode) → (cur : Val) → (env : Env) → Sat pe (ieval root n cur env)
  | .lit v, cur, env => by ev_case
  | .current, cur, env => by ev_case
  | .root, cur, env => by ev_case
  | .field k, cur, env => by ev_case
  | .variable name, cur, env => by ev_case
  | .binop op l r, cur, env => by have hl := ieval_sat root l; have hr := ieval_sat root r; ev_case
  | .and l r, cur, env => by have hl := ieval_sat root l; have hr := ieval_sat root r; ev_case
  | .or l r, cur, env => by have hl := ieval_sat root l; have hr := ieval_sat root r; ev_case
  | .not c, cur, env => by have hc := ieval_sat root c; ev_case
  | .negate c, cur, env => by have hc := ieval_sat root c; ev_case
  | .assertNumber c, cur, env => by have hc := ieval_sat root c; ev_case
  | .call f args, cur, env => by have hargs := ievalList_sat root args; ev_case
  | .defineVariables vars child, cur, env => by have hvars := ievalFields_sat root vars; have hchild := ieval_sat root child; ev_case
  | .filter c f, cur, env => by have hc := ieval_sat root c; have hf := ieval_sat root f; ev_case
  | .filterCurrent f, cur, env => by have hf := ieval_sat root f; ev_case
  | .filterAndProject l f r, cur, env => by have hl := ieval_sat root l; have hf := ieval_sat root f; have hr := ieval_sat root r; ev_case
  | .filterAndProjectCurrent f c, cur, env => by have hf := ieval_sat root f; have hc := ieval_sat root c; ev_case
  | .flatten c, cur, env => by have hc := ieval_sat root c; ev_case
  | .flattenCurrent, cur, env => by ev_case
  | .flattenAndProject l r, cur, env => by have hl := ieval_sat root l; have hr := ieval_sat root r; ev_case
  | .flattenAndProjectCurrent c, cur, env => by have hc := ieval_sat root c; ev_case
  | .index c i, cur, env => by have hc := ieval_sat root c; ev_case
  | .indexCurrent i, cur, env => by ev_case
  | .smallIndexCurrent i, cur, env => by ev_case
  | .objectValues c, cur, env => by have hc := ieval_sat root c; ev_case
  | .objectValuesCurrent, cur, env => by ev_case
  | .pipe l r, cur, env => by have hl := ieval_sat root l; have hr := ieval_sat root r; ev_case
  | .projectArray l r, cur, env => by have hl := ieval_sat root l; have hr := ieval_sat root r; ev_case
  | .projectArrayCurrent c, cur, env => by have hc := ieval_sat root c; ev_case
  | .projectObject l r, cur, env => by have hl := ieval_sat root l; have hr := ieval_sat root r; ev_case
  | .projectObjectCurrent c, cur, env => by have hc := ieval_sat root c; ev_case
  | .pruneArray c, cur, env => by have hc := ieval_sat root c; ev_case
  | .pruneArrayCurrent, cur, env => by ev_case
  | .selectArray c fs, cur, env => by have hc := ieval_sat root c; have hfs := ievalList_sat root fs; ev_case
  | .selectArrayCurrent fs, cur, env => by have hfs := ievalList_sat root fs; ev_case
  | .selectArraySingle c f, cur, env => by have hc := ieval_sat root c; have hf := ieval_sat root f; ev_case
  | .selectArraySingleCurrent f, cur, env => by have hf := ieval_sat root f; ev_case
  | .selectObject c fs, cur, env => by have hc := ieval_sat root c; have hfs := ievalFields_sat root fs; ev_case
  | .selectObjectCurrent fs, cur, env => by have hfs := ievalFields_sat root fs; ev_case
  | .selectObjectSingle c k f, cur, env => by have hc := ieval_sat root c; have hf := ieval_sat root f; ev_case
  | .selectObjectSingleCurrent k f, cur, env => by have hf := ieval_sat root f; ev_case
  | .slice c a b, cur, env => by have hc := ieval_sat root c; ev_case
  | .sliceCurrent a b, cur, env => by ev_case
  | .sliceStep c a b s, cur, env => by have hc := ieval_sat root c; ev_case
  | .sliceStepCurrent a b s, cur, env => by ev_case
  | .groupBy a e, cur, env => by have ha := ieval_sat root a; have he := ieval_sat root e; ev_case
  | .map e a, cur, env => by have he := ieval_sat root e; have ha := ieval_sat root a; ev_case
  | .maxBy a e, cur, env => by have ha := ieval_sat root a; have he := ieval_sat root e; ev_case
  | .minBy a e, cur, env => by have ha := ieval_sat root a; have he := ieval_sat root e; ev_case
  | .sortBy a e, cur, env => by have ha := ieval_sat root a; have he := ieval_sat root e; ev_case
  | .merge args, cur, env => by have hargs := ievalMerge_sat root args; ev_case
  | .notNull args, cur, env => by have hargs := ievalNotNull_sat root args; ev_case
  | .zip args, cur, env => by have hargs := ievalZip_sat root args; ev_case
theorem ievalList_sat (root : Val) : (ns : List INode) → (cur : Val) → (env : Env) →
    Sat pe (ievalList root ns cur env)
  | [], cur, env => Sat.ok _
  | n :: ns, cur, env => by
    have h1 := ieval_sat root n; have h2 := ievalList_sat root ns
    simp only [ievalList]; sat_auto
theorem ievalFields_sat (root : Val) : (fs : List (Bytes × INode)) → (cur : Val) → (env : Env) →
    Sat pe (ievalFields root fs cur env)
  | [], cur, env => Sat.ok _
  | (k, n) :: rest, cur, env => by
    simp only [ievalFields]
    exact combineUnordered_sat k (ievalFields_sat root rest cur env) (ieval_sat root n cur env)
theorem ievalMerge_sat (root : Val) : (ns : List INode) → (cur : Val) → (env : Env) → (acc : List (Bytes × Val)) →
    Sat pe (ievalMerge root ns cur env acc)
  | [], cur, env, acc => Sat.ok _
  | n :: ns, cur, env, acc => by
    have h1 := ieval_sat root n; have h2 := ievalMerge_sat root ns
    simp only [ievalMerge]; sat_auto [h2]
theorem ievalNotNull_sat (root : Val) : (ns : List INode) → (cur : Val) → (env : Env) →
    Sat pe (ievalNotNull root ns cur env)
  | [], cur, env => Sat.ok _
  | n :: ns, cur, env => by
    have h1 := ieval_sat root n; have h2 := ievalNotNull_sat root ns
    simp only [ievalNotNull]; sat_auto
theorem ievalZip_sat (root : Val) : (ns : List INode) → (cur : Val) → (env : Env) →
    Sat pe (ievalZip root ns cur env)
  | [], cur, env => Sat.ok _
  | n :: ns, cur, env => by
    have h1 := ieval_sat root n; have h2 := ievalZip_sat root ns
    simp only [ievalZip]; sat_auto
end

theorem evaluate_sat (n : INode) (d : Val) : Sat pe (evaluate n d) := ieval_sat d n d []

end eval

end Jmes
