/-
  Helpers for Jmes/Properties/C15C.lean, part 7: `max` / `min` over a (possibly map-ordered) array. The result of every
  run is EQUAL IN VALUE to the model's: the same string, or a decimal that compares equal (`Dec.compare … = 0`; the
  representation — coefficient/exponent — may differ, see `C15B.max_not_covered`).
-/
import Jmes.Properties.C13B
import Jmes.Proofs.C15CErrLemmas
set_option linter.unusedVariables false
namespace Jmes.C15C
open Jmes Invar

/-- equal up to the order of enumerated arrays, or two decimals of the same numeric value -/
def ValEq (r r' : Val) : Prop :=
  Conc r r' ∨ ∃ d d', r = .num (.dec d) ∧ r' = .num (.dec d') ∧ Dec.compare d d' = 0

theorem eq_of_bytesLt_false {a b : Bytes} (h1 : bytesLt a b = false) (h2 : bytesLt b a = false) : a = b := by
  rcases bytesLt_total a b with h | h | h
  · rw [h] at h1; cases h1
  · exact h
  · rw [h] at h2; cases h2

theorem cmp0_of_greater {a b : Dec} (ha : a.isNaN = false) (hb : b.isNaN = false)
    (h1 : Dec.greater a b = false) (h2 : Dec.greater b a = false) : Dec.compare a b = 0 := by
  have := (Dec.greater_eq_false_iff ha hb).mp h1
  have := (Dec.greater_eq_false_iff hb ha).mp h2
  have := Dec.compare_antisymm a b
  omega

theorem cmp0_of_less {a b : Dec} (ha : a.isNaN = false) (hb : b.isNaN = false)
    (h1 : Dec.less a b = false) (h2 : Dec.less b a = false) : Dec.compare a b = 0 := by
  have := (Dec.less_eq_false_iff ha hb).mp h1
  have := (Dec.less_eq_false_iff hb ha).mp h2
  have := Dec.compare_antisymm a b
  omega

theorem flat_of_str {ss : List Bytes} : ∀ y ∈ ss.map Val.str, (∀ t ys, y ≠ .arr t ys) ∧ (∀ kvs, y ≠ .obj kvs) := by
  intro y hy
  obtain ⟨b, _, rfl⟩ := List.mem_map.mp hy
  exact ⟨by intros; simp, by intros; simp⟩

theorem flat_of_dec {xs : List Val} {ds : List Dec} (hd : allDecimals xs = some ds) :
    ∀ y ∈ xs, (∀ t ys, y ≠ .arr t ys) ∧ (∀ kvs, y ≠ .obj kvs) := by
  intro y hy
  have hd' := C13B.toDecimal_of_allDecimals hd y hy
  constructor
  · intro t ys e; subst e; simp [toDecimal] at hd'
  · intro kvs e; subst e; simp [toDecimal] at hd'

theorem concL_flat_eq {xs xs' : List Val} (h : ConcL xs xs')
    (hflat : ∀ x ∈ xs, (∀ t ys, x ≠ .arr t ys) ∧ (∀ kvs, x ≠ .obj kvs)) : xs' = xs := by
  have hall := concL_iff.mp h
  clear h
  induction hall with
  | nil => rfl
  | @cons a b l l' hab _ ih =>
    rw [conc_flat hab (hflat a (by simp)).1 (hflat a (by simp)).2,
      ih fun y hy => hflat y (List.mem_cons_of_mem _ hy)]

theorem decimals_perm {xs xs' : List Val} {ds : List Dec} (hd : allDecimals xs = some ds) (hp : xs'.Perm xs) :
    ∃ ds', allDecimals xs' = some ds' ∧ ds'.Perm ds := by
  obtain ⟨ds', hd'⟩ := allDecimals_perm hd hp
  refine ⟨ds', hd', ?_⟩
  rw [C13B.decimals_eq_map hd, C13B.decimals_eq_map hd']
  exact hp.map _

theorem notStr_of_dec {x : Val} {d : Dec} (h : toDecimal x = some d) : ¬ C13.IsStr x := by
  rintro ⟨s, rfl⟩; simp [toDecimal] at h

/-- the tag matters to `max` only through "map-ordered with two or more elements" -/
theorem arrayMax_tag {t t' : ATag} {xs : List Val} (h1 : enum2 t xs = false) (h2 : enum2 t' xs = false) :
    arrayMax (.arr t' xs) = arrayMax (.arr t xs) := by
  cases xs with
  | nil => rfl
  | cons x rest =>
    by_cases hx : C13.IsStr x
    · obtain ⟨s, rfl⟩ := hx; rfl
    · rw [C13.arrayMax_numbers_eq hx, C13.arrayMax_numbers_eq hx, h1, h2]

/-- **`max`: every run's result is equal in value to the model's** -/
theorem arrayMax_valEq {a a' : Val} (h : Conc a a') {r : Val} (hr : arrayMax a = .ok r) :
    ∃ r', arrayMax a' = .ok r' ∧ ValEq r r' := by
  cases a with
  | arr t xs =>
    obtain ⟨t', xs', rfl, hne, hp, _, _⟩ := conc_arr h
    cases xs with
    | nil =>
      have : xs' = [] := List.eq_nil_of_length_eq_zero (by rw [← hp.length]; rfl)
      subst this
      cases hr
      exact ⟨_, rfl, .inl conc_null⟩
    | cons x rest =>
      have hflat : ∀ y ∈ x :: rest, (∀ t ys, y ≠ .arr t ys) ∧ (∀ kvs, y ≠ .obj kvs) := by
        rcases C13.arrayMax_spec (by simp) hr with ⟨ss, _, _, _, e, _⟩ | ⟨ds, _, _, _, hd, _⟩
        · rw [e]; exact flat_of_str
        · exact flat_of_dec hd
      cases he : enum2 t (x :: rest) with
      | false =>
        obtain ⟨t'', xs'', e2, _, hl, _⟩ := conc_arr_pos h he
        cases e2
        have := concL_flat_eq hl hflat
        subst this
        rw [arrayMax_tag he (enum2_of_ne _ hne), hr]
        refine ⟨r, rfl, .inl ?_⟩
        rcases C13.arrayMax_spec (by simp) hr with ⟨_, _, _, m, _, _, rfl, _⟩ | ⟨_, _, _, m, _, _, rfl, _⟩
        · exact conc_str _
        · exact conc_num _
      | true =>
        have hperm := concP_flat hp hflat
        rcases C13.arrayMax_spec (by simp) hr with ⟨ss, pre, post, m, e, hss, rfl, hmax, _⟩ |
            ⟨ds, pre, post, m, hd, hds, rfl, hmax, _⟩
        · -- strings
          have hs : allStrings (x :: rest) = some ss := by rw [e]; exact C13.allStrings_map ss
          obtain ⟨ss', rfl, hpss⟩ := allStrings_perm hs hperm
          have hne' : ss' ≠ [] := by
            intro e'; subst e'
            have := hpss.symm.eq_nil
            subst this
            simp at hss
          obtain ⟨pre', post', m', h1, h2, h3, _⟩ := C13.arrayMax_strings_spec (t := t') hne'
          refine ⟨_, h2, .inl ?_⟩
          have hm : m ∈ ss := by rw [hss]; simp
          have hm' : m' ∈ ss' := by rw [h1]; simp
          have e1 := h3 m (hpss.mem_iff.mpr hm)
          have e2 := hmax m' (hpss.mem_iff.mp hm')
          first
            | (rw [eq_of_bytesLt_false e1 e2]; exact conc_str _)
            | (rw [eq_of_bytesLt_false e2 e1]; exact conc_str _)
        · -- numbers, none of them NaN (the model answered)
          have hx : ¬ C13.IsStr x := notStr_of_dec (C13B.toDecimal_of_allDecimals hd x (by simp))
          have hnan : ∀ d ∈ ds, d.isNaN = false := by
            rw [C13.arrayMax_numbers_eq hx, hd] at hr
            cases ds with
            | nil => cases hr
            | cons d0 ds0 =>
              simp only [he, Bool.true_and] at hr
              split at hr
              · cases hr
              · rename_i hof
                intro d hdm
                simp only [decsOrderFree, Bool.not_not, Bool.not_eq_true] at hof
                have := List.any_eq_false.mp hof d hdm
                simpa using this
          obtain ⟨ds', hd', hpds⟩ := decimals_perm hd hperm
          cases xs' with
          | nil => exact absurd hperm.symm.eq_nil (by simp)
          | cons x' rest' =>
            have hx' : ¬ C13.IsStr x' :=
              notStr_of_dec (C13B.toDecimal_of_allDecimals hd x' (hperm.mem_iff.mp (by simp)))
            rw [C13.arrayMax_numbers_eq hx', hd']
            cases ds' with
            | nil => simp [allDecimals] at hd'; cases h0 : toDecimal x' <;> simp [h0] at hd'
            | cons d' ds'' =>
              simp only [enum2_of_ne _ hne, Bool.false_and, Bool.false_eq_true, if_false]
              obtain ⟨pre', post', h1, h2, _⟩ := C13.maxDec_spec d' ds''
              refine ⟨_, rfl, .inr ⟨m, _, rfl, rfl, ?_⟩⟩
              have hm : m ∈ ds := by rw [hds]; simp
              have hm' : maxDec d' ds'' ∈ d' :: ds'' := by rw [h1]; simp
              have e1 := h2 m (hpds.mem_iff.mpr hm)
              have e2 := hmax _ (hpds.mem_iff.mp hm')
              exact cmp0_of_greater (hnan m hm) (hnan _ (hpds.mem_iff.mp hm')) e1 e2
  | obj kvs => simp only [arrayMax] at hr; cases hr
  | null | bool _ | num _ | foreign _ | str _ => simp only [arrayMax] at hr; cases hr

/-- `max` fails exactly on a non-empty array holding both a non-string and a non-number -/
theorem arrayMax_err {t : ATag} {xs : List Val} {cs : List Cat} (h : arrayMax (.arr t xs) = .err cs) :
    cs = [Cat.invalidType] ∧ (∃ x ∈ xs, isStrV x = false) ∧ (∃ x ∈ xs, toDecimal x = none) := by
  cases xs with
  | nil => cases h
  | cons x rest =>
    by_cases hx : C13.IsStr x
    · obtain ⟨s, rfl⟩ := hx
      simp only [arrayMax] at h
      cases hs : allStrings rest with
      | some ss => rw [hs] at h; cases h
      | none =>
        rw [hs] at h; cases h
        obtain ⟨y, hy, hy'⟩ := (allStrings_none_iff _).mp hs
        exact ⟨rfl, ⟨y, List.mem_cons_of_mem _ hy, hy'⟩, ⟨Val.str s, by simp, isStrV_toDecimal (x := .str s) rfl⟩⟩
    · have hx' : isStrV x = false := by
        cases x with
        | str s => exact absurd ⟨s, rfl⟩ hx
        | _ => rfl
      rw [C13.arrayMax_numbers_eq hx] at h
      cases hd : allDecimals (x :: rest) with
      | none =>
        rw [hd] at h; cases h
        exact ⟨rfl, ⟨x, by simp, hx'⟩, (allDecimals_none_iff _).mp hd⟩
      | some ds =>
        rw [hd] at h
        cases ds with
        | nil => simp [allDecimals] at hd; cases h0 : toDecimal x <;> simp [h0] at hd
        | cons d0 ds0 => simp only at h; split at h <;> cases h

theorem arrayMax_err_of {t : ATag} {xs : List Val} (h1 : ∃ x ∈ xs, isStrV x = false)
    (h2 : ∃ x ∈ xs, toDecimal x = none) : arrayMax (.arr t xs) = errType := by
  cases xs with
  | nil => obtain ⟨x, hx, _⟩ := h1; cases hx
  | cons x rest =>
    by_cases hx : C13.IsStr x
    · obtain ⟨s, rfl⟩ := hx
      have : allStrings rest = none := by
        obtain ⟨y, hy, hy'⟩ := h1
        rcases List.mem_cons.mp hy with rfl | hy
        · simp [isStrV] at hy'
        · exact (allStrings_none_iff _).mpr ⟨y, hy, hy'⟩
      simp only [arrayMax, this]
    · rw [C13.arrayMax_numbers_eq hx, (allDecimals_none_iff _).mpr h2]

/-- **`max`, error half**: an error of the model is the error of every run -/
theorem arrayMax_errH {a a' : Val} (h : Conc a a') : ErrH (arrayMax a) (arrayMax a') := by
  cases a with
  | arr t xs =>
    obtain ⟨t', xs', rfl, hne, hp, _, _⟩ := conc_arr h
    intro cs e
    obtain ⟨rfl, ⟨x, hx, h1⟩, ⟨y, hy, h2⟩⟩ := arrayMax_err e
    obtain ⟨x', hx', cx⟩ := concP_mem_left hp x hx
    obtain ⟨y', hy', cy⟩ := concP_mem_left hp y hy
    exact ⟨_, by simp, arrayMax_err_of ⟨x', hx', by rw [conc_isStrV cx, h1]⟩ ⟨y', hy', by rw [conc_toDecimal cy, h2]⟩⟩
  | obj kvs => obtain ⟨kvs', rfl, _⟩ := conc_obj h; exact .errType
  | null | bool _ | num _ | foreign _ | str _ => simp only [Conc] at h; subst h; exact .errType

/-- the tag matters to `min` only through "map-ordered with two or more elements" -/
theorem arrayMin_tag {t t' : ATag} {xs : List Val} (h1 : enum2 t xs = false) (h2 : enum2 t' xs = false) :
    arrayMin (.arr t' xs) = arrayMin (.arr t xs) := by
  cases xs with
  | nil => rfl
  | cons x rest =>
    by_cases hx : C13.IsStr x
    · obtain ⟨s, rfl⟩ := hx; rfl
    · rw [C13.arrayMin_numbers_eq hx, C13.arrayMin_numbers_eq hx, h1, h2]

/-- **`min`: every run's result is equal in value to the model's** -/
theorem arrayMin_valEq {a a' : Val} (h : Conc a a') {r : Val} (hr : arrayMin a = .ok r) :
    ∃ r', arrayMin a' = .ok r' ∧ ValEq r r' := by
  cases a with
  | arr t xs =>
    obtain ⟨t', xs', rfl, hne, hp, _, _⟩ := conc_arr h
    cases xs with
    | nil =>
      have : xs' = [] := List.eq_nil_of_length_eq_zero (by rw [← hp.length]; rfl)
      subst this
      cases hr
      exact ⟨_, rfl, .inl conc_null⟩
    | cons x rest =>
      have hflat : ∀ y ∈ x :: rest, (∀ t ys, y ≠ .arr t ys) ∧ (∀ kvs, y ≠ .obj kvs) := by
        rcases C13.arrayMin_spec (by simp) hr with ⟨ss, _, _, _, e, _⟩ | ⟨ds, _, _, _, hd, _⟩
        · rw [e]; exact flat_of_str
        · exact flat_of_dec hd
      cases he : enum2 t (x :: rest) with
      | false =>
        obtain ⟨t'', xs'', e2, _, hl, _⟩ := conc_arr_pos h he
        cases e2
        have := concL_flat_eq hl hflat
        subst this
        rw [arrayMin_tag he (enum2_of_ne _ hne), hr]
        refine ⟨r, rfl, .inl ?_⟩
        rcases C13.arrayMin_spec (by simp) hr with ⟨_, _, _, m, _, _, rfl, _⟩ | ⟨_, _, _, m, _, _, rfl, _⟩
        · exact conc_str _
        · exact conc_num _
      | true =>
        have hperm := concP_flat hp hflat
        rcases C13.arrayMin_spec (by simp) hr with ⟨ss, pre, post, m, e, hss, rfl, hmin, _⟩ |
            ⟨ds, pre, post, m, hd, hds, rfl, hmin, _⟩
        · -- strings
          have hs : allStrings (x :: rest) = some ss := by rw [e]; exact C13.allStrings_map ss
          obtain ⟨ss', rfl, hpss⟩ := allStrings_perm hs hperm
          have hne' : ss' ≠ [] := by
            intro e'; subst e'
            have := hpss.symm.eq_nil
            subst this
            simp at hss
          obtain ⟨pre', post', m', h1, h2, h3, _⟩ := C13.arrayMin_strings_spec (t := t') hne'
          refine ⟨_, h2, .inl ?_⟩
          have hm : m ∈ ss := by rw [hss]; simp
          have hm' : m' ∈ ss' := by rw [h1]; simp
          have e1 := h3 m (hpss.mem_iff.mpr hm)
          have e2 := hmin m' (hpss.mem_iff.mp hm')
          first
            | (rw [eq_of_bytesLt_false e1 e2]; exact conc_str _)
            | (rw [eq_of_bytesLt_false e2 e1]; exact conc_str _)
        · -- numbers, none of them NaN (the model answered)
          have hx : ¬ C13.IsStr x := notStr_of_dec (C13B.toDecimal_of_allDecimals hd x (by simp))
          have hnan : ∀ d ∈ ds, d.isNaN = false := by
            rw [C13.arrayMin_numbers_eq hx, hd] at hr
            cases ds with
            | nil => cases hr
            | cons d0 ds0 =>
              simp only [he, Bool.true_and] at hr
              split at hr
              · cases hr
              · rename_i hof
                intro d hdm
                simp only [decsOrderFree, Bool.not_not, Bool.not_eq_true] at hof
                have := List.any_eq_false.mp hof d hdm
                simpa using this
          obtain ⟨ds', hd', hpds⟩ := decimals_perm hd hperm
          cases xs' with
          | nil => exact absurd hperm.symm.eq_nil (by simp)
          | cons x' rest' =>
            have hx' : ¬ C13.IsStr x' :=
              notStr_of_dec (C13B.toDecimal_of_allDecimals hd x' (hperm.mem_iff.mp (by simp)))
            rw [C13.arrayMin_numbers_eq hx', hd']
            cases ds' with
            | nil => simp [allDecimals] at hd'; cases h0 : toDecimal x' <;> simp [h0] at hd'
            | cons d' ds'' =>
              simp only [enum2_of_ne _ hne, Bool.false_and, Bool.false_eq_true, if_false]
              obtain ⟨pre', post', h1, h2, _⟩ := C13.minDec_spec d' ds''
              refine ⟨_, rfl, .inr ⟨m, _, rfl, rfl, ?_⟩⟩
              have hm : m ∈ ds := by rw [hds]; simp
              have hm' : minDec d' ds'' ∈ d' :: ds'' := by rw [h1]; simp
              have e1 := h2 m (hpds.mem_iff.mpr hm)
              have e2 := hmin _ (hpds.mem_iff.mp hm')
              exact cmp0_of_less (hnan m hm) (hnan _ (hpds.mem_iff.mp hm')) e1 e2
  | obj kvs => simp only [arrayMin] at hr; cases hr
  | null | bool _ | num _ | foreign _ | str _ => simp only [arrayMin] at hr; cases hr

/-- `min` fails exactly on a non-empty array holding both a non-string and a non-number -/
theorem arrayMin_err {t : ATag} {xs : List Val} {cs : List Cat} (h : arrayMin (.arr t xs) = .err cs) :
    cs = [Cat.invalidType] ∧ (∃ x ∈ xs, isStrV x = false) ∧ (∃ x ∈ xs, toDecimal x = none) := by
  cases xs with
  | nil => cases h
  | cons x rest =>
    by_cases hx : C13.IsStr x
    · obtain ⟨s, rfl⟩ := hx
      simp only [arrayMin] at h
      cases hs : allStrings rest with
      | some ss => rw [hs] at h; cases h
      | none =>
        rw [hs] at h; cases h
        obtain ⟨y, hy, hy'⟩ := (allStrings_none_iff _).mp hs
        exact ⟨rfl, ⟨y, List.mem_cons_of_mem _ hy, hy'⟩, ⟨Val.str s, by simp, isStrV_toDecimal (x := .str s) rfl⟩⟩
    · have hx' : isStrV x = false := by
        cases x with
        | str s => exact absurd ⟨s, rfl⟩ hx
        | _ => rfl
      rw [C13.arrayMin_numbers_eq hx] at h
      cases hd : allDecimals (x :: rest) with
      | none =>
        rw [hd] at h; cases h
        exact ⟨rfl, ⟨x, by simp, hx'⟩, (allDecimals_none_iff _).mp hd⟩
      | some ds =>
        rw [hd] at h
        cases ds with
        | nil => simp [allDecimals] at hd; cases h0 : toDecimal x <;> simp [h0] at hd
        | cons d0 ds0 => simp only at h; split at h <;> cases h

theorem arrayMin_err_of {t : ATag} {xs : List Val} (h1 : ∃ x ∈ xs, isStrV x = false)
    (h2 : ∃ x ∈ xs, toDecimal x = none) : arrayMin (.arr t xs) = errType := by
  cases xs with
  | nil => obtain ⟨x, hx, _⟩ := h1; cases hx
  | cons x rest =>
    by_cases hx : C13.IsStr x
    · obtain ⟨s, rfl⟩ := hx
      have : allStrings rest = none := by
        obtain ⟨y, hy, hy'⟩ := h1
        rcases List.mem_cons.mp hy with rfl | hy
        · simp [isStrV] at hy'
        · exact (allStrings_none_iff _).mpr ⟨y, hy, hy'⟩
      simp only [arrayMin, this]
    · rw [C13.arrayMin_numbers_eq hx, (allDecimals_none_iff _).mpr h2]

/-- **`min`, error half**: an error of the model is the error of every run -/
theorem arrayMin_errH {a a' : Val} (h : Conc a a') : ErrH (arrayMin a) (arrayMin a') := by
  cases a with
  | arr t xs =>
    obtain ⟨t', xs', rfl, hne, hp, _, _⟩ := conc_arr h
    intro cs e
    obtain ⟨rfl, ⟨x, hx, h1⟩, ⟨y, hy, h2⟩⟩ := arrayMin_err e
    obtain ⟨x', hx', cx⟩ := concP_mem_left hp x hx
    obtain ⟨y', hy', cy⟩ := concP_mem_left hp y hy
    exact ⟨_, by simp, arrayMin_err_of ⟨x', hx', by rw [conc_isStrV cx, h1]⟩ ⟨y', hy', by rw [conc_toDecimal cy, h2]⟩⟩
  | obj kvs => obtain ⟨kvs', rfl, _⟩ := conc_obj h; exact .errType
  | null | bool _ | num _ | foreign _ | str _ => simp only [Conc] at h; subst h; exact .errType

end Jmes.C15C
