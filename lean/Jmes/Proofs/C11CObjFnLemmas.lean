/-
  C11 (third wave): the builtins that do not look inside strings — numbers (`abs`, `avg`, `ceil`, `floor`, `sum`, the
  arithmetic and comparison operators, unary minus), objects (`keys`, `values`, `items`, `from_items`), `to_array`, and
  the ones that only COMPARE strings (`max`, `min`, `sort`, `==`) — relate the original run and the renamed run
  (`RR`, see `C11CLemmas`) on arbitrary values.
-/
import Jmes.Proofs.C11CArrLemmas
namespace Jmes.C11C
open Jmes Jmes.Utf8 Jmes.C11 Jmes.C11S Jmes.C11R Jmes.C11V Jmes.Invar

/-! ## numbers: the renaming does not touch them -/

/-- a value without strings inside: null, a boolean or a number -/
def Atom (v : Val) : Prop := v = .null ∨ (∃ b, v = .bool b) ∨ ∃ n, v = .num n

theorem Atom.ren {f : Nat → Nat} {v : Val} (h : Atom v) : RnV f v = true ∧ renV f v = v := by
  rcases h with rfl | ⟨b, rfl⟩ | ⟨n, rfl⟩
  · exact ⟨rfl, renV_null f⟩
  · exact ⟨rfl, renV_bool f b⟩
  · exact ⟨rfl, renV_num f n⟩

/-- an outcome whose value is an atom is related to itself -/
theorem rr_atom {f : Nat → Nat} {r : Res Val} (h : ∀ v, r = .ok v → Atom v) : RRV f r r :=
  RR.same fun v e => (h v e).ren

theorem checkD_atom (d : Dec) : ∀ v, checkD d = .ok v → Atom v := by
  intro v e
  unfold checkD at e
  split at e
  · cases e
  · split at e
    · cases e
    · cases e; exact Or.inr (Or.inr ⟨_, rfl⟩)

theorem checkF_atom (d : F64) : ∀ v, checkF d = .ok v → Atom v := by
  intro v e
  unfold checkF at e
  split at e
  · cases e
  · split at e
    · cases e
    · cases e; exact Or.inr (Or.inr ⟨_, rfl⟩)

theorem numAbs_rr {f : Nat → Nat} (_hm : Mono f) {a : Val} (_ha : RnV f a = true) :
    RRV f (numAbs a) (numAbs (renV f a)) := by
  have e : numAbs (renV f a) = numAbs a := by unfold numAbs; rw [toFloat_ren, toDecimal_ren]
  rw [e]
  refine rr_atom fun v hv => ?_
  unfold numAbs at hv
  split at hv
  · cases hv; exact Or.inr (Or.inr ⟨_, rfl⟩)
  · split at hv
    · cases hv
    · cases hv; exact Or.inr (Or.inr ⟨_, rfl⟩)

theorem numCeil_rr {f : Nat → Nat} (_hm : Mono f) {a : Val} (_ha : RnV f a = true) :
    RRV f (numCeil a) (numCeil (renV f a)) := by
  have e : numCeil (renV f a) = numCeil a := by unfold numCeil; rw [toFloat_ren, toDecimal_ren]
  rw [e]
  refine rr_atom fun v hv => ?_
  unfold numCeil at hv
  split at hv
  · cases hv; exact Or.inr (Or.inr ⟨_, rfl⟩)
  · split at hv
    · cases hv
    · cases hv; exact Or.inr (Or.inr ⟨_, rfl⟩)

theorem numFloor_rr {f : Nat → Nat} (_hm : Mono f) {a : Val} (_ha : RnV f a = true) :
    RRV f (numFloor a) (numFloor (renV f a)) := by
  have e : numFloor (renV f a) = numFloor a := by unfold numFloor; rw [toFloat_ren, toDecimal_ren]
  rw [e]
  refine rr_atom fun v hv => ?_
  unfold numFloor at hv
  split at hv
  · cases hv; exact Or.inr (Or.inr ⟨_, rfl⟩)
  · split at hv
    · cases hv
    · cases hv; exact Or.inr (Or.inr ⟨_, rfl⟩)

theorem sumDec_ren (f : Nat → Nat) : ∀ (xs : List Val) (acc : Dec), sumDec (renVL f xs) acc = sumDec xs acc
  | [], _ => by simp only [renVL]
  | x :: xs, acc => by
    simp only [renVL, sumDec, toDecimal_ren]
    cases toDecimal x with
    | none => rfl
    | some d => exact sumDec_ren f xs _

theorem filterMap_toDecimal_ren (f : Nat → Nat) : ∀ xs : List Val,
    (renVL f xs).filterMap toDecimal = xs.filterMap toDecimal
  | [] => by simp only [renVL]
  | x :: xs => by
    simp only [renVL, List.filterMap_cons, toDecimal_ren, filterMap_toDecimal_ren f xs]

theorem enumSumOk_ren (f : Nat → Nat) (t : ATag) (xs : List Val) : enumSumOk t (renVL f xs) = enumSumOk t xs := by
  unfold enumSumOk
  rw [renVL_length, filterMap_toDecimal_ren]

theorem numSum_rr {f : Nat → Nat} (_hm : Mono f) {a : Val} (_ha : RnV f a = true) :
    RRV f (numSum a) (numSum (renV f a)) := by
  have e : numSum (renV f a) = numSum a := by
    cases a <;> simp only [renV, numSum]
    rw [sumDec_ren, enumSumOk_ren]
  rw [e]
  refine rr_atom fun v hv => ?_
  unfold numSum at hv
  split at hv
  · split at hv
    · cases hv
    · split at hv
      · exact checkD_atom _ v hv
      · cases hv
  · cases hv

theorem numAvg_rr {f : Nat → Nat} (_hm : Mono f) {a : Val} (_ha : RnV f a = true) :
    RRV f (numAvg a) (numAvg (renV f a)) := by
  have e : numAvg (renV f a) = numAvg a := by
    cases a <;> simp only [renV, numAvg]
    rw [sumDec_ren, enumSumOk_ren, renVL_isEmpty, renVL_length]
  rw [e]
  refine rr_atom fun v hv => ?_
  unfold numAvg at hv
  split at hv
  · split at hv
    · cases hv; exact Or.inl rfl
    · split at hv
      · cases hv
      · split at hv
        · exact checkD_atom _ v hv
        · cases hv
  · cases hv

/-- unary minus -/
theorem negateVal_rr (f : Nat → Nat) (v : Val) :
    negateVal (renV f v) = renV f (negateVal v) ∧ RnV f (negateVal v) = true := by
  have e : negateVal (renV f v) = negateVal v := by unfold negateVal; rw [toFloat_ren, toDecimal_ren]
  have a : Atom (negateVal v) := by
    unfold negateVal
    split
    · exact Or.inr (Or.inr ⟨_, rfl⟩)
    · split
      · exact Or.inl rfl
      · split <;> exact Or.inr (Or.inr ⟨_, rfl⟩)
  rw [e, a.ren.2]
  exact ⟨rfl, a.ren.1⟩

theorem arith_ren (f : Nat → Nat) (fop : F64 → F64 → F64) (dop : Dec → Dec → Dec) (x y : Val) :
    arith fop dop (renV f x) (renV f y) = arith fop dop x y := by
  unfold arith; rw [toFloatPair_ren, toDecimal_ren, toDecimal_ren]

theorem arith_atom (fop : F64 → F64 → F64) (dop : Dec → Dec → Dec) (x y : Val) :
    ∀ v, arith fop dop x y = .ok v → Atom v := by
  intro v hv
  unfold arith at hv
  split at hv
  · exact checkF_atom _ v hv
  · split at hv
    · cases hv
    · split at hv
      · cases hv
      · exact checkD_atom _ v hv

theorem cmpOp_ren (f : Nat → Nat) (g : Dec → Dec → Bool) (x y : Val) :
    cmpOp g (renV f x) (renV f y) = cmpOp g x y := by
  unfold cmpOp; rw [toDecimal_ren, toDecimal_ren]

theorem cmpOp_atom (g : Dec → Dec → Bool) (x y : Val) : Atom (cmpOp g x y) := by
  unfold cmpOp
  split
  · exact Or.inl rfl
  · split
    · exact Or.inl rfl
    · exact Or.inr (Or.inl ⟨_, rfl⟩)

/-- the binary operators: arithmetic and ordering see numbers only, `==`/`!=` compare strings for equality -/
theorem applyBinOp_rr {f : Nat → Nat} (hm : Mono f) (op : BinOp) {l r : Val} (hl : RnV f l = true)
    (hr : RnV f r = true) : RRV f (applyBinOp op l r) (applyBinOp op (renV f l) (renV f r)) := by
  cases op
  case eq =>
    simp only [applyBinOp, equalR_ren hm hl hr]
    refine rr_atom fun v hv => ?_
    cases he : equalR l r <;> rw [he] at hv <;> simp only [bind, Res.bind, pure] at hv <;> try (cases hv)
    exact Or.inr (Or.inl ⟨_, rfl⟩)
  case ne =>
    simp only [applyBinOp, equalR_ren hm hl hr]
    refine rr_atom fun v hv => ?_
    cases he : equalR l r <;> rw [he] at hv <;> simp only [bind, Res.bind, pure] at hv <;> try (cases hv)
    exact Or.inr (Or.inl ⟨_, rfl⟩)
  case lt =>
    simp only [applyBinOp, less, cmpOp_ren]
    exact rr_atom fun v hv => by cases hv; exact cmpOp_atom _ _ _
  case le =>
    simp only [applyBinOp, lessOrEqual, cmpOp_ren]
    exact rr_atom fun v hv => by cases hv; exact cmpOp_atom _ _ _
  case gt =>
    simp only [applyBinOp, greater, cmpOp_ren]
    exact rr_atom fun v hv => by cases hv; exact cmpOp_atom _ _ _
  case ge =>
    simp only [applyBinOp, greaterOrEqual, cmpOp_ren]
    exact rr_atom fun v hv => by cases hv; exact cmpOp_atom _ _ _
  all_goals
    simp only [applyBinOp, add, subtract, multiply, divide, integerDivide, modulo, arith_ren]
    exact rr_atom (arith_atom _ _ _ _)

/-! ## `to_array` -/

theorem toArray_rr {f : Nat → Nat} (_hm : Mono f) {a : Val} (ha : RnV f a = true) :
    RRV f (.ok (toArray a)) (.ok (toArray (renV f a))) := by
  cases a with
  | arr t xs => simp only [renV, toArray]; exact RRV.of_ok ha (renV_arr f t xs)
  | _ =>
    simp only [renV, toArray]
    exact RRV.of_ok (rn_arr.mpr (rnVL_cons.mpr ⟨ha, rfl⟩)) (by simp only [renV, renVL])

/-! ## objects -/

theorem values_rr {f : Nat → Nat} (_hm : Mono f) {a : Val} (ha : RnV f a = true) :
    RRV f (values a) (values (renV f a)) := by
  cases a with
  | obj kvs =>
    simp only [renV, values]
    rw [map_snd_renVF]
    exact RRV.of_ok (rn_arr.mpr (rnVL_values (rn_obj.mp ha))) (renV_arr f _ _)
  | _ => simp only [renV, values]; exact RR.errType

theorem keys_rr {f : Nat → Nat} (_hm : Mono f) {a : Val} (ha : RnV f a = true) :
    RRV f (keys a) (keys (renV f a)) := by
  cases a with
  | obj kvs =>
    have h := rn_obj.mp ha
    simp only [renV, keys]
    refine RRV.of_ok (rn_arr.mpr (rnVL_iff.mpr ?_)) ?_
    · intro x hx
      obtain ⟨kv, hkv, rfl⟩ := List.mem_map.1 hx
      exact rn_str.mpr (rnVF_iff.mp h kv hkv).1
    · rw [renV_arr, renVL_eq_map, renVF_eq_map, List.map_map, List.map_map]
      congr 1
      all_goals (apply List.map_congr_left; intro kv _; simp only [Function.comp, renV])
  | _ => simp only [renV, keys]; exact RR.errType

theorem items_rr {f : Nat → Nat} (_hm : Mono f) {a : Val} (ha : RnV f a = true) :
    RRV f (items a) (items (renV f a)) := by
  cases a with
  | obj kvs =>
    have h := rn_obj.mp ha
    simp only [renV, items]
    refine RRV.of_ok (rn_arr.mpr (rnVL_iff.mpr ?_)) ?_
    · intro x hx
      obtain ⟨kv, hkv, rfl⟩ := List.mem_map.1 hx
      have := rnVF_iff.mp h kv hkv
      exact rn_arr.mpr (rnVL_cons.mpr ⟨rn_str.mpr this.1, rnVL_cons.mpr ⟨this.2, rfl⟩⟩)
    · rw [renV_arr, renVL_eq_map, renVF_eq_map, List.map_map, List.map_map]
      congr 1
      all_goals (apply List.map_congr_left; intro kv _; simp only [Function.comp, renV, renVL])
  | _ => simp only [renV, items]; exact RR.errType

theorem fromItemsLoop_rr {f : Nat → Nat} (hm : Mono f) : ∀ {xs : List Val} {acc : List (Bytes × Val)},
    RnVL f xs = true → RnVF f acc = true →
    RR (fun kvs => RnVF f kvs = true) (renVF f) (fromItemsLoop xs acc) (fromItemsLoop (renVL f xs) (renVF f acc))
  | [], acc, _, ha => by simp only [renVL, fromItemsLoop]; exact RR.ok ha
  | x :: xs, acc, h, ha => by
    have h' := rnVL_cons.mp h
    cases x with
    | arr t ia =>
      have hia := rn_arr.mp h'.1
      rcases ia with _ | ⟨k, _ | ⟨v, _ | ⟨w, rest⟩⟩⟩
      · simp only [renVL, renV, fromItemsLoop]; exact RR.errValue
      · simp only [renVL, renV, fromItemsLoop]; exact RR.errValue
      · have hk := (rnVL_cons.mp hia).1
        have hv := (rnVL_cons.mp (rnVL_cons.mp hia).2).1
        have e2 : ∀ p q : Val, enum2 t [p, q] = (t == .enum) := fun _ _ => by simp [enum2]
        cases k with
        | str s =>
          simp only [renVL, renV, fromItemsLoop, e2]
          split
          · exact RR.nondet
          · rw [objInsert_ren hm (rn_str.mp hk) v ha]
            exact fromItemsLoop_rr hm h'.2 (rnVF_objInsert (rn_str.mp hk) hv ha)
        | _ =>
          simp only [renVL, renV, fromItemsLoop, e2]
          split
          · exact RR.nondet
          · exact RR.errValue
      · simp only [renVL, renV, fromItemsLoop]; exact RR.errValue
    | _ => simp only [renVL, renV, fromItemsLoop]; exact RR.errType

theorem pairKey_ren (f : Nat → Nat) (x : Val) : pairKey (renV f x) = (pairKey x).map (renB f) := by
  cases x with
  | arr t ia =>
    rcases ia with _ | ⟨k, _ | ⟨v, _ | ⟨w, rest⟩⟩⟩
    · simp [renV, renVL, pairKey]
    · cases k <;> simp [renV, renVL, pairKey]
    · cases k <;> simp [renV, renVL, pairKey]
    · cases k <;> simp [renV, renVL, pairKey]
  | _ => simp [renV, pairKey]

theorem filterMap_pairKey_ren (f : Nat → Nat) : ∀ xs : List Val,
    (renVL f xs).filterMap pairKey = (xs.filterMap pairKey).map (renB f)
  | [] => by simp only [renVL, List.filterMap_nil, List.map_nil]
  | x :: xs => by
    simp only [renVL, List.filterMap_cons, pairKey_ren, filterMap_pairKey_ren f xs]
    cases pairKey x <;> simp

theorem pairKey_rn {f : Nat → Nat} {x : Val} (hx : RnV f x = true) {s : Bytes} (h : pairKey x = some s) :
    rnB f s = true := by
  cases x with
  | arr t ia =>
    rcases ia with _ | ⟨k, _ | ⟨v, _ | ⟨w, rest⟩⟩⟩ <;> simp only [pairKey] at h <;> try (cases h)
    cases k <;> simp only [pairKey] at h <;> try (cases h)
    exact rn_str.mp (rnVL_cons.mp (rn_arr.mp hx)).1
  | _ => simp only [pairKey] at h; cases h

theorem hasDupKeys_ren {f : Nat → Nat} (hm : Mono f) : ∀ ks : List Bytes, (∀ k ∈ ks, rnB f k = true) →
    hasDupKeys (ks.map (renB f)) = hasDupKeys ks
  | [], _ => rfl
  | k :: ks, h => by
    have hk := h k List.mem_cons_self
    have hks : ∀ x ∈ ks, rnB f x = true := fun x hx => h x (List.mem_cons_of_mem _ hx)
    simp only [List.map_cons, hasDupKeys]
    rw [hasDupKeys_ren hm ks hks]
    congr 1
    rw [Bool.eq_iff_iff]
    simp only [List.contains_iff_mem, List.mem_map]
    constructor
    · rintro ⟨a, ha, e⟩
      rw [renB_inj hm (hks a ha) hk e] at ha; exact ha
    · intro hmem; exact ⟨k, hmem, rfl⟩

theorem fromItems_rr {f : Nat → Nat} (hm : Mono f) {a : Val} (ha : RnV f a = true) :
    RRV f (fromItems a) (fromItems (renV f a)) := by
  cases a with
  | arr t xs =>
    have h := rn_arr.mp ha
    have hl := fromItemsLoop_rr hm (acc := []) h rfl
    have hd : hasDupKeys ((renVL f xs).filterMap pairKey) = hasDupKeys (xs.filterMap pairKey) := by
      rw [filterMap_pairKey_ren]
      apply hasDupKeys_ren hm
      intro k hk
      obtain ⟨x, hx, e⟩ := List.mem_filterMap.1 hk
      exact pairKey_rn (rnVL_iff.mp h x hx) e
    simp only [renVF] at hl
    obtain ⟨e, inv⟩ := hl
    simp only [renV, fromItems, e, enum2_ren, hd]
    cases hr : fromItemsLoop xs [] with
    | ok kvs =>
      simp only [mapO]
      split
      · exact RR.nondet
      · exact RRV.of_ok (rn_obj.mpr (inv kvs hr)) (renV_obj f kvs)
    | err cs =>
      simp only [mapO]
      split
      · exact RR.err _
      · exact RR.err _
    | panic w => exact RR.panic w
    | nondet => exact RR.nondet
    | unmodelled w => exact RR.unmodelled w
  | _ => simp only [renV, fromItems]; exact RR.errType

/-! ## `max`, `min`, `sort` -/

theorem allStrings_eq : ∀ {xs : List Val} {ss : List Bytes}, allStrings xs = some ss → xs = ss.map Val.str
  | [], ss, h => by cases h; rfl
  | x :: xs, ss, h => by
    cases x <;> simp only [allStrings] at h <;> try (cases h)
    rename_i s
    cases h' : allStrings xs with
    | none => rw [h'] at h; cases h
    | some ss' =>
      rw [h'] at h; cases h
      rw [List.map_cons, ← allStrings_eq h']

/-- the number branch of `max` -/
def decMax (t : ATag) (xs : List Val) : Res Val :=
  match allDecimals xs with
  | some (d :: ds) => if enum2 t xs && !decsOrderFree (d :: ds) then .nondet else .ok (.num (.dec (maxDec d ds)))
  | _ => errType
def decMin (t : ATag) (xs : List Val) : Res Val :=
  match allDecimals xs with
  | some (d :: ds) => if enum2 t xs && !decsOrderFree (d :: ds) then .nondet else .ok (.num (.dec (minDec d ds)))
  | _ => errType

theorem arrayMax_nonstr (t : ATag) {x : Val} (rest : List Val) (h : ∀ s, x ≠ .str s) :
    arrayMax (.arr t (x :: rest)) = decMax t (x :: rest) := by
  cases x <;> first | rfl | exact absurd rfl (h _)
theorem arrayMin_nonstr (t : ATag) {x : Val} (rest : List Val) (h : ∀ s, x ≠ .str s) :
    arrayMin (.arr t (x :: rest)) = decMin t (x :: rest) := by
  cases x <;> first | rfl | exact absurd rfl (h _)

theorem decMax_ren (f : Nat → Nat) (t : ATag) (xs : List Val) : decMax t (renVL f xs) = decMax t xs := by
  unfold decMax; rw [allDecimals_ren, enum2_ren]
theorem decMin_ren (f : Nat → Nat) (t : ATag) (xs : List Val) : decMin t (renVL f xs) = decMin t xs := by
  unfold decMin; rw [allDecimals_ren, enum2_ren]

theorem decMax_atom (t : ATag) (xs : List Val) : ∀ v, decMax t xs = .ok v → Atom v := by
  intro v hv
  unfold decMax at hv
  split at hv
  · split at hv
    · cases hv
    · cases hv; exact Or.inr (Or.inr ⟨_, rfl⟩)
  · cases hv
theorem decMin_atom (t : ATag) (xs : List Val) : ∀ v, decMin t xs = .ok v → Atom v := by
  intro v hv
  unfold decMin at hv
  split at hv
  · split at hv
    · cases hv
    · cases hv; exact Or.inr (Or.inr ⟨_, rfl⟩)
  · cases hv

theorem renV_nonstr {f : Nat → Nat} {x : Val} (h : ∀ s, x ≠ .str s) : ∀ s, renV f x ≠ .str s := by
  cases x <;> simp only [renV] <;> first | exact absurd rfl (h _) | (intro s e; cases e)

theorem arrayMax_rr {f : Nat → Nat} (hm : Mono f) {a : Val} (ha : RnV f a = true) :
    RRV f (arrayMax a) (arrayMax (renV f a)) := by
  cases a with
  | arr t xs =>
    have h := rn_arr.mp ha
    cases xs with
    | nil => simp only [renV, renVL, arrayMax]; exact RRV.null
    | cons x rest =>
      have h' := rnVL_cons.mp h
      by_cases hx : ∃ s, x = .str s
      · obtain ⟨s, rfl⟩ := hx
        simp only [renV, renVL, arrayMax, allStrings_ren]
        cases hs : allStrings rest with
        | none => exact RR.errType
        | some ss =>
          have hss := allStrings_rn h'.2 hs
          have hs0 := rn_str.mp h'.1
          simp only [Option.map_some]
          rw [maxStr_rename hm ss s (rnB_iff.1 hs0) (fun x hx => rnB_iff.1 (hss x hx))]
          refine RRV.of_ok (rn_str.mpr ?_) (renV_str f _)
          rcases maxStr_mem ss s with e | e
          · rw [e]; exact hs0
          · exact hss _ e
      · have hx' : ∀ s, x ≠ .str s := fun s e => hx ⟨s, e⟩
        rw [renV_arr, renVL_cons, arrayMax_nonstr t rest hx', arrayMax_nonstr t _ (renV_nonstr hx'), ← renVL_cons,
          decMax_ren]
        exact rr_atom (decMax_atom _ _)
  | _ => simp only [renV, arrayMax]; exact RR.errType

theorem arrayMin_rr {f : Nat → Nat} (hm : Mono f) {a : Val} (ha : RnV f a = true) :
    RRV f (arrayMin a) (arrayMin (renV f a)) := by
  cases a with
  | arr t xs =>
    have h := rn_arr.mp ha
    cases xs with
    | nil => simp only [renV, renVL, arrayMin]; exact RRV.null
    | cons x rest =>
      have h' := rnVL_cons.mp h
      by_cases hx : ∃ s, x = .str s
      · obtain ⟨s, rfl⟩ := hx
        simp only [renV, renVL, arrayMin, allStrings_ren]
        cases hs : allStrings rest with
        | none => exact RR.errType
        | some ss =>
          have hss := allStrings_rn h'.2 hs
          have hs0 := rn_str.mp h'.1
          simp only [Option.map_some]
          rw [minStr_rename hm ss s (rnB_iff.1 hs0) (fun x hx => rnB_iff.1 (hss x hx))]
          refine RRV.of_ok (rn_str.mpr ?_) (renV_str f _)
          rcases minStr_mem ss s with e | e
          · rw [e]; exact hs0
          · exact hss _ e
      · have hx' : ∀ s, x ≠ .str s := fun s e => hx ⟨s, e⟩
        rw [renV_arr, renVL_cons, arrayMin_nonstr t rest hx', arrayMin_nonstr t _ (renV_nonstr hx'), ← renVL_cons,
          decMin_ren]
        exact rr_atom (decMin_atom _ _)
  | _ => simp only [renV, arrayMin]; exact RR.errType

/-- the number branch of `sort` -/
def decSort (xs : List Val) : Res Val :=
  match allDecimals xs with
  | some ds =>
    let sorted := (xs.zip ds).mergeSort (fun a b => Dec.compare a.2 b.2 ≤ 0)
    if hasAmbiguousTie sorted then .nondet else .ok (.arr .plain (sorted.map Prod.fst))
  | none => errType

theorem sortArray_nonstr (t : ATag) {x : Val} (rest : List Val) (h : ∀ s, x ≠ .str s) :
    sortArray (.arr t (x :: rest)) = decSort (x :: rest) := by
  cases x <;> first | rfl | exact absurd rfl (h _)

theorem allDecimals_mem : ∀ {xs : List Val} {ds : List Dec}, allDecimals xs = some ds →
    ∀ y ∈ xs, ∃ d, toDecimal y = some d
  | [], _, _, y, hy => by cases hy
  | x :: xs, ds, h, y, hy => by
    simp only [allDecimals] at h
    cases hd : toDecimal x with
    | none => rw [hd] at h; cases h
    | some d =>
      rw [hd] at h
      cases hr : allDecimals xs with
      | none => rw [hr] at h; cases h
      | some ds' =>
        rcases List.mem_cons.1 hy with rfl | hy
        · exact ⟨d, hd⟩
        · exact allDecimals_mem hr y hy

theorem renVL_fix {f : Nat → Nat} : ∀ {ys : List Val}, (∀ y ∈ ys, renV f y = y) → renVL f ys = ys
  | [], _ => by simp only [renVL]
  | y :: ys, h => by
    simp only [renVL]
    rw [h y List.mem_cons_self, renVL_fix (fun z hz => h z (List.mem_cons_of_mem _ hz))]

theorem sortArray_rr {f : Nat → Nat} (hm : Mono f) {a : Val} (ha : RnV f a = true) :
    RRV f (sortArray a) (sortArray (renV f a)) := by
  cases a with
  | arr t xs =>
    have h := rn_arr.mp ha
    cases xs with
    | nil => simp only [renV, renVL, sortArray]; exact RRV.of_ok rfl (by simp only [renV, renVL])
    | cons x rest =>
      by_cases hx : ∃ s, x = .str s
      · obtain ⟨s, rfl⟩ := hx
        cases hs : allStrings (.str s :: rest) with
        | none =>
          have e1 : sortArray (.arr t (.str s :: rest)) = errType := by simp only [sortArray, hs]
          have e2 : sortArray (renV f (.arr t (.str s :: rest))) = errType := by
            have := allStrings_ren f (.str s :: rest)
            rw [hs] at this
            simp only [renVL, renV, Option.map_none] at this
            simp only [renV, renVL, sortArray, this]
          rw [e1, e2]; exact RR.errType
        | some ss =>
          have hss := allStrings_rn h hs
          have e := allStrings_eq hs
          rw [e, renV_strs]
          have := C11R.sortArray_rename hm t ss (fun x hx => rnB_iff.1 (hss x hx))
          rw [mapRes_eq_mapO] at this
          refine ⟨this, ?_⟩
          intro v hv
          have e2 : sortArray (.arr t (ss.map Val.str))
              = .ok (.arr .plain ((ss.mergeSort (fun a b => !bytesLt b a)).map Val.str)) := by
            cases ss with
            | nil => cases e
            | cons s' rest' =>
              simp only [List.map_cons, sortArray]
              rw [← List.map_cons (f := Val.str), allStrings_strs]
          rw [e2] at hv
          cases hv
          exact rn_strs (fun s hs' => hss s (List.mem_mergeSort.1 hs'))
      · have hx' : ∀ s, x ≠ .str s := fun s e => hx ⟨s, e⟩
        rw [renV_arr, renVL_cons, sortArray_nonstr t rest hx', sortArray_nonstr t _ (renV_nonstr hx'), ← renVL_cons]
        cases hd : allDecimals (x :: rest) with
        | none =>
          have e1 : decSort (x :: rest) = errType := by unfold decSort; rw [hd]
          have e2 : decSort (renVL f (x :: rest)) = errType := by unfold decSort; rw [allDecimals_ren, hd]
          rw [e1, e2]; exact RR.errType
        | some ds =>
          rw [renVL_of_allDecimals hd]
          refine RR.same fun v hv => ?_
          unfold decSort at hv
          rw [hd] at hv
          simp only at hv
          split at hv
          · cases hv
          · cases hv
            have hmem : ∀ y ∈ (List.map Prod.fst ((x :: rest).zip ds |>.mergeSort fun a b => Dec.compare a.2 b.2 ≤ 0)),
                y ∈ x :: rest := by
              intro y hy
              obtain ⟨p, hp, rfl⟩ := List.mem_map.1 hy
              exact (List.of_mem_zip (List.mem_mergeSort.1 hp)).1
            refine ⟨rn_arr.mpr (rnVL_sub h hmem), ?_⟩
            rw [renV_arr, renVL_fix]
            intro y hy
            obtain ⟨d, hd'⟩ := allDecimals_mem hd y (hmem y hy)
            exact renV_of_toDecimal hd'
  | _ => simp only [renV, sortArray]; exact RR.errType

end Jmes.C11C
