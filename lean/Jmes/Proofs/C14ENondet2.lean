/-
  Helper for property C14, fourth round: the structural induction "up to declining" (see `C14ENondet.lean`).

    * `FnCongrN nf f` / `OpCongrN nf op` — the builtin / operator maps related arguments to outcomes related unless
      either side declines (`RN`).  `sum`, `avg`, `sort` satisfy it for every `nf` (`fnCongrN_sum`, `fnCongrN_avg`,
      `fnCongrN_sort`), and so does whatever is congruent outright (`fnCongrN_of_congr`, `opCongrN_of_congr`).
    * `seval_rnw` / `ieval_rnw` / `evaluate_rnw` — an expression all of whose operators are congruent in that sense
      (`TCongrN`; the weaker `TCongrW` suffices) maps related documents to outcomes in `RNW`: either run declines,
      or both end in a panic / unmodelled outcome, or the outcomes are related.
    * `evaluate_rn_of_not_bad` — … hence in `RN` when one of the two outcomes is not a panic / unmodelled.
    * `evaluate_rn_false` — the statement with `RN` outright is FALSE of the model: a multi-select hash lets an
      `unmodelled` outcome of one field override a `.nondet` of another, and the first-listed `unmodelled` win.
-/
import Jmes.Proofs.C14ENondet
namespace Jmes
namespace C14E
open C14 C14B

/-! ## 1. congruence up to declining -/

/-- the binary operator maps related operands to outcomes related unless either side declines -/
def OpCongrN (nf : Bool) (op : BinOp) : Prop :=
  ∀ a a' b b', VR nf a a' → VR nf b b' → RN (VR nf) (applyBinOp op a b) (applyBinOp op a' b')

/-- the builtin maps related argument lists to outcomes related unless either side declines -/
def FnCongrN (nf : Bool) (f : Fn) : Prop :=
  ∀ args args', VRL nf args args' → RN (VR nf) (applyFn f args) (applyFn f args')

/-- every operator of the expression is congruent for `VR nf` up to declining, every literal is related to itself -/
abbrev TCongrN (nf : Bool) (t : Tree) : Prop :=
  t.Ops (OpCongrN nf) (FnCongrN nf) (NegCongr nf) (fun v => VR nf v v)
abbrev TCongrNL (nf : Bool) (ts : List Tree) : Prop :=
  Tree.OpsL (OpCongrN nf) (FnCongrN nf) (NegCongr nf) (fun v => VR nf v v) ts
abbrev TCongrNF (nf : Bool) (fs : List (Bytes × Tree)) : Prop :=
  Tree.OpsF (OpCongrN nf) (FnCongrN nf) (NegCongr nf) (fun v => VR nf v v) fs

/-- the same with `RNW` (weaker, and all the induction needs) -/
def OpCongrW (nf : Bool) (op : BinOp) : Prop :=
  ∀ a a' b b', VR nf a a' → VR nf b b' → RNW (VR nf) (applyBinOp op a b) (applyBinOp op a' b')
def FnCongrW (nf : Bool) (f : Fn) : Prop :=
  ∀ args args', VRL nf args args' → RNW (VR nf) (applyFn f args) (applyFn f args')
abbrev TCongrW (nf : Bool) (t : Tree) : Prop :=
  t.Ops (OpCongrW nf) (FnCongrW nf) (NegCongr nf) (fun v => VR nf v v)
abbrev TCongrWL (nf : Bool) (ts : List Tree) : Prop :=
  Tree.OpsL (OpCongrW nf) (FnCongrW nf) (NegCongr nf) (fun v => VR nf v v) ts
abbrev TCongrWF (nf : Bool) (fs : List (Bytes × Tree)) : Prop :=
  Tree.OpsF (OpCongrW nf) (FnCongrW nf) (NegCongr nf) (fun v => VR nf v v) fs

section
variable {nf : Bool}

theorem opCongrN_of_congr {op : BinOp} (h : OpCongr nf op) : OpCongrN nf op :=
  fun a a' b b' ha hb => RN.of_rr (h a a' b b' ha hb)

theorem fnCongrN_of_congr {f : Fn} (h : FnCongr nf f) : FnCongrN nf f :=
  fun args args' ha => RN.of_rr (h args args' ha)

theorem opCongrW_of_N {op : BinOp} (h : OpCongrN nf op) : OpCongrW nf op :=
  fun a a' b b' ha hb => (h a a' b b' ha hb).toG

theorem fnCongrW_of_N {f : Fn} (h : FnCongrN nf f) : FnCongrW nf f :=
  fun args args' ha => (h args args' ha).toG

/-- an expression of the fragment `TCongr` is in `TCongrN` -/
theorem tcongrN_of_congr {t : Tree} (h : TCongr nf t) : TCongrN nf t :=
  Tree.Ops.mono (fun _ => opCongrN_of_congr) (fun _ => fnCongrN_of_congr) id (fun _ => id) t h

theorem tcongrW_of_N {t : Tree} (h : TCongrN nf t) : TCongrW nf t :=
  Tree.Ops.mono (fun _ => opCongrW_of_N) (fun _ => fnCongrW_of_N) id (fun _ => id) t h

/-! ## 2. `sum`, `avg`, `sort` -/

/-- `sum` on related values: related unless either side declines -/
theorem numSum_vr_rn {v v' : Val} (h : VR nf v v') : RN (VR nf) (numSum v) (numSum v') := by
  cases v <;> cases v' <;> simp only [VR] at h <;> try (simp only [numSum]; exact RN.of_rr rr_errType)
  next t xs u xs' =>
  obtain ⟨rfl, hx⟩ := h
  exact numSum_rn hx

theorem numAvg_vr_rn {v v' : Val} (h : VR nf v v') : RN (VR nf) (numAvg v) (numAvg v') := by
  cases v <;> cases v' <;> simp only [VR] at h <;> try (simp only [numAvg]; exact RN.of_rr rr_errType)
  next t xs u xs' =>
  obtain ⟨rfl, hx⟩ := h
  exact numAvg_rn hx

theorem sortArray_vr_rn {v v' : Val} (h : VR nf v v') : RN (VR nf) (sortArray v) (sortArray v') := sortArray_rr h

/-- **`sum` is congruent up to declining, whatever the array (map-ordered or not) and for every `nf`.** -/
theorem fnCongrN_sum : FnCongrN nf .sum := by
  intro args args' h
  rcases args with _ | ⟨a, _ | ⟨b, r⟩⟩ <;> rcases args' with _ | ⟨a', _ | ⟨b', r'⟩⟩ <;>
    simp only [VRL, and_true, and_false] at h <;> simp only [applyFn]
  · exact RN.of_rr (by simp [RR])
  · exact numSum_vr_rn h
  · exact RN.of_rr (by simp [RR])

/-- **`avg` is congruent up to declining** -/
theorem fnCongrN_avg : FnCongrN nf .avg := by
  intro args args' h
  rcases args with _ | ⟨a, _ | ⟨b, r⟩⟩ <;> rcases args' with _ | ⟨a', _ | ⟨b', r'⟩⟩ <;>
    simp only [VRL, and_true, and_false] at h <;> simp only [applyFn]
  · exact RN.of_rr (by simp [RR])
  · exact numAvg_vr_rn h
  · exact RN.of_rr (by simp [RR])

/-- **`sort` is congruent up to declining** (it declines on a tie between equal numbers that are not identical) -/
theorem fnCongrN_sort : FnCongrN nf .sort := by
  intro args args' h
  rcases args with _ | ⟨a, _ | ⟨b, r⟩⟩ <;> rcases args' with _ | ⟨a', _ | ⟨b', r'⟩⟩ <;>
    simp only [VRL, and_true, and_false] at h <;> simp only [applyFn]
  · exact RN.of_rr (by simp [RR])
  · exact sortArray_vr_rn h
  · exact RN.of_rr (by simp [RR])

/-! ## 3. the structural induction -/

mutual
/-- **Representation independence up to declining, reference semantics.**  If every operator of `t` is congruent up
    to declining, then on related root documents, current values and environments the two outcomes are in `RNW`:
    either run declines, or both end in a panic / unmodelled outcome, or they are related (`RR`). -/
theorem seval_rnw {root root' : Val} (hroot : VR nf root root') : (t : Tree) → TCongrW nf t →
    ∀ (cur cur' : Val) (env env' : Env), VR nf cur cur' → VRF nf env env' →
      RNW (VR nf) (seval root t cur env) (seval root' t cur' env')
  | .lit v, h, _, _, _, _, _, _ => by
    simp only [Tree.Ops] at h
    simp only [seval]; exact RNG.ok' h
  | .current, _, _, _, _, _, hc, _ => by simp only [seval]; exact RNG.ok' hc
  | .root, _, _, _, _, _, _, _ => by simp only [seval]; exact RNG.ok' hroot
  | .field k, _, _, _, _, _, hc, _ => by simp only [seval]; exact RNG.ok' (field_vr k hc)
  | .var x, _, _, _, env, env', _, he => by simp only [seval]; exact RNG.of_rr (envGet_rr he x)
  | .index i, _, _, _, _, _, hc, _ => by simp only [seval]; exact RNG.of_rr (index_rr hc i)
  | .slice a b, _, _, _, _, _, hc, _ => by simp only [seval]; exact RNG.of_rr (slice_rr hc a b)
  | .sliceStep a b s, _, _, _, _, _, hc, _ => by simp only [seval]; exact RNG.of_rr (sliceStep_rr hc a b s)
  | .sub l r, h, cur, cur', env, env', hc, he => by
    simp only [Tree.Ops] at h
    simp only [seval]
    exact RNG.bind (seval_rnw hroot l h.1 cur cur' env env' hc he)
      (fun a a' ha => seval_rnw hroot r h.2 a a' env env' ha he)
  | .binop op l r, h, cur, cur', env, env', hc, he => by
    simp only [Tree.Ops] at h
    simp only [seval]
    exact RNG.bind (seval_rnw hroot l h.2.1 cur cur' env env' hc he)
      (fun a a' ha => RNG.bind (seval_rnw hroot r h.2.2 cur cur' env env' hc he)
        (fun b b' hb => h.1 a a' b b' ha hb))
  | .and l r, h, cur, cur', env, env', hc, he => by
    simp only [Tree.Ops] at h
    simp only [seval]
    refine RNG.bind (seval_rnw hroot l h.1 cur cur' env env' hc he) (fun a a' ha => ?_)
    rw [isTrue_vr ha]
    split
    · exact RNG.ok' ha
    · exact seval_rnw hroot r h.2 cur cur' env env' hc he
  | .or l r, h, cur, cur', env, env', hc, he => by
    simp only [Tree.Ops] at h
    simp only [seval]
    refine RNG.bind (seval_rnw hroot l h.1 cur cur' env env' hc he) (fun a a' ha => ?_)
    rw [isTrue_vr ha]
    split
    · exact RNG.ok' ha
    · exact seval_rnw hroot r h.2 cur cur' env env' hc he
  | .not c, h, cur, cur', env, env', hc, he => by
    simp only [Tree.Ops] at h
    simp only [seval]
    refine RNG.bind (seval_rnw hroot c h cur cur' env env' hc he) (fun a a' ha => ?_)
    rw [isTrue_vr ha]; exact RNG.ok' (vr_bool _)
  | .neg c, h, cur, cur', env, env', hc, he => by
    simp only [Tree.Ops] at h
    simp only [seval]
    exact RNG.bind (seval_rnw hroot c h.2 cur cur' env env' hc he) (fun a a' ha => RNG.ok' (h.1 a a' ha))
  | .pos c, h, cur, cur', env, env', hc, he => by
    simp only [Tree.Ops] at h
    simp only [seval]
    refine RNG.bind (seval_rnw hroot c h cur cur' env env' hc he) (fun a a' ha => ?_)
    simp only [Res.pure_eq, isNumber_vr ha]
    split
    · exact RNG.ok' ha
    · exact RNG.ok' vr_null
  | .call f args, h, cur, cur', env, env', hc, he => by
    simp only [Tree.Ops] at h
    simp only [seval]
    exact RNG.bind (sevalList_rnw hroot args h.2 cur cur' env env' hc he) (fun vs vs' hvs => h.1 vs vs' hvs)
  | .prune l, h, cur, cur', env, env', hc, he => by
    simp only [Tree.Ops] at h
    simp only [seval]
    exact RNG.bind (seval_rnw hroot l h cur cur' env env' hc he) (fun a a' ha => RNG.ok' (pruneArray_vr ha))
  | .proj l r, h, cur, cur', env, env', hc, he => by
    simp only [Tree.Ops] at h
    simp only [seval]
    exact RNG.bind (seval_rnw hroot l h.1 cur cur' env env' hc he)
      (fun a a' ha => projectArray_rg (fun x x' hx => seval_rnw hroot r h.2 x x' env env' hx he) ha)
  | .sliceProj l r, h, cur, cur', env, env', hc, he => by
    simp only [Tree.Ops] at h
    simp only [seval]
    refine RNG.bind (seval_rnw hroot l h.1 cur cur' env env' hc he) (fun a a' ha => ?_)
    have hp := projectArray_rg (w := true) (fun x x' hx => seval_rnw hroot r h.2 x x' env env' hx he) ha
    cases a <;> cases a' <;> simp only [VR] at ha <;> try exact hp
    exact seval_rnw hroot r h.2 _ _ env env' (by simp only [VR]; exact ha) he
  | .flatProj l r, h, cur, cur', env, env', hc, he => by
    simp only [Tree.Ops] at h
    simp only [seval]
    exact RNG.bind (seval_rnw hroot l h.1 cur cur' env env' hc he)
      (fun a a' ha => flattenAndProjectArray_rg (fun x x' hx => seval_rnw hroot r h.2 x x' env env' hx he) ha)
  | .filterProj l c r, h, cur, cur', env, env', hc, he => by
    simp only [Tree.Ops] at h
    simp only [seval]
    exact RNG.bind (seval_rnw hroot l h.1 cur cur' env env' hc he)
      (fun a a' ha => filterAndProjectArray_rg (fun x x' hx => seval_rnw hroot c h.2.1 x x' env env' hx he)
        (fun x x' hx => seval_rnw hroot r h.2.2 x x' env env' hx he) ha)
  | .valueProj l r, h, cur, cur', env, env', hc, he => by
    simp only [Tree.Ops] at h
    simp only [seval]
    exact RNG.bind (seval_rnw hroot l h.1 cur cur' env env' hc he)
      (fun a a' ha => projectObject_rg (fun x x' hx => seval_rnw hroot r h.2 x x' env env' hx he) ha)
  | .multiList chk es, h, cur, cur', env, env', hc, he => by
    simp only [Tree.Ops] at h
    simp only [seval, isNull_vr hc]
    split
    · exact RNG.ok' vr_null
    · exact RNG.bind (sevalList_rnw hroot es h cur cur' env env' hc he) (fun vs vs' hvs => RNG.ok' (vr_arr hvs))
  | .multiHash chk kvs, h, cur, cur', env, env', hc, he => by
    simp only [Tree.Ops] at h
    simp only [seval, isNull_vr hc]
    split
    · exact RNG.ok' vr_null
    · exact RNG.bind (sevalFields_rnw hroot kvs h cur cur' env env' hc he) (fun fs fs' hfs => RNG.ok' (vr_obj hfs))
  | .letIn bs body, h, cur, cur', env, env', hc, he => by
    simp only [Tree.Ops] at h
    simp only [seval]
    exact RNG.bind (sevalFields_rnw hroot bs h.1 cur cur' env env' hc he)
      (fun vs vs' hvs => seval_rnw hroot body h.2 cur cur' (vs ++ env) (vs' ++ env') hc (vrf_append hvs he))
  | .groupBy a e, h, cur, cur', env, env', hc, he => by
    simp only [Tree.Ops] at h
    simp only [seval]
    exact RNG.bind (seval_rnw hroot a h.1 cur cur' env env' hc he)
      (fun v v' hv => groupBy_rg (fun x x' hx => seval_rnw hroot e h.2 x x' env env' hx he) hv)
  | .map e a, h, cur, cur', env, env', hc, he => by
    simp only [Tree.Ops] at h
    simp only [seval]
    exact RNG.bind (seval_rnw hroot a h.2 cur cur' env env' hc he)
      (fun v v' hv => mapArray_rg (fun x x' hx => seval_rnw hroot e h.1 x x' env env' hx he) hv)
  | .maxBy a e, h, cur, cur', env, env', hc, he => by
    simp only [Tree.Ops] at h
    simp only [seval]
    exact RNG.bind (seval_rnw hroot a h.1 cur cur' env env' hc he)
      (fun v v' hv => arrayMaxBy_rg (fun x x' hx => seval_rnw hroot e h.2 x x' env env' hx he) hv)
  | .minBy a e, h, cur, cur', env, env', hc, he => by
    simp only [Tree.Ops] at h
    simp only [seval]
    exact RNG.bind (seval_rnw hroot a h.1 cur cur' env env' hc he)
      (fun v v' hv => arrayMinBy_rg (fun x x' hx => seval_rnw hroot e h.2 x x' env env' hx he) hv)
  | .sortBy a e, h, cur, cur', env, env', hc, he => by
    simp only [Tree.Ops] at h
    simp only [seval]
    exact RNG.bind (seval_rnw hroot a h.1 cur cur' env env' hc he)
      (fun v v' hv => sortArrayBy_rg (fun x x' hx => seval_rnw hroot e h.2 x x' env env' hx he) hv)
  | .merge args, h, cur, cur', env, env', hc, he => by
    simp only [Tree.Ops] at h
    simp only [seval]
    exact RNG.bind (sevalMerge_rnw hroot args h cur cur' env env' [] [] hc he vrf_nil)
      (fun kvs kvs' hk => RNG.ok' (vr_obj hk))
  | .notNull args, h, cur, cur', env, env', hc, he => by
    simp only [Tree.Ops] at h
    simp only [seval]
    exact sevalNotNull_rnw hroot args h cur cur' env env' hc he
  | .zip args, h, cur, cur', env, env', hc, he => by
    simp only [Tree.Ops] at h
    simp only [seval]
    refine RNG.bind (sevalZip_rnw hroot args h cur cur' env env' hc he) (fun vs vs' hvs =>
      RNG.bind (RNG.of_rr (zipArgs_rr hvs)) (fun cols cols' hcols => ?_))
    cases cols with
    | nil => cases cols' with
      | nil => exact RNG.ok' (vr_arr vrl_nil)
      | cons _ _ => simp [L2] at hcols
    | cons c cs => cases cols' with
      | nil => simp [L2] at hcols
      | cons c' cs' =>
        have hcols' := hcols
        simp only [L2] at hcols
        simp only [vrl_length hcols.1, minLen_cols _ hcols.2]
        exact RNG.ok' (vr_arr (zipRows_vrl _ hcols'))
theorem sevalList_rnw {root root' : Val} (hroot : VR nf root root') : (ts : List Tree) → TCongrWL nf ts →
    ∀ (cur cur' : Val) (env env' : Env), VR nf cur cur' → VRF nf env env' →
      RNW (VRL nf) (sevalList root ts cur env) (sevalList root' ts cur' env')
  | [], _, _, _, _, _, _, _ => by simp only [sevalList]; exact RNG.ok' vrl_nil
  | t :: ts, h, cur, cur', env, env', hc, he => by
    simp only [Tree.OpsL] at h
    simp only [sevalList]
    exact RNG.bind (seval_rnw hroot t h.1 cur cur' env env' hc he)
      (fun v v' hv => RNG.bind (sevalList_rnw hroot ts h.2 cur cur' env env' hc he)
        (fun vs vs' hvs => RNG.ok' (vrl_cons hv hvs)))
theorem sevalFields_rnw {root root' : Val} (hroot : VR nf root root') : (fs : List (Bytes × Tree)) → TCongrWF nf fs →
    ∀ (cur cur' : Val) (env env' : Env), VR nf cur cur' → VRF nf env env' →
      RNW (VRF nf) (sevalFields root fs cur env) (sevalFields root' fs cur' env')
  | [], _, _, _, _, _, _, _ => by simp only [sevalFields]; exact RNG.ok' vrf_nil
  | (k, t) :: rest, h, cur, cur', env, env', hc, he => by
    simp only [Tree.OpsF] at h
    simp only [sevalFields]
    exact combineUnordered_rnw k (sevalFields_rnw hroot rest h.2 cur cur' env env' hc he)
      (seval_rnw hroot t h.1 cur cur' env env' hc he)
theorem sevalMerge_rnw {root root' : Val} (hroot : VR nf root root') : (ts : List Tree) → TCongrWL nf ts →
    ∀ (cur cur' : Val) (env env' : Env) (acc acc' : List (Bytes × Val)), VR nf cur cur' → VRF nf env env' →
      VRF nf acc acc' → RNW (VRF nf) (sevalMerge root ts cur env acc) (sevalMerge root' ts cur' env' acc')
  | [], _, _, _, _, _, _, _, _, _, ha => by simp only [sevalMerge]; exact RNG.ok' ha
  | t :: ts, h, cur, cur', env, env', acc, acc', hc, he, ha => by
    simp only [Tree.OpsL] at h
    simp only [sevalMerge]
    refine RNG.bind (seval_rnw hroot t h.1 cur cur' env env' hc he) (fun v v' hv => ?_)
    cases v <;> cases v' <;> simp only [VR] at hv <;> try exact rg_errType
    exact sevalMerge_rnw hroot ts h.2 cur cur' env env' _ _ hc he (foldInsert_vrf hv ha)
theorem sevalNotNull_rnw {root root' : Val} (hroot : VR nf root root') : (ts : List Tree) → TCongrWL nf ts →
    ∀ (cur cur' : Val) (env env' : Env), VR nf cur cur' → VRF nf env env' →
      RNW (VR nf) (sevalNotNull root ts cur env) (sevalNotNull root' ts cur' env')
  | [], _, _, _, _, _, _, _ => by simp only [sevalNotNull]; exact RNG.ok' vr_null
  | t :: ts, h, cur, cur', env, env', hc, he => by
    simp only [Tree.OpsL] at h
    simp only [sevalNotNull]
    refine RNG.bind (seval_rnw hroot t h.1 cur cur' env env' hc he) (fun v v' hv => ?_)
    rw [isNull_vr hv]
    split
    · exact sevalNotNull_rnw hroot ts h.2 cur cur' env env' hc he
    · exact RNG.ok' hv
theorem sevalZip_rnw {root root' : Val} (hroot : VR nf root root') : (ts : List Tree) → TCongrWL nf ts →
    ∀ (cur cur' : Val) (env env' : Env), VR nf cur cur' → VRF nf env env' →
      RNW (VRL nf) (sevalZip root ts cur env) (sevalZip root' ts cur' env')
  | [], _, _, _, _, _, _, _ => by simp only [sevalZip]; exact RNG.ok' vrl_nil
  | t :: ts, h, cur, cur', env, env', hc, he => by
    simp only [Tree.OpsL] at h
    simp only [sevalZip]
    refine RNG.bind (seval_rnw hroot t h.1 cur cur' env env' hc he) (fun v v' hv => ?_)
    have hv' := hv
    cases v <;> cases v' <;> simp only [VR] at hv <;> try exact rg_errType
    exact RNG.bind (sevalZip_rnw hroot ts h.2 cur cur' env env' hc he) (fun vs vs' hvs => RNG.ok' (vrl_cons hv' hvs))
end

/-- … for the Go-shaped evaluator over `INode` (through the refinement `ieval = seval ∘ desugar`) -/
theorem ieval_rnw {n : INode} (hn : TCongrW nf (desugar n)) {root root' cur cur' : Val} {env env' : Env}
    (hr : VR nf root root') (hc : VR nf cur cur') (he : VRF nf env env') :
    RNW (VR nf) (ieval root n cur env) (ieval root' n cur' env') := by
  rw [ieval_desugar, ieval_desugar]; exact seval_rnw hr _ hn cur cur' env env' hc he

/-- **`evaluator.Evaluate(node, data)` on two documents that differ only in the Go types carrying their numbers, for
    an expression that may use `sum`, `avg`, `sort`**: either run declines (`.nondet`), or both end in a panic /
    unmodelled outcome, or the outcomes are related (values related by `VR nf`, or the same failure). -/
theorem evaluate_rnw {n : INode} (hn : TCongrN nf (desugar n)) {d d' : Val} (h : VR nf d d') :
    RNW (VR nf) (evaluate n d) (evaluate n d') :=
  ieval_rnw (tcongrW_of_N hn) h h vrf_nil

/-- the reference semantics, conclusion `RN`: when one of the two outcomes is not a panic / unmodelled -/
theorem seval_rn_of_not_bad {root root' : Val} (hroot : VR nf root root') (t : Tree) (ht : TCongrN nf t)
    (cur cur' : Val) (env env' : Env) (hc : VR nf cur cur') (he : VRF nf env env')
    (hb : ¬ (Bad (seval root t cur env) ∧ Bad (seval root' t cur' env'))) :
    RN (VR nf) (seval root t cur env) (seval root' t cur' env') :=
  RN.of_rnw (seval_rnw hroot t (tcongrW_of_N ht) cur cur' env env' hc he) hb

theorem ieval_rn_of_not_bad {n : INode} (hn : TCongrN nf (desugar n)) {root root' cur cur' : Val} {env env' : Env}
    (hr : VR nf root root') (hc : VR nf cur cur') (he : VRF nf env env')
    (hb : ¬ (Bad (ieval root n cur env) ∧ Bad (ieval root' n cur' env'))) :
    RN (VR nf) (ieval root n cur env) (ieval root' n cur' env') :=
  RN.of_rnw (ieval_rnw (tcongrW_of_N hn) hr hc he) hb

/-- **… with the conclusion asked for (`RN`): either run declines, or the outcomes are related — provided one of the
    two runs does not end in a panic / unmodelled outcome.**  (Without the proviso the statement is false:
    `evaluate_rn_false`.) -/
theorem evaluate_rn_of_not_bad {n : INode} (hn : TCongrN nf (desugar n)) {d d' : Val} (h : VR nf d d')
    (hb : ¬ (Bad (evaluate n d) ∧ Bad (evaluate n d'))) :
    RN (VR nf) (evaluate n d) (evaluate n d') :=
  RN.of_rnw (evaluate_rnw hn h) hb

/-- in particular: a value on one side is matched by a related value on the other side, unless that side declines -/
theorem evaluate_ok_rn {n : INode} (hn : TCongrN nf (desugar n)) {d d' : Val} (h : VR nf d d') {v : Val}
    (hv : evaluate n d = .ok v) : evaluate n d' = .nondet ∨ ∃ v', evaluate n d' = .ok v' ∧ VR nf v v' := by
  have := evaluate_rnw hn h
  rw [hv] at this
  rcases this with e | e | e | e
  · cases e
  · exact .inl e
  · exact absurd e.2.1 (by simp [Bad])
  · cases h2 : evaluate n d' <;> rw [h2] at e <;> simp only [RR] at e
    exact .inr ⟨_, rfl, e⟩

end
/-! ## 3b. the fragments, now with `sum`, `avg`, `sort` (and `/` when float-free) -/

section
variable {nf : Bool}

/-- **every builtin but `to_string` is congruent up to declining**, floats or not -/
theorem fnCongrN_of_ne_toString {f : Fn} (h : f ≠ .toString) : FnCongrN nf f := by
  cases f <;> first
    | exact absurd rfl h
    | exact fnCongrN_sum
    | exact fnCongrN_avg
    | exact fnCongrN_sort
    | exact fnCongrN_of_congr (fnCongr_round rfl)
    | exact fnCongrN_of_congr (fnCongr_plain rfl)

/-- the float-free fragment: every binary operator (`/` included, `C14E.opCongr_all_true`), every builtin but
    `to_string`, every literal a proper float-free number -/
def FragN (t : Tree) : Prop :=
  t.Ops (fun _ => True) (fun f => f ≠ .toString) True (fun v => v.Valued ∧ v.NoFloat)

/-- … when floats may occur: comparison operators only, every builtin but `to_string` -/
def FragNF (t : Tree) : Prop :=
  t.Ops (fun op => op.isCmp = true) (fun f => f ≠ .toString) True (fun v => v.Valued)

theorem tcongrN_of_fragN {t : Tree} (h : FragN t) : TCongrN true t :=
  Tree.Ops.mono (fun op _ => opCongrN_of_congr (opCongr_all_true op)) (fun _ h => fnCongrN_of_ne_toString h)
    (fun _ => negCongr_true) (fun v h => vr_self v h.1 (fun _ => h.2)) t h

theorem tcongrN_of_fragNF {t : Tree} (h : FragNF t) : TCongrN false t :=
  Tree.Ops.mono (fun _ h => opCongrN_of_congr (opCongr_cmp h)) (fun _ h => fnCongrN_of_ne_toString h)
    (fun _ => negCongr) (fun v h => vr_self v h (fun e => by cases e)) t h

/-- **Float-free documents, every expression without `to_string`**: either run declines, or both end in a panic /
    unmodelled outcome, or the outcomes are related. -/
theorem evaluate_rnw_fragment {n : INode} (hn : FragN (desugar n)) {d d' : Val} (h : VR true d d') :
    RNW (VR true) (evaluate n d) (evaluate n d') :=
  evaluate_rnw (tcongrN_of_fragN hn) h

/-- **… with float leaves**: every expression without arithmetic operators and `to_string` -/
theorem evaluate_rnw_fragment_float {n : INode} (hn : FragNF (desugar n)) {d d' : Val} (h : VR false d d') :
    RNW (VR false) (evaluate n d) (evaluate n d') :=
  evaluate_rnw (tcongrN_of_fragNF hn) h

end

/-! ## 4. concrete instances -/

section
variable {nf : Bool}

theorem nr_dec {d d' : Dec} (h : Dec.cmp d d' = some 0) (hb : d.Bounded) (hb' : d'.Bounded) :
    NR nf (.dec d) (.dec d') :=
  nr_ok ⟨d, d', rfl, rfl, h⟩ hb hb' trivial trivial

/-- the two map-ordered arrays of `C14ENondet.lean` (`[1, 1]`, the first `1` spelled with 34 digits on the right)
    are related -/
theorem exEnum_vr : VR nf exEnum exEnum' := by
  simp only [exEnum, exEnum', VR, VRL, and_true, true_and]
  exact ⟨nr_dec (by decide) (by simp only [Dec.Bounded]; decide) (by simp only [Dec.Bounded]; decide),
    nr_dec (by decide) (by simp only [Dec.Bounded]; decide) (by simp only [Dec.Bounded]; decide)⟩

end

-- `fnCongrN_sum` on them: the left run answers `2`, the right run declines
example : RN (VR true) (applyFn .sum [exEnum]) (applyFn .sum [exEnum']) :=
  fnCongrN_sum _ _ (by simp only [VRL, and_true]; exact exEnum_vr)

example : (match applyFn .sum [exEnum], applyFn .sum [exEnum'], applyFn .avg [exEnum], applyFn .avg [exEnum'] with
    | .ok (.num (.dec (.fin false 2 0))), .nondet, .ok (.num (.dec (.fin false 1 0))), .nondet => true
    | _, _, _, _ => false) = true := by decide

/-- `[sum(@), avg(@), max_by(@, &@)]` -/
def exNodeN : INode :=
  .selectArrayCurrent [.call .sum [.current], .call .avg [.current], .maxBy .current .current]

theorem exNodeN_congr {nf : Bool} : TCongrN nf (desugar exNodeN) := by
  simp only [exNodeN, desugar, desugarList, Tree.Ops, Tree.OpsL, and_true]
  exact ⟨fnCongrN_sum, fnCongrN_avg⟩

/-- `sort(@)[*].sum([@])`-like use of `sort`: `sort(@)` under a projection -/
def exNodeS : INode := .projectArray (.call .sort [.current]) (.call .sum [.selectArraySingleCurrent .current])

theorem exNodeS_congr {nf : Bool} : TCongrN nf (desugar exNodeS) := by
  simp only [exNodeS, desugar, desugarList, INode.isSlice, Bool.false_eq_true, if_false, Tree.Ops, Tree.OpsL, and_true]
  exact ⟨fnCongrN_sort, fnCongrN_sum⟩

/-- two plain arrays `[1, 2.5]`, spelled `1`, `25e-1` (decimals) resp. `1.0`, `2.50` (decimals) -/
def exPlain : Val := .arr .plain [.num (.dec (.fin false 1 0)), .num (.dec (.fin false 25 (-1)))]
def exPlain' : Val := .arr .plain [.num (.dec (.fin false 10 (-1))), .num (.dec (.fin false 250 (-2)))]

theorem exPlain_vr {nf : Bool} : VR nf exPlain exPlain' := by
  simp only [exPlain, exPlain', VR, VRL, and_true, true_and]
  exact ⟨nr_dec (by decide) (by simp only [Dec.Bounded]; decide) (by simp only [Dec.Bounded]; decide),
    nr_dec (by decide) (by simp only [Dec.Bounded]; decide) (by simp only [Dec.Bounded]; decide)⟩

-- both runs answer `[3.5, 1.75, 2.5]`, in different spellings
example : (match evaluate exNodeN exPlain, evaluate exNodeN exPlain' with
    | .ok (.arr .plain [.num (.dec s), .num (.dec a), .num (.dec m)]),
      .ok (.arr .plain [.num (.dec s'), .num (.dec a'), .num (.dec m')]) =>
      Dec.cmp s s' == some 0 && Dec.cmp a a' == some 0 && Dec.cmp m m' == some 0 && m != m'
    | _, _ => false) = true := by decide

/-- `[sum(@), avg(@)]` -/
def exNodeN2 : INode := .selectArrayCurrent [.call .sum [.current], .call .avg [.current]]

theorem exNodeN2_congr {nf : Bool} : TCongrN nf (desugar exNodeN2) := by
  simp only [exNodeN2, desugar, desugarList, Tree.Ops, Tree.OpsL, and_true]
  exact ⟨fnCongrN_sum, fnCongrN_avg⟩

-- on the map-ordered pair the left run answers `[2, 1]`, the right run declines
example : (match evaluate exNodeN2 exEnum, evaluate exNodeN2 exEnum' with
    | .ok (.arr .plain [_, _]), .nondet => true
    | _, _ => false) = true := by decide

-- the theorem applies to both pairs (and to the expression with `sort`)
example : RNW (VR true) (evaluate exNodeN exPlain) (evaluate exNodeN exPlain') := evaluate_rnw exNodeN_congr exPlain_vr
example : RNW (VR false) (evaluate exNodeN2 exEnum) (evaluate exNodeN2 exEnum') := evaluate_rnw exNodeN2_congr exEnum_vr
example : RN (VR false) (evaluate exNodeN2 exEnum) (evaluate exNodeN2 exEnum') :=
  evaluate_rn_of_not_bad exNodeN2_congr exEnum_vr (fun h => by
    have key : (match evaluate exNodeN2 exEnum with | .ok _ => true | _ => false) = true := by decide
    generalize evaluate exNodeN2 exEnum = r at key h
    cases r <;> simp [Bad] at key h)
example : RNW (VR false) (evaluate exNodeS exPlain) (evaluate exNodeS exPlain') := evaluate_rnw exNodeS_congr exPlain_vr

/-! ### the higher-order helpers, element function `sum`, on `[[1, 1], [1, 2.5]]` in the two spellings -/

theorem exNested_vr {nf : Bool} :
    VR nf (.arr .plain [exEnum, exPlain]) (.arr .plain [exEnum', exPlain']) := by
  simp only [VR, VRL, and_true, true_and]
  exact ⟨exEnum_vr, exPlain_vr⟩

theorem frn_sum {nf : Bool} : FRN nf numSum numSum := fun _ _ h => numSum_vr_rn h

example : RN (VR true) (projectArray numSum (.arr .plain [exEnum, exPlain]))
    (projectArray numSum (.arr .plain [exEnum', exPlain'])) := projectArray_rn frn_sum exNested_vr
example : RN (VR true) (mapArray numSum (.arr .plain [exEnum, exPlain]))
    (mapArray numSum (.arr .plain [exEnum', exPlain'])) := mapArray_rn frn_sum exNested_vr
example : RN (VR true) (flattenAndProjectArray numSum (.arr .plain [exEnum, exPlain]))
    (flattenAndProjectArray numSum (.arr .plain [exEnum', exPlain'])) := flattenAndProjectArray_rn frn_sum exNested_vr
example : RN (VR true) (filterAndProjectArray numSum numSum (.arr .plain [exEnum, exPlain]))
    (filterAndProjectArray numSum numSum (.arr .plain [exEnum', exPlain'])) :=
  filterAndProjectArray_rn frn_sum frn_sum exNested_vr
example : RN (VR true) (projectObject numSum (.obj [([0x61], exEnum)])) (projectObject numSum (.obj [([0x61], exEnum')])) :=
  projectObject_rn frn_sum (by simp only [VR, VRF, and_true, true_and]; exact exEnum_vr)
example : RN (VR true) (sortArrayBy numSum (.arr .plain [exEnum, exPlain]))
    (sortArrayBy numSum (.arr .plain [exEnum', exPlain'])) := sortArrayBy_rn frn_sum exNested_vr
example : RN (VR true) (arrayMaxBy numSum (.arr .plain [exEnum, exPlain]))
    (arrayMaxBy numSum (.arr .plain [exEnum', exPlain'])) := arrayMaxBy_rn frn_sum exNested_vr
example : RN (VR true) (arrayMinBy numSum (.arr .plain [exEnum, exPlain]))
    (arrayMinBy numSum (.arr .plain [exEnum', exPlain'])) := arrayMinBy_rn frn_sum exNested_vr
example : RN (VR true) (groupBy numSum (.arr .plain [exEnum, exPlain]))
    (groupBy numSum (.arr .plain [exEnum', exPlain'])) := groupBy_rn frn_sum exNested_vr

-- the left run answers `[2, 3.5]`, the right run declines
example : (match mapArray numSum (.arr .plain [exEnum, exPlain]), mapArray numSum (.arr .plain [exEnum', exPlain']) with
    | .ok (.arr .plain [_, _]), .nondet => true | _, _ => false) = true := by decide

-- the `widen` path: a map-ordered array whose first element fails on both sides (an error outcome), and whose second
-- element is settled on the left, declined on the right: `widen` answers the error on the left, `.nondet` on the right
example : (match mapArray numSum (.arr .enum [.str [0x78], exEnum]), mapArray numSum (.arr .enum [.str [0x78], exEnum']) with
    | .err [Cat.invalidType], .nondet => true | _, _ => false) = true := by decide
example : RN (VR true) (mapArray numSum (.arr .enum [.str [0x78], exEnum]))
    (mapArray numSum (.arr .enum [.str [0x78], exEnum'])) :=
  mapArray_rn frn_sum (by simp only [VR, VRL, and_true, true_and]; exact exEnum_vr)

/-! ### the counterexample to the statement with `RN`

  `{a: upper('Ā'), b: sum(@) && pad_left('x', `200000`, ' ')}` on the two related map-ordered arrays: on the left
  `sum(@)` is `2`, so `b` is `pad_left(…)`, which the model leaves unmodelled ("padding wider than the model
  materialises"), and that outcome, met first, wins over the unmodelled outcome of `a` ("case mapping outside the
  modelled alphabets").  On the right `sum(@)` declines, `b` is `.nondet`, and the unmodelled outcome of `a` wins over
  it.  The two runs end in two DIFFERENT unmodelled outcomes: neither `.nondet`, nor related by `RR`. -/

def cexNode : INode :=
  .selectObjectCurrent [
    ([0x61], .call .upper [.lit (.str [0xC4, 0x80])]),
    ([0x62], .and (.call .sum [.current])
      (.call .padLeft [.lit (.str [0x78]), .lit (.num (.int .i64 200000)), .lit (.str [0x20])]))]

theorem cexNode_congr {nf : Bool} : TCongrN nf (desugar cexNode) := by
  simp only [cexNode, desugar, desugarList, desugarFields, Tree.Ops, Tree.OpsL, Tree.OpsF, and_true]
  exact ⟨⟨fnCongrN_of_congr (fnCongr_plain rfl), vr_str _⟩, ⟨fnCongrN_sum, fnCongrN_of_congr (fnCongr_plain rfl),
    vr_str _, vr_int _ _, vr_str _⟩⟩

theorem cexNode_runs : (match evaluate cexNode exEnum, evaluate cexNode exEnum' with
    | .unmodelled u, .unmodelled u' => u != u'
    | _, _ => false) = true := by decide

/-- **`evaluate_rn` as asked for (`TCongrN nf (desugar n) → VR nf d d' → RN (VR nf) (evaluate n d) (evaluate n d')`)
    is false of the model**, for either `nf`: all the hypotheses hold of `cexNode`, `exEnum`, `exEnum'`, the
    conclusion does not.  (`evaluate_rnw` gives `RNW` for them: both runs are unmodelled.) -/
theorem evaluate_rn_false {nf : Bool} : TCongrN nf (desugar cexNode) ∧ VR nf exEnum exEnum' ∧
    ¬ RN (VR nf) (evaluate cexNode exEnum) (evaluate cexNode exEnum') := by
  refine ⟨cexNode_congr, exEnum_vr, ?_⟩
  have key := cexNode_runs
  generalize evaluate cexNode exEnum = r at key ⊢
  generalize evaluate cexNode exEnum' = r' at key ⊢
  cases r <;> cases r' <;> simp only [Bool.false_eq_true] at key
  next u u' =>
  rintro (h | h | h)
  · cases h
  · cases h
  · simp only [RR] at h
    subst h
    simp at key

/-- hence `seval_rn` as asked for is false too -/
theorem seval_rn_false {nf : Bool} : ¬ (∀ {root root' : Val}, VR nf root root' → ∀ (t : Tree), TCongrN nf t →
    ∀ (cur cur' : Val) (env env' : Env), VR nf cur cur' → VRF nf env env' →
      RN (VR nf) (seval root t cur env) (seval root' t cur' env')) := by
  intro H
  have h := H exEnum_vr (desugar cexNode) cexNode_congr exEnum exEnum' [] [] exEnum_vr vrf_nil
  rw [← ieval_desugar, ← ieval_desugar] at h
  exact evaluate_rn_false.2.2 h

example : RNW (VR true) (evaluate cexNode exEnum) (evaluate cexNode exEnum') := evaluate_rnw cexNode_congr exEnum_vr

-- the fragment theorems apply to `[sum(@), avg(@), max_by(@, &@)]` and to `sort(@)[*].sum([@])`
example : FragN (desugar exNodeN) ∧ FragNF (desugar exNodeN) ∧ FragN (desugar exNodeS) := by
  simp [FragN, FragNF, exNodeN, exNodeS, desugar, desugarList, INode.isSlice, Tree.Ops, Tree.OpsL]
example : RNW (VR true) (evaluate exNodeN exPlain) (evaluate exNodeN exPlain') :=
  evaluate_rnw_fragment (by simp [FragN, exNodeN, desugar, desugarList, Tree.Ops, Tree.OpsL]) exPlain_vr

end C14E
end Jmes

section AxiomCheck
open Jmes.C14E
end AxiomCheck
