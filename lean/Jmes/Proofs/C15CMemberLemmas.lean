/-
  Helpers for Jmes/Properties/C15C.lean, part 6: what `index` / `slice` return on an array that is NOT tagged `enum`
  (every array of a run): a member of the array.
-/
import Jmes.Proofs.C15BConcMainLemmas
set_option linter.unusedVariables false
namespace Jmes.C15C
open Jmes Invar

theorem index_plain {t : ATag} {xs : List Val} (hne : t ≠ .enum) (i : Int) :
    ∃ r, index (.arr t xs) i = .ok r ∧ (r = .null ∨ r ∈ xs) ∧
      (let j := if i < 0 then i + (xs.length : Int) else i; 0 ≤ j ∧ j < xs.length → r ∈ xs) := by
  simp only [index, enum2_of_ne _ hne, Bool.false_eq_true, if_false]
  by_cases h1 : ((if i < 0 then i + (xs.length : Int) else i) < 0 ∨ (if i < 0 then i + (xs.length : Int) else i) ≥ xs.length)
  · rw [if_pos h1]
    exact ⟨_, rfl, .inl rfl, fun hj => by omega⟩
  · rw [if_neg h1]
    have hlt : (if i < 0 then i + (xs.length : Int) else i).toNat < xs.length := by omega
    have hm : xs.getD (if i < 0 then i + (xs.length : Int) else i).toNat .null ∈ xs := by
      rw [List.getD_eq_getElem?_getD, List.getElem?_eq_getElem hlt]
      exact List.getElem_mem hlt
    exact ⟨_, rfl, .inr hm, fun _ => hm⟩

theorem slice_plain {t : ATag} {xs : List Val} (hne : t ≠ .enum) (a b : Int) :
    ∃ ys, slice (.arr t xs) a b = .ok (.arr .plain ys) ∧ ys.Sublist xs := by
  simp only [slice, enum2_of_ne _ hne, Bool.false_eq_true, if_false]
  cases clamp1 (xs.length : Int) a b with
  | none => exact ⟨[], rfl, List.nil_sublist _⟩
  | some ab =>
    obtain ⟨a', b'⟩ := ab
    simp only
    split
    · exact ⟨[], rfl, List.nil_sublist _⟩
    · exact ⟨_, rfl, (List.take_sublist _ _).trans (List.drop_sublist _ _)⟩

theorem pickStep_mem (xs : List Val) (step : Int) : ∀ (n : Nat) (start : Int),
    ∀ y ∈ pickStep xs start step n, y = .null ∨ y ∈ xs
  | 0, _, y, hy => by simp [pickStep] at hy
  | n + 1, start, y, hy => by
    simp only [pickStep, List.mem_cons] at hy
    rcases hy with rfl | hy
    · by_cases h : start.toNat < xs.length
      · rw [List.getD_eq_getElem?_getD, List.getElem?_eq_getElem h]; exact .inr (List.getElem_mem h)
      · rw [List.getD_eq_getElem?_getD, List.getElem?_eq_none (by omega)]; exact .inl rfl
    · exact pickStep_mem xs step n _ y hy

theorem pickStep_length (xs : List Val) (step : Int) : ∀ (n : Nat) (start : Int),
    (pickStep xs start step n).length = n
  | 0, _ => rfl
  | n + 1, start => by simp [pickStep, pickStep_length xs step n]

theorem sliceStep_plain {t : ATag} {xs : List Val} (hne : t ≠ .enum) (a b c : Int) :
    ∃ ys, sliceStep (.arr t xs) a b c = .ok (.arr .plain ys) ∧ ∀ y ∈ ys, y = .null ∨ y ∈ xs := by
  simp only [sliceStep, enum2_of_ne _ hne, Bool.false_eq_true, if_false]
  cases clampStep (xs.length : Int) a b c with
  | none => exact ⟨[], rfl, fun y hy => by cases hy⟩
  | some an =>
    obtain ⟨a', n⟩ := an
    exact ⟨_, rfl, pickStep_mem xs c _ _⟩

end Jmes.C15C
