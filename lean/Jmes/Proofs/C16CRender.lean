/-
  Property C16, third part — the canonical renderings of `C16B` (`render w v`: one escape policy, the same white
  space `w` in every gap, sorted unique keys) are in the denotation relation: `Den (dp v) (render w v) v`.
  So `C16B.json_value_roundtrip` is a special case of `C16C.json_literal_denotes`.
-/
import Jmes.Proofs.C16CTotal
namespace Jmes.C16C
open Jmes Jmes.Utf8 Jmes.Literals Jmes.C16 Jmes.C16BL Jmes.Lexical Jmes.JsonGrammar Jmes.C16B

/-- a strictly key-sorted member list is its own last-wins map -/
theorem lastVal_of_keySorted : ∀ {kvs : List (Bytes × Val)}, KeySorted kvs → ∀ k, objLookup k kvs = lastVal k kvs
  | [], _, _ => rfl
  | (k', v) :: rest, h, k => by
    unfold KeySorted at h
    rw [List.pairwise_cons] at h
    have ih := lastVal_of_keySorted (kvs := rest) h.2 k
    simp only [objLookup, lastVal]
    by_cases e : k = k'
    · subst e
      have : objLookup k rest = none := objLookup_none_of_lt (fun p hp => h.1 p hp)
      rw [← ih, this]
    · rw [← ih]; simp only [e, if_false]
      cases objLookup k rest <;> rfl

/-- a strictly key-sorted member list is its own last-wins map -/
theorem LastWins.of_keySorted {kvs : List (Bytes × Val)} (h : KeySorted kvs) : LastWins kvs kvs :=
  ⟨h, lastVal_of_keySorted h⟩

example : LastWins [([0x61], .null), ([0x62], .bool true)] [([0x61], .null), ([0x62], .bool true)] :=
  LastWins.of_keySorted (by unfold KeySorted; decide)

/-- the members of a `PlainF` list are strictly key-sorted -/
theorem keySorted_of_plainF : ∀ {kvs : List (Bytes × Val)}, PlainF kvs → KeySorted kvs
  | [], _ => List.Pairwise.nil
  | (k, v) :: rest, h => by
    unfold KeySorted
    exact List.pairwise_cons.mpr ⟨fun p hp => h.2.2.1 p hp, keySorted_of_plainF h.2.2.2⟩

/-- the canonical writing `escQ k` of a valid UTF-8 string denotes it -/
theorem strden_escQ {k : Bytes} (hk : validUTF8 k = true) : StrDen k (escQ k) := by
  obtain ⟨cs, hs, rfl⟩ := (validUTF8_iff k).1 hk
  exact StrDen.of_qesc (qesc_escQ cs hs)

mutual
/-- **the rendering of a value denotes that value**, with the value's own nesting depth -/
theorem den_render (w : Bytes) (hw : Ws w) : (v : Val) → Plain v → Den (dp v) (render w v) v
  | .null, _ => .null _
  | .bool true, _ => .tru _
  | .bool false, _ => .fals _
  | .str s, h => by
    have := Den.str (dp (.str s)) s (escQ s) (strden_escQ (by simpa [Plain] using h))
    simpa [C16B.render, jsonText] using this
  | .num (.jnum t), h => .num _ t ((isValidNumber_iff t).1 (by simpa [Plain] using h))
  | .num (.dec _), h => by simp [Plain] at h
  | .num (.int _ _), h => by simp [Plain] at h
  | .num (.f64 _), h => by simp [Plain] at h
  | .num (.f32 _), h => by simp [Plain] at h
  | .foreign _, h => by simp [Plain] at h
  | .arr .nil _, h => by simp [Plain] at h
  | .arr .enum _, h => by simp [Plain] at h
  | .arr .plain [], _ => by
    have := Den.arrE 0 w hw
    simpa [C16B.render, renderL, dp, dpL] using this
  | .arr .plain (x :: xs), h => by
    have := Den.arr _ _ _ (denL_render w hw (x :: xs) (by simp) (by simpa [Plain] using h))
    exact this.mono (by simp only [dp]; omega)
  | .obj [], _ => by
    have := Den.objE 0 w hw
    simpa [C16B.render, renderF, dp, dpF] using this
  | .obj ((k, v) :: kvs), h => by
    have hp : PlainF ((k, v) :: kvs) := by simpa [Plain] using h
    have := Den.obj _ _ _ _ (denF_render w hw ((k, v) :: kvs) (by simp) hp)
      (LastWins.of_keySorted (keySorted_of_plainF hp))
    exact this.mono (by simp only [dp]; omega)
/-- the same for a non-empty element list -/
theorem denL_render (w : Bytes) (hw : Ws w) : (l : List Val) → l ≠ [] → PlainL l → DenElems (dpL l) (renderL w l) l
  | [], h, _ => absurd rfl h
  | [x], _, hp => by
    have := DenElems.last (dpL [x]) w (render w x) w x hw ((den_render w hw x hp.1).mono (by simp [dpL])) hw
    simpa [renderL, renderT] using this
  | x :: y :: ys, _, hp => by
    have ih := denL_render w hw (y :: ys) (by simp) hp.2
    have := DenElems.cons (dpL (x :: y :: ys)) w (render w x) w (renderL w (y :: ys)) x (y :: ys) hw
      ((den_render w hw x hp.1).mono (by simp only [dpL]; omega)) hw (ih.mono (by simp only [dpL]; omega))
    simpa [renderL, renderT] using this
/-- the same for a non-empty member list -/
theorem denF_render (w : Bytes) (hw : Ws w) : (l : List (Bytes × Val)) → l ≠ [] → PlainF l →
    DenMembers (dpF l) (renderF w l) l
  | [], h, _ => absurd rfl h
  | [(k, v)], _, hp => by
    have := DenMembers.last (dpF [(k, v)]) w (escQ k) w w (render w v) w k v hw (strden_escQ hp.1) hw hw
      ((den_render w hw v hp.2.1).mono (by simp [dpF])) hw
    simpa [renderF, renderU, jsonText] using this
  | (k, v) :: q :: qs, _, hp => by
    have ih := denF_render w hw (q :: qs) (by simp) hp.2.2.2
    have := DenMembers.cons (dpF ((k, v) :: q :: qs)) w (escQ k) w w (render w v) w (renderF w (q :: qs)) k v (q :: qs)
      hw (strden_escQ hp.1) hw hw ((den_render w hw v hp.2.1).mono (by simp only [dpF]; omega)) hw
      (ih.mono (by simp only [dpF]; omega))
    obtain ⟨k', v'⟩ := q
    simpa [renderF, renderU, jsonText] using this
end

/-- with white space around it -/
theorem denotes_render (w w1 w2 : Bytes) (hw : Ws w) (hw1 : Ws w1) (hw2 : Ws w2) (v : Val) (hp : Plain v) :
    Denotes (dp v) (w1 ++ render w v ++ w2) v :=
  ⟨w1, _, w2, rfl, hw1, den_render w hw v hp, hw2⟩

example : Denotes (dp exVal) ([0x0A] ++ render [0x20] exVal ++ [0x09]) exVal :=
  denotes_render [0x20] [0x0A] [0x09] (by unfold Ws; decide) (by unfold Ws; decide) (by unfold Ws; decide) exVal
    exVal_plain

end Jmes.C16C
