/-
  C11 (fourth wave), part 2d: the node of the renamed parse tree, for a renaming that is order-preserving only on the
  strings of a class (`KeyEmb φ g`: on strings that `φ` can rename, `renB g` is injective and an order embedding for Go's
  `<`).  `C11C.erase_renT` asks for `Mono f`; the only place where order matters is the sorted member list of a
  multi-select hash, whose keys are in the class.  `keyEmb_on`: a partial order-preserving injection on `D` (`MonoOn D g`)
  is such an embedding on the strings over `D`.
-/
import Jmes.Proofs.C11ETree
set_option linter.unusedSectionVars false
set_option linter.unusedSimpArgs false
namespace Jmes.C11E.Tok
open Jmes Jmes.Utf8 Jmes.C11 Jmes.C11S Jmes.C11R Jmes.C11V Jmes.Invar Jmes.C11C Jmes.Grammar Jmes.C11E.Dom
  Jmes.C11E.Tree

/-- on the strings that `φ` can rename, `renB g` is an order embedding (Go's `<` on strings) and injective -/
def KeyEmb (φ g : Nat → Nat) : Prop :=
  ∀ a b, rnB φ a = true → rnB φ b = true →
    bytesLt (renB g a) (renB g b) = bytesLt a b ∧ (renB g a = renB g b → a = b)

theorem keyEmb_mono {f : Nat → Nat} (hm : Mono f) : KeyEmb f f :=
  fun _ _ ha hb => ⟨renB_lt hm ha hb, renB_inj hm ha hb⟩

/-- **a partial order-preserving injection is an order embedding on the strings over its domain** -/
theorem keyEmb_on {D : List Nat} {g : Nat → Nat} (hm : MonoOn D g) (hs : ScalarOn D g)
    (hk : (sortedDom D).length ≤ 0xD800) : KeyEmb (cpIn D) g := by
  intro a b ha hb
  have hid : ∀ c ∈ D, isScalar ((fun c => c) c) = true := fun c hc => (hs c hc).1
  have hgs : ∀ c ∈ D, isScalar (g c) = true := fun c hc => (hs c hc).2
  have m1 := up_id_mono hs
  have m2 := up_g_mono hm hs
  have a1 := up_rn hs hk _ hid ha
  have b1 := up_rn hs hk _ hid hb
  have a2 := up_rn hs hk _ hgs ha
  have b2 := up_rn hs hk _ hgs hb
  have ea1 : renB (up (sortedDom D) (fun c => c)) (renB (dn (sortedDom D)) a) = a :=
    (up_dn_renB hs hk _ ha).trans (renB_id_valid ha)
  have eb1 : renB (up (sortedDom D) (fun c => c)) (renB (dn (sortedDom D)) b) = b :=
    (up_dn_renB hs hk _ hb).trans (renB_id_valid hb)
  have ea2 := up_dn_renB hs hk g ha
  have eb2 := up_dn_renB hs hk g hb
  refine ⟨?_, fun e => ?_⟩
  · rw [← ea2, ← eb2, renB_lt m2 a2 b2, ← renB_lt m1 a1 b1, ea1, eb1]
  · rw [← ea2, ← eb2] at e
    have := renB_inj m2 a2 b2 e
    rw [← ea1, ← eb1, this]

/-! ## member lists (copy of the `C11CTextLemmas` development with `KeyEmb` in place of `Mono`) -/

section Assoc
variable {φ g : Nat → Nat} (he : KeyEmb φ g)
include he

/-- the keys of a member list are in the class -/
def KeysIn (φ : Nat → Nat) (ps : List (Bytes × INode)) : Prop := ∀ p ∈ ps, rnB φ p.1 = true

theorem assocInsert_renK {k : Bytes} (hk : rnB φ k = true) (n : INode) :
    ∀ {acc : List (Bytes × INode)}, KeysIn φ acc →
      Parser.assocInsert (renB g k) (renN g n) (renNF g true acc) = renNF g true (Parser.assocInsert k n acc) ∧
      KeysIn φ (Parser.assocInsert k n acc)
  | [], _ => by
    simp only [renNF, Parser.assocInsert, if_true]
    exact ⟨by first | rfl | trivial, fun p hp => by simp at hp; subst hp; exact hk⟩
  | (k', n') :: rest, h => by
    have hk' : rnB φ k' = true := h (k', n') List.mem_cons_self
    have hrest : KeysIn φ rest := fun p hp => h p (List.mem_cons_of_mem _ hp)
    simp only [renNF, Parser.assocInsert, if_true]
    rw [(he k k' hk hk').1]
    by_cases e : k = k'
    · subst e
      simp only [if_true, renNF]
      refine ⟨by first | rfl | trivial, fun p hp => ?_⟩
      rcases List.mem_cons.1 hp with rfl | hp
      · exact hk
      · exact hrest p hp
    · have : renB g k ≠ renB g k' := fun e' => e ((he k k' hk hk').2 e')
      simp only [e, this, if_false]
      split
      · simp only [renNF, if_true]
        refine ⟨by first | rfl | trivial, fun p hp => ?_⟩
        rcases List.mem_cons.1 hp with rfl | hp
        · exact hk
        · exact h p hp
      · obtain ⟨i1, i2⟩ := assocInsert_renK hk n hrest
        simp only [renNF, if_true]
        rw [i1]
        refine ⟨by first | rfl | trivial, fun p hp => ?_⟩
        rcases List.mem_cons.1 hp with rfl | hp
        · exact hk'
        · exact i2 p hp

theorem foldAssoc_renK : ∀ (ps : List (Bytes × INode)) {acc : List (Bytes × INode)},
    KeysIn φ ps → KeysIn φ acc →
    (renNF g true ps).foldl (fun acc p => Parser.assocInsert p.1 p.2 acc) (renNF g true acc)
      = renNF g true (ps.foldl (fun acc p => Parser.assocInsert p.1 p.2 acc) acc)
  | [], _, _, _ => by simp only [renNF, List.foldl_nil]
  | (k, n) :: rest, acc, hp, ha => by
    have hk : rnB φ k = true := hp (k, n) List.mem_cons_self
    obtain ⟨i1, i2⟩ := assocInsert_renK he hk n ha
    simp only [renNF, List.foldl_cons, if_true]
    rw [i1]
    exact foldAssoc_renK rest (fun p h => hp p (List.mem_cons_of_mem _ h)) i2

theorem assocOf_renK (ps : List (Bytes × INode)) (hp : KeysIn φ ps) :
    assocOf (renNF g true ps) = renNF g true (assocOf ps) := by
  have := foldAssoc_renK he ps (acc := []) hp (fun _ h => by cases h)
  simpa only [renNF, assocOf] using this

theorem hashNode_ren (o : Option INode) (ps : List (Bytes × INode))
    (hp : KeysIn φ ps) : hashNode (o.map (renN g)) (renNF g true ps) = renN g (hashNode o ps) := by
  cases o <;> rcases ps with _ | ⟨⟨k, a⟩, _ | ⟨b, r⟩⟩ <;>
    simp only [Option.map, hashNode, renN, renNF, if_true] <;>
    first
      | rfl
      | (have := assocOf_renK he _ hp; simp only [renNF, if_true] at this; rw [this])
      | (have := assocOf_renK he [] hp; simp only [renNF] at this; rw [this])

/-! ## the node of the renamed tree -/

/-- the keys of the multi-select hashes of `t` are in the class (part of `atomsOver φ t`) -/
abbrev OK (φ : Nat → Nat) (t : PTree) : Bool := Tree.O φ t

mutual
/-- **the node of the renamed tree is the renamed node**, for a renaming that is an order embedding on the class of the
    multi-select keys -/
theorem erase_renT {σ : Token → Token} :
    ∀ t : PTree, TokAll g σ t → Tree.O φ t = true → erase (renT σ t) = renN g (erase t)
  | .icur, _, _ => by simp only [renT, erase, renN]
  | .atom t, h, _ => by
    simp only [TokAll, AtomOK] at h
    simp only [renT, erase, h]
    cases atomNode t <;> simp only [Option.map, Option.getD, renN]
  | .paren t, h, ho => by
    simp only [TokAll] at h; simp only [Tree.O, treeAll] at ho
    simp only [renT, erase]; exact erase_renT t h ho
  | .not t, h, ho => by
    simp only [TokAll] at h; simp only [Tree.O, treeAll] at ho
    simp only [renT, erase, renN]; rw [erase_renT t h ho]
  | .neg _ t, h, ho => by
    simp only [TokAll] at h; simp only [Tree.O, treeAll] at ho
    simp only [renT, erase, renN]; rw [erase_renT t h ho]
  | .pos t, h, ho => by
    simp only [TokAll] at h; simp only [Tree.O, treeAll] at ho
    simp only [renT, erase, renN]; rw [erase_renT t h ho]
  | .bin op l r, h, ho => by
    simp only [TokAll] at h; simp only [Tree.O, treeAll, Bool.and_eq_true] at ho
    simp only [renT, erase]
    rw [erase_renT l h.1 ho.1, erase_renT r h.2 ho.2, binNode_ren]
  | .dotId l r, h, ho => by
    simp only [TokAll] at h; simp only [Tree.O, treeAll, Bool.and_eq_true] at ho
    simp only [renT, erase]
    rw [erase_renT l h.1 ho.1, erase_renT r h.2 ho.2, optNode_ren, subNode_ren]
  | .dotList l es, h, ho => by
    simp only [TokAll] at h; simp only [Tree.O, treeAll, Bool.and_eq_true] at ho
    simp only [renT, erase]
    rw [erase_renT l h.1 ho.1, eraseL_renT es h.2 ho.2, optNode_ren, listNode_ren]
  | .dotHash l kvs, h, ho => by
    simp only [TokAll] at h; simp only [Tree.O, treeAll, Bool.and_eq_true] at ho
    obtain ⟨e, hk⟩ := eraseKVs_renTK kvs h.2 ho.2
    simp only [renT, erase]
    rw [erase_renT l h.1 ho.1, e, optNode_ren, hashNode_ren he _ _ hk]
  | .dotStarList l, h, ho => by
    simp only [TokAll] at h; simp only [Tree.O, treeAll] at ho
    simp only [renT, erase]
    rw [erase_renT l h ho, optNode_ren]
    exact listNode_ren g _ [.objectValuesCurrent]
  | .index l n, h, ho => by
    simp only [TokAll] at h; simp only [Tree.O, treeAll] at ho
    simp only [renT, erase]
    rw [erase_renT l h ho, optNode_ren, indexNode_ren]
  | .call name args, h, ho => by
    simp only [TokAll] at h; simp only [Tree.O, treeAll, Bool.and_eq_true, Bool.true_and] at ho
    simp only [renT, erase]
    rw [eraseL_renT args h ho]
    cases hl : Parser.lookupBuiltin name.value with
    | none => simp only [renN]
    | some spec => exact callNode_ren g (lookupBuiltin_ren g hl) _
  | .ref t, h, ho => by
    simp only [TokAll] at h; simp only [Tree.O, treeAll] at ho
    simp only [renT, erase]; exact erase_renT t h ho
  | .letIn bs body, h, ho => by
    simp only [TokAll] at h; simp only [Tree.O, treeAll, Bool.and_eq_true] at ho
    simp only [renT, erase, renN]
    rw [erase_renT body h.2 ho.2, eraseKVs_renTV bs h.1 ho.1, assocOf_renV]
  | .multiList es, h, ho => by
    simp only [TokAll] at h; simp only [Tree.O, treeAll] at ho
    simp only [renT, erase]
    rw [eraseL_renT es h ho]
    exact listNode_ren g none _
  | .multiHash kvs, h, ho => by
    simp only [TokAll] at h; simp only [Tree.O, treeAll] at ho
    obtain ⟨e, hk⟩ := eraseKVs_renTK kvs h ho
    simp only [renT, erase]
    rw [e]
    exact hashNode_ren he none _ hk
  | .star l rhs, h, ho => by
    simp only [TokAll] at h; simp only [Tree.O, treeAll, Bool.and_eq_true] at ho
    simp only [renT, erase]
    rw [erase_renT l h.1 ho.1, erase_renT rhs h.2 ho.2, optNode_ren, optNode_ren, starNode_ren]
  | .ostar l rhs, h, ho => by
    simp only [TokAll] at h; simp only [Tree.O, treeAll, Bool.and_eq_true] at ho
    simp only [renT, erase]
    rw [erase_renT l h.1 ho.1, erase_renT rhs h.2 ho.2, optNode_ren, optNode_ren, ostarNode_ren]
  | .flat l rhs, h, ho => by
    simp only [TokAll] at h; simp only [Tree.O, treeAll, Bool.and_eq_true] at ho
    simp only [renT, erase]
    rw [erase_renT l h.1 ho.1, erase_renT rhs h.2 ho.2, optNode_ren, optNode_ren, flatNode_ren]
  | .filt l c rhs, h, ho => by
    simp only [TokAll] at h; simp only [Tree.O, treeAll, Bool.and_eq_true] at ho
    simp only [renT, erase]
    rw [erase_renT l h.1 ho.1.1, erase_renT c h.2.1 ho.1.2, erase_renT rhs h.2.2 ho.2, optNode_ren, optNode_ren,
      filtNode_ren]
  | .slice l a b c rhs, h, ho => by
    simp only [TokAll] at h; simp only [Tree.O, treeAll, Bool.and_eq_true, Bool.true_and] at ho
    simp only [renT, erase, renN]
    rw [erase_renT l h.1 ho.1, erase_renT rhs h.2 ho.2, optNode_ren, optNode_ren, sliceNode_ren]
    cases optNode rhs (erase rhs) <;> simp only [Option.map, Option.getD, renN]
theorem eraseL_renT {σ : Token → Token} :
    ∀ es : List PTree, TokAllL g σ es →
      treeAllL (atomRn φ) (keyRn φ) (fun _ _ => true) (fun _ _ _ => true) es = true →
      eraseL (renTL σ es) = renNL g (eraseL es)
  | [], _, _ => by simp only [renTL, eraseL, renNL]
  | e :: es, h, ho => by
    simp only [TokAllL] at h; simp only [treeAllL, Bool.and_eq_true] at ho
    simp only [renTL, eraseL, renNL]
    rw [erase_renT e h.1 ho.1, eraseL_renT es h.2 ho.2]
theorem eraseKVs_renTK {σ : Token → Token} :
    ∀ kvs : List (Token × PTree), TokAllK g σ true kvs →
      treeAllK (atomRn φ) (keyRn φ) (fun _ _ => true) (fun _ _ _ => true) true kvs = true →
      eraseKVs keyOf (renTK σ true kvs) = renNF g true (eraseKVs keyOf kvs) ∧ KeysIn φ (eraseKVs keyOf kvs)
  | [], _, _ => by
    simp only [renTK, eraseKVs, renNF]
    exact ⟨by first | rfl | trivial, fun _ h => by cases h⟩
  | (k, e) :: rest, h, ho => by
    simp only [TokAllK] at h
    simp only [treeAllK, Bool.and_eq_true, Bool.not_true, Bool.false_or] at ho
    obtain ⟨hk1, _⟩ := h.1 trivial
    obtain ⟨i1, i2⟩ := eraseKVs_renTK rest h.2.2 ho.2
    simp only [renTK, eraseKVs, renNF, if_true]
    rw [erase_renT e h.2.1 ho.1.2, i1, hk1]
    refine ⟨by first | rfl | trivial, fun p hp => ?_⟩
    rcases List.mem_cons.1 hp with rfl | hp
    · exact ho.1.1
    · exact i2 p hp
theorem eraseKVs_renTV {σ : Token → Token} :
    ∀ kvs : List (Token × PTree), TokAllK g σ false kvs →
      treeAllK (atomRn φ) (keyRn φ) (fun _ _ => true) (fun _ _ _ => true) false kvs = true →
      eraseKVs Token.value (renTK σ false kvs) = renNF g false (eraseKVs Token.value kvs)
  | [], _, _ => by simp only [renTK, eraseKVs, renNF]
  | (k, e) :: rest, h, ho => by
    simp only [TokAllK] at h
    simp only [treeAllK, Bool.and_eq_true] at ho
    simp only [renTK, eraseKVs, renNF, Bool.false_eq_true, if_false]
    rw [erase_renT e h.2.1 ho.1.2, eraseKVs_renTV rest h.2.2 ho.2]
end

end Assoc

end Jmes.C11E.Tok
