/-
  Helpers for Jmes/Properties/C05E.lean: `sum` / `avg` declaratively — the left fold of the correctly rounded `+`
  (`binSpec .add`), exact whenever every partial sum is a number of the format; `avg` divides once more.
-/
import Jmes.Proofs.C05ERat
import Jmes.Proofs.C05ELeaf
namespace Jmes.C05ESum
open Jmes.Dec Jmes.C05ELemmas Jmes.C05CLemmas Jmes.C05ERat Jmes.C05ELeaf

/-- the left fold of the correctly rounded addition over the elements, from the accumulator `acc`; the first error ends it -/
def sumSpec : List Val → Val → Res Val
  | [], acc => .ok acc
  | x :: xs, acc => Res.bind (binSpec .add acc x) (sumSpec xs)

theorem sumFold_eq_sumSpec : ∀ (xs : List Val) (acc : Val), Good acc → (∀ x ∈ xs, Good x) →
    C05C.sumFold xs acc = sumSpec xs acc
  | [], _, _, _ => rfl
  | x :: xs, acc, ha, hx => by
    have hgx := hx x (List.mem_cons_self ..)
    have hxs : ∀ y ∈ xs, Good y := fun y hy => hx y (List.mem_cons_of_mem _ hy)
    have e : applyBinOp .add acc x = binSpec .add acc x := applyBinOp_eq_binSpec ha hgx .add
    simp only [C05C.sumFold, sumSpec, e]
    cases hb : binSpec .add acc x with
    | ok v => exact sumFold_eq_sumSpec xs v (good_of_binSpec ha hgx .add hb) hxs
    | _ => rfl

theorem good_of_sumSpec : ∀ (xs : List Val) (acc v : Val), Good acc → (∀ x ∈ xs, Good x) → sumSpec xs acc = .ok v → Good v
  | [], acc, v, ha, _, h => by simp only [sumSpec, Res.ok.injEq] at h; subst h; exact ha
  | x :: xs, acc, v, ha, hx, h => by
    have hgx := hx x (List.mem_cons_self ..)
    have hxs : ∀ y ∈ xs, Good y := fun y hy => hx y (List.mem_cons_of_mem _ hy)
    simp only [sumSpec] at h
    cases hb : binSpec .add acc x with
    | ok w => rw [hb] at h; exact good_of_sumSpec xs w v (good_of_binSpec ha hgx .add hb) hxs h
    | _ => rw [hb] at h; cases h

theorem fin_of_good {x : Val} (h : Good x) {d : Dec} (hd : toDecimal x = some d) : ∃ n c e, toDecimal x = some (.fin n c e) := by
  obtain ⟨n, c, e, rfl, _⟩ := h.2 d hd
  exact ⟨n, c, e, hd⟩

/-- **`sum(xs)` is the left fold of the correctly rounded `+` from `+0`** (an array of numbers of the format) -/
theorem sum_eq_sumSpec (t : ATag) (xs : List Val) (hx : ∀ x ∈ xs, Good x ∧ ∃ d, toDecimal x = some d)
    (hok : enumSumOk t xs = true) : applyFn .sum [.arr t xs] = sumSpec xs (zeroV false) := by
  rw [C05C.sum_is_fold_of_add t xs (fun x h => by obtain ⟨g, d, hd⟩ := hx x h; exact fin_of_good g hd) hok]
  exact sumFold_eq_sumSpec xs _ (good_zeroV false) (fun x h => (hx x h).1)

/-- **`avg(xs)` is that sum divided — correctly rounded once more — by the number of elements** -/
theorem avg_eq_sumSpec (t : ATag) (xs : List Val) (hx : ∀ x ∈ xs, Good x ∧ ∃ d, toDecimal x = some d)
    (hok : enumSumOk t xs = true) (hne : xs ≠ []) (hlen : xs.length ≤ MAXSIG) :
    applyFn .avg [.arr t xs] =
      Res.bind (sumSpec xs (zeroV false)) (fun s => binSpec .div s (.num (.int .int xs.length))) := by
  rw [C05C.avg_is_fold_then_div t xs (fun x h => by obtain ⟨g, d, hd⟩ := hx x h; exact fin_of_good g hd) hok hne]
  have hg : ∀ x ∈ xs, Good x := fun x h => (hx x h).1
  have e := sumFold_eq_sumSpec xs (zeroV false) (good_zeroV false) hg
  show Res.bind (C05C.sumFold xs (zeroV false)) _ = _
  rw [e]
  cases hs : sumSpec xs (zeroV false) with
  | ok s =>
    have gs := good_of_sumSpec xs _ s (good_zeroV false) hg hs
    exact applyBinOp_eq_binSpec gs (good_int .int xs.length (by simpa using hlen)) .div
  | _ => rfl

/-! ### exactness -/

/-- every partial sum `a + x₁ + … + xₖ` is a number of the format -/
def PrefixRep : List Rat → Rat → Prop
  | [], _ => True
  | x :: xs, a => RepQ (a + x) ∧ PrefixRep xs (a + x)

theorem sumSpec_exact : ∀ (xs : List Val) (qs : List Rat) (acc : Val) (a : Rat), valQ acc = some a →
    xs.map valQ = qs.map some → PrefixRep qs a → ∃ v, sumSpec xs acc = .ok v ∧ valQ v = some (qs.foldl (· + ·) a)
  | [], qs, acc, a, ha, hq, _ => by
    cases qs with
    | nil => exact ⟨acc, rfl, ha⟩
    | cons _ _ => simp at hq
  | x :: xs, qs, acc, a, ha, hq, hp => by
    cases qs with
    | nil => simp at hq
    | cons q qs =>
      simp only [List.map_cons, List.cons.injEq] at hq
      obtain ⟨hp1, hp2⟩ := hp
      obtain ⟨v, hv, hvq⟩ := binSpec_exact .add ha hq.1 (show opQ .add a q = some (a + q) from rfl) hp1
      obtain ⟨w, hw, hwq⟩ := sumSpec_exact xs qs v (a + q) hvq hq.2 hp2
      exact ⟨w, by simp only [sumSpec, hv, Res.bind]; exact hw, by simpa using hwq⟩

theorem valQ_of_denotes {v : Val} {d : Dec} (hd : toDecimal v = some d) {n : Bool} {C : Nat} {E : Int} (h : Denotes d n C E) :
    valQ v = some (qOf n C E) := by
  obtain ⟨c, e, rfl, hq⟩ := qOf_denotes h
  rw [valQ_of_toDecimal hd, hq]

theorem valQ_int (k : IntKind) (i : Int) : valQ (.num (.int k i)) = some (i : Rat) := by
  rw [valQ_of_denotes (v := .num (.int k i)) rfl (denotes_ofInt i), ← int_q, Rat.zpow_zero, Rat.mul_one]

/-! ### number texts by value -/

open Jmes.C20B in
/-- the rounded digit string of a regular number text is a number of the format -/
theorem rep_regular {t : Bytes} (h : Regular t) :
    Representable (rhe (numParts t).mant (ndrop (numParts t).mant)) ((ratRaw t).2 + ((ndrop (numParts t).mant : Nat) : Int)) := by
  obtain ⟨c', e', hv, hrep⟩ := C05C.round_result_representable (numParts t).neg _ _ (regular_not_overflows h)
  have h1 := toDecimal_regular_explicit h
  rw [toDecimal_regular_roundN h, hv] at h1
  simp only [Option.some.injEq] at h1
  obtain ⟨c1, e1, hd1, hq1⟩ := qOf_denotes (denotes_normalize (numParts t).neg c' e')
  obtain ⟨c2, e2, hd2, hq2⟩ := qOf_denotes (denotes_normalize (numParts t).neg
    (rhe (numParts t).mant (ndrop (numParts t).mant)) ((ratRaw t).2 + ((ndrop (numParts t).mant : Nat) : Int)))
  rw [← h1, hd1] at hd2
  cases hd2
  exact rep_by_value (hq1.symm.trans hq2) hrep

open Jmes.C20B in
/-- a regular number text as a number given by value: sign of the text, ROUNDED digit string, exponent of the last kept digit -/
theorem numIs_regular {t : Bytes} (h : Regular t) :
    C05B.NumIs (.num (.jnum t)) (numParts t).neg (rhe (numParts t).mant (ndrop (numParts t).mant))
      ((ratRaw t).2 + ((ndrop (numParts t).mant : Nat) : Int)) :=
  ⟨_, toDecimal_regular_explicit h, denotes_normalize _ _ _⟩

end Jmes.C05ESum
