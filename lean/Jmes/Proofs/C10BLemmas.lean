/-
  Helper lemmas for `Properties/C10B.lean` (C10 over arbitrary operand trees of the declarative grammar):

  * unfolding lemmas for `wp`, `llevel`, `rlevel`, `flat`, `erase` on the forms C10 talks about;
  * `Tight`: "an operand of every binary operator" (neither a binary-operator expression nor something ending in a
    `let` body), with its closure properties;
  * `insertR` / `climb`: precedence climbing on trees, as a fold over a flat operator chain, with the proof that the
    result is well formed and prints as the chain (so that, by `C04G.parse_complete`, it is what the parser builds),
    and the declarative characterisation `climb_split` (the loosest operator — the last one among equals — is the
    root).
-/
import Jmes.Properties.C04G
namespace Jmes.C10B
open Jmes Jmes.Parser Jmes.Pratt Jmes.Grammar

/-! ## Unfolding -/

theorem wp_ne_icur {b : Bool} {t : PTree} (h : wp b t = true) : t.isIcur = false := by
  cases t <;> first | rfl | (simp only [wp] at h; cases h)

theorem wp_bin {b : Bool} {o : Token} {l r : PTree} {lvl : Nat} (ho : binLevel o.type = some lvl) :
    wp b (.bin o l r) = (!l.isIcur && wp b l && decide (lvl ≤ rlevel l) && wp false r && decide (lvl < llevel r)) := by
  simp only [wp, ho]

theorem wp_bin_intro {b : Bool} {o : Token} {l r : PTree} {lvl : Nat} (ho : binLevel o.type = some lvl)
    (hl : wp b l = true) (hlr : lvl ≤ rlevel l) (hr : wp false r = true) (hrl : lvl < llevel r) :
    wp b (.bin o l r) = true := by
  rw [wp_bin ho, wp_ne_icur hl, hl, hr]
  simp only [Bool.not_false, Bool.true_and, Bool.and_true, Bool.and_eq_true, decide_eq_true_eq]
  exact ⟨hlr, hrl⟩

theorem wp_bin_elim {b : Bool} {o : Token} {l r : PTree} (h : wp b (.bin o l r) = true) :
    ∃ lvl, binLevel o.type = some lvl ∧ wp b l = true ∧ lvl ≤ rlevel l ∧ wp false r = true ∧ lvl < llevel r := by
  simp only [wp] at h
  split at h
  · cases h
  · rename_i lvl hl
    simp only [Bool.and_eq_true, Bool.not_eq_true', decide_eq_true_eq] at h
    exact ⟨lvl, hl, h.1.1.1.2, h.1.1.2, h.1.2, h.2⟩

theorem llevel_bin {o : Token} {l r : PTree} {lvl : Nat} (ho : binLevel o.type = some lvl) (hl : l.isIcur = false) :
    llevel (.bin o l r) = min lvl (llevel l) := by
  simp only [llevel, ho, Option.getD_some, GrammarF0.lmin_of_ne hl]

theorem rlevel_bin {o : Token} {l r : PTree} {lvl : Nat} (ho : binLevel o.type = some lvl) :
    rlevel (.bin o l r) = min lvl (rlevel r) := by
  simp only [rlevel, ho, Option.getD_some]

theorem flat_bin (b : Bool) (o : Token) (l r : PTree) : flat b (.bin o l r) = flat b l ++ o :: flat false r := by
  simp only [flat]

theorem flatten_bin (o : Token) (l r : PTree) :
    Grammar.flatten (.bin o l r) = Grammar.flatten l ++ o :: Grammar.flatten r := flat_bin false o l r

theorem erase_bin (o : Token) (l r : PTree) : erase (.bin o l r) = binNode o.type (erase l) (erase r) := by
  simp only [erase]

theorem flatten_paren (t : PTree) : Grammar.flatten (.paren t) = tLParen :: (Grammar.flatten t ++ [tRParen]) := by
  simp only [Grammar.flatten, flat, List.cons_append]

theorem llevel_paren (t : PTree) : llevel (.paren t) = top := rfl
theorem rlevel_paren (t : PTree) : rlevel (.paren t) = top := rfl

theorem level_le {o : TokenType} {lvl : Nat} (h : binLevel o = some lvl) : lvl ≤ lvlMul :=
  (GrammarF0.binLevel_range h).2

/-! ### unary forms, `.name`, `[n]` -/

theorem wp_not_intro {t : PTree} (h : wp false t = true) (hl : lvlNot < llevel t) : wp false (.not t) = true := by
  simp only [wp, h, Bool.not_false, Bool.true_and, decide_eq_true_eq]; exact hl
theorem wp_neg_intro {tok : Token} {t : PTree} (htok : tok.type = .subtract) (h : wp false t = true)
    (hl : lvlMul < llevel t) : wp false (.neg tok t) = true := by
  simp only [wp, h, htok, Bool.not_false, Bool.true_and, beq_self_eq_true, decide_eq_true_eq]; exact hl
theorem wp_pos_intro {t : PTree} (h : wp false t = true) (hl : lvlMul < llevel t) : wp false (.pos t) = true := by
  simp only [wp, h, Bool.not_false, Bool.true_and, decide_eq_true_eq]; exact hl
theorem rlevel_not (t : PTree) : rlevel (.not t) = min lvlNot (rlevel t) := rfl
theorem rlevel_neg (tok : Token) (t : PTree) : rlevel (.neg tok t) = min lvlMul (rlevel t) := rfl
theorem rlevel_pos (t : PTree) : rlevel (.pos t) = min lvlMul (rlevel t) := rfl
theorem llevel_not (t : PTree) : llevel (.not t) = top := rfl
theorem llevel_neg (tok : Token) (t : PTree) : llevel (.neg tok t) = top := rfl
theorem llevel_pos (t : PTree) : llevel (.pos t) = top := rfl
theorem flatten_not (t : PTree) : Grammar.flatten (.not t) = tNot :: Grammar.flatten t := by
  simp only [Grammar.flatten, flat]
theorem flatten_neg (tok : Token) (t : PTree) : Grammar.flatten (.neg tok t) = tok :: Grammar.flatten t := by
  simp only [Grammar.flatten, flat]
theorem flatten_pos (t : PTree) : Grammar.flatten (.pos t) = tPlus :: Grammar.flatten t := by
  simp only [Grammar.flatten, flat]
theorem erase_not (t : PTree) : erase (.not t) = .not (erase t) := by simp only [erase]
theorem erase_neg (tok : Token) (t : PTree) : erase (.neg tok t) = .negate (erase t) := by simp only [erase]
theorem erase_pos (t : PTree) : erase (.pos t) = .assertNumber (erase t) := by simp only [erase]

/-- `l.r` with a left operand -/
theorem wp_dotId_intro {b : Bool} {l r : PTree} (hl : wp b l = true) (hlr : lvlDot ≤ rlevel l) (hr : wp false r = true)
    (hrl : lvlDot < llevel r) (hs : startsWithIdent r = true) : wp b (.dotId l r) = true := by
  simp only [wp, wp_ne_icur hl, hl, hr, hs, Bool.false_eq_true, if_false, Bool.true_and, Bool.and_true,
    Bool.and_eq_true, decide_eq_true_eq]
  exact ⟨hlr, hrl⟩
theorem llevel_dotId {l r : PTree} (hl : l.isIcur = false) : llevel (.dotId l r) = min lvlDot (llevel l) := by
  simp only [llevel, GrammarF0.lmin_of_ne hl]
theorem rlevel_dotId (l r : PTree) : rlevel (.dotId l r) = min lvlDot (rlevel r) := rfl
theorem flatten_dotId (l r : PTree) : Grammar.flatten (.dotId l r) = Grammar.flatten l ++ tDot :: Grammar.flatten r := by
  simp only [Grammar.flatten, flat]
theorem erase_dotId {l r : PTree} (hl : l.isIcur = false) : erase (.dotId l r) = .pipe (erase l) (erase r) := by
  simp only [erase, GrammarF0.optNode_of_ne hl, subNode]

/-- `l[n]` with a left operand -/
theorem wp_index_intro {b : Bool} {l : PTree} {n : Token} (hl : wp b l = true) (hlr : lvlBracket ≤ rlevel l)
    (hn : isIntTok n = true) : wp b (.index l n) = true := by
  simp only [wp, wp_ne_icur hl, hl, hn, Bool.false_eq_true, if_false, Bool.true_and, Bool.and_true,
    decide_eq_true_eq]
  exact hlr
theorem llevel_index {l : PTree} {n : Token} (hl : l.isIcur = false) :
    llevel (.index l n) = min lvlBracket (llevel l) := by
  simp only [llevel, GrammarF0.lmin_of_ne hl]
theorem flatten_index (l : PTree) (n : Token) :
    Grammar.flatten (.index l n) = Grammar.flatten l ++ [tLBracket, n, tRBracket] := by
  simp only [Grammar.flatten, flat]
theorem erase_index {l : PTree} {n : Token} (hl : l.isIcur = false) :
    erase (.index l n) = .index (erase l) ((intOf n).getD 0) := by
  simp only [erase, GrammarF0.optNode_of_ne hl, indexNode]

/-! ### Only binary operators (and `let` bodies) are loose -/

theorem lmin_ge {b : Bool} {l : PTree} {X : Bool} {lvl : Nat}
    (hleft : (if l.isIcur = true then X else wp b l && decide (lvl ≤ rlevel l)) = true) (hlvl : lvlFlatten ≤ lvl)
    (ih : wp b l = true → lvlFlatten ≤ rlevel l → lvlFlatten ≤ llevel l) : lvlFlatten ≤ lmin lvl l (llevel l) := by
  rcases GrammarF2.left_cases hleft with ⟨rfl, _⟩ | ⟨hi, hwl, hle⟩
  · exact (by decide : lvlFlatten ≤ top)
  · rw [GrammarF0.lmin_of_ne hi]
    have := ih hwl (by omega)
    omega

/-- a well-formed tree that is not a binary-operator expression is tighter, seen from the left, than every binary
    operator: the level conditions of the grammar make every form with a left operand (`l.r`, `l[n]`, the projections)
    at least as tight as `[]`, because its left operand must allow a selector after it -/
theorem llevel_not_bin (t : PTree) (b : Bool) (h : wp b t = true) (hnb : ∀ o l r, t ≠ .bin o l r) :
    lvlFlatten ≤ llevel t := by
  have ih : ∀ l : PTree, sizeOf l < sizeOf t → wp b l = true → lvlFlatten ≤ rlevel l → lvlFlatten ≤ llevel l := by
    intro l _ hwl hr
    apply llevel_not_bin l b hwl
    rintro o l' r' rfl
    obtain ⟨lvl, ho, _⟩ := wp_bin_elim hwl
    rw [rlevel_bin ho] at hr
    have := level_le ho
    simp only [lvlFlatten, lvlMul] at *
    omega
  cases t with
  | bin o l r => exact absurd rfl (hnb o l r)
  | icur | atom _ | paren _ | not _ | neg _ _ | pos _ | call _ _ | ref _ | letIn _ _ | multiList _ | multiHash _ =>
    exact (by decide : lvlFlatten ≤ top)
  | dotId l r =>
    simp only [wp, Bool.and_eq_true] at h
    exact lmin_ge h.1.1.1 (by decide) (ih l (by simp only [PTree.dotId.sizeOf_spec]; omega))
  | dotList l es =>
    simp only [wp, Bool.and_eq_true] at h
    exact lmin_ge h.1.1 (by decide) (ih l (by simp only [PTree.dotList.sizeOf_spec]; omega))
  | dotHash l kvs =>
    simp only [wp, Bool.and_eq_true] at h
    exact lmin_ge h.1.1 (by decide) (ih l (by simp only [PTree.dotHash.sizeOf_spec]; omega))
  | dotStarList l =>
    simp only [wp] at h
    exact lmin_ge h (by decide) (ih l (by simp only [PTree.dotStarList.sizeOf_spec]; omega))
  | index l n =>
    simp only [wp, Bool.and_eq_true] at h
    exact lmin_ge h.1 (by decide) (ih l (by simp only [PTree.index.sizeOf_spec]; omega))
  | star l rhs =>
    simp only [wp, Bool.and_eq_true] at h
    exact lmin_ge h.1 (by decide) (ih l (by simp only [PTree.star.sizeOf_spec]; omega))
  | ostar l rhs =>
    simp only [wp, Bool.and_eq_true] at h
    exact lmin_ge h.1 (by decide) (ih l (by simp only [PTree.ostar.sizeOf_spec]; omega))
  | flat l rhs =>
    simp only [wp, Bool.and_eq_true] at h
    exact lmin_ge h.1 (by decide) (ih l (by simp only [PTree.flat.sizeOf_spec]; omega))
  | filt l c rhs =>
    simp only [wp, Bool.and_eq_true] at h
    exact lmin_ge h.1.1 (by decide) (ih l (by simp only [PTree.filt.sizeOf_spec]; omega))
  | slice l a bb c rhs =>
    simp only [wp, Bool.and_eq_true] at h
    exact lmin_ge h.1.1 (by decide) (ih l (by simp only [PTree.slice.sizeOf_spec]; omega))
termination_by sizeOf t

/-! ## Operands of every binary operator -/

/-- `Tight t`: `t` is well formed, and can stand on either side of every binary operator: it is not itself a
    binary-operator expression (`lvlMul < llevel t`) and it does not end in something that extends to the right
    (`lvlMul ≤ rlevel t`: only a `let` body does).  Atoms, parenthesised expressions, function calls, multi-selects,
    unary forms, `A.B`, `A[n]` and all the projections are tight (over tight operands). -/
def Tight (t : PTree) : Prop := wp false t = true ∧ lvlMul < llevel t ∧ lvlMul ≤ rlevel t

instance (t : PTree) : Decidable (Tight t) := inferInstanceAs (Decidable (_ ∧ _ ∧ _))

theorem Tight.wellPrec {t : PTree} (h : Tight t) : WellPrec t := h.1

theorem tight_paren {t : PTree} (h : WellPrec t) : Tight (.paren t) :=
  ⟨C04G.wellPrec_paren h, (by decide : lvlMul < top), (by decide : lvlMul ≤ top)⟩

theorem tight_atom {t : Token} (h : (atomNode t).isSome = true) : Tight (.atom t) :=
  ⟨by simp only [wp, h, Bool.not_false, Bool.and_self], (by decide : lvlMul < top), (by decide : lvlMul ≤ top)⟩

/-- `!A`, for `A` an operand of `!` that does not end in a `let` body -/
theorem tight_not {t : PTree} (h : WellPrec t) (hl : lvlNot < llevel t) (hr : lvlMul ≤ rlevel t) : Tight (.not t) := by
  refine ⟨?_, (by decide : lvlMul < top), ?_⟩
  · have h' : wp false t = true := h
    simp only [wp, h', Bool.not_false, Bool.true_and, decide_eq_true_eq]; exact hl
  · simp only [rlevel, lvlNot, lvlMul] at hr ⊢; omega

/-- `-A` -/
theorem tight_neg {tok : Token} {t : PTree} (htok : tok.type = .subtract) (h : Tight t) : Tight (.neg tok t) := by
  refine ⟨?_, (by decide : lvlMul < top), ?_⟩
  · simp only [wp, h.1, htok, Bool.not_false, Bool.true_and, beq_self_eq_true, decide_eq_true_eq]; exact h.2.1
  · have := h.2.2; simp only [rlevel, lvlMul] at this ⊢; omega

/-- `+A` -/
theorem tight_pos {t : PTree} (h : Tight t) : Tight (.pos t) := by
  refine ⟨?_, (by decide : lvlMul < top), ?_⟩
  · simp only [wp, h.1, Bool.not_false, Bool.true_and, decide_eq_true_eq]; exact h.2.1
  · have := h.2.2; simp only [rlevel, lvlMul] at this ⊢; omega

/-- the five projection forms: `l[*] r`, `l.* r`, `l[] r`, `l[?c] r`, `l[a:b:c] r` -/
def isProj : PTree → Bool
  | .star .. | .ostar .. | .flat .. | .filt .. | .slice .. => true
  | _ => false

theorem rlevel_proj {t : PTree} (h : isProj t = true) : rlevel t = lvlProj := by
  cases t <;> first | rfl | cases h

/-- a projection over a tight left operand (or over the implicit current node) is tight -/
theorem tight_proj {t : PTree} (h : WellPrec t) (hp : isProj t = true) (hl : lvlMul < llevel t) : Tight t :=
  ⟨h, hl, by rw [rlevel_proj hp]; decide⟩

/-- **what `Tight` means**: a well-formed tree is tight iff it is not a binary-operator expression (an atom, a
    parenthesised expression, a call, a multi-select, a unary form, `l.r`, `l[n]`, a projection, a `let`) and what may
    follow it includes every binary operator (false of a `let` and of what ends in one only) -/
theorem tight_iff (t : PTree) :
    Tight t ↔ WellPrec t ∧ (∀ o l r, t ≠ .bin o l r) ∧ lvlMul ≤ rlevel t := by
  constructor
  · intro h
    refine ⟨h.1, ?_, h.2.2⟩
    rintro o l r rfl
    obtain ⟨lvl, ho, hwl, _⟩ := wp_bin_elim h.1
    have := h.2.1
    rw [llevel_bin ho (wp_ne_icur hwl)] at this
    have := level_le ho
    omega
  · rintro ⟨h, hnb, hr⟩
    have := llevel_not_bin t false h hnb
    exact ⟨h, by simp only [lvlFlatten, lvlMul] at *; omega, hr⟩

/-- every well-formed projection is tight -/
theorem tight_of_proj {t : PTree} (h : WellPrec t) (hp : isProj t = true) : Tight t :=
  (tight_iff t).2 ⟨h, (by rintro o l r rfl; cases hp), (by rw [rlevel_proj hp]; decide)⟩

/-! ### `A[*].B`, `A[].B`, `A[?F].B` -/

/-- `.B` as the right-hand side of a projection -/
theorem rhs_dot_ok {B : PTree} (hB : wp false B = true) (hBl : lvlDot < llevel B) (hs : startsWithIdent B = true) :
    ((PTree.dotId .icur B).isIcur || (wp true (.dotId .icur B) && decide (lvlProj < llevel (.dotId .icur B)))) = true := by
  simp only [PTree.isIcur, wp, llevel, lmin, hB, hs, if_true, Bool.true_and, Bool.and_true, Bool.false_or,
    Bool.and_eq_true, decide_eq_true_eq]
  exact ⟨hBl, by decide⟩

theorem flat_rhs_dot (B : PTree) : flat true (.dotId .icur B) = tDot :: flat false B := by
  simp only [flat, List.nil_append]

theorem erase_rhs_dot (B : PTree) : optNode (.dotId .icur B) (erase (.dotId .icur B)) = some (erase B) := by
  simp only [erase, optNode, PTree.isIcur, subNode, Bool.false_eq_true, if_false, if_true]

theorem star_dot_wf {A B : PTree} (hA : WellPrec A) (hAr : lvlBracket ≤ rlevel A) (hB : WellPrec B)
    (hBl : lvlDot < llevel B) (hs : startsWithIdent B = true) : WellPrec (.star A (.dotId .icur B)) := by
  have hA' : wp false A = true := hA
  show wp false _ = true
  simp only [wp, wp_ne_icur hA', hA', Bool.false_eq_true, if_false, Bool.true_and, Bool.and_eq_true, decide_eq_true_eq]
  exact ⟨hAr, by simpa only [PTree.isIcur, wp, Bool.false_or, Bool.and_eq_true, decide_eq_true_eq] using rhs_dot_ok hB hBl hs⟩

theorem flatten_dot_wf {A B : PTree} (hA : WellPrec A) (hAr : lvlFlatten ≤ rlevel A) (hB : WellPrec B)
    (hBl : lvlDot < llevel B) (hs : startsWithIdent B = true) : WellPrec (.flat A (.dotId .icur B)) := by
  have hA' : wp false A = true := hA
  show wp false _ = true
  simp only [wp, wp_ne_icur hA', hA', Bool.false_eq_true, if_false, Bool.true_and, Bool.and_eq_true, decide_eq_true_eq]
  exact ⟨hAr, by simpa only [PTree.isIcur, wp, Bool.false_or, Bool.and_eq_true, decide_eq_true_eq] using rhs_dot_ok hB hBl hs⟩

theorem filter_dot_wf {A F B : PTree} (hA : WellPrec A) (hAr : lvlFilter ≤ rlevel A) (hF : WellPrec F) (hB : WellPrec B)
    (hBl : lvlDot < llevel B) (hs : startsWithIdent B = true) : WellPrec (.filt A F (.dotId .icur B)) := by
  have hA' : wp false A = true := hA
  have hF' : wp false F = true := hF
  show wp false _ = true
  simp only [wp, wp_ne_icur hA', hA', hF', Bool.false_eq_true, if_false, Bool.true_and, Bool.and_true,
    Bool.and_eq_true, decide_eq_true_eq]
  exact ⟨hAr, by simpa only [PTree.isIcur, wp, Bool.false_or, Bool.and_eq_true, decide_eq_true_eq] using rhs_dot_ok hB hBl hs⟩

theorem flatten_star_dot (A B : PTree) :
    Grammar.flatten (.star A (.dotId .icur B)) = Grammar.flatten A ++ tArrayStar :: tDot :: Grammar.flatten B := by
  simp only [Grammar.flatten, flat, List.nil_append]
theorem flatten_flat_dot (A B : PTree) :
    Grammar.flatten (.flat A (.dotId .icur B)) = Grammar.flatten A ++ tFlatten :: tDot :: Grammar.flatten B := by
  simp only [Grammar.flatten, flat, List.nil_append]
theorem flatten_filt_dot (A F B : PTree) :
    Grammar.flatten (.filt A F (.dotId .icur B)) =
      Grammar.flatten A ++ tFilter :: (Grammar.flatten F ++ tRBracket :: tDot :: Grammar.flatten B) := by
  simp only [Grammar.flatten, flat, List.nil_append, List.append_assoc, List.cons_append]

theorem erase_star_dot {A : PTree} (hA : A.isIcur = false) (B : PTree) :
    erase (.star A (.dotId .icur B)) = .projectArray (erase A) (erase B) := by
  rw [erase, erase_rhs_dot, GrammarF0.optNode_of_ne hA]; rfl
theorem erase_flat_dot {A : PTree} (hA : A.isIcur = false) (B : PTree) :
    erase (.flat A (.dotId .icur B)) = .flattenAndProject (erase A) (erase B) := by
  rw [erase, erase_rhs_dot, GrammarF0.optNode_of_ne hA]; rfl
theorem erase_filt_dot {A : PTree} (hA : A.isIcur = false) (F B : PTree) :
    erase (.filt A F (.dotId .icur B)) = .filterAndProject (erase A) (erase F) (erase B) := by
  rw [erase, erase_rhs_dot, GrammarF0.optNode_of_ne hA]; rfl

/-! ## Precedence climbing on trees -/

/-- the level of an operator token (0 for a token that is not a binary operator) -/
def lvlOf (o : Token) : Nat := (binLevel o.type).getD 0

/-- **one step of precedence climbing**: append `o x` to the expression `t`.  The new operator goes down the right spine
    past every operator that is strictly looser than it; it takes as its left operand the first sub-expression whose
    operator is at least as tight (equal levels: left associativity), or the last operand. -/
def insertR : PTree → Token → PTree → PTree
  | .bin o' l r, o, x => if lvlOf o' < lvlOf o then .bin o' l (insertR r o x) else .bin o (.bin o' l r) x
  | t, o, x => .bin o t x

/-- **precedence climbing as a fold** over the chain `A o1 B1 o2 B2 … on Bn` -/
def climb (A : PTree) (ops : List (Token × PTree)) : PTree := ops.foldl (fun t p => insertR t p.1 p.2) A

/-- the tokens of the chain `o1 B1 o2 B2 … on Bn` -/
def chainToks : List (Token × PTree) → List Token
  | [] => []
  | (o, x) :: rest => o :: (Grammar.flatten x ++ chainToks rest)

/-- the right level of the last operand on the right spine of binary operators -/
def rend : PTree → Nat
  | .bin _ _ r => rend r
  | t => rlevel t

theorem insertR_not_bin {t : PTree} (h : ∀ o' l r, t ≠ .bin o' l r) (o : Token) (x : PTree) :
    insertR t o x = .bin o t x := by
  cases t <;> first | rfl | exact absurd rfl (h _ _ _)

theorem rend_not_bin {t : PTree} (h : ∀ o' l r, t ≠ .bin o' l r) : rend t = rlevel t := by
  cases t <;> first | rfl | exact absurd rfl (h _ _ _)

/-- in a well-formed expression whose last operand does not extend to the right, the right level is the level of the
    root operator -/
theorem rlevel_of_rend (o : Token) (l r : PTree) (b : Bool) (h : wp b (.bin o l r) = true)
    (he : lvlMul ≤ rend (.bin o l r)) : rlevel (.bin o l r) = lvlOf o := by
  obtain ⟨lvl, ho, _, _, hwr, hlt⟩ := wp_bin_elim h
  have hle := level_le ho
  simp only [lvlOf, ho, Option.getD_some, rlevel_bin ho]
  by_cases hb : ∃ o2 l2 r2, r = .bin o2 l2 r2
  · obtain ⟨o2, l2, r2, rfl⟩ := hb
    have ih := rlevel_of_rend o2 l2 r2 false hwr he
    obtain ⟨lvl2, ho2, hwl2, _, _, _⟩ := wp_bin_elim hwr
    rw [ih]
    simp only [lvlOf, ho2, Option.getD_some]
    rw [llevel_bin ho2 (wp_ne_icur hwl2)] at hlt
    omega
  · have hnb : ∀ o2 l2 r2, r ≠ .bin o2 l2 r2 := fun o2 l2 r2 h => hb ⟨o2, l2, r2, h⟩
    have : rend (.bin o l r) = rlevel r := by
      show rend r = _
      exact rend_not_bin hnb
    rw [this] at he
    omega
termination_by sizeOf r

/-- what may follow a well-formed expression whose last operand is tight: every binary operator not tighter than
    its root operator (every binary operator, when it is a single operand) -/
theorem rlevel_ge_of_rend {t : PTree} {b : Bool} (h : wp b t = true) (he : lvlMul ≤ rend t) {lvl : Nat}
    (hlvl : lvl ≤ lvlMul) (hroot : ∀ o l r, t = .bin o l r → lvl ≤ lvlOf o) : lvl ≤ rlevel t := by
  by_cases hb : ∃ o l r, t = .bin o l r
  · obtain ⟨o, l, r, rfl⟩ := hb
    rw [rlevel_of_rend o l r b h he]
    exact hroot o l r rfl
  · have hnb : ∀ o l r, t ≠ .bin o l r := fun o l r h => hb ⟨o, l, r, h⟩
    rw [rend_not_bin hnb] at he
    omega

/-- **one climbing step is correct**: the result is well formed, prints as `t o x`, still ends in a tight operand, and
    is not looser (seen from the left) than `t` and `o` -/
theorem tight_not_bin {x : PTree} (hx : Tight x) : ∀ o2 l2 r2, x ≠ .bin o2 l2 r2 := by
  rintro o2 l2 r2 rfl
  obtain ⟨l2', h2, hw2, _⟩ := wp_bin_elim hx.1
  have := hx.2.1
  rw [llevel_bin h2 (wp_ne_icur hw2)] at this
  have := level_le h2
  omega

theorem insertR_spec (t : PTree) (b : Bool) (o : Token) (x : PTree) (lvl : Nat) (ho : binLevel o.type = some lvl)
    (h : wp b t = true) (he : lvlMul ≤ rend t) (hx : Tight x) :
    wp b (insertR t o x) = true ∧ flat b (insertR t o x) = flat b t ++ o :: flat false x ∧
      lvlMul ≤ rend (insertR t o x) ∧ min lvl (llevel t) ≤ llevel (insertR t o x) := by
  have hle := level_le ho
  have hex : lvlMul ≤ rend x := by rw [rend_not_bin (tight_not_bin hx)]; exact hx.2.2
  by_cases hb : ∃ o' l r, t = .bin o' l r
  · obtain ⟨o', l, r, rfl⟩ := hb
    obtain ⟨lvl', ho', hwl, hlr, hwr, hlt⟩ := wp_bin_elim h
    have hil := wp_ne_icur hwl
    simp only [insertR, lvlOf, ho, ho', Option.getD_some]
    split
    · rename_i hlt'
      obtain ⟨i1, i2, i3, i4⟩ := insertR_spec r false o x lvl ho hwr he hx
      refine ⟨wp_bin_intro ho' hwl hlr i1 (by omega), ?_, i3, ?_⟩
      · rw [flat_bin, flat_bin, i2, List.append_assoc, List.cons_append]
      · rw [llevel_bin ho' hil, llevel_bin ho' hil]; omega
    · rename_i hge
      have hr : lvl ≤ rlevel (.bin o' l r) := by
        rw [rlevel_of_rend o' l r b h he]
        simp only [lvlOf, ho', Option.getD_some]; omega
      refine ⟨wp_bin_intro ho h hr hx.1 (by have := hx.2.1; omega), flat_bin _ _ _ _, hex, ?_⟩
      rw [llevel_bin ho rfl]; exact Nat.le_refl _
  · have hnb : ∀ o' l r, t ≠ .bin o' l r := fun o' l r h => hb ⟨o', l, r, h⟩
    rw [insertR_not_bin hnb]
    rw [rend_not_bin hnb] at he
    refine ⟨wp_bin_intro ho h (by omega) hx.1 (by have := hx.2.1; omega), flat_bin _ _ _ _, hex, ?_⟩
    rw [llevel_bin ho (wp_ne_icur h)]; exact Nat.le_refl _
termination_by sizeOf t

/-- every operator of the chain is a binary operator, every operand is tight -/
def ChainOK (ops : List (Token × PTree)) : Prop := ∀ p ∈ ops, (binLevel p.1.type).isSome = true ∧ Tight p.2

instance (ops : List (Token × PTree)) : Decidable (ChainOK ops) :=
  inferInstanceAs (Decidable (∀ p ∈ ops, (binLevel p.1.type).isSome = true ∧ Tight p.2))

theorem climb_nil (A : PTree) : climb A [] = A := rfl
theorem climb_cons (A : PTree) (o : Token) (x : PTree) (ops : List (Token × PTree)) :
    climb A ((o, x) :: ops) = climb (insertR A o x) ops := rfl
theorem climb_append (A : PTree) (ops1 ops2 : List (Token × PTree)) :
    climb A (ops1 ++ ops2) = climb (climb A ops1) ops2 := by
  simp only [climb, List.foldl_append]

/-- **precedence climbing is correct**: the fold over a chain yields a well-formed tree that prints as the chain -/
theorem climb_spec : ∀ (ops : List (Token × PTree)) (A : PTree) (b : Bool), wp b A = true → lvlMul ≤ rend A →
    ChainOK ops →
    wp b (climb A ops) = true ∧ flat b (climb A ops) = flat b A ++ chainToks ops ∧ lvlMul ≤ rend (climb A ops)
  | [], A, b, h, he, _ => ⟨h, by simp only [climb_nil, chainToks, List.append_nil], he⟩
  | (o, x) :: ops, A, b, h, he, hc => by
    have ho := (hc (o, x) (List.mem_cons_self ..)).1
    have hx := (hc (o, x) (List.mem_cons_self ..)).2
    obtain ⟨lvl, hl⟩ := Option.isSome_iff_exists.1 ho
    obtain ⟨i1, i2, i3, _⟩ := insertR_spec A b o x lvl hl h he hx
    obtain ⟨j1, j2, j3⟩ := climb_spec ops (insertR A o x) b i1 i3 (fun p hp => hc p (List.mem_cons_of_mem _ hp))
    refine ⟨j1, ?_, j3⟩
    rw [climb_cons, j2, i2, chainToks, List.append_assoc, List.cons_append]
    rfl

/-! ### The declarative reading of `climb`: the loosest operator, the last one among equals, is the root -/

/-- the level of the root operator (`top` for a single operand) -/
def rootLvl : PTree → Nat
  | .bin o _ _ => lvlOf o
  | _ => top

theorem lvlOf_le (o : Token) : lvlOf o ≤ lvlMul := by
  unfold lvlOf
  cases h : binLevel o.type with
  | none => exact Nat.zero_le _
  | some l => exact level_le h

theorem rootLvl_not_bin {t : PTree} (h : ∀ o' l r, t ≠ .bin o' l r) : rootLvl t = top := by
  cases t <;> first | rfl | exact absurd rfl (h _ _ _)

theorem insertR_root {t : PTree} {o : Token} (h : lvlOf o ≤ rootLvl t) (x : PTree) : insertR t o x = .bin o t x := by
  by_cases hb : ∃ o' l r, t = .bin o' l r
  · obtain ⟨o', l, r, rfl⟩ := hb
    simp only [insertR]
    rw [if_neg (by simp only [rootLvl] at h; omega)]
  · exact insertR_not_bin (fun o' l r h => hb ⟨o', l, r, h⟩) o x

theorem rootLvl_insertR (t : PTree) (o : Token) (x : PTree) {lvl : Nat} (h1 : lvl ≤ rootLvl t) (h2 : lvl ≤ lvlOf o) :
    lvl ≤ rootLvl (insertR t o x) := by
  by_cases hb : ∃ o' l r, t = .bin o' l r
  · obtain ⟨o', l, r, rfl⟩ := hb
    simp only [insertR]
    split
    · exact h1
    · exact h2
  · rw [insertR_not_bin (fun o' l r h => hb ⟨o', l, r, h⟩) o x]; exact h2

theorem rootLvl_climb : ∀ (ops : List (Token × PTree)) (A : PTree) {lvl : Nat}, lvl ≤ rootLvl A →
    (∀ p ∈ ops, lvl ≤ lvlOf p.1) → lvl ≤ rootLvl (climb A ops)
  | [], _, _, h, _ => h
  | (o, x) :: ops, A, _, h, hs =>
    rootLvl_climb ops (insertR A o x) (rootLvl_insertR A o x h (hs (o, x) (List.mem_cons_self ..)))
      (fun p hp => hs p (List.mem_cons_of_mem _ hp))

/-- operators tighter than the root go to its right -/
theorem climb_under (o : Token) (T : PTree) : ∀ (ops : List (Token × PTree)) (r : PTree),
    (∀ p ∈ ops, lvlOf o < lvlOf p.1) → climb (.bin o T r) ops = .bin o T (climb r ops)
  | [], _, _ => rfl
  | (o', x') :: ops, r, hs => by
    rw [climb_cons, climb_cons]
    have : insertR (.bin o T r) o' x' = .bin o T (insertR r o' x') := by
      simp only [insertR]
      rw [if_pos (hs (o', x') (List.mem_cons_self ..))]
    rw [this]
    exact climb_under o T ops _ (fun p hp => hs p (List.mem_cons_of_mem _ hp))

/-- **`climb_split`**: let `o` be an operator of the chain such that no operator before it is looser and every
    operator after it is strictly tighter (the loosest operator; among equals, the last one).  Then `o` is the root, the
    part of the chain before it is grouped (by the same rule) as its left operand and the part after it as its right
    operand.  Together with `climb A [] = A` this determines `climb` completely. -/
theorem climb_split (A : PTree) (ops1 : List (Token × PTree)) (o : Token) (x : PTree) (ops2 : List (Token × PTree))
    (hA : lvlOf o ≤ rootLvl A) (h1 : ∀ p ∈ ops1, lvlOf o ≤ lvlOf p.1) (h2 : ∀ p ∈ ops2, lvlOf o < lvlOf p.1) :
    climb A (ops1 ++ (o, x) :: ops2) = .bin o (climb A ops1) (climb x ops2) := by
  rw [climb_append, climb_cons, insertR_root (rootLvl_climb ops1 A hA h1), climb_under o _ ops2 x h2]

/-! ## Concrete instances -/

section Examples
open Grammar.Ex
private abbrev a : PTree := idt "a"
private abbrev b : PTree := idt "b"
private abbrev c : PTree := idt "c"
private abbrev d : PTree := idt "d"
private abbrev plus : Token := op .add "+"
private abbrev times : Token := op .asterisk "*"
private abbrev lt : Token := op .less "<"

-- `insertR`: `a + b` then `* c` goes under the `+`; then `+ d` goes on top; then `< a` on top of that
example : insertR (.bin plus a b) times c = .bin plus a (.bin times b c) := by rfl
example : insertR (.bin plus a (.bin times b c)) plus d = .bin plus (.bin plus a (.bin times b c)) d := by rfl
example : climb a [(plus, b), (times, c), (plus, d), (lt, a)] =
    .bin lt (.bin plus (.bin plus a (.bin times b c)) d) a := by rfl
example : chainToks [(plus, b), (times, c)] = [plus, ⟨.unquotedIdentifier, bs "b"⟩, times, ⟨.unquotedIdentifier, bs "c"⟩] := by
  decide
-- `insertR_spec`, `climb_spec`
example : wp false (insertR (.bin plus a b) times c) = true ∧
    flat false (insertR (.bin plus a b) times c) = flat false (.bin plus a b) ++ times :: flat false c :=
  let ⟨h1, h2, _⟩ := insertR_spec (.bin plus a b) false times c 7 rfl (by decide) (by decide) (by decide); ⟨h1, h2⟩
example : wp false (climb a [(plus, b), (times, c), (plus, d), (lt, a)]) = true :=
  (climb_spec [(plus, b), (times, c), (plus, d), (lt, a)] a false (by decide) (by decide) (by decide)).1
-- `climb_split`: in `a + b * c + d * a` the root is the second `+`
example : climb a [(plus, b), (times, c), (plus, d), (times, a)] =
    .bin plus (climb a [(plus, b), (times, c)]) (climb d [(times, a)]) :=
  climb_split a [(plus, b), (times, c)] plus d [(times, a)] (by decide) (by decide) (by decide)
example : climb (.bin plus a b) [(times, c)] = .bin plus a (climb b [(times, c)]) :=
  climb_under plus a [(times, c)] b (by decide)
-- `rend`, `rlevel_of_rend`, `rootLvl`
example : rend (.bin plus a (.bin times b c)) = top ∧ rlevel (.bin plus a (.bin times b c)) = lvlOf plus ∧
    rootLvl (.bin plus a (.bin times b c)) = 6 ∧ rootLvl a = top := by decide
example : rlevel (.bin plus a (.bin times b c)) = lvlOf plus := rlevel_of_rend plus a _ false (by decide) (by decide)
-- `tight_iff`, `llevel_not_bin`, `tight_of_proj`: `a[*].b` and `a.b[0]` are tight; `a + b` and `let $x = a in b` are not
example : Tight (.star a (.dotId .icur b)) := tight_of_proj (by decide) rfl
example : Tight (.dotId a (.index b (int "0"))) :=
  (tight_iff _).2 ⟨by decide, (by intro o l r h; cases h), (by decide)⟩
example : lvlFlatten ≤ llevel (.dotId a (.index b (int "0"))) :=
  llevel_not_bin _ false (by decide) (by intro o l r h; cases h)
example : ¬ Tight (.bin plus a b) := fun h => ((tight_iff _).1 h).2.1 _ _ _ rfl
example : ¬ Tight (.letIn [(⟨.variable, bs "$x"⟩, a)] b) := by decide
-- the introduction rules
example : WellPrec (.star a (.dotId .icur b)) := star_dot_wf (by decide) (by decide) (by decide) (by decide) (by decide)
example : WellPrec (.flat a (.dotId .icur b)) := flatten_dot_wf (by decide) (by decide) (by decide) (by decide) (by decide)
example : WellPrec (.filt a c (.dotId .icur b)) :=
  filter_dot_wf (by decide) (by decide) (by decide) (by decide) (by decide) (by decide)
example : wp false (.bin plus a b) = true := wp_bin_intro (lvl := 6) rfl (by decide) (by decide) (by decide) (by decide)
example : Tight (.not a) ∧ Tight (.neg (op .subtract "-") a) ∧ Tight (.pos a) ∧ Tight (.paren (.bin plus a b)) :=
  ⟨tight_not (by decide) (by decide) (by decide), tight_neg rfl (by decide), tight_pos (by decide),
   tight_paren (by decide)⟩
end Examples

end Jmes.C10B
