/-
  Property C18, second sentence, at the level of the grammar: where does `| e2` land when it is written after `e1`?

  `e1 | e2` is *not* always the tree `pipe e1 e2`:
    * if `e2` itself has pipes at its top (`e2 = a0 | a1 | …`) the result is `((e1 | a0) | a1) | …` (`joinL`);
    * if `e1` ends in a `let … in body` (directly, or as the right operand of a `|`), the body of a `let` extends as
      far to the right as possible, and `| e2` lands inside the body (`Ctx`, `Ctx.fill`).
  In both cases the *value* is the one of `pipe e1 e2` (`sem_joinL`, `sem_fill`), in the second case provided `e2` does
  not use variables of the enclosing `let`s.  If the `let` at the right edge of `e1` is reached through `!`, unary or
  binary operators (`!let $x = a in b`), the value is different (counterexample in `Properties/C18B.lean`).
-/
import Jmes.Properties.C04G
import Jmes.Proofs.Invariants
import Jmes.Proofs.Refine
namespace Jmes.C18BGraft
open Jmes Jmes.Grammar

/-- the token `|` -/
def pipeTok : Token := ⟨.pipe, [0x7C]⟩

theorem binLevel_eq_two {ty : TokenType} {lvl : Nat} (h : binLevel ty = some lvl) (h2 : lvl ≤ lvlPipe) : ty = .pipe := by
  cases ty <;> simp [binLevel] at h <;> subst h <;> first | rfl | (revert h2; decide)

theorem rlevel_bin_le {op : Token} {l r : PTree} {lvl : Nat} (h : binLevel op.type = some lvl) :
    rlevel (.bin op l r) ≤ lvl := by
  simp only [rlevel, h, Option.getD_some]; omega

/-! ## The left level of a well-formed tree is above `|`, unless its top is `|` -/

/-- `t` is `l | r` -/
def IsPipe (t : PTree) : Prop := ∃ op l r, t = .bin op l r ∧ op.type = .pipe

theorem rlevel_isPipe {t : PTree} (h : IsPipe t) : rlevel t ≤ lvlPipe := by
  obtain ⟨op, l, r, rfl, ho⟩ := h
  exact rlevel_bin_le (by rw [ho]; rfl)

/-- a left operand at a level above `|` -/
private theorem step {l : PTree} {lvl : Nat} (ih : lvlPipe < llevel l ∨ IsPipe l) (hlvl : lvlPipe < lvl)
    (hr : lvl ≤ rlevel l) : lvlPipe < lmin lvl l (llevel l) := by
  simp only [lmin]
  split
  · decide
  · rcases ih with ih | ih
    · omega
    · have := rlevel_isPipe ih; omega

theorem llevel_gt_or_pipe : ∀ (b : Bool) (t : PTree), wp b t = true → lvlPipe < llevel t ∨ IsPipe t
  | b, .bin op l r, h => by
    simp only [wp] at h
    split at h
    · cases h
    · rename_i lvl hl
      simp only [Bool.and_eq_true, Bool.not_eq_true', decide_eq_true_eq] at h
      have ih := llevel_gt_or_pipe b l h.1.1.1.2
      by_cases hp : lvl ≤ lvlPipe
      · exact Or.inr ⟨op, l, r, rfl, binLevel_eq_two hl hp⟩
      · left
        simp only [llevel, hl, Option.getD_some]
        exact step ih (by omega) h.1.1.2
  | b, .dotId l r, h => by
    left
    simp only [llevel]
    by_cases hi : l.isIcur = true
    · simp only [lmin, hi, if_true]; decide
    · simp only [wp, hi, Bool.false_eq_true, if_false, Bool.and_eq_true, decide_eq_true_eq] at h
      exact step (llevel_gt_or_pipe b l h.1.1.1.1) (by decide) h.1.1.1.2
  | b, .dotList l es, h => by
    left
    simp only [llevel]
    by_cases hi : l.isIcur = true
    · simp only [lmin, hi, if_true]; decide
    · simp only [wp, hi, Bool.false_eq_true, if_false, Bool.and_eq_true, decide_eq_true_eq] at h
      exact step (llevel_gt_or_pipe b l h.1.1.1) (by decide) h.1.1.2
  | b, .dotHash l kvs, h => by
    left
    simp only [llevel]
    by_cases hi : l.isIcur = true
    · simp only [lmin, hi, if_true]; decide
    · simp only [wp, hi, Bool.false_eq_true, if_false, Bool.and_eq_true, decide_eq_true_eq] at h
      exact step (llevel_gt_or_pipe b l h.1.1.1) (by decide) h.1.1.2
  | b, .dotStarList l, h => by
    left
    simp only [llevel]
    by_cases hi : l.isIcur = true
    · simp only [lmin, hi, if_true]; decide
    · simp only [wp, hi, Bool.false_eq_true, if_false, Bool.and_eq_true, decide_eq_true_eq] at h
      exact step (llevel_gt_or_pipe b l h.1) (by decide) h.2
  | b, .index l n, h => by
    left
    simp only [llevel]
    by_cases hi : l.isIcur = true
    · simp only [lmin, hi, if_true]; decide
    · simp only [wp, hi, Bool.false_eq_true, if_false, Bool.and_eq_true, decide_eq_true_eq] at h
      exact step (llevel_gt_or_pipe b l h.1.1) (by decide) h.1.2
  | b, .star l rhs, h => by
    left
    simp only [llevel]
    by_cases hi : l.isIcur = true
    · simp only [lmin, hi, if_true]; decide
    · simp only [wp, hi, Bool.false_eq_true, if_false, Bool.and_eq_true, decide_eq_true_eq] at h
      exact step (llevel_gt_or_pipe b l h.1.1) (by decide) h.1.2
  | b, .ostar l rhs, h => by
    left
    simp only [llevel]
    by_cases hi : l.isIcur = true
    · simp only [lmin, hi, if_true]; decide
    · simp only [wp, hi, Bool.false_eq_true, if_false, Bool.and_eq_true, decide_eq_true_eq] at h
      exact step (llevel_gt_or_pipe b l h.1.1) (by decide) h.1.2
  | b, .flat l rhs, h => by
    left
    simp only [llevel]
    by_cases hi : l.isIcur = true
    · simp only [lmin, hi, if_true]; decide
    · simp only [wp, hi, Bool.false_eq_true, if_false, Bool.and_eq_true, decide_eq_true_eq] at h
      exact step (llevel_gt_or_pipe b l h.1.1) (by decide) h.1.2
  | b, .filt l c rhs, h => by
    left
    simp only [llevel]
    by_cases hi : l.isIcur = true
    · simp only [lmin, hi, if_true]; decide
    · simp only [wp, hi, Bool.false_eq_true, if_false, Bool.and_eq_true, decide_eq_true_eq] at h
      exact step (llevel_gt_or_pipe b l h.1.1.1) (by decide) h.1.1.2
  | b, .slice l a bb c rhs, h => by
    left
    simp only [llevel]
    by_cases hi : l.isIcur = true
    · simp only [lmin, hi, if_true]; decide
    · simp only [wp, hi, Bool.false_eq_true, if_false, Bool.and_eq_true, decide_eq_true_eq] at h
      exact step (llevel_gt_or_pipe b l h.1.1.1) (by decide) h.1.1.2
  | _, .icur, _ => Or.inl (by decide)
  | _, .atom _, _ => Or.inl (by show lvlPipe < top; decide)
  | _, .paren _, _ => Or.inl (by show lvlPipe < top; decide)
  | _, .not _, _ => Or.inl (by show lvlPipe < top; decide)
  | _, .neg _ _, _ => Or.inl (by show lvlPipe < top; decide)
  | _, .pos _, _ => Or.inl (by show lvlPipe < top; decide)
  | _, .call _ _, _ => Or.inl (by show lvlPipe < top; decide)
  | _, .ref _, _ => Or.inl (by show lvlPipe < top; decide)
  | _, .letIn _ _, _ => Or.inl (by show lvlPipe < top; decide)
  | _, .multiList _, _ => Or.inl (by show lvlPipe < top; decide)
  | _, .multiHash _, _ => Or.inl (by show lvlPipe < top; decide)

/-! ## `t | T2` when `t` may be followed by `|` -/

/-- `joinL t T2`: the tree of `t | T2`: the pipes at the top of `T2` associate to the left,
    `t | (a0 | a1)` is read `(t | a0) | a1` -/
def joinL (t : PTree) : PTree → PTree
  | .bin op l r => if op.type = .pipe then .bin op (joinL t l) r else .bin pipeTok t (.bin op l r)
  | t2 => .bin pipeTok t t2

theorem joinL_pipe (t : PTree) {op : Token} (ho : op.type = .pipe) (l r : PTree) :
    joinL t (.bin op l r) = .bin op (joinL t l) r := by
  simp only [joinL, ho, if_true]

theorem joinL_of_not_pipe (t : PTree) {T2 : PTree} (h : ¬ IsPipe T2) : joinL t T2 = .bin pipeTok t T2 := by
  cases T2 <;> try rfl
  rename_i op l r
  simp only [joinL]
  split
  · rename_i ho; exact absurd ⟨op, l, r, rfl, ho⟩ h
  · rfl

/-- what `joinL t T2` is: it prints as `t | T2`, is well formed, and denotes `t` piped into `T2` -/
structure JoinOK (t T2 X : PTree) : Prop where
  flat : flat false X = flat false t ++ pipeTok :: flat false T2
  wp : wp false X = true
  rl : rlevel X = min lvlPipe (rlevel T2)
  ll : llevel X ≤ lvlPipe
  sem : ∀ root cur env, ieval root (erase X) cur env =
    (ieval root (erase t) cur env >>= fun r => ieval root (erase T2) r env)

theorem binNode_pipe (a b : INode) : binNode .pipe a b = .pipe a b := rfl

theorem wp_icur (b : Bool) : wp b .icur = false := by simp [wp]

theorem not_icur_of_wp {b : Bool} {t : PTree} (h : wp b t = true) : t.isIcur = false := by
  cases t <;> first | rfl | (rw [wp_icur] at h; cases h)

theorem joinL_ok {t : PTree} (ht : wp false t = true) (hr : lvlPipe ≤ rlevel t) :
    ∀ T2 : PTree, wp false T2 = true → JoinOK t T2 (joinL t T2) := fun T2 h2 => by
  have hti := not_icur_of_wp ht
  by_cases hP : IsPipe T2
  · obtain ⟨op, l, r, hT, ho⟩ := hP
    have hbl : binLevel op.type = some lvlPipe := by rw [ho]; rfl
    have h2' := h2
    simp only [hT, wp, hbl, Bool.and_eq_true, Bool.not_eq_true', decide_eq_true_eq] at h2'
    obtain ⟨⟨⟨⟨hli, hwl⟩, hrl⟩, hwr⟩, hlr⟩ := h2'
    have ih := joinL_ok ht hr l hwl
    subst hT
    rw [joinL_pipe t ho]
    have hXi : (joinL t l).isIcur = false := not_icur_of_wp ih.wp
    refine ⟨?_, ?_, ?_, ?_, ?_⟩
    · simp only [flat, ih.flat, List.append_assoc, List.cons_append]
    · simp only [wp, hbl, Bool.and_eq_true, Bool.not_eq_true', decide_eq_true_eq]
      refine ⟨⟨⟨⟨hXi, ih.wp⟩, ?_⟩, hwr⟩, hlr⟩
      rw [ih.rl]; omega
    · simp only [rlevel, hbl, Option.getD_some]; omega
    · simp only [llevel, hbl, Option.getD_some, lmin, hXi]
      simp only [Bool.false_eq_true, if_false]; omega
    · intro root cur env
      simp only [erase, ho, binNode_pipe, ieval, ih.sem, Res.bind_assoc]
  · rw [joinL_of_not_pipe t hP]
    have hbl : binLevel pipeTok.type = some lvlPipe := rfl
    have hll : lvlPipe < llevel T2 := (llevel_gt_or_pipe false T2 h2).resolve_right hP
    refine ⟨rfl, ?_, ?_, ?_, ?_⟩
    · simp only [wp, hbl, Bool.and_eq_true, Bool.not_eq_true', decide_eq_true_eq]
      exact ⟨⟨⟨⟨hti, ht⟩, hr⟩, h2⟩, hll⟩
    · simp only [rlevel, hbl, Option.getD_some]
    · simp only [llevel, hbl, Option.getD_some, lmin, hti]
      simp only [Bool.false_eq_true, if_false]; omega
    · intro root cur env
      simp only [erase, show pipeTok.type = TokenType.pipe from rfl, binNode_pipe, ieval]
termination_by T2 => sizeOf T2
decreasing_by rw [hT]; simp_wf; omega

/-! ## Where `| e2` lands: the right edge of `e1` -/

/-- the path from the top of `e1` to the place where `| e2` is attached: through the bodies of `let`s, and through the
    right operand of a `|` when that operand is a `let` -/
inductive Ctx where
  | hole
  /-- `let bs in □` -/
  | letIn (bs : List (Token × PTree)) (c : Ctx)
  /-- `l | let bs in □` -/
  | pipeLet (op : Token) (l : PTree) (bs : List (Token × PTree)) (c : Ctx)

def Ctx.fill : Ctx → PTree → PTree
  | .hole, t => t
  | .letIn bs c, t => .letIn bs (c.fill t)
  | .pipeLet op l bs c, t => .bin op l (.letIn bs (c.fill t))

/-- the operators on the path are `|` -/
def Ctx.pipes : Ctx → Prop
  | .hole => True
  | .letIn _ c => c.pipes
  | .pipeLet op _ _ c => op.type = .pipe ∧ c.pipes

def Ctx.isHole : Ctx → Bool
  | .hole => true
  | _ => false

/-- the tokens before the hole -/
def Ctx.pre : Ctx → List Token
  | .hole => []
  | .letIn bs c => tLet :: flatKVs tAssign bs ++ tIn :: c.pre
  | .pipeLet op l bs c => flat false l ++ op :: tLet :: flatKVs tAssign bs ++ tIn :: c.pre

theorem Ctx.flat_fill (c : Ctx) (t : PTree) : flat false (c.fill t) = c.pre ++ flat false t := by
  induction c with
  | hole => rfl
  | letIn bs c ih => simp only [Ctx.fill, flat, ih, Ctx.pre, List.append_assoc, List.cons_append]
  | pipeLet op l bs c ih => simp only [Ctx.fill, flat, ih, Ctx.pre, List.append_assoc, List.cons_append]

/-- the filled tree is well formed iff the tree in the hole is (the hole is at the top or the body of a `let`) -/
theorem Ctx.wp_fill (c : Ctx) (hp : c.pipes) {t X : PTree} (h : wp false (c.fill t) = true) :
    wp false t = true ∧ (wp false X = true → wp false (c.fill X) = true) := by
  induction c with
  | hole => exact ⟨h, id⟩
  | letIn bs c ih =>
    simp only [Ctx.fill, wp, Bool.and_eq_true] at h ⊢
    obtain ⟨h1, h2⟩ := ih hp h.2
    exact ⟨h1, fun hX => ⟨h.1, h2 hX⟩⟩
  | pipeLet op l bs c ih =>
    have hbl : binLevel op.type = some lvlPipe := by rw [hp.1]; rfl
    simp only [Ctx.fill, wp, hbl, llevel, Bool.and_eq_true] at h ⊢
    obtain ⟨h1, h2⟩ := ih hp.2 h.1.2.2
    exact ⟨h1, fun hX => ⟨⟨h.1.1, h.1.2.1, h2 hX⟩, h.2⟩⟩

/-- the expression does not look at the environment it is evaluated in (true of closed expressions,
    `ieval_closed`, and of variable-free ones, `ieval_env_irrel`) -/
def EnvIndep (n : INode) : Prop := ∀ root cur env, ieval root n cur env = ieval root n cur []

/-- the value of the filled tree: if `X` is `core` piped into `n2`, then `c.fill X` is `c.fill core` piped into `n2`,
    provided `n2` does not look at the variables bound along the path -/
theorem Ctx.sem_fill (c : Ctx) (hp : c.pipes) {n2 : INode} (hn : c.isHole = true ∨ EnvIndep n2) {X core : PTree}
    (hX : ∀ root cur env, ieval root (erase X) cur env =
      (ieval root (erase core) cur env >>= fun r => ieval root n2 r env)) :
    ∀ root cur env, ieval root (erase (c.fill X)) cur env =
      (ieval root (erase (c.fill core)) cur env >>= fun r => ieval root n2 r env) := by
  induction c with
  | hole => exact hX
  | letIn bs c ih =>
    have hE : EnvIndep n2 := hn.resolve_left (by simp [Ctx.isHole])
    intro root cur env
    simp only [Ctx.fill, erase, ieval, ih hp (Or.inr hE), Res.bind_assoc]
    apply Res.bind_congr; intro b
    apply Res.bind_congr; intro r
    rw [hE root r (b ++ env), hE root r env]
  | pipeLet op l bs c ih =>
    have hE : EnvIndep n2 := hn.resolve_left (by simp [Ctx.isHole])
    intro root cur env
    simp only [Ctx.fill, erase, hp.1, binNode_pipe, ieval, ih hp.2 (Or.inr hE), Res.bind_assoc]
    apply Res.bind_congr; intro a
    apply Res.bind_congr; intro b
    apply Res.bind_congr; intro r
    rw [hE root r (b ++ env), hE root r env]

/-! ## `e1 | e2` -/

/-- `PipeSafe T1`: at the right edge of `T1` a `let` is reached only through bodies of `let`s and right operands of `|`
    (never through `!`, a sign, or another binary operator) -/
def PipeSafe (T1 : PTree) : Prop := ∃ c core, T1 = Ctx.fill c core ∧ c.pipes ∧ lvlPipe ≤ rlevel core

/-- no `let` at the right edge at all: a `|` may follow `T1` directly -/
theorem pipeSafe_of_rlevel {T1 : PTree} (h : lvlPipe ≤ rlevel T1) : PipeSafe T1 := ⟨.hole, T1, rfl, trivial, h⟩

/-- **the tree of `e1 | e2`**: for well-formed `T1`, `T2` with `T1 = c.fill core`, the tree `c.fill (core | T2)` is
    well formed, prints as `T1 | T2`, and denotes `T1` piped into `T2` -/
theorem graft {T1 T2 : PTree} (h1 : WellPrec T1) (h2 : WellPrec T2) {c : Ctx} {core : PTree} (hT : T1 = c.fill core)
    (hp : c.pipes) (hr : lvlPipe ≤ rlevel core) (hn : c.isHole = true ∨ EnvIndep (erase T2)) :
    WellPrec (c.fill (joinL core T2)) ∧
    Grammar.flatten (c.fill (joinL core T2)) = Grammar.flatten T1 ++ pipeTok :: Grammar.flatten T2 ∧
    ∀ root cur env, ieval root (erase (c.fill (joinL core T2))) cur env =
      (ieval root (erase T1) cur env >>= fun r => ieval root (erase T2) r env) := by
  subst hT
  obtain ⟨hcore, hfill⟩ := c.wp_fill hp (X := joinL core T2) h1
  have hj := joinL_ok hcore hr T2 h2
  refine ⟨hfill hj.wp, ?_, c.sem_fill hp hn hj.sem⟩
  simp only [Grammar.flatten, Ctx.flat_fill, hj.flat, List.append_assoc]

/-! ## Tokens at the edges: a `let` at the right edge shows, the last token is never `|` -/

theorem flat_ne_nil {b : Bool} {t : PTree} (h : t.isIcur = false) : flat b t ≠ [] := by
  cases t
  case icur => cases h
  all_goals simp only [flat]
  case ostar l rhs => split <;> (try split) <;> simp
  all_goals simp

/-- **a `|` directly after `t` lands inside a `let` only if the token `let` occurs in `t`**: if the right level of a
    well-formed tree is below `|`, one of its tokens is `let` -/
theorem has_let : ∀ (b : Bool) (t : PTree), wp b t = true → rlevel t < lvlPipe → ∃ tok ∈ flat b t, tok.type = .let
  | b, .not t, h, h2 => by
    simp only [wp, Bool.and_eq_true] at h
    simp only [rlevel] at h2
    obtain ⟨tok, hm, ht⟩ := has_let false t h.1.2 (by have : lvlPipe < lvlNot := by decide
                                                      omega)
    exact ⟨tok, by simp only [flat, List.mem_cons]; exact Or.inr hm, ht⟩
  | b, .neg tk t, h, h2 => by
    simp only [wp, Bool.and_eq_true] at h
    simp only [rlevel] at h2
    obtain ⟨tok, hm, ht⟩ := has_let false t h.1.2 (by have : lvlPipe < lvlMul := by decide
                                                      omega)
    exact ⟨tok, by simp only [flat, List.mem_cons]; exact Or.inr hm, ht⟩
  | b, .pos t, h, h2 => by
    simp only [wp, Bool.and_eq_true] at h
    simp only [rlevel] at h2
    obtain ⟨tok, hm, ht⟩ := has_let false t h.1.2 (by have : lvlPipe < lvlMul := by decide
                                                      omega)
    exact ⟨tok, by simp only [flat, List.mem_cons]; exact Or.inr hm, ht⟩
  | b, .bin op l r, h, h2 => by
    simp only [wp] at h
    split at h
    · cases h
    · rename_i lvl hl
      simp only [Bool.and_eq_true] at h
      simp only [rlevel, hl, Option.getD_some] at h2
      have := (GrammarF0.binLevel_range hl).1
      obtain ⟨tok, hm, ht⟩ := has_let false r h.1.2 (by simp only [lvlPipe] at *; omega)
      exact ⟨tok, by simp only [flat, List.mem_append, List.mem_cons]; exact Or.inr (Or.inr hm), ht⟩
  | b, .dotId l r, h, h2 => by
    simp only [wp, Bool.and_eq_true] at h
    simp only [rlevel] at h2
    obtain ⟨tok, hm, ht⟩ := has_let false r h.1.1.2 (by have : lvlPipe < lvlDot := by decide
                                                        omega)
    exact ⟨tok, by simp only [flat, List.mem_append, List.mem_cons]; exact Or.inr (Or.inr hm), ht⟩
  | _, .letIn bs body, _, _ => ⟨tLet, by simp [flat], rfl⟩
  | _, .icur, _, h2 => by simp only [rlevel] at h2; exact absurd h2 (by decide)
  | _, .atom _, _, h2 => by simp only [rlevel] at h2; exact absurd h2 (by decide)
  | _, .paren _, _, h2 => by simp only [rlevel] at h2; exact absurd h2 (by decide)
  | _, .dotList _ _, _, h2 => by simp only [rlevel] at h2; exact absurd h2 (by decide)
  | _, .dotHash _ _, _, h2 => by simp only [rlevel] at h2; exact absurd h2 (by decide)
  | _, .dotStarList _, _, h2 => by simp only [rlevel] at h2; exact absurd h2 (by decide)
  | _, .index _ _, _, h2 => by simp only [rlevel] at h2; exact absurd h2 (by decide)
  | _, .call _ _, _, h2 => by simp only [rlevel] at h2; exact absurd h2 (by decide)
  | _, .ref _, _, h2 => by simp only [rlevel] at h2; exact absurd h2 (by decide)
  | _, .multiList _, _, h2 => by simp only [rlevel] at h2; exact absurd h2 (by decide)
  | _, .multiHash _, _, h2 => by simp only [rlevel] at h2; exact absurd h2 (by decide)
  | _, .star _ _, _, h2 => by simp only [rlevel] at h2; exact absurd h2 (by decide)
  | _, .ostar _ _, _, h2 => by simp only [rlevel] at h2; exact absurd h2 (by decide)
  | _, .flat _ _, _, h2 => by simp only [rlevel] at h2; exact absurd h2 (by decide)
  | _, .filt _ _ _, _, h2 => by simp only [rlevel] at h2; exact absurd h2 (by decide)
  | _, .slice _ _ _ _ _, _, h2 => by simp only [rlevel] at h2; exact absurd h2 (by decide)

/-- an expression without the token `let` may be followed by `|` directly -/
theorem rlevel_of_no_let {t : PTree} (h : WellPrec t) (hn : ∀ tok ∈ Grammar.flatten t, tok.type ≠ .let) :
    lvlPipe ≤ rlevel t := by
  by_cases h2 : rlevel t < lvlPipe
  · obtain ⟨tok, hm, ht⟩ := has_let false t h h2
    exact absurd ht (hn tok hm)
  · omega

/-- the last token (if any) is not `|` -/
def LQ (ts : List Token) : Prop := ∀ tok, ts.getLast? = some tok → tok.type ≠ .pipe

theorem LQ_nil : LQ [] := fun _ h => by cases h

theorem LQ_snoc (a : List Token) {y : Token} (hy : y.type ≠ .pipe) : LQ (a ++ [y]) := by
  intro tok h
  rw [List.getLast?_append] at h
  simp only [List.getLast?_singleton, Option.some_or, Option.some.injEq] at h
  subst h; exact hy

theorem LQ_mid (a : List Token) {x : Token} {b : List Token} (hb : LQ b) (hx : b = [] → x.type ≠ .pipe) :
    LQ (a ++ x :: b) := by
  intro tok h
  cases b with
  | nil => exact (LQ_snoc a (hx rfl)) tok h
  | cons y ys =>
    rw [List.getLast?_append, List.getLast?_cons_cons] at h
    cases hl : (y :: ys).getLast? with
    | none => simp at hl
    | some z => rw [hl] at h; simp only [Option.some_or, Option.some.injEq] at h; subst h; exact hb z hl

theorem LQ_cons {x : Token} {b : List Token} (hb : LQ b) (hx : b = [] → x.type ≠ .pipe) : LQ (x :: b) :=
  LQ_mid [] hb hx

/-- the right-hand side of a projection: absent, or a tree in right-hand-side position -/
private theorem LQ_rhs {rhs : PTree} (ih : wp true rhs = true → LQ (flat true rhs)) {lvl : Bool}
    (h : (rhs.isIcur || (wp true rhs && lvl)) = true) : LQ (flat true rhs) := by
  cases hi : rhs.isIcur
  · simp only [hi, Bool.false_or, Bool.and_eq_true] at h
    exact ih h.1
  · rw [GrammarF0.isIcur_eq hi]; exact LQ_nil

/-- **the last token of a well-formed tree is never `|`** -/
theorem last_not_pipe : ∀ (b : Bool) (t : PTree), wp b t = true → LQ (flat b t)
  | _, .icur, h => by simp [wp] at h
  | b, .atom t, h => by
    simp only [wp, Bool.and_eq_true] at h
    simp only [flat]
    refine LQ_snoc [] ?_
    intro hp
    simp [atomNode, hp] at h
  | b, .paren t, h => by
    simp only [flat]; exact LQ_snoc _ (by decide)
  | b, .not t, h => by
    simp only [wp, Bool.and_eq_true] at h
    simp only [flat]
    exact LQ_cons (last_not_pipe false t h.1.2) (fun h0 => absurd h0 (flat_ne_nil (not_icur_of_wp h.1.2)))
  | b, .neg tk t, h => by
    simp only [wp, Bool.and_eq_true] at h
    simp only [flat]
    exact LQ_cons (last_not_pipe false t h.1.2) (fun h0 => absurd h0 (flat_ne_nil (not_icur_of_wp h.1.2)))
  | b, .pos t, h => by
    simp only [wp, Bool.and_eq_true] at h
    simp only [flat]
    exact LQ_cons (last_not_pipe false t h.1.2) (fun h0 => absurd h0 (flat_ne_nil (not_icur_of_wp h.1.2)))
  | b, .bin op l r, h => by
    simp only [wp] at h
    split at h
    · cases h
    · simp only [Bool.and_eq_true] at h
      simp only [flat]
      exact LQ_mid _ (last_not_pipe false r h.1.2) (fun h0 => absurd h0 (flat_ne_nil (not_icur_of_wp h.1.2)))
  | b, .dotId l r, h => by
    simp only [wp, Bool.and_eq_true] at h
    simp only [flat]
    exact LQ_mid _ (last_not_pipe false r h.1.1.2) (fun h0 => absurd h0 (flat_ne_nil (not_icur_of_wp h.1.1.2)))
  | b, .dotList l es, _ => by
    simp only [flat]; exact LQ_snoc _ (by decide)
  | b, .dotHash l kvs, _ => by
    simp only [flat]; exact LQ_snoc _ (by decide)
  | b, .dotStarList l, _ => by
    simp only [flat]; exact LQ_mid _ (LQ_snoc [] (by decide)) (fun h0 => by cases h0)
  | b, .index l n, _ => by
    simp only [flat]
    exact LQ_mid _ (LQ_cons (LQ_snoc [] (by decide)) (fun h0 => by cases h0)) (fun h0 => by cases h0)
  | b, .call name args, _ => by
    simp only [flat]; exact LQ_snoc _ (by decide)
  | _, .ref _, h => by simp [wp] at h
  | b, .letIn bs body, h => by
    simp only [wp, Bool.and_eq_true] at h
    simp only [flat]
    exact LQ_mid _ (last_not_pipe false body h.2) (fun h0 => absurd h0 (flat_ne_nil (not_icur_of_wp h.2)))
  | b, .multiList es, _ => by
    simp only [flat]; exact LQ_snoc _ (by decide)
  | b, .multiHash kvs, _ => by
    simp only [flat]; exact LQ_snoc _ (by decide)
  | b, .star l rhs, h => by
    simp only [wp, Bool.and_eq_true] at h
    simp only [flat]
    exact LQ_mid _ (LQ_rhs (last_not_pipe true rhs) h.2) (fun _ => by decide)
  | b, .ostar l rhs, h => by
    simp only [wp, Bool.and_eq_true] at h
    have hr := LQ_rhs (last_not_pipe true rhs) h.2
    simp only [flat]
    split
    · split
      · exact LQ_mid [] hr (fun _ => by decide)
      · exact LQ_mid [] hr (fun _ => by decide)
    · rw [List.append_assoc]; exact LQ_mid _ hr (fun _ => by decide)
  | b, .flat l rhs, h => by
    simp only [wp, Bool.and_eq_true] at h
    simp only [flat]
    exact LQ_mid _ (LQ_rhs (last_not_pipe true rhs) h.2) (fun _ => by decide)
  | b, .filt l c rhs, h => by
    simp only [wp, Bool.and_eq_true] at h
    simp only [flat]
    exact LQ_mid _ (LQ_rhs (last_not_pipe true rhs) h.2) (fun _ => by decide)
  | b, .slice l a bb c rhs, h => by
    simp only [wp, Bool.and_eq_true] at h
    simp only [flat]
    exact LQ_mid _ (LQ_rhs (last_not_pipe true rhs) h.2) (fun _ => by decide)

/-! ## The first token is neither `|` nor `||` (from the parser: no expression starts with them) -/

open Jmes.Parser Jmes.Pratt in
theorem expression_ok_ne_pipe_or {f p : Nat} {s : PState} {r} (h : expression f p s = .ok r) :
    s.curr.type ≠ .pipe ∧ s.curr.type ≠ .or := by
  constructor <;> intro hc <;>
  · cases f with
    | zero => rw [expression.eq_1] at h; cases h
    | succ f =>
      rw [expression_succ_run] at h
      cases f with
      | zero => rw [primaryExpression.eq_1] at h; cases h
      | succ f =>
        rw [primaryExpression.eq_2, bind_ok (get_run _)] at h
        simp only [hc] at h
        cases h

/-- **the first token of a well-formed tree is neither `|` nor `||`** -/
theorem head_not_pipe_or {t : PTree} (h : WellPrec t) :
    ∀ tok, (Grammar.flatten t).head? = some tok → tok.type ≠ .pipe ∧ tok.type ≠ .or := by
  intro tok ht
  obtain ⟨f, hf, _⟩ := C04G.expr_complete h
  cases hfl : Grammar.flatten t with
  | nil => rw [hfl] at ht; cases ht
  | cons x xs =>
    rw [hfl] at ht hf
    simp only [List.head?_cons, Option.some.injEq] at ht
    subst ht
    exact expression_ok_ne_pipe_or hf

/-! ## Non-vacuity -/

section Examples
open Grammar.Ex

/-- `a`, `b | c`, `let $x = a in b`, `d | let $x = a in b` -/
def exA : PTree := idt "a"
def exBC : PTree := .bin (op .pipe "|") (idt "b") (idt "c")
def exLet : PTree := .letIn [(⟨.variable, bs "$x"⟩, idt "a")] (idt "b")
def exPipeLet : PTree := .bin (op .pipe "|") (idt "d") exLet

example : lvlPipe < llevel exA ∨ IsPipe exA := llevel_gt_or_pipe false exA (by decide)
example : IsPipe exBC := ⟨_, _, _, rfl, rfl⟩
example : llevel exBC = lvlPipe := by decide
/-- `a | (b | c)` is read `(a | b) | c` -/
example : joinL exA exBC = .bin (op .pipe "|") (.bin pipeTok exA (idt "b")) (idt "c") := rfl
example : JoinOK exA exBC (joinL exA exBC) := joinL_ok (by decide) (by decide) exBC (by decide)
example : Grammar.flatten (joinL exA exBC) = Grammar.flatten exA ++ pipeTok :: Grammar.flatten exBC := by decide
/-- the `|` after `let $x = a in b` lands in the body; after `d | let $x = a in b` likewise -/
example : exLet = Ctx.fill (.letIn [(⟨.variable, bs "$x"⟩, idt "a")] .hole) (idt "b") := rfl
example : exPipeLet = Ctx.fill (.pipeLet (op .pipe "|") (idt "d") [(⟨.variable, bs "$x"⟩, idt "a")] .hole) (idt "b") := rfl
example : PipeSafe exPipeLet := ⟨.pipeLet _ _ _ .hole, idt "b", rfl, ⟨rfl, trivial⟩, by decide⟩
example : rlevel exLet < lvlPipe ∧ rlevel exPipeLet < lvlPipe ∧ lvlPipe ≤ rlevel exBC := by decide
example : ∃ tok ∈ flat false exPipeLet, tok.type = .let := has_let false exPipeLet (by decide) (by decide)
example : lvlPipe ≤ rlevel exBC := rlevel_of_no_let (by decide) (by decide)
/-- the grafted tree for `d | let $x = a in b` followed by `| c`: well formed, prints as the concatenation, and its
    node is `d | let $x = a in (b | c)` -/
example : WellPrec (Ctx.fill (.pipeLet (op .pipe "|") (idt "d") [(⟨.variable, bs "$x"⟩, idt "a")] .hole)
      (joinL (idt "b") (idt "c"))) ∧
    Grammar.flatten (Ctx.fill (.pipeLet (op .pipe "|") (idt "d") [(⟨.variable, bs "$x"⟩, idt "a")] .hole)
      (joinL (idt "b") (idt "c"))) = Grammar.flatten exPipeLet ++ pipeTok :: Grammar.flatten (idt "c") :=
  let h := graft (T1 := exPipeLet) (T2 := idt "c") (by decide) (by decide)
    (c := .pipeLet (op .pipe "|") (idt "d") [(⟨.variable, bs "$x"⟩, idt "a")] .hole) (core := idt "b") rfl
    ⟨rfl, trivial⟩ (by decide) (Or.inr fun _ _ _ => rfl)
  ⟨h.1, h.2.1⟩
example : erase (Ctx.fill (.pipeLet (op .pipe "|") (idt "d") [(⟨.variable, bs "$x"⟩, idt "a")] .hole)
      (joinL (idt "b") (idt "c"))) =
    .pipe (.field (bs "d")) (.defineVariables [(bs "$x", .field (bs "a"))] (.pipe (.field (bs "b")) (.field (bs "c")))) :=
  rfl
example : LQ (Grammar.flatten exPipeLet) := last_not_pipe false exPipeLet (by decide)
example : ¬ LQ [op .pipe "|"] := fun h => h _ rfl rfl
example : ∀ tok, (Grammar.flatten exBC).head? = some tok → tok.type ≠ .pipe ∧ tok.type ≠ .or :=
  head_not_pipe_or (by decide)
example : EnvIndep (.field (bs "c")) := fun _ _ _ => rfl
example : ¬ EnvIndep (.variable (bs "$x")) := fun h => by
  have := h .null .null [(bs "$x", .null)]
  simp [ieval, Env.get, objLookup] at this
end Examples

end Jmes.C18BGraft
