/-
  Property C11, sentence "Given valid UTF-8 input every string in the result is valid UTF-8": a SEARCH-LEVEL invariant.

  * `Val.Valid v`: every string inside `v` (string values, and the keys of objects at any depth) is valid UTF-8.
  * `INode.ValidLits n`: every literal inside the compiled expression `n` is a `Valid` value and the member keys of
    multi-select hashes are valid UTF-8.
  * `ieval_valid` / `evaluate_valid` / `search_valid`: the evaluator maps valid data to valid results.
  * `encode_valid`: `json.Marshal` (the `to_string` builtin) writes valid UTF-8 for *any* value.
  * per-function corollaries `valid_out_*`.

  The proof follows the closure-proof style of `Jmes/Proofs/Invariants.lean` (`Res.Sat false P`: "if the outcome is a
  value, it satisfies `P`").
-/
import Jmes.Proofs.Invariants
import Jmes.Proofs.Literals
import Jmes.Properties.C11
import Jmes.Proofs.C11BStrLemmas
namespace Jmes
open Jmes.Utf8

/-! ## the predicates -/

mutual
/-- every string inside the value is valid UTF-8: string values and (at any depth) object keys -/
def Val.Valid : Val → Bool
  | .str s => validUTF8 s
  | .arr _ xs => Val.ValidL xs
  | .obj kvs => Val.ValidF kvs
  | _ => true
def Val.ValidL : List Val → Bool
  | [] => true
  | v :: vs => Val.Valid v && Val.ValidL vs
def Val.ValidF : List (Bytes × Val) → Bool
  | [] => true
  | (k, v) :: kvs => validUTF8 k && Val.Valid v && Val.ValidF kvs
end

/-- the values bound in the environment are valid (variable *names* never reach a result) -/
def Env.ValidVals (env : Env) : Bool := env.all (fun kv => kv.2.Valid)

/-- what `ValidLits` asks of one node: a literal is a valid value, the keys of a multi-select hash are valid UTF-8 -/
def INode.validHead : INode → Bool
  | .lit v => v.Valid
  | .selectObject _ fs => fs.all (fun kn => validUTF8 kn.1)
  | .selectObjectCurrent fs => fs.all (fun kn => validUTF8 kn.1)
  | .selectObjectSingle _ k _ => validUTF8 k
  | .selectObjectSingleCurrent k _ => validUTF8 k
  | _ => true

/-- every literal inside the node is a valid value, and the member keys of multi-select hashes are valid UTF-8 -/
def INode.ValidLits (n : INode) : Bool := n.all INode.validHead

namespace C11V
open Invar

/-! ## basic facts -/

theorem validL_iff : ∀ {xs : List Val}, Val.ValidL xs = true ↔ ∀ x ∈ xs, x.Valid = true
  | [] => by simp [Val.ValidL]
  | x :: xs => by simp [Val.ValidL, validL_iff (xs := xs)]

theorem validF_iff : ∀ {kvs : List (Bytes × Val)},
    Val.ValidF kvs = true ↔ ∀ kv ∈ kvs, validUTF8 kv.1 = true ∧ kv.2.Valid = true
  | [] => by simp [Val.ValidF]
  | (k, x) :: kvs => by simp [Val.ValidF, validF_iff (kvs := kvs), and_assoc]

theorem envValid_iff {env : Env} : Env.ValidVals env = true ↔ ∀ kv ∈ env, kv.2.Valid = true := by
  simp [Env.ValidVals]

theorem valid_arr {t : ATag} {xs : List Val} : (Val.arr t xs).Valid = true ↔ Val.ValidL xs = true := by
  simp [Val.Valid]
theorem valid_obj {kvs : List (Bytes × Val)} : (Val.obj kvs).Valid = true ↔ Val.ValidF kvs = true := by
  simp [Val.Valid]
theorem valid_str {s : Bytes} : (Val.str s).Valid = true ↔ validUTF8 s = true := by
  simp [Val.Valid]
@[simp] theorem valid_null : Val.null.Valid = true := rfl
@[simp] theorem valid_bool {b : Bool} : (Val.bool b).Valid = true := rfl
@[simp] theorem valid_num {n : Num} : (Val.num n).Valid = true := rfl
@[simp] theorem valid_foreign {n : Nat} : (Val.foreign n).Valid = true := rfl
@[simp] theorem validL_nil : Val.ValidL [] = true := rfl
@[simp] theorem validF_nil : Val.ValidF [] = true := rfl
theorem validL_cons {x : Val} {xs : List Val} :
    Val.ValidL (x :: xs) = true ↔ x.Valid = true ∧ Val.ValidL xs = true := by
  simp [Val.ValidL]
theorem validF_cons {k : Bytes} {x : Val} {kvs : List (Bytes × Val)} :
    Val.ValidF ((k, x) :: kvs) = true ↔ validUTF8 k = true ∧ x.Valid = true ∧ Val.ValidF kvs = true := by
  simp [Val.ValidF, and_assoc]

theorem valid_anyArr {t : ATag} {xs : List Val} (h : Val.ValidL xs = true) : (Val.arr t xs).Valid = true :=
  valid_arr.mpr h

theorem validL_sub {xs ys : List Val} (h : Val.ValidL xs = true) (hsub : ∀ y ∈ ys, y ∈ xs) :
    Val.ValidL ys = true :=
  validL_iff.mpr fun y hy => validL_iff.mp h y (hsub y hy)

theorem validL_append {xs ys : List Val} (hx : Val.ValidL xs = true) (hy : Val.ValidL ys = true) :
    Val.ValidL (xs ++ ys) = true :=
  validL_iff.mpr fun z hz => by
    rcases List.mem_append.mp hz with h | h
    · exact validL_iff.mp hx z h
    · exact validL_iff.mp hy z h

theorem validL_filter {xs : List Val} (q : Val → Bool) (h : Val.ValidL xs = true) :
    Val.ValidL (xs.filter q) = true :=
  validL_sub h fun _ hy => (List.mem_filter.mp hy).1

theorem valid_getD {xs : List Val} (h : Val.ValidL xs = true) (i : Nat) :
    (xs.getD i .null).Valid = true := by
  rw [List.getD_eq_getElem?_getD]
  cases hi : xs[i]? with
  | none => rfl
  | some v => exact validL_iff.mp h v (List.mem_of_getElem? hi)

theorem valid_objLookup {kvs : List (Bytes × Val)} (h : Val.ValidF kvs = true) {k : Bytes} {v : Val}
    (hl : objLookup k kvs = some v) : v.Valid = true :=
  (validF_iff.mp h (k, v) (objLookup_mem hl)).2

theorem validF_objInsert {k : Bytes} {v : Val} (hk : validUTF8 k = true) (hv : v.Valid = true) :
    ∀ {kvs : List (Bytes × Val)}, Val.ValidF kvs = true → Val.ValidF (objInsert k v kvs) = true
  | [], _ => validF_cons.mpr ⟨hk, hv, rfl⟩
  | (k', v') :: rest, h => by
    have h' := validF_cons.mp h
    simp only [objInsert]
    split
    · exact validF_cons.mpr ⟨hk, hv, h'.2.2⟩
    · split
      · exact validF_cons.mpr ⟨hk, hv, h⟩
      · exact validF_cons.mpr ⟨h'.1, h'.2.1, validF_objInsert hk hv h'.2.2⟩

theorem validF_foldInsert : ∀ {kvs acc : List (Bytes × Val)}, Val.ValidF kvs = true → Val.ValidF acc = true →
    Val.ValidF (kvs.foldl (fun a kv => objInsert kv.1 kv.2 a) acc) = true
  | [], _, _, ha => ha
  | (k, v) :: rest, acc, h, ha => by
    have h' := validF_cons.mp h
    exact validF_foldInsert (kvs := rest) h'.2.2 (validF_objInsert h'.1 h'.2.1 ha)

theorem envValid_append {xs ys : Env} (hx : Env.ValidVals xs = true) (hy : Env.ValidVals ys = true) :
    Env.ValidVals (xs ++ ys) = true :=
  envValid_iff.mpr fun z hz => by
    rcases List.mem_append.mp hz with h | h
    · exact envValid_iff.mp hx z h
    · exact envValid_iff.mp hy z h

/-! ## outcomes (`Res.Sat false`: only values matter) -/

/-- the outcome, if a value, is valid -/
abbrev VR (r : Res Val) : Prop := Res.Sat false (fun v => v.Valid = true) r
abbrev VLR (r : Res (List Val)) : Prop := Res.Sat false (fun vs => Val.ValidL vs = true) r
abbrev VFR (r : Res (List (Bytes × Val))) : Prop := Res.Sat false (fun kvs => Val.ValidF kvs = true) r
/-- the sub-expression of a projection maps valid values to valid outcomes -/
abbrev VFn (f : Val → Res Val) : Prop := ∀ v, v.Valid = true → VR (f v)

theorem Sat.err {α} {P : α → Prop} {cs : List Cat} : Res.Sat false P (Res.err cs : Res α) :=
  fun h => Bool.noConfusion h
theorem Sat.nondet {α} {P : α → Prop} : Res.Sat false P (Res.nondet : Res α) := rfl

theorem Sat.widen' {α} {P : α → Prop} {t : ATag} {xs : List Val} {fs : List (Val → Res Val)}
    {extra : List Cat} {r : Res α} (h : Res.Sat false P r) : Res.Sat false P (widen t xs fs extra r) := by
  cases r with
  | err cs =>
    simp only [_root_.Jmes.widen]
    split <;> (try split) <;> first | exact Sat.nondet | exact Sat.err
  | ok a => exact h
  | nondet => exact h
  | panic w => trivial
  | unmodelled w => trivial

theorem widenArr_v {t t' : ATag} {xs : List Val} {fs : List (Val → Res Val)} {extra : List Cat}
    {loop : Res (List Val)} (h : VLR loop) :
    VR (widen t xs fs extra (loop >>= fun r => pure (Val.arr t' r))) :=
  Sat.widen' (Sat.bind h fun _ hr => Sat.pure (valid_arr.mpr hr))

/-! ## Array.lean -/

theorem index_v {v : Val} (i : Int) (h : v.Valid = true) : VR (index v i) := by
  cases v with
  | arr t xs =>
    have hx := valid_arr.mp h
    simp only [index]
    generalize (if i < 0 then i + (xs.length : Int) else i) = j
    split
    · exact valid_null
    · split
      · exact Sat.nondet
      · exact valid_getD hx _
  | _ => exact valid_null

theorem validL_flattenElems : ∀ {xs : List Val}, Val.ValidL xs = true → Val.ValidL (flattenElems xs) = true
  | [], _ => rfl
  | x :: rest, h => by
    have ⟨hx, hr⟩ := validL_cons.mp h
    have ih := validL_flattenElems hr
    cases x with
    | arr t ys => simp only [flattenElems]; exact validL_append (validL_filter _ (valid_arr.mp hx)) ih
    | null => simpa only [flattenElems] using ih
    | _ => simp only [flattenElems]; exact validL_cons.mpr ⟨hx, ih⟩

theorem validL_flattenForProject : ∀ {xs : List Val}, Val.ValidL xs = true →
    Val.ValidL (flattenForProject xs) = true
  | [], _ => rfl
  | x :: rest, h => by
    have ⟨hx, hr⟩ := validL_cons.mp h
    have ih := validL_flattenForProject hr
    cases x with
    | arr t ys => simp only [flattenForProject]; exact validL_append (valid_arr.mp hx) ih
    | _ => simp only [flattenForProject]; exact validL_cons.mpr ⟨hx, ih⟩

theorem flatten_valid {v : Val} (h : v.Valid = true) : (flatten v).Valid = true := by
  cases v with
  | arr t xs => exact valid_arr.mpr (validL_flattenElems (valid_arr.mp h))
  | _ => rfl

theorem pruneArray_valid {v : Val} (h : v.Valid = true) : (pruneArray v).Valid = true := by
  cases v with
  | arr t xs =>
    simp only [pruneArray]
    split
    · exact valid_arr.mpr (validL_filter _ (valid_arr.mp h))
    · exact h
  | _ => rfl

theorem mapPrune_v {f : Val → Res Val} (hf : VFn f) :
    ∀ {xs : List Val}, Val.ValidL xs = true → VLR (mapPrune f xs)
  | [], _ => validL_nil
  | x :: xs, h => by
    have ⟨hx, hr⟩ := validL_cons.mp h
    simp only [mapPrune]
    refine Sat.bind (hf x hx) fun p hp => Sat.bind (mapPrune_v hf hr) fun rest hrest => Sat.pure ?_
    split
    · exact hrest
    · exact validL_cons.mpr ⟨hp, hrest⟩

theorem mapAll_v {f : Val → Res Val} (hf : VFn f) :
    ∀ {xs : List Val}, Val.ValidL xs = true → VLR (mapAll f xs)
  | [], _ => validL_nil
  | x :: xs, h => by
    have ⟨hx, hr⟩ := validL_cons.mp h
    simp only [mapAll]
    exact Sat.bind (hf x hx) fun p hp => Sat.bind (mapAll_v hf hr) fun rest hrest =>
      Sat.pure (validL_cons.mpr ⟨hp, hrest⟩)

theorem filterLoop_v {c : Val → Res Val} (hc : VFn c) :
    ∀ {xs : List Val}, Val.ValidL xs = true → VLR (filterLoop c xs)
  | [], _ => validL_nil
  | x :: xs, h => by
    have ⟨hx, hr⟩ := validL_cons.mp h
    simp only [filterLoop]
    refine Sat.bind (hc x hx) fun b _ => Sat.bind (filterLoop_v hc hr) fun rest hrest => Sat.pure ?_
    split
    · exact validL_cons.mpr ⟨hx, hrest⟩
    · exact hrest

theorem filterMapPrune_v {c f : Val → Res Val} (hc : VFn c) (hf : VFn f) :
    ∀ {xs : List Val}, Val.ValidL xs = true → VLR (filterMapPrune c f xs)
  | [], _ => validL_nil
  | x :: xs, h => by
    have ⟨hx, hr⟩ := validL_cons.mp h
    simp only [filterMapPrune]
    refine Sat.bind (hc x hx) fun b _ => ?_
    split
    · refine Sat.bind (hf x hx) fun p hp => Sat.bind (filterMapPrune_v hc hf hr) fun rest hrest => Sat.pure ?_
      split
      · exact hrest
      · exact validL_cons.mpr ⟨hp, hrest⟩
    · exact filterMapPrune_v hc hf hr

theorem projectArray_v {f : Val → Res Val} {v : Val} (hf : VFn f) (h : v.Valid = true) :
    VR (projectArray f v) := by
  cases v with
  | arr t xs => exact widenArr_v (mapPrune_v hf (valid_arr.mp h))
  | _ => exact valid_null

theorem filterArray_v {c : Val → Res Val} {v : Val} (hc : VFn c) (h : v.Valid = true) :
    VR (filterArray c v) := by
  cases v with
  | arr t xs => exact widenArr_v (filterLoop_v hc (valid_arr.mp h))
  | _ => exact valid_null

theorem filterAndProjectArray_v {c f : Val → Res Val} {v : Val} (hc : VFn c) (hf : VFn f)
    (h : v.Valid = true) : VR (filterAndProjectArray c f v) := by
  cases v with
  | arr t xs => exact widenArr_v (filterMapPrune_v hc hf (valid_arr.mp h))
  | _ => exact valid_null

theorem flattenAndProjectArray_v {f : Val → Res Val} {v : Val} (hf : VFn f)
    (h : v.Valid = true) : VR (flattenAndProjectArray f v) := by
  cases v with
  | arr t xs => exact widenArr_v (mapPrune_v hf (validL_flattenForProject (valid_arr.mp h)))
  | _ => exact valid_null

theorem mapArray_v {f : Val → Res Val} {v : Val} (hf : VFn f) (h : v.Valid = true) :
    VR (mapArray f v) := by
  cases v with
  | arr t xs => exact widenArr_v (mapAll_v hf (valid_arr.mp h))
  | _ => exact Sat.errType

theorem arrayPickBy_v (better : Key → Key → Bool) {f : Val → Res Val} {v : Val}
    (h : v.Valid = true) : VR (arrayPickBy better f v) := by
  cases v with
  | arr t xs =>
    have hx := valid_arr.mp h
    cases xs with
    | nil => exact valid_null
    | cons x0 rest =>
      have ⟨hx0, hrest⟩ := validL_cons.mp hx
      simp only [arrayPickBy]
      refine Sat.widen' ?_
      generalize keysOf f (x0 :: rest) = ks
      cases ks with
      | ok ks =>
        show Res.Sat false _ (match ks with | [] => _ | k0 :: krest => _)
        split
        · exact valid_null
        · split
          · exact Sat.nondet
          · next k0 krest _ =>
            show (pickBy better x0 k0 (rest.zip krest)).Valid = true
            rcases pickBy_mem better (rest.zip krest) x0 k0 with h | ⟨p, hp, h⟩
            · rw [h]; exact hx0
            · rw [h]
              have : p.1 ∈ rest := by
                cases p with
                | mk a b => exact (List.of_mem_zip hp).1
              exact validL_iff.mp hrest _ this
      | err cs => exact Sat.err
      | nondet => exact Sat.nondet
      | panic w => trivial
      | unmodelled w => trivial
  | _ => exact Sat.errType

theorem validL_sortByKeys {xs : List Val} (ks : List Key) (h : Val.ValidL xs = true) :
    Val.ValidL (sortByKeys xs ks) = true := by
  refine validL_sub h fun y hy => ?_
  simp only [sortByKeys, List.mem_map] at hy
  obtain ⟨⟨a, b⟩, hp, rfl⟩ := hy
  exact (List.of_mem_zip (List.mem_mergeSort.mp hp)).1

theorem sortArrayBy_v {f : Val → Res Val} {v : Val} (h : v.Valid = true) : VR (sortArrayBy f v) := by
  cases v with
  | arr t xs =>
    have hx := valid_arr.mp h
    simp only [sortArrayBy]
    split
    · exact h
    · refine Sat.widen' ?_
      generalize keysOf f xs = ks
      cases ks with
      | ok ks =>
        show Res.Sat false _ (if _ then _ else _)
        split
        · exact Sat.nondet
        · exact valid_anyArr (validL_sortByKeys ks hx)
      | err cs => exact Sat.err
      | nondet => exact Sat.nondet
      | panic w => trivial
      | unmodelled w => trivial
  | _ => exact Sat.errType

theorem allStrings_valid : ∀ {xs : List Val} {ss : List Bytes}, Val.ValidL xs = true → allStrings xs = some ss →
    ∀ s ∈ ss, validUTF8 s = true
  | [], ss, _, h => by
    simp only [allStrings, Option.some.injEq] at h
    subst h
    intro s hs; cases hs
  | x :: rest, ss, hv, h => by
    have ⟨hx, hr⟩ := validL_cons.mp hv
    cases x with
    | str s0 =>
      simp only [allStrings] at h
      cases hrest : allStrings rest with
      | none => rw [hrest] at h; cases h
      | some ss' =>
        rw [hrest] at h
        simp only [Option.map_some, Option.some.injEq] at h
        subst h
        intro s hs
        rcases List.mem_cons.mp hs with rfl | hm
        · exact valid_str.mp hx
        · exact allStrings_valid hr hrest s hm
    | _ => simp [allStrings] at h

theorem maxStr_mem : ∀ (ss : List Bytes) (m : Bytes), maxStr m ss = m ∨ maxStr m ss ∈ ss
  | [], m => Or.inl rfl
  | s :: rest, m => by
    simp only [maxStr]
    split
    · rcases maxStr_mem rest s with h | h
      · exact Or.inr (by rw [h]; exact List.mem_cons_self)
      · exact Or.inr (List.mem_cons_of_mem _ h)
    · rcases maxStr_mem rest m with h | h
      · exact Or.inl h
      · exact Or.inr (List.mem_cons_of_mem _ h)

theorem minStr_mem : ∀ (ss : List Bytes) (m : Bytes), minStr m ss = m ∨ minStr m ss ∈ ss
  | [], m => Or.inl rfl
  | s :: rest, m => by
    simp only [minStr]
    split
    · rcases minStr_mem rest s with h | h
      · exact Or.inr (by rw [h]; exact List.mem_cons_self)
      · exact Or.inr (List.mem_cons_of_mem _ h)
    · rcases minStr_mem rest m with h | h
      · exact Or.inl h
      · exact Or.inr (List.mem_cons_of_mem _ h)

theorem arrayMax_v {v : Val} (h : v.Valid = true) : VR (arrayMax v) := by
  cases v with
  | arr t xs =>
    have hx := valid_arr.mp h
    simp only [arrayMax]
    split
    · exact valid_null
    · next s rest =>
      have ⟨hs, hrest⟩ := validL_cons.mp hx
      split
      · next ss hss =>
        refine valid_str.mpr ?_
        rcases maxStr_mem ss s with h | h
        · rw [h]; exact valid_str.mp hs
        · exact allStrings_valid hrest hss _ h
      · exact Sat.errType
    · split
      · split
        · exact Sat.nondet
        · exact valid_num
      · exact Sat.errType
  | _ => exact Sat.errType

theorem arrayMin_v {v : Val} (h : v.Valid = true) : VR (arrayMin v) := by
  cases v with
  | arr t xs =>
    have hx := valid_arr.mp h
    simp only [arrayMin]
    split
    · exact valid_null
    · next s rest =>
      have ⟨hs, hrest⟩ := validL_cons.mp hx
      split
      · next ss hss =>
        refine valid_str.mpr ?_
        rcases minStr_mem ss s with h | h
        · rw [h]; exact valid_str.mp hs
        · exact allStrings_valid hrest hss _ h
      · exact Sat.errType
    · split
      · split
        · exact Sat.nondet
        · exact valid_num
      · exact Sat.errType
  | _ => exact Sat.errType

theorem sortArray_v {v : Val} (h : v.Valid = true) : VR (sortArray v) := by
  cases v with
  | arr t xs =>
    have hx := valid_arr.mp h
    simp only [sortArray]
    split
    · exact h
    · split
      · next ss hss =>
        refine valid_anyArr (validL_iff.mpr fun y hy => ?_)
        obtain ⟨b, hb, rfl⟩ := List.mem_map.mp hy
        exact valid_str.mpr (allStrings_valid hx hss b (List.mem_mergeSort.mp hb))
      · exact Sat.errType
    · split
      · split
        · exact Sat.nondet
        · refine valid_anyArr (validL_sub hx fun y hy => ?_)
          obtain ⟨⟨a, b⟩, hp, rfl⟩ := List.mem_map.mp hy
          exact (List.of_mem_zip (List.mem_mergeSort.mp hp)).1
      · exact Sat.errType
  | _ => exact Sat.errType

/-- in non-strict mode an outcome about which nothing is claimed -/
theorem Sat.triv {α} {r : Res α} : Res.Sat false (fun _ => True) r := by
  cases r with
  | ok a => trivial
  | err cs => exact Sat.err
  | nondet => exact Sat.nondet
  | panic w => trivial
  | unmodelled w => trivial

/-! ## Object.lean -/

theorem field_valid (k : Bytes) {v : Val} (h : v.Valid = true) : (field k v).Valid = true := by
  cases v with
  | obj kvs =>
    simp only [field]
    cases hl : objLookup k kvs with
    | none => rfl
    | some x => exact valid_objLookup (valid_obj.mp h) hl
  | _ => rfl

theorem validL_values {kvs : List (Bytes × Val)} (h : Val.ValidF kvs = true) :
    Val.ValidL (kvs.map Prod.snd) = true :=
  validL_iff.mpr fun y hy => by
    obtain ⟨kv, hkv, rfl⟩ := List.mem_map.mp hy
    exact (validF_iff.mp h kv hkv).2

theorem objectValues_valid {v : Val} (h : v.Valid = true) : (objectValues v).Valid = true := by
  cases v with
  | obj kvs => exact valid_arr.mpr (validL_filter _ (validL_values (valid_obj.mp h)))
  | _ => rfl

theorem projectObject_v {f : Val → Res Val} {v : Val} (hf : VFn f) (h : v.Valid = true) :
    VR (projectObject f v) := by
  cases v with
  | obj kvs => exact widenArr_v (mapPrune_v hf (validL_values (valid_obj.mp h)))
  | _ => exact valid_null

theorem values_v {v : Val} (h : v.Valid = true) : VR (values v) := by
  cases v with
  | obj kvs => exact valid_arr.mpr (validL_values (valid_obj.mp h))
  | _ => exact Sat.errType

/-- `keys`: the keys of a valid object are valid strings (this is why `Val.Valid` constrains keys) -/
theorem keys_v {v : Val} (h : v.Valid = true) : VR (keys v) := by
  cases v with
  | obj kvs =>
    refine valid_arr.mpr (validL_iff.mpr fun y hy => ?_)
    obtain ⟨kv, hkv, rfl⟩ := List.mem_map.mp hy
    exact valid_str.mpr (validF_iff.mp (valid_obj.mp h) kv hkv).1
  | _ => exact Sat.errType

theorem items_v {v : Val} (h : v.Valid = true) : VR (items v) := by
  cases v with
  | obj kvs =>
    refine valid_arr.mpr (validL_iff.mpr fun y hy => ?_)
    obtain ⟨kv, hkv, rfl⟩ := List.mem_map.mp hy
    have hk := validF_iff.mp (valid_obj.mp h) kv hkv
    exact valid_anyArr (validL_cons.mpr ⟨valid_str.mpr hk.1, validL_cons.mpr ⟨hk.2, rfl⟩⟩)
  | _ => exact Sat.errType

theorem fromItemsLoop_v : ∀ {xs : List Val} {acc : List (Bytes × Val)},
    Val.ValidL xs = true → Val.ValidF acc = true → VFR (fromItemsLoop xs acc)
  | [], _, _, ha => ha
  | x :: rest, acc, h, ha => by
    have ⟨hx, hr⟩ := validL_cons.mp h
    cases x with
    | arr t ia =>
      have hia := valid_arr.mp hx
      simp only [fromItemsLoop]
      split
      · next k v =>
        split
        · exact Sat.nondet
        · have hk := (validL_cons.mp hia).1
          have hv := (validL_cons.mp (validL_cons.mp hia).2).1
          split
          · exact fromItemsLoop_v hr (validF_objInsert (valid_str.mp hk) hv ha)
          · exact Sat.errValue
      · exact Sat.errValue
    | _ => exact Sat.errType

theorem fromItems_v {v : Val} (h : v.Valid = true) : VR (fromItems v) := by
  cases v with
  | arr t xs =>
    have hx := valid_arr.mp h
    have hl := fromItemsLoop_v hx validF_nil
    simp only [fromItems]
    generalize fromItemsLoop xs [] = r at hl
    cases r with
    | ok kvs =>
      simp only []
      split
      · exact Sat.nondet
      · exact valid_obj.mpr hl
    | err cs =>
      simp only []
      split <;> exact Sat.err
    | nondet => exact hl
    | panic w => trivial
    | unmodelled w => trivial
  | _ => exact Sat.errType

/-- the invariant of the groups of `group_by`: valid keys, valid members -/
def GroupsOk (gs : List (Bytes × List Val)) : Prop := ∀ kg ∈ gs, validUTF8 kg.1 = true ∧ Val.ValidL kg.2 = true

theorem groupInsert_inv {k : Bytes} {v : Val} (hk : validUTF8 k = true) (hv : v.Valid = true) :
    ∀ {acc : List (Bytes × List Val)}, GroupsOk acc → GroupsOk (groupInsert k v acc)
  | [], _ => by
    intro kg hkg
    simp only [groupInsert, List.mem_singleton] at hkg
    subst hkg
    exact ⟨hk, validL_cons.mpr ⟨hv, rfl⟩⟩
  | (k', g) :: rest, h => by
    have hg := h (k', g) List.mem_cons_self
    have hrest : GroupsOk rest := fun kg hkg => h kg (List.mem_cons_of_mem _ hkg)
    intro kg hkg
    simp only [groupInsert] at hkg
    split at hkg
    · rcases List.mem_cons.mp hkg with rfl | hm
      · exact ⟨hg.1, validL_append hg.2 (validL_cons.mpr ⟨hv, rfl⟩)⟩
      · exact hrest kg hm
    · split at hkg
      · rcases List.mem_cons.mp hkg with rfl | hm
        · exact ⟨hk, validL_cons.mpr ⟨hv, rfl⟩⟩
        · exact h kg hm
      · rcases List.mem_cons.mp hkg with rfl | hm
        · exact hg
        · exact groupInsert_inv hk hv hrest kg hm

theorem groupLoop_v {f : Val → Res Val} (hf : VFn f) :
    ∀ {xs : List Val} {acc : List (Bytes × List Val)}, Val.ValidL xs = true → GroupsOk acc →
      Res.Sat false GroupsOk (groupLoop f xs acc)
  | [], _, _, ha => ha
  | x :: rest, acc, h, ha => by
    have ⟨hx, hr⟩ := validL_cons.mp h
    simp only [groupLoop]
    refine Sat.bind (hf x hx) fun rv hrv => ?_
    split
    · exact groupLoop_v hf hr (groupInsert_inv (valid_str.mp hrv) hx ha)
    · exact Sat.errType

/-- `group_by`: the keys of the result are the strings the key expression returned -/
theorem groupBy_v {f : Val → Res Val} {v : Val} (hf : VFn f) (h : v.Valid = true) : VR (groupBy f v) := by
  cases v with
  | arr t xs =>
    have hx := valid_arr.mp h
    simp only [groupBy]
    split
    · exact valid_null
    · refine Sat.widen' (Sat.bind (groupLoop_v hf hx (acc := []) (fun _ h => by cases h)) fun gs hgs => Sat.pure ?_)
      refine valid_obj.mpr (validF_iff.mpr fun kv hkv => ?_)
      obtain ⟨kg, hkg, rfl⟩ := List.mem_map.mp hkv
      exact ⟨(hgs kg hkg).1, valid_arr.mpr (hgs kg hkg).2⟩
  | _ => exact Sat.errType

/-! ## Slice.lean -/

theorem validL_pickStep {xs : List Val} (h : Val.ValidL xs = true) (step : Int) :
    ∀ (n : Nat) (start : Int), Val.ValidL (pickStep xs start step n) = true
  | 0, _ => rfl
  | n + 1, _ => validL_cons.mpr ⟨valid_getD h _, validL_pickStep h step n _⟩

/-- `[a:b]`: a sub-list of an array; for a string a byte range that starts and ends at code point boundaries -/
theorem slice_v {v : Val} (a b : Int) (h : v.Valid = true) : VR (slice v a b) := by
  cases v with
  | arr t xs =>
    have hx := valid_arr.mp h
    simp only [slice]
    split
    · exact valid_anyArr rfl
    · split
      · exact valid_anyArr rfl
      · split
        · exact Sat.nondet
        · exact valid_anyArr (validL_sub hx fun y hy => List.mem_of_mem_drop (List.mem_of_mem_take hy))
  | str s =>
    obtain ⟨out, ho, hv⟩ := C11.valid_out_slice s (valid_str.mp h) a b
    rw [ho]
    exact valid_str.mpr hv
  | _ => exact valid_null

/-- `[a:b:c]`: the string branch re-encodes the code points it visits, so its output is valid for any input -/
theorem sliceStep_v {v : Val} (a b c : Int) (h : v.Valid = true) : VR (sliceStep v a b c) := by
  cases v with
  | arr t xs =>
    have hx := valid_arr.mp h
    simp only [sliceStep]
    split
    · exact valid_anyArr rfl
    · split
      · exact Sat.nondet
      · exact valid_anyArr (validL_pickStep hx _ _ _)
  | str s =>
    simp only [sliceStep]
    split
    · exact valid_str.mpr rfl
    · split
      · exact valid_str.mpr (C11S.valid_walkFwd _ _ _)
      · exact valid_str.mpr (C11S.valid_walkBwd _ _ _)
  | _ => exact valid_null

/-! ## Compare.lean, Number.lean: booleans, numbers and null -/

theorem contains_v (x y : Val) : VR (contains x y) := by
  cases x with
  | str b => simp only [contains]; split <;> exact valid_bool
  | arr t xs =>
    simp only [contains]
    split
    · exact Sat.nondet
    · exact valid_bool
  | _ => exact Sat.errType

theorem cmpOp_valid (f : Dec → Dec → Bool) (x y : Val) : (cmpOp f x y).Valid = true := by
  simp only [cmpOp]
  split
  · rfl
  · split <;> rfl

theorem checkD_v (r : Dec) : VR (checkD r) := by
  simp only [checkD]
  split
  · exact Sat.errNaN
  · split
    · exact Sat.errNaN
    · exact valid_num

theorem checkF_v (r : F64) : VR (checkF r) := by
  simp only [checkF]
  split
  · exact Sat.errNaN
  · split
    · exact Sat.errNaN
    · exact valid_num

theorem arith_v (fop : F64 → F64 → F64) (dop : Dec → Dec → Dec) (x y : Val) : VR (arith fop dop x y) := by
  simp only [arith]
  split
  · exact checkF_v _
  · split
    · exact Sat.errType
    · split
      · exact Sat.errType
      · exact checkD_v _

theorem numAbs_v (v : Val) : VR (numAbs v) := by
  simp only [numAbs]
  split
  · exact valid_num
  · split
    · exact Sat.errType
    · exact valid_num

theorem numCeil_v (v : Val) : VR (numCeil v) := by
  simp only [numCeil]
  split
  · exact valid_num
  · split
    · exact Sat.errType
    · exact valid_num

theorem numFloor_v (v : Val) : VR (numFloor v) := by
  simp only [numFloor]
  split
  · exact valid_num
  · split
    · exact Sat.errType
    · exact valid_num

theorem numSum_v (v : Val) : VR (numSum v) := by
  cases v with
  | arr t xs =>
    simp only [numSum]
    split
    · exact Sat.errType
    · split
      · exact checkD_v _
      · exact Sat.nondet
  | _ => exact Sat.errType

theorem numAvg_v (v : Val) : VR (numAvg v) := by
  cases v with
  | arr t xs =>
    simp only [numAvg]
    split
    · exact valid_null
    · split
      · exact Sat.errType
      · split
        · exact checkD_v _
        · exact Sat.nondet
  | _ => exact Sat.errType


/-! ## `json.Marshal` writes valid UTF-8, whatever the value -/

/-- all bytes are ASCII -/
def Ascii (s : Bytes) : Prop := ∀ b ∈ s, b < 0x80

theorem ascii_nil : Ascii [] := by intro b h; cases h
theorem ascii_cons {x : Nat} {a : Bytes} : Ascii (x :: a) ↔ x < 0x80 ∧ Ascii a := by
  simp [Ascii]
theorem ascii_append {a b : Bytes} : Ascii (a ++ b) ↔ Ascii a ∧ Ascii b := by
  simp [Ascii, or_imp, forall_and]
theorem ascii_replicate (n : Nat) {x : Nat} (hx : x < 0x80) : Ascii (List.replicate n x) := by
  intro b hb
  rw [(List.mem_replicate.mp hb).2]; exact hx
theorem Ascii.take {a : Bytes} (h : Ascii a) (n : Nat) : Ascii (a.take n) := fun b hb => h b (List.mem_of_mem_take hb)
theorem Ascii.drop {a : Bytes} (h : Ascii a) (n : Nat) : Ascii (a.drop n) := fun b hb => h b (List.mem_of_mem_drop hb)
theorem Ascii.valid {a : Bytes} (h : Ascii a) : validUTF8 a = true := C11S.validUTF8_ascii h

theorem digitsOfAux_ascii : ∀ (fuel n : Nat) (acc : List Nat), Ascii acc → Ascii (Dec.digitsOfAux fuel n acc)
  | 0, _, _, h => h
  | fuel + 1, n, acc, h => by
    unfold Dec.digitsOfAux
    split
    · exact h
    · exact digitsOfAux_ascii fuel _ _ (ascii_cons.mpr ⟨by omega, h⟩)

theorem digitsOf_ascii (n : Nat) : Ascii (Dec.digitsOf n) := digitsOfAux_ascii _ _ _ ascii_nil

theorem natToBytes_ascii (n : Nat) : Ascii (Dec.natToBytes n) := by
  unfold Dec.natToBytes
  split
  · exact ascii_cons.mpr ⟨by omega, ascii_nil⟩
  · exact digitsOf_ascii n

theorem intToBytes_ascii (i : Int) : Ascii (Json.intToBytes i) := by
  unfold Json.intToBytes
  split
  · exact ascii_cons.mpr ⟨by omega, natToBytes_ascii _⟩
  · exact natToBytes_ascii _

example : Json.intToBytes (-42) = [0x2D, 0x34, 0x32] := by decide

/-- `Decimal.MarshalJSON` writes digits, a sign, `.`, `e`, `+`/`-` only -/
theorem marshalJSON_ascii {d : Dec} {b : Bytes} (h : d.marshalJSON = some b) : Ascii b := by
  unfold Dec.marshalJSON at h
  split at h
  · cases h
  · cases h
  · next neg c e =>
    have hsign : Ascii (if neg = true then [0x2D] else []) := by
      split
      · exact ascii_cons.mpr ⟨by omega, ascii_nil⟩
      · exact ascii_nil
    simp only [] at h
    split at h
    · injection h with h; subst h
      exact ascii_append.mpr ⟨hsign, ascii_cons.mpr ⟨by omega, ascii_nil⟩⟩
    · split at h
      · next c' e' _ =>
        have hds := digitsOf_ascii c'
        split at h
        · injection h with h; subst h
          refine ascii_append.mpr ⟨ascii_append.mpr ⟨ascii_append.mpr ⟨hsign, ?_⟩, ascii_cons.mpr ⟨by omega, ascii_nil⟩⟩, ?_⟩
          · split
            · exact ascii_cons.mpr ⟨by omega, ascii_nil⟩
            · next d0 rest hd =>
              rw [hd] at hds
              have ⟨h0, hr⟩ := ascii_cons.mp hds
              split
              · exact ascii_cons.mpr ⟨h0, ascii_nil⟩
              · exact ascii_cons.mpr ⟨h0, ascii_cons.mpr ⟨by omega, hr⟩⟩
          · split
            · exact ascii_cons.mpr ⟨by omega, natToBytes_ascii _⟩
            · exact ascii_cons.mpr ⟨by omega, natToBytes_ascii _⟩
        · split at h
          · injection h with h; subst h
            exact ascii_append.mpr ⟨ascii_append.mpr ⟨hsign, hds⟩, ascii_replicate _ (by omega)⟩
          · split at h
            · injection h with h; subst h
              exact ascii_append.mpr ⟨ascii_append.mpr ⟨ascii_append.mpr ⟨hsign, hds.take _⟩,
                ascii_cons.mpr ⟨by omega, ascii_nil⟩⟩, hds.drop _⟩
            · injection h with h; subst h
              exact ascii_append.mpr ⟨ascii_append.mpr ⟨ascii_append.mpr ⟨hsign,
                ascii_cons.mpr ⟨by omega, ascii_cons.mpr ⟨by omega, ascii_nil⟩⟩⟩, ascii_replicate _ (by omega)⟩, hds⟩
      · cases h

example : (Dec.fin true 125 (-1)).marshalJSON = some [0x2D, 0x31, 0x32, 0x2E, 0x35] := by decide

/-- a valid `json.Number` text is ASCII -/
theorem isValidNumber_ascii {t : Bytes} (h : Json.isValidNumber t = true) : Ascii t := by
  unfold Json.isValidNumber at h
  split at h
  · next n heq =>
    obtain ⟨h1, h2, _⟩ := Literals.parseNumberTok_spec _ _ _ heq
    rw [List.append_nil] at h1
    subst h1
    intro b hb
    have := h2 b hb
    unfold Literals.NumChar at this
    omega
  · cases h

theorem hexDigit_lt {n : Nat} (h : n < 16) : Json.hexDigit n < 0x80 := by
  unfold Json.hexDigit; split <;> omega

theorem u00_ascii {b : Nat} (hb : b < 0x80) : Ascii (Json.u00 b) := by
  unfold Json.u00
  intro x hx
  simp only [List.mem_cons, List.not_mem_nil, or_false] at hx
  have h1 := hexDigit_lt (n := b / 16) (by omega)
  have h2 := hexDigit_lt (n := b % 16) (by omega)
  rcases hx with rfl | rfl | rfl | rfl | rfl | rfl <;> omega

/-- the bytes a successful decoding step consumed are the encoding of the decoded code point -/
theorem take_decodeRune_valid (s : Bytes) (hne : s ≠ [])
    (h : ¬ ((decodeRune s).1 = RuneError ∧ (decodeRune s).2 = 1)) :
    validUTF8 (s.take (decodeRune s).2) = true := by
  obtain ⟨_, h2, h3⟩ := decodeRune_valid s hne h
  have ⟨rest, hr⟩ : ∃ rest, s = encodeRune (decodeRune s).1 ++ rest := ⟨_, h2⟩
  rw [h3]
  generalize (decodeRune s).1 = r at hr ⊢
  subst hr
  rw [List.take_left' rfl]
  exact C11S.validUTF8_encodeRune_any _

/-- the body of a JSON string literal written by `appendString` is valid UTF-8 for ANY input bytes: valid code points
    are copied or escaped, invalid bytes are written as the escape `�` -/
theorem encStringAux_valid : ∀ (fuel : Nat) (s : Bytes), validUTF8 (Json.encStringAux fuel s) = true
  | 0, _ => rfl
  | _ + 1, [] => rfl
  | fuel + 1, b :: t => by
    simp only [Json.encStringAux]
    split
    · next hb =>
      refine C11S.validUTF8_append (Ascii.valid ?_) (encStringAux_valid fuel t)
      repeat' split
      all_goals first
        | exact u00_ascii hb
        | (intro x hx; simp only [List.mem_cons, List.not_mem_nil, or_false] at hx; omega)
    · have hv := take_decodeRune_valid (b :: t) (by simp)
      generalize decodeRune (b :: t) = d at hv
      obtain ⟨r, sz⟩ := d
      simp only [] at hv ⊢
      split
      · exact C11S.validUTF8_append (by decide) (encStringAux_valid fuel t)
      · next hne =>
        split
        · exact C11S.validUTF8_append (by decide) (encStringAux_valid fuel _)
        · split
          · exact C11S.validUTF8_append (by decide) (encStringAux_valid fuel _)
          · exact C11S.validUTF8_append (hv hne) (encStringAux_valid fuel _)

theorem encString_valid (s : Bytes) : validUTF8 (Json.encString s) = true := by
  unfold Json.encString
  exact C11S.validUTF8_append (C11S.validUTF8_append (by decide) (encStringAux_valid _ _)) (by decide)

/-- an invalid byte is written as the six ASCII characters `�` -/
example : Json.encString [0xFF] = [0x22, 0x5C, 0x75, 0x66, 0x66, 0x66, 0x64, 0x22] := by decide
/-- "é" is copied -/
example : Json.encString [0xC3, 0xA9] = [0x22, 0xC3, 0xA9, 0x22] := by decide

mutual
/-- **`json.Marshal` (the `to_string` builtin) writes valid UTF-8 for any value**, valid or not -/
theorem encode_valid : ∀ (v : Val) {b : Bytes}, Json.encode v = .ok b → validUTF8 b = true
  | .null, b, h => by
    simp only [Json.encode, Json.Enc.ok.injEq] at h; subst h; decide
  | .bool true, b, h => by
    simp only [Json.encode, Json.Enc.ok.injEq] at h; subst h; decide
  | .bool false, b, h => by
    simp only [Json.encode, Json.Enc.ok.injEq] at h; subst h; decide
  | .str s, b, h => by
    simp only [Json.encode, Json.Enc.ok.injEq] at h; subst h; exact encString_valid s
  | .num (.jnum t), b, h => by
    simp only [Json.encode] at h
    split at h
    · simp only [Json.Enc.ok.injEq] at h; subst h; decide
    · split at h
      · next hv => simp only [Json.Enc.ok.injEq] at h; subst h; exact (isValidNumber_ascii hv).valid
      · cases h
  | .num (.dec d), b, h => by
    simp only [Json.encode] at h
    split at h
    · next bs hm => simp only [Json.Enc.ok.injEq] at h; subst h; exact (marshalJSON_ascii hm).valid
    · cases h
  | .num (.int _ v), b, h => by
    simp only [Json.encode, Json.Enc.ok.injEq] at h; subst h; exact (intToBytes_ascii v).valid
  | .num (.f64 _), b, h => by simp [Json.encode] at h
  | .num (.f32 _), b, h => by simp [Json.encode] at h
  | .arr .nil xs, b, h => by
    simp only [Json.encode, Json.Enc.ok.injEq] at h; subst h; decide
  | .arr .plain xs, b, h => by
    simp only [Json.encode] at h
    split at h
    · next parts hp =>
      simp only [Json.Enc.ok.injEq] at h; subst h
      exact C11S.validUTF8_append (C11S.validUTF8_append (by decide) (encodeL_valid xs hp)) (by decide)
    · next e hne => exact (hne b h).elim
  | .arr .enum xs, b, h => by
    simp only [Json.encode] at h
    split at h
    · next parts hp =>
      simp only [Json.Enc.ok.injEq] at h; subst h
      exact C11S.validUTF8_append (C11S.validUTF8_append (by decide) (encodeL_valid xs hp)) (by decide)
    · next e hne => exact (hne b h).elim
  | .obj kvs, b, h => by
    simp only [Json.encode] at h
    split at h
    · next parts hp =>
      simp only [Json.Enc.ok.injEq] at h; subst h
      exact C11S.validUTF8_append (C11S.validUTF8_append (by decide) (encodeF_valid kvs hp)) (by decide)
    · next e hne => exact (hne b h).elim
  | .foreign _, b, h => by simp [Json.encode] at h
theorem encodeL_valid : ∀ (xs : List Val) {b : Bytes}, Json.encodeL xs = .ok b → validUTF8 b = true
  | [], b, h => by
    simp only [Json.encodeL, Json.Enc.ok.injEq] at h; subst h; rfl
  | [x], b, h => by
    simp only [Json.encodeL] at h
    exact encode_valid x h
  | x :: y :: rest, b, h => by
    simp only [Json.encodeL] at h
    split at h
    · next bx hx =>
      split at h
      · next br hr =>
        simp only [Json.Enc.ok.injEq] at h; subst h
        exact C11S.validUTF8_append (C11S.validUTF8_append (encode_valid x hx) (by decide)) (encodeL_valid (y :: rest) hr)
      · next e hne => exact (hne b h).elim
    · next e hne => exact (hne b h).elim
theorem encodeF_valid : ∀ (kvs : List (Bytes × Val)) {b : Bytes}, Json.encodeF kvs = .ok b → validUTF8 b = true
  | [], b, h => by
    simp only [Json.encodeF, Json.Enc.ok.injEq] at h; subst h; rfl
  | [(k, x)], b, h => by
    simp only [Json.encodeF] at h
    split at h
    · next bx hx =>
      simp only [Json.Enc.ok.injEq] at h; subst h
      exact C11S.validUTF8_append (C11S.validUTF8_append (encString_valid k) (by decide)) (encode_valid x hx)
    · next e hne => exact (hne b h).elim
  | (k, x) :: kv :: rest, b, h => by
    simp only [Json.encodeF] at h
    split at h
    · next bx hx =>
      split at h
      · next br hr =>
        simp only [Json.Enc.ok.injEq] at h; subst h
        exact C11S.validUTF8_append (C11S.validUTF8_append (C11S.validUTF8_append
          (C11S.validUTF8_append (encString_valid k) (by decide)) (encode_valid x hx)) (by decide))
          (encodeF_valid (kv :: rest) hr)
      · next e hne => exact (hne b h).elim
    · next e hne => exact (hne b h).elim
end


/-! ## String.lean, Functions.lean -/

/-- a string argument taken from a valid value is valid -/
theorem strArg_v {v : Val} (h : v.Valid = true) : Res.Sat false (fun s => validUTF8 s = true) (strArg v) := by
  cases v with
  | str s => exact valid_str.mp h
  | _ => exact Sat.errType

/-- closes goals about the builtins that return booleans, numbers or null -/
macro "v_auto" : tactic => `(tactic| repeat (first
  | exact Sat.pure valid_null | exact Sat.pure valid_num | exact Sat.pure valid_bool
  | exact Sat.errType | exact Sat.errValue | exact Sat.errNaN | exact trivial
  | (refine Sat.bind (strArg_sat _) fun _ _ => ?_) | (refine Sat.bind (intArg_sat _) fun _ _ => ?_)
  | split))

theorem startsWith_v (a b : Val) : VR (startsWith a b) := by
  simp only [startsWith]; v_auto
theorem endsWith_v (a b : Val) : VR (endsWith a b) := by
  simp only [endsWith]; v_auto
theorem findFirst_v (a b : Val) : VR (findFirst a b) := by
  simp only [findFirst]; v_auto
theorem findLast_v (a b : Val) : VR (findLast a b) := by
  simp only [findLast]; v_auto
theorem findFrom_v (l : Bool) (a b c : Val) : VR (findFrom l a b c) := by
  simp only [findFrom]; v_auto
theorem findBetween_v (l : Bool) (a b c d : Val) : VR (findBetween l a b c d) := by
  simp only [findBetween]
  refine Sat.bind (strArg_sat _) fun _ _ => Sat.bind (strArg_sat _) fun _ _ => Sat.bind (P := fun _ => True) ?_ fun _ _ => ?_
  · v_auto
  · v_auto

/-- `join`: valid separator, valid pieces -/
theorem join_v {a b : Val} (ha : a.Valid = true) (hb : b.Valid = true) : VR (join a b) := by
  cases b with
  | arr t xs =>
    have hx := valid_arr.mp hb
    simp only [join]
    split
    · next s =>
      split
      · next ss hss =>
        split
        · exact Sat.nondet
        · exact valid_str.mpr (C11S.valid_joinStrs (valid_str.mp ha) (allStrings_valid hx hss))
      · exact Sat.errType
    · exact Sat.errType
  | _ => exact Sat.errType

theorem padWith_v (left : Bool) {b : Bytes} (w : Int) {p : Bytes} {orig : Val} (hb : validUTF8 b = true)
    (hp : validUTF8 p = true) (h : orig.Valid = true) : VR (padWith left b w p orig) := by
  simp only [padWith]
  split
  · exact Sat.errValue
  · split
    · exact Sat.errValue
    · split
      · exact h
      · split
        · trivial
        · have hpad : validUTF8 ((List.replicate (w - ↑(runeCount b)).toNat p).foldr (· ++ ·) []) = true :=
            C11S.validUTF8_concat fun o ho => by rw [(List.mem_replicate.mp ho).2]; exact hp
          refine valid_str.mpr ?_
          split
          · exact C11S.validUTF8_append hpad hb
          · exact C11S.validUTF8_append hb hpad

theorem padLeft_v {a b c : Val} (ha : a.Valid = true) (hc : c.Valid = true) : VR (padLeft a b c) := by
  simp only [padLeft]
  exact Sat.bind (strArg_v ha) fun _ hs => Sat.bind (strArg_v hc) fun _ hp => Sat.bind (intArg_sat _) fun _ _ =>
    padWith_v _ _ hs hp ha
theorem padRight_v {a b c : Val} (ha : a.Valid = true) (hc : c.Valid = true) : VR (padRight a b c) := by
  simp only [padRight]
  exact Sat.bind (strArg_v ha) fun _ hs => Sat.bind (strArg_v hc) fun _ hp => Sat.bind (intArg_sat _) fun _ _ =>
    padWith_v _ _ hs hp ha
theorem padSpaceLeft_v {a : Val} (b : Val) (ha : a.Valid = true) : VR (padSpaceLeft a b) := by
  simp only [padSpaceLeft]
  exact Sat.bind (strArg_v ha) fun _ hs => Sat.bind (intArg_sat _) fun _ _ => padWith_v _ _ hs (by decide) ha
theorem padSpaceRight_v {a : Val} (b : Val) (ha : a.Valid = true) : VR (padSpaceRight a b) := by
  simp only [padSpaceRight]
  exact Sat.bind (strArg_v ha) fun _ hs => Sat.bind (intArg_sat _) fun _ _ => padWith_v _ _ hs (by decide) ha

theorem replace_v {a b c : Val} (ha : a.Valid = true) (hb : b.Valid = true) (hc : c.Valid = true) :
    VR (replace a b c) := by
  simp only [replace]
  exact Sat.bind (strArg_v ha) fun _ hs => Sat.bind (strArg_v hb) fun _ ho => Sat.bind (strArg_v hc) fun _ hn =>
    Sat.pure (valid_str.mpr (C11S.valid_stringsReplace hs ho hn _))

theorem replaceCount_v {a b c : Val} (d : Val) (ha : a.Valid = true) (hb : b.Valid = true) (hc : c.Valid = true) :
    VR (replaceCount a b c d) := by
  simp only [replaceCount]
  refine Sat.bind (strArg_v ha) fun _ hs => Sat.bind (strArg_v hb) fun _ ho => Sat.bind (strArg_v hc) fun _ hn =>
    Sat.bind (intArg_sat _) fun _ _ => ?_
  split
  · exact Sat.errValue
  · exact Sat.pure (valid_str.mpr (C11S.valid_stringsReplace hs ho hn _))

theorem strsToArr_valid {ss : List Bytes} (h : ∀ o ∈ ss, validUTF8 o = true) : (strsToArr ss).Valid = true := by
  refine valid_anyArr (validL_iff.mpr fun y hy => ?_)
  obtain ⟨b, hb, rfl⟩ := List.mem_map.mp hy
  exact valid_str.mpr (h b hb)

theorem isEmpty_false_ne {p : Bytes} (h : ¬ p.isEmpty = true) : p ≠ [] := by
  intro hp; subst hp; exact h rfl

theorem split_v {a b : Val} (ha : a.Valid = true) (hb : b.Valid = true) : VR (split a b) := by
  simp only [split]
  refine Sat.bind (strArg_v ha) fun _ hs => Sat.bind (strArg_v hb) fun _ hp => ?_
  split
  · exact valid_anyArr rfl
  · split
    · exact strsToArr_valid (C11S.valid_splitRunes hs _)
    · next hne => exact strsToArr_valid (C11S.valid_splitOn hs hp (isEmpty_false_ne hne) _)

theorem splitCount_v {a b : Val} (c : Val) (ha : a.Valid = true) (hb : b.Valid = true) : VR (splitCount a b c) := by
  simp only [splitCount]
  refine Sat.bind (strArg_v ha) fun _ hs => Sat.bind (strArg_v hb) fun _ hp => Sat.bind (intArg_sat _) fun _ _ => ?_
  split
  · exact Sat.errValue
  · split
    · exact valid_anyArr (validL_cons.mpr ⟨valid_str.mpr hs, rfl⟩)
    · split
      · exact valid_anyArr rfl
      · split
        · exact strsToArr_valid (C11S.valid_splitRunes hs _)
        · next hne => exact strsToArr_valid (C11S.valid_splitOn hs hp (isEmpty_false_ne hne) _)

theorem trimSpaceS_valid {s : Bytes} (hs : validUTF8 s = true) : validUTF8 (trimSpaceS s) = true :=
  C11S.valid_trimRightF _ (C11S.valid_trimLeftF _ hs)

theorem trim_v {a : Val} (b : Val) (ha : a.Valid = true) : VR (trim a b) := by
  simp only [trim]
  refine Sat.bind (strArg_v ha) fun _ hs => Sat.bind (strArg_sat _) fun _ _ => ?_
  split
  · exact valid_str.mpr (trimSpaceS_valid hs)
  · exact valid_str.mpr (C11S.valid_trimRightF _ (C11S.valid_trimLeftF _ hs))
theorem trimLeft_v {a : Val} (b : Val) (ha : a.Valid = true) : VR (trimLeft a b) := by
  simp only [trimLeft]
  refine Sat.bind (strArg_v ha) fun _ hs => Sat.bind (strArg_sat _) fun _ _ => ?_
  split <;> exact valid_str.mpr (C11S.valid_trimLeftF _ hs)
theorem trimRight_v {a : Val} (b : Val) (ha : a.Valid = true) : VR (trimRight a b) := by
  simp only [trimRight]
  refine Sat.bind (strArg_v ha) fun _ hs => Sat.bind (strArg_sat _) fun _ _ => ?_
  split <;> exact valid_str.mpr (C11S.valid_trimRightF _ hs)
theorem trimSpace_v {a : Val} (ha : a.Valid = true) : VR (trimSpace a) := by
  simp only [trimSpace]
  exact Sat.bind (strArg_v ha) fun _ hs => Sat.pure (valid_str.mpr (trimSpaceS_valid hs))
theorem trimSpaceLeft_v {a : Val} (ha : a.Valid = true) : VR (trimSpaceLeft a) := by
  simp only [trimSpaceLeft]
  exact Sat.bind (strArg_v ha) fun _ hs => Sat.pure (valid_str.mpr (C11S.valid_trimLeftF _ hs))
theorem trimSpaceRight_v {a : Val} (ha : a.Valid = true) : VR (trimSpaceRight a) := by
  simp only [trimSpaceRight]
  exact Sat.bind (strArg_v ha) fun _ hs => Sat.pure (valid_str.mpr (C11S.valid_trimRightF _ hs))

theorem length_v (v : Val) : VR (length v) := by
  cases v <;> first | exact valid_num | exact Sat.errType

/-- `lower`: valid output for ANY input string (the non-ASCII branch re-encodes) -/
theorem lower_v (v : Val) : VR (lower v) := by
  cases v with
  | str s =>
    refine Sat.nonstrict_iff.mpr fun a ha => ?_
    obtain ⟨out, rfl⟩ := C11S.lower_str_shape s a ha
    exact valid_str.mpr (C11S.valid_lower ha)
  | _ => exact Sat.errType
theorem upper_v (v : Val) : VR (upper v) := by
  cases v with
  | str s =>
    refine Sat.nonstrict_iff.mpr fun a ha => ?_
    obtain ⟨out, rfl⟩ := C11S.upper_str_shape s a ha
    exact valid_str.mpr (C11S.valid_upper ha)
  | _ => exact Sat.errType

/-- `reverse`: the string branch re-encodes, so it is valid for any input -/
theorem reverse_v {v : Val} (h : v.Valid = true) : VR (reverse v) := by
  cases v with
  | str b => exact valid_str.mpr (C11S.valid_reverseRunes _ _)
  | arr t xs => exact valid_arr.mpr (validL_sub (valid_arr.mp h) fun y hy => List.mem_reverse.mp hy)
  | _ => exact Sat.errType

theorem toArray_valid {v : Val} (h : v.Valid = true) : (toArray v).Valid = true := by
  cases v with
  | arr t xs => exact h
  | _ => exact valid_anyArr (validL_cons.mpr ⟨h, rfl⟩)

theorem toNumber_valid (v : Val) : (toNumber v).Valid = true := by
  cases v with
  | str b =>
    simp only [toNumber]
    split
    · split <;> rfl
    · rfl
  | _ => rfl

/-- `to_string`: a string is returned as is, anything else is JSON text, which is valid UTF-8 for any value -/
theorem toStringV_v {v : Val} (h : v.Valid = true) : VR (toStringV v) := by
  cases v with
  | str b => exact h
  | _ =>
    simp only [toStringV]
    split
    · exact Sat.nondet
    · split
      · next b hb => exact valid_str.mpr (encode_valid _ hb)
      · exact Sat.err
      · trivial

theorem typeName_v (v : Val) : VR (typeName v) := by
  cases v <;> first | exact Sat.errType | (show Val.Valid _ = true; with_unfolding_all rfl)

/-! ## Eval.lean: builtins and operators -/

theorem applyFn_v (f : Fn) {args : List Val} (h : Val.ValidL args = true) : VR (applyFn f args) := by
  unfold applyFn
  split
  all_goals first
    | exact Sat.err
    | skip
  all_goals simp only [validL_cons] at h
  · exact numAbs_v _
  · exact numAvg_v _
  · exact numCeil_v _
  · exact contains_v _ _
  · exact endsWith_v _ _
  · exact findFirst_v _ _
  · exact findBetween_v _ _ _ _ _
  · exact findFrom_v _ _ _ _
  · exact findLast_v _ _
  · exact findBetween_v _ _ _ _ _
  · exact findFrom_v _ _ _ _
  · exact numFloor_v _
  · exact fromItems_v h.1
  · exact items_v h.1
  · exact join_v h.1 h.2.1
  · exact keys_v h.1
  · exact length_v _
  · exact lower_v _
  · exact arrayMax_v h.1
  · exact arrayMin_v h.1
  · exact padLeft_v h.1 h.2.2.1
  · exact padRight_v h.1 h.2.2.1
  · exact padSpaceLeft_v _ h.1
  · exact padSpaceRight_v _ h.1
  · exact replace_v h.1 h.2.1 h.2.2.1
  · exact replaceCount_v _ h.1 h.2.1 h.2.2.1
  · exact reverse_v h.1
  · exact sortArray_v h.1
  · exact split_v h.1 h.2.1
  · exact splitCount_v _ h.1 h.2.1
  · exact startsWith_v _ _
  · exact numSum_v _
  · exact toArray_valid h.1
  · exact toNumber_valid _
  · exact toStringV_v h.1
  · exact trim_v _ h.1
  · exact trimLeft_v _ h.1
  · exact trimRight_v _ h.1
  · exact trimSpace_v h.1
  · exact trimSpaceLeft_v h.1
  · exact trimSpaceRight_v h.1
  · exact typeName_v _
  · exact upper_v _
  · exact values_v h.1

theorem applyBinOp_v (op : BinOp) (l r : Val) : VR (applyBinOp op l r) := by
  cases op
  case eq => exact Sat.bind Sat.triv fun _ _ => Sat.pure valid_bool
  case ne => exact Sat.bind Sat.triv fun _ _ => Sat.pure valid_bool
  case lt => exact cmpOp_valid _ _ _
  case le => exact cmpOp_valid _ _ _
  case gt => exact cmpOp_valid _ _ _
  case ge => exact cmpOp_valid _ _ _
  all_goals exact arith_v _ _ _ _

theorem negateVal_valid (v : Val) : (negateVal v).Valid = true := by
  simp only [negateVal]
  split
  · rfl
  · split
    · rfl
    · split <;> rfl

/-- members of a multi-select hash / bindings of a `let`: the values are valid, and every key of the result is one of
    the keys of the expression -/
def FieldsOk (fs : List (Bytes × INode)) (kvs : List (Bytes × Val)) : Prop :=
  ∀ kv ∈ kvs, kv.2.Valid = true ∧ ∃ kn ∈ fs, kn.1 = kv.1

theorem objInsert_mem {k : Bytes} {v : Val} : ∀ {kvs : List (Bytes × Val)} {kv : Bytes × Val},
    kv ∈ objInsert k v kvs → kv = (k, v) ∨ kv ∈ kvs
  | [], kv, h => by
    simp only [objInsert, List.mem_singleton] at h
    exact Or.inl h
  | (k', v') :: rest, kv, h => by
    simp only [objInsert] at h
    split at h
    · rcases List.mem_cons.mp h with h | h
      · exact Or.inl h
      · exact Or.inr (List.mem_cons_of_mem _ h)
    · split at h
      · rcases List.mem_cons.mp h with h | h
        · exact Or.inl h
        · exact Or.inr h
      · rcases List.mem_cons.mp h with h | h
        · exact Or.inr (h ▸ List.mem_cons_self)
        · rcases objInsert_mem h with h | h
          · exact Or.inl h
          · exact Or.inr (List.mem_cons_of_mem _ h)

theorem combineUnordered_v {fs : List (Bytes × INode)} {n : INode} {acc : Res (List (Bytes × Val))} (k : Bytes)
    {r : Res Val} (ha : Res.Sat false (FieldsOk fs) acc) (hr : VR r) :
    Res.Sat false (FieldsOk ((k, n) :: fs)) (combineUnordered acc k r) := by
  cases acc <;> cases r <;> simp only [combineUnordered] <;>
    first
      | exact Sat.err
      | exact Sat.nondet
      | trivial
      | skip
  next kvs v =>
    intro kv hkv
    rcases objInsert_mem hkv with rfl | hm
    · exact ⟨hr, (k, n), List.mem_cons_self, rfl⟩
    · obtain ⟨h1, kn, hkn, h2⟩ := ha kv hm
      exact ⟨h1, kn, List.mem_cons_of_mem _ hkn, h2⟩

theorem validL_zipRows : ∀ (n : Nat) {cols : List (List Val)}, (∀ c ∈ cols, Val.ValidL c = true) →
    Val.ValidL (zipRows n cols) = true
  | 0, _, _ => rfl
  | n + 1, cols, h => by
    simp only [zipRows]
    refine validL_cons.mpr ⟨valid_anyArr (validL_iff.mpr fun y hy => ?_), validL_zipRows n fun c hc => ?_⟩
    · obtain ⟨c, hc, rfl⟩ := List.mem_map.mp hy
      cases c with
      | nil => rfl
      | cons a as => exact (validL_cons.mp (h _ hc)).1
    · obtain ⟨c', hc', rfl⟩ := List.mem_map.mp hc
      cases c' with
      | nil => rfl
      | cons a as => exact (validL_cons.mp (h _ hc')).2

theorem zipArgs_v : ∀ {vs : List Val}, Val.ValidL vs = true →
    Res.Sat false (fun cols => ∀ c ∈ cols, Val.ValidL c = true) (zipArgs vs)
  | [], _ => fun _ h => by cases h
  | v :: rest, h => by
    have ⟨hv, hr⟩ := validL_cons.mp h
    cases v with
    | arr t xs =>
      have hx := valid_arr.mp hv
      simp only [zipArgs]
      refine Sat.bind (zipArgs_v hr) fun cols hcols => ?_
      split
      · exact Sat.nondet
      · refine Sat.pure fun c hc => ?_
        rcases List.mem_cons.mp hc with rfl | hm
        · exact hx
        · exact hcols c hm
    | _ => exact Sat.errType

/-- the result of a multi-select hash with valid keys is a valid object -/
theorem validF_of_fieldsOk {fs : List (Bytes × INode)} {kvs : List (Bytes × Val)}
    (hk : fs.all (fun kn => validUTF8 kn.1) = true) (h : FieldsOk fs kvs) : Val.ValidF kvs = true :=
  validF_iff.mpr fun kv hkv => by
    obtain ⟨h1, kn, hkn, h2⟩ := h kv hkv
    exact ⟨h2 ▸ List.all_eq_true.mp hk kn hkn, h1⟩

theorem envValid_of_fieldsOk {fs : List (Bytes × INode)} {kvs : List (Bytes × Val)} (h : FieldsOk fs kvs) :
    Env.ValidVals kvs = true :=
  envValid_iff.mpr fun kv hkv => (h kv hkv).1


/-! ## the evaluator preserves `Valid` -/

theorem validHead_lit {v : Val} (h : INode.validHead (.lit v) = true) : v.Valid = true := h

mutual
/-- **valid UTF-8 in, valid UTF-8 out, for every node of a compiled expression**: with valid root, current value and
    variable bindings, and valid literals in the expression, a result is valid -/
theorem ieval_v {root : Val} (hroot : root.Valid = true) :
    ∀ (n : INode) (cur : Val) (env : Env), n.all INode.validHead = true → cur.Valid = true →
      Env.ValidVals env = true → VR (ieval root n cur env)
  | .lit v, cur, env, h, hc, hv => by
    simp only [INode.all] at h
    exact validHead_lit h
  | .current, cur, env, h, hc, hv => hc
  | .root, cur, env, h, hc, hv => hroot
  | .field k, cur, env, h, hc, hv => field_valid k hc
  | .variable name, cur, env, h, hc, hv => by
    simp only [ieval, Env.get]
    cases hl : objLookup name env with
    | none => exact Sat.err
    | some v => exact envValid_iff.mp hv (name, v) (objLookup_mem hl)
  | .binop op l r, cur, env, h, hc, hv => by
    simp only [INode.all, Bool.and_eq_true] at h
    simp only [ieval]
    exact Sat.bind (ieval_v hroot l cur env h.1.2 hc hv) fun a ha =>
      Sat.bind (ieval_v hroot r cur env h.2 hc hv) fun b hb => applyBinOp_v op a b
  | .and l r, cur, env, h, hc, hv => by
    simp only [INode.all, Bool.and_eq_true] at h
    simp only [ieval]
    refine Sat.bind (ieval_v hroot l cur env h.1.2 hc hv) fun a ha => ?_
    split
    · exact Sat.pure ha
    · exact ieval_v hroot r cur env h.2 hc hv
  | .or l r, cur, env, h, hc, hv => by
    simp only [INode.all, Bool.and_eq_true] at h
    simp only [ieval]
    refine Sat.bind (ieval_v hroot l cur env h.1.2 hc hv) fun a ha => ?_
    split
    · exact Sat.pure ha
    · exact ieval_v hroot r cur env h.2 hc hv
  | .not c, cur, env, h, hc, hv => by
    simp only [INode.all, Bool.and_eq_true] at h
    simp only [ieval]
    exact Sat.bind (ieval_v hroot c cur env h.2 hc hv) fun a ha => Sat.pure valid_bool
  | .negate c, cur, env, h, hc, hv => by
    simp only [INode.all, Bool.and_eq_true] at h
    simp only [ieval]
    exact Sat.bind (ieval_v hroot c cur env h.2 hc hv) fun a ha => Sat.pure (negateVal_valid a)
  | .assertNumber c, cur, env, h, hc, hv => by
    simp only [INode.all, Bool.and_eq_true] at h
    simp only [ieval]
    refine Sat.bind (ieval_v hroot c cur env h.2 hc hv) fun a ha => Sat.pure ?_
    split
    · exact ha
    · rfl
  | .call f args, cur, env, h, hc, hv => by
    simp only [INode.all, Bool.and_eq_true] at h
    simp only [ieval]
    exact Sat.bind (ievalList_v hroot args cur env h.2 hc hv) fun vs hvs => applyFn_v f hvs
  | .defineVariables vars child, cur, env, h, hc, hv => by
    simp only [INode.all, Bool.and_eq_true] at h
    simp only [ieval]
    exact Sat.bind (ievalFields_v hroot vars cur env h.1.2 hc hv) fun bs hbs =>
      ieval_v hroot child cur (bs ++ env) h.2 hc (envValid_append (envValid_of_fieldsOk hbs) hv)
  | .filter c f, cur, env, h, hc, hv => by
    simp only [INode.all, Bool.and_eq_true] at h
    simp only [ieval]
    exact Sat.bind (ieval_v hroot c cur env h.1.2 hc hv) fun a ha =>
      filterArray_v (fun v hv' => ieval_v hroot f v env h.2 hv' hv) ha
  | .filterCurrent f, cur, env, h, hc, hv => by
    simp only [INode.all, Bool.and_eq_true] at h
    simp only [ieval]
    exact filterArray_v (fun v hv' => ieval_v hroot f v env h.2 hv' hv) hc
  | .filterAndProject l f r, cur, env, h, hc, hv => by
    simp only [INode.all, Bool.and_eq_true] at h
    simp only [ieval]
    exact Sat.bind (ieval_v hroot l cur env h.1.1.2 hc hv) fun a ha =>
      filterAndProjectArray_v (fun v hv' => ieval_v hroot f v env h.1.2 hv' hv)
        (fun v hv' => ieval_v hroot r v env h.2 hv' hv) ha
  | .filterAndProjectCurrent f c, cur, env, h, hc, hv => by
    simp only [INode.all, Bool.and_eq_true] at h
    simp only [ieval]
    exact filterAndProjectArray_v (fun v hv' => ieval_v hroot f v env h.1.2 hv' hv)
        (fun v hv' => ieval_v hroot c v env h.2 hv' hv) hc
  | .flatten c, cur, env, h, hc, hv => by
    simp only [INode.all, Bool.and_eq_true] at h
    simp only [ieval]
    exact Sat.bind (ieval_v hroot c cur env h.2 hc hv) fun a ha => Sat.pure (flatten_valid ha)
  | .flattenCurrent, cur, env, h, hc, hv => flatten_valid hc
  | .flattenAndProject l r, cur, env, h, hc, hv => by
    simp only [INode.all, Bool.and_eq_true] at h
    simp only [ieval]
    exact Sat.bind (ieval_v hroot l cur env h.1.2 hc hv) fun a ha =>
      flattenAndProjectArray_v (fun v hv' => ieval_v hroot r v env h.2 hv' hv) ha
  | .flattenAndProjectCurrent c, cur, env, h, hc, hv => by
    simp only [INode.all, Bool.and_eq_true] at h
    simp only [ieval]
    exact flattenAndProjectArray_v (fun v hv' => ieval_v hroot c v env h.2 hv' hv) hc
  | .index c i, cur, env, h, hc, hv => by
    simp only [INode.all, Bool.and_eq_true] at h
    simp only [ieval]
    exact Sat.bind (ieval_v hroot c cur env h.2 hc hv) fun a ha => index_v i ha
  | .indexCurrent i, cur, env, h, hc, hv => index_v i hc
  | .smallIndexCurrent i, cur, env, h, hc, hv => index_v _ hc
  | .objectValues c, cur, env, h, hc, hv => by
    simp only [INode.all, Bool.and_eq_true] at h
    simp only [ieval]
    exact Sat.bind (ieval_v hroot c cur env h.2 hc hv) fun a ha => Sat.pure (objectValues_valid ha)
  | .objectValuesCurrent, cur, env, h, hc, hv => objectValues_valid hc
  | .pipe l r, cur, env, h, hc, hv => by
    simp only [INode.all, Bool.and_eq_true] at h
    simp only [ieval]
    exact Sat.bind (ieval_v hroot l cur env h.1.2 hc hv) fun a ha => ieval_v hroot r a env h.2 ha hv
  | .projectArray l r, cur, env, h, hc, hv => by
    simp only [INode.all, Bool.and_eq_true] at h
    simp only [ieval]
    refine Sat.bind (ieval_v hroot l cur env h.1.2 hc hv) fun a ha => ?_
    split
    · split
      · exact ieval_v hroot r _ env h.2 ha hv
      · exact projectArray_v (fun v hv' => ieval_v hroot r v env h.2 hv' hv) ha
    · exact projectArray_v (fun v hv' => ieval_v hroot r v env h.2 hv' hv) ha
  | .projectArrayCurrent c, cur, env, h, hc, hv => by
    simp only [INode.all, Bool.and_eq_true] at h
    simp only [ieval]
    exact projectArray_v (fun v hv' => ieval_v hroot c v env h.2 hv' hv) hc
  | .projectObject l r, cur, env, h, hc, hv => by
    simp only [INode.all, Bool.and_eq_true] at h
    simp only [ieval]
    exact Sat.bind (ieval_v hroot l cur env h.1.2 hc hv) fun a ha =>
      projectObject_v (fun v hv' => ieval_v hroot r v env h.2 hv' hv) ha
  | .projectObjectCurrent c, cur, env, h, hc, hv => by
    simp only [INode.all, Bool.and_eq_true] at h
    simp only [ieval]
    exact projectObject_v (fun v hv' => ieval_v hroot c v env h.2 hv' hv) hc
  | .pruneArray c, cur, env, h, hc, hv => by
    simp only [INode.all, Bool.and_eq_true] at h
    simp only [ieval]
    exact Sat.bind (ieval_v hroot c cur env h.2 hc hv) fun a ha => Sat.pure (pruneArray_valid ha)
  | .pruneArrayCurrent, cur, env, h, hc, hv => pruneArray_valid hc
  | .selectArray c fs, cur, env, h, hc, hv => by
    simp only [INode.all, Bool.and_eq_true] at h
    simp only [ieval]
    refine Sat.bind (ieval_v hroot c cur env h.1.2 hc hv) fun a ha => ?_
    split
    · exact Sat.pure valid_null
    · exact Sat.bind (ievalList_v hroot fs a env h.2 ha hv) fun vs hvs => Sat.pure (valid_anyArr hvs)
  | .selectArrayCurrent fs, cur, env, h, hc, hv => by
    simp only [INode.all, Bool.and_eq_true] at h
    simp only [ieval]
    split
    · exact valid_null
    · exact Sat.bind (ievalList_v hroot fs cur env h.2 hc hv) fun vs hvs => Sat.pure (valid_anyArr hvs)
  | .selectArraySingle c f, cur, env, h, hc, hv => by
    simp only [INode.all, Bool.and_eq_true] at h
    simp only [ieval]
    refine Sat.bind (ieval_v hroot c cur env h.1.2 hc hv) fun a ha => ?_
    split
    · exact Sat.pure valid_null
    · exact Sat.bind (ieval_v hroot f a env h.2 ha hv) fun v hv' =>
        Sat.pure (valid_anyArr (validL_cons.mpr ⟨hv', rfl⟩))
  | .selectArraySingleCurrent f, cur, env, h, hc, hv => by
    simp only [INode.all, Bool.and_eq_true] at h
    simp only [ieval]
    exact Sat.bind (ieval_v hroot f cur env h.2 hc hv) fun v hv' =>
      Sat.pure (valid_anyArr (validL_cons.mpr ⟨hv', rfl⟩))
  | .selectObject c fs, cur, env, h, hc, hv => by
    simp only [INode.all, Bool.and_eq_true] at h
    have hk : fs.all (fun kn => validUTF8 kn.1) = true := h.1.1
    simp only [ieval]
    refine Sat.bind (ieval_v hroot c cur env h.1.2 hc hv) fun a ha => ?_
    split
    · exact Sat.pure valid_null
    · exact Sat.bind (ievalFields_v hroot fs a env h.2 ha hv) fun kvs hkvs =>
        Sat.pure (valid_obj.mpr (validF_of_fieldsOk hk hkvs))
  | .selectObjectCurrent fs, cur, env, h, hc, hv => by
    simp only [INode.all, Bool.and_eq_true] at h
    have hk : fs.all (fun kn => validUTF8 kn.1) = true := h.1
    simp only [ieval]
    split
    · exact valid_null
    · exact Sat.bind (ievalFields_v hroot fs cur env h.2 hc hv) fun kvs hkvs =>
        Sat.pure (valid_obj.mpr (validF_of_fieldsOk hk hkvs))
  | .selectObjectSingle c k f, cur, env, h, hc, hv => by
    simp only [INode.all, Bool.and_eq_true] at h
    have hk : validUTF8 k = true := h.1.1
    simp only [ieval]
    refine Sat.bind (ieval_v hroot c cur env h.1.2 hc hv) fun a ha => ?_
    split
    · exact Sat.pure valid_null
    · exact Sat.bind (ieval_v hroot f a env h.2 ha hv) fun v hv' =>
        Sat.pure (valid_obj.mpr (validF_cons.mpr ⟨hk, hv', rfl⟩))
  | .selectObjectSingleCurrent k f, cur, env, h, hc, hv => by
    simp only [INode.all, Bool.and_eq_true] at h
    have hk : validUTF8 k = true := h.1
    simp only [ieval]
    exact Sat.bind (ieval_v hroot f cur env h.2 hc hv) fun v hv' =>
      Sat.pure (valid_obj.mpr (validF_cons.mpr ⟨hk, hv', rfl⟩))
  | .slice c a b, cur, env, h, hc, hv => by
    simp only [INode.all, Bool.and_eq_true] at h
    simp only [ieval]
    exact Sat.bind (ieval_v hroot c cur env h.2 hc hv) fun v hv' => slice_v a b hv'
  | .sliceCurrent a b, cur, env, h, hc, hv => slice_v a b hc
  | .sliceStep c a b st, cur, env, h, hc, hv => by
    simp only [INode.all, Bool.and_eq_true] at h
    simp only [ieval]
    exact Sat.bind (ieval_v hroot c cur env h.2 hc hv) fun v hv' => sliceStep_v a b st hv'
  | .sliceStepCurrent a b st, cur, env, h, hc, hv => sliceStep_v a b st hc
  | .groupBy a e, cur, env, h, hc, hv => by
    simp only [INode.all, Bool.and_eq_true] at h
    simp only [ieval]
    exact Sat.bind (ieval_v hroot a cur env h.1.2 hc hv) fun v hv' =>
      groupBy_v (fun x hx => ieval_v hroot e x env h.2 hx hv) hv'
  | .map e a, cur, env, h, hc, hv => by
    simp only [INode.all, Bool.and_eq_true] at h
    simp only [ieval]
    exact Sat.bind (ieval_v hroot a cur env h.2 hc hv) fun v hv' =>
      mapArray_v (fun x hx => ieval_v hroot e x env h.1.2 hx hv) hv'
  | .maxBy a e, cur, env, h, hc, hv => by
    simp only [INode.all, Bool.and_eq_true] at h
    simp only [ieval]
    exact Sat.bind (ieval_v hroot a cur env h.1.2 hc hv) fun v hv' => arrayPickBy_v _ hv'
  | .minBy a e, cur, env, h, hc, hv => by
    simp only [INode.all, Bool.and_eq_true] at h
    simp only [ieval]
    exact Sat.bind (ieval_v hroot a cur env h.1.2 hc hv) fun v hv' => arrayPickBy_v _ hv'
  | .sortBy a e, cur, env, h, hc, hv => by
    simp only [INode.all, Bool.and_eq_true] at h
    simp only [ieval]
    exact Sat.bind (ieval_v hroot a cur env h.1.2 hc hv) fun v hv' => sortArrayBy_v hv'
  | .merge args, cur, env, h, hc, hv => by
    simp only [INode.all, Bool.and_eq_true] at h
    simp only [ieval]
    exact Sat.bind (ievalMerge_v hroot args cur env [] h.2 hc hv rfl) fun kvs hk => Sat.pure (valid_obj.mpr hk)
  | .notNull args, cur, env, h, hc, hv => by
    simp only [INode.all, Bool.and_eq_true] at h
    simp only [ieval]
    exact ievalNotNull_v hroot args cur env h.2 hc hv
  | .zip args, cur, env, h, hc, hv => by
    simp only [INode.all, Bool.and_eq_true] at h
    simp only [ieval]
    refine Sat.bind (ievalZip_v hroot args cur env h.2 hc hv) fun vs hvs =>
      Sat.bind (zipArgs_v hvs) fun cols hcols => ?_
    split
    · exact Sat.pure (valid_anyArr rfl)
    · exact Sat.pure (valid_anyArr (validL_zipRows _ hcols))
theorem ievalList_v {root : Val} (hroot : root.Valid = true) :
    ∀ (ns : List INode) (cur : Val) (env : Env), INode.allL INode.validHead ns = true → cur.Valid = true →
      Env.ValidVals env = true → VLR (ievalList root ns cur env)
  | [], cur, env, h, hc, hv => validL_nil
  | n :: ns, cur, env, h, hc, hv => by
    simp only [INode.allL, Bool.and_eq_true] at h
    simp only [ievalList]
    exact Sat.bind (ieval_v hroot n cur env h.1 hc hv) fun v hv' =>
      Sat.bind (ievalList_v hroot ns cur env h.2 hc hv) fun vs hvs => Sat.pure (validL_cons.mpr ⟨hv', hvs⟩)
theorem ievalFields_v {root : Val} (hroot : root.Valid = true) :
    ∀ (fs : List (Bytes × INode)) (cur : Val) (env : Env), INode.allF INode.validHead fs = true → cur.Valid = true →
      Env.ValidVals env = true → Res.Sat false (FieldsOk fs) (ievalFields root fs cur env)
  | [], cur, env, h, hc, hv => fun _ hkv => by cases hkv
  | (k, n) :: rest, cur, env, h, hc, hv => by
    simp only [INode.allF, Bool.and_eq_true] at h
    simp only [ievalFields]
    exact combineUnordered_v k (ievalFields_v hroot rest cur env h.2 hc hv) (ieval_v hroot n cur env h.1 hc hv)
theorem ievalMerge_v {root : Val} (hroot : root.Valid = true) :
    ∀ (ns : List INode) (cur : Val) (env : Env) (acc : List (Bytes × Val)), INode.allL INode.validHead ns = true →
      cur.Valid = true → Env.ValidVals env = true → Val.ValidF acc = true →
      VFR (ievalMerge root ns cur env acc)
  | [], cur, env, acc, h, hc, hv, ha => ha
  | n :: ns, cur, env, acc, h, hc, hv, ha => by
    simp only [INode.allL, Bool.and_eq_true] at h
    simp only [ievalMerge]
    refine Sat.bind (ieval_v hroot n cur env h.1 hc hv) fun v hv' => ?_
    split
    · exact ievalMerge_v hroot ns cur env _ h.2 hc hv (validF_foldInsert (valid_obj.mp hv') ha)
    · exact Sat.errType
theorem ievalNotNull_v {root : Val} (hroot : root.Valid = true) :
    ∀ (ns : List INode) (cur : Val) (env : Env), INode.allL INode.validHead ns = true → cur.Valid = true →
      Env.ValidVals env = true → VR (ievalNotNull root ns cur env)
  | [], cur, env, h, hc, hv => valid_null
  | n :: ns, cur, env, h, hc, hv => by
    simp only [INode.allL, Bool.and_eq_true] at h
    simp only [ievalNotNull]
    refine Sat.bind (ieval_v hroot n cur env h.1 hc hv) fun v hv' => ?_
    split
    · exact ievalNotNull_v hroot ns cur env h.2 hc hv
    · exact Sat.pure hv'
theorem ievalZip_v {root : Val} (hroot : root.Valid = true) :
    ∀ (ns : List INode) (cur : Val) (env : Env), INode.allL INode.validHead ns = true → cur.Valid = true →
      Env.ValidVals env = true → VLR (ievalZip root ns cur env)
  | [], cur, env, h, hc, hv => validL_nil
  | n :: ns, cur, env, h, hc, hv => by
    simp only [INode.allL, Bool.and_eq_true] at h
    simp only [ievalZip]
    refine Sat.bind (ieval_v hroot n cur env h.1 hc hv) fun v hv' => ?_
    split
    · exact Sat.bind (ievalZip_v hroot ns cur env h.2 hc hv) fun vs hvs => Sat.pure (validL_cons.mpr ⟨hv', hvs⟩)
    · exact Sat.errType
end


/-! ## the search-level theorems -/

/-- **C11, valid in ⇒ valid out (evaluator step).** If the root, the current value and the variable bindings contain only
    valid UTF-8 strings (object keys included) and so do the literals of the expression, every string in a result is
    valid UTF-8. -/
theorem ieval_valid {root cur : Val} {env : Env} {n : INode} {r : Val} (hroot : root.Valid = true)
    (hcur : cur.Valid = true) (henv : Env.ValidVals env = true) (hn : n.ValidLits = true)
    (h : ieval root n cur env = .ok r) : r.Valid = true :=
  Sat.nonstrict_iff.mp (ieval_v hroot n cur env hn hcur henv) r h

theorem ievalList_valid {root cur : Val} {env : Env} {ns : List INode} {rs : List Val} (hroot : root.Valid = true)
    (hcur : cur.Valid = true) (henv : Env.ValidVals env = true) (hn : INode.allL INode.validHead ns = true)
    (h : ievalList root ns cur env = .ok rs) : Val.ValidL rs = true :=
  Sat.nonstrict_iff.mp (ievalList_v hroot ns cur env hn hcur henv) rs h

/-- members of a multi-select hash: valid values; the keys are keys of the expression -/
theorem ievalFields_valid {root cur : Val} {env : Env} {fs : List (Bytes × INode)} {kvs : List (Bytes × Val)}
    (hroot : root.Valid = true) (hcur : cur.Valid = true) (henv : Env.ValidVals env = true)
    (hn : INode.allF INode.validHead fs = true) (hk : fs.all (fun kn => validUTF8 kn.1) = true)
    (h : ievalFields root fs cur env = .ok kvs) : Val.ValidF kvs = true :=
  validF_of_fieldsOk hk (Sat.nonstrict_iff.mp (ievalFields_v hroot fs cur env hn hcur henv) kvs h)

theorem ievalMerge_valid {root cur : Val} {env : Env} {ns : List INode} {acc kvs : List (Bytes × Val)}
    (hroot : root.Valid = true) (hcur : cur.Valid = true) (henv : Env.ValidVals env = true)
    (hn : INode.allL INode.validHead ns = true) (hacc : Val.ValidF acc = true)
    (h : ievalMerge root ns cur env acc = .ok kvs) : Val.ValidF kvs = true :=
  Sat.nonstrict_iff.mp (ievalMerge_v hroot ns cur env acc hn hcur henv hacc) kvs h

theorem ievalNotNull_valid {root cur : Val} {env : Env} {ns : List INode} {r : Val} (hroot : root.Valid = true)
    (hcur : cur.Valid = true) (henv : Env.ValidVals env = true) (hn : INode.allL INode.validHead ns = true)
    (h : ievalNotNull root ns cur env = .ok r) : r.Valid = true :=
  Sat.nonstrict_iff.mp (ievalNotNull_v hroot ns cur env hn hcur henv) r h

theorem ievalZip_valid {root cur : Val} {env : Env} {ns : List INode} {rs : List Val} (hroot : root.Valid = true)
    (hcur : cur.Valid = true) (henv : Env.ValidVals env = true) (hn : INode.allL INode.validHead ns = true)
    (h : ievalZip root ns cur env = .ok rs) : Val.ValidL rs = true :=
  Sat.nonstrict_iff.mp (ievalZip_v hroot ns cur env hn hcur henv) rs h

/-- **C11, valid in ⇒ valid out (`Expression.Search`).** -/
theorem evaluate_valid {n : INode} {d r : Val} (hd : d.Valid = true) (hn : n.ValidLits = true)
    (h : evaluate n d = .ok r) : r.Valid = true :=
  ieval_valid hd hd rfl hn h

/-- **C11, valid in ⇒ valid out (`Search`).** The hypothesis on the compiled expression is about its literals only. -/
theorem search_valid {e : Bytes} {d r : Val} (hd : d.Valid = true)
    (hn : ∀ n, Parser.parse e = .ok n → n.ValidLits = true) (h : search e d = .ok r) : r.Valid = true := by
  unfold search at h
  split at h
  · cases h
  · cases h
  · next n hp => exact evaluate_valid hd (hn n hp) h

/-- the same, with the compiled expression at hand -/
theorem search_valid' {e : Bytes} {n : INode} {d r : Val} (hd : d.Valid = true) (hp : compile e = .ok n)
    (hn : n.ValidLits = true) (h : search e d = .ok r) : r.Valid = true :=
  search_valid hd (fun n' hp' => by
    have : Parser.parse e = .ok n := hp
    rw [this] at hp'
    cases hp'
    exact hn) h

/-! ### examples -/

/-- "héllo wörld" -/
def helloWorldB : Bytes := [0x68, 0xC3, 0xA9, 0x6C, 0x6C, 0x6F, 0x20, 0x77, 0xC3, 0xB6, 0x72, 0x6C, 0x64]
/-- the compiled form of ``split(@, 'ö')`` -/
def splitOnOe : INode := .call .split [.current, .lit (.str [0xC3, 0xB6])]

/-- the hypotheses are satisfiable and the conclusion is what one expects: `split(@, 'ö')` on "héllo wörld" is
    ["héllo w", "rld"] -/
example : evaluate splitOnOe (.str helloWorldB) =
    .ok (.arr .plain [.str [0x68, 0xC3, 0xA9, 0x6C, 0x6C, 0x6F, 0x20, 0x77], .str [0x72, 0x6C, 0x64]]) := by
  with_unfolding_all rfl
example : (Val.str helloWorldB).Valid = true := by decide
example : splitOnOe.ValidLits = true := by decide
example : ∀ r, evaluate splitOnOe (.str helloWorldB) = .ok r → r.Valid = true :=
  fun _ h => evaluate_valid (by decide) (by decide) h

/-- an object with an invalid key is not a valid value: `keys` would expose it as a string -/
example : (Val.obj [([0xFF], .null)]).Valid = false := by decide
example : keys (.obj [([0xFF], .null)]) = .ok (.arr .enum [.str [0xFF]]) := rfl

/-- the hypothesis on the data matters: slicing the invalid string `C3 41` ("Ã" cut short, then "A") at `[0:1]`
    gives the lone byte `C3` -/
example : evaluate (.sliceCurrent 0 1) (.str [0xC3, 0x41]) = .ok (.str [0xC3]) := by with_unfolding_all rfl
example : (Val.str [0xC3]).Valid = false := by decide
/-- the hypothesis on the literals matters: joining with an invalid separator -/
example : evaluate (.call .join [.lit (.str [0xFF]), .current]) (.arr .plain [.str [0x61], .str [0x62]]) =
    .ok (.str [0x61, 0xFF, 0x62]) := by with_unfolding_all rfl
example : (INode.call .join [.lit (.str [0xFF]), .current]).ValidLits = false := by decide
/-- the hypothesis on multi-select keys matters -/
example : evaluate (.selectObjectSingleCurrent [0xFF] .current) (.bool true) = .ok (.obj [([0xFF], .bool true)]) := by
  with_unfolding_all rfl
/-- `to_string` of an INVALID string inside an array still gives valid text (the byte becomes the escape `�`) -/
example : toStringV (.arr .plain [.str [0xFF]]) = .ok (.str [0x5B, 0x22, 0x5C, 0x75, 0x66, 0x66, 0x66, 0x64, 0x22, 0x5D]) := by
  with_unfolding_all rfl
example : typeName (.arr .plain []) = .ok (.str [0x61, 0x72, 0x72, 0x61, 0x79]) := by with_unfolding_all rfl

/-! ## per-function corollaries (the functions not covered by `C11.valid_out_*`) -/

theorem valid_of_v {r : Res Val} (h : VR r) {v : Val} (hr : r = .ok v) : v.Valid = true :=
  Sat.nonstrict_iff.mp h v hr

theorem valid_out_split {s p : Bytes} (hs : validUTF8 s = true) (hp : validUTF8 p = true) {r : Val}
    (h : split (.str s) (.str p) = .ok r) : r.Valid = true :=
  valid_of_v (split_v (valid_str.mpr hs) (valid_str.mpr hp)) h

theorem valid_out_splitCount {s p : Bytes} (hs : validUTF8 s = true) (hp : validUTF8 p = true) (n : Val) {r : Val}
    (h : splitCount (.str s) (.str p) n = .ok r) : r.Valid = true :=
  valid_of_v (splitCount_v n (valid_str.mpr hs) (valid_str.mpr hp)) h

theorem valid_out_replace {s old new : Bytes} (hs : validUTF8 s = true) (ho : validUTF8 old = true)
    (hn : validUTF8 new = true) {r : Val} (h : replace (.str s) (.str old) (.str new) = .ok r) : r.Valid = true :=
  valid_of_v (replace_v (valid_str.mpr hs) (valid_str.mpr ho) (valid_str.mpr hn)) h

theorem valid_out_replaceCount {s old new : Bytes} (hs : validUTF8 s = true) (ho : validUTF8 old = true)
    (hn : validUTF8 new = true) (n : Val) {r : Val}
    (h : replaceCount (.str s) (.str old) (.str new) n = .ok r) : r.Valid = true :=
  valid_of_v (replaceCount_v n (valid_str.mpr hs) (valid_str.mpr ho) (valid_str.mpr hn)) h

/-- (the cutset may be any value: an invalid cutset cannot make the result invalid) -/
theorem valid_out_trim {s : Bytes} (hs : validUTF8 s = true) (cut : Val) {r : Val}
    (h : trim (.str s) cut = .ok r) : r.Valid = true :=
  valid_of_v (trim_v cut (valid_str.mpr hs)) h
theorem valid_out_trimLeft {s : Bytes} (hs : validUTF8 s = true) (cut : Val) {r : Val}
    (h : trimLeft (.str s) cut = .ok r) : r.Valid = true :=
  valid_of_v (trimLeft_v cut (valid_str.mpr hs)) h
theorem valid_out_trimRight {s : Bytes} (hs : validUTF8 s = true) (cut : Val) {r : Val}
    (h : trimRight (.str s) cut = .ok r) : r.Valid = true :=
  valid_of_v (trimRight_v cut (valid_str.mpr hs)) h
theorem valid_out_trimSpace {s : Bytes} (hs : validUTF8 s = true) {r : Val}
    (h : trimSpace (.str s) = .ok r) : r.Valid = true :=
  valid_of_v (trimSpace_v (valid_str.mpr hs)) h
theorem valid_out_trimSpaceLeft {s : Bytes} (hs : validUTF8 s = true) {r : Val}
    (h : trimSpaceLeft (.str s) = .ok r) : r.Valid = true :=
  valid_of_v (trimSpaceLeft_v (valid_str.mpr hs)) h
theorem valid_out_trimSpaceRight {s : Bytes} (hs : validUTF8 s = true) {r : Val}
    (h : trimSpaceRight (.str s) = .ok r) : r.Valid = true :=
  valid_of_v (trimSpaceRight_v (valid_str.mpr hs)) h

theorem valid_out_join {sep : Bytes} {xs : Val} (hsep : validUTF8 sep = true) (hxs : xs.Valid = true) {r : Val}
    (h : join (.str sep) xs = .ok r) : r.Valid = true :=
  valid_of_v (join_v (valid_str.mpr hsep) hxs) h

/-- `lower` / `upper`: valid output whatever the input -/
theorem valid_out_lower (v : Val) {r : Val} (h : lower v = .ok r) : r.Valid = true := valid_of_v (lower_v v) h
theorem valid_out_upper (v : Val) {r : Val} (h : upper v = .ok r) : r.Valid = true := valid_of_v (upper_v v) h

/-- `to_string`: a string argument is returned unchanged (so it must be valid); every other argument is serialised
    to JSON text, valid whatever the value contains -/
theorem valid_out_toString {v : Val} (hv : v.Valid = true) {r : Val} (h : toStringV v = .ok r) : r.Valid = true :=
  valid_of_v (toStringV_v hv) h
theorem valid_out_toString_nonstring {v : Val} (hv : ∀ s, v ≠ .str s) {r : Val} (h : toStringV v = .ok r) :
    r.Valid = true := by
  cases v with
  | str s => exact absurd rfl (hv s)
  | _ =>
    simp only [toStringV] at h
    split at h
    · cases h
    · split at h
      · next b hb => cases h; exact valid_str.mpr (encode_valid _ hb)
      · cases h
      · cases h

theorem valid_out_keys {v : Val} (hv : v.Valid = true) {r : Val} (h : keys v = .ok r) : r.Valid = true :=
  valid_of_v (keys_v hv) h
theorem valid_out_items {v : Val} (hv : v.Valid = true) {r : Val} (h : items v = .ok r) : r.Valid = true :=
  valid_of_v (items_v hv) h
theorem valid_out_fromItems {v : Val} (hv : v.Valid = true) {r : Val} (h : fromItems v = .ok r) : r.Valid = true :=
  valid_of_v (fromItems_v hv) h

example : ∀ r, split (.str helloWorldB) (.str [0xC3, 0xB6]) = .ok r → r.Valid = true :=
  fun _ h => valid_out_split (by decide) (by decide) h
example : replace (.str [0x68, 0xC3, 0xA9]) (.str [0xC3, 0xA9]) (.str [0x65]) = .ok (.str [0x68, 0x65]) := by
  with_unfolding_all rfl
example : trim (.str [0xC3, 0xA9, 0x68, 0xC3, 0xA9]) (.str [0xC3, 0xA9]) = .ok (.str [0x68]) := by
  with_unfolding_all rfl
/-- the hypothesis matters for `trim`: nothing is trimmed from an invalid string here and it comes back as is -/
example : trimSpace (.str [0xFF]) = .ok (.str [0xFF]) := by with_unfolding_all rfl
example : keys (.obj [([0xC3, 0xA9], .null)]) = .ok (.arr .enum [.str [0xC3, 0xA9]]) := rfl


end C11V
end Jmes

#print axioms Jmes.C11V.ieval_valid
#print axioms Jmes.C11V.evaluate_valid
#print axioms Jmes.C11V.search_valid
#print axioms Jmes.C11V.search_valid'
#print axioms Jmes.C11V.encode_valid
#print axioms Jmes.C11V.valid_out_split
#print axioms Jmes.C11V.valid_out_splitCount
#print axioms Jmes.C11V.valid_out_replace
#print axioms Jmes.C11V.valid_out_replaceCount
#print axioms Jmes.C11V.valid_out_trim
#print axioms Jmes.C11V.valid_out_join
#print axioms Jmes.C11V.valid_out_lower
#print axioms Jmes.C11V.valid_out_upper
#print axioms Jmes.C11V.valid_out_toString
#print axioms Jmes.C11V.valid_out_keys
#print axioms Jmes.C11V.valid_out_items
