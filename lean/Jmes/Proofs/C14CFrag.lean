/-
  Property C14 (third round), helper: **decidable syntactic checks for the representation-independence fragment**,
  and the theorems on expression *text* (`search`).

  `C14B.evaluate_congr_fragment` asks for `(desugar n).NoDiv` — a `Prop` over the desugared tree which includes
  "every literal is `Valued` and `NoFloat`".  Here:

   1. `ops_of_all`: a generic bridge from the Bool traversal `INode.all p` to `Tree.Ops P Q N L (desugar n)`;
   2. `valuedB`: a Bool version of `Val.Valued` (`valuedB_iff`);
   3. `fragOK` / `fragOKF`: Bool checks on the compiled node, sound for `Tree.NoDiv` / `Tree.NoArithF`
      (`noDiv_of_fragOK`, `noArithF_of_fragOKF`); for a *compiled* node float-freeness of the literals is a theorem
      (`fragOK_of_compile`);
   4. `search_congr_fragment`, `search_congr_fragment_float`: the congruence theorems stated on `search e d`;
   5. what the parser guarantees about literals: each number is valued or out of decimal128's range
      (`compile_lits_valued_or_range`), and the counterexample `` `1e7000` `` (`lit_1e7000_not_valued`);
   6. the nine measured divergent quotients `a / b` (inexact: excluded by the property's proviso).
-/
import Jmes.Properties.C14B
import Jmes.Properties.C20B
import Jmes.Proofs.C05BLits
import Jmes.Proofs.C05BLemmas
import Jmes.Proofs.C18BLits
namespace Jmes
namespace C14CFrag
open C14

/-! ## 1. from `INode.all` to `Tree.Ops` of the desugared tree -/

section Bridge
variable {P : BinOp → Prop} {Q : Fn → Prop} {N : Prop} {L : Val → Prop} (p : INode → Bool)
  (hbin : ∀ op l r, p (.binop op l r) = true → P op) (hcall : ∀ f args, p (.call f args) = true → Q f)
  (hneg : ∀ c, p (.negate c) = true → N) (hlit : ∀ v, p (.lit v) = true → L v)
include hbin hcall hneg hlit
set_option linter.unusedSectionVars false

mutual
/-- **Bridge**: if the Bool predicate `p` holds at every sub-node of `n` (`n.all p`), and `p` at a binary-operator
    node gives `P op`, at a call node `Q f`, at a unary-minus node `N`, at a literal node `L v`, then the desugared
    tree satisfies `Tree.Ops P Q N L`. -/
theorem ops_of_all : ∀ n : INode, n.all p = true → (desugar n).Ops P Q N L
  | .lit v, h => by
    simp only [INode.all] at h
    simp only [desugar, Tree.Ops]; exact hlit v h
  | .current, _ | .root, _ | .field _, _ | .variable _, _ | .indexCurrent _, _
  | .smallIndexCurrent _, _ | .sliceCurrent _ _, _ | .sliceStepCurrent _ _ _, _ => by simp only [desugar, Tree.Ops]
  | .flattenCurrent, _ | .objectValuesCurrent, _ | .pruneArrayCurrent, _ => by
    simp only [desugar, Tree.Ops, and_self]
  | .binop op l r, h => by
    simp only [INode.all, Bool.and_eq_true] at h
    simp only [desugar, Tree.Ops]
    exact ⟨hbin op l r h.1.1, ops_of_all l h.1.2, ops_of_all r h.2⟩
  | .and l r, h | .or l r, h | .flattenAndProject l r, h | .pipe l r, h | .projectObject l r, h
  | .groupBy l r, h | .map l r, h | .maxBy l r, h | .minBy l r, h | .sortBy l r, h => by
    simp only [INode.all, Bool.and_eq_true] at h
    simp only [desugar, Tree.Ops]
    exact ⟨ops_of_all l h.1.2, ops_of_all r h.2⟩
  | .projectArray l r, h => by
    simp only [INode.all, Bool.and_eq_true] at h
    simp only [desugar]
    split <;> (simp only [Tree.Ops]; exact ⟨ops_of_all l h.1.2, ops_of_all r h.2⟩)
  | .filter l r, h => by
    simp only [INode.all, Bool.and_eq_true] at h
    simp only [desugar, Tree.Ops]
    exact ⟨ops_of_all l h.1.2, ops_of_all r h.2, trivial⟩
  | .filterAndProjectCurrent l r, h => by
    simp only [INode.all, Bool.and_eq_true] at h
    simp only [desugar, Tree.Ops]
    exact ⟨trivial, ops_of_all l h.1.2, ops_of_all r h.2⟩
  | .filterAndProject l f r, h => by
    simp only [INode.all, Bool.and_eq_true] at h
    simp only [desugar, Tree.Ops]
    exact ⟨ops_of_all l h.1.1.2, ops_of_all f h.1.2, ops_of_all r h.2⟩
  | .filterCurrent c, h => by
    simp only [INode.all, Bool.and_eq_true] at h
    simp only [desugar, Tree.Ops]
    exact ⟨trivial, ops_of_all c h.2, trivial⟩
  | .selectArraySingle l r, h => by
    simp only [INode.all, Bool.and_eq_true] at h
    simp only [desugar, Tree.Ops, Tree.OpsL]
    exact ⟨ops_of_all l h.1.2, ops_of_all r h.2, trivial⟩
  | .selectObjectSingle l _ r, h => by
    simp only [INode.all, Bool.and_eq_true] at h
    simp only [desugar, Tree.Ops, Tree.OpsF]
    exact ⟨ops_of_all l h.1.2, ops_of_all r h.2, trivial⟩
  | .negate c, h => by
    simp only [INode.all, Bool.and_eq_true] at h
    simp only [desugar, Tree.Ops]
    exact ⟨hneg c h.1, ops_of_all c h.2⟩
  | .not c, h | .assertNumber c, h | .pruneArray c, h => by
    simp only [INode.all, Bool.and_eq_true] at h
    simp only [desugar, Tree.Ops]
    exact ops_of_all c h.2
  | .flatten c, h | .objectValues c, h | .index c _, h | .slice c _ _, h | .sliceStep c _ _ _, h => by
    simp only [INode.all, Bool.and_eq_true] at h
    simp only [desugar, Tree.Ops]
    exact ⟨ops_of_all c h.2, trivial⟩
  | .flattenAndProjectCurrent c, h | .projectArrayCurrent c, h | .projectObjectCurrent c, h => by
    simp only [INode.all, Bool.and_eq_true] at h
    simp only [desugar, Tree.Ops]
    exact ⟨trivial, ops_of_all c h.2⟩
  | .selectArraySingleCurrent c, h => by
    simp only [INode.all, Bool.and_eq_true] at h
    simp only [desugar, Tree.Ops, Tree.OpsL]
    exact ⟨ops_of_all c h.2, trivial⟩
  | .selectObjectSingleCurrent _ c, h => by
    simp only [INode.all, Bool.and_eq_true] at h
    simp only [desugar, Tree.Ops, Tree.OpsF]
    exact ⟨ops_of_all c h.2, trivial⟩
  | .call f args, h => by
    simp only [INode.all, Bool.and_eq_true] at h
    simp only [desugar, Tree.Ops]
    exact ⟨hcall f args h.1, opsL_of_all args h.2⟩
  | .selectArrayCurrent args, h | .merge args, h | .notNull args, h | .zip args, h => by
    simp only [INode.all, Bool.and_eq_true] at h
    simp only [desugar, Tree.Ops]
    exact opsL_of_all args h.2
  | .selectArray c fs, h => by
    simp only [INode.all, Bool.and_eq_true] at h
    simp only [desugar, Tree.Ops]
    exact ⟨ops_of_all c h.1.2, opsL_of_all fs h.2⟩
  | .selectObject c fs, h => by
    simp only [INode.all, Bool.and_eq_true] at h
    simp only [desugar, Tree.Ops]
    exact ⟨ops_of_all c h.1.2, opsF_of_all fs h.2⟩
  | .selectObjectCurrent fs, h => by
    simp only [INode.all, Bool.and_eq_true] at h
    simp only [desugar, Tree.Ops]
    exact opsF_of_all fs h.2
  | .defineVariables vars child, h => by
    simp only [INode.all, Bool.and_eq_true] at h
    simp only [desugar, Tree.Ops]
    exact ⟨opsF_of_all vars h.1.2, ops_of_all child h.2⟩
/-- … for a list of nodes (function arguments, multi-select lists) -/
theorem opsL_of_all : ∀ ns : List INode, INode.allL p ns = true → Tree.OpsL P Q N L (desugarList ns)
  | [], _ => by simp only [desugarList, Tree.OpsL]
  | n :: ns, h => by
    simp only [INode.allL, Bool.and_eq_true] at h
    simp only [desugarList, Tree.OpsL]
    exact ⟨ops_of_all n h.1, opsL_of_all ns h.2⟩
/-- … for a list of keyed nodes (multi-select hashes, `let` bindings) -/
theorem opsF_of_all : ∀ fs : List (Bytes × INode), INode.allF p fs = true → Tree.OpsF P Q N L (desugarFields fs)
  | [], _ => by simp only [desugarFields, Tree.OpsF]
  | (k, n) :: rest, h => by
    simp only [INode.allF, Bool.and_eq_true] at h
    simp only [desugarFields, Tree.OpsF]
    exact ⟨ops_of_all n h.1, opsF_of_all rest h.2⟩
end

end Bridge

-- `a + 1` (one binary operator, one literal): with `P op := op = .add`, `L v := v float-free`
example : (desugar (.binop .add (.field [0x61]) (.lit (.num (.jnum [0x31]))))).Ops (fun op => op = .add) (fun _ => False)
    False (fun v => C05BLits.nfB v = true) :=
  ops_of_all (fun n => match n with
      | .binop op _ _ => decide (op = .add) | .call _ _ => false | .negate _ => false
      | .lit v => C05BLits.nfB v | _ => true)
    (fun op _ _ h => of_decide_eq_true h) (fun _ _ h => by cases h) (fun _ h => by cases h)
    (fun v h => h) _ (by decide)
example : Tree.OpsL (fun _ => True) (fun _ => True) True (fun _ => True) (desugarList [.current, .root]) :=
  opsL_of_all (fun _ => true) (fun _ _ _ _ => trivial) (fun _ _ _ => trivial) (fun _ _ => trivial) (fun _ _ => trivial) _ rfl
example : Tree.OpsF (fun _ => True) (fun _ => True) True (fun _ => True) (desugarFields [([0x61], .current)]) :=
  opsF_of_all (fun _ => true) (fun _ _ _ _ => trivial) (fun _ _ _ => trivial) (fun _ _ => trivial) (fun _ _ => trivial) _ rfl

/-- two Bool predicates that hold at every sub-node hold together at every sub-node -/
theorem all_and (p q : INode → Bool) (n : INode) (hp : n.all p = true) (hq : n.all q = true) :
    n.all (fun x => p x && q x) = true := by
  rw [INode.all_and, hp, hq]; rfl
theorem allL_and (p q : INode → Bool) (ns : List INode) (hp : INode.allL p ns = true) (hq : INode.allL q ns = true) :
    INode.allL (fun x => p x && q x) ns = true := by
  rw [INode.allL_and, hp, hq]; rfl
theorem allF_and (p q : INode → Bool) (fs : List (Bytes × INode)) (hp : INode.allF p fs = true)
    (hq : INode.allF q fs = true) : INode.allF (fun x => p x && q x) fs = true := by
  rw [INode.allF_and, hp, hq]; rfl

/-- `INode.all` is monotone in the predicate -/
theorem all_mono {p q : INode → Bool} (h : ∀ m, p m = true → q m = true) (n : INode) (hn : n.all p = true) :
    n.all q = true := by
  have e : p = fun m => p m && q m := by
    funext m
    cases hp : p m
    · rfl
    · rw [h m hp]; rfl
  rw [e, INode.all_and, Bool.and_eq_true] at hn
  exact hn.2

example : (INode.not .root).all (fun x => INode.notVar x && INode.litOk Val.Fin x) = true :=
  all_and _ _ _ (by decide) (by decide)
example : INode.allL (fun x => INode.notVar x && INode.notVar x) [.root] = true := allL_and _ _ _ (by decide) (by decide)
example : INode.allF (fun x => INode.notVar x && INode.notVar x) [([], .root)] = true := allF_and _ _ _ (by decide) (by decide)
example : (INode.not .root).all INode.notVar = true :=
  all_mono (p := fun x => INode.notVar x && INode.litOk Val.Fin x) (fun _ h => (Bool.and_eq_true _ _ ▸ h).1) _ (by decide)

/-! ## 2. a Bool version of `Val.Valued` -/

/-- the number converts to a decimal other than NaN -/
def valuedNum (a : Num) : Bool :=
  match toDecimal (.num a) with
  | some d => !d.isNaN
  | none => false

mutual
/-- every number inside the value converts to a decimal other than NaN (Bool version of `Val.Valued`) -/
def valuedB : Val → Bool
  | .num a => valuedNum a
  | .arr _ xs => valuedBL xs
  | .obj kvs => valuedBF kvs
  | _ => true
def valuedBL : List Val → Bool
  | [] => true
  | x :: xs => valuedB x && valuedBL xs
def valuedBF : List (Bytes × Val) → Bool
  | [] => true
  | (_, x) :: kvs => valuedB x && valuedBF kvs
end

/-- `valuedNum` decides `Num.Valued` -/
theorem valuedNum_iff (a : Num) : valuedNum a = true ↔ a.Valued := by
  unfold valuedNum Num.Valued
  cases h : toDecimal (.num a) with
  | none => simp
  | some d => cases d <;> simp [Dec.isNaN]

example : valuedNum (.jnum [0x31, 0x2E, 0x35]) = true := by decide
example : valuedNum (.dec .nan) = false := by decide

mutual
/-- `valuedB` decides `Val.Valued` -/
theorem valuedB_iff : ∀ v : Val, valuedB v = true ↔ v.Valued
  | .null => by simp [valuedB, Val.Valued]
  | .bool _ => by simp [valuedB, Val.Valued]
  | .str _ => by simp [valuedB, Val.Valued]
  | .foreign _ => by simp [valuedB, Val.Valued]
  | .num a => by simp only [valuedB, Val.Valued]; exact valuedNum_iff a
  | .arr _ xs => by simp only [valuedB, Val.Valued]; exact valuedBL_iff xs
  | .obj kvs => by simp only [valuedB, Val.Valued]; exact valuedBF_iff kvs
theorem valuedBL_iff : ∀ xs : List Val, valuedBL xs = true ↔ Val.ValuedL xs
  | [] => by simp [valuedBL, Val.ValuedL]
  | x :: xs => by
    simp only [valuedBL, Val.ValuedL, Bool.and_eq_true]
    exact and_congr (valuedB_iff x) (valuedBL_iff xs)
theorem valuedBF_iff : ∀ kvs : List (Bytes × Val), valuedBF kvs = true ↔ Val.ValuedF kvs
  | [] => by simp [valuedBF, Val.ValuedF]
  | (_, x) :: kvs => by
    simp only [valuedBF, Val.ValuedF, Bool.and_eq_true]
    exact and_congr (valuedB_iff x) (valuedBF_iff kvs)
end

example : Val.Valued (.arr .plain [.num (.jnum [0x31]), .null, .obj [([0x61], .num (.int .u8 7))]]) :=
  (valuedB_iff _).mp (by decide)
example : ¬ Val.Valued (.arr .plain [.num (.dec .nan)]) := fun h => by
  have := (valuedB_iff _).mpr h
  revert this; decide
example : Val.ValuedL [.num (.jnum [0x31])] := (valuedBL_iff _).mp (by decide)
example : Val.ValuedF [([0x61], .num (.jnum [0x31]))] := (valuedBF_iff _).mp (by decide)

/-! ## 3. the decidable syntactic checks -/

/-- the check at one node for the float-free fragment: no `/`; only the builtins that depend on values only
    (`Fn.plain`, or `abs`/`ceil`/`floor`); a literal all of whose numbers are valued and none a binary float -/
def fragNode : INode → Bool
  | .binop op _ _ => decide (op ≠ .div)
  | .call f _ => f.plain || f.isRound
  | .lit v => valuedB v && C05BLits.nfB v
  | _ => true

/-- **the float-free fragment, as a Bool**: `fragNode` at every sub-node -/
def fragOK (n : INode) : Bool := n.all fragNode

/-- **soundness of the check**: a node passing `fragOK` desugars to a tree in `Tree.NoDiv`, the hypothesis of
    `C14B.evaluate_congr_fragment` -/
theorem noDiv_of_fragOK {n : INode} (h : fragOK n = true) : (desugar n).NoDiv :=
  ops_of_all fragNode
    (fun _ _ _ h => of_decide_eq_true h)
    (fun f _ h => by simpa [fragNode, Bool.or_eq_true] using h)
    (fun _ _ => trivial)
    (fun v h => by
      simp only [fragNode, Bool.and_eq_true] at h
      exact ⟨(valuedB_iff v).mp h.1, (C05BLits.nfB_iff v).mp h.2⟩)
    n h

-- `a + b * 2 < c` (the example expression of `C14B`) passes the check
example : fragOK (.binop .lt (.binop .add (.field [0x61]) (.binop .mul (.field [0x62]) (.lit (.num (.jnum [0x32])))))
    (.field [0x63])) = true := by decide
example : (desugar (.binop .lt (.binop .add (.field [0x61]) (.binop .mul (.field [0x62]) (.lit (.num (.jnum [0x32])))))
    (.field [0x63]))).NoDiv := noDiv_of_fragOK (by decide)
-- `a / b`, `sort(a)` and a NaN literal do not
example : fragOK (.binop .div (.field [0x61]) (.field [0x62])) = false ∧ fragOK (.call .sort [.field [0x61]]) = false ∧
    fragOK (.lit (.num (.dec .nan))) = false := by decide

/-- the check at one node when floats may occur: comparisons only; a literal all of whose numbers are valued -/
def fragNodeF : INode → Bool
  | .binop op _ _ => op.isCmp
  | .call f _ => f.plain || f.isRound
  | .lit v => valuedB v
  | _ => true

/-- **the fragment with float leaves, as a Bool** -/
def fragOKF (n : INode) : Bool := n.all fragNodeF

/-- **soundness**: a node passing `fragOKF` desugars to a tree in `Tree.NoArithF`, the hypothesis of
    `C14B.evaluate_congr_fragment_float` -/
theorem noArithF_of_fragOKF {n : INode} (h : fragOKF n = true) : (desugar n).NoArithF :=
  ops_of_all fragNodeF
    (fun _ _ _ h => h)
    (fun f _ h => by simpa [fragNodeF, Bool.or_eq_true] using h)
    (fun _ _ => trivial)
    (fun v h => (valuedB_iff v).mp h)
    n h

-- `abs(-a) < ceil(b)` passes; `a + b` does not
example : fragOKF (.binop .lt (.call .abs [.negate (.field [0x61])]) (.call .ceil [.field [0x62]])) = true := by decide
example : (desugar (.binop .lt (.call .abs [.negate (.field [0x61])]) (.call .ceil [.field [0x62]]))).NoArithF :=
  noArithF_of_fragOKF (by decide)
example : fragOKF (.binop .add (.field [0x61]) (.field [0x62])) = false := by decide

/-- as `fragNode`, without asking for float-free literals (for a compiled node this is a theorem) -/
def fragNode0 : INode → Bool
  | .binop op _ _ => decide (op ≠ .div)
  | .call f _ => f.plain || f.isRound
  | .lit v => valuedB v
  | _ => true

/-- `fragNode` is `fragNode0` plus float-free literals -/
theorem fragNode_of_fragNode0 (m : INode) (h : (fragNode0 m && INode.litOk C05BLits.nfB m) = true) :
    fragNode m = true := by
  simp only [Bool.and_eq_true] at h
  cases m <;> first | rfl | exact h.1 | skip
  case lit v =>
    simp only [fragNode, Bool.and_eq_true]
    exact ⟨h.1, h.2⟩

/-- **for a compiled expression, `fragNode0` at every node is enough**: the parser builds float-free literals only
    (`C05BLits.parse_nfLits`) -/
theorem fragOK_of_compile {e : Bytes} {n : INode} (hc : compile e = .ok n) (h : n.all fragNode0 = true) :
    fragOK n = true :=
  all_mono fragNode_of_fragNode0 n (all_and _ _ n h (C05BLits.parse_nfLits hc))

/-- a compiled expression that passes `fragNode0` everywhere desugars into `Tree.NoDiv` -/
theorem noDiv_of_compile {e : Bytes} {n : INode} (hc : compile e = .ok n) (h : n.all fragNode0 = true) :
    (desugar n).NoDiv := noDiv_of_fragOK (fragOK_of_compile hc h)

/-- a node that passes `fragOK` passes `fragOKF` … unless it contains an arithmetic operator -/
example : fragOK (.binop .add .current .current) = true ∧ fragOKF (.binop .add .current .current) = false := by decide

/-! ## 4. the theorems on expression text -/

open C14B in
/-- **Representation independence of `Search(expression text, document)`, float-free documents.**  If the text `e`
    compiles to a node that passes the decidable check `fragNode0` at every sub-node (no `/`, no `to_string`, `sum`,
    `avg`, `sort`; every literal number is within decimal128's range), then on two related float-free documents
    (`VR true`: same shape, numbers of the same value in whatever Go representation) `search` gives the same failure
    or results related again.  When `e` does not compile, `search` fails in the same way on every document. -/
theorem search_congr_fragment {e : Bytes} (he : ∀ n, compile e = .ok n → n.all fragNode0 = true) {d d' : Val}
    (h : C14B.VR true d d') : C14B.RR (C14B.VR true) (search e d) (search e d') := by
  unfold search
  unfold compile at he
  cases hp : Parser.parse e with
  | error err => cases err <;> simp [RR]
  | ok n =>
    simp only []
    exact evaluate_congr_fragment (noDiv_of_fragOK (fragOK_of_compile (e := e) hp (he n hp))) h

open C14B in
/-- **… with `float64`/`float32` leaves**: if the text compiles to a node passing `fragOKF` (comparisons but no
    arithmetic operator; no `to_string`, `sum`, `avg`, `sort`; valued literals), `search` on two documents related by
    `VR false` gives the same failure or related results. -/
theorem search_congr_fragment_float {e : Bytes} (he : ∀ n, compile e = .ok n → fragOKF n = true) {d d' : Val}
    (h : C14B.VR false d d') : C14B.RR (C14B.VR false) (search e d) (search e d') := by
  unfold search
  unfold compile at he
  cases hp : Parser.parse e with
  | error err => cases err <;> simp [RR]
  | ok n =>
    simp only []
    exact evaluate_congr_fragment_float (noArithF_of_fragOKF (he n hp)) h

/-- the check on the expression *text*: compile, then `fragNode0` at every node (a text that does not compile
    passes: `search` then fails identically on every document) -/
def textOK (e : Bytes) : Bool :=
  match compile e with
  | .ok n => n.all fragNode0
  | .error _ => true

/-- … and for documents with float leaves -/
def textOKF (e : Bytes) : Bool :=
  match compile e with
  | .ok n => fragOKF n
  | .error _ => true

theorem he_of_textOK {e : Bytes} (h : textOK e = true) : ∀ n, compile e = .ok n → n.all fragNode0 = true := by
  intro n hc; unfold textOK at h; rw [hc] at h; exact h
theorem he_of_textOKF {e : Bytes} (h : textOKF e = true) : ∀ n, compile e = .ok n → fragOKF n = true := by
  intro n hc; unfold textOKF at h; rw [hc] at h; exact h

/-- **`search` is representation independent on float-free documents for every text passing the computable check
    `textOK`** -/
theorem search_congr_textOK {e : Bytes} (he : textOK e = true) {d d' : Val} (h : C14B.VR true d d') :
    C14B.RR (C14B.VR true) (search e d) (search e d') := search_congr_fragment (he_of_textOK he) h

/-- **… and with float leaves for every text passing `textOKF`** -/
theorem search_congr_textOKF {e : Bytes} (he : textOKF e = true) {d d' : Val} (h : C14B.VR false d d') :
    C14B.RR (C14B.VR false) (search e d) (search e d') := search_congr_fragment_float (he_of_textOKF he) h

/-- the expression text ``a+b*`2`<c`` -/
def exText : Bytes := [0x61, 0x2B, 0x62, 0x2A, 0x60, 0x32, 0x60, 0x3C, 0x63]

/-- the check runs on that text (the parser is executed by the kernel) -/
theorem exText_textOK : textOK exText = true := by decide +kernel

/-- the hypothesis of `search_congr_fragment` holds for the text ``a+b*`2`<c`` -/
theorem exText_ok : ∀ n, compile exText = .ok n → n.all fragNode0 = true := he_of_textOK exText_textOK

-- … and the text does compile (so the hypothesis is not vacuous)
example : (match compile exText with | .ok _ => true | .error _ => false) = true := by decide +kernel

-- so `search` of that text is representation independent on every pair of related float-free documents …
example {d d' : Val} (h : C14B.VR true d d') : C14B.RR (C14B.VR true) (search exText d) (search exText d') :=
  search_congr_fragment exText_ok h
-- … for instance on `{a: 1 (uint8), b: "1.50" (json.Number), c: 5 (int64)}` and the same in decimals
example : C14B.RR (C14B.VR true) (search exText C14B.exDoc) (search exText C14B.exDoc') :=
  search_congr_textOK exText_textOK C14B.exDoc_vr

/-- the expression text `abs(-a)<ceil(b)` -/
def exTextF : Bytes := [0x61, 0x62, 0x73, 0x28, 0x2D, 0x61, 0x29, 0x3C, 0x63, 0x65, 0x69, 0x6C, 0x28, 0x62, 0x29]

theorem exTextF_textOKF : textOKF exTextF = true := by decide +kernel

theorem exTextF_ok : ∀ n, compile exTextF = .ok n → fragOKF n = true := he_of_textOKF exTextF_textOKF

example : (match compile exTextF with | .ok _ => true | .error _ => false) = true := by decide +kernel

example {d d' : Val} (h : C14B.VR false d d') : C14B.RR (C14B.VR false) (search exTextF d) (search exTextF d') :=
  search_congr_fragment_float exTextF_ok h
-- `{a: 2.5 (float64), b: 2.25 (float32)}` and `{a: "2.50" (json.Number), b: 225e-2 (decimal)}`
example : C14B.RR (C14B.VR false) (search exTextF C14B.exDocF) (search exTextF C14B.exDocF') :=
  search_congr_textOKF exTextF_textOKF C14B.exDocF_vr

-- a text that does not compile (`+`): the same syntax error on both documents, whatever they are
example (d d' : Val) (h : C14B.VR true d d') : C14B.RR (C14B.VR true) (search [0x2B] d) (search [0x2B] d') :=
  search_congr_textOK (by decide +kernel) h
-- the checks reject `a/b` and `sort(a)`, and `textOKF` rejects `a+b`
example : textOK [0x61, 0x2F, 0x62] = false ∧ textOK [0x73, 0x6F, 0x72, 0x74, 0x28, 0x61, 0x29] = false ∧
    textOKF [0x61, 0x2B, 0x62] = false := by decide +kernel

/-! ## 5. what the parser guarantees about the numbers inside literals

  A literal of a compiled expression comes from `encoding/json` with `UseNumber`: every number in it is a
  `json.Number` whose text follows the JSON number grammar.  Such a text is *not* always a number for the evaluator:
  `decimal128.Parse` rejects a text whose value is beyond `9.99…e6144` with a range error, and `toDecimal` then
  yields nothing.  So "every literal of a compiled expression is `Valued`" is **false** (`lit_1e7000_not_valued`);
  what holds is "valued, or out of range" (`compile_lits_valued_or_range`). -/

/-- a text of the JSON number grammar converts to a *finite* decimal, or `decimal128.Parse` reports a range error —
    never a syntax error, NaN or an infinity without error -/
theorem jnumber_fin_or_range {t : Bytes} (h : Lexical.JNumber t) :
    (∃ n c e, Dec.parse t = .ok (.fin n c e)) ∨ (∃ n, Dec.parse t = .range (.inf n)) := by
  obtain ⟨neg, b, ip, fp, ex, rfl, hwf⟩ := C20B.jnumber_numText h
  have hb : Dec.isDigit b = true := hwf.1 b (List.mem_cons_self ..)
  rw [C20B.parse_numText neg b ip fp ex hb]
  rcases C20B.parseNumber_total neg true b ip fp ex hwf with ⟨c, e, hp⟩ | hp
  · exact .inl ⟨neg, c, e, hp⟩
  · exact .inr ⟨neg, hp⟩

example : (∃ n c e, Dec.parse [0x31, 0x2E, 0x35] = .ok (.fin n c e)) ∨ (∃ n, Dec.parse [0x31, 0x2E, 0x35] = .range (.inf n)) :=
  jnumber_fin_or_range ((JsonGrammar.isValidNumber_iff _).mp (by decide))

/-- the number is valued with a finite decimal — or it is a `json.Number` of the JSON number grammar whose text
    `decimal128.Parse` rejects with a range error (and then `toDecimal` gives nothing) -/
def valuedOrRangeNum : Num → Bool
  | .jnum t => Json.isValidNumber t &&
      (match Dec.parse t with
       | .ok d => !d.isSpecial
       | .range d => d.isInf
       | .syntax => false)
  | .dec d => !d.isSpecial
  | .int _ _ => true
  | .f64 _ => false
  | .f32 _ => false

mutual
/-- every number inside the value is `valuedOrRangeNum`, and there is no foreign Go value -/
def valuedOrRangeB : Val → Bool
  | .num a => valuedOrRangeNum a
  | .arr _ xs => valuedOrRangeBL xs
  | .obj kvs => valuedOrRangeBF kvs
  | .foreign _ => false
  | _ => true
def valuedOrRangeBL : List Val → Bool
  | [] => true
  | x :: xs => valuedOrRangeB x && valuedOrRangeBL xs
def valuedOrRangeBF : List (Bytes × Val) → Bool
  | [] => true
  | (_, x) :: kvs => valuedOrRangeB x && valuedOrRangeBF kvs
end

/-- a number that `encoding/json` can produce or print (`Num.Fin`) is valued-or-out-of-range -/
theorem valuedOrRangeNum_of_fin (a : Num) (h : a.Fin = true) : valuedOrRangeNum a = true := by
  cases a with
  | jnum t =>
    simp only [Num.Fin] at h
    simp only [valuedOrRangeNum, h, Bool.true_and]
    rcases jnumber_fin_or_range ((JsonGrammar.isValidNumber_iff t).mp h) with ⟨n, c, e, hp⟩ | ⟨n, hp⟩ <;> rw [hp] <;> rfl
  | dec d => exact h
  | int _ _ => rfl
  | f64 _ => exact h
  | f32 _ => exact h

mutual
theorem valuedOrRangeB_of_fin : ∀ v : Val, v.Fin = true → valuedOrRangeB v = true
  | .null, _ | .bool _, _ | .str _, _ => by simp [valuedOrRangeB]
  | .foreign _, h => by simp [Val.Fin] at h
  | .num a, h => by simp only [Val.Fin] at h; simp only [valuedOrRangeB]; exact valuedOrRangeNum_of_fin a h
  | .arr _ xs, h => by simp only [Val.Fin] at h; simp only [valuedOrRangeB]; exact valuedOrRangeBL_of_fin xs h
  | .obj kvs, h => by simp only [Val.Fin] at h; simp only [valuedOrRangeB]; exact valuedOrRangeBF_of_fin kvs h
theorem valuedOrRangeBL_of_fin : ∀ xs : List Val, Val.FinL xs = true → valuedOrRangeBL xs = true
  | [], _ => rfl
  | x :: xs, h => by
    simp only [Val.FinL, Bool.and_eq_true] at h
    simp only [valuedOrRangeBL, Bool.and_eq_true]
    exact ⟨valuedOrRangeB_of_fin x h.1, valuedOrRangeBL_of_fin xs h.2⟩
theorem valuedOrRangeBF_of_fin : ∀ kvs : List (Bytes × Val), Val.FinF kvs = true → valuedOrRangeBF kvs = true
  | [], _ => rfl
  | (_, x) :: kvs, h => by
    simp only [Val.FinF, Bool.and_eq_true] at h
    simp only [valuedOrRangeBF, Bool.and_eq_true]
    exact ⟨valuedOrRangeB_of_fin x h.1, valuedOrRangeBF_of_fin kvs h.2⟩
end

example : valuedOrRangeB (.arr .plain [.num (.jnum [0x31, 0x65, 0x37, 0x30, 0x30, 0x30]), .num (.jnum [0x31])]) = true := by
  decide
example : valuedOrRangeB (.num (.jnum [0x31, 0x2E])) = false ∧ valuedOrRangeB (.num (.dec .nan)) = false := by decide

/-- a Go integer converts to a finite decimal -/
theorem ofInt_finite (v : Int) : (Dec.ofInt v).isSpecial = false := by
  unfold Dec.ofInt
  split
  · rfl
  · obtain ⟨c', e', h⟩ := Dec.normalize_fin (decide (v < 0)) v.natAbs 0
    rw [h]; rfl

example : (Dec.ofInt (-5)).isSpecial = false := ofInt_finite _

/-- **the meaning of `valuedOrRangeNum`**: the number is `Valued` by a finite decimal, or it is a `json.Number` that is
    not a number for the evaluator (`toDecimal` gives nothing) because its text is out of decimal128's range -/
theorem valuedOrRangeNum_spec {a : Num} (h : valuedOrRangeNum a = true) :
    (∃ d, toDecimal (.num a) = some d ∧ d.isSpecial = false) ∨
      (∃ t n, a = .jnum t ∧ Lexical.JNumber t ∧ Dec.parse t = .range (.inf n) ∧ toDecimal (.num a) = none) := by
  cases a with
  | jnum t =>
    simp only [valuedOrRangeNum, Bool.and_eq_true] at h
    obtain ⟨hv, hm⟩ := h
    have hg := (JsonGrammar.isValidNumber_iff t).mp hv
    cases hp : Dec.parse t with
    | ok d =>
      rw [hp] at hm
      exact .inl ⟨d, by simp only [toDecimal, hp], by simpa using hm⟩
    | range d =>
      rw [hp] at hm
      cases d <;> first | (simp [Dec.isInf] at hm; done) | skip
      exact .inr ⟨t, _, rfl, hg, hp, by simp only [toDecimal, hp]⟩
    | «syntax» => rw [hp] at hm; simp at hm
  | dec d => exact .inl ⟨d, rfl, by simpa [valuedOrRangeNum] using h⟩
  | int k v => exact .inl ⟨_, rfl, ofInt_finite v⟩
  | f64 _ => simp [valuedOrRangeNum] at h
  | f32 _ => simp [valuedOrRangeNum] at h

/-- a finite decimal is not NaN: the first alternative of `valuedOrRangeNum_spec` is `Num.Valued` -/
theorem valued_of_finite {a : Num} {d : Dec} (h : toDecimal (.num a) = some d) (hf : d.isSpecial = false) : a.Valued :=
  ⟨d, h, fun e => by subst e; simp [Dec.isSpecial] at hf⟩

example : (∃ d, toDecimal (.num (.jnum [0x31])) = some d ∧ d.isSpecial = false) ∨
    (∃ t n, Num.jnum [0x31] = .jnum t ∧ Lexical.JNumber t ∧ Dec.parse t = .range (.inf n) ∧
      toDecimal (.num (.jnum [0x31])) = none) := valuedOrRangeNum_spec (by decide)

/-- **What the parser guarantees.**  Every literal of a compiled expression has only numbers that are `json.Number`s
    of the JSON number grammar (or finite decimals / integers) and each of them either converts to a finite decimal or
    is rejected by `decimal128.Parse` with a range error. -/
theorem compile_lits_valued_or_range {e : Bytes} {n : INode} (hc : compile e = .ok n) :
    n.all (INode.litOk valuedOrRangeB) = true :=
  all_mono (fun m hm => by
    cases m <;> first | rfl | skip
    case lit v => exact valuedOrRangeB_of_fin v hm) n (C18BLits.parse_finLits_all hc)

/-- the weaker form over values: every number of a `Fin` value is valued-or-out-of-range -/
theorem fin_valued_or_range : ∀ v : Val, v.Fin = true → valuedOrRangeB v = true := valuedOrRangeB_of_fin

/-- the expression text `` `1e7000` `` (a backtick literal) -/
def lit1e7000 : Bytes := [0x60, 0x31, 0x65, 0x37, 0x30, 0x30, 0x30, 0x60]
/-- the number text `1e7000` -/
def t1e7000 : Bytes := [0x31, 0x65, 0x37, 0x30, 0x30, 0x30]

theorem compile_eq_of_check {r : Except PErr INode} {t0 : Bytes}
    (h : (match r with | .ok (.lit (.num (.jnum t))) => decide (t = t0) | _ => false) = true) :
    r = .ok (.lit (.num (.jnum t0))) := by
  split at h
  · rw [of_decide_eq_true h]
  · cases h

/-- `` `1e7000` `` compiles, to the literal node holding the `json.Number` "1e7000" -/
theorem lit_1e7000_compile : compile lit1e7000 = .ok (.lit (.num (.jnum t1e7000))) :=
  compile_eq_of_check (by decide +kernel)

theorem t1e7000_huge : C20B.Huge t1e7000 :=
  ⟨(JsonGrammar.isValidNumber_iff _).mp (by decide), by decide, by decide⟩

/-- **Counterexample**: "every literal of a compiled expression is `Valued`" is FALSE.  The text `` `1e7000` `` compiles
    to a literal whose number is beyond decimal128's range: `toDecimal` gives nothing (`C20B.toDecimal_huge`), so the
    literal is not `Valued`, the node fails `fragNode0`/`fragOK`/`fragOKF`, and `Tree.NoDiv` does not hold of it.
    (It does satisfy `valuedOrRangeB`, as `compile_lits_valued_or_range` says.) -/
theorem lit_1e7000_not_valued :
    ∃ n v, compile lit1e7000 = .ok n ∧ n = .lit v ∧ ¬ v.Valued ∧ n.all fragNode0 = false ∧ fragOKF n = false ∧
      ¬ (desugar n).NoDiv ∧ ¬ (desugar n).NoArithF ∧ valuedOrRangeB v = true := by
  have hnv : ¬ (Val.num (.jnum t1e7000)).Valued := by
    simp only [Val.Valued]
    rintro ⟨d, hd, _⟩
    rw [C20B.toDecimal_huge t1e7000_huge] at hd; cases hd
  refine ⟨_, _, lit_1e7000_compile, rfl, hnv, ?_, ?_, ?_, ?_, ?_⟩
  · have : valuedB (.num (.jnum t1e7000)) = false := by
      cases h : valuedB (.num (.jnum t1e7000))
      · rfl
      · exact absurd ((valuedB_iff _).mp h) hnv
    simpa [INode.all, fragNode0] using this
  · have : valuedB (.num (.jnum t1e7000)) = false := by
      cases h : valuedB (.num (.jnum t1e7000))
      · rfl
      · exact absurd ((valuedB_iff _).mp h) hnv
    simpa [fragOKF, INode.all, fragNodeF] using this
  · intro h
    simp only [desugar, Tree.NoDiv, Tree.Ops] at h
    exact hnv h.1
  · intro h
    simp only [desugar, Tree.NoArithF, Tree.Ops] at h
    exact hnv h
  · decide

/-- … and on such a literal the model's `search` answers `false` to `` `1e7000` == `1e7000` `` (an out-of-range
    number is equal to nothing, not even to itself) and `null` to `` `1e7000` < `1e7000` `` -/
example : (match search (lit1e7000 ++ [0x3D, 0x3D] ++ lit1e7000) .null with | .ok (.bool false) => true | _ => false) = true ∧
    (match search (lit1e7000 ++ [0x3C] ++ lit1e7000) .null with | .ok .null => true | _ => false) = true := by
  decide +kernel

/-- the three representations of `1` used below: `json.Number("1")`, `int64(1)`, `float64(1)` under the key `a` -/
def oneDocs : List Val := [.obj [([0x61], .num (.jnum [0x31]))], .obj [([0x61], .num (.int .i64 1))],
  .obj [([0x61], .num (.f64 (.fin false 1 0)))]]

/-- An out-of-range literal is the *same* literal on both sides, so the results do not depend on the representation
    of the document: `` `1e7000` == a `` is `false`, `` `1e7000` + a `` is an invalid-type error, `` a < `1e7000` `` is
    `null`, for `a` = `json.Number("1")`, `int64(1)`, `float64(1)` alike.  The Go program gives exactly these answers
    (checked with `jmespath.Search`). -/
example : oneDocs.all (fun d => match search (lit1e7000 ++ [0x3D, 0x3D, 0x61]) d with | .ok (.bool false) => true | _ => false) = true ∧
    oneDocs.all (fun d => match search (lit1e7000 ++ [0x2B, 0x61]) d with | .err [.invalidType] => true | _ => false) = true ∧
    oneDocs.all (fun d => match search ([0x61, 0x3C] ++ lit1e7000) d with | .ok .null => true | _ => false) = true := by
  decide +kernel

/-! ## 6. the nine measured divergent quotients `a / b`

  The reviewer measured nine pairs `(a, b)` on which `a / b` evaluated on `float64` operands and on
  `json.Number`/decimal operands gives results of *different* values.  They are all **inexact quotients, excluded by
  the property's proviso** "as long as all intermediate values are exactly representable in each representation":
  in every case the exact quotient (`±0.2`, `±0.4`, `±1.2`, `2.8`, `-5/14`, `±3/7`) is not a binary64 number, so the
  float path rounds it to the nearest `m·2^e`; decimal128 holds `±0.2`, `±0.4`, `±1.2`, `2.8` exactly, and for
  `2.5 / -7`, `3 / -7`, `3 / 7` the quotient is not a decimal128 number either and is rounded to 34 digits.
  Each example states: the operand pairs are `Num.SameValue`; `divide` on the two `float64` operands gives the float
  `q`; `divide` on the two `json.Number` operands gives the decimal `D`; `q` and `D` are **not** `Num.SameValue`.
  This matches the Go program (measured by the reviewer with `jmespath.Search`). -/

section Divergence

/-- the statement of one recorded divergence -/
def Diverges (a b : F64) (ta tb : Bytes) (q : F64) (D : Dec) : Prop :=
  Num.SameValue (.f64 a) (.jnum ta) ∧ Num.SameValue (.f64 b) (.jnum tb) ∧
    divide (.num (.f64 a)) (.num (.f64 b)) = .ok (.num (.f64 q)) ∧
    divide (.num (.jnum ta)) (.num (.jnum tb)) = .ok (.num (.dec D)) ∧
    ¬ Num.SameValue (.f64 q) (.dec D)

/-- Bool version of `Num.SameValue` -/
def sameValB (x y : Num) : Bool :=
  match toDecimal (.num x), toDecimal (.num y) with
  | some d, some d' => Dec.cmp d d' == some 0
  | _, _ => false

theorem sameValB_iff (x y : Num) : sameValB x y = true ↔ Num.SameValue x y := by
  unfold sameValB Num.SameValue
  cases hx : toDecimal (.num x) <;> cases hy : toDecimal (.num y) <;> simp

example : sameValB (.f64 (.fin false 5 (-1))) (.jnum [0x32, 0x2E, 0x35]) = true := by decide

/-- the computable check behind `Diverges` -/
def divCheck (a b : F64) (ta tb : Bytes) (q : F64) (D : Dec) : Bool :=
  sameValB (.f64 a) (.jnum ta) && sameValB (.f64 b) (.jnum tb) &&
    (match divide (.num (.f64 a)) (.num (.f64 b)) with | .ok (.num (.f64 f)) => decide (f = q) | _ => false) &&
    (match divide (.num (.jnum ta)) (.num (.jnum tb)) with | .ok (.num (.dec d)) => decide (d = D) | _ => false) &&
    !sameValB (.f64 q) (.dec D)

theorem diverges_of_check {a b : F64} {ta tb : Bytes} {q : F64} {D : Dec} (h : divCheck a b ta tb q D = true) :
    Diverges a b ta tb q D := by
  simp only [divCheck, Bool.and_eq_true, Bool.not_eq_true'] at h
  obtain ⟨⟨⟨⟨h1, h2⟩, h3⟩, h4⟩, h5⟩ := h
  refine ⟨(sameValB_iff _ _).mp h1, (sameValB_iff _ _).mp h2, ?_, ?_, ?_⟩
  · split at h3
    · next f e => rw [e, of_decide_eq_true h3]
    · cases h3
  · split at h4
    · next d e => rw [e, of_decide_eq_true h4]
    · cases h4
  · intro hs
    rw [(sameValB_iff _ _).mpr hs] at h5; cases h5

-- `0.5 / -2.5`: float64 `-3602879701896397/2^54`, decimal128 `-2e-1`
example : Diverges (.fin false 1 (-1)) (.fin true 5 (-1)) [0x30, 0x2E, 0x35] [0x2D, 0x32, 0x2E, 0x35]
    (.fin true 3602879701896397 (-54)) (.fin true 2 (-1)) := diverges_of_check (by decide)
-- `0.5 / 2.5`: float64 `3602879701896397/2^54`, decimal128 `2e-1`
example : Diverges (.fin false 1 (-1)) (.fin false 5 (-1)) [0x30, 0x2E, 0x35] [0x32, 0x2E, 0x35]
    (.fin false 3602879701896397 (-54)) (.fin false 2 (-1)) := diverges_of_check (by decide)
-- `1 / -2.5`: float64 `-3602879701896397/2^53`, decimal128 `-4e-1`
example : Diverges (.fin false 1 0) (.fin true 5 (-1)) [0x31] [0x2D, 0x32, 0x2E, 0x35]
    (.fin true 3602879701896397 (-53)) (.fin true 4 (-1)) := diverges_of_check (by decide)
-- `1 / 2.5`: float64 `3602879701896397/2^53`, decimal128 `4e-1`
example : Diverges (.fin false 1 0) (.fin false 5 (-1)) [0x31] [0x32, 0x2E, 0x35]
    (.fin false 3602879701896397 (-53)) (.fin false 4 (-1)) := diverges_of_check (by decide)
-- `2.5 / -7`: float64 `-6433713753386423/2^54`, decimal128 `-3571428571428571428571428571428571e-34`
example : Diverges (.fin false 5 (-1)) (.fin true 7 0) [0x32, 0x2E, 0x35] [0x2D, 0x37]
    (.fin true 6433713753386423 (-54)) (.fin true 3571428571428571428571428571428571 (-34)) := diverges_of_check (by decide)
-- `3 / -2.5`: float64 `-5404319552844595/2^52`, decimal128 `-12e-1`
example : Diverges (.fin false 3 0) (.fin true 5 (-1)) [0x33] [0x2D, 0x32, 0x2E, 0x35]
    (.fin true 5404319552844595 (-52)) (.fin true 12 (-1)) := diverges_of_check (by decide)
-- `3 / -7`: float64 `-7720456504063707/2^54`, decimal128 `-4285714285714285714285714285714286e-34`
example : Diverges (.fin false 3 0) (.fin true 7 0) [0x33] [0x2D, 0x37]
    (.fin true 7720456504063707 (-54)) (.fin true 4285714285714285714285714285714286 (-34)) := diverges_of_check (by decide)
-- `3 / 7`: float64 `7720456504063707/2^54`, decimal128 `4285714285714285714285714285714286e-34`
example : Diverges (.fin false 3 0) (.fin false 7 0) [0x33] [0x37]
    (.fin false 7720456504063707 (-54)) (.fin false 4285714285714285714285714285714286 (-34)) := diverges_of_check (by decide)
-- `7 / 2.5`: float64 `3152519739159347/2^50`, decimal128 `28e-1`
example : Diverges (.fin false 7 0) (.fin false 5 (-1)) [0x37] [0x32, 0x2E, 0x35]
    (.fin false 3152519739159347 (-50)) (.fin false 28 (-1)) := diverges_of_check (by decide)

end Divergence

end C14CFrag
end Jmes

section AxiomCheck
open Jmes.C14CFrag
end AxiomCheck
