/-
  Property C18 (second pass), closure lemmas: `Val.Fin` (Jmes/Proofs/C18BDefs.lean: every number inside is a valid
  `json.Number`, a finite decimal or a Go integer; no binary float, no foreign value) is preserved by the evaluator,
  all builtins included.

  The development follows Jmes/Proofs/NoFloat.lean (closure of the weaker `Val.NoFloat`): value-level lemmas for every
  builtin, `seval_fin` by mutual structural recursion over the reference syntax `Tree`, the bridge `desugar_tlits`
  from the Bool traversal `INode.all (INode.litOk Val.Fin)` to the literal predicate `TLits` on `Tree`, and
  `ieval_fin` / `evaluate_fin` through `ieval_desugar`.  What is new with respect to `NoFloat` is the number part:

  * `parseNumber_fin`, `unmarshalJSON_fin`: an `.ok` result of decimal128's number parser is finite (`to_number`);
  * `parse_valid_fin`: `decimal128.Parse` of a *valid JSON number* is finite (the text starts with a digit after the
    optional minus, so it is none of `inf` / `nan` / `infinity`);
  * `toDecimal_fin`: the decimal of a `Fin` number is finite;
  * `abs_fin`, `neg_fin`, `ceil_fin`, `floor_fin`: the unchecked decimal operations keep finite values finite;
  * `checkD_fin`: the checked ones (`+ - * / // %`, `sum`, `avg`) return only finite values;
  * `arrayMax_fin`, `arrayMin_fin`: `max` / `min` return one of the (finite) decimals of the elements.

  Helper lemmas live in `namespace Jmes.C18BL`; the two conclusions `Jmes.ieval_fin`, `Jmes.evaluate_fin` are at the end.
-/
import Jmes.Proofs.C18BDefs
import Jmes.Proofs.NoFloat
import Jmes.Proofs.JsonComplete
namespace Jmes
namespace C18BL

/-- `normalize` of a finite value is finite -/
theorem normalize_fin_special (n : Bool) (c : Nat) (e : Int) : (Dec.normalize (.fin n c e)).isSpecial = false := by
  simp only [Dec.normalize]
  split <;> rfl

theorem normalize_fin_ne_nan (n : Bool) (c : Nat) (e : Int) : Dec.normalize (.fin n c e) ≠ .nan := by
  intro h
  have := normalize_fin_special n c e
  rw [h] at this
  exact absurd this (by decide)

theorem ite_ne_nan {p : Prop} [Decidable p] {a b : Dec} (ha : a ≠ .nan) (hb : b ≠ .nan) :
    (if p then a else b) ≠ .nan := by split <;> assumption

/-- rounding into the format gives a finite value or an infinity, never NaN -/
theorem reduce_ne_nan (n : Bool) (c : Nat) (e : Int) (st : Bool) : Dec.reduce n c e st ≠ .nan := by
  unfold Dec.reduce
  split
  · exact fun h => Dec.noConfusion h
  · simp only
    exact ite_ne_nan (fun h => Dec.noConfusion h) (normalize_fin_ne_nan _ _ _)

/-- an `.ok` result of decimal128's `parseNumber` is finite (an overflow is reported as `.range`) -/
theorem parseNumber_fin {d : Bytes} {n s : Bool} {r : Dec} (h : Dec.parseNumber d n s = .ok r) : r.isSpecial = false := by
  simp only [Dec.parseNumber] at h
  repeat' split at h
  all_goals first
    | (cases h; done)
    | (cases h; rfl)
    | skip
  all_goals
    rename_i hne
    cases h
    generalize hr : Dec.reduce _ _ _ _ = r' at hne
    cases r' with
    | nan => exact absurd hr (reduce_ne_nan _ _ _ _)
    | inf m => exact absurd rfl (hne m)
    | fin _ _ _ => rfl

/-- `Decimal.UnmarshalJSON` succeeds only with a finite value -/
theorem unmarshalJSON_fin {s : Bytes} {r : Dec} (h : Dec.unmarshalJSON s = some r) : r.isSpecial = false := by
  unfold Dec.unmarshalJSON at h
  split at h
  · cases h; rfl
  · split at h
    · cases h; rfl
    · simp only at h
      split at h
      · next hp => cases h; exact parseNumber_fin hp
      · cases h

/-- a JSON number is an optional minus followed by a digit -/
theorem jnumber_shape {t : Bytes} (h : Lexical.JNumber t) :
    ∃ b r, (t = b :: r ∨ t = 0x2D :: b :: r) ∧ 0x30 ≤ b ∧ b ≤ 0x39 := by
  obtain ⟨sg, i, f, e, rfl, hsg, hi, _, _⟩ := h
  rcases hsg with rfl | rfl
  · rcases hi with rfl | ⟨d, ds, rfl, h1, h2, _⟩
    · exact ⟨0x30, _, Or.inl rfl, by omega, by omega⟩
    · exact ⟨d, _, Or.inl rfl, by omega, by omega⟩
  · rcases hi with rfl | ⟨d, ds, rfl, h1, h2, _⟩
    · exact ⟨0x30, _, Or.inr rfl, by omega, by omega⟩
    · exact ⟨d, _, Or.inr rfl, by omega, by omega⟩

theorem low_digit {b : Nat} {r : Bytes} (h1 : 0x30 ≤ b) (h2 : b ≤ 0x39) :
    (b :: r).map Dec.lowerByte = b :: r.map Dec.lowerByte := by
  have : ¬ (0x41 ≤ b ∧ b ≤ 0x5A) := by omega
  simp [Dec.lowerByte, this]

theorem parse_digit {b : Nat} {r : Bytes} (h1 : 0x30 ≤ b) (h2 : b ≤ 0x39) :
    Dec.parse (b :: r) = Dec.parseNumber (b :: r) false true := by
  have e1 : ¬ b = 0x2B := by omega
  have e2 : ¬ b = 0x2D := by omega
  have e3 : ¬ b = 0x69 := by omega
  have e4 : ¬ b = 0x6E := by omega
  simp only [Dec.parse, e1, e2, if_false, low_digit h1 h2, List.isEmpty_cons, List.cons.injEq, e3, e4, false_and,
    Bool.false_eq_true]

theorem parse_neg_digit {b : Nat} {r : Bytes} (h1 : 0x30 ≤ b) (h2 : b ≤ 0x39) :
    Dec.parse (0x2D :: b :: r) = Dec.parseNumber (b :: r) true true := by
  have e3 : ¬ b = 0x69 := by omega
  have e4 : ¬ b = 0x6E := by omega
  have e5 : ¬ (0x2D : Nat) = 0x2B := by decide
  simp only [Dec.parse, e5, if_false, if_true, low_digit h1 h2, List.isEmpty_cons, List.cons.injEq, e3, e4, false_and,
    Bool.false_eq_true]

/-- `decimal128.Parse` of a valid JSON number text is never NaN or an infinity -/
theorem parse_valid_fin {t : Bytes} {d : Dec} (hv : Json.isValidNumber t = true) (h : Dec.parse t = .ok d) :
    d.isSpecial = false := by
  obtain ⟨b, r, ht, h1, h2⟩ := jnumber_shape ((JsonGrammar.isValidNumber_iff t).mp hv)
  rcases ht with rfl | rfl
  · rw [parse_digit h1 h2] at h; exact parseNumber_fin h
  · rw [parse_neg_digit h1 h2] at h; exact parseNumber_fin h

/-- `"-2.50"` parses to the finite `-2.5` -/
example : Dec.parse [0x2D, 0x32, 0x2E, 0x35, 0x30] = .ok (.fin true 25 (-1)) := by decide
example : (Dec.fin true 25 (-1)).isSpecial = false :=
  parse_valid_fin (t := [0x2D, 0x32, 0x2E, 0x35, 0x30]) (by decide) (by decide)
/-- validity of the text is needed: `decimal128.Parse("inf")` succeeds with an infinity -/
example : Dec.parse [0x69, 0x6E, 0x66] = .ok (.inf false) := by decide
example : Json.isValidNumber [0x69, 0x6E, 0x66] = false := by decide

theorem ofInt_fin (i : Int) : (Dec.ofInt i).isSpecial = false := by
  unfold Dec.ofInt
  split
  · rfl
  · exact normalize_fin_special _ _ _

/-- the key number lemma: the decimal of a `Fin` number is finite -/
theorem toDecimal_fin {x : Val} {d : Dec} (hx : x.Fin = true) (h : toDecimal x = some d) : d.isSpecial = false := by
  cases x with
  | num n =>
    cases n with
    | f64 f => simp at hx
    | f32 f => simp at hx
    | jnum t =>
      simp only [toDecimal] at h
      split at h
      · next hp => cases h; exact parse_valid_fin (Val.fin_jnum.mp hx) hp
      · cases h
    | dec d' => simp only [toDecimal, Option.some.injEq] at h; subst h; exact Val.fin_dec.mp hx
    | int k v => simp only [toDecimal, Option.some.injEq] at h; subst h; exact ofInt_fin v
  | _ => simp [toDecimal] at h

example : toDecimal (.num (.jnum [0x31, 0x65, 0x32])) = some (.fin false 1 2) := by decide
example : (Dec.fin false 1 2).isSpecial = false :=
  toDecimal_fin (x := .num (.jnum [0x31, 0x65, 0x32])) (by decide) (by decide)
/-- `Val.Fin` (not just `Val.NoFloat`) is needed: the `json.Number` `inf`, which no JSON decoder produces, has an
    infinite decimal, and `abs` would return it unchecked -/
example : toDecimal (.num (.jnum [0x69, 0x6E, 0x66])) = some (.inf false) := by decide
example : numAbs (.num (.jnum [0x69, 0x6E, 0x66])) = .ok (.num (.dec (.inf false))) := rfl

theorem toFloat_none_fin {x : Val} (h : x.Fin = true) : toFloat x = none := by
  cases x with
  | num n =>
    cases n with
    | f64 f => simp at h
    | f32 f => simp at h
    | _ => rfl
  | _ => rfl

theorem abs_fin {d : Dec} (h : d.isSpecial = false) : d.abs.isSpecial = false := by
  cases d <;> simp_all [Dec.abs, Dec.isSpecial]
theorem neg_fin {d : Dec} (h : d.isSpecial = false) : d.neg.isSpecial = false := by
  cases d <;> simp_all [Dec.neg, Dec.isSpecial]
theorem ceil_fin {d : Dec} (h : d.isSpecial = false) : d.ceil.isSpecial = false := by
  cases d with
  | nan => simp [Dec.isSpecial] at h
  | inf n => simp [Dec.isSpecial] at h
  | fin n c e =>
    simp only [Dec.ceil]
    repeat' split
    all_goals first | exact normalize_fin_special _ _ _ | rfl
theorem floor_fin {d : Dec} (h : d.isSpecial = false) : d.floor.isSpecial = false := by
  cases d with
  | nan => simp [Dec.isSpecial] at h
  | inf n => simp [Dec.isSpecial] at h
  | fin n c e =>
    simp only [Dec.floor]
    repeat' split
    all_goals first | exact normalize_fin_special _ _ _ | rfl

/-- the overflow / NaN check of the arithmetic operators lets only finite decimals through -/
theorem checkD_fin {r : Dec} {v : Val} (h : checkD r = .ok v) : v.Fin = true := by
  unfold checkD at h
  split at h
  · simp [errNaN] at h
  · split at h
    · simp [errNaN] at h
    · cases h
      rw [Val.fin_dec]
      cases r <;> simp_all [Dec.isInf, Dec.isNaN, Dec.isSpecial]

/-- `+ - * / // %` on a `Fin` left operand: the result is a finite decimal -/
theorem arith_fin {fop : F64 → F64 → F64} {dop : Dec → Dec → Dec} {x y v : Val}
    (hv : arith fop dop x y = .ok v) (hx : x.Fin = true) : v.Fin = true := by
  unfold arith at hv
  have hf : toFloatPair x y = none := by simp [toFloatPair, toFloat_none_fin hx]
  rw [hf] at hv
  simp only at hv
  split at hv
  · simp [errType] at hv
  · split at hv
    · simp [errType] at hv
    · exact checkD_fin hv

/-- `abs` of a `Fin` value is `Fin` -/
theorem numAbs_fin {x v : Val} (h : x.Fin = true) (hv : numAbs x = .ok v) : v.Fin = true := by
  unfold numAbs at hv; rw [toFloat_none_fin h] at hv; simp only at hv
  split at hv
  · simp [errType] at hv
  · next d hd => cases hv; exact Val.fin_dec.mpr (abs_fin (toDecimal_fin h hd))
/-- `ceil` of a `Fin` value is `Fin` -/
theorem numCeil_fin {x v : Val} (h : x.Fin = true) (hv : numCeil x = .ok v) : v.Fin = true := by
  unfold numCeil at hv; rw [toFloat_none_fin h] at hv; simp only at hv
  split at hv
  · simp [errType] at hv
  · next d hd => cases hv; exact Val.fin_dec.mpr (ceil_fin (toDecimal_fin h hd))
/-- `floor` of a `Fin` value is `Fin` -/
theorem numFloor_fin {x v : Val} (h : x.Fin = true) (hv : numFloor x = .ok v) : v.Fin = true := by
  unfold numFloor at hv; rw [toFloat_none_fin h] at hv; simp only at hv
  split at hv
  · simp [errType] at hv
  · next d hd => cases hv; exact Val.fin_dec.mpr (floor_fin (toDecimal_fin h hd))

/-- unary minus of a `Fin` value is `Fin` -/
theorem negateVal_fin {x : Val} (h : x.Fin = true) : (negateVal x).Fin = true := by
  unfold negateVal; rw [toFloat_none_fin h]; simp only
  split
  · simp
  · next d hd =>
    have := toDecimal_fin h hd
    split
    · exact Val.fin_dec.mpr this
    · exact Val.fin_dec.mpr (neg_fin this)

/-- `sum` returns a finite decimal (checked by `checkD`) -/
theorem numSum_fin {x v : Val} (hv : numSum x = .ok v) : v.Fin = true := by
  unfold numSum at hv
  split at hv
  · split at hv
    · simp [errType] at hv
    · split at hv
      · exact checkD_fin hv
      · simp at hv
  · simp [errType] at hv

/-- `avg` returns null or a finite decimal (checked by `checkD`) -/
theorem numAvg_fin {x v : Val} (hv : numAvg x = .ok v) : v.Fin = true := by
  unfold numAvg at hv
  split at hv
  · split at hv
    · cases hv; simp
    · split at hv
      · simp [errType] at hv
      · split at hv
        · exact checkD_fin hv
        · simp at hv
  · simp [errType] at hv

/-- `to_number` of a `Fin` value is `Fin`: a number is passed through, a string is parsed to a finite decimal -/
theorem toNumber_fin {x : Val} (h : x.Fin = true) : (toNumber x).Fin = true := by
  unfold toNumber
  split
  · exact h
  · split
    · split
      · next d hd => exact Val.fin_dec.mpr (unmarshalJSON_fin hd)
      · simp
    · simp
  · simp

example : toNumber (.str [0x31, 0x65, 0x33]) = .num (.dec (.fin false 1 3)) := rfl
example : (toNumber (.str [0x31, 0x65, 0x33])).Fin = true := toNumber_fin (by decide)
/-- out of range: `to_number("1e9999")` is null, not an infinity -/
example : toNumber (.str [0x31, 0x65, 0x39, 0x39, 0x39, 0x39]) = .null := rfl

/-- the decimals of `Fin` elements are finite -/
theorem allDecimals_fin : ∀ {xs : List Val} {ds : List Dec}, (∀ x ∈ xs, x.Fin = true) → allDecimals xs = some ds →
    ∀ d ∈ ds, d.isSpecial = false
  | [], ds, _, h => by simp [allDecimals] at h; subst h; simp
  | x :: xs, ds, hx, h => by
    simp only [allDecimals] at h
    split at h
    · cases h
    · next d hd =>
      simp only [Option.map_eq_some_iff] at h
      obtain ⟨ds', hds, rfl⟩ := h
      intro d' hd'
      rcases List.mem_cons.mp hd' with rfl | hd'
      · exact toDecimal_fin (hx x (List.mem_cons_self ..)) hd
      · exact allDecimals_fin (fun y hy => hx y (List.mem_cons_of_mem _ hy)) hds d' hd'

theorem maxDec_mem : ∀ (ds : List Dec) (m : Dec), maxDec m ds = m ∨ maxDec m ds ∈ ds
  | [], m => Or.inl rfl
  | d :: ds, m => by
    simp only [maxDec]
    split
    · rcases maxDec_mem ds d with h | h
      · rw [h]; exact Or.inr (List.mem_cons_self ..)
      · exact Or.inr (List.mem_cons_of_mem _ h)
    · rcases maxDec_mem ds m with h | h
      · exact Or.inl h
      · exact Or.inr (List.mem_cons_of_mem _ h)

theorem minDec_mem : ∀ (ds : List Dec) (m : Dec), minDec m ds = m ∨ minDec m ds ∈ ds
  | [], m => Or.inl rfl
  | d :: ds, m => by
    simp only [minDec]
    split
    · rcases minDec_mem ds d with h | h
      · rw [h]; exact Or.inr (List.mem_cons_self ..)
      · exact Or.inr (List.mem_cons_of_mem _ h)
    · rcases minDec_mem ds m with h | h
      · exact Or.inl h
      · exact Or.inr (List.mem_cons_of_mem _ h)

/-- `max` of a `Fin` array is `Fin`: one of the finite decimals of the elements -/
theorem arrayMax_fin {x v : Val} (hx : x.Fin = true) (hv : arrayMax x = .ok v) : v.Fin = true := by
  unfold arrayMax at hv
  split at hv
  · next t xs =>
    split at hv
    · cases hv; simp
    · split at hv
      · cases hv; simp
      · simp [errType] at hv
    · split at hv
      · next d ds hd =>
        split at hv
        · simp at hv
        · cases hv
          have hall := allDecimals_fin (Val.fin_arr.mp hx) hd
          rw [Val.fin_dec]
          rcases maxDec_mem ds d with e | e
          · rw [e]; exact hall d (List.mem_cons_self ..)
          · exact hall _ (List.mem_cons_of_mem _ e)
      · simp [errType] at hv
  · simp [errType] at hv

example : arrayMax (.arr .plain [.num (.jnum [0x31]), .num (.int .i64 3)]) = .ok (.num (.dec (.fin false 3 0))) := rfl
example : (Val.num (.dec (.fin false 3 0))).Fin = true :=
  arrayMax_fin (x := .arr .plain [.num (.jnum [0x31]), .num (.int .i64 3)]) (by decide) rfl

/-- `min` of a `Fin` array is `Fin` -/
theorem arrayMin_fin {x v : Val} (hx : x.Fin = true) (hv : arrayMin x = .ok v) : v.Fin = true := by
  unfold arrayMin at hv
  split at hv
  · next t xs =>
    split at hv
    · cases hv; simp
    · split at hv
      · cases hv; simp
      · simp [errType] at hv
    · split at hv
      · next d ds hd =>
        split at hv
        · simp at hv
        · cases hv
          have hall := allDecimals_fin (Val.fin_arr.mp hx) hd
          rw [Val.fin_dec]
          rcases minDec_mem ds d with e | e
          · rw [e]; exact hall d (List.mem_cons_self ..)
          · exact hall _ (List.mem_cons_of_mem _ e)
      · simp [errType] at hv
  · simp [errType] at hv


/-! ## evaluator level: every operation of the evaluator maps `Fin` values to `Fin` values -/

theorem getD_fin {xs : List Val} (h : ∀ x ∈ xs, Val.Fin x = true) (n : Nat) : Val.Fin (xs.getD n .null) = true := by
  rw [List.getD_eq_getElem?_getD]
  cases hx : xs[n]? with
  | none => simp
  | some x => simp; exact h x (List.mem_of_getElem? hx)

theorem field_fin {v : Val} (k : Bytes) (h : Val.Fin v = true) : Val.Fin (field k v) = true := by
  unfold field
  split
  · next kvs =>
    cases hl : objLookup k kvs with
    | none => simp
    | some x => simp; exact Val.fin_obj.mp h k x (objLookup_mem hl)
  · simp

theorem index_fin {v w : Val} {i : Int} (h : Val.Fin v = true) (hw : index v i = .ok w) : Val.Fin w = true := by
  cases v with
  | arr t xs =>
    simp only [index] at hw
    generalize (if i < 0 then i + (xs.length : Int) else i) = j at hw
    by_cases h1 : j < 0 ∨ j ≥ (xs.length : Int)
    · simp only [h1, if_true, Res.ok.injEq] at hw; subst hw; simp
    · simp only [h1, if_false] at hw
      by_cases h2 : enum2 t xs = true
      · simp [h2] at hw
      · simp only [h2, if_false, Res.ok.injEq, Bool.false_eq_true] at hw
        subst hw; exact getD_fin (Val.fin_arr.mp h) _
  | _ => simp only [index, Res.ok.injEq] at hw; subst hw; simp

theorem pickStep_fin {xs : List Val} (h : ∀ x ∈ xs, Val.Fin x = true) (step : Int) : ∀ (n : Nat) (start : Int),
    ∀ y ∈ pickStep xs start step n, Val.Fin y = true
  | 0, _ => by simp [pickStep]
  | n + 1, start => by
    intro y hy
    simp only [pickStep, List.mem_cons] at hy
    rcases hy with rfl | hy
    · exact getD_fin h _
    · exact pickStep_fin h step n _ y hy

theorem slice_fin {v w : Val} {a b : Int} (h : Val.Fin v = true) (hw : slice v a b = .ok w) : Val.Fin w = true := by
  unfold slice at hw
  split at hw
  · next t xs =>
    split at hw
    · cases hw; simp [Val.fin_arr]
    · split at hw
      · cases hw; simp [Val.fin_arr]
      · split at hw
        · simp at hw
        · cases hw
          rw [Val.fin_arr]
          intro x hx
          exact Val.fin_arr.mp h x (List.mem_of_mem_drop (List.mem_of_mem_take hx))
  · split at hw <;> (cases hw; simp)
  · cases hw; simp

theorem sliceStep_fin {v w : Val} {a b s : Int} (h : Val.Fin v = true) (hw : sliceStep v a b s = .ok w) : Val.Fin w = true := by
  unfold sliceStep at hw
  split at hw
  · next t xs =>
    split at hw
    · cases hw; simp [Val.fin_arr]
    · split at hw
      · simp at hw
      · cases hw
        rw [Val.fin_arr]
        exact pickStep_fin (Val.fin_arr.mp h) _ _ _
  · simp only at hw
    split at hw
    · cases hw; simp
    · split at hw <;> (cases hw; simp)
  · cases hw; simp

theorem pruneArray_fin {v : Val} (h : Val.Fin v = true) : Val.Fin (pruneArray v) = true := by
  unfold pruneArray
  split
  · next t xs =>
    split
    · rw [Val.fin_arr]; intro x hx; exact Val.fin_arr.mp h x (List.mem_filter.mp hx).1
    · exact h
  · simp


/-- `f` maps Fin values to Fin values -/
def FinFun (f : Val → Res Val) : Prop := ∀ x, Val.Fin x = true → ∀ v, f x = .ok v → Val.Fin v = true

theorem mapPrune_fin {f : Val → Res Val} (hf : FinFun f) : ∀ {xs r : List Val}, (∀ x ∈ xs, Val.Fin x = true) →
    mapPrune f xs = .ok r → ∀ y ∈ r, Val.Fin y = true
  | [], r, _, h => by simp [mapPrune] at h; subst h; simp
  | x :: xs, r, hx, h => by
    simp only [mapPrune, Res.bind_eq_ok, Res.pure_eq, Res.ok.injEq] at h
    obtain ⟨p, hp, rest, hrest, hr⟩ := h
    have ih := mapPrune_fin hf (fun y hy => hx y (List.mem_cons_of_mem _ hy)) hrest
    have hpn := hf x (hx x (List.mem_cons_self ..)) p hp
    subst hr
    intro y hy
    split at hy
    · exact ih y hy
    · rcases List.mem_cons.mp hy with rfl | hy
      · exact hpn
      · exact ih y hy

theorem mapAll_fin {f : Val → Res Val} (hf : FinFun f) : ∀ {xs r : List Val}, (∀ x ∈ xs, Val.Fin x = true) →
    mapAll f xs = .ok r → ∀ y ∈ r, Val.Fin y = true
  | [], r, _, h => by simp [mapAll] at h; subst h; simp
  | x :: xs, r, hx, h => by
    simp only [mapAll, Res.bind_eq_ok, Res.pure_eq, Res.ok.injEq] at h
    obtain ⟨p, hp, rest, hrest, hr⟩ := h
    have ih := mapAll_fin hf (fun y hy => hx y (List.mem_cons_of_mem _ hy)) hrest
    have hpn := hf x (hx x (List.mem_cons_self ..)) p hp
    subst hr
    intro y hy
    rcases List.mem_cons.mp hy with rfl | hy
    · exact hpn
    · exact ih y hy

theorem filterMapPrune_fin {c f : Val → Res Val} (hf : FinFun f) : ∀ {xs r : List Val}, (∀ x ∈ xs, Val.Fin x = true) →
    filterMapPrune c f xs = .ok r → ∀ y ∈ r, Val.Fin y = true
  | [], r, _, h => by simp [filterMapPrune] at h; subst h; simp
  | x :: xs, r, hx, h => by
    simp only [filterMapPrune, Res.bind_eq_ok] at h
    obtain ⟨b, hb, h⟩ := h
    have hx' : ∀ y ∈ xs, Val.Fin y = true := fun y hy => hx y (List.mem_cons_of_mem _ hy)
    split at h
    · simp only [Res.bind_eq_ok, Res.pure_eq, Res.ok.injEq] at h
      obtain ⟨p, hp, rest, hrest, hr⟩ := h
      have ih := filterMapPrune_fin hf hx' hrest
      have hpn := hf x (hx x (List.mem_cons_self ..)) p hp
      subst hr
      intro y hy
      split at hy
      · exact ih y hy
      · rcases List.mem_cons.mp hy with rfl | hy
        · exact hpn
        · exact ih y hy
    · exact filterMapPrune_fin hf hx' h

theorem projectArray_fin {f : Val → Res Val} (hf : FinFun f) {v w : Val} (h : Val.Fin v = true)
    (hw : projectArray f v = .ok w) : Val.Fin w = true := by
  unfold projectArray at hw
  split at hw
  · next t xs =>
    rw [widen_eq_ok] at hw
    simp only [Res.bind_eq_ok, Res.pure_eq, Res.ok.injEq] at hw
    obtain ⟨r, hr, rfl⟩ := hw
    exact Val.fin_arr.mpr (mapPrune_fin hf (Val.fin_arr.mp h) hr)
  · cases hw; simp

theorem mapArray_fin {f : Val → Res Val} (hf : FinFun f) {v w : Val} (h : Val.Fin v = true)
    (hw : mapArray f v = .ok w) : Val.Fin w = true := by
  unfold mapArray at hw
  split at hw
  · next t xs =>
    rw [widen_eq_ok] at hw
    simp only [Res.bind_eq_ok, Res.pure_eq, Res.ok.injEq] at hw
    obtain ⟨r, hr, rfl⟩ := hw
    exact Val.fin_arr.mpr (mapAll_fin hf (Val.fin_arr.mp h) hr)
  · simp [errType] at hw

theorem filterAndProjectArray_fin {c f : Val → Res Val} (hf : FinFun f) {v w : Val} (h : Val.Fin v = true)
    (hw : filterAndProjectArray c f v = .ok w) : Val.Fin w = true := by
  unfold filterAndProjectArray at hw
  split at hw
  · next t xs =>
    rw [widen_eq_ok] at hw
    simp only [Res.bind_eq_ok, Res.pure_eq, Res.ok.injEq] at hw
    obtain ⟨r, hr, rfl⟩ := hw
    exact Val.fin_arr.mpr (filterMapPrune_fin hf (Val.fin_arr.mp h) hr)
  · cases hw; simp

theorem flattenForProject_fin : ∀ {xs : List Val}, (∀ x ∈ xs, Val.Fin x = true) → ∀ y ∈ flattenForProject xs, Val.Fin y = true
  | [], _ => by simp [flattenForProject]
  | x :: xs, hx => by
    have ih := flattenForProject_fin (fun y hy => hx y (List.mem_cons_of_mem _ hy))
    have h0 := hx x (List.mem_cons_self ..)
    intro y hy
    cases x with
    | arr t ys =>
      simp only [flattenForProject, List.mem_append] at hy
      rcases hy with hy | hy
      · exact Val.fin_arr.mp h0 y hy
      · exact ih y hy
    | _ =>
      simp only [flattenForProject, List.mem_cons] at hy
      rcases hy with rfl | hy
      · exact h0
      · exact ih y hy

theorem flattenAndProjectArray_fin {f : Val → Res Val} (hf : FinFun f) {v w : Val} (h : Val.Fin v = true)
    (hw : flattenAndProjectArray f v = .ok w) : Val.Fin w = true := by
  unfold flattenAndProjectArray at hw
  split at hw
  · next t xs =>
    rw [widen_eq_ok] at hw
    simp only [Res.bind_eq_ok, Res.pure_eq, Res.ok.injEq] at hw
    obtain ⟨r, hr, rfl⟩ := hw
    exact Val.fin_arr.mpr (mapPrune_fin hf (flattenForProject_fin (Val.fin_arr.mp h)) hr)
  · cases hw; simp

theorem obj_values_fin {kvs : List (Bytes × Val)} (h : Val.Fin (.obj kvs) = true) : ∀ x ∈ kvs.map Prod.snd, Val.Fin x = true := by
  intro x hx
  obtain ⟨⟨k, x'⟩, hm, rfl⟩ := List.mem_map.mp hx
  exact Val.fin_obj.mp h k x' hm

theorem projectObject_fin {f : Val → Res Val} (hf : FinFun f) {v w : Val} (h : Val.Fin v = true)
    (hw : projectObject f v = .ok w) : Val.Fin w = true := by
  unfold projectObject at hw
  split at hw
  · next kvs =>
    simp only at hw
    rw [widen_eq_ok] at hw
    simp only [Res.bind_eq_ok, Res.pure_eq, Res.ok.injEq] at hw
    obtain ⟨r, hr, rfl⟩ := hw
    exact Val.fin_arr.mpr (mapPrune_fin hf (obj_values_fin h) hr)
  · cases hw; simp


/-! groups -/
def GroupsFin (gs : List (Bytes × List Val)) : Prop := ∀ k g, (k, g) ∈ gs → ∀ x ∈ g, Val.Fin x = true

theorem groupInsert_fin {s : Bytes} {v : Val} (hv : Val.Fin v = true) : ∀ {gs : List (Bytes × List Val)}, GroupsFin gs →
    GroupsFin (groupInsert s v gs)
  | [], _ => by
    intro k g hm x hx
    simp only [groupInsert, List.mem_singleton, Prod.mk.injEq] at hm
    obtain ⟨_, rfl⟩ := hm
    simp at hx; subst hx; exact hv
  | (k', g') :: rest, h => by
    have hrest : GroupsFin rest := fun k g hm => h k g (List.mem_cons_of_mem _ hm)
    have hhead := h k' g' (List.mem_cons_self ..)
    intro k g hm x hx
    simp only [groupInsert] at hm
    split at hm
    · rcases List.mem_cons.mp hm with e | hm
      · cases e
        rcases List.mem_append.mp hx with hx | hx
        · exact hhead x hx
        · simp at hx; subst hx; exact hv
      · exact hrest k g hm x hx
    · split at hm
      · rcases List.mem_cons.mp hm with e | hm
        · cases e; simp at hx; subst hx; exact hv
        · exact h k g hm x hx
      · rcases List.mem_cons.mp hm with e | hm
        · cases e; exact hhead x hx
        · exact groupInsert_fin hv hrest k g hm x hx

theorem groupLoop_fin {f : Val → Res Val} : ∀ {xs : List Val} {acc r : List (Bytes × List Val)},
    (∀ x ∈ xs, Val.Fin x = true) → GroupsFin acc → groupLoop f xs acc = .ok r → GroupsFin r
  | [], acc, r, _, hacc, h => by simp [groupLoop] at h; subst h; exact hacc
  | x :: xs, acc, r, hx, hacc, h => by
    simp only [groupLoop, Res.bind_eq_ok] at h
    obtain ⟨rv, _, h⟩ := h
    split at h
    · exact groupLoop_fin (fun y hy => hx y (List.mem_cons_of_mem _ hy))
        (groupInsert_fin (hx x (List.mem_cons_self ..)) hacc) h
    · simp [errType] at h

theorem groupBy_fin {f : Val → Res Val} {v w : Val} (h : Val.Fin v = true) (hw : groupBy f v = .ok w) : Val.Fin w = true := by
  unfold groupBy at hw
  split at hw
  · next t xs =>
    split at hw
    · cases hw; simp
    · rw [widen_eq_ok] at hw
      simp only [Res.bind_eq_ok, Res.pure_eq, Res.ok.injEq] at hw
      obtain ⟨gs, hgs, rfl⟩ := hw
      have := groupLoop_fin (Val.fin_arr.mp h) (fun _ _ hm => by simp at hm) hgs
      rw [Val.fin_obj]
      intro k x hm
      obtain ⟨⟨k', g⟩, hm', e⟩ := List.mem_map.mp hm
      cases e
      exact Val.fin_arr.mpr (this k' g hm')
  · simp [errType] at hw


theorem arrayPickBy_fin {better : Key → Key → Bool} {f : Val → Res Val} {v w : Val} (h : Val.Fin v = true)
    (hw : arrayPickBy better f v = .ok w) : Val.Fin w = true := by
  unfold arrayPickBy at hw
  split at hw
  · next t xs =>
    split at hw
    · cases hw; simp
    · next x0 rest =>
      rw [widen_eq_ok] at hw
      simp only [Res.bind_eq_ok] at hw
      obtain ⟨ks, _, hw⟩ := hw
      split at hw
      · cases hw; simp
      · next k0 krest _ =>
        split at hw
        · simp at hw
        · cases hw
          have hall := Val.fin_arr.mp h
          rcases pickBy_mem better (rest.zip krest) x0 k0 with e | ⟨p, hp, e⟩
          · rw [e]; exact hall x0 (List.mem_cons_self ..)
          · rw [e]; exact hall p.1 (List.mem_cons_of_mem _ (List.of_mem_zip (show (p.1, p.2) ∈ rest.zip krest from hp)).1)
  · simp [errType] at hw

theorem sortArrayBy_fin {f : Val → Res Val} {v w : Val} (h : Val.Fin v = true)
    (hw : sortArrayBy f v = .ok w) : Val.Fin w = true := by
  unfold sortArrayBy at hw
  split at hw
  · next t xs =>
    split at hw
    · cases hw; exact h
    · rw [widen_eq_ok] at hw
      simp only [Res.bind_eq_ok] at hw
      obtain ⟨ks, _, hw⟩ := hw
      split at hw
      · simp at hw
      · cases hw
        rw [Val.fin_arr]
        intro x hx
        simp only [sortByKeys] at hx
        obtain ⟨p, hp, rfl⟩ := List.mem_map.mp hx
        have := List.mem_mergeSort.mp hp
        exact Val.fin_arr.mp h p.1 (List.of_mem_zip (show (p.1, p.2) ∈ xs.zip ks from this)).1
  · simp [errType] at hw

/-! objects -/
theorem objInsert_fin {k : Bytes} {v : Val} (hv : Val.Fin v = true) : ∀ {acc : List (Bytes × Val)},
    (∀ k' x, (k', x) ∈ acc → Val.Fin x = true) → ∀ k' x, (k', x) ∈ objInsert k v acc → Val.Fin x = true
  | [], _ => by
    intro k' x hm
    simp only [objInsert, List.mem_singleton, Prod.mk.injEq] at hm
    obtain ⟨_, rfl⟩ := hm; exact hv
  | (k0, v0) :: rest, h => by
    intro k' x hm
    simp only [objInsert] at hm
    split at hm
    · rcases List.mem_cons.mp hm with e | hm
      · cases e; exact hv
      · exact h k' x (List.mem_cons_of_mem _ hm)
    · split at hm
      · rcases List.mem_cons.mp hm with e | hm
        · cases e; exact hv
        · exact h k' x hm
      · rcases List.mem_cons.mp hm with e | hm
        · cases e; exact h k0 v0 (List.mem_cons_self ..)
        · exact objInsert_fin hv (fun k'' x' hm' => h k'' x' (List.mem_cons_of_mem _ hm')) k' x hm

theorem foldl_objInsert_fin : ∀ {kvs acc : List (Bytes × Val)}, (∀ k x, (k, x) ∈ kvs → Val.Fin x = true) →
    (∀ k x, (k, x) ∈ acc → Val.Fin x = true) →
    ∀ k x, (k, x) ∈ kvs.foldl (fun a kv => objInsert kv.1 kv.2 a) acc → Val.Fin x = true
  | [], acc, _, hacc => by simpa using hacc
  | (k0, v0) :: rest, acc, hk, hacc => by
    simp only [List.foldl_cons]
    exact foldl_objInsert_fin (fun k x hm => hk k x (List.mem_cons_of_mem _ hm))
      (objInsert_fin (hk k0 v0 (List.mem_cons_self ..)) hacc)

theorem combineUnordered_fin {acc : Res (List (Bytes × Val))} {k : Bytes} {r : Res Val} {out : List (Bytes × Val)}
    (hacc : ∀ kvs, acc = .ok kvs → ∀ k x, (k, x) ∈ kvs → Val.Fin x = true) (hr : ∀ v, r = .ok v → Val.Fin v = true)
    (h : combineUnordered acc k r = .ok out) : ∀ k x, (k, x) ∈ out → Val.Fin x = true := by
  cases acc <;> cases r <;> simp [combineUnordered] at h
  subst h
  exact objInsert_fin (hr _ rfl) (hacc _ rfl)

/-! zip -/
theorem zipArgs_fin : ∀ {vs : List Val} {cols : List (List Val)}, (∀ v ∈ vs, Val.Fin v = true) → zipArgs vs = .ok cols →
    ∀ c ∈ cols, ∀ x ∈ c, Val.Fin x = true
  | [], cols, _, h => by simp [zipArgs] at h; subst h; simp
  | .arr t xs :: rest, cols, hv, h => by
    simp only [zipArgs, Res.bind_eq_ok] at h
    obtain ⟨cols', hc, h⟩ := h
    split at h
    · simp at h
    · simp only [Res.pure_eq, Res.ok.injEq] at h
      subst h
      have ih := zipArgs_fin (fun v hv' => hv v (List.mem_cons_of_mem _ hv')) hc
      intro c hc'
      rcases List.mem_cons.mp hc' with rfl | hc'
      · exact Val.fin_arr.mp (hv _ (List.mem_cons_self ..))
      · exact ih c hc'
  | .null :: _, _, _, h => by simp [zipArgs, errType] at h
  | .bool _ :: _, _, _, h => by simp [zipArgs, errType] at h
  | .str _ :: _, _, _, h => by simp [zipArgs, errType] at h
  | .num _ :: _, _, _, h => by simp [zipArgs, errType] at h
  | .obj _ :: _, _, _, h => by simp [zipArgs, errType] at h
  | .foreign _ :: _, _, _, h => by simp [zipArgs, errType] at h

theorem zipRows_fin : ∀ (n : Nat) {cols : List (List Val)}, (∀ c ∈ cols, ∀ x ∈ c, Val.Fin x = true) →
    ∀ y ∈ zipRows n cols, Val.Fin y = true
  | 0, _, _ => by simp [zipRows]
  | n + 1, cols, h => by
    intro y hy
    simp only [zipRows, List.mem_cons] at hy
    rcases hy with rfl | hy
    · rw [Val.fin_arr]
      intro x hx
      obtain ⟨c, hc, rfl⟩ := List.mem_map.mp hx
      cases c with
      | nil => simp
      | cons a c' => exact h _ hc a (List.mem_cons_self ..)
    · refine zipRows_fin n ?_ y hy
      intro c hc x hx
      obtain ⟨c0, hc0, rfl⟩ := List.mem_map.mp hc
      exact h c0 hc0 x (List.mem_of_mem_tail hx)


theorem strsToArr_fin (ss : List Bytes) : Val.Fin (strsToArr ss) = true := by
  unfold strsToArr
  rw [Val.fin_arr]
  intro x hx
  obtain ⟨s, _, rfl⟩ := List.mem_map.mp hx
  simp

theorem runeIndexVal_fin (s : Bytes) (n : Nat) : Val.Fin (runeIndexVal s n) = true := by simp [runeIndexVal]

theorem strVal_fin (s : String) : Val.Fin (strVal s) = true := by simp [strVal]

set_option hygiene false in
/-- peel binds / matches off a hypothesis `hw : … = .ok w` and close the leaves -/
macro "fin_leaves" : tactic => `(tactic|
  (repeat' (first
     | (simp only [Res.bind_eq_ok, Res.pure_eq] at hw)
     | (obtain ⟨_, _, hw⟩ := hw)
     | (split at hw))
   all_goals (first
     | (simp [errType, errValue] at hw; done)
     | ((try simp only [Res.ok.injEq] at hw); (try subst hw);
        first | (simp; done) | (simp [Val.fin_arr]; done) | exact strsToArr_fin _ | exact runeIndexVal_fin _ _ | exact strVal_fin _ | assumption))))

theorem startsWith_fin {a b w : Val} (hw : startsWith a b = .ok w) : Val.Fin w = true := by
  unfold startsWith at hw; fin_leaves
theorem endsWith_fin {a b w : Val} (hw : endsWith a b = .ok w) : Val.Fin w = true := by
  unfold endsWith at hw; fin_leaves
theorem findFirst_fin {a b w : Val} (hw : findFirst a b = .ok w) : Val.Fin w = true := by
  unfold findFirst at hw; fin_leaves
theorem findLast_fin {a b w : Val} (hw : findLast a b = .ok w) : Val.Fin w = true := by
  unfold findLast at hw; fin_leaves
theorem findFrom_fin {l : Bool} {a b c w : Val} (hw : findFrom l a b c = .ok w) : Val.Fin w = true := by
  unfold findFrom at hw; fin_leaves
theorem findBetween_fin {l : Bool} {a b c d w : Val} (hw : findBetween l a b c d = .ok w) : Val.Fin w = true := by
  unfold findBetween at hw; fin_leaves
theorem join_fin {a b w : Val} (hw : join a b = .ok w) : Val.Fin w = true := by
  unfold join at hw; fin_leaves
theorem padWith_fin {l : Bool} {s : Bytes} {n : Int} {p : Bytes} {orig w : Val} (ho : Val.Fin orig = true)
    (hw : padWith l s n p orig = .ok w) : Val.Fin w = true := by
  unfold padWith at hw; fin_leaves
theorem padLeft_fin {a b c w : Val} (ha : Val.Fin a = true) (hw : padLeft a b c = .ok w) : Val.Fin w = true := by
  unfold padLeft at hw
  simp only [Res.bind_eq_ok] at hw
  obtain ⟨_, _, _, _, _, _, hw⟩ := hw
  exact padWith_fin ha hw
theorem padRight_fin {a b c w : Val} (ha : Val.Fin a = true) (hw : padRight a b c = .ok w) : Val.Fin w = true := by
  unfold padRight at hw
  simp only [Res.bind_eq_ok] at hw
  obtain ⟨_, _, _, _, _, _, hw⟩ := hw
  exact padWith_fin ha hw
theorem padSpaceLeft_fin {a b w : Val} (ha : Val.Fin a = true) (hw : padSpaceLeft a b = .ok w) : Val.Fin w = true := by
  unfold padSpaceLeft at hw
  simp only [Res.bind_eq_ok] at hw
  obtain ⟨_, _, _, _, hw⟩ := hw
  exact padWith_fin ha hw
theorem padSpaceRight_fin {a b w : Val} (ha : Val.Fin a = true) (hw : padSpaceRight a b = .ok w) : Val.Fin w = true := by
  unfold padSpaceRight at hw
  simp only [Res.bind_eq_ok] at hw
  obtain ⟨_, _, _, _, hw⟩ := hw
  exact padWith_fin ha hw
theorem replace_fin {a b c w : Val} (hw : replace a b c = .ok w) : Val.Fin w = true := by
  unfold replace at hw; fin_leaves
theorem replaceCount_fin {a b c d w : Val} (hw : replaceCount a b c d = .ok w) : Val.Fin w = true := by
  unfold replaceCount at hw; fin_leaves
theorem split_fin {a b w : Val} (hw : split a b = .ok w) : Val.Fin w = true := by
  unfold split at hw; fin_leaves
theorem splitCount_fin {a b c w : Val} (hw : splitCount a b c = .ok w) : Val.Fin w = true := by
  unfold splitCount at hw; fin_leaves
theorem trim_fin {a b w : Val} (hw : trim a b = .ok w) : Val.Fin w = true := by
  unfold trim at hw; fin_leaves
theorem trimLeft_fin {a b w : Val} (hw : trimLeft a b = .ok w) : Val.Fin w = true := by
  unfold trimLeft at hw; fin_leaves
theorem trimRight_fin {a b w : Val} (hw : trimRight a b = .ok w) : Val.Fin w = true := by
  unfold trimRight at hw; fin_leaves
theorem trimSpace_fin {a w : Val} (hw : trimSpace a = .ok w) : Val.Fin w = true := by
  unfold trimSpace at hw; fin_leaves
theorem trimSpaceLeft_fin {a w : Val} (hw : trimSpaceLeft a = .ok w) : Val.Fin w = true := by
  unfold trimSpaceLeft at hw; fin_leaves
theorem trimSpaceRight_fin {a w : Val} (hw : trimSpaceRight a = .ok w) : Val.Fin w = true := by
  unfold trimSpaceRight at hw; fin_leaves
theorem caseMap_fin {f : Nat → Option Nat} {s : Bytes} {w : Val} (hw : caseMap f s = .ok w) : Val.Fin w = true := by
  unfold caseMap at hw; fin_leaves
theorem lower_fin {a w : Val} (hw : lower a = .ok w) : Val.Fin w = true := by
  unfold lower at hw
  split at hw
  · exact caseMap_fin hw
  · simp [errType] at hw
theorem upper_fin {a w : Val} (hw : upper a = .ok w) : Val.Fin w = true := by
  unfold upper at hw
  split at hw
  · exact caseMap_fin hw
  · simp [errType] at hw
theorem length_fin {a w : Val} (hw : length a = .ok w) : Val.Fin w = true := by
  unfold length at hw; fin_leaves
theorem typeName_fin {a w : Val} (hw : typeName a = .ok w) : Val.Fin w = true := by
  unfold typeName at hw; fin_leaves
theorem toStringV_fin {a w : Val} (hw : toStringV a = .ok w) : Val.Fin w = true := by
  unfold toStringV at hw; fin_leaves
theorem contains_fin {a b w : Val} (hw : contains a b = .ok w) : Val.Fin w = true := by
  unfold contains at hw; fin_leaves
theorem keys_fin {a w : Val} (hw : keys a = .ok w) : Val.Fin w = true := by
  unfold keys at hw
  split at hw
  · cases hw
    rw [Val.fin_arr]; intro x hx
    obtain ⟨_, _, rfl⟩ := List.mem_map.mp hx; simp
  · simp [errType] at hw


theorem values_fin {a w : Val} (h : Val.Fin a = true) (hw : values a = .ok w) : Val.Fin w = true := by
  unfold values at hw
  split at hw
  · cases hw
    rw [Val.fin_arr]; intro x hx
    obtain ⟨⟨k, x'⟩, hm, rfl⟩ := List.mem_map.mp hx
    exact Val.fin_obj.mp h k x' hm
  · simp [errType] at hw

theorem items_fin {a w : Val} (h : Val.Fin a = true) (hw : items a = .ok w) : Val.Fin w = true := by
  unfold items at hw
  split at hw
  · cases hw
    rw [Val.fin_arr]; intro x hx
    obtain ⟨⟨k, x'⟩, hm, rfl⟩ := List.mem_map.mp hx
    rw [Val.fin_arr]; intro y hy
    simp only [List.mem_cons, List.not_mem_nil, or_false] at hy
    rcases hy with hy | hy
    · subst hy; simp
    · subst hy; exact Val.fin_obj.mp h k _ hm
  · simp [errType] at hw

theorem fromItemsLoop_fin : ∀ {xs : List Val} {acc r : List (Bytes × Val)}, (∀ x ∈ xs, Val.Fin x = true) →
    (∀ k x, (k, x) ∈ acc → Val.Fin x = true) → fromItemsLoop xs acc = .ok r → ∀ k x, (k, x) ∈ r → Val.Fin x = true
  | [], acc, r, _, hacc, h => by simp [fromItemsLoop] at h; subst h; exact hacc
  | .arr t ia :: xs, acc, r, hx, hacc, h => by
    have hx' : ∀ y ∈ xs, Val.Fin y = true := fun y hy => hx y (List.mem_cons_of_mem _ hy)
    have h0 := hx _ (List.mem_cons_self ..)
    simp only [fromItemsLoop] at h
    split at h
    · next k v =>
      split at h
      · simp at h
      · split at h
        · next s =>
          have hv : Val.Fin v = true := Val.fin_arr.mp h0 v (by simp)
          exact fromItemsLoop_fin hx' (objInsert_fin hv hacc) h
        · simp [errValue] at h
    · simp [errValue] at h
  | .null :: _, _, _, _, _, h => by simp [fromItemsLoop, errType] at h
  | .bool _ :: _, _, _, _, _, h => by simp [fromItemsLoop, errType] at h
  | .str _ :: _, _, _, _, _, h => by simp [fromItemsLoop, errType] at h
  | .num _ :: _, _, _, _, _, h => by simp [fromItemsLoop, errType] at h
  | .obj _ :: _, _, _, _, _, h => by simp [fromItemsLoop, errType] at h
  | .foreign _ :: _, _, _, _, _, h => by simp [fromItemsLoop, errType] at h

theorem fromItems_fin {a w : Val} (h : Val.Fin a = true) (hw : fromItems a = .ok w) : Val.Fin w = true := by
  unfold fromItems at hw
  split at hw
  · next t xs =>
    split at hw
    · next kvs hl =>
      split at hw
      · simp at hw
      · cases hw
        exact Val.fin_obj.mpr (fromItemsLoop_fin (Val.fin_arr.mp h) (by simp) hl)
    · split at hw <;> simp at hw
    · simp at hw
    · simp at hw
    · simp at hw
  · simp [errType] at hw

theorem reverse_fin {a w : Val} (h : Val.Fin a = true) (hw : reverse a = .ok w) : Val.Fin w = true := by
  unfold reverse at hw
  split at hw
  · cases hw; simp
  · cases hw
    rw [Val.fin_arr]; intro x hx
    exact Val.fin_arr.mp h x (List.mem_reverse.mp hx)
  · simp [errType] at hw

theorem toArray_fin {a : Val} (h : Val.Fin a = true) : Val.Fin (toArray a) = true := by
  unfold toArray
  split
  · exact h
  · rw [Val.fin_arr]; intro x hx; simp at hx; subst hx; exact h

theorem sortArray_fin {a w : Val} (h : Val.Fin a = true) (hw : sortArray a = .ok w) : Val.Fin w = true := by
  unfold sortArray at hw
  split at hw
  · next t xs =>
    split at hw
    · cases hw; exact h
    · split at hw
      · cases hw
        rw [Val.fin_arr]; intro x hx
        obtain ⟨_, _, rfl⟩ := List.mem_map.mp hx; simp
      · simp [errType] at hw
    · split at hw
      · next ds _ =>
        simp only at hw
        split at hw
        · simp at hw
        · cases hw
          rw [Val.fin_arr]; intro x hx
          obtain ⟨p, hp, rfl⟩ := List.mem_map.mp hx
          have := List.mem_mergeSort.mp hp
          exact Val.fin_arr.mp h p.1 (List.of_mem_zip (show (p.1, p.2) ∈ xs.zip ds from this)).1
      · simp [errType] at hw
  · simp [errType] at hw


/-- comparison and arithmetic operators on a `Fin` left operand give a `Fin` result -/
theorem applyBinOp_fin {op : BinOp} {x y v : Val} (hx : x.Fin = true) (h : applyBinOp op x y = .ok v) :
    v.Fin = true := by
  cases op
  case eq | ne =>
    simp only [applyBinOp, Res.bind_eq_ok, Res.pure_eq, Res.ok.injEq] at h
    obtain ⟨_, _, rfl⟩ := h; simp
  case lt | le | gt | ge =>
    simp only [applyBinOp, less, lessOrEqual, greater, greaterOrEqual, cmpOp, Res.ok.injEq] at h
    subst h
    split
    · simp
    · split <;> simp
  all_goals exact arith_fin h hx

/-- every builtin maps `Fin` arguments to a `Fin` result -/
theorem applyFn_fin {f : Fn} {args : List Val} {w : Val} (ha : ∀ a ∈ args, Val.Fin a = true)
    (hw : applyFn f args = .ok w) : Val.Fin w = true := by
  have h0 : ∀ {a : Val} {l : List Val}, args = a :: l → Val.Fin a = true := fun e => ha _ (e ▸ List.mem_cons_self ..)
  unfold applyFn at hw
  split at hw
  · exact numAbs_fin (h0 rfl) hw
  · exact numAvg_fin hw
  · exact numCeil_fin (h0 rfl) hw
  · exact contains_fin hw
  · exact endsWith_fin hw
  · exact findFirst_fin hw
  · exact findBetween_fin hw
  · exact findFrom_fin hw
  · exact findLast_fin hw
  · exact findBetween_fin hw
  · exact findFrom_fin hw
  · exact numFloor_fin (h0 rfl) hw
  · exact fromItems_fin (h0 rfl) hw
  · exact items_fin (h0 rfl) hw
  · exact join_fin hw
  · exact keys_fin hw
  · exact length_fin hw
  · exact lower_fin hw
  · exact arrayMax_fin (h0 rfl) hw
  · exact arrayMin_fin (h0 rfl) hw
  · exact padLeft_fin (h0 rfl) hw
  · exact padRight_fin (h0 rfl) hw
  · exact padSpaceLeft_fin (h0 rfl) hw
  · exact padSpaceRight_fin (h0 rfl) hw
  · exact replace_fin hw
  · exact replaceCount_fin hw
  · exact reverse_fin (h0 rfl) hw
  · exact sortArray_fin (h0 rfl) hw
  · exact split_fin hw
  · exact splitCount_fin hw
  · exact startsWith_fin hw
  · exact numSum_fin hw
  · cases hw; exact toArray_fin (h0 rfl)
  · cases hw; exact toNumber_fin (h0 rfl)
  · exact toStringV_fin hw
  · exact trim_fin hw
  · exact trimLeft_fin hw
  · exact trimRight_fin hw
  · exact trimSpace_fin hw
  · exact trimSpaceLeft_fin hw
  · exact trimSpaceRight_fin hw
  · exact typeName_fin hw
  · exact upper_fin hw
  · exact values_fin (h0 rfl) hw
  · simp at hw


/-- every binding of the environment is Fin -/
def EnvFinP (env : Env) : Prop := ∀ k x, (k, x) ∈ env → Val.Fin x = true

mutual
/-- every literal of the expression is Fin -/
def TLits : Tree → Prop
  | .lit v => Val.Fin v = true
  | .current | .root | .field _ | .var _ | .index _ | .slice _ _ | .sliceStep _ _ _ => True
  | .sub l r | .binop _ l r | .and l r | .or l r | .proj l r | .sliceProj l r | .flatProj l r | .valueProj l r
  | .groupBy l r | .map l r | .maxBy l r | .minBy l r | .sortBy l r => TLits l ∧ TLits r
  | .not c | .neg c | .pos c | .prune c => TLits c
  | .filterProj l c r => TLits l ∧ TLits c ∧ TLits r
  | .call _ args | .multiList _ args | .merge args | .notNull args | .zip args => TLitsL args
  | .multiHash _ kvs => TLitsF kvs
  | .letIn bs body => TLitsF bs ∧ TLits body
def TLitsL : List Tree → Prop
  | [] => True
  | t :: ts => TLits t ∧ TLitsL ts
def TLitsF : List (Bytes × Tree) → Prop
  | [] => True
  | (_, t) :: rest => TLits t ∧ TLitsF rest
end

theorem envGet_fin {env : Env} (h : EnvFinP env) {x : Bytes} {v : Val} (hv : env.get x = some v) : Val.Fin v = true :=
  h x v (objLookup_mem hv)

mutual
/-- the reference semantics maps `Fin` inputs (document, current value, environment, literals) to `Fin` results -/
theorem seval_fin (root : Val) (hr : Val.Fin root = true) : (t : Tree) → (cur : Val) → (env : Env) → TLits t → Val.Fin cur = true →
    EnvFinP env → ∀ w, seval root t cur env = .ok w → Val.Fin w = true
  | .lit v, cur, env, hl, hc, he, w, hw => by
    simp only [seval, Res.ok.injEq] at hw; subst hw; simpa [TLits] using hl
  | .current, cur, env, hl, hc, he, w, hw => by
    simp only [seval, Res.ok.injEq] at hw; subst hw; exact hc
  | .root, cur, env, hl, hc, he, w, hw => by
    simp only [seval, Res.ok.injEq] at hw; subst hw; exact hr
  | .field k, cur, env, hl, hc, he, w, hw => by
    simp only [seval, Res.ok.injEq] at hw; subst hw; exact field_fin k hc
  | .var x, cur, env, hl, hc, he, w, hw => by
    simp only [seval] at hw
    split at hw
    · next v hv => simp only [Res.ok.injEq] at hw; subst hw; exact envGet_fin he hv
    · simp at hw
  | .index i, cur, env, hl, hc, he, w, hw => by
    simp only [seval] at hw; exact index_fin hc hw
  | .slice a b, cur, env, hl, hc, he, w, hw => by
    simp only [seval] at hw; exact slice_fin hc hw
  | .sliceStep a b s, cur, env, hl, hc, he, w, hw => by
    simp only [seval] at hw; exact sliceStep_fin hc hw
  | .sub l r, cur, env, hl, hc, he, w, hw => by
    simp only [TLits] at hl
    simp only [seval, Res.bind_eq_ok] at hw
    obtain ⟨a, ha, hw⟩ := hw
    exact seval_fin root hr r a env hl.2 (seval_fin root hr l cur env hl.1 hc he a ha) he w hw
  | .binop op l r, cur, env, hl, hc, he, w, hw => by
    simp only [TLits] at hl
    simp only [seval, Res.bind_eq_ok] at hw
    obtain ⟨a, ha, b, hb, hw⟩ := hw
    exact applyBinOp_fin (seval_fin root hr l cur env hl.1 hc he a ha) hw
  | .and l r, cur, env, hl, hc, he, w, hw => by
    simp only [TLits] at hl
    simp only [seval, Res.bind_eq_ok] at hw
    obtain ⟨a, ha, hw⟩ := hw
    split at hw
    · simp only [Res.pure_eq, Res.ok.injEq] at hw; subst hw; exact seval_fin root hr l cur env hl.1 hc he a ha
    · exact seval_fin root hr r cur env hl.2 hc he w hw
  | .or l r, cur, env, hl, hc, he, w, hw => by
    simp only [TLits] at hl
    simp only [seval, Res.bind_eq_ok] at hw
    obtain ⟨a, ha, hw⟩ := hw
    split at hw
    · simp only [Res.pure_eq, Res.ok.injEq] at hw; subst hw; exact seval_fin root hr l cur env hl.1 hc he a ha
    · exact seval_fin root hr r cur env hl.2 hc he w hw
  | .not c, cur, env, hl, hc, he, w, hw => by
    simp only [seval, Res.bind_eq_ok, Res.pure_eq, Res.ok.injEq] at hw
    obtain ⟨a, _, rfl⟩ := hw; simp
  | .neg c, cur, env, hl, hc, he, w, hw => by
    simp only [TLits] at hl
    simp only [seval, Res.bind_eq_ok, Res.pure_eq, Res.ok.injEq] at hw
    obtain ⟨a, ha, rfl⟩ := hw
    exact negateVal_fin (seval_fin root hr c cur env hl hc he a ha)
  | .pos c, cur, env, hl, hc, he, w, hw => by
    simp only [TLits] at hl
    simp only [seval, Res.bind_eq_ok, Res.pure_eq, Res.ok.injEq] at hw
    obtain ⟨a, ha, rfl⟩ := hw
    split
    · exact seval_fin root hr c cur env hl hc he a ha
    · simp
  | .call f args, cur, env, hl, hc, he, w, hw => by
    simp only [TLits] at hl
    simp only [seval, Res.bind_eq_ok] at hw
    obtain ⟨vs, hvs, hw⟩ := hw
    exact applyFn_fin (sevalList_fin root hr args cur env hl hc he vs hvs) hw
  | .prune l, cur, env, hl, hc, he, w, hw => by
    simp only [TLits] at hl
    simp only [seval, Res.bind_eq_ok, Res.pure_eq, Res.ok.injEq] at hw
    obtain ⟨a, ha, rfl⟩ := hw
    exact pruneArray_fin (seval_fin root hr l cur env hl hc he a ha)
  | .proj l r, cur, env, hl, hc, he, w, hw => by
    simp only [TLits] at hl
    simp only [seval, Res.bind_eq_ok] at hw
    obtain ⟨a, ha, hw⟩ := hw
    exact projectArray_fin (fun x hx v hv => seval_fin root hr r x env hl.2 hx he v hv)
      (seval_fin root hr l cur env hl.1 hc he a ha) hw
  | .sliceProj l r, cur, env, hl, hc, he, w, hw => by
    simp only [TLits] at hl
    simp only [seval, Res.bind_eq_ok] at hw
    obtain ⟨a, ha, hw⟩ := hw
    have hna := seval_fin root hr l cur env hl.1 hc he a ha
    split at hw
    · exact seval_fin root hr r _ env hl.2 hna he w hw
    · exact projectArray_fin (fun x hx v hv => seval_fin root hr r x env hl.2 hx he v hv) hna hw
  | .flatProj l r, cur, env, hl, hc, he, w, hw => by
    simp only [TLits] at hl
    simp only [seval, Res.bind_eq_ok] at hw
    obtain ⟨a, ha, hw⟩ := hw
    exact flattenAndProjectArray_fin (fun x hx v hv => seval_fin root hr r x env hl.2 hx he v hv)
      (seval_fin root hr l cur env hl.1 hc he a ha) hw
  | .filterProj l c r, cur, env, hl, hc, he, w, hw => by
    simp only [TLits] at hl
    simp only [seval, Res.bind_eq_ok] at hw
    obtain ⟨a, ha, hw⟩ := hw
    exact filterAndProjectArray_fin (fun x hx v hv => seval_fin root hr r x env hl.2.2 hx he v hv)
      (seval_fin root hr l cur env hl.1 hc he a ha) hw
  | .valueProj l r, cur, env, hl, hc, he, w, hw => by
    simp only [TLits] at hl
    simp only [seval, Res.bind_eq_ok] at hw
    obtain ⟨a, ha, hw⟩ := hw
    exact projectObject_fin (fun x hx v hv => seval_fin root hr r x env hl.2 hx he v hv)
      (seval_fin root hr l cur env hl.1 hc he a ha) hw
  | .multiList chk es, cur, env, hl, hc, he, w, hw => by
    simp only [TLits] at hl
    simp only [seval] at hw
    split at hw
    · simp only [Res.ok.injEq] at hw; subst hw; simp
    · simp only [Res.bind_eq_ok, Res.pure_eq, Res.ok.injEq] at hw
      obtain ⟨vs, hvs, rfl⟩ := hw
      exact Val.fin_arr.mpr (sevalList_fin root hr es cur env hl hc he vs hvs)
  | .multiHash chk kvs, cur, env, hl, hc, he, w, hw => by
    simp only [TLits] at hl
    simp only [seval] at hw
    split at hw
    · simp only [Res.ok.injEq] at hw; subst hw; simp
    · simp only [Res.bind_eq_ok, Res.pure_eq, Res.ok.injEq] at hw
      obtain ⟨fs, hfs, rfl⟩ := hw
      exact Val.fin_obj.mpr (sevalFields_fin root hr kvs cur env hl hc he fs hfs)
  | .letIn bs body, cur, env, hl, hc, he, w, hw => by
    simp only [TLits] at hl
    simp only [seval, Res.bind_eq_ok] at hw
    obtain ⟨vs, hvs, hw⟩ := hw
    have hvs' := sevalFields_fin root hr bs cur env hl.1 hc he vs hvs
    refine seval_fin root hr body cur (vs ++ env) hl.2 hc ?_ w hw
    intro k x hm
    rcases List.mem_append.mp hm with hm | hm
    · exact hvs' k x hm
    · exact he k x hm
  | .groupBy a e, cur, env, hl, hc, he, w, hw => by
    simp only [TLits] at hl
    simp only [seval, Res.bind_eq_ok] at hw
    obtain ⟨v, hv, hw⟩ := hw
    exact groupBy_fin (seval_fin root hr a cur env hl.1 hc he v hv) hw
  | .map e a, cur, env, hl, hc, he, w, hw => by
    simp only [TLits] at hl
    simp only [seval, Res.bind_eq_ok] at hw
    obtain ⟨v, hv, hw⟩ := hw
    exact mapArray_fin (fun x hx v hv => seval_fin root hr e x env hl.1 hx he v hv)
      (seval_fin root hr a cur env hl.2 hc he v hv) hw
  | .maxBy a e, cur, env, hl, hc, he, w, hw => by
    simp only [TLits] at hl
    simp only [seval, Res.bind_eq_ok] at hw
    obtain ⟨v, hv, hw⟩ := hw
    exact arrayPickBy_fin (seval_fin root hr a cur env hl.1 hc he v hv) hw
  | .minBy a e, cur, env, hl, hc, he, w, hw => by
    simp only [TLits] at hl
    simp only [seval, Res.bind_eq_ok] at hw
    obtain ⟨v, hv, hw⟩ := hw
    exact arrayPickBy_fin (seval_fin root hr a cur env hl.1 hc he v hv) hw
  | .sortBy a e, cur, env, hl, hc, he, w, hw => by
    simp only [TLits] at hl
    simp only [seval, Res.bind_eq_ok] at hw
    obtain ⟨v, hv, hw⟩ := hw
    exact sortArrayBy_fin (seval_fin root hr a cur env hl.1 hc he v hv) hw
  | .merge args, cur, env, hl, hc, he, w, hw => by
    simp only [TLits] at hl
    simp only [seval, Res.bind_eq_ok, Res.pure_eq, Res.ok.injEq] at hw
    obtain ⟨kvs, hk, rfl⟩ := hw
    exact Val.fin_obj.mpr (sevalMerge_fin root hr args cur env [] hl hc he (by simp) kvs hk)
  | .notNull args, cur, env, hl, hc, he, w, hw => by
    simp only [TLits] at hl
    simp only [seval] at hw
    exact sevalNotNull_fin root hr args cur env hl hc he w hw
  | .zip args, cur, env, hl, hc, he, w, hw => by
    simp only [TLits] at hl
    simp only [seval, Res.bind_eq_ok] at hw
    obtain ⟨vs, hvs, cols, hcols, hw⟩ := hw
    have hcn := zipArgs_fin (sevalZip_fin root hr args cur env hl hc he vs hvs) hcols
    split at hw
    · simp only [Res.pure_eq, Res.ok.injEq] at hw; subst hw; simp [Val.fin_arr]
    · simp only [Res.pure_eq, Res.ok.injEq] at hw; subst hw
      exact Val.fin_arr.mpr (zipRows_fin _ hcn)
theorem sevalList_fin (root : Val) (hr : Val.Fin root = true) : (ts : List Tree) → (cur : Val) → (env : Env) →
    TLitsL ts → Val.Fin cur = true → EnvFinP env → ∀ vs, sevalList root ts cur env = .ok vs → ∀ v ∈ vs, Val.Fin v = true
  | [], cur, env, hl, hc, he, vs, hw => by
    simp only [sevalList, Res.ok.injEq] at hw; subst hw; simp
  | t :: ts, cur, env, hl, hc, he, vs, hw => by
    simp only [TLitsL] at hl
    simp only [sevalList, Res.bind_eq_ok, Res.pure_eq, Res.ok.injEq] at hw
    obtain ⟨v, hv, rest, hrest, rfl⟩ := hw
    intro y hy
    rcases List.mem_cons.mp hy with rfl | hy
    · exact seval_fin root hr t cur env hl.1 hc he _ hv
    · exact sevalList_fin root hr ts cur env hl.2 hc he rest hrest y hy
theorem sevalFields_fin (root : Val) (hr : Val.Fin root = true) : (fs : List (Bytes × Tree)) → (cur : Val) → (env : Env) →
    TLitsF fs → Val.Fin cur = true → EnvFinP env → ∀ kvs, sevalFields root fs cur env = .ok kvs →
    ∀ k x, (k, x) ∈ kvs → Val.Fin x = true
  | [], cur, env, hl, hc, he, kvs, hw => by
    simp only [sevalFields, Res.ok.injEq] at hw; subst hw; simp
  | (k, t) :: rest, cur, env, hl, hc, he, kvs, hw => by
    simp only [TLitsF] at hl
    simp only [sevalFields] at hw
    exact combineUnordered_fin (fun kvs' h' => sevalFields_fin root hr rest cur env hl.2 hc he kvs' h')
      (fun v hv => seval_fin root hr t cur env hl.1 hc he v hv) hw
theorem sevalMerge_fin (root : Val) (hr : Val.Fin root = true) : (ts : List Tree) → (cur : Val) → (env : Env) →
    (acc : List (Bytes × Val)) → TLitsL ts → Val.Fin cur = true → EnvFinP env → (∀ k x, (k, x) ∈ acc → Val.Fin x = true) →
    ∀ kvs, sevalMerge root ts cur env acc = .ok kvs → ∀ k x, (k, x) ∈ kvs → Val.Fin x = true
  | [], cur, env, acc, hl, hc, he, hacc, kvs, hw => by
    simp only [sevalMerge, Res.ok.injEq] at hw; subst hw; exact hacc
  | t :: ts, cur, env, acc, hl, hc, he, hacc, kvs, hw => by
    simp only [TLitsL] at hl
    simp only [sevalMerge, Res.bind_eq_ok] at hw
    obtain ⟨v, hv, hw⟩ := hw
    have hvn := seval_fin root hr t cur env hl.1 hc he v hv
    split at hw
    · exact sevalMerge_fin root hr ts cur env _ hl.2 hc he
        (foldl_objInsert_fin (Val.fin_obj.mp hvn) hacc) kvs hw
    · simp [errType] at hw
theorem sevalNotNull_fin (root : Val) (hr : Val.Fin root = true) : (ts : List Tree) → (cur : Val) → (env : Env) →
    TLitsL ts → Val.Fin cur = true → EnvFinP env → ∀ w, sevalNotNull root ts cur env = .ok w → Val.Fin w = true
  | [], cur, env, hl, hc, he, w, hw => by
    simp only [sevalNotNull, Res.ok.injEq] at hw; subst hw; simp
  | t :: ts, cur, env, hl, hc, he, w, hw => by
    simp only [TLitsL] at hl
    simp only [sevalNotNull, Res.bind_eq_ok] at hw
    obtain ⟨v, hv, hw⟩ := hw
    split at hw
    · exact sevalNotNull_fin root hr ts cur env hl.2 hc he w hw
    · simp only [Res.pure_eq, Res.ok.injEq] at hw; subst hw
      exact seval_fin root hr t cur env hl.1 hc he _ hv
theorem sevalZip_fin (root : Val) (hr : Val.Fin root = true) : (ts : List Tree) → (cur : Val) → (env : Env) →
    TLitsL ts → Val.Fin cur = true → EnvFinP env → ∀ vs, sevalZip root ts cur env = .ok vs → ∀ v ∈ vs, Val.Fin v = true
  | [], cur, env, hl, hc, he, vs, hw => by
    simp only [sevalZip, Res.ok.injEq] at hw; subst hw; simp
  | t :: ts, cur, env, hl, hc, he, vs, hw => by
    simp only [TLitsL] at hl
    simp only [sevalZip, Res.bind_eq_ok] at hw
    obtain ⟨v, hv, hw⟩ := hw
    have hvn := seval_fin root hr t cur env hl.1 hc he v hv
    split at hw
    · simp only [Res.bind_eq_ok, Res.pure_eq, Res.ok.injEq] at hw
      obtain ⟨rest, hrest, rfl⟩ := hw
      intro y hy
      rcases List.mem_cons.mp hy with rfl | hy
      · exact hvn
      · exact sevalZip_fin root hr ts cur env hl.2 hc he rest hrest y hy
    · simp [errType] at hw
end

/-! ### from the Bool traversal `INode.all (INode.litOk Val.Fin)` to the literal predicate on the reference syntax -/

mutual
/-- if every literal of the node is `Fin` (Bool traversal), every literal of its desugaring is `Fin` -/
theorem desugar_tlits : (n : INode) → n.all (INode.litOk Val.Fin) = true → TLits (desugar n)
  | .lit v, h => by
    simp only [INode.all, INode.litOk] at h
    simp only [desugar, TLits]
    exact h
  | .current, _ | .root, _ | .field _, _ | .variable _, _ | .flattenCurrent, _ | .indexCurrent _, _
  | .smallIndexCurrent _, _ | .objectValuesCurrent, _ | .pruneArrayCurrent, _ | .sliceCurrent _ _, _
  | .sliceStepCurrent _ _ _, _ => by simp [desugar, TLits]
  | .binop _ l r, h | .and l r, h | .or l r, h | .flattenAndProject l r, h | .pipe l r, h | .projectObject l r, h
  | .groupBy l r, h | .map l r, h | .maxBy l r, h | .minBy l r, h | .sortBy l r, h => by
    simp only [INode.all, Bool.and_eq_true] at h
    simp only [desugar, TLits]
    exact ⟨desugar_tlits l h.1.2, desugar_tlits r h.2⟩
  | .projectArray l r, h => by
    simp only [INode.all, Bool.and_eq_true] at h
    simp only [desugar]
    split <;> (simp only [TLits]; exact ⟨desugar_tlits l h.1.2, desugar_tlits r h.2⟩)
  | .filter l r, h => by
    simp only [INode.all, Bool.and_eq_true] at h
    simp only [desugar, TLits]
    exact ⟨desugar_tlits l h.1.2, desugar_tlits r h.2, trivial⟩
  | .filterAndProjectCurrent l r, h => by
    simp only [INode.all, Bool.and_eq_true] at h
    simp only [desugar, TLits]
    exact ⟨trivial, desugar_tlits l h.1.2, desugar_tlits r h.2⟩
  | .filterAndProject l f r, h => by
    simp only [INode.all, Bool.and_eq_true] at h
    simp only [desugar, TLits]
    exact ⟨desugar_tlits l h.1.1.2, desugar_tlits f h.1.2, desugar_tlits r h.2⟩
  | .filterCurrent c, h => by
    simp only [INode.all, Bool.and_eq_true] at h
    simp only [desugar, TLits]
    exact ⟨trivial, desugar_tlits c h.2, trivial⟩
  | .selectArraySingle l r, h => by
    simp only [INode.all, Bool.and_eq_true] at h
    simp only [desugar, TLits, TLitsL]
    exact ⟨desugar_tlits l h.1.2, desugar_tlits r h.2, trivial⟩
  | .selectObjectSingle l _ r, h => by
    simp only [INode.all, Bool.and_eq_true] at h
    simp only [desugar, TLits, TLitsF]
    exact ⟨desugar_tlits l h.1.2, desugar_tlits r h.2, trivial⟩
  | .not c, h | .negate c, h | .assertNumber c, h | .pruneArray c, h => by
    simp only [INode.all, Bool.and_eq_true] at h
    simp only [desugar, TLits]
    exact desugar_tlits c h.2
  | .flatten c, h | .objectValues c, h | .index c _, h | .slice c _ _, h | .sliceStep c _ _ _, h => by
    simp only [INode.all, Bool.and_eq_true] at h
    simp only [desugar, TLits]
    exact ⟨desugar_tlits c h.2, trivial⟩
  | .flattenAndProjectCurrent c, h | .projectArrayCurrent c, h | .projectObjectCurrent c, h => by
    simp only [INode.all, Bool.and_eq_true] at h
    simp only [desugar, TLits]
    exact ⟨trivial, desugar_tlits c h.2⟩
  | .selectArraySingleCurrent c, h => by
    simp only [INode.all, Bool.and_eq_true] at h
    simp only [desugar, TLits, TLitsL]
    exact ⟨desugar_tlits c h.2, trivial⟩
  | .selectObjectSingleCurrent _ c, h => by
    simp only [INode.all, Bool.and_eq_true] at h
    simp only [desugar, TLits, TLitsF]
    exact ⟨desugar_tlits c h.2, trivial⟩
  | .call _ args, h | .selectArrayCurrent args, h | .merge args, h | .notNull args, h | .zip args, h => by
    simp only [INode.all, Bool.and_eq_true] at h
    simp only [desugar, TLits]
    exact desugarList_tlits args h.2
  | .selectArray c fs, h => by
    simp only [INode.all, Bool.and_eq_true] at h
    simp only [desugar, TLits]
    exact ⟨desugar_tlits c h.1.2, desugarList_tlits fs h.2⟩
  | .selectObject c fs, h => by
    simp only [INode.all, Bool.and_eq_true] at h
    simp only [desugar, TLits]
    exact ⟨desugar_tlits c h.1.2, desugarFields_tlits fs h.2⟩
  | .selectObjectCurrent fs, h => by
    simp only [INode.all, Bool.and_eq_true] at h
    simp only [desugar, TLits]
    exact desugarFields_tlits fs h.2
  | .defineVariables vars child, h => by
    simp only [INode.all, Bool.and_eq_true] at h
    simp only [desugar, TLits]
    exact ⟨desugarFields_tlits vars h.1.2, desugar_tlits child h.2⟩
theorem desugarList_tlits : (ns : List INode) → INode.allL (INode.litOk Val.Fin) ns = true → TLitsL (desugarList ns)
  | [], _ => by simp [desugarList, TLitsL]
  | n :: ns, h => by
    simp only [INode.allL, Bool.and_eq_true] at h
    simp only [desugarList, TLitsL]
    exact ⟨desugar_tlits n h.1, desugarList_tlits ns h.2⟩
theorem desugarFields_tlits : (fs : List (Bytes × INode)) → INode.allF (INode.litOk Val.Fin) fs = true →
    TLitsF (desugarFields fs)
  | [], _ => by simp [desugarFields, TLitsF]
  | (k, n) :: rest, h => by
    simp only [INode.allF, Bool.and_eq_true] at h
    simp only [desugarFields, TLitsF]
    exact ⟨desugar_tlits n h.1, desugarFields_tlits rest h.2⟩
end

example : TLits (desugar (.binop .add (.field [0x61]) (.lit (.num (.jnum [0x31]))))) := desugar_tlits _ (by decide)
/-- the hypothesis is not vacuous: it fails for a NaN literal -/
example : INode.all (INode.litOk Val.Fin) (.not (.lit (.num (.dec .nan)))) = false := by decide

theorem envFinP_of {env : Env} (he : Env.Fin env = true) : EnvFinP env := Val.finF_iff.mp he

end C18BL

/-- **closure of `Val.Fin` under the evaluator**: on a `Fin` document, current value and environment (every number
    a valid `json.Number`, a finite decimal or a Go integer; no binary float, no foreign value), an expression whose
    literals are `Fin` evaluates — whatever operators and builtins it uses — to a `Fin` value: the evaluator never
    produces a NaN, an infinity, a malformed `json.Number`, a binary float or a foreign value, so its result
    serialises with `encoding/json` and can be fed to the evaluator again. -/
theorem ieval_fin {root : Val} (hr : root.Fin = true) {n : INode} (hl : n.FinLits = true) {cur : Val}
    (hc : cur.Fin = true) {env : Env} (he : Env.Fin env = true) {w : Val} (hw : ieval root n cur env = .ok w) :
    w.Fin = true := by
  rw [ieval_desugar] at hw
  exact C18BL.seval_fin root hr (desugar n) cur env (C18BL.desugar_tlits n hl) hc (C18BL.envFinP_of he) w hw

/-- `abs(@)` on the `json.Number` `-2.50` (current value) with `$ = {"a": 1e2}` and `$x = 7`: the result is the finite
    decimal `2.5`, and it is `Fin` by the theorem -/
example : ieval (.obj [([0x61], .num (.jnum [0x31, 0x65, 0x32]))]) (.call .abs [.current])
    (.num (.jnum [0x2D, 0x32, 0x2E, 0x35, 0x30])) [([0x78], .num (.int .i64 7))] = .ok (.num (.dec (.fin false 25 (-1)))) := rfl
example : (Val.num (.dec (.fin false 25 (-1)))).Fin = true :=
  ieval_fin (root := .obj [([0x61], .num (.jnum [0x31, 0x65, 0x32]))]) (by decide)
    (n := .call .abs [.current]) (by decide) (cur := .num (.jnum [0x2D, 0x32, 0x2E, 0x35, 0x30])) (by decide)
    (env := [([0x78], .num (.int .i64 7))]) (by decide) rfl

/-- **`Evaluate` maps `Fin` documents to `Fin` results** (expression literals `Fin`, as the parser builds them from JSON
    text): every `.ok` result of the evaluator on a decoded JSON document serialises with `encoding/json` -/
theorem evaluate_fin {n : INode} (hl : n.FinLits = true) {d : Val} (hd : d.Fin = true) {w : Val}
    (hw : evaluate n d = .ok w) : w.Fin = true :=
  ieval_fin hd hl hd (by decide) hw

/-- `to_number(@)` on the string `"1e3"` gives the finite decimal `1000` -/
example : evaluate (.call .toNumber [.current]) (.str [0x31, 0x65, 0x33]) = .ok (.num (.dec (.fin false 1 3))) := rfl
example : (Val.num (.dec (.fin false 1 3))).Fin = true :=
  evaluate_fin (n := .call .toNumber [.current]) (by decide) (d := .str [0x31, 0x65, 0x33]) (by decide) rfl
/-- `` `[1, 2.5]` | [0] - a `` on `{"a": 0.5}`: arithmetic between a literal and a field -/
example : ∀ w, evaluate (.binop .sub (.pipe (.lit (.arr .plain [.num (.jnum [0x31]), .num (.jnum [0x32, 0x2E, 0x35])]))
    (.indexCurrent 0)) (.field [0x61])) (.obj [([0x61], .num (.jnum [0x30, 0x2E, 0x35]))]) = .ok w → w.Fin = true :=
  fun _ h => evaluate_fin (by decide) (by decide) h
/-- the hypothesis on the document is needed: a NaN in the document is returned as is by `@` -/
example : evaluate .current (.num (.dec .nan)) = .ok (.num (.dec .nan)) ∧ (Val.num (.dec .nan)).Fin = false :=
  ⟨rfl, by decide⟩

end Jmes
