/-
  Helper lemmas for `Properties/C17B.lean` and `Properties/C01B.lean`: building well-formed parse trees of the
  declarative grammar (`Spec/Grammar.lean`) from well-formed parts, with their printing (`flatten`), their node
  (`erase`) and their levels, so that identities can be stated on expression TEXT (token lists) through
  `C04G.parse_complete`.

    * `Lexes e ts`                 the expression text `e` lexes to the tokens `ts` (and the end marker)
    * `Sel R`                      `R` may follow a dot: well formed, tighter than `.`, starts with an identifier
    * `Rhs ρ`                      `ρ` is a non-empty right-hand side of a projection
    * `Opener`                     the five projection openers `[*]`, `.*`, `[]`, `[?c]`, `[a:b:c]`, uniformly
    * `erase_not_slice`            the node of a tree is never a bare slice node (slices are wrapped in a projection)
-/
import Jmes.Properties.C04G
import Jmes.Proofs.Refine
namespace Jmes.C17B
open Jmes Jmes.Parser Jmes.Pratt Jmes.Grammar
set_option linter.unusedSimpArgs false

/-- the expression text `e` lexes, without error, to the tokens `ts` followed by the end marker -/
def Lexes (e : Bytes) (ts : List Token) : Prop := lexAll e = (ts ++ [endTok], none)

instance (e : Bytes) (ts : List Token) : Decidable (Lexes e ts) := inferInstanceAs (Decidable (_ = _))

/-- a successful parse determines `search` -/
theorem search_of_parse {e : Bytes} {n : INode} (h : Parser.parse e = .ok n) (d : Val) :
    search e d = evaluate n d := by
  unfold search; rw [h]

/-- **text ⟶ node ⟶ value**: when the tokens of `e` are the printing of a well-formed tree, `parse` returns the
    tree's node and `search` evaluates that node -/
theorem text {t : PTree} (h : WellPrec t) {e : Bytes} (hl : Lexes e (Grammar.flatten t)) :
    Parser.parse e = .ok (erase t) ∧ ∀ d, search e d = evaluate (erase t) d :=
  have hp := C04G.parse_complete h hl
  ⟨hp, search_of_parse hp⟩

example : Parser.parse (Ex.bs "foo[*].bar.baz") = .ok (erase Ex.e01) := (text (t := Ex.e01) (by decide) (by decide)).1

/-! ## well-formed trees are not the implicit current node -/

/-- a well-formed tree (in either position) is not the implicit current node -/
theorem not_icur {b : Bool} {t : PTree} (h : wp b t = true) : t.isIcur = false := by
  cases t <;> first | rfl | (simp only [wp] at h; cases h)

example : (Ex.idt "a").isIcur = false := not_icur (b := false) (by decide)

/-- `icur` is the implicit current node -/
theorem icur_isIcur : PTree.icur.isIcur = true := rfl

/-! ## what may follow a dot -/

/-- `R` may follow a dot (`l.R`): it is well formed, binds tighter than `.` on its left edge, and starts with an
    identifier (a field name or a function call, with its own brackets) -/
structure Sel (R : PTree) : Prop where
  wp : WellPrec R
  lvl : lvlDot < llevel R
  ident : startsWithIdent R = true

example : Sel (Ex.idt "a") := ⟨by decide, by decide, by decide⟩
example : Sel (.index (Ex.idt "a") (Ex.int "0")) := ⟨by decide, by decide, by decide⟩

/-- a tree that may follow a dot may follow any binary operator -/
theorem Sel.above {R : PTree} (h : Sel R) {lvl : Nat} (hl : lvl ≤ lvlDot) : lvl < llevel R :=
  Nat.lt_of_le_of_lt hl h.lvl

/-! ## right-hand sides -/

/-- `ρ` is a (non-empty) right-hand side of a projection: well formed in right-hand-side position and tighter than
    the projection power on its left edge.  Its printing is `flat true ρ`. -/
structure Rhs (ρ : PTree) : Prop where
  wp : Grammar.wp true ρ = true
  lvl : lvlProj < llevel ρ

/-- a right-hand side is not empty -/
theorem Rhs.not_icur {ρ : PTree} (h : Rhs ρ) : ρ.isIcur = false := C17B.not_icur h.wp

/-- `.R` is a right-hand side -/
theorem rhs_dot1 {R : PTree} (h : Sel R) : Rhs (.dotId .icur R) := by
  refine ⟨?_, (by decide : lvlProj < top)⟩
  have h1 : Grammar.wp false R = true := h.wp
  simp only [Grammar.wp, PTree.isIcur, if_true, h1, h.ident, Bool.and_true, Bool.true_and, decide_eq_true_eq]
  exact h.lvl

/-- the printing of the right-hand side `.R` -/
theorem flat_dot1 (R : PTree) : flat true (.dotId .icur R) = tDot :: Grammar.flatten R := rfl
/-- the node of the right-hand side `.R` is the node of `R` -/
theorem erase_dot1 (R : PTree) : erase (.dotId .icur R) = erase R := rfl
/-- the right level of `ρ.R` -/
theorem rlevel_dot (ρ R : PTree) : rlevel (.dotId ρ R) = min lvlDot (rlevel R) := rfl

/-- `ρ.R` is a right-hand side when `ρ` is one that does not end in an open projection or operator -/
theorem rhs_dot {ρ R : PTree} (hρ : Rhs ρ) (hr : lvlDot ≤ rlevel ρ) (h : Sel R) : Rhs (.dotId ρ R) := by
  have h1 : Grammar.wp false R = true := h.wp
  have hlv := hρ.lvl
  refine ⟨?_, ?_⟩
  · simp only [Grammar.wp, hρ.not_icur, Bool.false_eq_true, if_false, hρ.wp, h1, h.ident, Bool.and_true, Bool.true_and,
      decide_eq_true_eq, Bool.and_eq_true]
    exact ⟨hr, h.lvl⟩
  · simp only [llevel, GrammarF0.lmin_of_ne hρ.not_icur]
    simp only [lvlProj, lvlDot] at *
    omega

/-- the printing of `ρ.R` -/
theorem flat_dot (b : Bool) (ρ R : PTree) : flat b (.dotId ρ R) = flat b ρ ++ tDot :: Grammar.flatten R := rfl
/-- the node of `ρ.R` (with a left operand) is a pipe -/
theorem erase_dot {ρ : PTree} (hρ : ρ.isIcur = false) (R : PTree) : erase (.dotId ρ R) = .pipe (erase ρ) (erase R) := by
  simp only [erase, GrammarF0.optNode_of_ne hρ, subNode]

example : Rhs (.dotId (.dotId .icur (Ex.idt "bar")) (Ex.idt "baz")) :=
  rhs_dot (rhs_dot1 ⟨by decide, by decide, by decide⟩) (by decide) ⟨by decide, by decide, by decide⟩

/-! ## the five projection openers, uniformly -/

/-- a projection opener: `[*]`, `.*`, `[]`, `[?c]`, `[a:b:c]` -/
inductive Opener where
  | star
  | ostar
  | flat
  | filt (c : PTree)
  | slice (a b : Option Token) (c : Option (Option Token))

namespace Opener

/-- the tree `l ⟨opener⟩ ρ` -/
def mk : Opener → PTree → PTree → PTree
  | .star, l, ρ => .star l ρ
  | .ostar, l, ρ => .ostar l ρ
  | .flat, l, ρ => .flat l ρ
  | .filt c, l, ρ => .filt l c ρ
  | .slice a b c, l, ρ => .slice l a b c ρ

/-- the tokens of the opener (after a left operand) -/
def toks : Opener → List Token
  | .star => [tArrayStar]
  | .ostar => [tDotStar]
  | .flat => [tFlatten]
  | .filt c => tFilter :: Grammar.flatten c ++ [tRBracket]
  | .slice a b c => tLBracket :: sliceToks a b c ++ [tRBracket]

/-- the binding power of the opener -/
def lvl : Opener → Nat
  | .star => lvlBracket
  | .ostar => lvlDot
  | .flat => lvlFlatten
  | .filt _ => lvlFilter
  | .slice .. => lvlBracket

/-- the side conditions on the opener's own tokens: the filter condition is an expression; the slice bounds are
    64-bit integer literals and the step is not 0 -/
def ok : Opener → Prop
  | .filt c => WellPrec c
  | .slice a b c => sliceOK a b c = true
  | _ => True

/-- the node of the slice `l[a:b:c]` itself -/
def sliceOf (l : INode) (a b : Option Token) (c : Option (Option Token)) : INode :=
  sliceNode (some l) (a.bind intOf) (b.bind intOf) (c.bind fun s => s.bind intOf)

/-- the node of `l ⟨opener⟩ r` (with a right-hand side `r`) -/
def node : Opener → INode → INode → INode
  | .star, l, r => .projectArray l r
  | .ostar, l, r => .projectObject l r
  | .flat, l, r => .flattenAndProject l r
  | .filt c, l, r => .filterAndProject l (erase c) r
  | .slice a b c, l, r => .projectArray (sliceOf l a b c) r

/-- the node of `l ⟨opener⟩` (without a right-hand side) -/
def node0 : Opener → INode → INode
  | .star, l => .pruneArray l
  | .ostar, l => .objectValues l
  | .flat, l => .flatten l
  | .filt c, l => .filter l (erase c)
  | .slice a b c, l => .projectArray (sliceOf l a b c) .current

end Opener


namespace Opener

/-- a projection is not the implicit current node -/
theorem mk_not_icur (o : Opener) (L ρ : PTree) : (o.mk L ρ).isIcur = false := by cases o <;> rfl

/-- `L ⟨opener⟩ ρ` is well formed when `L` is, nothing at the right edge of `L` binds looser than the opener, and
    `ρ` is a right-hand side -/
theorem wp_mk {o : Opener} {b : Bool} {L ρ : PTree} (hL : Grammar.wp b L = true) (hr : o.lvl ≤ rlevel L) (ho : o.ok)
    (hρ : Rhs ρ) : Grammar.wp b (o.mk L ρ) = true := by
  have hi := C17B.not_icur hL
  have h1 := hρ.wp
  have h2 := hρ.lvl
  cases o <;>
    simp only [mk, Grammar.wp, hi, Bool.false_eq_true, if_false, hL, h1, Bool.true_and, Bool.and_true, Bool.or_true,
      decide_eq_true_eq, Bool.and_eq_true, Bool.or_eq_true] <;>
    simp only [lvl] at hr
  · exact ⟨hr, Or.inr h2⟩
  · exact ⟨hr, Or.inr h2⟩
  · exact ⟨hr, Or.inr h2⟩
  · exact ⟨⟨hr, ho⟩, Or.inr h2⟩
  · exact ⟨⟨hr, ho⟩, Or.inr h2⟩

/-- … and without a right-hand side -/
theorem wp_mk0 {o : Opener} {b : Bool} {L : PTree} (hL : Grammar.wp b L = true) (hr : o.lvl ≤ rlevel L) (ho : o.ok) :
    Grammar.wp b (o.mk L .icur) = true := by
  have hi := C17B.not_icur hL
  cases o <;>
    simp only [mk, Grammar.wp, hi, Bool.false_eq_true, if_false, hL, icur_isIcur, Bool.true_and, Bool.and_true,
      Bool.true_or, decide_eq_true_eq, Bool.and_eq_true] <;>
    simp only [lvl] at hr
  · exact hr
  · exact hr
  · exact hr
  · exact ⟨hr, ho⟩
  · exact ⟨hr, ho⟩

/-- the printing: the left operand, the opener, the right-hand side -/
theorem flat_mk (o : Opener) (b : Bool) {L : PTree} (hi : L.isIcur = false) (ρ : PTree) :
    Grammar.flat b (o.mk L ρ) = Grammar.flat b L ++ o.toks ++ Grammar.flat true ρ := by
  cases o <;> simp only [mk, Grammar.flat, toks, hi, Bool.false_eq_true, if_false, List.append_assoc, List.cons_append,
    List.nil_append, Grammar.flatten]

/-- the node -/
theorem erase_mk (o : Opener) {L ρ : PTree} (hi : L.isIcur = false) (hρ : ρ.isIcur = false) :
    erase (o.mk L ρ) = o.node (erase L) (erase ρ) := by
  cases o <;> simp only [mk, erase, node, GrammarF0.optNode_of_ne hi, GrammarF0.optNode_of_ne hρ, starNode, ostarNode,
    flatNode, filtNode, Option.getD_some, sliceOf]

/-- the node without a right-hand side -/
theorem erase_mk0 (o : Opener) {L : PTree} (hi : L.isIcur = false) :
    erase (o.mk L .icur) = o.node0 (erase L) := by
  cases o <;> simp only [mk, erase, node0, GrammarF0.optNode_of_ne hi, GrammarF0.optNode_icur, starNode, ostarNode,
    flatNode, filtNode, Option.getD_none, sliceOf]

/-- at its right edge a projection is open: whatever is tighter than the projection power is absorbed by it -/
theorem rlevel_mk (o : Opener) (L ρ : PTree) : rlevel (o.mk L ρ) = lvlProj := by cases o <;> rfl

/-- the left level of a projection -/
theorem llevel_mk (o : Opener) {L : PTree} (hi : L.isIcur = false) (ρ : PTree) :
    llevel (o.mk L ρ) = min o.lvl (llevel L) := by
  cases o <;> simp only [mk, llevel, GrammarF0.lmin_of_ne hi, lvl]

end Opener

example : Opener.star.mk (Ex.idt "foo") (.dotId .icur (Ex.idt "bar")) = .star (Ex.idt "foo") (.dotId .icur (Ex.idt "bar")) :=
  rfl
example : WellPrec (Opener.flat.mk (Ex.idt "foo") (.dotId .icur (Ex.idt "bar"))) :=
  Opener.wp_mk (b := false) (by decide) (by decide) trivial (rhs_dot1 ⟨by decide, by decide, by decide⟩)

/-! ## other forms -/

/-- `A op C` is well formed when both sides are and the levels allow it -/
theorem wp_bin {op : Token} {lvl : Nat} (hop : binLevel op.type = some lvl) {A C : PTree} (hA : WellPrec A)
    (hAr : lvl ≤ rlevel A) (hC : WellPrec C) (hCl : lvl < llevel C) : WellPrec (.bin op A C) := by
  have hA' : Grammar.wp false A = true := hA
  have hC' : Grammar.wp false C = true := hC
  show Grammar.wp false (.bin op A C) = true
  simp only [Grammar.wp, hop, C17B.not_icur hA', hA', hC', Bool.not_false, Bool.true_and, Bool.and_true,
    decide_eq_true_eq, Bool.and_eq_true]
  exact ⟨hAr, hCl⟩

/-- the printing of `A op C` -/
theorem flatten_bin (op : Token) (A C : PTree) :
    Grammar.flatten (.bin op A C) = Grammar.flatten A ++ op :: Grammar.flatten C := rfl
/-- the node of `A op C` -/
theorem erase_bin (op : Token) (A C : PTree) : erase (.bin op A C) = binNode op.type (erase A) (erase C) := rfl

/-- `A.R` is well formed when nothing is open at the right edge of `A` at the level of the dot -/
theorem wp_dot {A R : PTree} (hA : WellPrec A) (hAr : lvlDot ≤ rlevel A) (hR : Sel R) : WellPrec (.dotId A R) := by
  have hA' : Grammar.wp false A = true := hA
  have hR' : Grammar.wp false R = true := hR.wp
  show Grammar.wp false (.dotId A R) = true
  simp only [Grammar.wp, C17B.not_icur hA', Bool.false_eq_true, if_false, hA', hR', hR.ident, Bool.true_and,
    Bool.and_true, decide_eq_true_eq, Bool.and_eq_true]
  exact ⟨hAr, hR.lvl⟩

/-- the printing of `A.R` -/
theorem flatten_dot (A R : PTree) : Grammar.flatten (.dotId A R) = Grammar.flatten A ++ tDot :: Grammar.flatten R := rfl
/-- the printing of `(A)` -/
theorem flatten_paren (A : PTree) : Grammar.flatten (.paren A) = tLParen :: Grammar.flatten A ++ [tRParen] := rfl
/-- a parenthesised tree is closed at its right edge -/
theorem rlevel_paren (A : PTree) : rlevel (.paren A) = top := rfl

/-- `[A, C]` is well formed -/
theorem wp_list2 {A C : PTree} (hA : WellPrec A) (hC : WellPrec C) : WellPrec (.multiList [A, C]) := by
  have hA' : Grammar.wp false A = true := hA
  have hC' : Grammar.wp false C = true := hC
  show Grammar.wp false (.multiList [A, C]) = true
  simp only [Grammar.wp, wpL, hA', hC', List.isEmpty_cons, Bool.not_false, Bool.and_self]
/-- `[A]` is well formed -/
theorem wp_list1 {A : PTree} (hA : WellPrec A) : WellPrec (.multiList [A]) := by
  have hA' : Grammar.wp false A = true := hA
  show Grammar.wp false (.multiList [A]) = true
  simp only [Grammar.wp, wpL, hA', List.isEmpty_cons, Bool.not_false, Bool.and_self]
/-- the printing of `[A, C]` -/
theorem flatten_list2 (A C : PTree) :
    Grammar.flatten (.multiList [A, C]) = tLBracket :: Grammar.flatten A ++ tComma :: Grammar.flatten C ++ [tRBracket] := by
  simp only [Grammar.flatten, Grammar.flat, flatSep, List.append_assoc, List.cons_append]
/-- the printing of `[A]` -/
theorem flatten_list1 (A : PTree) : Grammar.flatten (.multiList [A]) = tLBracket :: Grammar.flatten A ++ [tRBracket] := rfl
/-- the node of `[A, C]` -/
theorem erase_list2 (A C : PTree) : erase (.multiList [A, C]) = .selectArrayCurrent [erase A, erase C] := rfl
/-- the node of `[A]`: the one-member form -/
theorem erase_list1 (A : PTree) : erase (.multiList [A]) = .selectArraySingleCurrent (erase A) := rfl

/-! ## the node of a tree is never a bare slice node -/

/-- no builtin builds a slice node -/
def SpecNS : Parser.ArgSpec → Prop
  | .fixed _ _ mk => ∀ args, (mk args).isSlice = false
  | .varArg mk => ∀ args, (mk args).isSlice = false
  | .expArg mk => ∀ a b, (mk a b).isSlice = false
  | .mapArg mk => ∀ a b, (mk a b).isSlice = false

/-- no row of the builtin table builds a slice node -/
theorem builtin_ns : ∀ e ∈ Parser.builtinTable, SpecNS e.2 := by
  simp only [Parser.builtinTable, List.forall_mem_cons]
  repeat' apply And.intro
  all_goals first
    | (intro args; rfl)
    | (intro args; show INode.isSlice (if _ then _ else _) = false; split <;> rfl)
    | (intro args; show INode.isSlice (match _ with | 2 => _ | 3 => _ | _ => _) = false; split <;> rfl)
    | (intro a b; rfl)
    | (intro x hx; cases hx)

/-- hence no builtin that `lookupBuiltin` finds does -/
theorem lookupBuiltin_ns {name : Bytes} {spec : Parser.ArgSpec} (h : Parser.lookupBuiltin name = some spec) :
    SpecNS spec := by
  simp only [Parser.lookupBuiltin, Option.map_eq_some_iff] at h
  obtain ⟨e, he, rfl⟩ := h
  exact builtin_ns e (List.mem_of_find?_eq_some he)

/-- the node of a call is not a slice node -/
theorem callNode_ns {spec : Parser.ArgSpec} (h : SpecNS spec) (ns : List INode) : (callNode spec ns).isSlice = false := by
  cases spec with
  | fixed mn mx mk => exact h ns
  | varArg mk => exact h ns
  | expArg mk =>
    unfold callNode
    split <;> first | exact h _ _ | rfl | (rename_i h1 _ _ _; cases h1) | skip
    all_goals first | rfl | (simp_all [SpecNS])
  | mapArg mk =>
    unfold callNode
    split <;> first | exact h _ _ | rfl | skip
    all_goals first | rfl | (simp_all [SpecNS])

/-- **the node of a tree is never a bare slice node**: a slice is always wrapped in a projection node, so the
    string special case of `projectArray` (`l.isSlice`) arises from slice syntax only -/
theorem erase_not_slice : ∀ t : PTree, (erase t).isSlice = false := by
  apply GrammarF0.PTree.ind
  case h_icur => rfl
  case h_atom =>
    intro t
    simp only [erase, atomNode]
    split <;> try rfl
    · cases parseQuotedIdentifier t.value <;> rfl
    · cases parseJSONLiteral t.value <;> rfl
  case h_paren => intro t ih; exact ih
  case h_not => intro t _; rfl
  case h_neg => intro _ t _; rfl
  case h_pos => intro t _; rfl
  case h_bin =>
    intro op l r ihl _
    simp only [erase]
    cases op.type <;> first | rfl | exact ihl
  case h_dotId =>
    intro l r _ ihr
    simp only [erase, optNode]
    split
    · exact ihr
    · rfl
  case h_dotList =>
    intro l es _ _
    simp only [erase, optNode]
    split <;> (unfold listNode; split <;> rfl)
  case h_dotHash =>
    intro l kvs _ _
    simp only [erase, optNode]
    split <;> (unfold hashNode; split <;> rfl)
  case h_dotStarList =>
    intro l _
    simp only [erase, optNode]
    split <;> rfl
  case h_index =>
    intro l n _
    simp only [erase, optNode]
    split
    · simp only [indexNode]; split <;> rfl
    · rfl
  case h_call =>
    intro name args _
    simp only [erase]
    cases h : Parser.lookupBuiltin name.value with
    | none => rfl
    | some spec => exact callNode_ns (lookupBuiltin_ns h) _
  case h_ref => intro t ih; exact ih
  case h_letIn => intro _ _ _ _; rfl
  case h_multiList =>
    intro es _
    simp only [erase]
    unfold listNode; split <;> rfl
  case h_multiHash =>
    intro kvs _
    simp only [erase]
    unfold hashNode; split <;> rfl
  case h_star =>
    intro l rhs _ _
    simp only [erase]
    unfold starNode; split <;> rfl
  case h_ostar =>
    intro l rhs _ _
    simp only [erase]
    unfold ostarNode; split <;> rfl
  case h_flat =>
    intro l rhs _ _
    simp only [erase]
    unfold flatNode; split <;> rfl
  case h_filt =>
    intro l c rhs _ _ _
    simp only [erase]
    unfold filtNode; split <;> rfl
  case h_slice => intro _ _ _ _ _ _ _; rfl

example : (erase Ex.e14).isSlice = false := erase_not_slice _


/-! ## what the opener nodes compute -/

/-- the value-level slice `v[a:b:c]`: absent parts default as in `sliceNode` (step 1; the bounds are the ends in the
    direction of the step) -/
def sliceVal (a b : Option Token) (c : Option (Option Token)) (v : Val) : Res Val :=
  let step := (c.bind fun s => s.bind intOf).getD 1
  let start := (a.bind intOf).getD (if step < 0 then maxInt else 0)
  let stop := (b.bind intOf).getD (if step < 0 then minInt else maxInt)
  if step = 1 then slice v start stop else sliceStep v start stop step

/-- the node of `l[a:b:c]` is a slice node -/
theorem sliceOf_isSlice (l : INode) (a b : Option Token) (c : Option (Option Token)) :
    (Opener.sliceOf l a b c).isSlice = true := by
  simp only [Opener.sliceOf, sliceNode]
  split <;> rfl

/-- the slice node evaluates its operand and slices the value -/
theorem ieval_sliceOf (root : Val) (l : INode) (a b : Option Token) (c : Option (Option Token)) (cur : Val) (env : Env) :
    ieval root (Opener.sliceOf l a b c) cur env = (ieval root l cur env >>= sliceVal a b c) := by
  simp only [Opener.sliceOf, sliceNode]
  split
  · rename_i h
    simp only [ieval]
    apply Res.bind_congr; intro v
    simp only [sliceVal, h, if_true]
  · rename_i h
    simp only [ieval]
    apply Res.bind_congr; intro v
    simp only [sliceVal, h, if_false]

/-- `[1:3]` of a five-element array -/
example : sliceVal (some (Ex.int "1")) (some (Ex.int "3")) none
    (.arr .plain [.bool true, .bool false, .null, .bool true, .bool true]) = .ok (.arr .plain [.bool false, .null]) := by
  rfl

namespace Opener

/-- what `⟨opener⟩ r` computes from the value of the left operand, `f` being the right-hand side as a function of
    the element: the five "map over the elements, drop the null results" loops of the evaluator.  A slice of a string
    is handed to the right-hand side whole. -/
def sem (o : Opener) (root : Val) (env : Env) (f : Val → Res Val) (v : Val) : Res Val :=
  match o with
  | .star => projectArray f v
  | .ostar => projectObject f v
  | .flat => flattenAndProjectArray f v
  | .filt c => filterAndProjectArray (fun x => ieval root (erase c) x env) f v
  | .slice a b c => sliceVal a b c v >>= fun s =>
      match s with
      | .str _ => f s
      | _ => projectArray f s

/-- what `⟨opener⟩` alone computes from the value of the left operand -/
def sem0 (o : Opener) (root : Val) (env : Env) (v : Val) : Res Val :=
  match o with
  | .star => .ok (pruneArray v)
  | .ostar => .ok (objectValues v)
  | .flat => .ok (Jmes.flatten v)
  | .filt c => filterArray (fun x => ieval root (erase c) x env) v
  | .slice a b c => sliceVal a b c v >>= fun s =>
      match s with
      | .str _ => .ok s
      | _ => projectArray (fun x => .ok x) s

/-- the projection node evaluates its left operand and runs the opener's loop (the left operand of `[*]` must not be a bare slice node: true of every `erase L`) -/
theorem ieval_node (o : Opener) (root : Val) {l : INode} (hl : l.isSlice = false) (r : INode) (cur : Val) (env : Env) :
    ieval root (o.node l r) cur env = (ieval root l cur env >>= o.sem root env (fun v => ieval root r v env)) := by
  cases o with
  | star =>
    simp only [node, sem, ieval, hl, Bool.false_eq_true, if_false]
    apply Res.bind_congr; intro a; cases a <;> rfl
  | ostar => simp only [node, ieval]; rfl
  | flat => simp only [node, ieval]; rfl
  | filt c => simp only [node, ieval]; rfl
  | slice a b c =>
    simp only [node, sem, ieval, sliceOf_isSlice, if_true, ieval_sliceOf, Res.bind_assoc]
    apply Res.bind_congr; intro v
    apply Res.bind_congr; intro s; cases s <;> rfl

/-- the same without a right-hand side -/
theorem ieval_node0 (o : Opener) (root : Val) (l : INode) (cur : Val) (env : Env) :
    ieval root (o.node0 l) cur env = (ieval root l cur env >>= o.sem0 root env) := by
  cases o with
  | star => simp only [node0, ieval, Res.pure_eq]; rfl
  | ostar => simp only [node0, ieval, Res.pure_eq]; rfl
  | flat => simp only [node0, ieval, Res.pure_eq]; rfl
  | filt c => simp only [node0, ieval]; rfl
  | slice a b c =>
    simp only [node0, sem0, ieval, sliceOf_isSlice, if_true, ieval_sliceOf, Res.bind_assoc]
    apply Res.bind_congr; intro v
    apply Res.bind_congr; intro s; cases s <;> rfl

end Opener

example : Opener.star.sem .null [] (fun v => .ok (field (Ex.bs "a") v))
    (.arr .plain [.obj [(Ex.bs "a", .bool true)], .null, .obj []]) = .ok (.arr .plain [.bool true]) := by rfl

end Jmes.C17B
