/-
  Parser ⟷ grammar, part 2: completeness for the whole grammar (including the five projection openers and their
  right-hand sides): every form of `PTree` contributes either a primary case, a step of the operator loop, or the
  first selector of a right-hand side; `complete` is the induction over `PTree`.
-/
import Jmes.Proofs.GrammarF0
namespace Jmes.GrammarF2
open Jmes Jmes.Parser Jmes.Pratt Jmes.Grammar Jmes.GrammarF0
set_option linter.unusedSimpArgs false

/-- the statement proved by induction on the tree -/
def Q (t : PTree) : Prop := ∀ b, wp b t = true → Reach b t

/-! ## Facts about levels -/

theorem left_cases {b : Bool} {l : PTree} {X : Bool} {lvl : Nat}
    (h : (if l.isIcur = true then X else wp b l && decide (lvl ≤ rlevel l)) = true) :
    (l = .icur ∧ X = true) ∨ (l.isIcur = false ∧ wp b l = true ∧ lvl ≤ rlevel l) := by
  cases hi : l.isIcur
  · simp only [hi, Bool.false_eq_true, if_false, Bool.and_eq_true, decide_eq_true_eq] at h
    exact Or.inr ⟨rfl, h⟩
  · simp only [hi, if_true] at h
    exact Or.inl ⟨isIcur_eq hi, h⟩

theorem startsWithIdent_cons {r : PTree} (h : startsWithIdent r = true) :
    ∃ t ts, flat false r = t :: ts ∧ (t.type = .unquotedIdentifier ∨ t.type = .quotedIdentifier) := by
  unfold startsWithIdent at h
  cases hf : flat false r with
  | nil => rw [hf] at h; cases h
  | cons t ts =>
    rw [hf] at h
    exact ⟨t, ts, rfl, by simpa using h⟩

/-- what starts with an identifier and is tighter than `.` ends in an atom, a call, an index or a projection -/
theorem rlevel_ident {r : PTree} (hw : wp false r = true) (hl : lvlDot < llevel r)
    (hs : startsWithIdent r = true) : lvlProj ≤ rlevel r := by
  cases r
  case bin op l r' =>
    simp only [wp] at hw
    split at hw
    · cases hw
    · rename_i lvl hlvl
      simp only [Bool.and_eq_true, Bool.not_eq_true', decide_eq_true_eq] at hw
      simp only [llevel, hlvl, Option.getD_some, lmin_of_ne hw.1.1.1.1] at hl
      have := (binLevel_range hlvl).2
      simp only [lvlDot] at hl; omega
  case dotId l r' =>
    simp only [wp, Bool.and_eq_true] at hw
    rcases left_cases hw.1.1.1 with ⟨_, hX⟩ | ⟨hi, _, _⟩
    · cases hX
    · simp only [llevel, lmin_of_ne hi, lvlDot] at hl; omega
  all_goals first
    | (simp only [rlevel, top, lvlProj]; omega; done)
    | (simp only [startsWithIdent, flat, List.cons_append, List.head?_cons, tLParen, tNot, tPlus, tLet, tLBracket, tLBrace, tAmp,
        beq_iff_eq, Bool.or_eq_true, reduceCtorEq, or_self, Bool.false_eq_true] at hs; done)
    | (simp only [wp, Bool.false_eq_true] at hw; done)
    | skip
  case neg tok t =>
    simp only [wp, Bool.and_eq_true, beq_iff_eq] at hw
    simp only [startsWithIdent, flat, List.head?_cons, hw.1.1.2, beq_iff_eq, Bool.or_eq_true, reduceCtorEq,
      or_self, Bool.false_eq_true] at hs

theorem rlevel_rhs {t : PTree} (hw : wp true t = true) (hl : lvlProj < llevel t) : lvlProj ≤ rlevel t := by
  cases t
  case bin op l r' =>
    simp only [wp] at hw
    split at hw
    · cases hw
    · rename_i lvl hlvl
      simp only [Bool.and_eq_true, Bool.not_eq_true', decide_eq_true_eq] at hw
      simp only [llevel, hlvl, Option.getD_some, lmin_of_ne hw.1.1.1.1] at hl
      have := (binLevel_range hlvl).2
      simp only [lvlProj] at hl; omega
  case dotId l r' =>
    simp only [wp, Bool.and_eq_true, decide_eq_true_eq] at hw
    have := rlevel_ident hw.1.1.2 hw.1.2 hw.2
    simp only [rlevel, lvlDot, lvlProj] at this ⊢; omega
  all_goals first
    | (simp only [rlevel, top, lvlProj]; omega; done)
    | (simp only [wp, Bool.not_true, Bool.false_and, Bool.false_eq_true] at hw; done)

/-! ## Right-hand sides -/

theorem rhs_run {rhs : PTree} (hQ : Q rhs)
    (hw : (rhs.isIcur || (wp true rhs && decide (lvlProj < llevel rhs))) = true) {rest : List Token}
    (hr : Follow lvlProj rest) :
    ∃ f, projection f projectionPrecedence (stOf (flat true rhs ++ rest)) =
      .ok (optNode rhs (erase rhs), stOf rest) := by
  cases hi : rhs.isIcur
  · simp only [hi, Bool.false_or, Bool.and_eq_true, decide_eq_true_eq] at hw
    have h9 := rlevel_rhs hw.1 hw.2
    obtain ⟨f, hf⟩ := (hQ true hw.1).rhs (p := projectionPrecedence) hw.2 (by decide) (rest := rest)
      ⟨by have := hr.1; simp only [projectionPrecedence, lvlProj] at *; omega, hr.2⟩
    exact ⟨f, by rw [optNode_of_ne hi]; exact hf⟩
  · rw [isIcur_eq hi]
    exact ⟨1, by simp only [flat, List.nil_append, optNode_icur]; exact proj_none hr.1⟩

theorem follow_of {q : Nat} {t : Token} {ts : List Token} (h : precedence t.type ≤ q)
    (hne : t.type ≠ .openParen := by decide) : Follow q (t :: ts) := ⟨h, hne⟩

/-! ## Forms with a left operand -/

theorem reach_bin {op : Token} {l r : PTree} (hl : Q l) (hr : Q r) : Q (.bin op l r) := by
  intro b h
  simp only [wp] at h
  split at h
  · cases h
  rename_i lvl hlvl
  simp only [Bool.and_eq_true, Bool.not_eq_true', decide_eq_true_eq] at h
  obtain ⟨⟨⟨⟨hi, hwl⟩, hle⟩, hwr⟩, hlt⟩ := h
  have hprec := binLevel_precedence hlvl
  refine reach_of_step (toks := op :: flat false r) (hl b hwl) (by simp only [flat, List.append_assoc, List.cons_append, List.nil_append]) ?_ ?_ ?_
  · simp only [llevel, hlvl, Option.getD_some, lmin_of_ne hi]; exact Nat.min_le_right _ _
  · intro rest
    exact ⟨by show precedence op.type ≤ _; rw [hprec]; exact hle, (mkBin_prec (binLevel_mkBin hlvl)).2.2⟩
  · intro prec hp rest hfr
    simp only [llevel, rlevel, hlvl, Option.getD_some, lmin_of_ne hi] at hp hfr
    obtain ⟨f, hf⟩ := (hr false hwr).operand (p := lvl) hlt (rest := rest) hfr
    refine ⟨f, fun F hF => ?_⟩
    rw [List.cons_append, loop_bin hlvl (by omega) (expression_mono hF hf)]
    simp only [erase]

theorem reach_dotId {l r : PTree} (hl : Q l) (hr : Q r) : Q (.dotId l r) := by
  intro b h
  simp only [wp, Bool.and_eq_true, decide_eq_true_eq] at h
  obtain ⟨⟨⟨hleft, hwr⟩, hlt⟩, hs⟩ := h
  obtain ⟨t, ts, hflat, ht⟩ := startsWithIdent_cons hs
  rcases left_cases hleft with ⟨rfl, hb⟩ | ⟨hi, hwl, hle⟩
  · subst hb
    intro prec _ hp' rest hfr g n s' hk
    simp only [erase, optNode_icur, subNode, rlevel] at hk hfr
    have := hp' rfl
    obtain ⟨f, hf⟩ := hr false hwr prec (by omega) (fun h => by cases h) rest
      (hfr.mono (Nat.min_le_right _ _)) g n s' hk
    refine ⟨f + 1, ?_⟩
    show projection _ _ _ = _
    simp only [flat, List.nil_append, List.cons_append]
    change expression f prec (stOf (flat false r ++ rest)) = _ at hf
    rw [hflat] at hf ⊢
    simp only [List.cons_append] at hf ⊢
    exact proj_dotId ht hf
  · refine reach_of_step (toks := tDot :: flat false r) (hl b hwl) (by simp only [flat, List.append_assoc, List.cons_append, List.nil_append]) ?_ ?_ ?_
    · simp only [llevel, lmin_of_ne hi]; exact Nat.min_le_right _ _
    · intro rest; exact follow_of hle
    · intro prec hp rest hfr
      simp only [llevel, rlevel, lmin_of_ne hi] at hp hfr
      obtain ⟨f, hf⟩ := (hr false hwr).operand (p := lvlDot) hlt (rest := rest) hfr
      refine ⟨f, fun F hF => ?_⟩
      have hf' := expression_mono hF hf
      rw [hflat] at hf' ⊢
      simp only [List.cons_append] at hf' ⊢
      rw [loop_dotId (by omega) ht hf']
      simp only [erase, optNode_of_ne hi, subNode]

theorem mem_wpL : ∀ {es : List PTree}, wpL es = true → ∀ e ∈ es, wp false e = true
  | [], _, _, h => by cases h
  | x :: xs, hw, e, h => by
    simp only [wpL, Bool.and_eq_true] at hw
    rcases List.mem_cons.1 h with rfl | h
    · exact hw.1
    · exact mem_wpL hw.2 e h

theorem mem_wpKVs {ok : Token → Bool} : ∀ {kvs : List (Token × PTree)}, wpKVs ok kvs = true →
    ∀ kv ∈ kvs, ok kv.1 = true ∧ wp false kv.2 = true
  | [], _, _, h => by cases h
  | (k, x) :: xs, hw, e, h => by
    simp only [wpKVs, Bool.and_eq_true] at hw
    rcases List.mem_cons.1 h with rfl | h
    · exact hw.1
    · exact mem_wpKVs hw.2 e h

theorem ne_nil_of_isEmpty {α} {l : List α} (h : (!l.isEmpty) = true) : l ≠ [] := by
  cases l <;> simp at h ⊢

theorem reach_dotList {l : PTree} {es : List PTree} (hl : Q l) (hes : ∀ e ∈ es, Q e) : Q (.dotList l es) := by
  intro b h
  simp only [wp, Bool.and_eq_true] at h
  obtain ⟨⟨hleft, hne⟩, hw⟩ := h
  have hne := ne_nil_of_isEmpty hne
  have hwe := mem_wpL hw
  have hRe : ∀ e ∈ es, Reach false e := fun e he => hes e he false (hwe e he)
  rcases left_cases hleft with ⟨rfl, hb⟩ | ⟨hi, hwl, hle⟩
  · subst hb
    intro prec _ _ rest _ g n s' hk
    obtain ⟨f, hf⟩ := sarr_complete none rest es hne hRe hwe
    refine ⟨max f g + 1, ?_⟩
    show projection _ _ _ = _
    simp only [flat, List.nil_append, List.cons_append, List.append_assoc, List.singleton_append]
    refine proj_dotList (((mono_le (Nat.le_max_left f g)).sarr _).ok hf) (exprLoop_mono (Nat.le_max_right f g) ?_)
    simpa only [erase, optNode_icur] using hk
  · refine reach_of_step (toks := tDot :: tLBracket :: flatSep es ++ [tRBracket]) (hl b hwl)
      (by simp only [flat, List.append_assoc, List.cons_append, List.nil_append]) ?_ ?_ ?_
    · simp only [llevel, lmin_of_ne hi]; exact Nat.min_le_right _ _
    · intro rest; exact follow_of hle
    · intro prec hp rest _
      simp only [llevel, lmin_of_ne hi] at hp
      obtain ⟨f, hf⟩ := sarr_complete (some (erase l)) rest es hne hRe hwe
      refine ⟨f, fun F hF => ?_⟩
      simp only [List.cons_append, List.append_assoc, List.singleton_append, List.nil_append]
      rw [loop_dotList (by omega) (((mono_le hF).sarr _).ok hf)]
      simp only [erase, optNode_of_ne hi]

theorem reach_dotHash {l : PTree} {kvs : List (Token × PTree)} (hl : Q l) (hes : ∀ kv ∈ kvs, Q kv.2) :
    Q (.dotHash l kvs) := by
  intro b h
  simp only [wp, Bool.and_eq_true] at h
  obtain ⟨⟨hleft, hne⟩, hw⟩ := h
  have hne := ne_nil_of_isEmpty hne
  have hwe := mem_wpKVs hw
  have hRe : ∀ kv ∈ kvs, Reach false kv.2 := fun e he => hes e he false (hwe e he).2
  rcases left_cases hleft with ⟨rfl, hb⟩ | ⟨hi, hwl, hle⟩
  · subst hb
    intro prec _ _ rest _ g n s' hk
    obtain ⟨f, hf⟩ := sobj_complete none rest kvs hne hRe hwe
    refine ⟨max f g + 1, ?_⟩
    show projection _ _ _ = _
    simp only [flat, List.nil_append, List.cons_append, List.append_assoc, List.singleton_append]
    refine proj_dotHash (((mono_le (Nat.le_max_left f g)).sobj _).ok hf) (exprLoop_mono (Nat.le_max_right f g) ?_)
    simpa only [erase, optNode_icur] using hk
  · refine reach_of_step (toks := tDot :: tLBrace :: flatKVs tColon kvs ++ [tRBrace]) (hl b hwl)
      (by simp only [flat, List.append_assoc, List.cons_append, List.nil_append]) ?_ ?_ ?_
    · simp only [llevel, lmin_of_ne hi]; exact Nat.min_le_right _ _
    · intro rest; exact follow_of hle
    · intro prec hp rest _
      simp only [llevel, lmin_of_ne hi] at hp
      obtain ⟨f, hf⟩ := sobj_complete (some (erase l)) rest kvs hne hRe hwe
      refine ⟨f, fun F hF => ?_⟩
      simp only [List.cons_append, List.append_assoc, List.singleton_append, List.nil_append]
      rw [loop_dotHash (by omega) (((mono_le hF).sobj _).ok hf)]
      simp only [erase, optNode_of_ne hi]

theorem reach_dotStarList {l : PTree} (hl : Q l) : Q (.dotStarList l) := by
  intro b h
  simp only [wp] at h
  rcases left_cases h with ⟨rfl, hb⟩ | ⟨hi, hwl, hle⟩
  · subst hb
    intro prec _ _ rest _ g n s' hk
    refine ⟨g + 1, ?_⟩
    show projection _ _ _ = _
    simp only [flat, List.nil_append, List.cons_append]
    exact proj_dotStarList (by simpa only [erase, optNode_icur, listNode] using hk)
  · refine reach_of_step (toks := [tDot, tArrayStar]) (hl b hwl) (by simp only [flat, List.append_assoc, List.cons_append, List.nil_append]) ?_ ?_ ?_
    · simp only [llevel, lmin_of_ne hi]; exact Nat.min_le_right _ _
    · intro rest; exact follow_of hle
    · intro prec hp rest _
      simp only [llevel, lmin_of_ne hi] at hp
      refine ⟨0, fun F _ => ?_⟩
      simp only [List.cons_append, List.nil_append]
      rw [loop_dotStarList (by omega)]
      simp only [erase, optNode_of_ne hi, listNode]

theorem reach_index {l : PTree} {nt : Token} (hl : Q l) : Q (.index l nt) := by
  intro b h
  simp only [wp, Bool.and_eq_true, isIntTok_iff] at h
  obtain ⟨hleft, hn, i, hi'⟩ := h
  have hio : (intOf nt).getD 0 = i := by simp [intOf, hi']
  rcases left_cases hleft with ⟨rfl, _⟩ | ⟨hi, hwl, hle⟩
  · cases b
    · apply reach_of_prim
      intro rest _
      exact ⟨1, by simp only [flat, List.nil_append, List.cons_append, erase, optNode_icur, hio]
                   exact prim_index0 hn hi'⟩
    · intro prec _ _ rest _ g n s' hk
      refine ⟨g + 1, ?_⟩
      show projection _ _ _ = _
      simp only [flat, List.nil_append, List.cons_append]
      exact proj_index hn hi' (by simpa only [erase, optNode_icur, hio] using hk)
  · refine reach_of_step (toks := [tLBracket, nt, tRBracket]) (hl b hwl) (by simp only [flat, List.append_assoc, List.cons_append, List.nil_append]) ?_ ?_ ?_
    · simp only [llevel, lmin_of_ne hi]; exact Nat.min_le_right _ _
    · intro rest; exact follow_of hle
    · intro prec hp rest _
      simp only [llevel, lmin_of_ne hi] at hp
      refine ⟨0, fun F _ => ?_⟩
      simp only [List.cons_append, List.nil_append]
      rw [loop_index (by omega) hn hi']
      simp only [erase, optNode_of_ne hi, indexNode, hio]

/-! ## Projections -/

theorem reach_star {l rhs : PTree} (hl : Q l) (hr : Q rhs) : Q (.star l rhs) := by
  intro b h
  simp only [wp, Bool.and_eq_true] at h
  obtain ⟨hleft, hrhs⟩ := h
  rcases left_cases hleft with ⟨rfl, _⟩ | ⟨hi, hwl, hle⟩
  · have hprim : ∀ rest, Follow lvlProj rest → ∃ f, primaryExpression f (stOf (tArrayStar :: flat true rhs ++ rest)) =
        .ok (erase (.star .icur rhs), stOf rest) := by
      intro rest hfr
      obtain ⟨f, hf⟩ := rhs_run hr hrhs hfr
      exact ⟨f + 1, by simp only [erase, optNode_icur, List.cons_append]; exact prim_star0 hf⟩
    cases b
    · apply reach_of_prim
      intro rest hfr
      simpa only [flat, List.nil_append] using hprim rest hfr
    · intro prec _ _ rest hfr g n s' hk
      obtain ⟨f, hf⟩ := hprim rest hfr
      refine ⟨max f g + 1, ?_⟩
      show projection _ _ _ = _
      simp only [flat, List.nil_append]
      exact proj_prim (Or.inl rfl) (primaryExpression_mono (Nat.le_max_left f g) hf)
        (exprLoop_mono (Nat.le_max_right f g) hk)
  · refine reach_of_step (toks := tArrayStar :: flat true rhs) (hl b hwl) (by simp only [flat, List.append_assoc, List.cons_append, List.nil_append]) ?_ ?_ ?_
    · simp only [llevel, lmin_of_ne hi]; exact Nat.min_le_right _ _
    · intro rest; exact follow_of hle
    · intro prec hp rest hfr
      simp only [llevel, lmin_of_ne hi] at hp
      obtain ⟨f, hf⟩ := rhs_run hr hrhs hfr
      refine ⟨f, fun F hF => ?_⟩
      rw [List.cons_append, loop_star (by omega) (projection_mono hF hf)]
      simp only [erase, optNode_of_ne hi]

theorem reach_ostar {l rhs : PTree} (hl : Q l) (hr : Q rhs) : Q (.ostar l rhs) := by
  intro b h
  simp only [wp, Bool.and_eq_true] at h
  obtain ⟨hleft, hrhs⟩ := h
  rcases left_cases hleft with ⟨rfl, _⟩ | ⟨hi, hwl, hle⟩
  · cases b
    · apply reach_of_prim
      intro rest hfr
      obtain ⟨f, hf⟩ := rhs_run hr hrhs hfr
      exact ⟨f + 1, by simp only [flat, PTree.isIcur, if_true, Bool.false_eq_true, if_false, List.singleton_append,
                         erase, optNode_icur, List.cons_append]
                       exact prim_ostar0 hf⟩
    · intro prec _ _ rest hfr g n s' hk
      obtain ⟨f, hf⟩ := rhs_run hr hrhs hfr
      refine ⟨max f g + 1, ?_⟩
      show projection _ _ _ = _
      simp only [flat, PTree.isIcur, if_true, List.singleton_append, List.cons_append]
      refine proj_ostar (projection_mono (Nat.le_max_left f g) hf) (exprLoop_mono (Nat.le_max_right f g) ?_)
      simpa only [erase, optNode_icur] using hk
  · refine reach_of_step (toks := tDotStar :: flat true rhs) (hl b hwl)
      (by simp only [flat, hi, Bool.false_eq_true, if_false, List.append_assoc, List.singleton_append]) ?_ ?_ ?_
    · simp only [llevel, lmin_of_ne hi]; exact Nat.min_le_right _ _
    · intro rest; exact follow_of hle
    · intro prec hp rest hfr
      simp only [llevel, lmin_of_ne hi] at hp
      obtain ⟨f, hf⟩ := rhs_run hr hrhs hfr
      refine ⟨f, fun F hF => ?_⟩
      rw [List.cons_append, loop_ostar (by omega) (projection_mono hF hf)]
      simp only [erase, optNode_of_ne hi]

theorem reach_flat {l rhs : PTree} (hl : Q l) (hr : Q rhs) : Q (.flat l rhs) := by
  intro b h
  simp only [wp, Bool.and_eq_true] at h
  obtain ⟨hleft, hrhs⟩ := h
  rcases left_cases hleft with ⟨rfl, hb⟩ | ⟨hi, hwl, hle⟩
  · cases b
    · apply reach_of_prim
      intro rest hfr
      obtain ⟨f, hf⟩ := rhs_run hr hrhs hfr
      exact ⟨f + 1, by simp only [flat, List.nil_append, erase, optNode_icur, List.cons_append]
                       exact prim_flat0 hf⟩
    · cases hb
  · refine reach_of_step (toks := tFlatten :: flat true rhs) (hl b hwl) (by simp only [flat, List.append_assoc, List.cons_append, List.nil_append]) ?_ ?_ ?_
    · simp only [llevel, lmin_of_ne hi]; exact Nat.min_le_right _ _
    · intro rest; exact follow_of hle
    · intro prec hp rest hfr
      simp only [llevel, lmin_of_ne hi] at hp
      obtain ⟨f, hf⟩ := rhs_run hr hrhs hfr
      refine ⟨f, fun F hF => ?_⟩
      rw [List.cons_append, loop_flat (by omega) (projection_mono hF hf)]
      simp only [erase, optNode_of_ne hi]

theorem filter_run {c : PTree} (hc : Q c) (hw : wp false c = true) (ts : List Token) :
    ∃ f, filterP f (stOf (flat false c ++ tRBracket :: ts)) = .ok (erase c, stOf ts) := by
  obtain ⟨f, hf⟩ := (hc false hw).elem hw (t := tRBracket) ts rfl (by decide)
  exact ⟨f + 1, filterP_run hf⟩

theorem reach_filt {l c rhs : PTree} (hl : Q l) (hc : Q c) (hr : Q rhs) : Q (.filt l c rhs) := by
  intro b h
  simp only [wp, Bool.and_eq_true] at h
  obtain ⟨⟨hleft, hwc⟩, hrhs⟩ := h
  rcases left_cases hleft with ⟨rfl, _⟩ | ⟨hi, hwl, hle⟩
  · have hprim : ∀ rest, Follow lvlProj rest →
        ∃ f, primaryExpression f (stOf (tFilter :: (flat false c ++ tRBracket :: (flat true rhs ++ rest)))) =
        .ok (erase (.filt .icur c rhs), stOf rest) := by
      intro rest hfr
      obtain ⟨f, hf⟩ := rhs_run hr hrhs hfr
      obtain ⟨g, hg⟩ := filter_run hc hwc (flat true rhs ++ rest)
      exact ⟨max f g + 1, by
        simp only [erase, optNode_icur]
        exact prim_filt0 (((mono_le (Nat.le_max_right f g)).filt).ok hg) (projection_mono (Nat.le_max_left f g) hf)⟩
    cases b
    · apply reach_of_prim
      intro rest hfr
      simpa only [flat, List.nil_append, List.cons_append, List.append_assoc] using hprim rest hfr
    · intro prec _ _ rest hfr g n s' hk
      obtain ⟨f, hf⟩ := hprim rest hfr
      refine ⟨max f g + 1, ?_⟩
      show projection _ _ _ = _
      simp only [flat, List.nil_append, List.cons_append, List.append_assoc]
      exact proj_prim (Or.inr rfl) (primaryExpression_mono (Nat.le_max_left f g) hf)
        (exprLoop_mono (Nat.le_max_right f g) hk)
  · refine reach_of_step (toks := tFilter :: flat false c ++ tRBracket :: flat true rhs) (hl b hwl)
      (by simp only [flat, List.append_assoc, List.cons_append, List.nil_append]) ?_ ?_ ?_
    · simp only [llevel, lmin_of_ne hi]; exact Nat.min_le_right _ _
    · intro rest; exact follow_of hle
    · intro prec hp rest hfr
      simp only [llevel, lmin_of_ne hi] at hp
      obtain ⟨f, hf⟩ := rhs_run hr hrhs hfr
      obtain ⟨g, hg⟩ := filter_run hc hwc (flat true rhs ++ rest)
      refine ⟨max f g, fun F hF => ?_⟩
      simp only [List.cons_append, List.append_assoc]
      rw [loop_filt (by omega) (((mono_le (Nat.le_trans (Nat.le_max_right f g) hF)).filt).ok hg)
        (projection_mono (Nat.le_trans (Nat.le_max_left f g) hF) hf)]
      simp only [erase, optNode_of_ne hi]

theorem reach_slice {l rhs : PTree} {a bb : Option Token} {c : Option (Option Token)} (hl : Q l) (hr : Q rhs) :
    Q (.slice l a bb c rhs) := by
  intro b h
  simp only [wp, Bool.and_eq_true] at h
  obtain ⟨⟨hleft, hok⟩, hrhs⟩ := h
  rcases left_cases hleft with ⟨rfl, _⟩ | ⟨hi, hwl, hle⟩
  · cases b
    · apply reach_of_prim
      intro rest hfr
      obtain ⟨f, hf⟩ := rhs_run hr hrhs hfr
      exact ⟨f + 1, by simp only [flat, List.nil_append, erase, optNode_icur, List.cons_append, List.append_assoc]
                       exact prim_slice0 hok hf⟩
    · intro prec _ _ rest hfr g n s' hk
      obtain ⟨f, hf⟩ := rhs_run hr hrhs hfr
      refine ⟨max f g + 1, ?_⟩
      show projection _ _ _ = _
      simp only [flat, List.nil_append, List.cons_append, List.append_assoc]
      refine proj_slice hok (projection_mono (Nat.le_max_left f g) hf) (exprLoop_mono (Nat.le_max_right f g) ?_)
      simpa only [erase, optNode_icur] using hk
  · refine reach_of_step (toks := tLBracket :: sliceToks a bb c ++ tRBracket :: flat true rhs) (hl b hwl)
      (by simp only [flat, List.append_assoc, List.cons_append, List.nil_append]) ?_ ?_ ?_
    · simp only [llevel, lmin_of_ne hi]; exact Nat.min_le_right _ _
    · intro rest; exact follow_of hle
    · intro prec hp rest hfr
      simp only [llevel, lmin_of_ne hi] at hp
      obtain ⟨f, hf⟩ := rhs_run hr hrhs hfr
      refine ⟨f, fun F hF => ?_⟩
      simp only [List.cons_append, List.append_assoc]
      rw [loop_slice (by omega) hok (projection_mono hF hf)]
      simp only [erase, optNode_of_ne hi]


/-! ## Primary forms with sub-expressions -/

theorem q_of_false {t : PTree} (h0 : wp true t = false) (h : wp false t = true → Reach false t) : Q t := by
  intro b hw
  cases b
  · exact h hw
  · rw [h0] at hw; cases hw

theorem q_atom (t : Token) : Q (.atom t) := q_of_false (by simp [wp]) reach_atom
theorem q_paren {t : PTree} (h : Q t) : Q (.paren t) :=
  q_of_false (by simp [wp]) fun hw => reach_paren (h false (by simpa [wp] using hw)) hw
theorem q_not {t : PTree} (h : Q t) : Q (.not t) :=
  q_of_false (by simp [wp]) fun hw => reach_not (h false (by simp [wp] at hw; exact hw.1)) hw
theorem q_neg {tok : Token} {t : PTree} (h : Q t) : Q (.neg tok t) :=
  q_of_false (by simp [wp]) fun hw => reach_neg (h false (by simp [wp] at hw; exact hw.1.2)) hw
theorem q_pos {t : PTree} (h : Q t) : Q (.pos t) :=
  q_of_false (by simp [wp]) fun hw => reach_pos (h false (by simp [wp] at hw; exact hw.1)) hw

theorem expression_ok_first {f p : Nat} {s : PState} {r} (h : expression f p s = .ok r) :
    s.curr.type ≠ .closeParen ∧ s.curr.type ≠ .integerLiteral ∧ s.curr.type ≠ .colon := by
  cases f with
  | zero => rw [expression.eq_1] at h; cases h
  | succ f =>
    rw [expression_succ_run] at h
    cases f with
    | zero => rw [primaryExpression.eq_1] at h; cases h
    | succ f =>
      rw [primaryExpression.eq_2, bind_ok (get_run _)] at h
      refine ⟨?_, ?_, ?_⟩ <;> intro hc <;> simp only [hc] at h <;> cases h

theorem bind_ok_inv {α β} {x : PM α} {f : α → PM β} {s : PState} {r} (h : (x >>= f) s = .ok r) :
    ∃ a s1, x s = .ok (a, s1) := by
  rw [bind_run] at h
  cases hx : x s with
  | error e => rw [hx] at h; cases h
  | ok p => exact ⟨p.1, p.2, rfl⟩

theorem sarr_ok_first {f : Nat} {c : Option INode} {s : PState} {r} (h : selectArray f c s = .ok r) :
    s.curr.type ≠ .integerLiteral ∧ s.curr.type ≠ .colon := by
  cases f with
  | zero => rw [selectArray.eq_1] at h; cases h
  | succ f =>
    rw [selectArray.eq_2] at h
    cases f with
    | zero => rw [selectArrayLoop.eq_1] at h; cases h
    | succ f =>
      rw [selectArrayLoop.eq_2] at h
      obtain ⟨a, s1, hx⟩ := bind_ok_inv h
      exact (expression_ok_first hx).2

theorem fnArgs_ok_first {f mn mx : Nat} {acc : List INode} {s : PState} {r} (h : fnArgs f mn mx acc s = .ok r) :
    s.curr.type ≠ .closeParen := by
  cases f with
  | zero => rw [fnArgs.eq_1] at h; cases h
  | succ f =>
    rw [fnArgs.eq_2] at h
    obtain ⟨a, s1, hx⟩ := bind_ok_inv h
    exact (expression_ok_first hx).1

theorem fnVarArgs_ok_first {f : Nat} {acc : List INode} {s : PState} {r} (h : fnVarArgs f acc s = .ok r) :
    s.curr.type ≠ .closeParen := by
  cases f with
  | zero => rw [fnVarArgs.eq_1] at h; cases h
  | succ f =>
    rw [fnVarArgs.eq_2] at h
    obtain ⟨a, s1, hx⟩ := bind_ok_inv h
    exact (expression_ok_first hx).1

theorem q_multiList {es : List PTree} (hes : ∀ e ∈ es, Q e) : Q (.multiList es) :=
  q_of_false (by simp [wp]) fun h => by
    simp only [wp, Bool.not_false, Bool.true_and, Bool.and_eq_true] at h
    have hne := ne_nil_of_isEmpty h.1
    have hwe := mem_wpL h.2
    apply reach_of_prim
    intro rest _
    obtain ⟨f, hf⟩ := sarr_complete none rest es hne (fun e he => hes e he false (hwe e he)) hwe
    refine ⟨f + 1, ?_⟩
    simp only [flat, erase, List.cons_append, List.append_assoc, List.singleton_append, List.nil_append]
    rw [prim_multiList (sarr_ok_first hf).1 (sarr_ok_first hf).2]
    exact hf

theorem q_multiHash {kvs : List (Token × PTree)} (hes : ∀ kv ∈ kvs, Q kv.2) : Q (.multiHash kvs) :=
  q_of_false (by simp [wp]) fun h => by
    simp only [wp, Bool.not_false, Bool.true_and, Bool.and_eq_true] at h
    have hne := ne_nil_of_isEmpty h.1
    have hwe := mem_wpKVs h.2
    apply reach_of_prim
    intro rest _
    obtain ⟨f, hf⟩ := sobj_complete none rest kvs hne (fun e he => hes e he false (hwe e he).2) hwe
    refine ⟨f + 1, ?_⟩
    simp only [flat, erase, List.cons_append, List.append_assoc, List.singleton_append, List.nil_append]
    rw [prim_multiHash]
    exact hf

theorem prim_let {F : Nat} {ts : List Token} :
    primaryExpression (F + 1) (stOf (tLet :: ts)) = letP F [] (stOf ts) := by
  rw [primaryExpression.eq_2]
  pm_eval []

theorem q_letIn {bs : List (Token × PTree)} {body : PTree} (hbs : ∀ kv ∈ bs, Q kv.2) (hb : Q body) :
    Q (.letIn bs body) :=
  q_of_false (by simp [wp]) fun h => by
    simp only [wp, Bool.not_false, Bool.true_and, Bool.and_eq_true] at h
    have hne := ne_nil_of_isEmpty h.1.1
    have hwe := mem_wpKVs h.1.2
    apply reach_of_prim
    intro rest hfr
    obtain ⟨f, hf⟩ := letP_complete rest body (hb false h.2) h.2 hfr bs hne
      (fun e he => hbs e he false (hwe e he).2) hwe []
    refine ⟨f + 1, ?_⟩
    simp only [flat, erase, List.cons_append, List.append_assoc]
    rw [prim_let]
    simp only [List.nil_append, List.append_assoc, List.cons_append] at hf ⊢
    exact hf

/-- an argument without its `&` -/
def unref : PTree → PTree
  | .ref t => t
  | t => t

theorem isRef_eq {e : PTree} (h : e.isRef = true) : ∃ t, e = .ref t := by
  cases e <;> first | exact ⟨_, rfl⟩ | cases h

theorem unref_of_not {a : PTree} (h : a.isRef = false) : unref a = a := by
  cases a <;> first | rfl | cases h

theorem wpArgs_cons (e : PTree) (es : List PTree) : wpArgs (e :: es) = (wp false (unref e) && wpArgs es) := by
  cases e <;> rfl

theorem wpArgs_noref : ∀ {es : List PTree}, wpArgs es = true → es.all (fun e => !e.isRef) = true →
    ∀ e ∈ es, wp false e = true
  | [], _, _, _, h => by cases h
  | x :: xs, hw, hn, e, h => by
    rw [wpArgs_cons, Bool.and_eq_true] at hw
    simp only [List.all_cons, Bool.and_eq_true] at hn
    rcases List.mem_cons.1 h with rfl | h
    · rw [unref_of_not (by simpa using hn.1)] at hw; exact hw.1
    · exact wpArgs_noref hw.2 hn.2 e h

/-- the induction hypothesis: `Q`, and `Q` of what is under an `&` -/
def P (x : PTree) : Prop := Q x ∧ ∀ t, x = .ref t → Q t

theorem q_call {name : Token} {args : List PTree} (hargs : ∀ e ∈ args, P e) : Q (.call name args) :=
  q_of_false (by simp [wp]) fun h => by
    simp only [wp, Bool.not_false, Bool.true_and, Bool.and_eq_true, beq_iff_eq] at h
    obtain ⟨⟨hn, hspec⟩, hw⟩ := h
    apply reach_of_prim
    intro rest _
    cases hl : lookupBuiltin name.value with
    | none => simp only [hl] at hspec; cases hspec
    | some spec =>
      simp only [hl] at hspec
      simp only [flat, erase, hl, List.cons_append, List.append_assoc, List.singleton_append, List.nil_append]
      cases spec with
      | fixed mn mx mk =>
        simp only [argsOK, Bool.and_eq_true, decide_eq_true_eq] at hspec
        have hwe := wpArgs_noref hw hspec.2
        have hne : args ≠ [] := by intro h0; rw [h0] at hspec; simp at hspec
        obtain ⟨f, hf⟩ := fnArgs_complete mn mx rest args hne (fun e he => (hargs e he).1 false (hwe e he)) hwe []
          (by simpa using hspec.1.2.1) (by simpa using hspec.1.2.2)
        refine ⟨f + 2, ?_⟩
        rw [prim_function hn, function_fixed hl (fnArgs_ok_first hf) hf]
        rfl
      | varArg mk =>
        simp only [argsOK, Bool.and_eq_true, decide_eq_true_eq] at hspec
        have hwe := wpArgs_noref hw hspec.2
        have hne : args ≠ [] := by intro h0; rw [h0] at hspec; simp at hspec
        obtain ⟨f, hf⟩ := fnVarArgs_complete rest args hne (fun e he => (hargs e he).1 false (hwe e he)) hwe []
        refine ⟨f + 2, ?_⟩
        rw [prim_function hn, function_varArg hl (fnVarArgs_ok_first hf) hf]
        rfl
      | expArg mk =>
        match args, hargs, hw, hspec with
        | [a, e], hargs, hw, hspec =>
          simp only [argsOK, Bool.and_eq_true, Bool.not_eq_true'] at hspec
          obtain ⟨e', rfl⟩ := isRef_eq hspec.2
          have ha : unref a = a := unref_of_not hspec.1
          simp only [wpArgs_cons, ha] at hw
          simp only [unref, wpArgs, Bool.and_true, Bool.and_eq_true] at hw
          obtain ⟨f, hf⟩ := ((hargs a (by simp)).1 false hw.1).elem hw.1 (t := tComma)
            (tAmp :: (flat false e' ++ tRParen :: rest)) rfl (by decide)
          obtain ⟨g, hg⟩ := ((hargs (.ref e') (by simp)).2 e' rfl false hw.2).elem hw.2 (t := tRParen) rest rfl
            (by decide)
          refine ⟨max f g + 2, ?_⟩
          simp only [flatSep, flat, List.cons_append, List.append_assoc]
          rw [prim_function hn, function_expArg hl (expression_mono (Nat.le_max_left f g) hf)
            (expression_mono (Nat.le_max_right f g) hg)]
          rfl
        | [], _, _, hspec => simp [argsOK] at hspec
        | [_], _, _, hspec => simp [argsOK] at hspec
        | _ :: _ :: _ :: _, _, _, hspec => simp [argsOK] at hspec
      | mapArg mk =>
        match args, hargs, hw, hspec with
        | [e, a], hargs, hw, hspec =>
          simp only [argsOK, Bool.and_eq_true, Bool.not_eq_true'] at hspec
          obtain ⟨e', rfl⟩ := isRef_eq hspec.1
          have ha : unref a = a := unref_of_not hspec.2
          simp only [wpArgs_cons, ha] at hw
          simp only [unref, wpArgs, Bool.and_true, Bool.and_eq_true] at hw
          obtain ⟨f, hf⟩ := ((hargs (.ref e') (by simp)).2 e' rfl false hw.1).elem hw.1 (t := tComma)
            (flat false a ++ tRParen :: rest) rfl (by decide)
          obtain ⟨g, hg⟩ := ((hargs a (by simp)).1 false hw.2).elem hw.2 (t := tRParen) rest rfl (by decide)
          refine ⟨max f g + 2, ?_⟩
          simp only [flatSep, flat, List.cons_append, List.append_assoc]
          rw [prim_function hn, function_mapArg hl (expression_mono (Nat.le_max_left f g) hf)
            (expression_mono (Nat.le_max_right f g) hg)]
          rfl
        | [], _, _, hspec => simp [argsOK] at hspec
        | [_], _, _, hspec => simp [argsOK] at hspec
        | _ :: _ :: _ :: _, _, _, hspec => simp [argsOK] at hspec

/-! ## The induction -/

theorem p_of_q {t : PTree} (h : Q t) (hn : ∀ x, t ≠ .ref x) : P t := ⟨h, fun x hx => absurd hx (hn x)⟩

theorem complete_P : ∀ t, P t := by
  apply PTree.ind
  · exact p_of_q (fun b h => by simp [wp] at h) (fun _ h => by cases h)
  · exact fun t => p_of_q (q_atom t) (fun _ h => by cases h)
  · exact fun t h => p_of_q (q_paren h.1) (fun _ h => by cases h)
  · exact fun t h => p_of_q (q_not h.1) (fun _ h => by cases h)
  · exact fun tok t h => p_of_q (q_neg h.1) (fun _ h => by cases h)
  · exact fun t h => p_of_q (q_pos h.1) (fun _ h => by cases h)
  · exact fun op l r hl hr => p_of_q (reach_bin hl.1 hr.1) (fun _ h => by cases h)
  · exact fun l r hl hr => p_of_q (reach_dotId hl.1 hr.1) (fun _ h => by cases h)
  · exact fun l es hl hes => p_of_q (reach_dotList hl.1 fun e he => (hes e he).1) (fun _ h => by cases h)
  · exact fun l kvs hl hes => p_of_q (reach_dotHash hl.1 fun e he => (hes e he).1) (fun _ h => by cases h)
  · exact fun l hl => p_of_q (reach_dotStarList hl.1) (fun _ h => by cases h)
  · exact fun l n hl => p_of_q (reach_index hl.1) (fun _ h => by cases h)
  · exact fun name args hargs => p_of_q (q_call hargs) (fun _ h => by cases h)
  · exact fun t h => ⟨fun b hw => by simp [wp] at hw, fun x hx => by cases hx; exact h.1⟩
  · exact fun bs body hbs hb => p_of_q (q_letIn (fun e he => (hbs e he).1) hb.1) (fun _ h => by cases h)
  · exact fun es hes => p_of_q (q_multiList fun e he => (hes e he).1) (fun _ h => by cases h)
  · exact fun kvs hes => p_of_q (q_multiHash fun e he => (hes e he).1) (fun _ h => by cases h)
  · exact fun l rhs hl hr => p_of_q (reach_star hl.1 hr.1) (fun _ h => by cases h)
  · exact fun l rhs hl hr => p_of_q (reach_ostar hl.1 hr.1) (fun _ h => by cases h)
  · exact fun l rhs hl hr => p_of_q (reach_flat hl.1 hr.1) (fun _ h => by cases h)
  · exact fun l c rhs hl hc hr => p_of_q (reach_filt hl.1 hc.1 hr.1) (fun _ h => by cases h)
  · exact fun l a b c rhs hl hr => p_of_q (reach_slice hl.1 hr.1) (fun _ h => by cases h)

/-- **Completeness, continuation form**: for every well-formed tree, in either position -/
theorem complete (t : PTree) : Q t := (complete_P t).1

/-- a well-formed tree is an operand at every power below its left level -/
theorem complete_operand {t : PTree} (h : WellPrec t) {p : Nat} (hp : p < llevel t) {rest : List Token}
    (hr : Follow (min p (rlevel t)) rest) :
    ∃ f, expression f p (stOf (Grammar.flatten t ++ rest)) = .ok (erase t, stOf rest) :=
  (complete t false h).operand hp hr

end Jmes.GrammarF2
