/-
  C09, third wave — array loops in the tick monad, continued: the `zip` builtin (evaluator.go:1046) and the key
  collection of `sort_by` / `max_by` / `min_by` (array.go:336, 13, 88).
-/
import Jmes.Proofs.C09CTickArr
set_option linter.unusedSimpArgs false
set_option linter.unusedVariables false
namespace Jmes.C09C
open Jmes

/-! ## `zip` (evaluator.go:1046-1081): the row-building loops -/

/-- evaluator.go:1073 `for j, value := range values { result[j] = value[i] }` (a store into a cell that
    `make([]any, len(values))` has paid for); Go reads `value[i]` with `i < count ≤ len(value)`, the default `null`
    is never used -/
def zipCellsT (i : Nat) (values : List (List Val)) (result : List Val) : T (List Val) :=
  rangeT (fun (value : List Val) (result : List Val) => pure (result ++ [value.getD i .null])) values result

/-- the body of evaluator.go:1071: `result := make([]any, len(values)); <evaluator.go:1073>; results[i] = result`;
    the state is `(i, results)` -/
def zipRowBody (values : List (List Val)) (s : Nat × List Val) : T (Nat × List Val) := do
  allocT values.length                                    -- evaluator.go:1072
  let result ← zipCellsT s.1 values []                    -- evaluator.go:1073
  pure (s.1 + 1, s.2 ++ [.arr .plain result])             -- evaluator.go:1077

/-- evaluator.go:1070-1078: `results := make([]any, count); for i := 0; i < count; i++ { … }` -/
def zipRowsT (count : Nat) (values : List (List Val)) : T (List Val) := do
  allocT count                                            -- evaluator.go:1070
  let s ← forT (fun _ => true) (zipRowBody values) count (0, [])   -- evaluator.go:1071
  pure s.2

theorem zipCellsT_eq (i : Nat) : ∀ (values : List (List Val)) (result : List Val),
    zipCellsT i values result = ⟨result ++ values.map (fun c => c.getD i .null), values.length⟩ := by
  intro values
  induction values with
  | nil => intro result; simp [zipCellsT, rangeT_nil]
  | cons c values ih =>
    intro result
    unfold zipCellsT at ih ⊢
    apply T.ext
    · rw [rangeT_cons_fst, pure_fst, ih]; simp
    · rw [rangeT_cons_snd, pure_fst, pure_snd, ih]; simp; omega

theorem zipRowBody_eq (values : List (List Val)) (i : Nat) (results : List Val) :
    zipRowBody values (i, results)
      = ⟨(i + 1, results ++ [.arr .plain (values.map (fun c => c.getD i .null))]), 2 * values.length⟩ := by
  apply T.ext <;> simp [zipRowBody, zipCellsT_eq]; omega

theorem zipRows_drop (values : List (List Val)) (i : Nat) (n : Nat) :
    zipRows (n + 1) (values.map (List.drop i))
      = .arr .plain (values.map (fun c => c.getD i .null)) :: zipRows n (values.map (List.drop (i + 1))) := by
  simp only [zipRows, List.map_map]
  congr 2
  · apply List.map_congr_left
    intro c _
    simp only [Function.comp]
    cases h : c.drop i with
    | nil =>
      have := List.drop_eq_nil_iff.mp h
      simp [List.getD, List.getElem?_eq_none this]
    | cons y ys =>
      have hl : i < c.length := by
        apply Nat.lt_of_not_le; intro hc
        rw [List.drop_eq_nil_iff.mpr hc] at h; cases h
      have := List.drop_eq_getElem_cons hl
      rw [this] at h; injection h with h1 h2
      simp [List.getD, List.getElem?_eq_getElem hl, h1]
  · apply List.map_congr_left
    intro c _
    simp [Function.comp, List.drop_drop, Nat.add_comm]

theorem zipRowLoop (values : List (List Val)) : ∀ (n i : Nat) (results : List Val),
    forT (fun _ => true) (zipRowBody values) n (i, results)
      = ⟨(i + n, results ++ zipRows n (values.map (List.drop i))), n * (1 + 2 * values.length)⟩ := by
  intro n
  induction n with
  | zero => intro i results; simp [forT, zipRows]; rfl
  | succ n ih =>
    intro i results
    apply T.ext
    · rw [forT_succ_fst _ _ _ _ rfl, zipRowBody_eq, mk_fst, ih, zipRows_drop]
      simp only [mk_fst, List.append_assoc, List.singleton_append, Prod.mk.injEq, and_true]; omega
    · rw [forT_succ_snd _ _ _ _ rfl, zipRowBody_eq, mk_fst, mk_snd, ih]
      simp only [mk_snd]
      rw [show (n + 1) * (1 + 2 * values.length) = n * (1 + 2 * values.length) + (1 + 2 * values.length)
        from Nat.succ_mul _ _]
      omega

/-- the row-building loops produce the model's `zipRows count values` … -/
theorem zipRowsT_fst (count : Nat) (values : List (List Val)) : (zipRowsT count values).1 = zipRows count values := by
  have : values.map (List.drop 0) = values := by induction values <;> simp_all
  simp [zipRowsT, zipRowLoop, this]

/-- … in exactly `count + count·(1 + 2·m)` ticks for `m` arrays: `make` of the rows, one iteration per row, and per
    row a `make` and a copy loop over the `m` arrays -/
theorem zipRowsT_snd (count : Nat) (values : List (List Val)) :
    (zipRowsT count values).2 = count + count * (1 + 2 * values.length) := by
  simp [zipRowsT, zipRowLoop]

example : zipRowsT 2 [[.bool true, .bool false, .null], [.null, .bool true]]
    = ⟨[.arr .plain [.bool true, .null], .arr .plain [.bool false, .bool true]], 2 + 2 * (1 + 2 * 2)⟩ := by rfl

/-! ### the argument loop and the whole builtin

  The evaluations of the arguments `e.evaluate(arg, current, variables)` are the parameter `argTs`, one computation in
  the tick monad per argument. -/

/-- `math.MaxInt` on a 64-bit platform: the initial `count` (evaluator.go:1047) -/
def zipMaxInt : Nat := 2 ^ 63 - 1

/-- the elements of an array value -/
def zipElems : Val → List Val
  | .arr _ xs => xs
  | _ => []

/-- the body of evaluator.go:1049: `value, err := e.evaluate(arg, current, variables); if err != nil { return nil, err };
    a, ok := value.([]any); if !ok { return nil, &InvalidTypeError{…} }; if l := len(a); l < count { count = l };
    values[i] = a`; the state is `(count, values)` (the values keep their tag for the model's bookkeeping) -/
def zipArgBody (aT : T (Res Val)) (s : Nat × List Val) : T ((Nat × List Val) ⊕ Res Val) := do
  match ← aT with
  | .ok v =>
    match v with
    | .arr t xs => pure (.inl (min s.1 xs.length, s.2 ++ [.arr t xs]))
    | _ => pure (.inr errType)
  | e => pure (.inr (failAs e))

/-- evaluator.go:1049 `for i, arg := range node.Arguments { … }` -/
def zipArgLoopT (argTs : List (T (Res Val))) (s : Nat × List Val) : T ((Nat × List Val) ⊕ Res Val) :=
  rangeBrkT zipArgBody argTs s

/-- the `zip` builtin from the loop evaluator.go:1049 on, with the initial value `c0` of `count` as a parameter -/
def zipFromT (c0 : Nat) (argTs : List (T (Res Val))) : T (Res Val) := do
  allocT argTs.length                                     -- evaluator.go:1048 `values := make([][]any, len(node.Arguments))`
  match ← zipArgLoopT argTs (c0, []) with                 -- evaluator.go:1049
  | .inr e => pure e
  | .inl (count, vals) => do
    let rows ← zipRowsT count (vals.map zipElems)         -- evaluator.go:1070-1078
    pure (do let _ ← zipArgs vals; pure (.arr .plain rows))

/-- the `zip` builtin, evaluator.go:1046-1081: `count := math.MaxInt` (evaluator.go:1047) and the rest.  The last line
    of `zipFromT` applies the model's `zipArgs` check (an argument that is an array in map order makes the result
    order-dependent: `nondet`) — model bookkeeping, not work that Go does. -/
def zipT (argTs : List (T (Res Val))) : T (Res Val) := zipFromT zipMaxInt argTs

/-- the model's `ievalZip` on the outcomes of the evaluations of the arguments -/
def zipEvalModel : List (Res Val) → Res (List Val)
  | [] => .ok []
  | r :: rs => do
    let v ← r
    match v with
    | .arr _ _ => do
      let vs ← zipEvalModel rs
      pure (v :: vs)
    | _ => errType

/-- the model's `zip` on evaluated arguments (the tail of the `.zip` case of `ieval`) -/
def zipModel (vs : List Val) : Res Val := do
  let cols ← zipArgs vs
  match cols with
  | [] => pure (.arr .plain [])
  | c :: cs =>
    let count := cs.foldl (fun m x => min m x.length) c.length
    pure (.arr .plain (zipRows count cols))

theorem ievalZip_eq_zipEvalModel (root : Val) (cur : Val) (env : Env) : ∀ (ns : List INode),
    ievalZip root ns cur env = zipEvalModel (ns.map (fun n => ieval root n cur env)) := by
  intro ns
  induction ns with
  | nil => simp [ievalZip, zipEvalModel]
  | cons n ns ih =>
    simp only [ievalZip, List.map_cons, zipEvalModel, ih]
    cases ieval root n cur env with
    | ok v => cases v <;> rfl
    | _ => rfl

/-- `zipEvalModel` + `zipModel` IS the model's evaluation of a `zip` node -/
theorem ieval_zip_eq (root : Val) (args : List INode) (cur : Val) (env : Env) :
    ieval root (.zip args) cur env
      = (do let vs ← zipEvalModel (args.map (fun n => ieval root n cur env)); zipModel vs) := by
  rw [ieval, ievalZip_eq_zipEvalModel]; rfl

theorem zipArgLoopT_fst : ∀ (argTs : List (T (Res Val))) (count : Nat) (vals : List Val),
    (zipArgLoopT argTs (count, vals)).1 = (match zipEvalModel (argTs.map (·.1)) with
      | .ok vs => .inl (vs.foldl (fun m v => min m (zipElems v).length) count, vals ++ vs)
      | e => .inr (failAs e)) := by
  intro argTs
  induction argTs with
  | nil => intro count vals; simp [zipArgLoopT, rangeBrkT_nil, zipEvalModel]
  | cons aT argTs ih =>
    intro count vals
    unfold zipArgLoopT at ih ⊢
    rw [rangeBrkT_cons_fst]
    simp only [zipArgBody, bind_fst, List.map_cons, zipEvalModel]
    cases h : aT.1 with
    | ok v =>
      cases v with
      | arr t xs =>
        simp only [pure_fst, Res.ok_bind, ih]
        cases zipEvalModel (argTs.map (·.1)) <;>
          simp [Res.ok_bind, Res.err_bind, Res.panic_bind, Res.nondet_bind, Res.unmodelled_bind, zipElems, failAs]
      | _ => simp [failAs, errType]
    | _ => simp [failAs]

theorem zipArgs_ok : ∀ (vs : List Val) (cols : List (List Val)), zipArgs vs = .ok cols → cols = vs.map zipElems := by
  intro vs
  induction vs with
  | nil => intro cols h; simp [zipArgs] at h; simp [h]
  | cons v vs ih =>
    intro cols h
    cases v with
    | arr t xs =>
      simp only [zipArgs] at h
      cases hz : zipArgs vs with
      | ok cs =>
        rw [hz] at h; simp only [Res.ok_bind] at h
        cases he : enum2 t xs
        · simp only [he, Bool.false_eq_true, if_false, Res.pure_eq] at h
          injection h with h; subst h
          simp [zipElems, ih cs hz]
        · simp [he] at h
      | _ => rw [hz] at h; simp [Res.err_bind, Res.panic_bind, Res.nondet_bind, Res.unmodelled_bind] at h
    | _ => simp [zipArgs, errType] at h

theorem zipEvalModel_head (r : Res Val) (rs : List (Res Val)) (v : Val) (vs : List Val)
    (h : zipEvalModel (r :: rs) = .ok (v :: vs)) : r = .ok v ∧ ∃ t xs, v = .arr t xs := by
  simp only [zipEvalModel] at h
  cases r with
  | ok w =>
    simp only [Res.ok_bind] at h
    cases w with
    | arr t xs =>
      simp only at h
      cases hz : zipEvalModel rs with
      | ok ws => rw [hz] at h; simp only [Res.ok_bind, Res.pure_eq] at h; injection h with h; injection h with h1 h2
                 subst h1; exact ⟨rfl, t, xs, rfl⟩
      | _ => rw [hz] at h; simp [Res.err_bind, Res.panic_bind, Res.nondet_bind, Res.unmodelled_bind] at h
    | _ => simp [errType] at h
  | _ => simp [Res.err_bind, Res.panic_bind, Res.nondet_bind, Res.unmodelled_bind] at h

theorem zipEvalModel_nil_of_ok_nil : ∀ (rs : List (Res Val)), zipEvalModel rs = .ok [] → rs = [] := by
  intro rs h
  cases rs with
  | nil => rfl
  | cons r rs =>
    simp only [zipEvalModel] at h
    cases r with
    | ok w =>
      simp only [Res.ok_bind] at h
      cases w with
      | arr t xs =>
        simp only at h
        cases hz : zipEvalModel rs <;> rw [hz] at h <;>
          simp [Res.ok_bind, Res.err_bind, Res.panic_bind, Res.nondet_bind, Res.unmodelled_bind] at h
      | _ => simp [errType] at h
    | _ => simp [Res.err_bind, Res.panic_bind, Res.nondet_bind, Res.unmodelled_bind] at h

/-- The instrumented `zip` returns what the model's `zip` returns on the outcomes of the argument evaluations —
    for at least one argument (the parser's `functionVarArg`, parser.go:1348, rejects `zip()`), none of the arrays
    longer than `math.MaxInt` (no Go slice is). -/
theorem zipT_fst (argTs : List (T (Res Val))) (h0 : argTs ≠ [])
    (hlen : ∀ a ∈ argTs, ∀ t xs, a.1 = .ok (.arr t xs) → xs.length ≤ zipMaxInt) :
    (zipT argTs).1 = (do let vs ← zipEvalModel (argTs.map (·.1)); zipModel vs) := by
  simp only [zipT, zipFromT, bind_fst, zipArgLoopT_fst]
  cases hm : zipEvalModel (argTs.map (·.1)) with
  | ok vs =>
    simp only [bind_fst, pure_fst, zipRowsT_fst, Res.ok_bind, zipModel, List.append_nil, List.nil_append]
    cases hz : zipArgs vs with
    | ok cols =>
      have hc := zipArgs_ok vs cols hz
      simp only [Res.ok_bind, Res.pure_eq]
      cases argTs with
      | nil => exact absurd rfl h0
      | cons aT argTs =>
        cases vs with
        | nil => have := zipEvalModel_nil_of_ok_nil _ hm; simp at this
        | cons v vs =>
          obtain ⟨hv, t, xs, hvx⟩ := zipEvalModel_head _ _ _ _ hm
          subst hvx
          have hl := hlen aT (List.mem_cons_self) t xs hv
          subst hc
          simp only [List.map_cons, zipElems, List.foldl_cons, List.foldl_map]
          rw [Nat.min_eq_right hl]
    | _ => rfl
  | _ => simp [failAs, Res.err_bind, Res.panic_bind, Res.nondet_bind, Res.unmodelled_bind]

/-- … which is the model's evaluation of the `zip` node when the computations are the evaluations of its arguments
    (whatever ticks `cost` assigns to them) -/
theorem zipT_fst_ieval (root : Val) (args : List INode) (cur : Val) (env : Env) (cost : INode → Nat)
    (h0 : args ≠ [])
    (hlen : ∀ n ∈ args, ∀ t xs, ieval root n cur env = .ok (.arr t xs) → xs.length ≤ zipMaxInt) :
    (zipT (args.map (fun n => ⟨ieval root n cur env, cost n⟩))).1 = ieval root (.zip args) cur env := by
  rw [ieval_zip_eq, zipT_fst]
  · simp [List.map_map, Function.comp_def]
  · simpa using h0
  · intro a ha t xs h
    obtain ⟨n, hn, rfl⟩ := List.mem_map.mp ha
    exact hlen n hn t xs h

/-- the number of rows is at most the initial `count` and at most the length of every array argument -/
theorem zipArgLoopT_count_le : ∀ (argTs : List (T (Res Val))) (c0 : Nat) (vals : List Val) (count : Nat)
    (vals' : List Val), (zipArgLoopT argTs (c0, vals)).1 = .inl (count, vals') →
    count ≤ c0 ∧ ∀ a ∈ argTs, ∀ t xs, a.1 = .ok (.arr t xs) → count ≤ xs.length := by
  intro argTs
  induction argTs with
  | nil =>
    intro c0 vals count vals' h
    simp [zipArgLoopT, rangeBrkT_nil] at h
    exact ⟨by omega, by simp⟩
  | cons aT argTs ih =>
    intro c0 vals count vals' h
    unfold zipArgLoopT at ih h
    rw [rangeBrkT_cons_fst] at h
    simp only [zipArgBody, bind_fst] at h
    cases ha : aT.1 with
    | ok v =>
      rw [ha] at h
      cases v with
      | arr t xs =>
        simp only [pure_fst] at h
        obtain ⟨h1, h2⟩ := ih _ _ _ _ h
        refine ⟨by omega, ?_⟩
        intro a ham t' xs' hax
        cases List.mem_cons.mp ham with
        | inl e => subst e; rw [ha] at hax; injection hax with hax; injection hax with _ hx; subst hx; omega
        | inr e => exact h2 a e t' xs' hax
      | _ => simp at h
    | _ => rw [ha] at h; simp at h

theorem zipArgLoopT_snd_le : ∀ (argTs : List (T (Res Val))) (s : Nat × List Val),
    (zipArgLoopT argTs s).2 ≤ argTs.length + evalCost id argTs := by
  intro argTs
  induction argTs with
  | nil => intro s; simp [zipArgLoopT, rangeBrkT_nil]
  | cons aT argTs ih =>
    intro s
    unfold zipArgLoopT at ih ⊢
    rw [rangeBrkT_cons_snd, evalCost_cons, List.length_cons]
    simp only [zipArgBody, bind_fst, bind_snd, id]
    cases ha : aT.1 with
    | ok v =>
      cases v with
      | arr t xs => simp only [pure_fst, pure_snd]; have := ih (min s.1 xs.length, s.2 ++ [.arr t xs]); omega
      | _ => simp only [pure_fst, pure_snd]; omega
    | _ => simp only [pure_fst, pure_snd]; omega

theorem zipEvalModel_length : ∀ (rs : List (Res Val)) (vs : List Val), zipEvalModel rs = .ok vs → vs.length = rs.length := by
  intro rs
  induction rs with
  | nil => intro vs h; simp [zipEvalModel] at h; simp [h]
  | cons r rs ih =>
    intro vs h
    cases vs with
    | nil => have := zipEvalModel_nil_of_ok_nil _ h; simp at this
    | cons v vs =>
      simp only [zipEvalModel] at h
      cases r with
      | ok w =>
        simp only [Res.ok_bind] at h
        cases w with
        | arr t xs =>
          simp only at h
          cases hz : zipEvalModel rs with
          | ok ws =>
            rw [hz] at h; simp only [Res.ok_bind, Res.pure_eq] at h
            injection h with h; injection h with _ h2; subst h2
            simp [ih ws hz]
          | _ => rw [hz] at h; simp [Res.err_bind, Res.panic_bind, Res.nondet_bind, Res.unmodelled_bind] at h
        | _ => simp [errType] at h
      | _ => simp [Res.err_bind, Res.panic_bind, Res.nondet_bind, Res.unmodelled_bind] at h

/-- when the argument loop runs to its end, `values` has one entry per argument -/
theorem zipArgLoopT_vals_length (argTs : List (T (Res Val))) (c0 count : Nat) (vals : List Val)
    (ho : (zipArgLoopT argTs (c0, [])).1 = .inl (count, vals)) : vals.length = argTs.length := by
  have h3 := zipArgLoopT_fst argTs c0 []
  rw [ho] at h3
  cases hm : zipEvalModel (argTs.map (·.1)) with
  | ok vs =>
    rw [hm] at h3; simp only [List.nil_append] at h3
    injection h3 with h3; injection h3 with _ h3; subst h3
    simpa using zipEvalModel_length _ _ hm
  | _ => rw [hm] at h3; simp at h3

theorem zipRows_length : ∀ (n : Nat) (cols : List (List Val)), (zipRows n cols).length = n := by
  intro n
  induction n with
  | zero => intro cols; rfl
  | succ n ih => intro cols; simp [zipRows, ih]

/-- the cost of `zip` in terms of what the argument loop returns: `2·m` + evaluations for the argument loop, and
    `count·(2 + 2·m)` for the rows when it runs to its end -/
theorem zipT_snd_le_count (argTs : List (T (Res Val))) :
    (zipT argTs).2 ≤ 2 * argTs.length + evalCost id argTs + (match (zipArgLoopT argTs (zipMaxInt, [])).1 with
      | .inl s => s.1 * (2 + 2 * argTs.length)
      | .inr _ => 0) := by
  simp only [zipT, zipFromT, bind_snd, bind_fst, allocT_snd]
  have h1 := zipArgLoopT_snd_le argTs (zipMaxInt, [])
  cases ho : (zipArgLoopT argTs (zipMaxInt, [])).1 with
  | inr e => simp only [pure_snd]; omega
  | inl s =>
    obtain ⟨count, vals⟩ := s
    have hv := zipArgLoopT_vals_length argTs _ _ _ ho
    simp only [bind_snd, pure_snd, zipRowsT_snd, List.length_map, hv]
    have e1 : count * (1 + 2 * argTs.length) = count + count * (2 * argTs.length) := by
      rw [Nat.mul_add, Nat.mul_one]
    have e2 : count * (2 + 2 * argTs.length) = 2 * count + count * (2 * argTs.length) := by
      rw [Nat.mul_add]; omega
    omega

/-- `zip` of `m` arguments one of which is an array of `n` elements: at most `2·m` ticks for the argument loop,
    `n·(2 + 2·m)` ticks for the rows (there are at most `n` of them, each costs its cell in `results`, its iteration,
    its `make` and its `m` copies), and the evaluations of the arguments.  `n` can be taken as the LEAST length, so the
    bound is `≤ 2·(m·(rows + 1) + rows)` + evaluations. -/
theorem zipT_snd_le (argTs : List (T (Res Val))) (a : T (Res Val)) (ha : a ∈ argTs) (t : ATag) (xs : List Val)
    (hax : a.1 = .ok (.arr t xs)) :
    (zipT argTs).2 ≤ 2 * argTs.length + xs.length * (2 + 2 * argTs.length) + evalCost id argTs := by
  have h0 := zipT_snd_le_count argTs
  cases ho : (zipArgLoopT argTs (zipMaxInt, [])).1 with
  | inr e => rw [ho] at h0; simp only at h0; omega
  | inl s =>
    obtain ⟨count, vals⟩ := s
    rw [ho] at h0; simp only at h0
    have h2 := (zipArgLoopT_count_le argTs _ _ _ _ ho).2 a ha t xs hax
    have h4 := Nat.mul_le_mul_right (2 + 2 * argTs.length) h2
    omega

/-- the same against the RESULT: when `zip` returns an array of `rows` rows, it has spent at most
    `2·m + rows·(2 + 2·m)` ticks of its own, i.e. `≤ 2·(m·(rows + 1) + rows)`: linear in the size `rows·m` of what it
    built -/
theorem zipT_snd_le_result (argTs : List (T (Res Val))) (tg : ATag) (rows : List Val)
    (h : (zipT argTs).1 = .ok (.arr tg rows)) :
    (zipT argTs).2 ≤ 2 * argTs.length + rows.length * (2 + 2 * argTs.length) + evalCost id argTs := by
  have h0 := zipT_snd_le_count argTs
  simp only [zipT, zipFromT, bind_fst] at h
  cases ho : (zipArgLoopT argTs (zipMaxInt, [])).1 with
  | inr e => rw [ho] at h0; simp only at h0; omega
  | inl s =>
    obtain ⟨count, vals⟩ := s
    rw [ho] at h0 h; simp only at h0
    simp only [bind_fst, pure_fst, zipRowsT_fst] at h
    cases hz : zipArgs vals with
    | ok cols =>
      rw [hz] at h; simp only [Res.ok_bind, Res.pure_eq] at h
      injection h with h; injection h with _ h
      have : rows.length = count := by rw [← h, zipRows_length]
      rw [this]; omega
    | _ => rw [hz] at h; simp [Res.err_bind, Res.panic_bind, Res.nondet_bind, Res.unmodelled_bind] at h

/-- when the first argument is not an array (or fails) no row is built -/
theorem zipT_snd_le_fail (aT : T (Res Val)) (argTs : List (T (Res Val))) (h : ∀ t xs, aT.1 ≠ .ok (.arr t xs)) :
    (zipT (aT :: argTs)).2 ≤ (argTs.length + 1) + 1 + aT.2 := by
  simp only [zipT, zipFromT, bind_snd, bind_fst, allocT_snd, zipArgLoopT, List.length_cons]
  rw [rangeBrkT_cons_fst, rangeBrkT_cons_snd]
  simp only [zipArgBody, bind_fst, bind_snd]
  cases ha : aT.1 with
  | ok v =>
    cases v with
    | arr t xs => exact absurd ha (h t xs)
    | _ => simp only [pure_fst, pure_snd]; omega
  | _ => simp only [pure_fst, pure_snd]; omega

/-- `zip([true, false, null], [null, true])` with arguments that cost 5 and 6 ticks to evaluate -/
example : zipT [⟨.ok (.arr .plain [.bool true, .bool false, .null]), 5⟩, ⟨.ok (.arr .plain [.null, .bool true]), 6⟩]
    = ⟨.ok (.arr .plain [.arr .plain [.bool true, .null], .arr .plain [.bool false, .bool true]]),
       2 + (2 + 5 + 6) + (2 + 2 * (1 + 2 * 2))⟩ := by rfl

/-- What the guard of the parser is worth: `zip()` with NO argument would leave `count = math.MaxInt`
    (evaluator.go:1047) and ask for `make([]any, math.MaxInt)`.  The instrumented function says so: `2^63 - 1` cells
    and as many iterations.  (The model's `.zip []` answers `[]`; the node cannot be built from source text:
    parser.go:1348 rejects an empty argument list.  This is why `zipT_fst` assumes `argTs ≠ []`.) -/
theorem zipT_nil_snd : (zipT []).2 = zipMaxInt + zipMaxInt * 1 := by
  have h : ∀ c0 : Nat, (zipFromT c0 []).2 = c0 + c0 * 1 := by
    intro c0
    simp only [zipFromT, bind_snd, bind_fst, allocT_snd, zipArgLoopT, rangeBrkT_nil, mk_fst, mk_snd, zipRowsT_snd,
      List.length_nil, List.map_nil, pure_snd]
    omega
  exact h zipMaxInt

/-! ## `sort_by`, `max_by`, `min_by`: the key collection (array.go:336, 13, 88) -/

/-- the type check on a key: array.go:364-370 / array.go:40-46 (string mode), array.go:401-407 / array.go:71-77
    (number mode) — straight-line code, as in the model's `keysFrom` -/
def keyOf (isStr : Bool) (rv : Val) : Res Key :=
  if isStr then
    (match rv with
      | .str s => .ok (Key.s s)
      | _ => errType)
  else
    (match toDecimal rv with
      | some d => .ok (Key.n d)
      | none => errType)

theorem keysFrom_cons (f : Val → Res Val) (isStr : Bool) (x : Val) (xs : List Val) :
    keysFrom f isStr (x :: xs) = (do
      let rv ← f x
      let k ← keyOf isStr rv
      let rest ← keysFrom f isStr xs
      pure (k :: rest)) := by
  simp only [keysFrom, keyOf]
  cases f x with
  | ok rv => cases isStr <;> simp only [Res.ok_bind] <;> first | rfl | (cases rv <;> rfl) | (cases toDecimal rv <;> rfl)
  | _ => rfl

/-- the body of array.go:358 / array.go:395 (and, without the store, of array.go:34, 65, 109, 140):
    `rv, err := e.evaluate(node, v, variables); if err != nil { return nil, err }; <type check>; by[i+1] = s`
    (a store into a cell that `make` has paid for) -/
def keysFromBody (fT : Val → T (Res Val)) (isStr : Bool) (v : Val) (ks : List Key) : T (List Key ⊕ Res (List Key)) := do
  match ← fT v with
  | .ok rv =>
    match keyOf isStr rv with
    | .ok k => pure (.inl (ks ++ [k]))
    | e => pure (.inr (failAs e))
  | e => pure (.inr (failAs e))

/-- array.go:358 (strings) / array.go:395 (numbers) `for i, v := range a[1:] { … }`; `ks` holds the keys so far -/
def keysFromLoopT (fT : Val → T (Res Val)) (isStr : Bool) (xs : List Val) (ks : List Key) :
    T (List Key ⊕ Res (List Key)) :=
  rangeBrkT (keysFromBody fT isStr) xs ks

theorem keysFromLoopT_fst (fT : Val → T (Res Val)) (isStr : Bool) : ∀ (xs : List Val) (ks : List Key),
    loopOut (keysFromLoopT fT isStr xs ks).1
      = (do let rest ← keysFrom (fun x => (fT x).1) isStr xs; pure (ks ++ rest)) := by
  intro xs
  induction xs with
  | nil => intro ks; simp [keysFromLoopT, rangeBrkT_nil, keysFrom, loopOut]
  | cons x xs ih =>
    intro ks
    unfold keysFromLoopT at ih ⊢
    rw [rangeBrkT_cons_fst, keysFrom_cons]
    simp only [keysFromBody, bind_fst]
    cases h : (fT x).1 with
    | ok rv =>
      simp only [Res.ok_bind]
      cases hk : keyOf isStr rv with
      | ok k =>
        simp only [pure_fst, Res.ok_bind, ih]
        cases keysFrom (fun x => (fT x).1) isStr xs <;> simp [Res.ok_bind, Res.err_bind, Res.panic_bind, Res.nondet_bind, Res.unmodelled_bind]
      | _ => simp [failAs, loopOut, Res.err_bind, Res.panic_bind, Res.nondet_bind, Res.unmodelled_bind]
    | _ => simp [failAs, loopOut]

theorem keysFromLoopT_snd_le (fT : Val → T (Res Val)) (isStr : Bool) : ∀ (xs : List Val) (ks : List Key),
    (keysFromLoopT fT isStr xs ks).2 ≤ xs.length + evalCost fT xs := by
  intro xs
  induction xs with
  | nil => intro ks; simp [keysFromLoopT, rangeBrkT_nil]
  | cons x xs ih =>
    intro ks
    unfold keysFromLoopT at ih ⊢
    rw [rangeBrkT_cons_snd, evalCost_cons, List.length_cons]
    simp only [keysFromBody, bind_fst, bind_snd]
    cases h : (fT x).1 with
    | ok rv =>
      dsimp only
      cases hk : keyOf isStr rv with
      | ok k => simp only [pure_fst, pure_snd]; have := ih (ks ++ [k]); omega
      | _ => simp only [pure_fst, pure_snd]; omega
    | _ => simp only [pure_fst, pure_snd]; omega

/-- The key collection of `sortArrayBy` (array.go:349-410) — and, with `mk = 0`, of `arrayMaxBy`/`arrayMinBy`
    (array.go:26-83, 101-158), which keep no slice of keys.  `mk` is the size of `by := make([]string, len(a))` /
    `make([]decimal128.Decimal, len(a))` (array.go:355, 392), charged where Go allocates: after the kind of the first
    key is known. -/
def keysOfT (fT : Val → T (Res Val)) (mk : Nat) (xs : List Val) : T (Res (List Key)) :=
  match xs with
  | [] => pure (.ok [])
  | x :: rest => do
    match ← fT x with                                     -- array.go:349 `first, err := e.evaluate(node, a[0], variables)`
    | .ok first =>
      match first with
      | .str s => do
        allocT mk                                         -- array.go:355
        let o ← keysFromLoopT fT true rest [Key.s s]      -- array.go:358
        pure (loopOut o)
      | _ =>
        match toDecimal first with
        | none => pure errType
        | some d => do
          allocT mk                                       -- array.go:392
          let o ← keysFromLoopT fT false rest [Key.n d]   -- array.go:395
          pure (loopOut o)
    | e => pure (failAs e)

/-- the instrumented key collection returns the model's `keysOf` on the results of `fT` -/
theorem keysOfT_fst (fT : Val → T (Res Val)) (mk : Nat) (xs : List Val) :
    (keysOfT fT mk xs).1 = keysOf (fun x => (fT x).1) xs := by
  cases xs with
  | nil => rfl
  | cons x rest =>
    simp only [keysOfT, keysOf, bind_fst]
    cases h : (fT x).1 with
    | ok first =>
      simp only [Res.ok_bind]
      cases first with
      | str s => simp only [bind_fst, pure_fst, keysFromLoopT_fst]; rfl
      | _ =>
        simp only
        cases toDecimal _ with
        | none => rfl
        | some d => simp only [bind_fst, pure_fst, keysFromLoopT_fst]; rfl
    | _ => simp [failAs]

/-- … in at most `mk + len` ticks of its own (the `make`, one iteration per element after the first) plus the
    evaluations of the key expression -/
theorem keysOfT_snd_le (fT : Val → T (Res Val)) (mk : Nat) (xs : List Val) :
    (keysOfT fT mk xs).2 ≤ mk + xs.length + evalCost fT xs := by
  cases xs with
  | nil => simp [keysOfT]
  | cons x rest =>
    simp only [keysOfT, bind_snd, bind_fst, evalCost_cons, List.length_cons]
    cases h : (fT x).1 with
    | ok first =>
      cases first with
      | str s =>
        simp only [bind_snd, pure_snd, allocT_snd]
        have := keysFromLoopT_snd_le fT true rest [Key.s s]; omega
      | _ =>
        simp only
        cases toDecimal _ with
        | none => simp only [pure_snd]; omega
        | some d =>
          simp only [bind_snd, pure_snd, allocT_snd]
          have := keysFromLoopT_snd_le fT false rest [Key.n d]; omega
    | _ => simp only [pure_snd]; omega

/-- a key expression for the examples: the value itself, 7 ticks -/
def demoKeyT (v : Val) : T (Res Val) := do tick 7; pure (.ok v)

example : keysOfT demoKeyT 3 [.str [0x62], .str [0x61], .str [0x63]]
    = ⟨.ok [Key.s [0x62], Key.s [0x61], Key.s [0x63]], 3 + 2 + 3 * 7⟩ := by rfl
/-- the loop leaves at the first key of the wrong kind -/
example : (keysOfT demoKeyT 3 [.str [0x62], .null, .str [0x63]]).2 = 3 + 1 + 2 * 7 := by rfl

/-! ### `sortArrayBy` (array.go:336) -/

/-- `sortArrayBy`, array.go:336-419.  `sort.Stable` (array.go:380, 417) is Go LIBRARY code — insertion sort on blocks
    of 20 and in-place merging (`symMerge`), `O(n log n)` calls of `Less` and `O(n log² n)` calls of `Swap` — and is
    NOT instrumented: the call is left uncharged here, its result is the model's `sortByKeys` (the stable sort).
    `widen`, `keysDistinct`: model bookkeeping about map order. -/
def sortArrayByT (fT : Val → T (Res Val)) (v : Val) : T (Res Val) :=
  match v with
  | .arr t xs =>
    if xs.isEmpty then pure (.ok v)                       -- array.go:345
    else do
      match ← keysOfT fT xs.length xs with                -- array.go:349-410
      | .ok ks => do
        allocT xs.length                                  -- array.go:376 / 413 `slices.Clone(a)`
        -- array.go:380 / 417 `sort.Stable(r)`: library code, not charged
        pure (widen t xs [fun x => (fT x).1] [Cat.invalidType]
          (if enum2 t xs && !keysDistinct ks then .nondet else .ok (.arr .plain (sortByKeys xs ks))))
      | e => pure (widen t xs [fun x => (fT x).1] [Cat.invalidType] (failAs e))
  | _ => pure errType

/-- the instrumented `sortArrayBy` returns the model's -/
theorem sortArrayByT_fst (fT : Val → T (Res Val)) (v : Val) :
    (sortArrayByT fT v).1 = sortArrayBy (fun x => (fT x).1) v := by
  cases v with
  | arr t xs =>
    simp only [sortArrayByT, sortArrayBy]
    cases hx : xs.isEmpty
    · simp only [Bool.false_eq_true, if_false, bind_fst]
      have hk := keysOfT_fst fT xs.length xs
      cases h : (keysOfT fT xs.length xs).1 <;> rw [h] at hk <;> rw [← hk] <;> simp [failAs]
    · simp
  | _ => rfl

/-- `sortArrayBy` on `n` elements, WITHOUT the library sort: `≤ 3 n` ticks of its own (the keys slice, the
    iterations, the clone) + the evaluations of the key expression -/
theorem sortArrayByT_snd_le (fT : Val → T (Res Val)) (t : ATag) (xs : List Val) :
    (sortArrayByT fT (.arr t xs)).2 ≤ 3 * xs.length + evalCost fT xs := by
  simp only [sortArrayByT]
  cases hx : xs.isEmpty
  · simp only [Bool.false_eq_true, if_false, bind_snd, bind_fst]
    have := keysOfT_snd_le fT xs.length xs
    cases h : (keysOfT fT xs.length xs).1 <;> simp only [bind_snd, pure_snd, allocT_snd] <;> omega
  · simp

example : sortArrayByT demoKeyT (.arr .plain [.str [0x62], .str [0x61], .str [0x63]])
    = ⟨.ok (.arr .plain [.str [0x61], .str [0x62], .str [0x63]]), (3 + 2 + 3 * 7) + 3⟩ := by
  apply T.ext
  · rw [sortArrayByT_fst]
    simp [demoKeyT, sortArrayBy, widen, keysOf, keysFrom, enum2, sortByKeys, List.mergeSort, Key.lt, bytesLt]
  · rfl

/-! ### `arrayMaxBy` / `arrayMinBy` (array.go:13, 88) -/

/-- the comparison part of the loops array.go:34, 65 (max) and array.go:109, 140 (min):
    `if s > strMax { strMax = s; index = i + 1 }`; the state is (the element `a[index]`, its key) -/
def pickByT (better : Key → Key → Bool) (best : Val) (bk : Key) (pairs : List (Val × Key)) : T (Val × Key) :=
  rangeT (fun (p : Val × Key) (s : Val × Key) => pure (if better p.2 s.2 then p else s)) pairs (best, bk)

theorem pickByT_eq (better : Key → Key → Bool) : ∀ (pairs : List (Val × Key)) (best : Val) (bk : Key),
    (pickByT better best bk pairs).1.1 = pickBy better best bk pairs
      ∧ (pickByT better best bk pairs).2 = pairs.length := by
  intro pairs
  induction pairs with
  | nil => intro best bk; simp [pickByT, rangeT_nil, pickBy]
  | cons p pairs ih =>
    intro best bk
    obtain ⟨v, k⟩ := p
    unfold pickByT at ih ⊢
    rw [rangeT_cons_fst, rangeT_cons_snd]
    simp only [pure_fst, pure_snd, pickBy, List.length_cons]
    cases h : better k bk
    · simp only [Bool.false_eq_true, if_false]
      exact ⟨(ih best bk).1, by have := (ih best bk).2; omega⟩
    · simp only [if_true]
      exact ⟨(ih v k).1, by have := (ih v k).2; omega⟩

/-- `arrayMaxBy` / `arrayMinBy`, array.go:13-86 / 88-161.  Go evaluates, checks and compares in ONE loop over
    `a[1:]` (array.go:34/65, 109/140); the model collects the keys (`keysOf`) and then scans (`pickBy`).  Both passes
    of the model are instrumented, one tick per element each: an upper bound (2 ticks per element where Go's fused
    loop has one iteration).  `widen`, `uniqueExtremum`: model bookkeeping about map order. -/
def arrayPickByT (better : Key → Key → Bool) (fT : Val → T (Res Val)) (v : Val) : T (Res Val) :=
  match v with
  | .arr t xs =>
    match xs with
    | [] => pure (.ok .null)                              -- array.go:22
    | x0 :: rest => do
      match ← keysOfT fT 0 (x0 :: rest) with              -- array.go:26-46, 57-77: evaluation and type check
      | .ok (k0 :: krest) => do
        let b ← pickByT better x0 k0 (rest.zip krest)     -- array.go:48-51, 79-82: comparison
        pure (widen t (x0 :: rest) [fun x => (fT x).1] [Cat.invalidType]
          (if enum2 t (x0 :: rest) && !uniqueExtremum better (k0 :: krest) then .nondet else .ok b.1))
      | .ok [] => pure (widen t (x0 :: rest) [fun x => (fT x).1] [Cat.invalidType] (.ok .null))
      | e => pure (widen t (x0 :: rest) [fun x => (fT x).1] [Cat.invalidType] (failAs e))
  | _ => pure errType

/-- the instrumented `arrayMaxBy`/`arrayMinBy` returns the model's `arrayPickBy` -/
theorem arrayPickByT_fst (better : Key → Key → Bool) (fT : Val → T (Res Val)) (v : Val) :
    (arrayPickByT better fT v).1 = arrayPickBy better (fun x => (fT x).1) v := by
  cases v with
  | arr t xs =>
    cases xs with
    | nil => rfl
    | cons x0 rest =>
      simp only [arrayPickByT, arrayPickBy, bind_fst]
      have hk := keysOfT_fst fT 0 (x0 :: rest)
      cases h : (keysOfT fT 0 (x0 :: rest)).1 with
      | ok ks =>
        rw [h] at hk; rw [← hk]
        cases ks with
        | nil => rfl
        | cons k0 krest => simp only [bind_fst, pure_fst, Res.ok_bind, (pickByT_eq better _ x0 k0).1]
      | _ => rw [h] at hk; rw [← hk]; simp [failAs]
  | _ => rfl

/-- `max_by`/`min_by` on `n` elements: `≤ 2 n` ticks of its own + the evaluations of the key expression -/
theorem arrayPickByT_snd_le (better : Key → Key → Bool) (fT : Val → T (Res Val)) (t : ATag) (xs : List Val) :
    (arrayPickByT better fT (.arr t xs)).2 ≤ 2 * xs.length + evalCost fT xs := by
  cases xs with
  | nil => simp [arrayPickByT]
  | cons x0 rest =>
    simp only [arrayPickByT, bind_snd, bind_fst]
    have := keysOfT_snd_le fT 0 (x0 :: rest)
    cases h : (keysOfT fT 0 (x0 :: rest)).1 with
    | ok ks =>
      cases ks with
      | nil => simp only [pure_snd]; omega
      | cons k0 krest =>
        simp only [bind_snd, pure_snd, (pickByT_eq better _ x0 k0).2, List.length_zip]
        have : min rest.length krest.length ≤ rest.length := Nat.min_le_left _ _
        simp only [List.length_cons] at *
        omega
    | _ => simp only [pure_snd]; omega

/-- `arrayMaxBy` -/
def arrayMaxByT := arrayPickByT Key.gtMax
/-- `arrayMinBy` -/
def arrayMinByT := arrayPickByT Key.ltMin

theorem arrayMaxByT_fst (fT : Val → T (Res Val)) (v : Val) :
    (arrayMaxByT fT v).1 = arrayMaxBy (fun x => (fT x).1) v := arrayPickByT_fst _ fT v
theorem arrayMinByT_fst (fT : Val → T (Res Val)) (v : Val) :
    (arrayMinByT fT v).1 = arrayMinBy (fun x => (fT x).1) v := arrayPickByT_fst _ fT v

example : arrayMaxByT demoKeyT (.arr .plain [.str [0x62], .str [0x63], .str [0x61]])
    = ⟨.ok (.str [0x63]), (0 + 2 + 3 * 7) + 2⟩ := by rfl

end Jmes.C09C
