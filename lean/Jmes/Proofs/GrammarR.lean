/-
  Parser ⟷ grammar, part 5: what follows a projection (C01: "a projection's right-hand side extends over following
  selectors until a pipe, a lower-precedence operator or a closing bracket").  In a well-formed tree, every projection
  form — and therefore its right-hand side — is followed by a token of `isRhsFollower`.
-/
import Jmes.Proofs.GrammarF2
namespace Jmes.GrammarR
open Jmes Jmes.Parser Jmes.Pratt Jmes.Grammar Jmes.GrammarF0 Jmes.GrammarF2
set_option linter.unusedSimpArgs false

/-- the tokens that may follow any sub-tree: the followers of a projection, and the selector tokens -/
def isFollower (t : TokenType) : Bool :=
  isRhsFollower t || t == .dot || t == .objectWildcard || t == .filter || t == .arrayWildcard || t == .openSqBrace

/-- `nx` may follow `t`: it is a follower token and is not absorbed at the right edge of `t` -/
def Fol (t : PTree) (nx : Token) : Prop := isFollower nx.type = true ∧ precedence nx.type ≤ rlevel t

def AllF (l : List Token) : Prop := ∀ x ∈ l, isRhsFollower x.type = true

theorem allF_nil : AllF [] := fun _ h => by cases h
theorem allF_cons {a : Token} {l : List Token} : AllF (a :: l) ↔ isRhsFollower a.type = true ∧ AllF l := by
  simp [AllF]
theorem allF_append {a b : List Token} : AllF (a ++ b) ↔ AllF a ∧ AllF b := by
  simp only [AllF, List.mem_append]
  constructor
  · intro h; exact ⟨fun x hx => h x (Or.inl hx), fun x hx => h x (Or.inr hx)⟩
  · rintro ⟨h1, h2⟩ x (hx | hx)
    · exact h1 x hx
    · exact h2 x hx

def QR (t : PTree) : Prop := ∀ b nx, wp b t = true → Fol t nx → AllF (projFollowers b t nx)
def PR (x : PTree) : Prop := QR x ∧ ∀ t, x = .ref t → QR t

theorem rhsFollower_of {ty : TokenType} (h1 : isFollower ty = true) (h2 : precedence ty ≤ lvlProj) :
    isRhsFollower ty = true := by
  cases ty <;> simp [precedence, lvlProj] at h2 <;> first | rfl | simp [isFollower, isRhsFollower, binLevel] at h1

theorem follower_of_bin {ty : TokenType} {lvl : Nat} (h : binLevel ty = some lvl) : isFollower ty = true := by
  cases ty <;> simp [binLevel] at h <;> rfl

theorem prec_le_one {ty : TokenType} (h : precedence ty ≤ 1) : precedence ty = 0 := by
  cases ty <;> simp [precedence] at h ⊢

theorem left_fol {b : Bool} {l : PTree} {X : Bool} {lvl : Nat} {tok : Token} (hl : QR l)
    (h : (if l.isIcur = true then X else wp b l && decide (lvl ≤ rlevel l)) = true)
    (htok : isFollower tok.type = true) (hprec : precedence tok.type = lvl) : AllF (projFollowers b l tok) := by
  rcases left_cases h with ⟨rfl, _⟩ | ⟨_, hw, hle⟩
  · exact allF_nil
  · exact hl b tok hw ⟨htok, by rw [hprec]; exact hle⟩

theorem rhs_fol {rhs : PTree} {nx : Token} (hr : QR rhs)
    (h : (rhs.isIcur || (wp true rhs && decide (lvlProj < llevel rhs))) = true)
    (hnx : isFollower nx.type = true) (h9 : precedence nx.type ≤ lvlProj) : AllF (projFollowers true rhs nx) := by
  cases hi : rhs.isIcur
  · simp only [hi, Bool.false_or, Bool.and_eq_true, decide_eq_true_eq] at h
    exact hr true nx h.1 ⟨hnx, Nat.le_trans h9 (rlevel_rhs h.1 h.2)⟩
  · rw [isIcur_eq hi]; exact allF_nil

theorem elem_fol {e : PTree} {tok : Token} (he : QR e) (hw : wp false e = true) (h0 : precedence tok.type = 0)
    (hf : isFollower tok.type = true) : AllF (projFollowers false e tok) :=
  he false tok hw ⟨hf, by rw [h0]; exact Nat.zero_le _⟩

theorem sep_fol {close : Token} (h0 : precedence close.type = 0) (hf : isFollower close.type = true) :
    ∀ {es : List PTree}, (∀ e ∈ es, QR e ∧ wp false e = true) → AllF (projFollowersSep es close)
  | [], _ => allF_nil
  | [e], h => by
    simp only [projFollowersSep]
    exact elem_fol (h e (by simp)).1 (h e (by simp)).2 h0 hf
  | e :: e' :: es, h => by
    simp only [projFollowersSep, allF_append]
    exact ⟨elem_fol (h e (by simp)).1 (h e (by simp)).2 rfl rfl, sep_fol h0 hf fun x hx => h x (by simp [hx])⟩

theorem kvs_fol {close : Token} (h0 : precedence close.type = 0) (hf : isFollower close.type = true) :
    ∀ {kvs : List (Token × PTree)}, (∀ kv ∈ kvs, QR kv.2 ∧ wp false kv.2 = true) →
      AllF (projFollowersKVs kvs close)
  | [], _ => allF_nil
  | [(k, e)], h => by
    simp only [projFollowersKVs]
    exact elem_fol (h (k, e) (by simp)).1 (h (k, e) (by simp)).2 h0 hf
  | (k, e) :: kv :: kvs, h => by
    simp only [projFollowersKVs, allF_append]
    exact ⟨elem_fol (h (k, e) (by simp)).1 (h (k, e) (by simp)).2 rfl rfl,
      kvs_fol h0 hf fun x hx => h x (by simp [hx])⟩

macro "fol_close" : tactic => `(tactic|
  (simp only [projFollowers, allF_cons, allF_append]
   repeat' apply And.intro
   all_goals first | exact allF_nil | assumption))

theorem pr_of_qr {t : PTree} (h : QR t) (hn : ∀ x, t ≠ .ref x) : PR t := ⟨h, fun x hx => absurd hx (hn x)⟩

theorem followers_all : ∀ t, PR t := by
  apply PTree.ind
  · exact pr_of_qr (fun b nx h => by simp [wp] at h) (fun _ h => by cases h)
  · exact fun t => pr_of_qr (fun b nx _ _ => allF_nil) (fun _ h => by cases h)
  · refine fun t ht => pr_of_qr (fun b nx h hf => ?_) (fun _ h => by cases h)
    simp only [wp, Bool.and_eq_true] at h
    have := elem_fol ht.1 h.2 (tok := tRParen) rfl rfl
    fol_close
  · refine fun t ht => pr_of_qr (fun b nx h hf => ?_) (fun _ h => by cases h)
    simp only [wp, Bool.and_eq_true] at h
    have := ht.1 false nx h.1.2 ⟨hf.1, Nat.le_trans hf.2 (Nat.min_le_right _ _)⟩
    fol_close
  · refine fun tok t ht => pr_of_qr (fun b nx h hf => ?_) (fun _ h => by cases h)
    simp only [wp, Bool.and_eq_true] at h
    have := ht.1 false nx h.1.2 ⟨hf.1, Nat.le_trans hf.2 (Nat.min_le_right _ _)⟩
    fol_close
  · refine fun t ht => pr_of_qr (fun b nx h hf => ?_) (fun _ h => by cases h)
    simp only [wp, Bool.and_eq_true] at h
    have := ht.1 false nx h.1.2 ⟨hf.1, Nat.le_trans hf.2 (Nat.min_le_right _ _)⟩
    fol_close
  · refine fun op l r hl hr => pr_of_qr (fun b nx h hf => ?_) (fun _ h => by cases h)
    simp only [wp] at h
    split at h
    · cases h
    · rename_i lvl hlvl
      simp only [Bool.and_eq_true, Bool.not_eq_true', decide_eq_true_eq] at h
      have hfo : isFollower op.type = true := follower_of_bin hlvl
      have := hl.1 b op h.1.1.1.2 ⟨hfo, by rw [binLevel_precedence hlvl]; exact h.1.1.2⟩
      have := hr.1 false nx h.1.2 ⟨hf.1, by
        have := hf.2; simp only [rlevel, hlvl, Option.getD_some] at this
        exact Nat.le_trans this (Nat.min_le_right _ _)⟩
      fol_close
  · refine fun l r hl hr => pr_of_qr (fun b nx h hf => ?_) (fun _ h => by cases h)
    simp only [wp, Bool.and_eq_true] at h
    have := left_fol (tok := tDot) hl.1 h.1.1.1 rfl rfl
    have := hr.1 false nx h.1.1.2 ⟨hf.1, Nat.le_trans hf.2 (Nat.min_le_right _ _)⟩
    fol_close
  · refine fun l es hl hes => pr_of_qr (fun b nx h hf => ?_) (fun _ h => by cases h)
    simp only [wp, Bool.and_eq_true] at h
    have := left_fol (tok := tDot) hl.1 h.1.1 rfl rfl
    have := sep_fol (close := tRBracket) rfl rfl fun e he => ⟨(hes e he).1, mem_wpL h.2 e he⟩
    fol_close
  · refine fun l kvs hl hes => pr_of_qr (fun b nx h hf => ?_) (fun _ h => by cases h)
    simp only [wp, Bool.and_eq_true] at h
    have := left_fol (tok := tDot) hl.1 h.1.1 rfl rfl
    have := kvs_fol (close := tRBrace) rfl rfl fun e he => ⟨(hes e he).1, (mem_wpKVs h.2 e he).2⟩
    fol_close
  · refine fun l hl => pr_of_qr (fun b nx h hf => ?_) (fun _ h => by cases h)
    simp only [wp] at h
    have := left_fol (tok := tDot) hl.1 h rfl rfl
    fol_close
  · refine fun l n hl => pr_of_qr (fun b nx h hf => ?_) (fun _ h => by cases h)
    simp only [wp, Bool.and_eq_true] at h
    have := left_fol (tok := tLBracket) hl.1 h.1 rfl rfl
    fol_close
  · refine fun name args hargs => pr_of_qr (fun b nx h hf => ?_) (fun _ h => by cases h)
    simp only [wp, Bool.and_eq_true] at h
    have hwa : ∀ {es : List PTree}, wpArgs es = true → ∀ e ∈ es, wp false (unref e) = true := by
      intro es
      induction es with
      | nil => intro _ e he; cases he
      | cons x xs ih =>
        intro hw e he
        rw [wpArgs_cons, Bool.and_eq_true] at hw
        rcases List.mem_cons.1 he with rfl | he
        · exact hw.1
        · exact ih hw.2 e he
    -- an argument `&e` has the followers of `e`
    have hsep : ∀ {es : List PTree}, (∀ e ∈ es, PR e ∧ wp false (unref e) = true) →
        AllF (projFollowersSep es tRParen) := by
      intro es
      induction es with
      | nil => intro _; exact allF_nil
      | cons e es ih =>
        intro h
        have he := h e (by simp)
        have one : ∀ tok : Token, precedence tok.type = 0 → isFollower tok.type = true →
            AllF (projFollowers false e tok) := by
          intro tok h0 hf
          cases hr : e.isRef
          · rw [unref_of_not hr] at he
            exact elem_fol he.1.1 he.2 h0 hf
          · obtain ⟨x, rfl⟩ := isRef_eq hr
            simp only [projFollowers]
            exact elem_fol (he.1.2 x rfl) he.2 h0 hf
        cases es with
        | nil => simp only [projFollowersSep]; exact one _ rfl rfl
        | cons e' es =>
          simp only [projFollowersSep, allF_append]
          exact ⟨one _ rfl rfl, ih fun x hx => h x (by simp [hx])⟩
    have := hsep fun e he => ⟨hargs e he, hwa h.2 e he⟩
    fol_close
  · exact fun t ht => ⟨fun b nx h => by simp [wp] at h, fun x hx => by cases hx; exact ht.1⟩
  · refine fun bs body hbs hb => pr_of_qr (fun b nx h hf => ?_) (fun _ h => by cases h)
    simp only [wp, Bool.and_eq_true] at h
    have := kvs_fol (close := tIn) rfl rfl fun e he => ⟨(hbs e he).1, (mem_wpKVs h.1.2 e he).2⟩
    have := hb.1 false nx h.2 ⟨hf.1, by
      have := hf.2; simp only [rlevel, lvlLet] at this
      rw [prec_le_one this]; exact Nat.zero_le _⟩
    fol_close
  · refine fun es hes => pr_of_qr (fun b nx h hf => ?_) (fun _ h => by cases h)
    simp only [wp, Bool.and_eq_true] at h
    have := sep_fol (close := tRBracket) rfl rfl fun e he => ⟨(hes e he).1, mem_wpL h.2 e he⟩
    fol_close
  · refine fun kvs hes => pr_of_qr (fun b nx h hf => ?_) (fun _ h => by cases h)
    simp only [wp, Bool.and_eq_true] at h
    have := kvs_fol (close := tRBrace) rfl rfl fun e he => ⟨(hes e he).1, (mem_wpKVs h.2 e he).2⟩
    fol_close
  · refine fun l rhs hl hr => pr_of_qr (fun b nx h hf => ?_) (fun _ h => by cases h)
    simp only [wp, Bool.and_eq_true] at h
    have h9 : precedence nx.type ≤ lvlProj := hf.2
    have := rhsFollower_of hf.1 h9
    have := left_fol (tok := tArrayStar) hl.1 h.1 rfl rfl
    have := rhs_fol hr.1 h.2 hf.1 h9
    fol_close
  · refine fun l rhs hl hr => pr_of_qr (fun b nx h hf => ?_) (fun _ h => by cases h)
    simp only [wp, Bool.and_eq_true] at h
    have h9 : precedence nx.type ≤ lvlProj := hf.2
    have := rhsFollower_of hf.1 h9
    have := left_fol (tok := tDotStar) hl.1 h.1 rfl rfl
    have := rhs_fol hr.1 h.2 hf.1 h9
    fol_close
  · refine fun l rhs hl hr => pr_of_qr (fun b nx h hf => ?_) (fun _ h => by cases h)
    simp only [wp, Bool.and_eq_true] at h
    have h9 : precedence nx.type ≤ lvlProj := hf.2
    have := rhsFollower_of hf.1 h9
    have := left_fol (tok := tFlatten) hl.1 h.1 rfl rfl
    have := rhs_fol hr.1 h.2 hf.1 h9
    fol_close
  · refine fun l c rhs hl hc hr => pr_of_qr (fun b nx h hf => ?_) (fun _ h => by cases h)
    simp only [wp, Bool.and_eq_true] at h
    have h9 : precedence nx.type ≤ lvlProj := hf.2
    have := rhsFollower_of hf.1 h9
    have := left_fol (tok := tFilter) hl.1 h.1.1 rfl rfl
    have := elem_fol hc.1 h.1.2 (tok := tRBracket) rfl rfl
    have := rhs_fol hr.1 h.2 hf.1 h9
    fol_close
  · refine fun l a bb c rhs hl hr => pr_of_qr (fun b nx h hf => ?_) (fun _ h => by cases h)
    simp only [wp, Bool.and_eq_true] at h
    have h9 : precedence nx.type ≤ lvlProj := hf.2
    have := rhsFollower_of hf.1 h9
    have := left_fol (tok := tLBracket) hl.1 h.1.1 rfl rfl
    have := rhs_fol hr.1 h.2 hf.1 h9
    fol_close

/-- **in a well-formed tree, every projection — hence every right-hand side — is followed by `)`, `]`, `}`, `,`, `in`,
    a binary operator, `[]`, or the end of the input** -/
theorem rhs_followers {t : PTree} (h : WellPrec t) :
    ∀ x ∈ projFollowers false t ⟨.end, []⟩, isRhsFollower x.type = true :=
  (followers_all t).1 false ⟨.end, []⟩ h ⟨rfl, Nat.zero_le _⟩

end Jmes.GrammarR
