/-
  Helper for Jmes/Properties/C15E.lean: the main induction. For every node `n` the model's outcome and the outcome
  of every run stand in the relation announced by `kind n` (`KRel`).
-/
import Jmes.Proofs.C15ELemmas
set_option linter.unusedVariables false
set_option linter.constructorNameAsVariable false
namespace Jmes.C15E
open Jmes Invar Jmes.C15C

/-- a call of arity one on a source of any classified kind -/
theorem call1_tri (π : Oracle) (f : Fn) (hcov : Fn.coveredM f = true) {S S' : Val → Prop} {r r' : Res Val}
    (h : Tri S r r') (hd : ∀ a, S a → Res.Def S' (applyFn f [a])) :
    Tri S' (r >>= fun v => applyFn f [v]) (r' >>= fun v => applyFnO π f [v]) :=
  Tri.bind h fun a a' hs hc => tri_applyFn π f hcov (concL1 hc) (hd a hs)

mutual
theorem kind_sim {root : Val} (hroot : root.Good true = true) :
    ∀ (n : INode) (cur : Val) (env : Env), cur.Good true = true → Val.GoodF true env = true → ∀ π : Oracle,
      KRel (kind n) (ieval root n cur env) (ievalO π root n cur env)
  | .lit v, cur, env, hc, hv, π => by
    simp only [kind]
    intro hne
    obtain ⟨hg, e⟩ := ite_ne hne
    rw [e]
    exact Tri.of_simR (SimS.ok hg)
  | .current, cur, env, hc, hv, π => KRel.of_simR (SimS.ok hc)
  | .root, cur, env, hc, hv, π => KRel.of_simR (SimS.ok hroot)
  | .field k, cur, env, hc, hv, π => KRel.of_simR (SimS.ok (field_good k hc))
  | .variable name, cur, env, hc, hv, π => by
    refine KRel.of_simR ?_
    simp only [ieval, ievalO, Env.get]
    cases hl : objLookup name env with
    | none => exact SimS.err1 _
    | some v => exact SimS.ok (good_objLookup hv hl)
  | .binop op l r, cur, env, hc, hv, π => by
    simp only [kind]
    intro hne
    obtain ⟨hl, hr, e⟩ := pp_ne hne
    refine Tri.of_simR_eq e ?_
    simp only [ieval, ievalO]
    exact SimS.bind ((kind_sim hroot l cur env hc hv _).simR_of hl) fun a ha =>
      SimS.bind ((kind_sim hroot r cur env hc hv _).simR_of hr) fun b hb => SimS.of_sat (applyBinOp_sat op ha hb)
  | .and l r, cur, env, hc, hv, π => by
    simp only [kind]
    intro hne
    obtain ⟨hl, hr, e⟩ := pp_ne hne
    refine Tri.of_simR_eq e ?_
    simp only [ieval, ievalO]
    refine SimS.bind ((kind_sim hroot l cur env hc hv _).simR_of hl) fun a ha => ?_
    cases hb : isTrue a <;> simp only [Bool.not_false, Bool.not_true, if_true, Bool.false_eq_true, if_false]
    · exact SimS.pure ha
    · exact (kind_sim hroot r cur env hc hv _).simR_of hr
  | .or l r, cur, env, hc, hv, π => by
    simp only [kind]
    intro hne
    obtain ⟨hl, hr, e⟩ := pp_ne hne
    refine Tri.of_simR_eq e ?_
    simp only [ieval, ievalO]
    refine SimS.bind ((kind_sim hroot l cur env hc hv _).simR_of hl) fun a ha => ?_
    cases hb : isTrue a <;> simp only [if_true, Bool.false_eq_true, if_false]
    · exact (kind_sim hroot r cur env hc hv _).simR_of hr
    · exact SimS.pure ha
  | .not c, cur, env, hc, hv, π => by
    simp only [kind]
    intro hne
    obtain ⟨hs, e⟩ := consK_ne hne
    rw [e]
    simp only [ieval, ievalO]
    refine Tri.bind ((kind_sim hroot c cur env hc hv _).tri hs) fun a a' _ hcc => ?_
    rw [conc_isTrue hcc]
    exact Tri.pure (good_bool (s := true)) (conc_refl _ good_bool)
  | .negate c, cur, env, hc, hv, π => by
    simp only [kind]
    intro hne
    obtain ⟨hk, e⟩ := pOnly_ne hne
    refine Tri.of_simR_eq e ?_
    simp only [ieval, ievalO]
    exact SimS.bind ((kind_sim hroot c cur env hc hv _).simR_of hk) fun a ha => SimS.pure (negateVal_good a)
  | .assertNumber c, cur, env, hc, hv, π => by
    simp only [kind]
    intro hne
    obtain ⟨hk, e⟩ := pOnly_ne hne
    refine Tri.of_simR_eq e ?_
    simp only [ieval, ievalO]
    refine SimS.bind ((kind_sim hroot c cur env hc hv _).simR_of hk) fun a ha => SimS.pure ?_
    split
    · exact ha
    · rfl
  | .call f args, cur, env, hc, hv, π => by
    have H := kindL_all hroot args
    simp only [kind]
    intro hne
    by_cases hgen : (!Fn.enumerates f && allP (kindL args)) = true
    · -- every argument is plain and the builtin does not enumerate
      have e : callKd f (kindL args) = .plain := by simp only [callKd, hgen, if_true]
      refine Tri.of_simR_eq e ?_
      simp only [Bool.and_eq_true, Bool.not_eq_true'] at hgen
      simp only [ieval, ievalO]
      refine SimS.bind (list_simS hc hv args H hgen.2 _) fun vs hvs => ?_
      rw [applyFnO_eq _ hgen.1]
      exact SimS.of_sat (applyFn_sat f (fun _ => hgen.1) hvs)
    · have e : callKd f (kindL args) = callSpecial f (kindL args) := by simp only [callKd, hgen]; rfl
      rw [e] at hne ⊢
      cases f <;> try (exact absurd rfl hne)
      case keys =>
        obtain ⟨s, hks, e1⟩ := one_ne hne
        rw [callSpecial, e1] at hne ⊢
        obtain ⟨hs, e2⟩ := ifPlain_ne hne
        rw [e2]
        obtain ⟨c, rfl, hkc⟩ := kindL_one hks
        rw [ieval_call1, ievalO_call1]
        exact call1_tri _ _ rfl (Tri.of_simR ((H c (by simp) cur env hc hv _).simR_of (hkc.trans hs)))
          fun a ha => keys_def ha
      case values =>
        obtain ⟨s, hks, e1⟩ := one_ne hne
        rw [callSpecial, e1] at hne ⊢
        obtain ⟨hs, e2⟩ := ifPlain_ne hne
        rw [e2]
        obtain ⟨c, rfl, hkc⟩ := kindL_one hks
        rw [ieval_call1, ievalO_call1]
        exact call1_tri _ _ rfl (Tri.of_simR ((H c (by simp) cur env hc hv _).simR_of (hkc.trans hs)))
          fun a ha => values_def ha
      case items =>
        obtain ⟨s, hks, e1⟩ := one_ne hne
        rw [callSpecial, e1] at hne ⊢
        obtain ⟨hs, e2⟩ := ifPlain_ne hne
        rw [e2]
        obtain ⟨c, rfl, hkc⟩ := kindL_one hks
        rw [ieval_call1, ievalO_call1]
        exact call1_tri _ _ rfl (Tri.of_simR ((H c (by simp) cur env hc hv _).simR_of (hkc.trans hs)))
          fun a ha => items_def ha
      case length =>
        obtain ⟨s, hks, e1⟩ := one_ne hne
        rw [callSpecial, e1] at hne ⊢
        obtain ⟨hs, e2⟩ := consK_ne hne
        rw [e2]
        obtain ⟨c, rfl, hkc⟩ := kindL_one hks
        rw [ieval_call1, ievalO_call1]
        exact call1_tri _ _ rfl ((H c (by simp) cur env hc hv _).tri (hkc ▸ hs)) fun a _ => length_def a
      case type =>
        obtain ⟨s, hks, e1⟩ := one_ne hne
        rw [callSpecial, e1] at hne ⊢
        obtain ⟨hs, e2⟩ := consK_ne hne
        rw [e2]
        obtain ⟨c, rfl, hkc⟩ := kindL_one hks
        rw [ieval_call1, ievalO_call1]
        exact call1_tri _ _ rfl ((H c (by simp) cur env hc hv _).tri (hkc ▸ hs)) fun a _ => type_def a
      case contains =>
        obtain ⟨s, y, hks, e1⟩ := two_ne hne
        rw [callSpecial, e1] at hne ⊢
        obtain ⟨hy, e2⟩ := ifPlain_ne hne
        rw [e2] at hne ⊢
        obtain ⟨hs, e3⟩ := consK_ne hne
        rw [e3]
        obtain ⟨c, d, rfl, hkc, hkd⟩ := kindL_two hks
        rw [ieval_call2, ievalO_call2]
        refine Tri.bind ((H c (by simp) cur env hc hv _).tri (hkc ▸ hs)) fun a a' hsa hca => ?_
        refine Tri.bindP ((H d (by simp) cur env hc hv _).simR_of (hkd.trans hy)) fun b hb => ?_
        exact tri_applyFn _ _ rfl (concL2 hca (conc_refl b hb)) (contains_def (hkc ▸ hsa : Shape s a).top hb)
      case sort =>
        obtain ⟨s, hks, e1⟩ := one_ne hne
        rw [callSpecial, e1] at hne ⊢
        obtain ⟨hs, e2⟩ := ifKeys_ne hne
        rw [e2]
        obtain ⟨c, rfl, hkc⟩ := kindL_one hks
        rw [ieval_call1, ievalO_call1]
        have hk : kind c = .keys := hkc.trans hs
        have ih := (H c (by simp) cur env hc hv ((π.sub 0).sub 0)).tri (by rw [hk]; decide)
        rw [hk] at ih
        exact call1_tri _ _ rfl ih fun a ha => sort_def ha
      case max =>
        obtain ⟨s, hks, e1⟩ := one_ne hne
        rw [callSpecial, e1] at hne ⊢
        obtain ⟨hs, e2⟩ := ifKeys_ne hne
        rw [e2]
        obtain ⟨c, rfl, hkc⟩ := kindL_one hks
        rw [ieval_call1, ievalO_call1]
        have hk : kind c = .keys := hkc.trans hs
        have ih := (H c (by simp) cur env hc hv ((π.sub 0).sub 0)).tri (by rw [hk]; decide)
        rw [hk] at ih
        exact Tri.bind ih fun a a' ha hca => arrayMax_tri_keys ha hca
      case min =>
        obtain ⟨s, hks, e1⟩ := one_ne hne
        rw [callSpecial, e1] at hne ⊢
        obtain ⟨hs, e2⟩ := ifKeys_ne hne
        rw [e2]
        obtain ⟨c, rfl, hkc⟩ := kindL_one hks
        rw [ieval_call1, ievalO_call1]
        have hk : kind c = .keys := hkc.trans hs
        have ih := (H c (by simp) cur env hc hv ((π.sub 0).sub 0)).tri (by rw [hk]; decide)
        rw [hk] at ih
        exact Tri.bind ih fun a a' ha hca => arrayMin_tri_keys ha hca
      case reverse =>
        obtain ⟨s, hks, e1⟩ := one_ne hne
        rw [callSpecial, e1] at hne ⊢
        have hs := keepK_ne hne
        obtain ⟨c, rfl, hkc⟩ := kindL_one hks
        rw [ieval_call1, ievalO_call1]
        have ih := (H c (by simp) cur env hc hv ((π.sub 0).sub 0)).tri (hkc ▸ hs)
        rw [hkc] at ih
        exact call1_tri _ _ rfl ih fun a ha => reverse_def ha
      case toArray =>
        obtain ⟨s, hks, e1⟩ := one_ne hne
        rw [callSpecial, e1] at hne ⊢
        have hs := keepK_ne hne
        obtain ⟨c, rfl, hkc⟩ := kindL_one hks
        rw [ieval_call1, ievalO_call1]
        have ih := (H c (by simp) cur env hc hv ((π.sub 0).sub 0)).tri (hkc ▸ hs)
        rw [hkc] at ih
        exact call1_tri _ _ rfl ih fun a ha => toArray_shape ha
      case join =>
        obtain ⟨s, y, hks, e1⟩ := two_ne hne
        rw [callSpecial, e1] at hne ⊢
        obtain ⟨hs, e2⟩ := ifPlain_ne hne
        rw [e2] at hne ⊢
        obtain ⟨hy, e3⟩ := ifSorted_ne hne
        rw [e3]
        obtain ⟨c, d, rfl, hkc, hkd⟩ := kindL_two hks
        rw [ieval_call2, ievalO_call2]
        refine Tri.bindP ((H c (by simp) cur env hc hv _).simR_of (hkc.trans hs)) fun a ha => ?_
        have hk : kind d = .sorted := hkd.trans hy
        have ih := (H d (by simp) cur env hc hv (((π.sub 0).sub 1).sub 0)).tri (by rw [hk]; decide)
        rw [hk] at ih
        exact Tri.bind ih fun b b' hb hcb => tri_applyFn _ _ rfl (concL2 (conc_refl a ha) hcb) (join_def hb)
  | .defineVariables vars child, cur, env, hc, hv, π => by
    have H := kindF_all hroot vars
    simp only [kind]
    intro hne
    obtain ⟨hcnd, e⟩ := ite_ne hne
    rw [e] at hne ⊢
    simp only [Bool.and_eq_true, decide_eq_true_eq] at hcnd
    simp only [ieval, ievalO]
    rw [ievalFields_eq_combineAll]
    exact Tri.bindP (members_simS (members_rel hc hv vars H hcnd.2 _)
      (by rw [memberOutcomes_keys]; exact hcnd.1) (Oracle.order_perm _ _)) fun bs hbs =>
      (kind_sim hroot child cur (bs ++ env) hc (goodF_append hbs hv) _).tri hne
  | .filter c f, cur, env, hc, hv, π => by
    simp only [kind]
    intro hne
    rcases projK_ne hne with ⟨hs, hb, e⟩ | ⟨hs, hb, e⟩
    · refine Tri.of_simR_eq e ?_
      simp only [ieval, ievalO]
      exact SimS.bind ((kind_sim hroot c cur env hc hv _).simR_of hs) fun a ha =>
        filterArray_simS (fun i v hv' => (kind_sim hroot f v env hv' hv _).simR_of hb) ha
    · rw [e]
      simp only [ieval, ievalO]
      exact Tri.bind ((kind_sim hroot c cur env hc hv _).tri hs) fun a a' hsa hca =>
        filterArray_tri (body_total hroot hb hv fun i => π.sub (i + 1)) hsa.top hca
  | .filterCurrent f, cur, env, hc, hv, π => by
    simp only [kind]
    intro hne
    obtain ⟨hk, e⟩ := pOnly_ne hne
    refine Tri.of_simR_eq e ?_
    simp only [ieval, ievalO]
    exact filterArray_simS (fun i v hv' => (kind_sim hroot f v env hv' hv _).simR_of hk) hc
  | .filterAndProject l f r, cur, env, hc, hv, π => by
    simp only [kind]
    intro hne
    rcases projK_ne hne with ⟨hs, hb, e⟩ | ⟨hs, hb, e⟩
    · obtain ⟨hf, hr, _⟩ := pp_ne (by rw [hb]; decide : pp (kind f) (kind r) ≠ .bad)
      refine Tri.of_simR_eq e ?_
      simp only [ieval, ievalO]
      exact SimS.bind ((kind_sim hroot l cur env hc hv _).simR_of hs) fun a ha =>
        filterAndProjectArray_simS (fun i v hv' => (kind_sim hroot f v env hv' hv _).simR_of hf)
          (fun i v hv' => (kind_sim hroot r v env hv' hv _).simR_of hr) ha
    · rw [e]
      simp only [Bool.and_eq_true] at hb
      simp only [ieval, ievalO]
      exact Tri.bind ((kind_sim hroot l cur env hc hv _).tri hs) fun a a' hsa hca =>
        filterAndProjectArray_tri (body_total hroot hb.1 hv fun i => (π.sub 1).sub i)
          (body_total hroot hb.2 hv fun i => (π.sub 2).sub i) hsa.top hca
  | .filterAndProjectCurrent f c, cur, env, hc, hv, π => by
    simp only [kind]
    intro hne
    obtain ⟨hf, hk, e⟩ := pp_ne hne
    refine Tri.of_simR_eq e ?_
    simp only [ieval, ievalO]
    exact filterAndProjectArray_simS (fun i v hv' => (kind_sim hroot f v env hv' hv _).simR_of hf)
      (fun i v hv' => (kind_sim hroot c v env hv' hv _).simR_of hk) hc
  | .flatten c, cur, env, hc, hv, π => by
    simp only [kind]
    intro hne
    have hs := keepK_ne hne
    simp only [ieval, ievalO]
    exact Tri.bind ((kind_sim hroot c cur env hc hv _).tri hs) fun a a' hsa hca =>
      Tri.pure (flatten_shape hsa) (conc_flatten hca)
  | .flattenCurrent, cur, env, hc, hv, π => KRel.of_simR (SimS.ok (flatten_good hc))
  | .flattenAndProject l r, cur, env, hc, hv, π => by
    simp only [kind]
    intro hne
    obtain ⟨hl, hr, e⟩ := pp_ne hne
    refine Tri.of_simR_eq e ?_
    simp only [ieval, ievalO]
    exact SimS.bind ((kind_sim hroot l cur env hc hv _).simR_of hl) fun a ha =>
      flattenAndProjectArray_simS (fun i v hv' => (kind_sim hroot r v env hv' hv _).simR_of hr) ha
  | .flattenAndProjectCurrent c, cur, env, hc, hv, π => by
    simp only [kind]
    intro hne
    obtain ⟨hk, e⟩ := pOnly_ne hne
    refine Tri.of_simR_eq e ?_
    simp only [ieval, ievalO]
    exact flattenAndProjectArray_simS (fun i v hv' => (kind_sim hroot c v env hv' hv _).simR_of hk) hc
  | .index c i, cur, env, hc, hv, π => by
    simp only [kind]
    intro hne
    obtain ⟨hk, e⟩ := idxK_ne hne
    rw [e]
    simp only [ieval, ievalO]
    rcases hk with hk | hk
    · exact Tri.of_simR (SimS.bind ((kind_sim hroot c cur env hc hv _).simR_of hk) fun a ha =>
        SimS.of_sat (index_sat i ha))
    · have ih := (kind_sim hroot c cur env hc hv (π.sub 0)).tri (by rw [hk]; decide)
      rw [hk] at ih
      exact Tri.bind ih fun a a' hsa hca => index_tri_sorted hsa hca i
  | .indexCurrent i, cur, env, hc, hv, π => KRel.of_simR (SimS.of_sat (index_sat i hc))
  | .smallIndexCurrent i, cur, env, hc, hv, π => KRel.of_simR (SimS.of_sat (index_sat _ hc))
  | .objectValues c, cur, env, hc, hv, π => by
    simp only [kind]
    intro hne
    obtain ⟨hk, e⟩ := ifPlain_ne hne
    rw [e]
    simp only [ieval, ievalO]
    exact Tri.bindP ((kind_sim hroot c cur env hc hv _).simR_of hk) fun a ha =>
      Tri.pure (objectValues_tri (π.sub 1) ha).1 (objectValues_tri (π.sub 1) ha).2
  | .objectValuesCurrent, cur, env, hc, hv, π =>
    KRel.of_tri (Tri.ok (objectValues_tri (π.sub 1) hc).1 (objectValues_tri (π.sub 1) hc).2)
  | .pipe l r, cur, env, hc, hv, π => by
    simp only [kind]
    intro hne
    rcases pipeK_ne hne with ⟨hl, e, hr⟩ | ⟨hs, e⟩
    · rw [e]
      simp only [ieval, ievalO]
      exact Tri.bindP ((kind_sim hroot l cur env hc hv _).simR_of hl) fun a ha =>
        (kind_sim hroot r a env ha hv _).tri hr
    · -- a map-ordered left-hand side piped into an order-insensitive consumer of `@`
      rw [e] at hne ⊢
      have ih := (kind_sim hroot l cur env hc hv (π.sub 0)).tri hs
      simp only [ieval, ievalO]
      cases hcc : curCons r with
      | call1 f =>
        rw [hcc] at hne
        obtain rfl := curCons_call1 hcc
        refine Tri.bind ih fun a a' hsa hca => ?_
        rw [ieval_call1, ievalO_call1]
        exact call1_sound _ hne (Tri.ok hsa hca)
      | call2 f v =>
        rw [hcc] at hne
        obtain ⟨rfl, hgv⟩ := curCons_call2 hcc
        refine Tri.bind ih fun a a' hsa hca => ?_
        rw [ieval_call2, ievalO_call2]
        exact call2c_sound _ hne hsa hca hgv
      | notCur =>
        rw [hcc] at hne
        obtain rfl := curCons_not hcc
        rw [show pipeSrc (kind l) CurCons.notCur = consK (kind l) from rfl] at hne ⊢
        rw [(consK_ne hne).2]
        refine Tri.bind ih fun a a' hsa hca => ?_
        simp only [ieval, ievalO, Res.ok_bind]
        rw [conc_isTrue hca]
        exact Tri.pure (good_bool (s := true)) (conc_refl _ good_bool)
      | none => rw [hcc] at hne; exact absurd rfl hne
  | .projectArray l r, cur, env, hc, hv, π => by
    simp only [kind]
    intro hne
    rcases projK_ne hne with ⟨hs, hb, e⟩ | ⟨hs, hb, e⟩
    · refine Tri.of_simR_eq e ?_
      simp only [ieval, ievalO]
      refine SimS.bind ((kind_sim hroot l cur env hc hv _).simR_of hs) fun a ha => ?_
      cases a with
      | str s =>
        cases hsl : l.isSlice <;> simp only [if_true, Bool.false_eq_true, if_false]
        · exact projectArray_simS (fun i v hv' => (kind_sim hroot r v env hv' hv _).simR_of hb) ha
        · exact (kind_sim hroot r _ env ha hv _).simR_of hb
      | _ => exact projectArray_simS (fun i v hv' => (kind_sim hroot r v env hv' hv _).simR_of hb) ha
    · rw [e]
      simp only [ieval, ievalO]
      have hbody := hb
      simp only [isOkBody, Bool.and_eq_true] at hbody
      refine Tri.bind ((kind_sim hroot l cur env hc hv _).tri hs) fun a a' hsa hca => ?_
      have ht := body_total hroot hb hv fun i => π.sub (i + 1)
      rcases top_conc_cases hsa.top hca with ⟨hg, rfl⟩ | ⟨xs, xs', rfl, rfl, hg, hp⟩
      · refine (Tri.of_simR ?_).mono fun _ => shape_enum_of_plain
        cases a' with
        | str s =>
          cases hsl : l.isSlice <;> simp only [if_true, Bool.false_eq_true, if_false]
          · exact projectArray_simS ht.simFn hg
          · exact ieval_simS hroot r _ env hbody.1 hg hv _
        | _ => exact projectArray_simS ht.simFn hg
      · exact projectArray_tri ht hsa.top hca
  | .projectArrayCurrent c, cur, env, hc, hv, π => by
    simp only [kind]
    intro hne
    obtain ⟨hk, e⟩ := pOnly_ne hne
    refine Tri.of_simR_eq e ?_
    simp only [ieval, ievalO]
    exact projectArray_simS (fun i v hv' => (kind_sim hroot c v env hv' hv _).simR_of hk) hc
  | .projectObject l r, cur, env, hc, hv, π => by
    simp only [kind]
    intro hne
    obtain ⟨hk, e⟩ := ifPlain_ne hne
    rw [e] at hne ⊢
    obtain ⟨hb, e2⟩ := ite_ne hne
    rw [e2]
    simp only [ieval, ievalO]
    exact Tri.bindP ((kind_sim hroot l cur env hc hv _).simR_of hk) fun a ha =>
      projectObject_tri (π.sub 1) (body_total hroot hb hv fun i => π.sub (i + 2)) ha
  | .projectObjectCurrent c, cur, env, hc, hv, π => by
    simp only [kind]
    intro hne
    obtain ⟨hb, e2⟩ := ite_ne hne
    rw [e2]
    simp only [ieval, ievalO]
    exact projectObject_tri (π.sub 1) (body_total hroot hb hv fun i => π.sub (i + 2)) hc
  | .pruneArray c, cur, env, hc, hv, π => by
    simp only [kind]
    intro hne
    have hs := keepK_ne hne
    simp only [ieval, ievalO]
    exact Tri.bind ((kind_sim hroot c cur env hc hv _).tri hs) fun a a' hsa hca =>
      Tri.pure (pruneArray_shape hsa) (conc_pruneArray hca)
  | .pruneArrayCurrent, cur, env, hc, hv, π => KRel.of_simR (SimS.ok (pruneArray_good hc))
  | .selectArray c fs, cur, env, hc, hv, π => by
    have H := kindL_all hroot fs
    simp only [kind]
    intro hne
    obtain ⟨hall, e⟩ := ite_ne hne
    rw [e] at hne ⊢
    obtain ⟨hk, e2⟩ := pOnly_ne hne
    refine Tri.of_simR_eq e2 ?_
    simp only [ieval, ievalO]
    refine SimS.bind ((kind_sim hroot c cur env hc hv _).simR_of hk) fun a ha => ?_
    cases hn : a.isNull <;> simp only [if_true, Bool.false_eq_true, if_false]
    · exact SimS.bind (list_simS ha hv fs H hall _) fun vs hvs => SimS.pure (good_plainArr hvs)
    · exact SimS.pure good_null
  | .selectArrayCurrent fs, cur, env, hc, hv, π => by
    have H := kindL_all hroot fs
    simp only [kind]
    intro hne
    obtain ⟨hall, e⟩ := ite_ne hne
    refine Tri.of_simR_eq e ?_
    simp only [ieval, ievalO]
    cases hn : cur.isNull <;> simp only [if_true, Bool.false_eq_true, if_false]
    · exact SimS.bind (list_simS hc hv fs H hall _) fun vs hvs => SimS.pure (good_plainArr hvs)
    · exact SimS.ok good_null
  | .selectArraySingle c f, cur, env, hc, hv, π => by
    simp only [kind]
    intro hne
    obtain ⟨hk, hf, e⟩ := pp_ne hne
    refine Tri.of_simR_eq e ?_
    simp only [ieval, ievalO]
    refine SimS.bind ((kind_sim hroot c cur env hc hv _).simR_of hk) fun a ha => ?_
    cases hn : a.isNull <;> simp only [if_true, Bool.false_eq_true, if_false]
    · exact SimS.bind ((kind_sim hroot f a env ha hv _).simR_of hf) fun v hv' =>
        SimS.pure (good_plainArr (goodL_cons.mpr ⟨hv', rfl⟩))
    · exact SimS.pure good_null
  | .selectArraySingleCurrent f, cur, env, hc, hv, π => by
    simp only [kind]
    intro hne
    obtain ⟨hf, e⟩ := pOnly_ne hne
    refine Tri.of_simR_eq e ?_
    simp only [ieval, ievalO]
    exact SimS.bind ((kind_sim hroot f cur env hc hv _).simR_of hf) fun v hv' =>
      SimS.pure (good_plainArr (goodL_cons.mpr ⟨hv', rfl⟩))
  | .selectObject c fs, cur, env, hc, hv, π => by
    have H := kindF_all hroot fs
    simp only [kind]
    intro hne
    obtain ⟨hcnd, e⟩ := ite_ne hne
    rw [e] at hne ⊢
    obtain ⟨hk, e2⟩ := pOnly_ne hne
    refine Tri.of_simR_eq e2 ?_
    simp only [Bool.and_eq_true, decide_eq_true_eq] at hcnd
    simp only [ieval, ievalO]
    refine SimS.bind ((kind_sim hroot c cur env hc hv _).simR_of hk) fun a ha => ?_
    cases hn : a.isNull <;> simp only [if_true, Bool.false_eq_true, if_false]
    · rw [ievalFields_eq_combineAll]
      exact SimS.bind (members_simS (members_rel ha hv fs H hcnd.2 _)
        (by rw [memberOutcomes_keys]; exact hcnd.1) (Oracle.order_perm _ _)) fun kvs hk =>
        SimS.pure (good_obj.mpr hk)
    · exact SimS.pure good_null
  | .selectObjectCurrent fs, cur, env, hc, hv, π => by
    have H := kindF_all hroot fs
    simp only [kind]
    intro hne
    obtain ⟨hcnd, e⟩ := ite_ne hne
    refine Tri.of_simR_eq e ?_
    simp only [Bool.and_eq_true, decide_eq_true_eq] at hcnd
    simp only [ieval, ievalO]
    cases hn : cur.isNull <;> simp only [if_true, Bool.false_eq_true, if_false]
    · rw [ievalFields_eq_combineAll]
      exact SimS.bind (members_simS (members_rel hc hv fs H hcnd.2 _)
        (by rw [memberOutcomes_keys]; exact hcnd.1) (Oracle.order_perm _ _)) fun kvs hk =>
        SimS.pure (good_obj.mpr hk)
    · exact SimS.ok good_null
  | .selectObjectSingle c k f, cur, env, hc, hv, π => by
    simp only [kind]
    intro hne
    obtain ⟨hk, hf, e⟩ := pp_ne hne
    refine Tri.of_simR_eq e ?_
    simp only [ieval, ievalO]
    refine SimS.bind ((kind_sim hroot c cur env hc hv _).simR_of hk) fun a ha => ?_
    cases hn : a.isNull <;> simp only [if_true, Bool.false_eq_true, if_false]
    · exact SimS.bind ((kind_sim hroot f a env ha hv _).simR_of hf) fun v hv' =>
        SimS.pure (good_obj.mpr (goodF_cons.mpr ⟨hv', rfl⟩))
    · exact SimS.pure good_null
  | .selectObjectSingleCurrent k f, cur, env, hc, hv, π => by
    simp only [kind]
    intro hne
    obtain ⟨hf, e⟩ := pOnly_ne hne
    refine Tri.of_simR_eq e ?_
    simp only [ieval, ievalO]
    exact SimS.bind ((kind_sim hroot f cur env hc hv _).simR_of hf) fun v hv' =>
      SimS.pure (good_obj.mpr (goodF_cons.mpr ⟨hv', rfl⟩))
  | .slice c a b, cur, env, hc, hv, π => by
    simp only [kind]
    intro hne
    obtain ⟨hk, e⟩ := pOnly_ne hne
    refine Tri.of_simR_eq e ?_
    simp only [ieval, ievalO]
    exact SimS.bind ((kind_sim hroot c cur env hc hv _).simR_of hk) fun v hv' => SimS.of_sat (slice_sat a b hv')
  | .sliceCurrent a b, cur, env, hc, hv, π => KRel.of_simR (SimS.of_sat (slice_sat a b hc))
  | .sliceStep c a b st, cur, env, hc, hv, π => by
    simp only [kind]
    intro hne
    obtain ⟨hk, e⟩ := pOnly_ne hne
    refine Tri.of_simR_eq e ?_
    simp only [ieval, ievalO]
    exact SimS.bind ((kind_sim hroot c cur env hc hv _).simR_of hk) fun v hv' =>
      SimS.of_sat (sliceStep_sat a b st hv')
  | .sliceStepCurrent a b st, cur, env, hc, hv, π => KRel.of_simR (SimS.of_sat (sliceStep_sat a b st hc))
  | .groupBy a e, cur, env, hc, hv, π => by
    simp only [kind]
    intro hne
    obtain ⟨ha, he, eq⟩ := pp_ne hne
    refine Tri.of_simR_eq eq ?_
    simp only [ieval, ievalO]
    exact SimS.bind ((kind_sim hroot a cur env hc hv _).simR_of ha) fun v hv' =>
      groupBy_simS (fun i x hx => (kind_sim hroot e x env hx hv _).simR_of he) hv'
  | .map e a, cur, env, hc, hv, π => by
    simp only [kind]
    intro hne
    rcases projK_ne hne with ⟨hs, hb, eq⟩ | ⟨hs, hb, eq⟩
    · refine Tri.of_simR_eq eq ?_
      simp only [ieval, ievalO]
      exact SimS.bind ((kind_sim hroot a cur env hc hv _).simR_of hs) fun v hv' =>
        mapArray_simS (fun i x hx => (kind_sim hroot e x env hx hv _).simR_of hb) hv'
    · rw [eq]
      simp only [ieval, ievalO]
      exact Tri.bind ((kind_sim hroot a cur env hc hv _).tri hs) fun v v' hsa hca =>
        mapArray_tri (body_total hroot hb hv fun i => π.sub (i + 1)) hsa.top hca
  | .maxBy a e, cur, env, hc, hv, π => by
    simp only [kind]
    intro hne
    obtain ⟨ha, he, eq⟩ := pp_ne hne
    refine Tri.of_simR_eq eq ?_
    simp only [ieval, ievalO]
    exact SimS.bind ((kind_sim hroot a cur env hc hv _).simR_of ha) fun v hv' =>
      arrayPickBy_simS _ (fun i x hx => (kind_sim hroot e x env hx hv _).simR_of he) hv'
  | .minBy a e, cur, env, hc, hv, π => by
    simp only [kind]
    intro hne
    obtain ⟨ha, he, eq⟩ := pp_ne hne
    refine Tri.of_simR_eq eq ?_
    simp only [ieval, ievalO]
    exact SimS.bind ((kind_sim hroot a cur env hc hv _).simR_of ha) fun v hv' =>
      arrayPickBy_simS _ (fun i x hx => (kind_sim hroot e x env hx hv _).simR_of he) hv'
  | .sortBy a e, cur, env, hc, hv, π => by
    simp only [kind]
    intro hne
    obtain ⟨ha, he, eq⟩ := pp_ne hne
    refine Tri.of_simR_eq eq ?_
    simp only [ieval, ievalO]
    exact SimS.bind ((kind_sim hroot a cur env hc hv _).simR_of ha) fun v hv' =>
      sortArrayBy_simS (fun i x hx => (kind_sim hroot e x env hx hv _).simR_of he) hv'
  | .merge args, cur, env, hc, hv, π => by
    have H := kindL_all hroot args
    simp only [kind]
    intro hne
    obtain ⟨hall, e⟩ := ite_ne hne
    refine Tri.of_simR_eq e ?_
    simp only [ieval, ievalO]
    exact SimS.bind (merge_simS hc hv args [] H hall rfl _) fun kvs hk => SimS.pure (good_obj.mpr hk)
  | .notNull args, cur, env, hc, hv, π => by
    have H := kindL_all hroot args
    simp only [kind]
    intro hne
    obtain ⟨hall, e⟩ := ite_ne hne
    refine Tri.of_simR_eq e ?_
    simp only [ieval, ievalO]
    exact notNull_simS hc hv args H hall _
  | .zip args, cur, env, hc, hv, π => by
    have H := kindL_all hroot args
    simp only [kind]
    intro hne
    obtain ⟨hall, e⟩ := ite_ne hne
    refine Tri.of_simR_eq e ?_
    simp only [ieval, ievalO]
    refine SimS.bind (zip_simS hc hv args H hall _) fun vs hvs =>
      SimS.bind (SimS.of_sat (zipArgs_sat hvs)) fun cols hcols => ?_
    cases cols with
    | nil => exact SimS.pure (good_plainArr rfl)
    | cons c cs => exact SimS.pure (good_plainArr (goodL_zipRows _ hcols))
theorem kindL_all {root : Val} (hroot : root.Good true = true) :
    ∀ (ns : List INode), ∀ c ∈ ns, NodeOK root c
  | [], c, hm => by cases hm
  | n :: ns, c, hm => by
    rcases List.mem_cons.mp hm with e | h
    · intro cur env hc hv π
      rw [e]
      exact kind_sim hroot n cur env hc hv π
    · exact kindL_all hroot ns c h
theorem kindF_all {root : Val} (hroot : root.Good true = true) :
    ∀ (fs : List (Bytes × INode)), ∀ p ∈ fs, NodeOK root p.2
  | [], p, hm => by cases hm
  | (k, n) :: rest, p, hm => by
    rcases List.mem_cons.mp hm with e | h
    · intro cur env hc hv π
      rw [e]
      exact kind_sim hroot n cur env hc hv π
    · exact kindF_all hroot rest p h
end

/-! ## the class contains the strict class of `C15B` -/

theorem callKd_plain {f : Fn} {ks : List Kd} (hf : Fn.enumerates f = false) (hk : allP ks = true) :
    callKd f ks = .plain := by
  simp only [callKd, hf, hk, Bool.not_false, Bool.and_self, if_true]

mutual
theorem kind_of_strict : ∀ (n : INode), n.all nodeOkS = true → kind n = .plain
  | .lit v, h => by
    simp only [INode.all] at h
    simp only [kind, nodeOkS_lit h, if_true]
  | .current, _ => rfl
  | .root, _ => rfl
  | .field _, _ => rfl
  | .variable _, _ => rfl
  | .binop op l r, h => by
    simp only [INode.all, Bool.and_eq_true] at h
    simp only [kind, kind_of_strict l h.1.2, kind_of_strict r h.2]; rfl
  | .and l r, h => by
    simp only [INode.all, Bool.and_eq_true] at h
    simp only [kind, kind_of_strict l h.1.2, kind_of_strict r h.2]; rfl
  | .or l r, h => by
    simp only [INode.all, Bool.and_eq_true] at h
    simp only [kind, kind_of_strict l h.1.2, kind_of_strict r h.2]; rfl
  | .not c, h => by
    simp only [INode.all, Bool.and_eq_true] at h
    simp only [kind, kind_of_strict c h.2]; rfl
  | .negate c, h => by
    simp only [INode.all, Bool.and_eq_true] at h
    simp only [kind, kind_of_strict c h.2]; rfl
  | .assertNumber c, h => by
    simp only [INode.all, Bool.and_eq_true] at h
    simp only [kind, kind_of_strict c h.2]; rfl
  | .call f args, h => by
    simp only [INode.all, Bool.and_eq_true] at h
    simp only [kind]
    exact callKd_plain (nodeOkS_call h.1) (kindL_of_strict args h.2)
  | .defineVariables vars child, h => by
    simp only [INode.all, Bool.and_eq_true] at h
    simp only [kind, kindF_of_strict vars h.1.2, kind_of_strict child h.2,
      decide_eq_true (nodeOkS_defineVariables h.1.1), Bool.and_self, if_true]
  | .filter c f, h => by
    simp only [INode.all, Bool.and_eq_true] at h
    simp only [kind, kind_of_strict c h.1.2, kind_of_strict f h.2]; rfl
  | .filterCurrent f, h => by
    simp only [INode.all, Bool.and_eq_true] at h
    simp only [kind, kind_of_strict f h.2]; rfl
  | .filterAndProject l f r, h => by
    simp only [INode.all, Bool.and_eq_true] at h
    simp only [kind, kind_of_strict l h.1.1.2, kind_of_strict f h.1.2, kind_of_strict r h.2]; rfl
  | .filterAndProjectCurrent f c, h => by
    simp only [INode.all, Bool.and_eq_true] at h
    simp only [kind, kind_of_strict f h.1.2, kind_of_strict c h.2]; rfl
  | .flatten c, h => by
    simp only [INode.all, Bool.and_eq_true] at h
    simp only [kind, kind_of_strict c h.2]; rfl
  | .flattenCurrent, _ => rfl
  | .flattenAndProject l r, h => by
    simp only [INode.all, Bool.and_eq_true] at h
    simp only [kind, kind_of_strict l h.1.2, kind_of_strict r h.2]; rfl
  | .flattenAndProjectCurrent c, h => by
    simp only [INode.all, Bool.and_eq_true] at h
    simp only [kind, kind_of_strict c h.2]; rfl
  | .index c _, h => by
    simp only [INode.all, Bool.and_eq_true] at h
    simp only [kind, kind_of_strict c h.2]; rfl
  | .indexCurrent _, _ => rfl
  | .smallIndexCurrent _, _ => rfl
  | .objectValues c, h => by
    simp only [INode.all, Bool.and_eq_true] at h
    exact absurd h.1 (by simp [nodeOkS, nodeOkD, INode.noEnumHeadD])
  | .objectValuesCurrent, h => by
    simp only [INode.all] at h
    exact absurd h (by simp [nodeOkS, nodeOkD, INode.noEnumHeadD])
  | .pipe l r, h => by
    simp only [INode.all, Bool.and_eq_true] at h
    simp only [kind, kind_of_strict l h.1.2, kind_of_strict r h.2, pipeK]
  | .projectArray l r, h => by
    simp only [INode.all, Bool.and_eq_true] at h
    simp only [kind, kind_of_strict l h.1.2, kind_of_strict r h.2]; rfl
  | .projectArrayCurrent c, h => by
    simp only [INode.all, Bool.and_eq_true] at h
    simp only [kind, kind_of_strict c h.2]; rfl
  | .projectObject l r, h => by
    simp only [INode.all, Bool.and_eq_true] at h
    exact absurd h.1.1 (by simp [nodeOkS, nodeOkD, INode.noEnumHeadD])
  | .projectObjectCurrent c, h => by
    simp only [INode.all, Bool.and_eq_true] at h
    exact absurd h.1 (by simp [nodeOkS, nodeOkD, INode.noEnumHeadD])
  | .pruneArray c, h => by
    simp only [INode.all, Bool.and_eq_true] at h
    simp only [kind, kind_of_strict c h.2]; rfl
  | .pruneArrayCurrent, _ => rfl
  | .selectArray c fs, h => by
    simp only [INode.all, Bool.and_eq_true] at h
    simp only [kind, kind_of_strict c h.1.2, kindL_of_strict fs h.2, if_true]; rfl
  | .selectArrayCurrent fs, h => by
    simp only [INode.all, Bool.and_eq_true] at h
    simp only [kind, kindL_of_strict fs h.2, if_true]
  | .selectArraySingle c f, h => by
    simp only [INode.all, Bool.and_eq_true] at h
    simp only [kind, kind_of_strict c h.1.2, kind_of_strict f h.2]; rfl
  | .selectArraySingleCurrent f, h => by
    simp only [INode.all, Bool.and_eq_true] at h
    simp only [kind, kind_of_strict f h.2]; rfl
  | .selectObject c fs, h => by
    simp only [INode.all, Bool.and_eq_true] at h
    simp only [kind, kind_of_strict c h.1.2, kindF_of_strict fs h.2,
      decide_eq_true (nodeOkS_selectObject h.1.1), Bool.and_self, if_true]; rfl
  | .selectObjectCurrent fs, h => by
    simp only [INode.all, Bool.and_eq_true] at h
    simp only [kind, kindF_of_strict fs h.2, decide_eq_true (nodeOkS_selectObjectCurrent h.1), Bool.and_self,
      if_true]
  | .selectObjectSingle c _ f, h => by
    simp only [INode.all, Bool.and_eq_true] at h
    simp only [kind, kind_of_strict c h.1.2, kind_of_strict f h.2]; rfl
  | .selectObjectSingleCurrent _ f, h => by
    simp only [INode.all, Bool.and_eq_true] at h
    simp only [kind, kind_of_strict f h.2]; rfl
  | .slice c _ _, h => by
    simp only [INode.all, Bool.and_eq_true] at h
    simp only [kind, kind_of_strict c h.2]; rfl
  | .sliceCurrent _ _, _ => rfl
  | .sliceStep c _ _ _, h => by
    simp only [INode.all, Bool.and_eq_true] at h
    simp only [kind, kind_of_strict c h.2]; rfl
  | .sliceStepCurrent _ _ _, _ => rfl
  | .groupBy a e, h => by
    simp only [INode.all, Bool.and_eq_true] at h
    simp only [kind, kind_of_strict a h.1.2, kind_of_strict e h.2]; rfl
  | .map e a, h => by
    simp only [INode.all, Bool.and_eq_true] at h
    simp only [kind, kind_of_strict e h.1.2, kind_of_strict a h.2]; rfl
  | .maxBy a e, h => by
    simp only [INode.all, Bool.and_eq_true] at h
    simp only [kind, kind_of_strict a h.1.2, kind_of_strict e h.2]; rfl
  | .minBy a e, h => by
    simp only [INode.all, Bool.and_eq_true] at h
    simp only [kind, kind_of_strict a h.1.2, kind_of_strict e h.2]; rfl
  | .sortBy a e, h => by
    simp only [INode.all, Bool.and_eq_true] at h
    simp only [kind, kind_of_strict a h.1.2, kind_of_strict e h.2]; rfl
  | .merge args, h => by
    simp only [INode.all, Bool.and_eq_true] at h
    simp only [kind, kindL_of_strict args h.2, if_true]
  | .notNull args, h => by
    simp only [INode.all, Bool.and_eq_true] at h
    simp only [kind, kindL_of_strict args h.2, if_true]
  | .zip args, h => by
    simp only [INode.all, Bool.and_eq_true] at h
    simp only [kind, kindL_of_strict args h.2, if_true]
theorem kindL_of_strict : ∀ (ns : List INode), INode.allL nodeOkS ns = true → allP (kindL ns) = true
  | [], _ => rfl
  | n :: ns, h => by
    simp only [INode.allL, Bool.and_eq_true] at h
    simp only [kindL]
    exact allP_cons.mpr ⟨kind_of_strict n h.1, kindL_of_strict ns h.2⟩
theorem kindF_of_strict : ∀ (fs : List (Bytes × INode)), INode.allF nodeOkS fs = true → allP (kindF fs) = true
  | [], _ => rfl
  | (k, n) :: rest, h => by
    simp only [INode.allF, Bool.and_eq_true] at h
    simp only [kindF]
    exact allP_cons.mpr ⟨kind_of_strict n h.1, kindF_of_strict rest h.2⟩
end

end Jmes.C15E
