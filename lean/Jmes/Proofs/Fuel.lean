/-
  C09 (parser side) — the fuel of the model's parser is always sufficient.

  `Jmes/Model/Parser.lean` bounds the mutual recursion of the thirteen parser functions by explicit fuel
  (`Parser.fuelFor ntokens = 8 * ntokens + 32`) and reports `PErr.fuel` when it runs out; this error has no counterpart
  in the Go parser.  This file proves it unreachable: `fuel_sufficient : ∀ expr, Parser.parse expr ≠ .error .fuel`.

  Method: a measure `mu` on parser states (real tokens in the two-token window plus unread tokens), a triple
  `OK x s post` ("`x` run from `s` does not report `fuel`, and its result satisfies `post`"), and for every function
  `X` of the mutual block the statement `8 * mu s + k_X ≤ fuel → OK (X fuel …) s (fun _ s' => mu s' ≤ mu s)` with offsets
  `k_X` ordered along the call chains that do not consume a token (`Suff`).  Every other recursive call is preceded by an
  `advance` on a state whose current token is known not to be `end`, which lowers `mu` by at least one, i.e. frees
  eight units of fuel.  `indexP` (not recursive, but long) is handled compositionally (`Tame`).
-/
import Jmes.Model.Parser
namespace Jmes.Fuel
open Jmes Jmes.Parser

/-- 1 for a real token, 0 for `end` -/
def tk (t : Token) : Nat := if t.type = .end then 0 else 1
/-- number of real tokens ahead (the two in the window and the unread ones) -/
def mu (s : PState) : Nat := tk s.curr + tk s.next + s.rest.length

theorem tk_pos {t : Token} (h : t.type ≠ .end) : tk t = 1 := by unfold tk; simp [h]
theorem tk_le (t : Token) : tk t ≤ 1 := by unfold tk; split <;> omega

/-- partial-correctness triple that also excludes the `fuel` error -/
def OK {α} (x : PM α) (s : PState) (post : α → PState → Prop) : Prop :=
  match x s with
  | .ok (a, s') => post a s'
  | .error e => e ≠ .fuel

theorem bind_run {α β} (x : PM α) (f : α → PM β) (s : PState) :
    (x >>= f) s = match x s with
      | .ok (a, s') => f a s' | .error e => .error e := by
  show (StateT.bind x f) s = _
  unfold StateT.bind
  show (x s >>= _) = _
  cases x s <;> rfl

theorem ok_bind {α β} {x : PM α} {f : α → PM β} {s : PState} {post : β → PState → Prop}
    (h : OK x s (fun a s' => OK (f a) s' post)) : OK (x >>= f) s post := by
  unfold OK at h ⊢
  rw [bind_run]
  cases hx : x s with
  | error e => rw [hx] at h; exact h
  | ok r => obtain ⟨a, s'⟩ := r; rw [hx] at h; exact h

theorem ok_conseq {α} {x : PM α} {s : PState} {Q post : α → PState → Prop}
    (h : OK x s Q) (h2 : ∀ a s', Q a s' → post a s') : OK x s post := by
  unfold OK at h ⊢
  cases hx : x s with
  | error e => rw [hx] at h; exact h
  | ok r => obtain ⟨a, s'⟩ := r; rw [hx] at h; exact h2 a s' h

theorem ok_call {α β} {x : PM α} {f : α → PM β} {s : PState} {Q : α → PState → Prop} {post : β → PState → Prop}
    (h : OK x s Q) (h2 : ∀ a s', Q a s' → OK (f a) s' post) : OK (x >>= f) s post :=
  ok_bind (ok_conseq h h2)

theorem ok_pure {α} {a : α} {s : PState} {post : α → PState → Prop} (h : post a s) : OK (pure a) s post := h

theorem ok_fail {α} {e : PErr} {s : PState} {post : α → PState → Prop} (h : e ≠ .fuel) :
    OK (fail e : PM α) s post := h

theorem ok_get {s : PState} {post : PState → PState → Prop} (h : post s s) : OK (get : PM PState) s post := h
theorem ok_currType {s : PState} {post : TokenType → PState → Prop} (h : post s.curr.type s) : OK currType s post := h
theorem ok_nextType {s : PState} {post : TokenType → PState → Prop} (h : post s.next.type s) : OK nextType s post := h
theorem ok_currValue {s : PState} {post : Bytes → PState → Prop} (h : post s.curr.value s) : OK currValue s post := h

theorem pull_ok {s : PState} {post : Token → PState → Prop}
    (h : ∀ t s', s'.curr = s.curr → s'.next = s.next → tk t + s'.rest.length ≤ s.rest.length → post t s') :
    OK pull s post := by
  unfold OK pull
  cases hr : s.rest with
  | cons t r =>
    simp only
    apply h
    · rfl
    · rfl
    · have := tk_le t; simp only [hr, List.length_cons]; omega
  | nil =>
    simp only
    cases hl : s.lexErr with
    | some e => simp
    | none =>
      simp only
      apply h
      · rfl
      · rfl
      · rw [hr]; simp [tk]

theorem ok_set {s s1 : PState} {post : PUnit → PState → Prop} (h : post ⟨⟩ s1) : OK (set s1 : PM PUnit) s post := h
theorem ok_modify {s : PState} {g : PState → PState} {post : PUnit → PState → Prop} (h : post ⟨⟩ (g s)) :
    OK (modify g : PM PUnit) s post := h

theorem ok_advance {s : PState} {post : Unit → PState → Prop}
    (h : ∀ s', mu s' + tk s.curr ≤ mu s → post () s') : OK advance s post := by
  unfold Parser.advance
  apply ok_bind; apply ok_get
  apply ok_bind; apply ok_set
  apply ok_bind; apply pull_ok
  intro t s' h1 h2 h3
  apply ok_modify
  apply h
  unfold mu
  simp only at h1 h2 h3 ⊢
  rw [h1]
  omega

theorem ok_advance2 {s : PState} {post : Unit → PState → Prop}
    (h : ∀ s', mu s' + tk s.curr + tk s.next ≤ mu s → post () s') : OK advance2 s post := by
  unfold Parser.advance2
  apply ok_bind; apply pull_ok
  intro c s1 _ _ h3
  apply ok_bind; apply ok_modify
  apply ok_bind; apply pull_ok
  intro t s2 h4 _ h6
  apply ok_modify
  apply h
  unfold mu
  simp only at h4 h6 ⊢
  rw [h4]
  omega

theorem ok_advance_pos {s : PState} {post : Unit → PState → Prop} (hc : s.curr.type ≠ .end)
    (h : ∀ s', mu s' + 1 ≤ mu s → post () s') : OK advance s post :=
  ok_advance (fun s' h' => h s' (by rw [tk_pos hc] at h'; exact h'))

theorem ok_advance2_pos {s : PState} {post : Unit → PState → Prop} (hc : s.curr.type ≠ .end)
    (h : ∀ s', mu s' + 1 ≤ mu s → post () s') : OK advance2 s post :=
  ok_advance2 (fun s' h' => h s' (by rw [tk_pos hc] at h'; omega))

theorem binOp_ne_end {t : TokenType} {op : BinOp} (h : binOpOf t = some op) : t ≠ .end := by
  intro hc; rw [hc] at h; cases h

theorem ok_ite {α} {c : Prop} [Decidable c] {a b : PM α} {s : PState} {post : α → PState → Prop}
    (h1 : c → OK a s post) (h2 : ¬ c → OK b s post) : OK (if c then a else b) s post := by
  split
  · exact h1 ‹_›
  · exact h2 ‹_›

structure Suff (f : Nat) : Prop where
  expr : ∀ p s, 8 * mu s + 3 ≤ f → OK (expression f p) s (fun _ s' => mu s' ≤ mu s)
  loop : ∀ n p s, 8 * mu s + 1 ≤ f → OK (exprLoop f n p) s (fun _ s' => mu s' ≤ mu s)
  filt : ∀ s, 8 * mu s + 4 ≤ f → OK (filterP f) s (fun _ s' => mu s' ≤ mu s)
  args : ∀ a b c s, 8 * mu s + 4 ≤ f → OK (fnArgs f a b c) s (fun _ s' => mu s' ≤ mu s)
  vargs : ∀ a s, 8 * mu s + 4 ≤ f → OK (fnVarArgs f a) s (fun _ s' => mu s' ≤ mu s)
  func : ∀ s, s.curr.type ≠ .end → 8 * mu s + 1 ≤ f → OK (function f) s (fun _ s' => mu s' ≤ mu s)
  letp : ∀ a s, 8 * mu s + 1 ≤ f → OK (letP f a) s (fun _ s' => mu s' ≤ mu s)
  prim : ∀ s, 8 * mu s + 2 ≤ f → OK (primaryExpression f) s (fun _ s' => mu s' ≤ mu s)
  proj : ∀ p s, 8 * mu s + 3 ≤ f → OK (projection f p) s (fun _ s' => mu s' ≤ mu s)
  sarr : ∀ c s, 8 * mu s + 5 ≤ f → OK (selectArray f c) s (fun _ s' => mu s' ≤ mu s)
  sarrl : ∀ c l s, 8 * mu s + 4 ≤ f → OK (selectArrayLoop f c l) s (fun _ s' => mu s' ≤ mu s)
  sobj : ∀ c s, 8 * mu s + 2 ≤ f → OK (selectObject f c) s (fun _ s' => mu s' ≤ mu s)
  sobjl : ∀ c l s, 8 * mu s + 1 ≤ f → OK (selectObjectLoop f c l) s (fun _ s' => mu s' ≤ mu s)

/-- a computation that never reports `fuel` and never increases the measure -/
def Tame {α} (x : PM α) : Prop := ∀ s, OK x s (fun _ s' => mu s' ≤ mu s)

theorem tame_bind {α β} {x : PM α} {f : α → PM β} (h1 : Tame x) (h2 : ∀ a, Tame (f a)) : Tame (x >>= f) := by
  intro s
  refine ok_call (h1 s) ?_
  intro a s' hle
  exact ok_conseq (h2 a s') (fun _ s'' h => Nat.le_trans h hle)

theorem tame_pure {α} (a : α) : Tame (pure a : PM α) := fun _ => ok_pure (Nat.le_refl _)
theorem tame_fail {α} {e : PErr} (h : e ≠ .fuel) : Tame (fail e : PM α) := fun _ => ok_fail h
theorem tame_ite {α} {c : Prop} [Decidable c] {a b : PM α} (h1 : Tame a) (h2 : Tame b) :
    Tame (if c then a else b) := by split <;> assumption
theorem tame_currType : Tame currType := fun _ => ok_currType (Nat.le_refl _)
theorem tame_nextType : Tame nextType := fun _ => ok_nextType (Nat.le_refl _)
theorem tame_currValue : Tame currValue := fun _ => ok_currValue (Nat.le_refl _)
theorem tame_get : Tame (get : PM PState) := fun _ => ok_get (Nat.le_refl _)
theorem tame_advance : Tame advance := fun _ => ok_advance (fun _ h => by omega)
theorem tame_advance2 : Tame advance2 := fun _ => ok_advance2 (fun _ h => by omega)

macro "tame_tac" : tactic => `(tactic|
  repeat (first
    | with_reducible exact tame_pure _
    | ((with_reducible apply tame_fail); intro hh; cases hh)
    | with_reducible exact tame_currType
    | with_reducible exact tame_nextType
    | with_reducible exact tame_currValue
    | with_reducible exact tame_get
    | with_reducible exact tame_advance
    | with_reducible exact tame_advance2
    | (with_reducible exact ‹Tame _›)
    | (with_reducible exact ‹∀ _, Tame _› _)
    | (with_reducible exact ‹∀ _ _, Tame _› _ _)
    | (with_reducible exact ‹∀ _ _ _, Tame _› _ _ _)
    | (with_reducible exact ‹∀ _ _ _ _, Tame _› _ _ _ _)
    | with_reducible apply tame_bind
    | with_reducible apply tame_ite
    | dsimp only
    | split
    | intro _))

theorem tame_indexP (child : Option INode) : Tame (indexP child) := by
  unfold indexP
  extract_lets mkSlice atoi haveStart start stopMax step1 jp3 stopMin bTrue jp1
  have hatoi : Tame atoi := by unfold atoi; tame_tac
  have h3 : ∀ r a b c, Tame (jp3 r a b c) := by
    intro r a b c; unfold jp3; tame_tac
  clear_value jp3 atoi mkSlice
  have h1 : ∀ r a b, Tame (jp1 r a b) := by
    intro r hs st
    unfold jp1
    with_reducible apply tame_bind tame_currType
    intro t2
    extract_lets jp2
    have h2 : ∀ r a b, Tame (jp2 r a b) := by
      intro r hp sp
      unfold jp2
      with_reducible apply tame_bind tame_currType
      intro t3
      tame_tac
    clear_value jp2
    tame_tac
  clear_value jp1
  tame_tac


theorem ok_pure_bind {α β} {a : α} {f : α → PM β} {s : PState} {post : β → PState → Prop}
    (h : OK (f a) s post) : OK (pure a >>= f) s post := ok_bind (ok_pure h)

theorem ok_tame {α} {x : PM α} (h : Tame x) (s : PState) : OK x s (fun _ s' => mu s' ≤ mu s) := h s

macro "fuel_tac" ih:ident : tactic => `(tactic|
  repeat (first
    | ((with_reducible apply ok_fail); intro hh; cases hh)
    | with_reducible apply ok_currType
    | with_reducible apply ok_nextType
    | with_reducible apply ok_currValue
    | with_reducible apply ok_get
    | ((with_reducible refine ok_advance_pos ?_ ?_); (first | exact binOp_ne_end ‹_› | focus (simp_all; done)); intro _ _)
    | ((with_reducible refine ok_advance2_pos ?_ ?_); (first | exact binOp_ne_end ‹_› | focus (simp_all; done)); intro _ _)
    | ((with_reducible refine ok_advance ?_); intro _ _)
    | ((with_reducible refine ok_advance2 ?_); intro _ _)
    | ((with_reducible refine ok_call (ok_tame (tame_indexP _) _) ?_); intro _ _ _)
    | ((with_reducible refine ok_call (Suff.expr $ih _ _ ?_) ?_); omega; intro _ _ _)
    | ((with_reducible refine ok_call (Suff.loop $ih _ _ _ ?_) ?_); omega; intro _ _ _)
    | ((with_reducible refine ok_call (Suff.filt $ih _ ?_) ?_); omega; intro _ _ _)
    | ((with_reducible refine ok_call (Suff.args $ih _ _ _ _ ?_) ?_); omega; intro _ _ _)
    | ((with_reducible refine ok_call (Suff.vargs $ih _ _ ?_) ?_); omega; intro _ _ _)
    | ((with_reducible refine ok_call (Suff.func $ih _ ?_ ?_) ?_); (focus (simp_all; done)); omega; intro _ _ _)
    | ((with_reducible refine ok_call (Suff.letp $ih _ _ ?_) ?_); omega; intro _ _ _)
    | ((with_reducible refine ok_call (Suff.prim $ih _ ?_) ?_); omega; intro _ _ _)
    | ((with_reducible refine ok_call (Suff.proj $ih _ _ ?_) ?_); omega; intro _ _ _)
    | ((with_reducible refine ok_call (Suff.sarr $ih _ _ ?_) ?_); omega; intro _ _ _)
    | ((with_reducible refine ok_call (Suff.sarrl $ih _ _ _ ?_) ?_); omega; intro _ _ _)
    | ((with_reducible refine ok_call (Suff.sobj $ih _ _ ?_) ?_); omega; intro _ _ _)
    | ((with_reducible refine ok_call (Suff.sobjl $ih _ _ _ ?_) ?_); omega; intro _ _ _)
    | ((with_reducible refine ok_conseq (Suff.expr $ih _ _ ?_) ?_); omega; intro _ _ _)
    | ((with_reducible refine ok_conseq (Suff.loop $ih _ _ _ ?_) ?_); omega; intro _ _ _)
    | ((with_reducible refine ok_conseq (Suff.filt $ih _ ?_) ?_); omega; intro _ _ _)
    | ((with_reducible refine ok_conseq (Suff.args $ih _ _ _ _ ?_) ?_); omega; intro _ _ _)
    | ((with_reducible refine ok_conseq (Suff.vargs $ih _ _ ?_) ?_); omega; intro _ _ _)
    | ((with_reducible refine ok_conseq (Suff.func $ih _ ?_ ?_) ?_); (focus (simp_all; done)); omega; intro _ _ _)
    | ((with_reducible refine ok_conseq (Suff.letp $ih _ _ ?_) ?_); omega; intro _ _ _)
    | ((with_reducible refine ok_conseq (Suff.prim $ih _ ?_) ?_); omega; intro _ _ _)
    | ((with_reducible refine ok_conseq (Suff.proj $ih _ _ ?_) ?_); omega; intro _ _ _)
    | ((with_reducible refine ok_conseq (Suff.sarr $ih _ _ ?_) ?_); omega; intro _ _ _)
    | ((with_reducible refine ok_conseq (Suff.sarrl $ih _ _ _ ?_) ?_); omega; intro _ _ _)
    | ((with_reducible refine ok_conseq (Suff.sobj $ih _ _ ?_) ?_); omega; intro _ _ _)
    | ((with_reducible refine ok_conseq (Suff.sobjl $ih _ _ _ ?_) ?_); omega; intro _ _ _)
    | with_reducible refine ok_pure_bind ?_
    | with_reducible apply ok_bind
    | with_reducible refine ok_pure ?_
    | with_reducible apply ok_ite
    | ((with_reducible show _ ≤ _); omega)
    | dsimp only
    | split
    | intro _))

theorem suff_zero : Suff 0 where
  expr p s h := by omega
  loop n p s h := by omega
  filt s h := by omega
  args a b c s h := by omega
  vargs a s h := by omega
  func s _ h := by omega
  letp a s h := by omega
  prim s h := by omega
  proj p s h := by omega
  sarr c s h := by omega
  sarrl c l s h := by omega
  sobj c s h := by omega
  sobjl c l s h := by omega

theorem s_expr (f : Nat) (ih : Suff f) : ∀ p s, 8 * mu s + 3 ≤ f + 1 →
    OK (expression (f + 1) p) s (fun _ s' => mu s' ≤ mu s) := by
  intro p s hf
  rw [expression.eq_2 p f]
  fuel_tac ih

theorem s_loop (f : Nat) (ih : Suff f) : ∀ n p s, 8 * mu s + 1 ≤ f + 1 →
    OK (exprLoop (f + 1) n p) s (fun _ s' => mu s' ≤ mu s) := by
  intro n p s hf
  rw [exprLoop.eq_2 n p f]
  fuel_tac ih

theorem s_filt (f : Nat) (ih : Suff f) : ∀ s, 8 * mu s + 4 ≤ f + 1 →
    OK (filterP (f + 1)) s (fun _ s' => mu s' ≤ mu s) := by
  intro s hf
  rw [filterP.eq_2 f]
  fuel_tac ih

theorem s_args (f : Nat) (ih : Suff f) : ∀ a b c s, 8 * mu s + 4 ≤ f + 1 →
    OK (fnArgs (f + 1) a b c) s (fun _ s' => mu s' ≤ mu s) := by
  intro a b c s hf
  rw [fnArgs.eq_2 a b c f]
  fuel_tac ih

theorem s_vargs (f : Nat) (ih : Suff f) : ∀ a s, 8 * mu s + 4 ≤ f + 1 →
    OK (fnVarArgs (f + 1) a) s (fun _ s' => mu s' ≤ mu s) := by
  intro a s hf
  rw [fnVarArgs.eq_2 a f]
  fuel_tac ih

theorem s_func (f : Nat) (ih : Suff f) : ∀ s, s.curr.type ≠ .end → 8 * mu s + 1 ≤ f + 1 →
    OK (function (f + 1)) s (fun _ s' => mu s' ≤ mu s) := by
  intro s hc hf
  rw [function.eq_2 f]
  fuel_tac ih

theorem s_letp (f : Nat) (ih : Suff f) : ∀ a s, 8 * mu s + 1 ≤ f + 1 →
    OK (letP (f + 1) a) s (fun _ s' => mu s' ≤ mu s) := by
  intro a s hf
  rw [letP.eq_2 a f]
  fuel_tac ih

theorem s_prim (f : Nat) (ih : Suff f) : ∀ s, 8 * mu s + 2 ≤ f + 1 →
    OK (primaryExpression (f + 1)) s (fun _ s' => mu s' ≤ mu s) := by
  intro s hf
  rw [primaryExpression.eq_2 f]
  fuel_tac ih

theorem s_proj (f : Nat) (ih : Suff f) : ∀ p s, 8 * mu s + 3 ≤ f + 1 →
    OK (projection (f + 1) p) s (fun _ s' => mu s' ≤ mu s) := by
  intro p s hf
  rw [projection.eq_2 p f]
  fuel_tac ih

theorem s_sarr (f : Nat) (ih : Suff f) : ∀ c s, 8 * mu s + 5 ≤ f + 1 →
    OK (selectArray (f + 1) c) s (fun _ s' => mu s' ≤ mu s) := by
  intro c s hf
  rw [selectArray.eq_2 c f]
  fuel_tac ih

theorem s_sarrl (f : Nat) (ih : Suff f) : ∀ c l s, 8 * mu s + 4 ≤ f + 1 →
    OK (selectArrayLoop (f + 1) c l) s (fun _ s' => mu s' ≤ mu s) := by
  intro c l s hf
  rw [selectArrayLoop.eq_2 c l f]
  fuel_tac ih

theorem s_sobj (f : Nat) (ih : Suff f) : ∀ c s, 8 * mu s + 2 ≤ f + 1 →
    OK (selectObject (f + 1) c) s (fun _ s' => mu s' ≤ mu s) := by
  intro c s hf
  rw [selectObject.eq_2 c f]
  fuel_tac ih

theorem s_sobjl (f : Nat) (ih : Suff f) : ∀ c l s, 8 * mu s + 1 ≤ f + 1 →
    OK (selectObjectLoop (f + 1) c l) s (fun _ s' => mu s' ≤ mu s) := by
  intro c l s hf
  rw [selectObjectLoop.eq_2 c l f]
  fuel_tac ih

theorem suff_succ (f : Nat) (ih : Suff f) : Suff (f + 1) where
  expr := s_expr f ih
  loop := s_loop f ih
  filt := s_filt f ih
  args := s_args f ih
  vargs := s_vargs f ih
  func := s_func f ih
  letp := s_letp f ih
  prim := s_prim f ih
  proj := s_proj f ih
  sarr := s_sarr f ih
  sarrl := s_sarrl f ih
  sobj := s_sobj f ih
  sobjl := s_sobjl f ih

theorem suff_all : ∀ f, Suff f
  | 0 => suff_zero
  | f + 1 => suff_succ f (suff_all f)

/-- the top-level block of `Parser.parse` with `fuelFor n` fuel on a state with at most `n` real tokens ahead -/
theorem top_ok (n : Nat) (st : PState) (h : mu st ≤ n) :
    OK (do
      let node ← expression (fuelFor n) 1
      if (← currType) != .end then fail .unexpectedToken
      return node : PM INode) st (fun _ _ => True) := by
  have ih := suff_all (fuelFor n)
  refine ok_call (ih.expr 1 st (by unfold fuelFor; omega)) ?_
  intro a s' _
  with_reducible apply ok_bind
  with_reducible apply ok_currType
  dsimp only
  with_reducible apply ok_ite
  · intro _
    with_reducible apply ok_bind
    with_reducible apply ok_fail
    intro hh; cases hh
  · intro _
    exact ok_pure trivial

theorem ok_error {α} {x : PM α} {s : PState} {post : α → PState → Prop} (h : OK x s post) {err : PErr}
    (hx : x.run s = .error err) : err ≠ .fuel := by
  unfold OK at h
  have hx' : x s = .error err := hx
  rw [hx'] at h
  exact h

/-- **the fuel budget of `Parser.parse` is never exhausted**: `error fuel` (the model's only artefact) is unreachable,
    for every input -/
theorem fuel_sufficient (expr : Bytes) : Parser.parse expr ≠ .error .fuel := by
  unfold Parser.parse
  rcases hl : lexAll expr with ⟨ts, e⟩
  simp only
  match ts, e with
  | t0 :: t1 :: rest, e =>
    simp only
    split
    · intro hc; cases hc
    · rename_i err heq
      have hm : mu ⟨t0, t1, rest, e⟩ ≤ (t0 :: t1 :: rest).length := by
        have := tk_le t0; have := tk_le t1
        unfold mu; simp only [List.length_cons]; omega
      have := ok_error (top_ok _ _ hm) heq
      intro hc; injection hc with hc; exact this hc
  | [t0], some err => simp only; intro hc; cases hc
  | [t0], none =>
    simp only
    split
    · intro hc; cases hc
    · rename_i err heq
      have hm : mu ⟨t0, ⟨.end, []⟩, [], none⟩ ≤ [t0].length := by
        have := tk_le t0
        have e : tk (⟨.end, []⟩ : Token) = 0 := rfl
        unfold mu; simp only [e, List.length_cons, List.length_nil]; omega
      have := ok_error (top_ok _ _ hm) heq
      intro hc; injection hc with hc; exact this hc
  | [], some err => simp only; intro hc; cases hc
  | [], none =>
    simp only
    split
    · intro hc; cases hc
    · rename_i err heq
      have hm : mu ⟨⟨.end, []⟩, ⟨.end, []⟩, [], none⟩ ≤ ([] : List Token).length := by
        unfold mu; simp [tk]
      have := ok_error (top_ok _ _ hm) heq
      intro hc; injection hc with hc; exact this hc

/-- non-vacuity: `a.b` parses, deep nesting `((((a))))` parses, a dangling operator is a syntax error — never `fuel` -/
example : Parser.parse [0x61, 0x2E, 0x62] ≠ .error .fuel := fuel_sufficient _
example : Parser.parse [0x28, 0x28, 0x28, 0x28, 0x61, 0x29, 0x29, 0x29, 0x29] ≠ .error .fuel := fuel_sufficient _
example : Parser.parse [0x61, 0x2E] ≠ .error .fuel := fuel_sufficient _
example : fuelFor 3 = 56 := rfl

end Jmes.Fuel
