/-
  Helpers for Jmes/Properties/C15C.lean, part 2: the ERROR half of the oracle theorem for expressions that enumerate
  object members — value-level functions.

  `ErrH r r'`: if the model's outcome `r` is the error set `cs`, the run's outcome `r'` is ONE category, and it is in `cs`.
-/
import Jmes.Proofs.C15BConcMainLemmas
set_option linter.unusedVariables false
namespace Jmes.C15C
open Jmes Invar

/-- error half: a model error set contains the single category the run reports -/
def ErrH {α β} (r : Res α) (r' : Res β) : Prop := ∀ cs, r = .err cs → ∃ c ∈ cs, r' = .err [c]

/-- weaker, for value-level functions: the run fails too, with categories among the model's -/
def ErrSub {α β} (r : Res α) (r' : Res β) : Prop := ∀ cs, r = .err cs → ∃ cs', r' = .err cs' ∧ ∀ c ∈ cs', c ∈ cs

namespace ErrH
variable {α β γ δ : Type} {C : α → β → Prop}

theorem of_not_err {r : Res α} {r' : Res β} (h : ∀ cs, r ≠ .err cs) : ErrH r r' := fun cs e => absurd e (h cs)
theorem ok {a : α} {r' : Res β} : ErrH (.ok a) r' := of_not_err (by intro cs e; cases e)
theorem pure {a : α} {r' : Res β} : ErrH (Pure.pure a : Res α) r' := ok
theorem nondet {r' : Res β} : ErrH (.nondet : Res α) r' := of_not_err (by intro cs e; cases e)
theorem err1 (c : Cat) : ErrH (.err [c] : Res α) (.err [c] : Res β) := by
  intro cs e; cases e; exact ⟨c, by simp, rfl⟩
theorem errType : ErrH (Jmes.errType : Res α) (Jmes.errType : Res β) := err1 _

theorem bind {r : Res α} {r' : Res β} {f : α → Res γ} {f' : β → Res δ} (hs : SimG C r r') (he : ErrH r r')
    (hf : ∀ a b, C a b → ErrH (f a) (f' b)) : ErrH (r >>= f) (r' >>= f') := by
  cases r with
  | ok a =>
    obtain ⟨b, rfl, hab⟩ := hs a rfl
    exact hf a b hab
  | err cs =>
    intro cs' e
    cases e
    obtain ⟨c, hc, e'⟩ := he cs rfl
    exact ⟨c, hc, by rw [e']; rfl⟩
  | _ => exact of_not_err (by intro a e; cases e)

/-- from the weaker form, when the run's error sets are singletons -/
theorem of_sub {r : Res α} {r' : Res β} (h : ErrSub r r') (hs : ∀ cs, r' = .err cs → cs.length = 1) : ErrH r r' := by
  intro cs e
  obtain ⟨cs', e', hsub⟩ := h cs e
  have hl := hs cs' e'
  match cs', hl with
  | [c], _ => exact ⟨c, hsub c (by simp), e'⟩
end ErrH

namespace ErrSub
variable {α : Type}
theorem of_eq {r r' : Res α} (e : r' = r) : ErrSub r r' := fun cs h => ⟨cs, by rw [e, h], fun _ h => h⟩
theorem of_not_err {β} {r : Res α} {r' : Res β} (h : ∀ cs, r ≠ .err cs) : ErrSub r r' := fun cs e => absurd e (h cs)
theorem ok {β} {a : α} {r' : Res β} : ErrSub (.ok a) r' := of_not_err (by intro cs e; cases e)
theorem errType {β} : ErrSub (Jmes.errType : Res α) (Jmes.errType : Res β) := by
  intro cs e; cases e; exact ⟨_, rfl, fun _ h => h⟩
end ErrSub

/-- a definite outcome (strict mode) has singleton error sets -/
theorem goodR_single {r : Res Val} (h : GoodR true r) : ∀ cs, r = .err cs → cs.length = 1 := by
  intro cs e; subst e; exact h rfl

/-! ### the eager builtins -/

theorem numAbs_errSub {a a' : Val} (h : Conc a a') : ErrSub (numAbs a) (numAbs a') :=
  .of_eq (by simp only [numAbs, conc_toFloat h, conc_toDecimal h])
theorem numCeil_errSub {a a' : Val} (h : Conc a a') : ErrSub (numCeil a) (numCeil a') :=
  .of_eq (by simp only [numCeil, conc_toFloat h, conc_toDecimal h])
theorem numFloor_errSub {a a' : Val} (h : Conc a a') : ErrSub (numFloor a) (numFloor a') :=
  .of_eq (by simp only [numFloor, conc_toFloat h, conc_toDecimal h])
theorem startsWith_errSub {a a' b b' : Val} (ha : Conc a a') (hb : Conc b b') : ErrSub (startsWith a b) (startsWith a' b') :=
  .of_eq (by simp only [startsWith, conc_strArg ha, conc_strArg hb])
theorem endsWith_errSub {a a' b b' : Val} (ha : Conc a a') (hb : Conc b b') : ErrSub (endsWith a b) (endsWith a' b') :=
  .of_eq (by simp only [endsWith, conc_strArg ha, conc_strArg hb])
theorem findFirst_errSub {a a' b b' : Val} (ha : Conc a a') (hb : Conc b b') : ErrSub (findFirst a b) (findFirst a' b') :=
  .of_eq (by simp only [findFirst, conc_strArg ha, conc_strArg hb])
theorem findLast_errSub {a a' b b' : Val} (ha : Conc a a') (hb : Conc b b') : ErrSub (findLast a b) (findLast a' b') :=
  .of_eq (by simp only [findLast, conc_strArg ha, conc_strArg hb])
theorem findFrom_errSub (l : Bool) {a a' b b' c c' : Val} (ha : Conc a a') (hb : Conc b b') (hc : Conc c c') :
    ErrSub (findFrom l a b c) (findFrom l a' b' c') :=
  .of_eq (by simp only [findFrom, conc_strArg ha, conc_strArg hb, conc_intArg hc])
theorem findBetween_errSub (l : Bool) {a a' b b' c c' d d' : Val} (ha : Conc a a') (hb : Conc b b') (hc : Conc c c')
    (hd : Conc d d') : ErrSub (findBetween l a b c d) (findBetween l a' b' c' d') :=
  .of_eq (by simp only [findBetween, conc_strArg ha, conc_strArg hb, conc_intArg hd, conc_toInt hc, conc_toInt hd,
    conc_toDecimal hc])
theorem replace_errSub {a a' b b' c c' : Val} (ha : Conc a a') (hb : Conc b b') (hc : Conc c c') :
    ErrSub (replace a b c) (replace a' b' c') :=
  .of_eq (by simp only [replace, conc_strArg ha, conc_strArg hb, conc_strArg hc])
theorem replaceCount_errSub {a a' b b' c c' d d' : Val} (ha : Conc a a') (hb : Conc b b') (hc : Conc c c')
    (hd : Conc d d') : ErrSub (replaceCount a b c d) (replaceCount a' b' c' d') :=
  .of_eq (by simp only [replaceCount, conc_strArg ha, conc_strArg hb, conc_strArg hc, conc_intArg hd])
theorem split_errSub {a a' b b' : Val} (ha : Conc a a') (hb : Conc b b') : ErrSub (split a b) (split a' b') :=
  .of_eq (by simp only [split, conc_strArg ha, conc_strArg hb])
theorem splitCount_errSub {a a' b b' c c' : Val} (ha : Conc a a') (hb : Conc b b') (hc : Conc c c') :
    ErrSub (splitCount a b c) (splitCount a' b' c') :=
  .of_eq (by simp only [splitCount, conc_strArg ha, conc_strArg hb, conc_intArg hc])
theorem trim_errSub {a a' b b' : Val} (ha : Conc a a') (hb : Conc b b') : ErrSub (trim a b) (trim a' b') :=
  .of_eq (by simp only [trim, conc_strArg ha, conc_strArg hb])
theorem trimLeft_errSub {a a' b b' : Val} (ha : Conc a a') (hb : Conc b b') : ErrSub (trimLeft a b) (trimLeft a' b') :=
  .of_eq (by simp only [trimLeft, conc_strArg ha, conc_strArg hb])
theorem trimRight_errSub {a a' b b' : Val} (ha : Conc a a') (hb : Conc b b') : ErrSub (trimRight a b) (trimRight a' b') :=
  .of_eq (by simp only [trimRight, conc_strArg ha, conc_strArg hb])
theorem trimSpace_errSub {a a' : Val} (ha : Conc a a') : ErrSub (trimSpace a) (trimSpace a') :=
  .of_eq (by simp only [trimSpace, conc_strArg ha])
theorem trimSpaceLeft_errSub {a a' : Val} (ha : Conc a a') : ErrSub (trimSpaceLeft a) (trimSpaceLeft a') :=
  .of_eq (by simp only [trimSpaceLeft, conc_strArg ha])
theorem trimSpaceRight_errSub {a a' : Val} (ha : Conc a a') : ErrSub (trimSpaceRight a) (trimSpaceRight a') :=
  .of_eq (by simp only [trimSpaceRight, conc_strArg ha])
theorem typeName_errSub {a a' : Val} (h : Conc a a') : ErrSub (typeName a) (typeName a') := .of_eq (conc_typeName h)

theorem lower_errSub {a a' : Val} (h : Conc a a') : ErrSub (lower a) (lower a') := by
  cases a with
  | arr t xs => obtain ⟨t', xs', rfl, _⟩ := conc_arr h; exact .errType
  | obj kvs => obtain ⟨kvs', rfl, _⟩ := conc_obj h; exact .errType
  | _ => simp only [Conc] at h; subst h; exact .of_eq rfl
theorem upper_errSub {a a' : Val} (h : Conc a a') : ErrSub (upper a) (upper a') := by
  cases a with
  | arr t xs => obtain ⟨t', xs', rfl, _⟩ := conc_arr h; exact .errType
  | obj kvs => obtain ⟨kvs', rfl, _⟩ := conc_obj h; exact .errType
  | _ => simp only [Conc] at h; subst h; exact .of_eq rfl

/-- a function whose first argument must be a string, otherwise invalid-type on both sides -/
theorem strFirst_errSub {F : Val → Res Val} {F' : Val → Res Val} {a a' : Val} (h : Conc a a')
    (hs : ∀ s, ErrSub (F (.str s)) (F' (.str s)))
    (he : ∀ v, strArg v = Jmes.errType → F v = Jmes.errType ∧ F' v = Jmes.errType) :
    ErrSub (F a) (F' a') := by
  cases a with
  | str s => simp only [Conc] at h; subst h; exact hs s
  | arr t xs =>
    obtain ⟨t', xs', rfl, _⟩ := conc_arr h
    rw [(he (.arr t xs) rfl).1, (he (.arr t' xs') rfl).2]; exact .errType
  | obj kvs =>
    obtain ⟨kvs', rfl, _⟩ := conc_obj h
    rw [(he (.obj kvs) rfl).1, (he (.obj kvs') rfl).2]; exact .errType
  | null => simp only [Conc] at h; subst h; rw [(he _ rfl).1, (he _ rfl).2]; exact .errType
  | bool b => simp only [Conc] at h; subst h; rw [(he _ rfl).1, (he _ rfl).2]; exact .errType
  | num n => simp only [Conc] at h; subst h; rw [(he _ rfl).1, (he _ rfl).2]; exact .errType
  | foreign k => simp only [Conc] at h; subst h; rw [(he _ rfl).1, (he _ rfl).2]; exact .errType

theorem padLeft_errSub {a a' b b' c c' : Val} (ha : Conc a a') (hb : Conc b b') (hc : Conc c c') :
    ErrSub (padLeft a b c) (padLeft a' b' c') := by
  refine strFirst_errSub (F := fun a => padLeft a b c) (F' := fun a => padLeft a b' c') ha ?_ ?_
  · intro s; exact .of_eq (by simp only [padLeft, conc_strArg hc, conc_intArg hb])
  · intro v hv; simp only [padLeft, hv]; exact ⟨rfl, rfl⟩
theorem padRight_errSub {a a' b b' c c' : Val} (ha : Conc a a') (hb : Conc b b') (hc : Conc c c') :
    ErrSub (padRight a b c) (padRight a' b' c') := by
  refine strFirst_errSub (F := fun a => padRight a b c) (F' := fun a => padRight a b' c') ha ?_ ?_
  · intro s; exact .of_eq (by simp only [padRight, conc_strArg hc, conc_intArg hb])
  · intro v hv; simp only [padRight, hv]; exact ⟨rfl, rfl⟩
theorem padSpaceLeft_errSub {a a' b b' : Val} (ha : Conc a a') (hb : Conc b b') :
    ErrSub (padSpaceLeft a b) (padSpaceLeft a' b') := by
  refine strFirst_errSub (F := fun a => padSpaceLeft a b) (F' := fun a => padSpaceLeft a b') ha ?_ ?_
  · intro s; exact .of_eq (by simp only [padSpaceLeft, conc_intArg hb])
  · intro v hv; simp only [padSpaceLeft, hv]; exact ⟨rfl, rfl⟩
theorem padSpaceRight_errSub {a a' b b' : Val} (ha : Conc a a') (hb : Conc b b') :
    ErrSub (padSpaceRight a b) (padSpaceRight a' b') := by
  refine strFirst_errSub (F := fun a => padSpaceRight a b) (F' := fun a => padSpaceRight a b') ha ?_ ?_
  · intro s; exact .of_eq (by simp only [padSpaceRight, conc_intArg hb])
  · intro v hv; simp only [padSpaceRight, hv]; exact ⟨rfl, rfl⟩

theorem length_errSub {a a' : Val} (h : Conc a a') : ErrSub (length a) (length a') := by
  cases a with
  | arr t xs => exact .ok
  | obj kvs => exact .ok
  | _ => simp only [Conc] at h; subst h; exact .of_eq rfl

theorem reverse_errSub {a a' : Val} (h : Conc a a') : ErrSub (reverse a) (reverse a') := by
  cases a with
  | arr t xs => exact .ok
  | obj kvs => obtain ⟨kvs', rfl, _⟩ := conc_obj h; exact .errType
  | _ => simp only [Conc] at h; subst h; exact .of_eq rfl

theorem toStringV_errSub {a a' : Val} (h : Conc a a') : ErrSub (toStringV a) (toStringV a') := by
  intro cs hv
  have hg' := hasEnum2_good _ (conc_good _ _ h)
  cases a with
  | str s => cases hv
  | arr t xs =>
    obtain ⟨t', xs', rfl, _⟩ := conc_arr h
    simp only [toStringV] at hv ⊢
    split at hv
    · cases hv
    · rename_i he
      rw [hg', conc_encode _ _ h (by simpa using he)]
      simp only [Bool.false_eq_true, if_false]
      split at hv
      · cases hv
      · cases hv; exact ⟨_, rfl, fun _ h => h⟩
      · cases hv
  | obj kvs =>
    obtain ⟨kvs', rfl, _⟩ := conc_obj h
    simp only [toStringV] at hv ⊢
    split at hv
    · cases hv
    · rename_i he
      rw [hg', conc_encode _ _ h (by simpa using he)]
      simp only [Bool.false_eq_true, if_false]
      split at hv
      · cases hv
      · cases hv; exact ⟨_, rfl, fun _ h => h⟩
      · cases hv
  | null | bool _ | num _ | foreign _ =>
    simp only [Conc] at h; subst h
    exact ⟨cs, hv, fun _ h => h⟩

theorem contains_errSub {a a' b b' : Val} (ha : Conc a a') (hb : Conc b b') : ErrSub (contains a b) (contains a' b') := by
  cases a with
  | str s =>
    refine .of_not_err ?_
    intro cs e
    simp only [contains] at e
    split at e <;> cases e
  | arr t xs =>
    refine .of_not_err ?_
    intro cs e
    simp only [contains] at e
    split at e <;> cases e
  | obj kvs => obtain ⟨kvs', rfl, _⟩ := conc_obj ha; exact .errType
  | _ => simp only [Conc] at ha; subst ha; exact .errType

/-! ### membership across a concretisation in some order -/

theorem concP_mem_left {xs xs' : List Val} (hp : ConcP xs xs') : ∀ x ∈ xs, ∃ x' ∈ xs', Conc x x' := by
  intro x hx
  obtain ⟨ys', hl, hpm⟩ := hp
  obtain ⟨x', hx', hc⟩ := (concL_iff.mp hl).mem_left x hx
  exact ⟨x', hpm.mem_iff.mpr hx', hc⟩

theorem concP_mem_right {xs xs' : List Val} (hp : ConcP xs xs') : ∀ x' ∈ xs', ∃ x ∈ xs, Conc x x' := by
  intro x' hx'
  obtain ⟨ys', hl, hpm⟩ := hp
  exact (concL_iff.mp hl).mem_right x' (hpm.mem_iff.mp hx')

def isStrV : Val → Bool
  | .str _ => true
  | _ => false

theorem conc_isStrV {x x' : Val} (h : Conc x x') : isStrV x' = isStrV x := by
  cases x with
  | arr t xs => obtain ⟨t', xs', rfl, _⟩ := conc_arr h; rfl
  | obj kvs => obtain ⟨kvs', rfl, _⟩ := conc_obj h; rfl
  | _ => simp only [Conc] at h; subst h; rfl

theorem allStrings_none_iff : ∀ (xs : List Val), allStrings xs = none ↔ ∃ x ∈ xs, isStrV x = false
  | [] => by simp [allStrings]
  | x :: xs => by
    cases x with
    | str s =>
      have ih := allStrings_none_iff xs
      simp only [allStrings, Option.map_eq_none_iff, ih, List.mem_cons, exists_eq_or_imp, isStrV]
      simp
    | _ => simp [allStrings, isStrV]

theorem allDecimals_none_iff : ∀ (xs : List Val), allDecimals xs = none ↔ ∃ x ∈ xs, toDecimal x = none
  | [] => by simp [allDecimals]
  | x :: xs => by
    have ih := allDecimals_none_iff xs
    simp only [allDecimals, List.mem_cons, exists_eq_or_imp]
    cases hd : toDecimal x with
    | none => simp
    | some d => simp [Option.map_eq_none_iff, ih]

theorem isStrV_toDecimal {x : Val} (h : isStrV x = true) : toDecimal x = none := by
  cases x <;> simp [isStrV] at h
  simp [toDecimal]

/-- `sort` fails exactly on an array holding both a non-string and a non-number -/
theorem sortArray_err {t : ATag} {xs : List Val} {cs : List Cat} (h : sortArray (.arr t xs) = .err cs) :
    cs = [Cat.invalidType] ∧ (∃ x ∈ xs, isStrV x = false) ∧ (∃ x ∈ xs, toDecimal x = none) := by
  cases xs with
  | nil => simp only [sortArray] at h; cases h
  | cons x rest =>
    by_cases hx : isStrV x = true
    · obtain ⟨s, rfl⟩ : ∃ s, x = .str s := by cases x <;> simp [isStrV] at hx; exact ⟨_, rfl⟩
      simp only [sortArray] at h
      cases hs : allStrings (Val.str s :: rest) with
      | some ss => rw [hs] at h; cases h
      | none =>
        rw [hs] at h; cases h
        exact ⟨rfl, (allStrings_none_iff _).mp hs, ⟨Val.str s, by simp, isStrV_toDecimal (x := .str s) rfl⟩⟩
    · have hx' : isStrV x = false := by simpa using hx
      have hred : sortArray (.arr t (x :: rest)) = (match allDecimals (x :: rest) with
          | some ds =>
            let sorted := ((x :: rest).zip ds).mergeSort (fun a b => Dec.compare a.2 b.2 ≤ 0)
            if hasAmbiguousTie sorted then .nondet else .ok (.arr .plain (sorted.map Prod.fst))
          | none => errType) := by
        cases x with
        | str s => simp [isStrV] at hx
        | _ => rfl
      rw [hred] at h
      cases hd : allDecimals (x :: rest) with
      | some ds => rw [hd] at h; simp only at h; split at h <;> cases h
      | none =>
        rw [hd] at h; cases h
        exact ⟨rfl, ⟨x, by simp, hx'⟩, (allDecimals_none_iff _).mp hd⟩

theorem sortArray_err_of {t : ATag} {xs : List Val} (h1 : ∃ x ∈ xs, isStrV x = false)
    (h2 : ∃ x ∈ xs, toDecimal x = none) : sortArray (.arr t xs) = errType := by
  cases xs with
  | nil => obtain ⟨x, hx, _⟩ := h1; cases hx
  | cons x rest =>
    by_cases hx : isStrV x = true
    · obtain ⟨s, rfl⟩ : ∃ s, x = .str s := by cases x <;> simp [isStrV] at hx; exact ⟨_, rfl⟩
      simp only [sortArray, (allStrings_none_iff _).mpr h1]
    · have hred : sortArray (.arr t (x :: rest)) = (match allDecimals (x :: rest) with
          | some ds =>
            let sorted := ((x :: rest).zip ds).mergeSort (fun a b => Dec.compare a.2 b.2 ≤ 0)
            if hasAmbiguousTie sorted then .nondet else .ok (.arr .plain (sorted.map Prod.fst))
          | none => errType) := by
        cases x with
        | str s => simp [isStrV] at hx
        | _ => rfl
      rw [hred, (allDecimals_none_iff _).mpr h2]

theorem sortArray_errSub {a a' : Val} (h : Conc a a') : ErrSub (sortArray a) (sortArray a') := by
  cases a with
  | arr t xs =>
    obtain ⟨t', xs', rfl, hne, hp, _, _⟩ := conc_arr h
    intro cs e
    obtain ⟨rfl, ⟨x, hx, h1⟩, ⟨y, hy, h2⟩⟩ := sortArray_err e
    obtain ⟨x', hx', cx⟩ := concP_mem_left hp x hx
    obtain ⟨y', hy', cy⟩ := concP_mem_left hp y hy
    refine ⟨_, sortArray_err_of ⟨x', hx', by rw [conc_isStrV cx, h1]⟩ ⟨y', hy', by rw [conc_toDecimal cy, h2]⟩,
      fun _ h => h⟩
  | obj kvs => obtain ⟨kvs', rfl, _⟩ := conc_obj h; exact .errType
  | _ => simp only [Conc] at h; subst h; exact .of_eq rfl

theorem join_errSub {a a' b b' : Val} (ha : Conc a a') (hb : Conc b b') : ErrSub (join a b) (join a' b') := by
  cases b with
  | arr t xs =>
    obtain ⟨t', xs', rfl, hne, hp, _, _⟩ := conc_arr hb
    cases a with
    | str s =>
      simp only [Conc] at ha; subst ha
      intro cs e
      simp only [join] at e ⊢
      cases hs : allStrings xs with
      | some ss => rw [hs] at e; simp only at e; split at e <;> cases e
      | none =>
        rw [hs] at e; cases e
        obtain ⟨x, hx, h1⟩ := (allStrings_none_iff _).mp hs
        obtain ⟨x', hx', cx⟩ := concP_mem_left hp x hx
        rw [(allStrings_none_iff _).mpr ⟨x', hx', by rw [conc_isStrV cx, h1]⟩]
        exact ⟨_, rfl, fun _ h => h⟩
    | arr u ys => obtain ⟨u', ys', rfl, _⟩ := conc_arr ha; exact .errType
    | obj kvs => obtain ⟨kvs', rfl, _⟩ := conc_obj ha; exact .errType
    | null | bool _ | num _ | foreign _ => simp only [Conc] at ha; subst ha; exact .errType
  | obj kvs => obtain ⟨kvs', rfl, _⟩ := conc_obj hb; exact .errType
  | _ => simp only [Conc] at hb; subst hb; exact .errType

theorem values_errH (π : Oracle) {a a' : Val} (h : Conc a a') : ErrH (values a) (valuesO π a') := by
  cases a with
  | obj kvs => exact .ok
  | arr t xs => obtain ⟨t', xs', rfl, _⟩ := conc_arr h; exact .errType
  | _ => simp only [Conc] at h; subst h; exact .errType
theorem keys_errH (π : Oracle) {a a' : Val} (h : Conc a a') : ErrH (keys a) (keysO π a') := by
  cases a with
  | obj kvs => exact .ok
  | arr t xs => obtain ⟨t', xs', rfl, _⟩ := conc_arr h; exact .errType
  | _ => simp only [Conc] at h; subst h; exact .errType
theorem items_errH (π : Oracle) {a a' : Val} (h : Conc a a') : ErrH (items a) (itemsO π a') := by
  cases a with
  | obj kvs => exact .ok
  | arr t xs => obtain ⟨t', xs', rfl, _⟩ := conc_arr h; exact .errType
  | _ => simp only [Conc] at h; subst h; exact .errType

/-! ### `from_items` -/

/-- a loop all of whose element outcomes are values or single categories from `S`, one of them an error, fails with
    a category from `S` -/
theorem collectO_fails {β} {h : Nat → Val → Res (List β)} {S : Cat → Prop} : ∀ (i : Nat) (xs : List Val),
    (∀ i, ∀ x ∈ xs, (∃ r, h i x = .ok r) ∨ ∃ c, S c ∧ h i x = .err [c]) →
    (∃ x ∈ xs, ∀ i, ∃ c, h i x = .err [c]) → ∃ c, S c ∧ collectO h i xs = .err [c]
  | _, [], _, hex => by obtain ⟨_, hx, _⟩ := hex; cases hx
  | i, x :: xs, hall, hex => by
    simp only [collectO]
    rcases hall i x (by simp) with ⟨r, hr⟩ | ⟨c, hc, he⟩
    · have hex' : ∃ z ∈ xs, ∀ i, ∃ c, h i z = .err [c] := by
        obtain ⟨z, hz, hzc⟩ := hex
        rcases List.mem_cons.mp hz with rfl | hz
        · obtain ⟨c, hc⟩ := hzc i; rw [hr] at hc; cases hc
        · exact ⟨z, hz, hzc⟩
      obtain ⟨c, hc, e⟩ := collectO_fails (i + 1) xs (fun i z hz => hall i z (List.mem_cons_of_mem _ hz)) hex'
      exact ⟨c, hc, by rw [hr, e]; rfl⟩
    · exact ⟨c, hc, by rw [he]; rfl⟩

theorem itemH_errEq {x x' : Val} (hx : Conc x x') : ∀ cl, itemH x = .err cl → itemH x' = .err cl := by
  intro cl e
  cases x with
  | arr t ia =>
    obtain ⟨t', ia', rfl, hne, hp, _, _⟩ := conc_arr hx
    match ia, hp, hx, e with
    | [], hp, _, e =>
      have : ia' = [] := List.eq_nil_of_length_eq_zero (by rw [← hp.length]; rfl)
      subst this; exact e
    | [a], hp, _, e =>
      obtain ⟨a', rfl⟩ : ∃ a', ia' = [a'] := by
        have := hp.length
        match ia', this with
        | [a'], _ => exact ⟨a', rfl⟩
      exact e
    | a :: b :: c :: r, hp, _, e =>
      obtain ⟨a', b', c', r', rfl⟩ : ∃ a' b' c' r', ia' = a' :: b' :: c' :: r' := by
        have := hp.length
        match ia', this with
        | a' :: b' :: c' :: r', _ => exact ⟨a', b', c', r', rfl⟩
      exact e
    | [k, v], hp, hx, e =>
      simp only [itemH] at e
      cases he : enum2 t [k, v] with
      | true => rw [he] at e; cases e
      | false =>
        rw [he] at e
        obtain ⟨t'', ia'', e2, _, hl, _⟩ := conc_arr_pos hx he
        cases e2
        obtain ⟨k', v', hk, hv, rfl⟩ := concL_two hl
        simp only [itemH, Bool.false_eq_true, if_false, enum2_of_ne _ hne] at e ⊢
        cases k with
        | str s => cases e
        | arr u ys => obtain ⟨u', ys', rfl, _⟩ := conc_arr hk; exact e
        | obj kvs => obtain ⟨kvs', rfl, _⟩ := conc_obj hk; exact e
        | null | bool _ | num _ | foreign _ => simp only [Conc] at hk; subst hk; exact e
  | obj kvs => obtain ⟨kvs', rfl, _⟩ := conc_obj hx; exact e
  | null | bool _ | num _ | foreign _ | str _ => simp only [Conc] at hx; subst hx; exact e

/-- on a value without map-ordered arrays an item is a member or one of the two shape errors -/
theorem itemH_good (x : Val) (hg : x.Good true = true) :
    (∃ r, itemH x = .ok r) ∨ ∃ c, (c = Cat.invalidType ∨ c = Cat.invalidValue) ∧ itemH x = .err [c] := by
  cases x with
  | arr t ia =>
    have ht : t ≠ .enum := by
      have := (good_arr.mp hg).1
      cases t <;> simp_all [tagOk]
    match ia with
    | [] => exact .inr ⟨_, .inr rfl, rfl⟩
    | [_] => exact .inr ⟨_, .inr rfl, rfl⟩
    | _ :: _ :: _ :: _ => exact .inr ⟨_, .inr rfl, rfl⟩
    | [k, v] =>
      simp only [itemH, enum2_of_ne _ ht, Bool.false_eq_true, if_false]
      cases k with
      | str s => exact .inl ⟨_, rfl⟩
      | _ => exact .inr ⟨_, .inr rfl, rfl⟩
  | _ => exact .inr ⟨_, .inl rfl, rfl⟩

theorem fromItems_errH {a a' : Val} (h : Conc a a') : ErrH (fromItems a) (fromItems a') := by
  intro cs hr
  cases a with
  | arr t xs =>
    obtain ⟨t', xs', rfl, hne, hp, _, _⟩ := conc_arr h
    have hg' := (good_arr.mp (conc_good _ _ h)).2
    simp only [fromItems, fromItemsLoop_eq] at hr ⊢
    cases hc : collect itemH xs with
    | ok ps => rw [hc] at hr; simp only [Res.ok_bind, Res.pure_eq] at hr; split at hr <;> cases hr
    | panic w => rw [hc] at hr; cases hr
    | nondet => rw [hc] at hr; cases hr
    | unmodelled w => rw [hc] at hr; cases hr
    | err cs0 =>
      rw [hc] at hr
      simp only [Res.err_bind] at hr
      rw [← collectO_const itemH 0 xs']
      cases he : enum2 t xs with
      | false =>
        rw [he] at hr
        simp only [Bool.false_eq_true, if_false, Res.err.injEq] at hr
        subst hr
        obtain ⟨t'', xs'', e, _, hl, _⟩ := conc_arr_pos h he
        cases e
        obtain ⟨c, hcm, e⟩ := collect_err_pos (h' := fun _ => itemH) 0 (fun i x x' _ hx => itemH_sim i x x' hx)
          (fun i x x' _ hx cl hcl => by
            have := itemH_errEq hx cl hcl
            rcases itemH_good x' (conc_good _ _ hx) with ⟨r, hr⟩ | ⟨c, _, hce⟩
            · rw [hr] at this; cases this
            · rw [hce] at this; cases this; exact ⟨c, by simp, hce⟩) hl hc
        rw [e]
        simp only [Res.err_bind, enum2_of_ne _ hne, Bool.false_eq_true, if_false]
        exact ⟨c, hcm, rfl⟩
      | true =>
        rw [he] at hr
        simp only [if_true, Res.err.injEq] at hr
        subst hr
        obtain ⟨x0, hx0, e0⟩ := collect_err_exists hc
        obtain ⟨x0', hx0', cx0⟩ := concP_mem_left hp x0 hx0
        obtain ⟨c, hcS, e⟩ := collectO_fails (h := fun _ => itemH)
          (S := fun c => c = Cat.invalidType ∨ c = Cat.invalidValue) 0 xs'
          (fun i x hx => itemH_good x (goodL_iff.mp hg' x hx))
          ⟨x0', hx0', fun i => by
            have := itemH_errEq cx0 _ e0
            rcases itemH_good x0' (conc_good _ _ cx0) with ⟨r, hr⟩ | ⟨c, _, hce⟩
            · rw [hr] at this; cases this
            · exact ⟨c, hce⟩⟩
        rw [e]
        simp only [Res.err_bind, enum2_of_ne _ hne, Bool.false_eq_true, if_false]
        refine ⟨c, Cat.mem_dedup.mpr ?_, rfl⟩
        rcases hcS with rfl | rfl <;> simp
  | obj kvs => obtain ⟨kvs', rfl, _⟩ := conc_obj h; exact ErrH.errType cs hr
  | null | bool _ | num _ | foreign _ | str _ => simp only [Conc] at h; subst h; exact ErrH.errType cs hr

theorem sortArray_errH {a a' : Val} (h : Conc a a') : ErrH (sortArray a) (sortArray a') := by
  intro cs e
  obtain ⟨cs', e', hsub⟩ := sortArray_errSub h cs e
  cases a with
  | arr t xs =>
    obtain ⟨t', xs', rfl, hne, hp, _, _⟩ := conc_arr h
    obtain ⟨rfl, _, _⟩ := sortArray_err e
    obtain ⟨rfl, _, _⟩ := sortArray_err e'
    exact ⟨_, by simp, e'⟩
  | obj kvs => obtain ⟨kvs', rfl, _⟩ := conc_obj h; exact ErrH.errType cs e
  | null | bool _ | num _ | foreign _ | str _ => simp only [Conc] at h; subst h; exact ErrH.errType cs e

/-! ### all covered eager builtins at once -/

/-- the builtins whose error half goes through `ErrSub`: not the enumerating ones, not `sort`, not `from_items`, not
    the four uncovered ones -/
def Fn.plainX : Fn → Bool
  | .avg | .sum | .max | .min | .fromItems | .keys | .values | .items | .sort => false
  | _ => true

set_option hygiene false in
macro "ar1 " t:term : tactic => `(tactic| (
  match args, h with
  | [], h => (simp only [ConcL] at h; subst h; exact ErrSub.of_eq rfl)
  | [a], h => (obtain ⟨a', ha, rfl⟩ := concL_one h; exact $t ha)
  | _ :: _ :: _, h =>
    (simp only [ConcL] at h; obtain ⟨_, _, _, ⟨_, _, _, _, rfl⟩, rfl⟩ := h; exact ErrSub.of_eq rfl)))
set_option hygiene false in
macro "ar2 " t:term : tactic => `(tactic| (
  match args, h with
  | [], h => (simp only [ConcL] at h; subst h; exact ErrSub.of_eq rfl)
  | [_], h => (obtain ⟨_, _, rfl⟩ := concL_one h; exact ErrSub.of_eq rfl)
  | [a, b], h => (obtain ⟨a', b', ha, hb, rfl⟩ := concL_two h; exact $t ha hb)
  | _ :: _ :: _ :: _, h =>
    (simp only [ConcL] at h; obtain ⟨_, _, _, ⟨_, _, _, ⟨_, _, _, _, rfl⟩, rfl⟩, rfl⟩ := h; exact ErrSub.of_eq rfl)))
set_option hygiene false in
macro "ar3 " t:term : tactic => `(tactic| (
  match args, h with
  | [], h => (simp only [ConcL] at h; subst h; exact ErrSub.of_eq rfl)
  | [_], h => (obtain ⟨_, _, rfl⟩ := concL_one h; exact ErrSub.of_eq rfl)
  | [_, _], h => (obtain ⟨_, _, _, _, rfl⟩ := concL_two h; exact ErrSub.of_eq rfl)
  | [a, b, c], h => (obtain ⟨a', b', c', ha, hb, hc, rfl⟩ := concL_three h; exact $t ha hb hc)
  | _ :: _ :: _ :: _ :: _, h =>
    (simp only [ConcL] at h
     obtain ⟨_, _, _, ⟨_, _, _, ⟨_, _, _, ⟨_, _, _, _, rfl⟩, rfl⟩, rfl⟩, rfl⟩ := h; exact ErrSub.of_eq rfl)))
set_option hygiene false in
macro "ar4 " t:term : tactic => `(tactic| (
  match args, h with
  | [], h => (simp only [ConcL] at h; subst h; exact ErrSub.of_eq rfl)
  | [_], h => (obtain ⟨_, _, rfl⟩ := concL_one h; exact ErrSub.of_eq rfl)
  | [_, _], h => (obtain ⟨_, _, _, _, rfl⟩ := concL_two h; exact ErrSub.of_eq rfl)
  | [_, _, _], h => (obtain ⟨_, _, _, _, _, _, rfl⟩ := concL_three h; exact ErrSub.of_eq rfl)
  | [a, b, c, d], h => (obtain ⟨a', b', c', d', ha, hb, hc, hd, rfl⟩ := concL_four h; exact $t ha hb hc hd)
  | _ :: _ :: _ :: _ :: _ :: _, h =>
    (simp only [ConcL] at h
     obtain ⟨_, _, _, ⟨_, _, _, ⟨_, _, _, ⟨_, _, _, ⟨_, _, _, _, rfl⟩, rfl⟩, rfl⟩, rfl⟩, rfl⟩ := h
     exact ErrSub.of_eq rfl)))

theorem applyFn_errSub (f : Fn) (hcov : Fn.plainX f = true) {args args' : List Val}
    (h : ConcL args args') : ErrSub (applyFn f args) (applyFn f args') := by
  cases f
  case avg | sum | max | min | fromItems | keys | values | items | sort => cases hcov
  case abs => ar1 numAbs_errSub
  case ceil => ar1 numCeil_errSub
  case floor => ar1 numFloor_errSub
  case contains => ar2 contains_errSub
  case endsWith => ar2 endsWith_errSub
  case startsWith => ar2 startsWith_errSub
  case findFirst => ar2 findFirst_errSub
  case findLast => ar2 findLast_errSub
  case findFirstFrom => ar3 (findFrom_errSub _)
  case findLastFrom => ar3 (findFrom_errSub _)
  case findFirstBetween => ar4 (findBetween_errSub _)
  case findLastBetween => ar4 (findBetween_errSub _)
  case join => ar2 join_errSub
  case length => ar1 length_errSub
  case lower => ar1 lower_errSub
  case upper => ar1 upper_errSub
  case padLeft => ar3 padLeft_errSub
  case padRight => ar3 padRight_errSub
  case padSpaceLeft => ar2 padSpaceLeft_errSub
  case padSpaceRight => ar2 padSpaceRight_errSub
  case replace => ar3 replace_errSub
  case replaceCount => ar4 replaceCount_errSub
  case reverse => ar1 reverse_errSub
  case split => ar2 split_errSub
  case splitCount => ar3 splitCount_errSub
  case toArray => ar1 (fun _ => ErrSub.ok)
  case toNumber => ar1 (fun _ => ErrSub.ok)
  case toString => ar1 toStringV_errSub
  case trim => ar2 trim_errSub
  case trimLeft => ar2 trimLeft_errSub
  case trimRight => ar2 trimRight_errSub
  case trimSpace => ar1 trimSpace_errSub
  case trimSpaceLeft => ar1 trimSpaceLeft_errSub
  case trimSpaceRight => ar1 trimSpaceRight_errSub
  case type => ar1 typeName_errSub

set_option hygiene false in
macro "arH1 " t:term : tactic => `(tactic| (
  match args, h with
  | [], h => (simp only [ConcL] at h; subst h; exact ErrH.err1 _)
  | [a], h => (obtain ⟨a', ha, rfl⟩ := concL_one h; exact $t ha)
  | _ :: _ :: _, h =>
    (simp only [ConcL] at h; obtain ⟨_, _, _, ⟨_, _, _, _, rfl⟩, rfl⟩ := h; exact ErrH.err1 _)))

/-- **error half of the eager builtins** (all but `sum`, `avg`, `max`, `min`): an error set of the model's function on
    `args` contains the single category the run's function reports on any concretisation `args'` -/
theorem applyFn_errH (π : Oracle) (f : Fn) (hcov : Fn.coveredM f = true) {args args' : List Val}
    (h : ConcL args args') : ErrH (applyFn f args) (applyFnO π f args') := by
  by_cases hp : Fn.plainX f = true
  · have hne : Fn.enumerates f = false := by cases f <;> first | rfl | cases hp
    rw [applyFnO_eq π hne]
    exact ErrH.of_sub (applyFn_errSub f hp h)
      (goodR_single (applyFn_sat (s := true) f (fun _ => hne) (concL_good _ _ h)))
  · cases f
    case fromItems => arH1 fromItems_errH
    case keys => arH1 (keys_errH π)
    case values => arH1 (values_errH π)
    case items => arH1 (items_errH π)
    case sort => arH1 sortArray_errH
    case avg | sum | max | min => cases hcov
    all_goals exact absurd rfl hp

/-! ### operators -/

theorem arith_errH (fop : F64 → F64 → F64) (dop : Dec → Dec → Dec) {x x' y y' : Val} (hx : Conc x x')
    (hy : Conc y y') : ErrH (arith fop dop x y) (arith fop dop x' y') :=
  ErrH.of_sub (.of_eq (by simp only [arith, toFloatPair, conc_toFloat hx, conc_toFloat hy, conc_toDecimal hx,
    conc_toDecimal hy])) (goodR_single (arith_sat fop dop x' y'))

theorem equalR_noErr (x y : Val) : ∀ cs, equalR x y ≠ .err cs := by
  intro cs e
  simp only [equalR] at e
  split at e <;> cases e

theorem applyBinOp_errH (op : BinOp) {x x' y y' : Val} (hx : Conc x x') (hy : Conc y y') :
    ErrH (applyBinOp op x y) (applyBinOp op x' y') := by
  cases op
  case eq => exact ErrH.bind (equalR_simE hx hy) (.of_not_err (equalR_noErr x y)) fun a b e => .pure
  case ne => exact ErrH.bind (equalR_simE hx hy) (.of_not_err (equalR_noErr x y)) fun a b e => .pure
  case lt => exact .ok
  case le => exact .ok
  case gt => exact .ok
  case ge => exact .ok
  all_goals exact arith_errH _ _ hx hy

theorem index_noErr (v : Val) (i : Int) : ∀ cs, index v i ≠ .err cs := by
  intro cs e
  cases v with
  | arr t xs =>
    simp only [index] at e
    by_cases h1 : ((if i < 0 then i + (xs.length : Int) else i) < 0 ∨ (if i < 0 then i + (xs.length : Int) else i) ≥ xs.length)
    · rw [if_pos h1] at e; cases e
    · rw [if_neg h1] at e
      cases he : enum2 t xs <;> rw [he] at e <;> cases e
  | _ => cases e

theorem slice_noErr (v : Val) (a b : Int) : ∀ cs, slice v a b ≠ .err cs := by
  intro cs e
  simp only [slice] at e
  split at e
  · split at e
    · cases e
    · split at e
      · cases e
      · split at e <;> cases e
  · split at e <;> cases e
  · cases e

theorem sliceStep_noErr (v : Val) (a b c : Int) : ∀ cs, sliceStep v a b c ≠ .err cs := by
  intro cs e
  simp only [sliceStep] at e
  split at e
  · split at e
    · cases e
    · split at e <;> cases e
  · split at e
    · cases e
    · split at e <;> cases e
  · cases e

/-! ### `zip` -/

theorem zipArgs_errH : ∀ {vs vs' : List Val}, ConcL vs vs' → ErrH (zipArgs vs) (zipArgs vs')
  | [], vs', h => by simp only [ConcL] at h; subst h; exact .ok
  | v :: rest, vs', h => by
    simp only [ConcL] at h
    obtain ⟨v', rest', hv, hr, rfl⟩ := h
    cases v with
    | arr t xs =>
      obtain ⟨t', xs', rfl, hne, _⟩ := conc_arr hv
      simp only [zipArgs]
      refine ErrH.bind (zipArgs_simE hr) (zipArgs_errH hr) fun cols cols' _ => ?_
      split
      · exact .nondet
      · exact .pure
    | obj kvs => obtain ⟨kvs', rfl, _⟩ := conc_obj hv; exact .errType
    | null | bool _ | num _ | foreign _ | str _ => simp only [Conc] at hv; subst hv; exact .errType

end Jmes.C15C
