/-
  Helper for C18C: the evaluator preserves `C18CR.Sorted` (every object inside a value has strictly increasing keys,
  the model's representation invariant of Go maps), and what `encoding/json` decodes is `Sorted`.

  * `seval_sd` (mutual structural recursion over the reference syntax `Tree`), `desugar_litsSD`, `ieval_sorted`,
    `evaluate_sorted`;
  * `decodedS_sorted`, `decode_sorted`, `parseJSONLiteral_sorted`.
  (Skeleton: `Jmes/Proofs/NoFloat.lean`.)
-/
import Jmes.Proofs.C18CSortedFn
namespace Jmes.C18CS
open Jmes Jmes.C18CR

/-- a two-member object with increasing keys (for the examples) -/
theorem sorted_obj2 {k1 k2 : Bytes} {v1 v2 : Val} (h : bytesLt k1 k2 = true) (h1 : Sorted v1) (h2 : Sorted v2) :
    Sorted (.obj [(k1, v1), (k2, v2)]) := by
  simp [Sorted, SortedF, KeySorted, h, h1, h2]

example : Sorted (.obj [([0x61], .null), ([0x62], .bool true)]) := sorted_obj2 (by decide) (by simp) (by simp)

/-- every value bound in the environment is `Sorted` (the environment itself is an association list with new bindings
    prepended, NOT a `Val.obj`: no order is required of its names) -/
def EnvSD (env : Env) : Prop := ∀ k x, (k, x) ∈ env → Sorted x

mutual
/-- every literal of the expression is `Sorted` -/
def TLits : Tree → Prop
  | .lit v => Sorted v
  | .current | .root | .field _ | .var _ | .index _ | .slice _ _ | .sliceStep _ _ _ => True
  | .sub l r | .binop _ l r | .and l r | .or l r | .proj l r | .sliceProj l r | .flatProj l r | .valueProj l r
  | .groupBy l r | .map l r | .maxBy l r | .minBy l r | .sortBy l r => TLits l ∧ TLits r
  | .not c | .neg c | .pos c | .prune c => TLits c
  | .filterProj l c r => TLits l ∧ TLits c ∧ TLits r
  | .call _ args | .multiList _ args | .merge args | .notNull args | .zip args => TLitsL args
  | .multiHash _ kvs => TLitsF kvs
  | .letIn bs body => TLitsF bs ∧ TLits body
def TLitsL : List Tree → Prop
  | [] => True
  | t :: ts => TLits t ∧ TLitsL ts
def TLitsF : List (Bytes × Tree) → Prop
  | [] => True
  | (_, t) :: rest => TLits t ∧ TLitsF rest
end

example : EnvSD [([0x78], .obj [([0x61], .null)]), ([0x61], .null)] := by
  intro k x h
  simp at h
  rcases h with ⟨_, rfl⟩ | ⟨_, rfl⟩ <;> simp [sorted_obj, KeySorted]
example : TLits (.sub (.field [0x61]) (.lit (.obj [([0x61], .null), ([0x62], .null)]))) := by
  simp only [TLits, true_and]; exact sorted_obj2 (by decide) (by simp) (by simp)

/-- a variable of a `Sorted` environment is `Sorted` -/
theorem envGet_sd {env : Env} (h : EnvSD env) {x : Bytes} {v : Val} (hv : env.get x = some v) : Sorted v :=
  h x v (objLookup_mem hv)

example : ∀ v, Env.get [([0x78], Val.obj [([0x61], .null)])] [0x78] = some v → Sorted v :=
  fun _ h => envGet_sd (by intro k x hm; simp at hm; rcases hm with ⟨_, rfl⟩; simp [sorted_obj, KeySorted]) h

mutual
/-- **the reference semantics preserves `Sorted`**: with the document, the current value and every bound value
    `Sorted`, and every literal of the expression `Sorted`, a successful evaluation gives a `Sorted` value.  Objects
    are built by multi-select hashes, `let` (bindings only), `merge`, `group_by`, `from_items` — all through
    `objInsert` / `groupInsert`, which keep the keys strictly increasing. -/
theorem seval_sd (root : Val) (hr : Sorted root) : (t : Tree) → (cur : Val) → (env : Env) → TLits t → Sorted cur →
    EnvSD env → ∀ w, seval root t cur env = .ok w → Sorted w
  | .lit v, cur, env, hl, hc, he, w, hw => by
    simp only [seval, Res.ok.injEq] at hw; subst hw; simpa [TLits] using hl
  | .current, cur, env, hl, hc, he, w, hw => by
    simp only [seval, Res.ok.injEq] at hw; subst hw; exact hc
  | .root, cur, env, hl, hc, he, w, hw => by
    simp only [seval, Res.ok.injEq] at hw; subst hw; exact hr
  | .field k, cur, env, hl, hc, he, w, hw => by
    simp only [seval, Res.ok.injEq] at hw; subst hw; exact field_sd k hc
  | .var x, cur, env, hl, hc, he, w, hw => by
    simp only [seval] at hw
    split at hw
    · next v hv => simp only [Res.ok.injEq] at hw; subst hw; exact envGet_sd he hv
    · simp at hw
  | .index i, cur, env, hl, hc, he, w, hw => by
    simp only [seval] at hw; exact index_sd hc hw
  | .slice a b, cur, env, hl, hc, he, w, hw => by
    simp only [seval] at hw; exact slice_sd hc hw
  | .sliceStep a b s, cur, env, hl, hc, he, w, hw => by
    simp only [seval] at hw; exact sliceStep_sd hc hw
  | .sub l r, cur, env, hl, hc, he, w, hw => by
    simp only [TLits] at hl
    simp only [seval, Res.bind_eq_ok] at hw
    obtain ⟨a, ha, hw⟩ := hw
    exact seval_sd root hr r a env hl.2 (seval_sd root hr l cur env hl.1 hc he a ha) he w hw
  | .binop op l r, cur, env, hl, hc, he, w, hw => by
    simp only [TLits] at hl
    simp only [seval, Res.bind_eq_ok] at hw
    obtain ⟨a, ha, b, hb, hw⟩ := hw
    exact applyBinOp_sd hw
  | .and l r, cur, env, hl, hc, he, w, hw => by
    simp only [TLits] at hl
    simp only [seval, Res.bind_eq_ok] at hw
    obtain ⟨a, ha, hw⟩ := hw
    split at hw
    · simp only [Res.pure_eq, Res.ok.injEq] at hw; subst hw; exact seval_sd root hr l cur env hl.1 hc he a ha
    · exact seval_sd root hr r cur env hl.2 hc he w hw
  | .or l r, cur, env, hl, hc, he, w, hw => by
    simp only [TLits] at hl
    simp only [seval, Res.bind_eq_ok] at hw
    obtain ⟨a, ha, hw⟩ := hw
    split at hw
    · simp only [Res.pure_eq, Res.ok.injEq] at hw; subst hw; exact seval_sd root hr l cur env hl.1 hc he a ha
    · exact seval_sd root hr r cur env hl.2 hc he w hw
  | .not c, cur, env, hl, hc, he, w, hw => by
    simp only [seval, Res.bind_eq_ok, Res.pure_eq, Res.ok.injEq] at hw
    obtain ⟨a, _, rfl⟩ := hw; simp
  | .neg c, cur, env, hl, hc, he, w, hw => by
    simp only [TLits] at hl
    simp only [seval, Res.bind_eq_ok, Res.pure_eq, Res.ok.injEq] at hw
    obtain ⟨a, ha, rfl⟩ := hw
    exact negateVal_sd _
  | .pos c, cur, env, hl, hc, he, w, hw => by
    simp only [TLits] at hl
    simp only [seval, Res.bind_eq_ok, Res.pure_eq, Res.ok.injEq] at hw
    obtain ⟨a, ha, rfl⟩ := hw
    split
    · exact seval_sd root hr c cur env hl hc he a ha
    · simp
  | .call f args, cur, env, hl, hc, he, w, hw => by
    simp only [TLits] at hl
    simp only [seval, Res.bind_eq_ok] at hw
    obtain ⟨vs, hvs, hw⟩ := hw
    exact applyFn_sd (sevalList_sd root hr args cur env hl hc he vs hvs) hw
  | .prune l, cur, env, hl, hc, he, w, hw => by
    simp only [TLits] at hl
    simp only [seval, Res.bind_eq_ok, Res.pure_eq, Res.ok.injEq] at hw
    obtain ⟨a, ha, rfl⟩ := hw
    exact pruneArray_sd (seval_sd root hr l cur env hl hc he a ha)
  | .proj l r, cur, env, hl, hc, he, w, hw => by
    simp only [TLits] at hl
    simp only [seval, Res.bind_eq_ok] at hw
    obtain ⟨a, ha, hw⟩ := hw
    exact projectArray_sd (fun x hx v hv => seval_sd root hr r x env hl.2 hx he v hv)
      (seval_sd root hr l cur env hl.1 hc he a ha) hw
  | .sliceProj l r, cur, env, hl, hc, he, w, hw => by
    simp only [TLits] at hl
    simp only [seval, Res.bind_eq_ok] at hw
    obtain ⟨a, ha, hw⟩ := hw
    have hna := seval_sd root hr l cur env hl.1 hc he a ha
    split at hw
    · exact seval_sd root hr r _ env hl.2 hna he w hw
    · exact projectArray_sd (fun x hx v hv => seval_sd root hr r x env hl.2 hx he v hv) hna hw
  | .flatProj l r, cur, env, hl, hc, he, w, hw => by
    simp only [TLits] at hl
    simp only [seval, Res.bind_eq_ok] at hw
    obtain ⟨a, ha, hw⟩ := hw
    exact flattenAndProjectArray_sd (fun x hx v hv => seval_sd root hr r x env hl.2 hx he v hv)
      (seval_sd root hr l cur env hl.1 hc he a ha) hw
  | .filterProj l c r, cur, env, hl, hc, he, w, hw => by
    simp only [TLits] at hl
    simp only [seval, Res.bind_eq_ok] at hw
    obtain ⟨a, ha, hw⟩ := hw
    exact filterAndProjectArray_sd (fun x hx v hv => seval_sd root hr r x env hl.2.2 hx he v hv)
      (seval_sd root hr l cur env hl.1 hc he a ha) hw
  | .valueProj l r, cur, env, hl, hc, he, w, hw => by
    simp only [TLits] at hl
    simp only [seval, Res.bind_eq_ok] at hw
    obtain ⟨a, ha, hw⟩ := hw
    exact projectObject_sd (fun x hx v hv => seval_sd root hr r x env hl.2 hx he v hv)
      (seval_sd root hr l cur env hl.1 hc he a ha) hw
  | .multiList chk es, cur, env, hl, hc, he, w, hw => by
    simp only [TLits] at hl
    simp only [seval] at hw
    split at hw
    · simp only [Res.ok.injEq] at hw; subst hw; simp
    · simp only [Res.bind_eq_ok, Res.pure_eq, Res.ok.injEq] at hw
      obtain ⟨vs, hvs, rfl⟩ := hw
      exact sorted_arr.mpr (sevalList_sd root hr es cur env hl hc he vs hvs)
  | .multiHash chk kvs, cur, env, hl, hc, he, w, hw => by
    simp only [TLits] at hl
    simp only [seval] at hw
    split at hw
    · simp only [Res.ok.injEq] at hw; subst hw; simp
    · simp only [Res.bind_eq_ok, Res.pure_eq, Res.ok.injEq] at hw
      obtain ⟨fs, hfs, rfl⟩ := hw
      exact objSD_iff.mp (sevalFields_sd root hr kvs cur env hl hc he fs hfs)
  | .letIn bs body, cur, env, hl, hc, he, w, hw => by
    simp only [TLits] at hl
    simp only [seval, Res.bind_eq_ok] at hw
    obtain ⟨vs, hvs, hw⟩ := hw
    have hvs' := sevalFields_sd root hr bs cur env hl.1 hc he vs hvs
    refine seval_sd root hr body cur (vs ++ env) hl.2 hc ?_ w hw
    intro k x hm
    rcases List.mem_append.mp hm with hm | hm
    · exact hvs'.2 k x hm
    · exact he k x hm
  | .groupBy a e, cur, env, hl, hc, he, w, hw => by
    simp only [TLits] at hl
    simp only [seval, Res.bind_eq_ok] at hw
    obtain ⟨v, hv, hw⟩ := hw
    exact groupBy_sd (seval_sd root hr a cur env hl.1 hc he v hv) hw
  | .map e a, cur, env, hl, hc, he, w, hw => by
    simp only [TLits] at hl
    simp only [seval, Res.bind_eq_ok] at hw
    obtain ⟨v, hv, hw⟩ := hw
    exact mapArray_sd (fun x hx v hv => seval_sd root hr e x env hl.1 hx he v hv)
      (seval_sd root hr a cur env hl.2 hc he v hv) hw
  | .maxBy a e, cur, env, hl, hc, he, w, hw => by
    simp only [TLits] at hl
    simp only [seval, Res.bind_eq_ok] at hw
    obtain ⟨v, hv, hw⟩ := hw
    exact arrayPickBy_sd (seval_sd root hr a cur env hl.1 hc he v hv) hw
  | .minBy a e, cur, env, hl, hc, he, w, hw => by
    simp only [TLits] at hl
    simp only [seval, Res.bind_eq_ok] at hw
    obtain ⟨v, hv, hw⟩ := hw
    exact arrayPickBy_sd (seval_sd root hr a cur env hl.1 hc he v hv) hw
  | .sortBy a e, cur, env, hl, hc, he, w, hw => by
    simp only [TLits] at hl
    simp only [seval, Res.bind_eq_ok] at hw
    obtain ⟨v, hv, hw⟩ := hw
    exact sortArrayBy_sd (seval_sd root hr a cur env hl.1 hc he v hv) hw
  | .merge args, cur, env, hl, hc, he, w, hw => by
    simp only [TLits] at hl
    simp only [seval, Res.bind_eq_ok, Res.pure_eq, Res.ok.injEq] at hw
    obtain ⟨kvs, hk, rfl⟩ := hw
    exact objSD_iff.mp (sevalMerge_sd root hr args cur env [] hl hc he objSD_nil kvs hk)
  | .notNull args, cur, env, hl, hc, he, w, hw => by
    simp only [TLits] at hl
    simp only [seval] at hw
    exact sevalNotNull_sd root hr args cur env hl hc he w hw
  | .zip args, cur, env, hl, hc, he, w, hw => by
    simp only [TLits] at hl
    simp only [seval, Res.bind_eq_ok] at hw
    obtain ⟨vs, hvs, cols, hcols, hw⟩ := hw
    have hcn := zipArgs_sd (sevalZip_sd root hr args cur env hl hc he vs hvs) hcols
    split at hw
    · simp only [Res.pure_eq, Res.ok.injEq] at hw; subst hw; simp [sorted_arr]
    · simp only [Res.pure_eq, Res.ok.injEq] at hw; subst hw
      exact sorted_arr.mpr (zipRows_sd _ hcn)
/-- `seval_sd` for an argument list -/
theorem sevalList_sd (root : Val) (hr : Sorted root) : (ts : List Tree) → (cur : Val) → (env : Env) →
    TLitsL ts → Sorted cur → EnvSD env → ∀ vs, sevalList root ts cur env = .ok vs → ∀ v ∈ vs, Sorted v
  | [], cur, env, hl, hc, he, vs, hw => by
    simp only [sevalList, Res.ok.injEq] at hw; subst hw; simp
  | t :: ts, cur, env, hl, hc, he, vs, hw => by
    simp only [TLitsL] at hl
    simp only [sevalList, Res.bind_eq_ok, Res.pure_eq, Res.ok.injEq] at hw
    obtain ⟨v, hv, rest, hrest, rfl⟩ := hw
    intro y hy
    rcases List.mem_cons.mp hy with rfl | hy
    · exact seval_sd root hr t cur env hl.1 hc he _ hv
    · exact sevalList_sd root hr ts cur env hl.2 hc he rest hrest y hy
/-- `seval_sd` for the members of a multi-select hash / the bindings of a `let`: key-sorted, `Sorted` values -/
theorem sevalFields_sd (root : Val) (hr : Sorted root) : (fs : List (Bytes × Tree)) → (cur : Val) → (env : Env) →
    TLitsF fs → Sorted cur → EnvSD env → ∀ kvs, sevalFields root fs cur env = .ok kvs → ObjSD kvs
  | [], cur, env, hl, hc, he, kvs, hw => by
    simp only [sevalFields, Res.ok.injEq] at hw; subst hw; exact objSD_nil
  | (k, t) :: rest, cur, env, hl, hc, he, kvs, hw => by
    simp only [TLitsF] at hl
    simp only [sevalFields] at hw
    exact combineUnordered_objSD (fun kvs' h' => sevalFields_sd root hr rest cur env hl.2 hc he kvs' h')
      (fun v hv => seval_sd root hr t cur env hl.1 hc he v hv) hw
/-- `seval_sd` for the arguments of `merge`: the accumulated object stays key-sorted -/
theorem sevalMerge_sd (root : Val) (hr : Sorted root) : (ts : List Tree) → (cur : Val) → (env : Env) →
    (acc : List (Bytes × Val)) → TLitsL ts → Sorted cur → EnvSD env → ObjSD acc →
    ∀ kvs, sevalMerge root ts cur env acc = .ok kvs → ObjSD kvs
  | [], cur, env, acc, hl, hc, he, hacc, kvs, hw => by
    simp only [sevalMerge, Res.ok.injEq] at hw; subst hw; exact hacc
  | t :: ts, cur, env, acc, hl, hc, he, hacc, kvs, hw => by
    simp only [TLitsL] at hl
    simp only [sevalMerge, Res.bind_eq_ok] at hw
    obtain ⟨v, hv, hw⟩ := hw
    have hvn := seval_sd root hr t cur env hl.1 hc he v hv
    split at hw
    · exact sevalMerge_sd root hr ts cur env _ hl.2 hc he
        (foldl_objInsert_objSD (sorted_obj.mp hvn).2 hacc) kvs hw
    · simp [errType] at hw
/-- `seval_sd` for the arguments of `not_null` -/
theorem sevalNotNull_sd (root : Val) (hr : Sorted root) : (ts : List Tree) → (cur : Val) → (env : Env) →
    TLitsL ts → Sorted cur → EnvSD env → ∀ w, sevalNotNull root ts cur env = .ok w → Sorted w
  | [], cur, env, hl, hc, he, w, hw => by
    simp only [sevalNotNull, Res.ok.injEq] at hw; subst hw; simp
  | t :: ts, cur, env, hl, hc, he, w, hw => by
    simp only [TLitsL] at hl
    simp only [sevalNotNull, Res.bind_eq_ok] at hw
    obtain ⟨v, hv, hw⟩ := hw
    split at hw
    · exact sevalNotNull_sd root hr ts cur env hl.2 hc he w hw
    · simp only [Res.pure_eq, Res.ok.injEq] at hw; subst hw
      exact seval_sd root hr t cur env hl.1 hc he _ hv
/-- `seval_sd` for the arguments of `zip` -/
theorem sevalZip_sd (root : Val) (hr : Sorted root) : (ts : List Tree) → (cur : Val) → (env : Env) →
    TLitsL ts → Sorted cur → EnvSD env → ∀ vs, sevalZip root ts cur env = .ok vs → ∀ v ∈ vs, Sorted v
  | [], cur, env, hl, hc, he, vs, hw => by
    simp only [sevalZip, Res.ok.injEq] at hw; subst hw; simp
  | t :: ts, cur, env, hl, hc, he, vs, hw => by
    simp only [TLitsL] at hl
    simp only [sevalZip, Res.bind_eq_ok] at hw
    obtain ⟨v, hv, hw⟩ := hw
    have hvn := seval_sd root hr t cur env hl.1 hc he v hv
    split at hw
    · simp only [Res.bind_eq_ok, Res.pure_eq, Res.ok.injEq] at hw
      obtain ⟨rest, hrest, rfl⟩ := hw
      intro y hy
      rcases List.mem_cons.mp hy with rfl | hy
      · exact hvn
      · exact sevalZip_sd root hr ts cur env hl.2 hc he rest hrest y hy
    · simp [errType] at hw
end


/-! ### the same for the Go-shaped evaluator `ieval` over `INode` -/

mutual
/-- every literal of the expression is `Sorted` -/
def ILits : INode → Prop
  | .lit v => Sorted v
  | .current | .root | .field _ | .variable _ | .flattenCurrent | .indexCurrent _ | .smallIndexCurrent _
  | .objectValuesCurrent | .pruneArrayCurrent | .sliceCurrent _ _ | .sliceStepCurrent _ _ _ => True
  | .binop _ l r | .and l r | .or l r | .filter l r | .filterAndProjectCurrent l r | .flattenAndProject l r
  | .pipe l r | .projectArray l r | .projectObject l r | .selectArraySingle l r | .selectObjectSingle l _ r
  | .groupBy l r | .map l r | .maxBy l r | .minBy l r | .sortBy l r => ILits l ∧ ILits r
  | .not c | .negate c | .assertNumber c | .filterCurrent c | .flatten c | .flattenAndProjectCurrent c | .index c _
  | .objectValues c | .projectArrayCurrent c | .projectObjectCurrent c | .pruneArray c | .selectArraySingleCurrent c
  | .selectObjectSingleCurrent _ c | .slice c _ _ | .sliceStep c _ _ _ => ILits c
  | .filterAndProject l f r => ILits l ∧ ILits f ∧ ILits r
  | .call _ args | .selectArrayCurrent args | .merge args | .notNull args | .zip args => ILitsL args
  | .selectArray c fs => ILits c ∧ ILitsL fs
  | .selectObject c fs => ILits c ∧ ILitsF fs
  | .selectObjectCurrent fs => ILitsF fs
  | .defineVariables vars child => ILitsF vars ∧ ILits child
def ILitsL : List INode → Prop
  | [] => True
  | n :: ns => ILits n ∧ ILitsL ns
def ILitsF : List (Bytes × INode) → Prop
  | [] => True
  | (_, n) :: rest => ILits n ∧ ILitsF rest
end

example : ILits (.pipe (.field [0x61]) (.lit (.obj [([0x61], .null), ([0x62], .null)]))) := by
  simp only [ILits, true_and]; exact sorted_obj2 (by decide) (by simp) (by simp)

mutual
/-- desugaring into the reference syntax keeps the literals -/
theorem desugar_litsSD : (n : INode) → ILits n → TLits (desugar n)
  | .lit v, h => by simpa [desugar, ILits, TLits] using h
  | .current, _ | .root, _ | .field _, _ | .variable _, _ | .flattenCurrent, _ | .indexCurrent _, _
  | .smallIndexCurrent _, _ | .objectValuesCurrent, _ | .pruneArrayCurrent, _ | .sliceCurrent _ _, _
  | .sliceStepCurrent _ _ _, _ => by simp [desugar, TLits]
  | .binop _ l r, h | .and l r, h | .or l r, h | .flattenAndProject l r, h | .pipe l r, h | .projectObject l r, h
  | .groupBy l r, h | .map l r, h | .maxBy l r, h | .minBy l r, h | .sortBy l r, h => by
    simp only [ILits] at h
    simp only [desugar, TLits]
    exact ⟨desugar_litsSD l h.1, desugar_litsSD r h.2⟩
  | .projectArray l r, h => by
    simp only [ILits] at h
    simp only [desugar]
    split <;> (simp only [TLits]; exact ⟨desugar_litsSD l h.1, desugar_litsSD r h.2⟩)
  | .filter l r, h => by
    simp only [ILits] at h
    simp only [desugar, TLits]
    exact ⟨desugar_litsSD l h.1, desugar_litsSD r h.2, trivial⟩
  | .filterAndProjectCurrent l r, h => by
    simp only [ILits] at h
    simp only [desugar, TLits]
    exact ⟨trivial, desugar_litsSD l h.1, desugar_litsSD r h.2⟩
  | .filterAndProject l f r, h => by
    simp only [ILits] at h
    simp only [desugar, TLits]
    exact ⟨desugar_litsSD l h.1, desugar_litsSD f h.2.1, desugar_litsSD r h.2.2⟩
  | .filterCurrent c, h => by
    simp only [ILits] at h
    simp only [desugar, TLits]
    exact ⟨trivial, desugar_litsSD c h, trivial⟩
  | .selectArraySingle l r, h => by
    simp only [ILits] at h
    simp only [desugar, TLits, TLitsL]
    exact ⟨desugar_litsSD l h.1, desugar_litsSD r h.2, trivial⟩
  | .selectObjectSingle l _ r, h => by
    simp only [ILits] at h
    simp only [desugar, TLits, TLitsF]
    exact ⟨desugar_litsSD l h.1, desugar_litsSD r h.2, trivial⟩
  | .not c, h | .negate c, h | .assertNumber c, h | .pruneArray c, h => by
    simp only [ILits] at h
    simp only [desugar, TLits]
    exact desugar_litsSD c h
  | .flatten c, h | .objectValues c, h | .index c _, h | .slice c _ _, h | .sliceStep c _ _ _, h => by
    simp only [ILits] at h
    simp only [desugar, TLits]
    exact ⟨desugar_litsSD c h, trivial⟩
  | .flattenAndProjectCurrent c, h | .projectArrayCurrent c, h | .projectObjectCurrent c, h => by
    simp only [ILits] at h
    simp only [desugar, TLits]
    exact ⟨trivial, desugar_litsSD c h⟩
  | .selectArraySingleCurrent c, h => by
    simp only [ILits] at h
    simp only [desugar, TLits, TLitsL]
    exact ⟨desugar_litsSD c h, trivial⟩
  | .selectObjectSingleCurrent _ c, h => by
    simp only [ILits] at h
    simp only [desugar, TLits, TLitsF]
    exact ⟨desugar_litsSD c h, trivial⟩
  | .call _ args, h | .selectArrayCurrent args, h | .merge args, h | .notNull args, h | .zip args, h => by
    simp only [ILits] at h
    simp only [desugar, TLits]
    exact desugarList_litsSD args h
  | .selectArray c fs, h => by
    simp only [ILits] at h
    simp only [desugar, TLits]
    exact ⟨desugar_litsSD c h.1, desugarList_litsSD fs h.2⟩
  | .selectObject c fs, h => by
    simp only [ILits] at h
    simp only [desugar, TLits]
    exact ⟨desugar_litsSD c h.1, desugarFields_litsSD fs h.2⟩
  | .selectObjectCurrent fs, h => by
    simp only [ILits] at h
    simp only [desugar, TLits]
    exact desugarFields_litsSD fs h
  | .defineVariables vars child, h => by
    simp only [ILits] at h
    simp only [desugar, TLits]
    exact ⟨desugarFields_litsSD vars h.1, desugar_litsSD child h.2⟩
/-- `desugar_litsSD` for a list of nodes -/
theorem desugarList_litsSD : (ns : List INode) → ILitsL ns → TLitsL (desugarList ns)
  | [], _ => by simp [desugarList, TLitsL]
  | n :: ns, h => by
    simp only [ILitsL] at h
    simp only [desugarList, TLitsL]
    exact ⟨desugar_litsSD n h.1, desugarList_litsSD ns h.2⟩
/-- `desugar_litsSD` for a list of named nodes -/
theorem desugarFields_litsSD : (fs : List (Bytes × INode)) → ILitsF fs → TLitsF (desugarFields fs)
  | [], _ => by simp [desugarFields, TLitsF]
  | (k, n) :: rest, h => by
    simp only [ILitsF] at h
    simp only [desugarFields, TLitsF]
    exact ⟨desugar_litsSD n h.1, desugarFields_litsSD rest h.2⟩
end

example : TLits (desugar (.pipe (.field [0x61]) (.lit (.obj [([0x61], .null)])))) :=
  desugar_litsSD _ (by simp [ILits, sorted_obj, KeySorted])

/-- **the evaluator preserves the representation invariant of Go maps**: on a `Sorted` document, current value and environment, an
    expression whose literals are `Sorted` evaluates to a `Sorted` value -/
theorem ieval_sorted {root : Val} (hr : Sorted root) {n : INode} (hl : ILits n) {cur : Val} (hc : Sorted cur)
    {env : Env} (he : EnvSD env) {w : Val} (hw : ieval root n cur env = .ok w) : Sorted w := by
  rw [ieval_desugar] at hw
  exact seval_sd root hr (desugar n) cur env (desugar_litsSD n hl) hc he w hw

/-- the multi-select hash `{b: @, a: @}`: the members are stored in key order whatever the order they were written in -/
example : ieval .null (.selectObjectCurrent [([0x62], .current), ([0x61], .current)]) (.bool true) [] =
    .ok (.obj [([0x61], .bool true), ([0x62], .bool true)]) := rfl
example : ∀ w, ieval .null (.selectObjectCurrent [([0x62], .current), ([0x61], .current)]) (.bool true) [] = .ok w →
    Sorted w := fun _ h => ieval_sorted (by simp) (by simp [ILits, ILitsF]) (by simp) (fun _ _ hm => by simp at hm) h

/-- `Expression.Search` on a compiled node: a `Sorted` document gives a `Sorted` result -/
theorem evaluate_sorted {n : INode} (hl : ILits n) {data : Val} (hd : Sorted data) {w : Val}
    (hw : evaluate n data = .ok w) : Sorted w :=
  ieval_sorted hd hl hd (fun _ _ hm => by simp at hm) hw

/-- `merge(@, @)` on `{"b": 1, "a": 2}` stored in key order -/
example : ∀ w, evaluate (.merge [.current, .current]) (.obj [([0x61], .bool true), ([0x62], .null)]) = .ok w →
    Sorted w := fun _ h => evaluate_sorted (by simp [ILits, ILitsL]) (sorted_obj2 (by decide) (by simp) (by simp)) h

/-! ## what `encoding/json` decodes is `Sorted` -/

mutual
/-- the shape the decoder produces (`C20B.DecodedS`: it already records `KeySorted` at every object, because the
    decoder builds objects with `objInsert`) is `Sorted` -/
theorem decodedS_sorted : ∀ v : Val, C20B.DecodedS v → Sorted v
  | .null, _ => by simp
  | .bool _, _ => by simp
  | .str _, _ => by simp
  | .num _, _ => by simp
  | .foreign _, _ => by simp
  | .arr t xs, h => by
    simp only [C20B.DecodedS] at h
    simp only [Sorted]
    exact decodedSL_sortedL xs h.2
  | .obj kvs, h => by
    simp only [C20B.DecodedS] at h
    simp only [Sorted]
    exact ⟨h.1, decodedSF_sortedF kvs h.2⟩
/-- `decodedS_sorted` for the elements of an array -/
theorem decodedSL_sortedL : ∀ xs : List Val, C20B.DecodedSL xs → SortedL xs
  | [], _ => by simp [SortedL]
  | x :: xs, h => by
    simp only [C20B.DecodedSL] at h
    simp only [SortedL]
    exact ⟨decodedS_sorted x h.1, decodedSL_sortedL xs h.2⟩
/-- `decodedS_sorted` for the member values of an object -/
theorem decodedSF_sortedF : ∀ kvs : List (Bytes × Val), C20B.DecodedSF kvs → SortedF kvs
  | [], _ => by simp [SortedF]
  | (_, x) :: kvs, h => by
    simp only [C20B.DecodedSF] at h
    simp only [SortedF]
    exact ⟨decodedS_sorted x h.1, decodedSF_sortedF kvs h.2⟩
end

example : Sorted (.obj [([0x61], .arr .plain [.str [0x31]])]) :=
  decodedS_sorted _ (by simp [C20B.DecodedS, C20B.DecodedSL, C20B.DecodedSF, KeySorted])

/-- **(1) a decoded JSON document is `Sorted`**: every object inside it has strictly increasing keys (duplicate keys
    of the text are resolved last-wins by `objInsert`, members are stored in key order) -/
theorem decode_sorted {s : Bytes} {v : Val} (h : Json.decode s = some v) : Sorted v :=
  decodedS_sorted v (C20B.decode_decodedS h)

/-- the text `{"b":1,"a":2,"b":3}`: decoded to `{"a": 2, "b": 3}` in key order -/
example : Json.decode [0x7B, 0x22, 0x62, 0x22, 0x3A, 0x31, 0x2C, 0x22, 0x61, 0x22, 0x3A, 0x32, 0x2C, 0x22, 0x62, 0x22,
    0x3A, 0x33, 0x7D] = some (.obj [([0x61], .num (.jnum [0x32])), ([0x62], .num (.jnum [0x33]))]) := rfl
example : ∀ v, Json.decode [0x7B, 0x22, 0x62, 0x22, 0x3A, 0x31, 0x2C, 0x22, 0x61, 0x22, 0x3A, 0x32, 0x2C, 0x22, 0x62,
    0x22, 0x3A, 0x33, 0x7D] = some v → Sorted v := fun _ h => decode_sorted h

/-- **(1) the JSON literal between backticks in an expression is `Sorted`** -/
theorem parseJSONLiteral_sorted {s : Bytes} {v : Val} (h : parseJSONLiteral s = some v) : Sorted v := by
  unfold parseJSONLiteral at h
  simp only at h
  split at h
  · simp at h
  · exact decode_sorted h

example : ∀ v, parseJSONLiteral [0x7B, 0x7D] = some v → Sorted v := fun _ h => parseJSONLiteral_sorted h

end Jmes.C18CS
