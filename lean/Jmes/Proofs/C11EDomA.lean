/-
  C11 (fourth wave), part 1a: generic facts about composing two renamings.

  `renB a (renB b s) = renB c s` on the strings of a class `rnB φ` lifts to values (`renV`), to expression nodes
  (`renN`), and "renamable by `φ` ⇒ the `b`-renamed thing is renamable by `ψ`" lifts the same way (`RnV`, `RenOK`).
  `strHead φ` is the strings-only part of `renHead φ` (literals, field names, multi-select keys).
-/
import Jmes.Proofs.C11CEvalLemmas
set_option linter.unusedSectionVars false
set_option linter.unusedSimpArgs false
namespace Jmes.C11E.Dom
open Jmes Jmes.Utf8 Jmes.C11 Jmes.C11S Jmes.C11R Jmes.C11V Jmes.Invar Jmes.C11C

/-! ## strings -/

theorem decodeAll_ne_nil {s : Bytes} (h : s ≠ []) : decodeAll s ≠ [] := by
  cases s with
  | nil => exact absurd rfl h
  | cons b bs =>
    unfold decodeAll
    rw [List.length_cons, decodeAllAux_succ _ _ (by simp)]
    simp

/-- renaming never creates or destroys emptiness, whatever the string and the renaming -/
theorem renB_isEmpty_any (b : Nat → Nat) (s : Bytes) : (renB b s).isEmpty = s.isEmpty := by
  cases s with
  | nil => rfl
  | cons x xs =>
    have h1 : decodeAll (x :: xs) ≠ [] := decodeAll_ne_nil (by simp)
    unfold renB
    cases hd : decodeAll (x :: xs) with
    | nil => exact absurd hd h1
    | cons c cs =>
      rw [List.map_cons, Utf8.isEmpty_encodeAll _ (by simp)]
      rfl

/-! ## the strings-only head predicate -/

/-- the strings an expression node carries itself (literal values, field names, multi-select keys) can be renamed by `φ` -/
def strHead (φ : Nat → Nat) : INode → Bool
  | .lit v => RnV φ v
  | .field k => rnB φ k
  | .selectObject _ fs => fs.all (fun kn => rnB φ kn.1)
  | .selectObjectCurrent fs => fs.all (fun kn => rnB φ kn.1)
  | .selectObjectSingle _ k _ => rnB φ k
  | .selectObjectSingleCurrent k _ => rnB φ k
  | _ => true

theorem strHead_of_renHead {φ : Nat → Nat} (n : INode) (h : renHead φ n = true) : strHead φ n = true := by
  cases n <;> first | exact h | rfl

/-- `INode.all` is monotone in the predicate -/
theorem all_mono {p q : INode → Bool} (h : ∀ m, p m = true → q m = true) (n : INode) (hn : n.all p = true) :
    n.all q = true := by
  have e : p = fun m => p m && q m := by
    funext m
    cases hp : p m
    · rfl
    · rw [h m hp]; rfl
  rw [e, INode.all_and, Bool.and_eq_true] at hn
  exact hn.2

theorem strs_of_renOK {φ : Nat → Nat} {n : INode} (h : RenOK φ n = true) : n.all (strHead φ) = true :=
  all_mono strHead_of_renHead n h

/-! ## composition on values -/

section Comp
variable {a b c φ : Nat → Nat} (H : ∀ s, rnB φ s = true → renB a (renB b s) = renB c s)
include H

mutual
theorem renV_comp : ∀ v : Val, RnV φ v = true → renV a (renV b v) = renV c v
  | .str s, h => by simp only [renV]; rw [H s (rn_str.mp h)]
  | .arr t xs, h => by simp only [renV]; rw [renVL_comp xs (rn_arr.mp h)]
  | .obj kvs, h => by simp only [renV]; rw [renVF_comp kvs (rn_obj.mp h)]
  | .null, _ => by simp only [renV]
  | .bool _, _ => by simp only [renV]
  | .num _, _ => by simp only [renV]
  | .foreign _, _ => by simp only [renV]
theorem renVL_comp : ∀ xs : List Val, RnVL φ xs = true → renVL a (renVL b xs) = renVL c xs
  | [], _ => by simp only [renVL]
  | x :: xs, h => by
    simp only [renVL]; rw [renV_comp x (rnVL_cons.mp h).1, renVL_comp xs (rnVL_cons.mp h).2]
theorem renVF_comp : ∀ kvs : List (Bytes × Val), RnVF φ kvs = true → renVF a (renVF b kvs) = renVF c kvs
  | [], _ => by simp only [renVF]
  | (k, x) :: kvs, h => by
    have h' := rnVF_cons.mp h
    simp only [renVF]; rw [H k h'.1, renV_comp x h'.2.1, renVF_comp kvs h'.2.2]
end

mutual
theorem renN_comp : ∀ n : INode, n.all (strHead φ) = true → renN a (renN b n) = renN c n
  | .lit a0, h => by
    simp only [INode.all, Bool.and_eq_true] at h
    have h0 := h
    simp only [renN]; rw [renV_comp H a0 h0]
  | .current, _ => by simp only [renN]
  | .root, _ => by simp only [renN]
  | .field a0, h => by
    simp only [INode.all, Bool.and_eq_true] at h
    have h0 := h
    simp only [renN]; rw [H a0 h0]
  | .variable a0, _ => by simp only [renN]
  | .binop a0 a1 a2, h => by
    simp only [INode.all, Bool.and_eq_true] at h
    obtain ⟨⟨h0, h1⟩, h2⟩ := h
    simp only [renN]; rw [renN_comp a1 h1, renN_comp a2 h2]
  | .and a0 a1, h => by
    simp only [INode.all, Bool.and_eq_true] at h
    obtain ⟨⟨h0, h1⟩, h2⟩ := h
    simp only [renN]; rw [renN_comp a0 h1, renN_comp a1 h2]
  | .or a0 a1, h => by
    simp only [INode.all, Bool.and_eq_true] at h
    obtain ⟨⟨h0, h1⟩, h2⟩ := h
    simp only [renN]; rw [renN_comp a0 h1, renN_comp a1 h2]
  | .not a0, h => by
    simp only [INode.all, Bool.and_eq_true] at h
    obtain ⟨h0, h1⟩ := h
    simp only [renN]; rw [renN_comp a0 h1]
  | .negate a0, h => by
    simp only [INode.all, Bool.and_eq_true] at h
    obtain ⟨h0, h1⟩ := h
    simp only [renN]; rw [renN_comp a0 h1]
  | .assertNumber a0, h => by
    simp only [INode.all, Bool.and_eq_true] at h
    obtain ⟨h0, h1⟩ := h
    simp only [renN]; rw [renN_comp a0 h1]
  | .call a0 a1, h => by
    simp only [INode.all, Bool.and_eq_true] at h
    obtain ⟨h0, h1⟩ := h
    simp only [renN]; rw [renNL_comp a1 h1]
  | .defineVariables a0 a1, h => by
    simp only [INode.all, Bool.and_eq_true] at h
    obtain ⟨⟨h0, h1⟩, h2⟩ := h
    simp only [renN]; rw [renNF_comp false a0 (fun e => by cases e) h1, renN_comp a1 h2]
  | .filter a0 a1, h => by
    simp only [INode.all, Bool.and_eq_true] at h
    obtain ⟨⟨h0, h1⟩, h2⟩ := h
    simp only [renN]; rw [renN_comp a0 h1, renN_comp a1 h2]
  | .filterCurrent a0, h => by
    simp only [INode.all, Bool.and_eq_true] at h
    obtain ⟨h0, h1⟩ := h
    simp only [renN]; rw [renN_comp a0 h1]
  | .filterAndProject a0 a1 a2, h => by
    simp only [INode.all, Bool.and_eq_true] at h
    obtain ⟨⟨⟨h0, h1⟩, h2⟩, h3⟩ := h
    simp only [renN]; rw [renN_comp a0 h1, renN_comp a1 h2, renN_comp a2 h3]
  | .filterAndProjectCurrent a0 a1, h => by
    simp only [INode.all, Bool.and_eq_true] at h
    obtain ⟨⟨h0, h1⟩, h2⟩ := h
    simp only [renN]; rw [renN_comp a0 h1, renN_comp a1 h2]
  | .flatten a0, h => by
    simp only [INode.all, Bool.and_eq_true] at h
    obtain ⟨h0, h1⟩ := h
    simp only [renN]; rw [renN_comp a0 h1]
  | .flattenCurrent, _ => by simp only [renN]
  | .flattenAndProject a0 a1, h => by
    simp only [INode.all, Bool.and_eq_true] at h
    obtain ⟨⟨h0, h1⟩, h2⟩ := h
    simp only [renN]; rw [renN_comp a0 h1, renN_comp a1 h2]
  | .flattenAndProjectCurrent a0, h => by
    simp only [INode.all, Bool.and_eq_true] at h
    obtain ⟨h0, h1⟩ := h
    simp only [renN]; rw [renN_comp a0 h1]
  | .index a0 a1, h => by
    simp only [INode.all, Bool.and_eq_true] at h
    obtain ⟨h0, h1⟩ := h
    simp only [renN]; rw [renN_comp a0 h1]
  | .indexCurrent a0, _ => by simp only [renN]
  | .smallIndexCurrent a0, _ => by simp only [renN]
  | .objectValues a0, h => by
    simp only [INode.all, Bool.and_eq_true] at h
    obtain ⟨h0, h1⟩ := h
    simp only [renN]; rw [renN_comp a0 h1]
  | .objectValuesCurrent, _ => by simp only [renN]
  | .pipe a0 a1, h => by
    simp only [INode.all, Bool.and_eq_true] at h
    obtain ⟨⟨h0, h1⟩, h2⟩ := h
    simp only [renN]; rw [renN_comp a0 h1, renN_comp a1 h2]
  | .projectArray a0 a1, h => by
    simp only [INode.all, Bool.and_eq_true] at h
    obtain ⟨⟨h0, h1⟩, h2⟩ := h
    simp only [renN]; rw [renN_comp a0 h1, renN_comp a1 h2]
  | .projectArrayCurrent a0, h => by
    simp only [INode.all, Bool.and_eq_true] at h
    obtain ⟨h0, h1⟩ := h
    simp only [renN]; rw [renN_comp a0 h1]
  | .projectObject a0 a1, h => by
    simp only [INode.all, Bool.and_eq_true] at h
    obtain ⟨⟨h0, h1⟩, h2⟩ := h
    simp only [renN]; rw [renN_comp a0 h1, renN_comp a1 h2]
  | .projectObjectCurrent a0, h => by
    simp only [INode.all, Bool.and_eq_true] at h
    obtain ⟨h0, h1⟩ := h
    simp only [renN]; rw [renN_comp a0 h1]
  | .pruneArray a0, h => by
    simp only [INode.all, Bool.and_eq_true] at h
    obtain ⟨h0, h1⟩ := h
    simp only [renN]; rw [renN_comp a0 h1]
  | .pruneArrayCurrent, _ => by simp only [renN]
  | .selectArray a0 a1, h => by
    simp only [INode.all, Bool.and_eq_true] at h
    obtain ⟨⟨h0, h1⟩, h2⟩ := h
    simp only [renN]; rw [renN_comp a0 h1, renNL_comp a1 h2]
  | .selectArrayCurrent a0, h => by
    simp only [INode.all, Bool.and_eq_true] at h
    obtain ⟨h0, h1⟩ := h
    simp only [renN]; rw [renNL_comp a0 h1]
  | .selectArraySingle a0 a1, h => by
    simp only [INode.all, Bool.and_eq_true] at h
    obtain ⟨⟨h0, h1⟩, h2⟩ := h
    simp only [renN]; rw [renN_comp a0 h1, renN_comp a1 h2]
  | .selectArraySingleCurrent a0, h => by
    simp only [INode.all, Bool.and_eq_true] at h
    obtain ⟨h0, h1⟩ := h
    simp only [renN]; rw [renN_comp a0 h1]
  | .selectObject a0 a1, h => by
    simp only [INode.all, Bool.and_eq_true] at h
    obtain ⟨⟨h0, h1⟩, h2⟩ := h
    simp only [renN]; rw [renN_comp a0 h1, renNF_comp true a1 (fun _ => List.all_eq_true.mp h0) h2]
  | .selectObjectCurrent a0, h => by
    simp only [INode.all, Bool.and_eq_true] at h
    obtain ⟨h0, h1⟩ := h
    simp only [renN]; rw [renNF_comp true a0 (fun _ => List.all_eq_true.mp h0) h1]
  | .selectObjectSingle a0 a1 a2, h => by
    simp only [INode.all, Bool.and_eq_true] at h
    obtain ⟨⟨h0, h1⟩, h2⟩ := h
    simp only [renN]; rw [renN_comp a0 h1, renN_comp a2 h2, H a1 h0]
  | .selectObjectSingleCurrent a0 a1, h => by
    simp only [INode.all, Bool.and_eq_true] at h
    obtain ⟨h0, h1⟩ := h
    simp only [renN]; rw [renN_comp a1 h1, H a0 h0]
  | .slice a0 a1 a2, h => by
    simp only [INode.all, Bool.and_eq_true] at h
    obtain ⟨h0, h1⟩ := h
    simp only [renN]; rw [renN_comp a0 h1]
  | .sliceCurrent a0 a1, _ => by simp only [renN]
  | .sliceStep a0 a1 a2 a3, h => by
    simp only [INode.all, Bool.and_eq_true] at h
    obtain ⟨h0, h1⟩ := h
    simp only [renN]; rw [renN_comp a0 h1]
  | .sliceStepCurrent a0 a1 a2, _ => by simp only [renN]
  | .groupBy a0 a1, h => by
    simp only [INode.all, Bool.and_eq_true] at h
    obtain ⟨⟨h0, h1⟩, h2⟩ := h
    simp only [renN]; rw [renN_comp a0 h1, renN_comp a1 h2]
  | .map a0 a1, h => by
    simp only [INode.all, Bool.and_eq_true] at h
    obtain ⟨⟨h0, h1⟩, h2⟩ := h
    simp only [renN]; rw [renN_comp a0 h1, renN_comp a1 h2]
  | .maxBy a0 a1, h => by
    simp only [INode.all, Bool.and_eq_true] at h
    obtain ⟨⟨h0, h1⟩, h2⟩ := h
    simp only [renN]; rw [renN_comp a0 h1, renN_comp a1 h2]
  | .minBy a0 a1, h => by
    simp only [INode.all, Bool.and_eq_true] at h
    obtain ⟨⟨h0, h1⟩, h2⟩ := h
    simp only [renN]; rw [renN_comp a0 h1, renN_comp a1 h2]
  | .sortBy a0 a1, h => by
    simp only [INode.all, Bool.and_eq_true] at h
    obtain ⟨⟨h0, h1⟩, h2⟩ := h
    simp only [renN]; rw [renN_comp a0 h1, renN_comp a1 h2]
  | .merge a0, h => by
    simp only [INode.all, Bool.and_eq_true] at h
    obtain ⟨h0, h1⟩ := h
    simp only [renN]; rw [renNL_comp a0 h1]
  | .notNull a0, h => by
    simp only [INode.all, Bool.and_eq_true] at h
    obtain ⟨h0, h1⟩ := h
    simp only [renN]; rw [renNL_comp a0 h1]
  | .zip a0, h => by
    simp only [INode.all, Bool.and_eq_true] at h
    obtain ⟨h0, h1⟩ := h
    simp only [renN]; rw [renNL_comp a0 h1]
theorem renNL_comp : ∀ ns : List INode, INode.allL (strHead φ) ns = true → renNL a (renNL b ns) = renNL c ns
  | [], _ => by simp only [renNL]
  | n :: ns, h => by
    simp only [INode.allL, Bool.and_eq_true] at h
    simp only [renNL]; rw [renN_comp n h.1, renNL_comp ns h.2]
theorem renNF_comp (keys : Bool) : ∀ fs : List (Bytes × INode), (keys = true → ∀ kn ∈ fs, rnB φ kn.1 = true) →
    INode.allF (strHead φ) fs = true → renNF a keys (renNF b keys fs) = renNF c keys fs
  | [], _, _ => by simp only [renNF]
  | (k, n) :: fs, hk, h => by
    simp only [INode.allF, Bool.and_eq_true] at h
    simp only [renNF]
    rw [renN_comp n h.1, renNF_comp keys fs (fun e kn hkn => hk e kn (List.mem_cons_of_mem _ hkn)) h.2]
    cases keys with
    | false => rfl
    | true => simp only [if_true]; rw [H k (hk rfl (k, n) List.mem_cons_self)]
end
end Comp

/-! ## "can be renamed" transfers along a renaming -/

section Transfer
variable {b φ ψ : Nat → Nat} (H : ∀ s, rnB φ s = true → rnB ψ (renB b s) = true)
include H

mutual
theorem rnV_ren : ∀ v : Val, RnV φ v = true → RnV ψ (renV b v) = true
  | .str s, h => by simp only [renV]; exact rn_str.mpr (H s (rn_str.mp h))
  | .arr t xs, h => by simp only [renV]; exact rn_arr.mpr (rnVL_ren xs (rn_arr.mp h))
  | .obj kvs, h => by simp only [renV]; exact rn_obj.mpr (rnVF_ren kvs (rn_obj.mp h))
  | .null, _ => by simp only [renV]; rfl
  | .bool _, _ => by simp only [renV]; rfl
  | .num _, _ => by simp only [renV]; rfl
  | .foreign _, _ => by simp only [renV]; rfl
theorem rnVL_ren : ∀ xs : List Val, RnVL φ xs = true → RnVL ψ (renVL b xs) = true
  | [], _ => by simp only [renVL]; rfl
  | x :: xs, h => by
    simp only [renVL]; exact rnVL_cons.mpr ⟨rnV_ren x (rnVL_cons.mp h).1, rnVL_ren xs (rnVL_cons.mp h).2⟩
theorem rnVF_ren : ∀ kvs : List (Bytes × Val), RnVF φ kvs = true → RnVF ψ (renVF b kvs) = true
  | [], _ => by simp only [renVF]; rfl
  | (k, x) :: kvs, h => by
    have h' := rnVF_cons.mp h
    simp only [renVF]; exact rnVF_cons.mpr ⟨H k h'.1, rnV_ren x h'.2.1, rnVF_ren kvs h'.2.2⟩
end

theorem keys_ren : ∀ fs : List (Bytes × INode), fs.all (fun kn => rnB φ kn.1) = true →
    (renNF b true fs).all (fun kn => rnB ψ kn.1) = true
  | [], _ => by simp only [renNF]; rfl
  | (k, n) :: fs, h => by
    simp only [List.all_cons, Bool.and_eq_true] at h
    simp only [renNF, if_true, List.all_cons, Bool.and_eq_true]
    exact ⟨H k h.1, keys_ren fs h.2⟩

omit H in
theorem litCut_ren (args : List INode) (h : litCut args = true) : litCut (renNL b args) = true := by
  rcases args with _ | ⟨x, _ | ⟨y, rest⟩⟩
  · cases h
  · cases h
  · cases y with
    | lit v =>
      cases v with
      | str p =>
        cases rest with
        | nil =>
          simp only [renNL, renN, renV, litCut] at h ⊢
          rw [renB_isEmpty_any]; exact h
        | cons z r => cases h
      | _ => cases rest <;> cases h
    | _ => cases rest <;> cases h

/-- the condition on one node transfers -/
theorem head_ren (n : INode) (h : renHead φ n = true) : renHead ψ (renN b n) = true := by
  cases n with
  | lit v => simp only [renN]; exact rnV_ren H v h
  | field k => simp only [renN]; exact H k h
  | selectObject c fs => simp only [renN]; exact keys_ren H fs h
  | selectObjectCurrent fs => simp only [renN]; exact keys_ren H fs h
  | selectObjectSingle c k p => simp only [renN]; exact H k h
  | selectObjectSingleCurrent k p => simp only [renN]; exact H k h
  | sliceStep c x y s => simp only [renN]; exact h
  | sliceStepCurrent x y s => simp only [renN]; exact h
  | call fn args =>
    simp only [renN]
    cases fn <;> first | exact h | exact litCut_ren args h
  | _ => simp only [renN]; rfl

mutual
theorem renOK_ren : ∀ n : INode, n.all (renHead φ) = true → (renN b n).all (renHead ψ) = true
  | .lit a0, h => by
    simp only [INode.all, Bool.and_eq_true] at h
    have h0 := h
    have hh := head_ren H (.lit a0) h0
    simp only [renN] at hh ⊢
    simp only [INode.all]
    exact hh
  | .current, h => by
    simp only [INode.all, Bool.and_eq_true] at h
    have h0 := h
    have hh := head_ren H (.current) h0
    simp only [renN] at hh ⊢
    simp only [INode.all]
    exact hh
  | .root, h => by
    simp only [INode.all, Bool.and_eq_true] at h
    have h0 := h
    have hh := head_ren H (.root) h0
    simp only [renN] at hh ⊢
    simp only [INode.all]
    exact hh
  | .field a0, h => by
    simp only [INode.all, Bool.and_eq_true] at h
    have h0 := h
    have hh := head_ren H (.field a0) h0
    simp only [renN] at hh ⊢
    simp only [INode.all]
    exact hh
  | .variable a0, h => by
    simp only [INode.all, Bool.and_eq_true] at h
    have h0 := h
    have hh := head_ren H (.variable a0) h0
    simp only [renN] at hh ⊢
    simp only [INode.all]
    exact hh
  | .binop a0 a1 a2, h => by
    simp only [INode.all, Bool.and_eq_true] at h
    obtain ⟨⟨h0, h1⟩, h2⟩ := h
    have hh := head_ren H (.binop a0 a1 a2) h0
    simp only [renN] at hh ⊢
    simp only [INode.all, Bool.and_eq_true]
    exact ⟨⟨hh, renOK_ren a1 h1⟩, renOK_ren a2 h2⟩
  | .and a0 a1, h => by
    simp only [INode.all, Bool.and_eq_true] at h
    obtain ⟨⟨h0, h1⟩, h2⟩ := h
    have hh := head_ren H (.and a0 a1) h0
    simp only [renN] at hh ⊢
    simp only [INode.all, Bool.and_eq_true]
    exact ⟨⟨hh, renOK_ren a0 h1⟩, renOK_ren a1 h2⟩
  | .or a0 a1, h => by
    simp only [INode.all, Bool.and_eq_true] at h
    obtain ⟨⟨h0, h1⟩, h2⟩ := h
    have hh := head_ren H (.or a0 a1) h0
    simp only [renN] at hh ⊢
    simp only [INode.all, Bool.and_eq_true]
    exact ⟨⟨hh, renOK_ren a0 h1⟩, renOK_ren a1 h2⟩
  | .not a0, h => by
    simp only [INode.all, Bool.and_eq_true] at h
    obtain ⟨h0, h1⟩ := h
    have hh := head_ren H (.not a0) h0
    simp only [renN] at hh ⊢
    simp only [INode.all, Bool.and_eq_true]
    exact ⟨hh, renOK_ren a0 h1⟩
  | .negate a0, h => by
    simp only [INode.all, Bool.and_eq_true] at h
    obtain ⟨h0, h1⟩ := h
    have hh := head_ren H (.negate a0) h0
    simp only [renN] at hh ⊢
    simp only [INode.all, Bool.and_eq_true]
    exact ⟨hh, renOK_ren a0 h1⟩
  | .assertNumber a0, h => by
    simp only [INode.all, Bool.and_eq_true] at h
    obtain ⟨h0, h1⟩ := h
    have hh := head_ren H (.assertNumber a0) h0
    simp only [renN] at hh ⊢
    simp only [INode.all, Bool.and_eq_true]
    exact ⟨hh, renOK_ren a0 h1⟩
  | .call a0 a1, h => by
    simp only [INode.all, Bool.and_eq_true] at h
    obtain ⟨h0, h1⟩ := h
    have hh := head_ren H (.call a0 a1) h0
    simp only [renN] at hh ⊢
    simp only [INode.all, Bool.and_eq_true]
    exact ⟨hh, renOKL_ren a1 h1⟩
  | .defineVariables a0 a1, h => by
    simp only [INode.all, Bool.and_eq_true] at h
    obtain ⟨⟨h0, h1⟩, h2⟩ := h
    have hh := head_ren H (.defineVariables a0 a1) h0
    simp only [renN] at hh ⊢
    simp only [INode.all, Bool.and_eq_true]
    exact ⟨⟨hh, renOKF_ren false a0 h1⟩, renOK_ren a1 h2⟩
  | .filter a0 a1, h => by
    simp only [INode.all, Bool.and_eq_true] at h
    obtain ⟨⟨h0, h1⟩, h2⟩ := h
    have hh := head_ren H (.filter a0 a1) h0
    simp only [renN] at hh ⊢
    simp only [INode.all, Bool.and_eq_true]
    exact ⟨⟨hh, renOK_ren a0 h1⟩, renOK_ren a1 h2⟩
  | .filterCurrent a0, h => by
    simp only [INode.all, Bool.and_eq_true] at h
    obtain ⟨h0, h1⟩ := h
    have hh := head_ren H (.filterCurrent a0) h0
    simp only [renN] at hh ⊢
    simp only [INode.all, Bool.and_eq_true]
    exact ⟨hh, renOK_ren a0 h1⟩
  | .filterAndProject a0 a1 a2, h => by
    simp only [INode.all, Bool.and_eq_true] at h
    obtain ⟨⟨⟨h0, h1⟩, h2⟩, h3⟩ := h
    have hh := head_ren H (.filterAndProject a0 a1 a2) h0
    simp only [renN] at hh ⊢
    simp only [INode.all, Bool.and_eq_true]
    exact ⟨⟨⟨hh, renOK_ren a0 h1⟩, renOK_ren a1 h2⟩, renOK_ren a2 h3⟩
  | .filterAndProjectCurrent a0 a1, h => by
    simp only [INode.all, Bool.and_eq_true] at h
    obtain ⟨⟨h0, h1⟩, h2⟩ := h
    have hh := head_ren H (.filterAndProjectCurrent a0 a1) h0
    simp only [renN] at hh ⊢
    simp only [INode.all, Bool.and_eq_true]
    exact ⟨⟨hh, renOK_ren a0 h1⟩, renOK_ren a1 h2⟩
  | .flatten a0, h => by
    simp only [INode.all, Bool.and_eq_true] at h
    obtain ⟨h0, h1⟩ := h
    have hh := head_ren H (.flatten a0) h0
    simp only [renN] at hh ⊢
    simp only [INode.all, Bool.and_eq_true]
    exact ⟨hh, renOK_ren a0 h1⟩
  | .flattenCurrent, h => by
    simp only [INode.all, Bool.and_eq_true] at h
    have h0 := h
    have hh := head_ren H (.flattenCurrent) h0
    simp only [renN] at hh ⊢
    simp only [INode.all]
    exact hh
  | .flattenAndProject a0 a1, h => by
    simp only [INode.all, Bool.and_eq_true] at h
    obtain ⟨⟨h0, h1⟩, h2⟩ := h
    have hh := head_ren H (.flattenAndProject a0 a1) h0
    simp only [renN] at hh ⊢
    simp only [INode.all, Bool.and_eq_true]
    exact ⟨⟨hh, renOK_ren a0 h1⟩, renOK_ren a1 h2⟩
  | .flattenAndProjectCurrent a0, h => by
    simp only [INode.all, Bool.and_eq_true] at h
    obtain ⟨h0, h1⟩ := h
    have hh := head_ren H (.flattenAndProjectCurrent a0) h0
    simp only [renN] at hh ⊢
    simp only [INode.all, Bool.and_eq_true]
    exact ⟨hh, renOK_ren a0 h1⟩
  | .index a0 a1, h => by
    simp only [INode.all, Bool.and_eq_true] at h
    obtain ⟨h0, h1⟩ := h
    have hh := head_ren H (.index a0 a1) h0
    simp only [renN] at hh ⊢
    simp only [INode.all, Bool.and_eq_true]
    exact ⟨hh, renOK_ren a0 h1⟩
  | .indexCurrent a0, h => by
    simp only [INode.all, Bool.and_eq_true] at h
    have h0 := h
    have hh := head_ren H (.indexCurrent a0) h0
    simp only [renN] at hh ⊢
    simp only [INode.all]
    exact hh
  | .smallIndexCurrent a0, h => by
    simp only [INode.all, Bool.and_eq_true] at h
    have h0 := h
    have hh := head_ren H (.smallIndexCurrent a0) h0
    simp only [renN] at hh ⊢
    simp only [INode.all]
    exact hh
  | .objectValues a0, h => by
    simp only [INode.all, Bool.and_eq_true] at h
    obtain ⟨h0, h1⟩ := h
    have hh := head_ren H (.objectValues a0) h0
    simp only [renN] at hh ⊢
    simp only [INode.all, Bool.and_eq_true]
    exact ⟨hh, renOK_ren a0 h1⟩
  | .objectValuesCurrent, h => by
    simp only [INode.all, Bool.and_eq_true] at h
    have h0 := h
    have hh := head_ren H (.objectValuesCurrent) h0
    simp only [renN] at hh ⊢
    simp only [INode.all]
    exact hh
  | .pipe a0 a1, h => by
    simp only [INode.all, Bool.and_eq_true] at h
    obtain ⟨⟨h0, h1⟩, h2⟩ := h
    have hh := head_ren H (.pipe a0 a1) h0
    simp only [renN] at hh ⊢
    simp only [INode.all, Bool.and_eq_true]
    exact ⟨⟨hh, renOK_ren a0 h1⟩, renOK_ren a1 h2⟩
  | .projectArray a0 a1, h => by
    simp only [INode.all, Bool.and_eq_true] at h
    obtain ⟨⟨h0, h1⟩, h2⟩ := h
    have hh := head_ren H (.projectArray a0 a1) h0
    simp only [renN] at hh ⊢
    simp only [INode.all, Bool.and_eq_true]
    exact ⟨⟨hh, renOK_ren a0 h1⟩, renOK_ren a1 h2⟩
  | .projectArrayCurrent a0, h => by
    simp only [INode.all, Bool.and_eq_true] at h
    obtain ⟨h0, h1⟩ := h
    have hh := head_ren H (.projectArrayCurrent a0) h0
    simp only [renN] at hh ⊢
    simp only [INode.all, Bool.and_eq_true]
    exact ⟨hh, renOK_ren a0 h1⟩
  | .projectObject a0 a1, h => by
    simp only [INode.all, Bool.and_eq_true] at h
    obtain ⟨⟨h0, h1⟩, h2⟩ := h
    have hh := head_ren H (.projectObject a0 a1) h0
    simp only [renN] at hh ⊢
    simp only [INode.all, Bool.and_eq_true]
    exact ⟨⟨hh, renOK_ren a0 h1⟩, renOK_ren a1 h2⟩
  | .projectObjectCurrent a0, h => by
    simp only [INode.all, Bool.and_eq_true] at h
    obtain ⟨h0, h1⟩ := h
    have hh := head_ren H (.projectObjectCurrent a0) h0
    simp only [renN] at hh ⊢
    simp only [INode.all, Bool.and_eq_true]
    exact ⟨hh, renOK_ren a0 h1⟩
  | .pruneArray a0, h => by
    simp only [INode.all, Bool.and_eq_true] at h
    obtain ⟨h0, h1⟩ := h
    have hh := head_ren H (.pruneArray a0) h0
    simp only [renN] at hh ⊢
    simp only [INode.all, Bool.and_eq_true]
    exact ⟨hh, renOK_ren a0 h1⟩
  | .pruneArrayCurrent, h => by
    simp only [INode.all, Bool.and_eq_true] at h
    have h0 := h
    have hh := head_ren H (.pruneArrayCurrent) h0
    simp only [renN] at hh ⊢
    simp only [INode.all]
    exact hh
  | .selectArray a0 a1, h => by
    simp only [INode.all, Bool.and_eq_true] at h
    obtain ⟨⟨h0, h1⟩, h2⟩ := h
    have hh := head_ren H (.selectArray a0 a1) h0
    simp only [renN] at hh ⊢
    simp only [INode.all, Bool.and_eq_true]
    exact ⟨⟨hh, renOK_ren a0 h1⟩, renOKL_ren a1 h2⟩
  | .selectArrayCurrent a0, h => by
    simp only [INode.all, Bool.and_eq_true] at h
    obtain ⟨h0, h1⟩ := h
    have hh := head_ren H (.selectArrayCurrent a0) h0
    simp only [renN] at hh ⊢
    simp only [INode.all, Bool.and_eq_true]
    exact ⟨hh, renOKL_ren a0 h1⟩
  | .selectArraySingle a0 a1, h => by
    simp only [INode.all, Bool.and_eq_true] at h
    obtain ⟨⟨h0, h1⟩, h2⟩ := h
    have hh := head_ren H (.selectArraySingle a0 a1) h0
    simp only [renN] at hh ⊢
    simp only [INode.all, Bool.and_eq_true]
    exact ⟨⟨hh, renOK_ren a0 h1⟩, renOK_ren a1 h2⟩
  | .selectArraySingleCurrent a0, h => by
    simp only [INode.all, Bool.and_eq_true] at h
    obtain ⟨h0, h1⟩ := h
    have hh := head_ren H (.selectArraySingleCurrent a0) h0
    simp only [renN] at hh ⊢
    simp only [INode.all, Bool.and_eq_true]
    exact ⟨hh, renOK_ren a0 h1⟩
  | .selectObject a0 a1, h => by
    simp only [INode.all, Bool.and_eq_true] at h
    obtain ⟨⟨h0, h1⟩, h2⟩ := h
    have hh := head_ren H (.selectObject a0 a1) h0
    simp only [renN] at hh ⊢
    simp only [INode.all, Bool.and_eq_true]
    exact ⟨⟨hh, renOK_ren a0 h1⟩, renOKF_ren true a1 h2⟩
  | .selectObjectCurrent a0, h => by
    simp only [INode.all, Bool.and_eq_true] at h
    obtain ⟨h0, h1⟩ := h
    have hh := head_ren H (.selectObjectCurrent a0) h0
    simp only [renN] at hh ⊢
    simp only [INode.all, Bool.and_eq_true]
    exact ⟨hh, renOKF_ren true a0 h1⟩
  | .selectObjectSingle a0 a1 a2, h => by
    simp only [INode.all, Bool.and_eq_true] at h
    obtain ⟨⟨h0, h1⟩, h2⟩ := h
    have hh := head_ren H (.selectObjectSingle a0 a1 a2) h0
    simp only [renN] at hh ⊢
    simp only [INode.all, Bool.and_eq_true]
    exact ⟨⟨hh, renOK_ren a0 h1⟩, renOK_ren a2 h2⟩
  | .selectObjectSingleCurrent a0 a1, h => by
    simp only [INode.all, Bool.and_eq_true] at h
    obtain ⟨h0, h1⟩ := h
    have hh := head_ren H (.selectObjectSingleCurrent a0 a1) h0
    simp only [renN] at hh ⊢
    simp only [INode.all, Bool.and_eq_true]
    exact ⟨hh, renOK_ren a1 h1⟩
  | .slice a0 a1 a2, h => by
    simp only [INode.all, Bool.and_eq_true] at h
    obtain ⟨h0, h1⟩ := h
    have hh := head_ren H (.slice a0 a1 a2) h0
    simp only [renN] at hh ⊢
    simp only [INode.all, Bool.and_eq_true]
    exact ⟨hh, renOK_ren a0 h1⟩
  | .sliceCurrent a0 a1, h => by
    simp only [INode.all, Bool.and_eq_true] at h
    have h0 := h
    have hh := head_ren H (.sliceCurrent a0 a1) h0
    simp only [renN] at hh ⊢
    simp only [INode.all]
    exact hh
  | .sliceStep a0 a1 a2 a3, h => by
    simp only [INode.all, Bool.and_eq_true] at h
    obtain ⟨h0, h1⟩ := h
    have hh := head_ren H (.sliceStep a0 a1 a2 a3) h0
    simp only [renN] at hh ⊢
    simp only [INode.all, Bool.and_eq_true]
    exact ⟨hh, renOK_ren a0 h1⟩
  | .sliceStepCurrent a0 a1 a2, h => by
    simp only [INode.all, Bool.and_eq_true] at h
    have h0 := h
    have hh := head_ren H (.sliceStepCurrent a0 a1 a2) h0
    simp only [renN] at hh ⊢
    simp only [INode.all]
    exact hh
  | .groupBy a0 a1, h => by
    simp only [INode.all, Bool.and_eq_true] at h
    obtain ⟨⟨h0, h1⟩, h2⟩ := h
    have hh := head_ren H (.groupBy a0 a1) h0
    simp only [renN] at hh ⊢
    simp only [INode.all, Bool.and_eq_true]
    exact ⟨⟨hh, renOK_ren a0 h1⟩, renOK_ren a1 h2⟩
  | .map a0 a1, h => by
    simp only [INode.all, Bool.and_eq_true] at h
    obtain ⟨⟨h0, h1⟩, h2⟩ := h
    have hh := head_ren H (.map a0 a1) h0
    simp only [renN] at hh ⊢
    simp only [INode.all, Bool.and_eq_true]
    exact ⟨⟨hh, renOK_ren a0 h1⟩, renOK_ren a1 h2⟩
  | .maxBy a0 a1, h => by
    simp only [INode.all, Bool.and_eq_true] at h
    obtain ⟨⟨h0, h1⟩, h2⟩ := h
    have hh := head_ren H (.maxBy a0 a1) h0
    simp only [renN] at hh ⊢
    simp only [INode.all, Bool.and_eq_true]
    exact ⟨⟨hh, renOK_ren a0 h1⟩, renOK_ren a1 h2⟩
  | .minBy a0 a1, h => by
    simp only [INode.all, Bool.and_eq_true] at h
    obtain ⟨⟨h0, h1⟩, h2⟩ := h
    have hh := head_ren H (.minBy a0 a1) h0
    simp only [renN] at hh ⊢
    simp only [INode.all, Bool.and_eq_true]
    exact ⟨⟨hh, renOK_ren a0 h1⟩, renOK_ren a1 h2⟩
  | .sortBy a0 a1, h => by
    simp only [INode.all, Bool.and_eq_true] at h
    obtain ⟨⟨h0, h1⟩, h2⟩ := h
    have hh := head_ren H (.sortBy a0 a1) h0
    simp only [renN] at hh ⊢
    simp only [INode.all, Bool.and_eq_true]
    exact ⟨⟨hh, renOK_ren a0 h1⟩, renOK_ren a1 h2⟩
  | .merge a0, h => by
    simp only [INode.all, Bool.and_eq_true] at h
    obtain ⟨h0, h1⟩ := h
    have hh := head_ren H (.merge a0) h0
    simp only [renN] at hh ⊢
    simp only [INode.all, Bool.and_eq_true]
    exact ⟨hh, renOKL_ren a0 h1⟩
  | .notNull a0, h => by
    simp only [INode.all, Bool.and_eq_true] at h
    obtain ⟨h0, h1⟩ := h
    have hh := head_ren H (.notNull a0) h0
    simp only [renN] at hh ⊢
    simp only [INode.all, Bool.and_eq_true]
    exact ⟨hh, renOKL_ren a0 h1⟩
  | .zip a0, h => by
    simp only [INode.all, Bool.and_eq_true] at h
    obtain ⟨h0, h1⟩ := h
    have hh := head_ren H (.zip a0) h0
    simp only [renN] at hh ⊢
    simp only [INode.all, Bool.and_eq_true]
    exact ⟨hh, renOKL_ren a0 h1⟩

theorem renOKL_ren : ∀ ns : List INode, INode.allL (renHead φ) ns = true → INode.allL (renHead ψ) (renNL b ns) = true
  | [], _ => by simp only [renNL]; rfl
  | n :: ns, h => by
    simp only [INode.allL, Bool.and_eq_true] at h
    simp only [renNL, INode.allL, Bool.and_eq_true]
    exact ⟨renOK_ren n h.1, renOKL_ren ns h.2⟩
theorem renOKF_ren (keys : Bool) : ∀ fs : List (Bytes × INode), INode.allF (renHead φ) fs = true →
    INode.allF (renHead ψ) (renNF b keys fs) = true
  | [], _ => by simp only [renNF]; rfl
  | (k, n) :: fs, h => by
    simp only [INode.allF, Bool.and_eq_true] at h
    simp only [renNF, INode.allF, Bool.and_eq_true]
    exact ⟨renOK_ren n h.1, renOKF_ren keys fs h.2⟩
end
end Transfer

/-! ## a renaming that fixes the strings of a class fixes values and nodes -/

section Fix
variable {c φ : Nat → Nat} (H : ∀ s, rnB φ s = true → renB c s = s)
include H

mutual
theorem renV_fix : ∀ v : Val, RnV φ v = true → renV c v = v
  | .str s, h => by simp only [renV]; rw [H s (rn_str.mp h)]
  | .arr t xs, h => by simp only [renV]; rw [renVL_fix xs (rn_arr.mp h)]
  | .obj kvs, h => by simp only [renV]; rw [renVF_fix kvs (rn_obj.mp h)]
  | .null, _ => by simp only [renV]
  | .bool _, _ => by simp only [renV]
  | .num _, _ => by simp only [renV]
  | .foreign _, _ => by simp only [renV]
theorem renVL_fix : ∀ xs : List Val, RnVL φ xs = true → renVL c xs = xs
  | [], _ => by simp only [renVL]
  | x :: xs, h => by
    simp only [renVL]; rw [renV_fix x (rnVL_cons.mp h).1, renVL_fix xs (rnVL_cons.mp h).2]
theorem renVF_fix : ∀ kvs : List (Bytes × Val), RnVF φ kvs = true → renVF c kvs = kvs
  | [], _ => by simp only [renVF]
  | (k, x) :: kvs, h => by
    have h' := rnVF_cons.mp h
    simp only [renVF]; rw [H k h'.1, renV_fix x h'.2.1, renVF_fix kvs h'.2.2]
end

mutual
theorem renN_fix : ∀ n : INode, n.all (strHead φ) = true → renN c n = n
  | .lit a0, h => by
    simp only [INode.all, Bool.and_eq_true] at h
    have h0 := h
    simp only [renN]; rw [renV_fix H a0 h0]
  | .current, _ => by simp only [renN]
  | .root, _ => by simp only [renN]
  | .field a0, h => by
    simp only [INode.all, Bool.and_eq_true] at h
    have h0 := h
    simp only [renN]; rw [H a0 h0]
  | .variable a0, _ => by simp only [renN]
  | .binop a0 a1 a2, h => by
    simp only [INode.all, Bool.and_eq_true] at h
    obtain ⟨⟨h0, h1⟩, h2⟩ := h
    simp only [renN]; rw [renN_fix a1 h1, renN_fix a2 h2]
  | .and a0 a1, h => by
    simp only [INode.all, Bool.and_eq_true] at h
    obtain ⟨⟨h0, h1⟩, h2⟩ := h
    simp only [renN]; rw [renN_fix a0 h1, renN_fix a1 h2]
  | .or a0 a1, h => by
    simp only [INode.all, Bool.and_eq_true] at h
    obtain ⟨⟨h0, h1⟩, h2⟩ := h
    simp only [renN]; rw [renN_fix a0 h1, renN_fix a1 h2]
  | .not a0, h => by
    simp only [INode.all, Bool.and_eq_true] at h
    obtain ⟨h0, h1⟩ := h
    simp only [renN]; rw [renN_fix a0 h1]
  | .negate a0, h => by
    simp only [INode.all, Bool.and_eq_true] at h
    obtain ⟨h0, h1⟩ := h
    simp only [renN]; rw [renN_fix a0 h1]
  | .assertNumber a0, h => by
    simp only [INode.all, Bool.and_eq_true] at h
    obtain ⟨h0, h1⟩ := h
    simp only [renN]; rw [renN_fix a0 h1]
  | .call a0 a1, h => by
    simp only [INode.all, Bool.and_eq_true] at h
    obtain ⟨h0, h1⟩ := h
    simp only [renN]; rw [renNL_fix a1 h1]
  | .defineVariables a0 a1, h => by
    simp only [INode.all, Bool.and_eq_true] at h
    obtain ⟨⟨h0, h1⟩, h2⟩ := h
    simp only [renN]; rw [renNF_fix false a0 (fun e => by cases e) h1, renN_fix a1 h2]
  | .filter a0 a1, h => by
    simp only [INode.all, Bool.and_eq_true] at h
    obtain ⟨⟨h0, h1⟩, h2⟩ := h
    simp only [renN]; rw [renN_fix a0 h1, renN_fix a1 h2]
  | .filterCurrent a0, h => by
    simp only [INode.all, Bool.and_eq_true] at h
    obtain ⟨h0, h1⟩ := h
    simp only [renN]; rw [renN_fix a0 h1]
  | .filterAndProject a0 a1 a2, h => by
    simp only [INode.all, Bool.and_eq_true] at h
    obtain ⟨⟨⟨h0, h1⟩, h2⟩, h3⟩ := h
    simp only [renN]; rw [renN_fix a0 h1, renN_fix a1 h2, renN_fix a2 h3]
  | .filterAndProjectCurrent a0 a1, h => by
    simp only [INode.all, Bool.and_eq_true] at h
    obtain ⟨⟨h0, h1⟩, h2⟩ := h
    simp only [renN]; rw [renN_fix a0 h1, renN_fix a1 h2]
  | .flatten a0, h => by
    simp only [INode.all, Bool.and_eq_true] at h
    obtain ⟨h0, h1⟩ := h
    simp only [renN]; rw [renN_fix a0 h1]
  | .flattenCurrent, _ => by simp only [renN]
  | .flattenAndProject a0 a1, h => by
    simp only [INode.all, Bool.and_eq_true] at h
    obtain ⟨⟨h0, h1⟩, h2⟩ := h
    simp only [renN]; rw [renN_fix a0 h1, renN_fix a1 h2]
  | .flattenAndProjectCurrent a0, h => by
    simp only [INode.all, Bool.and_eq_true] at h
    obtain ⟨h0, h1⟩ := h
    simp only [renN]; rw [renN_fix a0 h1]
  | .index a0 a1, h => by
    simp only [INode.all, Bool.and_eq_true] at h
    obtain ⟨h0, h1⟩ := h
    simp only [renN]; rw [renN_fix a0 h1]
  | .indexCurrent a0, _ => by simp only [renN]
  | .smallIndexCurrent a0, _ => by simp only [renN]
  | .objectValues a0, h => by
    simp only [INode.all, Bool.and_eq_true] at h
    obtain ⟨h0, h1⟩ := h
    simp only [renN]; rw [renN_fix a0 h1]
  | .objectValuesCurrent, _ => by simp only [renN]
  | .pipe a0 a1, h => by
    simp only [INode.all, Bool.and_eq_true] at h
    obtain ⟨⟨h0, h1⟩, h2⟩ := h
    simp only [renN]; rw [renN_fix a0 h1, renN_fix a1 h2]
  | .projectArray a0 a1, h => by
    simp only [INode.all, Bool.and_eq_true] at h
    obtain ⟨⟨h0, h1⟩, h2⟩ := h
    simp only [renN]; rw [renN_fix a0 h1, renN_fix a1 h2]
  | .projectArrayCurrent a0, h => by
    simp only [INode.all, Bool.and_eq_true] at h
    obtain ⟨h0, h1⟩ := h
    simp only [renN]; rw [renN_fix a0 h1]
  | .projectObject a0 a1, h => by
    simp only [INode.all, Bool.and_eq_true] at h
    obtain ⟨⟨h0, h1⟩, h2⟩ := h
    simp only [renN]; rw [renN_fix a0 h1, renN_fix a1 h2]
  | .projectObjectCurrent a0, h => by
    simp only [INode.all, Bool.and_eq_true] at h
    obtain ⟨h0, h1⟩ := h
    simp only [renN]; rw [renN_fix a0 h1]
  | .pruneArray a0, h => by
    simp only [INode.all, Bool.and_eq_true] at h
    obtain ⟨h0, h1⟩ := h
    simp only [renN]; rw [renN_fix a0 h1]
  | .pruneArrayCurrent, _ => by simp only [renN]
  | .selectArray a0 a1, h => by
    simp only [INode.all, Bool.and_eq_true] at h
    obtain ⟨⟨h0, h1⟩, h2⟩ := h
    simp only [renN]; rw [renN_fix a0 h1, renNL_fix a1 h2]
  | .selectArrayCurrent a0, h => by
    simp only [INode.all, Bool.and_eq_true] at h
    obtain ⟨h0, h1⟩ := h
    simp only [renN]; rw [renNL_fix a0 h1]
  | .selectArraySingle a0 a1, h => by
    simp only [INode.all, Bool.and_eq_true] at h
    obtain ⟨⟨h0, h1⟩, h2⟩ := h
    simp only [renN]; rw [renN_fix a0 h1, renN_fix a1 h2]
  | .selectArraySingleCurrent a0, h => by
    simp only [INode.all, Bool.and_eq_true] at h
    obtain ⟨h0, h1⟩ := h
    simp only [renN]; rw [renN_fix a0 h1]
  | .selectObject a0 a1, h => by
    simp only [INode.all, Bool.and_eq_true] at h
    obtain ⟨⟨h0, h1⟩, h2⟩ := h
    simp only [renN]; rw [renN_fix a0 h1, renNF_fix true a1 (fun _ => List.all_eq_true.mp h0) h2]
  | .selectObjectCurrent a0, h => by
    simp only [INode.all, Bool.and_eq_true] at h
    obtain ⟨h0, h1⟩ := h
    simp only [renN]; rw [renNF_fix true a0 (fun _ => List.all_eq_true.mp h0) h1]
  | .selectObjectSingle a0 a1 a2, h => by
    simp only [INode.all, Bool.and_eq_true] at h
    obtain ⟨⟨h0, h1⟩, h2⟩ := h
    simp only [renN]; rw [renN_fix a0 h1, renN_fix a2 h2, H a1 h0]
  | .selectObjectSingleCurrent a0 a1, h => by
    simp only [INode.all, Bool.and_eq_true] at h
    obtain ⟨h0, h1⟩ := h
    simp only [renN]; rw [renN_fix a1 h1, H a0 h0]
  | .slice a0 a1 a2, h => by
    simp only [INode.all, Bool.and_eq_true] at h
    obtain ⟨h0, h1⟩ := h
    simp only [renN]; rw [renN_fix a0 h1]
  | .sliceCurrent a0 a1, _ => by simp only [renN]
  | .sliceStep a0 a1 a2 a3, h => by
    simp only [INode.all, Bool.and_eq_true] at h
    obtain ⟨h0, h1⟩ := h
    simp only [renN]; rw [renN_fix a0 h1]
  | .sliceStepCurrent a0 a1 a2, _ => by simp only [renN]
  | .groupBy a0 a1, h => by
    simp only [INode.all, Bool.and_eq_true] at h
    obtain ⟨⟨h0, h1⟩, h2⟩ := h
    simp only [renN]; rw [renN_fix a0 h1, renN_fix a1 h2]
  | .map a0 a1, h => by
    simp only [INode.all, Bool.and_eq_true] at h
    obtain ⟨⟨h0, h1⟩, h2⟩ := h
    simp only [renN]; rw [renN_fix a0 h1, renN_fix a1 h2]
  | .maxBy a0 a1, h => by
    simp only [INode.all, Bool.and_eq_true] at h
    obtain ⟨⟨h0, h1⟩, h2⟩ := h
    simp only [renN]; rw [renN_fix a0 h1, renN_fix a1 h2]
  | .minBy a0 a1, h => by
    simp only [INode.all, Bool.and_eq_true] at h
    obtain ⟨⟨h0, h1⟩, h2⟩ := h
    simp only [renN]; rw [renN_fix a0 h1, renN_fix a1 h2]
  | .sortBy a0 a1, h => by
    simp only [INode.all, Bool.and_eq_true] at h
    obtain ⟨⟨h0, h1⟩, h2⟩ := h
    simp only [renN]; rw [renN_fix a0 h1, renN_fix a1 h2]
  | .merge a0, h => by
    simp only [INode.all, Bool.and_eq_true] at h
    obtain ⟨h0, h1⟩ := h
    simp only [renN]; rw [renNL_fix a0 h1]
  | .notNull a0, h => by
    simp only [INode.all, Bool.and_eq_true] at h
    obtain ⟨h0, h1⟩ := h
    simp only [renN]; rw [renNL_fix a0 h1]
  | .zip a0, h => by
    simp only [INode.all, Bool.and_eq_true] at h
    obtain ⟨h0, h1⟩ := h
    simp only [renN]; rw [renNL_fix a0 h1]

theorem renNL_fix : ∀ ns : List INode, INode.allL (strHead φ) ns = true → renNL c ns = ns
  | [], _ => by simp only [renNL]
  | n :: ns, h => by
    simp only [INode.allL, Bool.and_eq_true] at h
    simp only [renNL]; rw [renN_fix n h.1, renNL_fix ns h.2]
theorem renNF_fix (keys : Bool) : ∀ fs : List (Bytes × INode), (keys = true → ∀ kn ∈ fs, rnB φ kn.1 = true) →
    INode.allF (strHead φ) fs = true → renNF c keys fs = fs
  | [], _, _ => by simp only [renNF]
  | (k, n) :: fs, hk, h => by
    simp only [INode.allF, Bool.and_eq_true] at h
    simp only [renNF]
    rw [renN_fix n h.1, renNF_fix keys fs (fun e kn hkn => hk e kn (List.mem_cons_of_mem _ hkn)) h.2]
    cases keys with
    | false => rfl
    | true => simp only [if_true]; rw [H k (hk rfl (k, n) List.mem_cons_self)]
end
end Fix

end Jmes.C11E.Dom
