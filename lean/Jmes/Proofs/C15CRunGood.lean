/-
  Helpers for Jmes/Properties/C15C.lean, part 8: what a run can return. On inputs without map-ordered arrays, for an
  expression without the unstable `sort`, every run `ievalO π` is DEFINITE in the sense of `GoodR true`: its value
  contains no map-ordered array, an error is a single category, and it is never `.nondet` (a run never consults an
  iteration order it has not been given).
-/
import Jmes.Proofs.C15BOracle
import Jmes.Proofs.Invariants
set_option linter.unusedVariables false
namespace Jmes.C15C
open Jmes Invar

/-- the sub-expression of a run's loop maps values without map-ordered arrays to definite outcomes -/
abbrev GoodFnO (g : Nat → Val → Res Val) : Prop := ∀ i v, v.Good true = true → GoodR true (g i v)

theorem mapPruneO_good {g : Nat → Val → Res Val} (hg : GoodFnO g) :
    ∀ (i : Nat) {xs : List Val}, Val.GoodL true xs = true → GoodLR true (mapPruneO g i xs)
  | _, [], _ => goodL_nil
  | i, x :: xs, h => by
    have ⟨hx, hr⟩ := goodL_cons.mp h
    simp only [mapPruneO]
    refine Sat.bind (hg i x hx) fun p hp => Sat.bind (mapPruneO_good hg (i + 1) hr) fun rest hrest => Sat.pure ?_
    split
    · exact hrest
    · exact goodL_cons.mpr ⟨hp, hrest⟩

theorem mapAllO_good {g : Nat → Val → Res Val} (hg : GoodFnO g) :
    ∀ (i : Nat) {xs : List Val}, Val.GoodL true xs = true → GoodLR true (mapAllO g i xs)
  | _, [], _ => goodL_nil
  | i, x :: xs, h => by
    have ⟨hx, hr⟩ := goodL_cons.mp h
    simp only [mapAllO]
    exact Sat.bind (hg i x hx) fun p hp => Sat.bind (mapAllO_good hg (i + 1) hr) fun rest hrest =>
      Sat.pure (goodL_cons.mpr ⟨hp, hrest⟩)

theorem filterLoopO_good {g : Nat → Val → Res Val} (hg : GoodFnO g) :
    ∀ (i : Nat) {xs : List Val}, Val.GoodL true xs = true → GoodLR true (filterLoopO g i xs)
  | _, [], _ => goodL_nil
  | i, x :: xs, h => by
    have ⟨hx, hr⟩ := goodL_cons.mp h
    simp only [filterLoopO]
    refine Sat.bind (hg i x hx) fun b _ => Sat.bind (filterLoopO_good hg (i + 1) hr) fun rest hrest => Sat.pure ?_
    split
    · exact goodL_cons.mpr ⟨hx, hrest⟩
    · exact hrest

theorem filterMapPruneO_good {c g : Nat → Val → Res Val} (hc : GoodFnO c) (hg : GoodFnO g) :
    ∀ (i : Nat) {xs : List Val}, Val.GoodL true xs = true → GoodLR true (filterMapPruneO c g i xs)
  | _, [], _ => goodL_nil
  | i, x :: xs, h => by
    have ⟨hx, hr⟩ := goodL_cons.mp h
    simp only [filterMapPruneO]
    refine Sat.bind (hc i x hx) fun b _ => ?_
    split
    · refine Sat.bind (hg i x hx) fun p hp =>
        Sat.bind (filterMapPruneO_good hc hg (i + 1) hr) fun rest hrest => Sat.pure ?_
      split
      · exact hrest
      · exact goodL_cons.mpr ⟨hp, hrest⟩
    · exact filterMapPruneO_good hc hg (i + 1) hr

theorem projectArrayO_good {g : Nat → Val → Res Val} {v : Val} (hg : GoodFnO g) (h : v.Good true = true) :
    GoodR true (projectArrayO g v) := by
  cases v with
  | arr t xs =>
    have ⟨ht, hx⟩ := good_arr.mp h
    exact Sat.bind (mapPruneO_good hg 0 hx) fun r hr => Sat.pure (good_arr.mpr ⟨tagOk_derived ht, hr⟩)
  | _ => exact good_null

theorem filterArrayO_good {g : Nat → Val → Res Val} {v : Val} (hg : GoodFnO g) (h : v.Good true = true) :
    GoodR true (filterArrayO g v) := by
  cases v with
  | arr t xs =>
    have ⟨ht, hx⟩ := good_arr.mp h
    exact Sat.bind (filterLoopO_good hg 0 hx) fun r hr => Sat.pure (good_arr.mpr ⟨tagOk_derived ht, hr⟩)
  | _ => exact good_null

theorem filterAndProjectArrayO_good {c g : Nat → Val → Res Val} {v : Val} (hc : GoodFnO c) (hg : GoodFnO g)
    (h : v.Good true = true) : GoodR true (filterAndProjectArrayO c g v) := by
  cases v with
  | arr t xs =>
    have ⟨ht, hx⟩ := good_arr.mp h
    exact Sat.bind (filterMapPruneO_good hc hg 0 hx) fun r hr => Sat.pure (good_arr.mpr ⟨tagOk_derived ht, hr⟩)
  | _ => exact good_null

theorem flattenAndProjectArrayO_good {g : Nat → Val → Res Val} {v : Val} (hg : GoodFnO g) (h : v.Good true = true) :
    GoodR true (flattenAndProjectArrayO g v) := by
  cases v with
  | arr t xs =>
    have ⟨ht, hx⟩ := good_arr.mp h
    exact Sat.bind (mapPruneO_good hg 0 (goodL_flattenForProject hx)) fun r hr =>
      Sat.pure (good_arr.mpr ⟨flattenTag_ok ht hx, hr⟩)
  | _ => exact good_null

theorem mapArrayO_good {g : Nat → Val → Res Val} {v : Val} (hg : GoodFnO g) (h : v.Good true = true) :
    GoodR true (mapArrayO g v) := by
  cases v with
  | arr t xs =>
    have ⟨ht, hx⟩ := good_arr.mp h
    exact Sat.bind (mapAllO_good hg 0 hx) fun r hr => Sat.pure (good_arr.mpr ⟨tagOk_derived ht, hr⟩)
  | _ => exact Sat.errType

theorem keysFromO_good {g : Nat → Val → Res Val} (hg : GoodFnO g) (b : Bool) :
    ∀ (i : Nat) {xs : List Val}, Val.GoodL true xs = true → Res.Sat true (fun _ => True) (keysFromO g b i xs)
  | _, [], _ => trivial
  | i, x :: xs, h => by
    have ⟨hx, hr⟩ := goodL_cons.mp h
    simp only [keysFromO]
    refine Sat.bind (hg i x hx) fun rv _ => Sat.bind (P := fun _ => True) ?_ fun k _ =>
      Sat.bind (keysFromO_good hg b (i + 1) hr) fun _ _ => trivial
    split
    · split
      · trivial
      · exact Sat.errType
    · split
      · trivial
      · exact Sat.errType

theorem keysOfO_good {g : Nat → Val → Res Val} (hg : GoodFnO g) :
    ∀ {xs : List Val}, Val.GoodL true xs = true → Res.Sat true (fun _ => True) (keysOfO g xs)
  | [], _ => trivial
  | x :: xs, h => by
    have ⟨hx, hr⟩ := goodL_cons.mp h
    simp only [keysOfO]
    refine Sat.bind (hg 0 x hx) fun first _ => ?_
    split
    · exact Sat.bind (keysFromO_good hg true 1 hr) fun _ _ => trivial
    · split
      · exact Sat.errType
      · exact Sat.bind (keysFromO_good hg false 1 hr) fun _ _ => trivial

theorem arrayPickByO_good (better : Key → Key → Bool) {g : Nat → Val → Res Val} {v : Val} (hg : GoodFnO g)
    (h : v.Good true = true) : GoodR true (arrayPickByO better g v) := by
  cases v with
  | arr t xs =>
    have ⟨ht, hx⟩ := good_arr.mp h
    cases xs with
    | nil => exact good_null
    | cons x0 rest =>
      have ⟨hx0, hrest⟩ := goodL_cons.mp hx
      simp only [arrayPickByO]
      refine Sat.bind (keysOfO_good hg hx) fun ks _ => ?_
      split
      · exact good_null
      · next k0 krest =>
        show (pickBy better x0 k0 (rest.zip krest)).Good true = true
        rcases pickBy_mem better (rest.zip krest) x0 k0 with h | ⟨p, hp, h⟩
        · rw [h]; exact hx0
        · rw [h]
          have : p.1 ∈ rest := by
            cases p with
            | mk a b => exact (List.of_mem_zip hp).1
          exact goodL_iff.mp hrest _ this
  | _ => exact Sat.errType

theorem sortArrayByO_good {g : Nat → Val → Res Val} {v : Val} (hg : GoodFnO g) (h : v.Good true = true) :
    GoodR true (sortArrayByO g v) := by
  cases v with
  | arr t xs =>
    have ⟨ht, hx⟩ := good_arr.mp h
    simp only [sortArrayByO]
    split
    · exact h
    · exact Sat.bind (keysOfO_good hg hx) fun ks _ => good_plainArr (goodL_sortByKeys ks hx)
  | _ => exact Sat.errType

theorem groupLoopO_good {g : Nat → Val → Res Val} (hg : GoodFnO g) :
    ∀ (i : Nat) {xs : List Val} {acc : List (Bytes × List Val)}, Val.GoodL true xs = true →
      (∀ kg ∈ acc, Val.GoodL true kg.2 = true) →
      Res.Sat true (fun gs => ∀ kg ∈ gs, Val.GoodL true kg.2 = true) (groupLoopO g i xs acc)
  | _, [], _, _, ha => ha
  | i, x :: rest, acc, h, ha => by
    have ⟨hx, hr⟩ := goodL_cons.mp h
    simp only [groupLoopO]
    refine Sat.bind (hg i x hx) fun rv _ => ?_
    split
    · exact groupLoopO_good hg (i + 1) hr (groupInsert_inv hx ha)
    · exact Sat.errType

theorem groupByO_good {g : Nat → Val → Res Val} {v : Val} (hg : GoodFnO g) (h : v.Good true = true) :
    GoodR true (groupByO g v) := by
  cases v with
  | arr t xs =>
    have ⟨ht, hx⟩ := good_arr.mp h
    simp only [groupByO]
    split
    · exact good_null
    · refine Sat.bind (groupLoopO_good hg 0 hx (acc := []) (fun _ h => by cases h)) fun gs hgs => Sat.pure ?_
      refine good_obj.mpr (goodF_iff.mpr fun kv hkv => ?_)
      obtain ⟨kg, hkg, rfl⟩ := List.mem_map.mp hkv
      exact good_arr.mpr ⟨tagOk_derived ht, hgs kg hkg⟩
  | _ => exact Sat.errType

/-! enumerating an object in the oracle's order: plain arrays of good members -/

theorem goodL_members_values (π : Oracle) {kvs : List (Bytes × Val)} (h : Val.GoodF true kvs = true) :
    Val.GoodL true ((π.members kvs).map Prod.snd) = true := by
  refine goodL_iff.mpr fun y hy => ?_
  obtain ⟨kv, hkv, rfl⟩ := List.mem_map.mp hy
  exact goodF_iff.mp h kv ((π.members_perm kvs).mem_iff.mp hkv)

theorem objectValuesO_good (π : Oracle) {v : Val} (h : v.Good true = true) : (objectValuesO π v).Good true = true := by
  cases v with
  | obj kvs => exact good_plainArr (goodL_filter _ (goodL_members_values π (good_obj.mp h)))
  | _ => rfl

theorem projectObjectO_good (π : Oracle) {g : Nat → Val → Res Val} {v : Val} (hg : GoodFnO g)
    (h : v.Good true = true) : GoodR true (projectObjectO π g v) := by
  cases v with
  | obj kvs =>
    exact Sat.bind (mapPruneO_good hg 0 (goodL_members_values π (good_obj.mp h))) fun r hr =>
      Sat.pure (good_plainArr hr)
  | _ => exact good_null

theorem valuesO_good (π : Oracle) {v : Val} (h : v.Good true = true) : GoodR true (valuesO π v) := by
  cases v with
  | obj kvs => exact good_plainArr (goodL_members_values π (good_obj.mp h))
  | _ => exact Sat.errType

theorem keysO_good (π : Oracle) {v : Val} (h : v.Good true = true) : GoodR true (keysO π v) := by
  cases v with
  | obj kvs =>
    refine good_plainArr (goodL_iff.mpr fun y hy => ?_)
    obtain ⟨kv, _, rfl⟩ := List.mem_map.mp hy
    rfl
  | _ => exact Sat.errType

theorem itemsO_good (π : Oracle) {v : Val} (h : v.Good true = true) : GoodR true (itemsO π v) := by
  cases v with
  | obj kvs =>
    refine good_plainArr (goodL_iff.mpr fun y hy => ?_)
    obtain ⟨kv, hkv, rfl⟩ := List.mem_map.mp hy
    have := goodF_iff.mp (good_obj.mp h) kv ((π.members_perm kvs).mem_iff.mp hkv)
    exact good_plainArr (goodL_cons.mpr ⟨good_str, goodL_cons.mpr ⟨this, rfl⟩⟩)
  | _ => exact Sat.errType

/-- every builtin but the unstable `sort` -/
def Fn.notSort : Fn → Bool
  | .sort => false
  | _ => true

theorem applyFnO_good (π : Oracle) (f : Fn) (hf : Fn.notSort f = true) {args : List Val}
    (h : Val.GoodL true args = true) : GoodR true (applyFnO π f args) := by
  by_cases he : Fn.enumerates f = false
  · have : applyFnO π f args = applyFn f args := by cases f <;> first | rfl | exact Bool.noConfusion he
    rw [this]
    exact applyFn_sat (s := true) f (fun _ => he) h
  · cases f
    case keys =>
      match args, h with
      | [], _ => exact Sat.err1 _
      | [a], h => exact keysO_good π (goodL_cons.mp h).1
      | _ :: _ :: _, _ => exact Sat.err1 _
    case values =>
      match args, h with
      | [], _ => exact Sat.err1 _
      | [a], h => exact valuesO_good π (goodL_cons.mp h).1
      | _ :: _ :: _, _ => exact Sat.err1 _
    case items =>
      match args, h with
      | [], _ => exact Sat.err1 _
      | [a], h => exact itemsO_good π (goodL_cons.mp h).1
      | _ :: _ :: _, _ => exact Sat.err1 _
    case sort => cases hf
    all_goals exact absurd rfl he

theorem firstFailure_good : ∀ (os : List (Bytes × Res Val)) (acc : List (Bytes × Val)),
    (∀ o ∈ os, GoodR true o.2) → Val.GoodF true acc = true → GoodFR true (firstFailure os acc)
  | [], acc, _, ha => ha
  | (k, r) :: rest, acc, h, ha => by
    simp only [firstFailure]
    exact Sat.bind (h (k, r) (by simp)) fun v hv =>
      firstFailure_good rest _ (fun o ho => h o (List.mem_cons_of_mem _ ho)) (goodF_objInsert hv ha)

/-! ### the evaluator of a run -/

/-- the node is not a call of the unstable `sort` -/
def noSort : INode → Bool
  | .call f _ => Fn.notSort f
  | _ => true

/-- per-node requirement: literals without map-ordered arrays, no `sort` -/
def nodeOkR (n : INode) : Bool := INode.litOk (Val.Good true) n && noSort n

theorem nodeOkR_lit {v : Val} (h : nodeOkR (.lit v) = true) : v.Good true = true := by
  simpa [nodeOkR, INode.litOk, noSort] using h
theorem nodeOkR_call {f : Fn} {args : List INode} (h : nodeOkR (.call f args) = true) : Fn.notSort f = true := by
  simpa [nodeOkR, INode.litOk, noSort] using h

mutual
theorem ievalO_good {root : Val} (hroot : root.Good true = true) :
    ∀ (n : INode) (π : Oracle) (cur : Val) (env : Env), n.all nodeOkR = true → cur.Good true = true →
      Val.GoodF true env = true → GoodR true (ievalO π root n cur env)
  | .lit v, π, cur, env, h, hc, hv => by
    simp only [INode.all] at h
    exact nodeOkR_lit h
  | .current, π, cur, env, h, hc, hv => hc
  | .root, π, cur, env, h, hc, hv => hroot
  | .field k, π, cur, env, h, hc, hv => field_good k hc
  | .variable name, π, cur, env, h, hc, hv => by
    simp only [ievalO, Env.get]
    cases hl : objLookup name env with
    | none => exact Sat.err1 _
    | some v => exact good_objLookup hv hl
  | .binop op l r, π, cur, env, h, hc, hv => by
    simp only [INode.all, Bool.and_eq_true] at h
    simp only [ievalO]
    exact Sat.bind (ievalO_good hroot l _ cur env h.1.2 hc hv) fun a ha =>
      Sat.bind (ievalO_good hroot r _ cur env h.2 hc hv) fun b hb => applyBinOp_sat op ha hb
  | .and l r, π, cur, env, h, hc, hv => by
    simp only [INode.all, Bool.and_eq_true] at h
    simp only [ievalO]
    refine Sat.bind (ievalO_good hroot l _ cur env h.1.2 hc hv) fun a ha => ?_
    split
    · exact Sat.pure ha
    · exact ievalO_good hroot r _ cur env h.2 hc hv
  | .or l r, π, cur, env, h, hc, hv => by
    simp only [INode.all, Bool.and_eq_true] at h
    simp only [ievalO]
    refine Sat.bind (ievalO_good hroot l _ cur env h.1.2 hc hv) fun a ha => ?_
    split
    · exact Sat.pure ha
    · exact ievalO_good hroot r _ cur env h.2 hc hv
  | .not c, π, cur, env, h, hc, hv => by
    simp only [INode.all, Bool.and_eq_true] at h
    simp only [ievalO]
    exact Sat.bind (ievalO_good hroot c _ cur env h.2 hc hv) fun a ha => Sat.pure good_bool
  | .negate c, π, cur, env, h, hc, hv => by
    simp only [INode.all, Bool.and_eq_true] at h
    simp only [ievalO]
    exact Sat.bind (ievalO_good hroot c _ cur env h.2 hc hv) fun a ha => Sat.pure (negateVal_good a)
  | .assertNumber c, π, cur, env, h, hc, hv => by
    simp only [INode.all, Bool.and_eq_true] at h
    simp only [ievalO]
    refine Sat.bind (ievalO_good hroot c _ cur env h.2 hc hv) fun a ha => Sat.pure ?_
    split
    · exact ha
    · rfl
  | .call f args, π, cur, env, h, hc, hv => by
    simp only [INode.all, Bool.and_eq_true] at h
    simp only [ievalO]
    exact Sat.bind (ievalListO_good hroot args _ cur env h.2 hc hv) fun vs hvs =>
      applyFnO_good _ f (nodeOkR_call h.1) hvs
  | .defineVariables vars child, π, cur, env, h, hc, hv => by
    simp only [INode.all, Bool.and_eq_true] at h
    simp only [ievalO]
    refine Sat.bind (firstFailure_good _ _ (fun o ho => ?_) rfl) fun bs hbs =>
      ievalO_good hroot child _ cur (bs ++ env) h.2 hc (goodF_append hbs hv)
    exact ievalMembersO_good hroot vars _ cur env h.1.2 hc hv o ((Oracle.order_perm _ _).mem_iff.mp ho)
  | .filter c f, π, cur, env, h, hc, hv => by
    simp only [INode.all, Bool.and_eq_true] at h
    simp only [ievalO]
    exact Sat.bind (ievalO_good hroot c _ cur env h.1.2 hc hv) fun a ha =>
      filterArrayO_good (fun i v hv' => ievalO_good hroot f _ v env h.2 hv' hv) ha
  | .filterCurrent f, π, cur, env, h, hc, hv => by
    simp only [INode.all, Bool.and_eq_true] at h
    simp only [ievalO]
    exact filterArrayO_good (fun i v hv' => ievalO_good hroot f _ v env h.2 hv' hv) hc
  | .filterAndProject l f r, π, cur, env, h, hc, hv => by
    simp only [INode.all, Bool.and_eq_true] at h
    simp only [ievalO]
    exact Sat.bind (ievalO_good hroot l _ cur env h.1.1.2 hc hv) fun a ha =>
      filterAndProjectArrayO_good (fun i v hv' => ievalO_good hroot f _ v env h.1.2 hv' hv)
        (fun i v hv' => ievalO_good hroot r _ v env h.2 hv' hv) ha
  | .filterAndProjectCurrent f c, π, cur, env, h, hc, hv => by
    simp only [INode.all, Bool.and_eq_true] at h
    simp only [ievalO]
    exact filterAndProjectArrayO_good (fun i v hv' => ievalO_good hroot f _ v env h.1.2 hv' hv)
        (fun i v hv' => ievalO_good hroot c _ v env h.2 hv' hv) hc
  | .flatten c, π, cur, env, h, hc, hv => by
    simp only [INode.all, Bool.and_eq_true] at h
    simp only [ievalO]
    exact Sat.bind (ievalO_good hroot c _ cur env h.2 hc hv) fun a ha => Sat.pure (flatten_good ha)
  | .flattenCurrent, π, cur, env, h, hc, hv => flatten_good hc
  | .flattenAndProject l r, π, cur, env, h, hc, hv => by
    simp only [INode.all, Bool.and_eq_true] at h
    simp only [ievalO]
    exact Sat.bind (ievalO_good hroot l _ cur env h.1.2 hc hv) fun a ha =>
      flattenAndProjectArrayO_good (fun i v hv' => ievalO_good hroot r _ v env h.2 hv' hv) ha
  | .flattenAndProjectCurrent c, π, cur, env, h, hc, hv => by
    simp only [INode.all, Bool.and_eq_true] at h
    simp only [ievalO]
    exact flattenAndProjectArrayO_good (fun i v hv' => ievalO_good hroot c _ v env h.2 hv' hv) hc
  | .index c i, π, cur, env, h, hc, hv => by
    simp only [INode.all, Bool.and_eq_true] at h
    simp only [ievalO]
    exact Sat.bind (ievalO_good hroot c _ cur env h.2 hc hv) fun a ha => index_sat i ha
  | .indexCurrent i, π, cur, env, h, hc, hv => index_sat i hc
  | .smallIndexCurrent i, π, cur, env, h, hc, hv => index_sat _ hc
  | .objectValues c, π, cur, env, h, hc, hv => by
    simp only [INode.all, Bool.and_eq_true] at h
    simp only [ievalO]
    exact Sat.bind (ievalO_good hroot c _ cur env h.2 hc hv) fun a ha => Sat.pure (objectValuesO_good _ ha)
  | .objectValuesCurrent, π, cur, env, h, hc, hv => objectValuesO_good _ hc
  | .pipe l r, π, cur, env, h, hc, hv => by
    simp only [INode.all, Bool.and_eq_true] at h
    simp only [ievalO]
    exact Sat.bind (ievalO_good hroot l _ cur env h.1.2 hc hv) fun a ha => ievalO_good hroot r _ a env h.2 ha hv
  | .projectArray l r, π, cur, env, h, hc, hv => by
    simp only [INode.all, Bool.and_eq_true] at h
    simp only [ievalO]
    refine Sat.bind (ievalO_good hroot l _ cur env h.1.2 hc hv) fun a ha => ?_
    have hp := projectArrayO_good (g := fun i v => ievalO (π.sub (i + 1)) root r v env)
      (fun i v hv' => ievalO_good hroot r _ v env h.2 hv' hv) ha
    cases a with
    | str s =>
      simp only
      split
      · exact ievalO_good hroot r _ _ env h.2 ha hv
      · exact hp
    | _ => exact hp
  | .projectArrayCurrent c, π, cur, env, h, hc, hv => by
    simp only [INode.all, Bool.and_eq_true] at h
    simp only [ievalO]
    exact projectArrayO_good (fun i v hv' => ievalO_good hroot c _ v env h.2 hv' hv) hc
  | .projectObject l r, π, cur, env, h, hc, hv => by
    simp only [INode.all, Bool.and_eq_true] at h
    simp only [ievalO]
    exact Sat.bind (ievalO_good hroot l _ cur env h.1.2 hc hv) fun a ha =>
      projectObjectO_good _ (fun i v hv' => ievalO_good hroot r _ v env h.2 hv' hv) ha
  | .projectObjectCurrent c, π, cur, env, h, hc, hv => by
    simp only [INode.all, Bool.and_eq_true] at h
    simp only [ievalO]
    exact projectObjectO_good _ (fun i v hv' => ievalO_good hroot c _ v env h.2 hv' hv) hc
  | .pruneArray c, π, cur, env, h, hc, hv => by
    simp only [INode.all, Bool.and_eq_true] at h
    simp only [ievalO]
    exact Sat.bind (ievalO_good hroot c _ cur env h.2 hc hv) fun a ha => Sat.pure (pruneArray_good ha)
  | .pruneArrayCurrent, π, cur, env, h, hc, hv => pruneArray_good hc
  | .selectArray c fs, π, cur, env, h, hc, hv => by
    simp only [INode.all, Bool.and_eq_true] at h
    simp only [ievalO]
    refine Sat.bind (ievalO_good hroot c _ cur env h.1.2 hc hv) fun a ha => ?_
    split
    · exact Sat.pure good_null
    · exact Sat.bind (ievalListO_good hroot fs _ a env h.2 ha hv) fun vs hvs => Sat.pure (good_plainArr hvs)
  | .selectArrayCurrent fs, π, cur, env, h, hc, hv => by
    simp only [INode.all, Bool.and_eq_true] at h
    simp only [ievalO]
    split
    · exact good_null
    · exact Sat.bind (ievalListO_good hroot fs _ cur env h.2 hc hv) fun vs hvs => Sat.pure (good_plainArr hvs)
  | .selectArraySingle c f, π, cur, env, h, hc, hv => by
    simp only [INode.all, Bool.and_eq_true] at h
    simp only [ievalO]
    refine Sat.bind (ievalO_good hroot c _ cur env h.1.2 hc hv) fun a ha => ?_
    split
    · exact Sat.pure good_null
    · exact Sat.bind (ievalO_good hroot f _ a env h.2 ha hv) fun v hv' =>
        Sat.pure (good_plainArr (goodL_cons.mpr ⟨hv', rfl⟩))
  | .selectArraySingleCurrent f, π, cur, env, h, hc, hv => by
    simp only [INode.all, Bool.and_eq_true] at h
    simp only [ievalO]
    exact Sat.bind (ievalO_good hroot f _ cur env h.2 hc hv) fun v hv' =>
      Sat.pure (good_plainArr (goodL_cons.mpr ⟨hv', rfl⟩))
  | .selectObject c fs, π, cur, env, h, hc, hv => by
    simp only [INode.all, Bool.and_eq_true] at h
    simp only [ievalO]
    refine Sat.bind (ievalO_good hroot c _ cur env h.1.2 hc hv) fun a ha => ?_
    split
    · exact Sat.pure good_null
    · refine Sat.bind (firstFailure_good _ _ (fun o ho => ?_) rfl) fun kvs hk => Sat.pure (good_obj.mpr hk)
      exact ievalMembersO_good hroot fs _ a env h.2 ha hv o ((Oracle.order_perm _ _).mem_iff.mp ho)
  | .selectObjectCurrent fs, π, cur, env, h, hc, hv => by
    simp only [INode.all, Bool.and_eq_true] at h
    simp only [ievalO]
    split
    · exact good_null
    · refine Sat.bind (firstFailure_good _ _ (fun o ho => ?_) rfl) fun kvs hk => Sat.pure (good_obj.mpr hk)
      exact ievalMembersO_good hroot fs _ cur env h.2 hc hv o ((Oracle.order_perm _ _).mem_iff.mp ho)
  | .selectObjectSingle c k f, π, cur, env, h, hc, hv => by
    simp only [INode.all, Bool.and_eq_true] at h
    simp only [ievalO]
    refine Sat.bind (ievalO_good hroot c _ cur env h.1.2 hc hv) fun a ha => ?_
    split
    · exact Sat.pure good_null
    · exact Sat.bind (ievalO_good hroot f _ a env h.2 ha hv) fun v hv' =>
        Sat.pure (good_obj.mpr (goodF_cons.mpr ⟨hv', rfl⟩))
  | .selectObjectSingleCurrent k f, π, cur, env, h, hc, hv => by
    simp only [INode.all, Bool.and_eq_true] at h
    simp only [ievalO]
    exact Sat.bind (ievalO_good hroot f _ cur env h.2 hc hv) fun v hv' =>
      Sat.pure (good_obj.mpr (goodF_cons.mpr ⟨hv', rfl⟩))
  | .slice c a b, π, cur, env, h, hc, hv => by
    simp only [INode.all, Bool.and_eq_true] at h
    simp only [ievalO]
    exact Sat.bind (ievalO_good hroot c _ cur env h.2 hc hv) fun v hv' => slice_sat a b hv'
  | .sliceCurrent a b, π, cur, env, h, hc, hv => slice_sat a b hc
  | .sliceStep c a b st, π, cur, env, h, hc, hv => by
    simp only [INode.all, Bool.and_eq_true] at h
    simp only [ievalO]
    exact Sat.bind (ievalO_good hroot c _ cur env h.2 hc hv) fun v hv' => sliceStep_sat a b st hv'
  | .sliceStepCurrent a b st, π, cur, env, h, hc, hv => sliceStep_sat a b st hc
  | .groupBy a e, π, cur, env, h, hc, hv => by
    simp only [INode.all, Bool.and_eq_true] at h
    simp only [ievalO]
    exact Sat.bind (ievalO_good hroot a _ cur env h.1.2 hc hv) fun v hv' =>
      groupByO_good (fun i x hx => ievalO_good hroot e _ x env h.2 hx hv) hv'
  | .map e a, π, cur, env, h, hc, hv => by
    simp only [INode.all, Bool.and_eq_true] at h
    simp only [ievalO]
    exact Sat.bind (ievalO_good hroot a _ cur env h.2 hc hv) fun v hv' =>
      mapArrayO_good (fun i x hx => ievalO_good hroot e _ x env h.1.2 hx hv) hv'
  | .maxBy a e, π, cur, env, h, hc, hv => by
    simp only [INode.all, Bool.and_eq_true] at h
    simp only [ievalO]
    exact Sat.bind (ievalO_good hroot a _ cur env h.1.2 hc hv) fun v hv' =>
      arrayPickByO_good _ (fun i x hx => ievalO_good hroot e _ x env h.2 hx hv) hv'
  | .minBy a e, π, cur, env, h, hc, hv => by
    simp only [INode.all, Bool.and_eq_true] at h
    simp only [ievalO]
    exact Sat.bind (ievalO_good hroot a _ cur env h.1.2 hc hv) fun v hv' =>
      arrayPickByO_good _ (fun i x hx => ievalO_good hroot e _ x env h.2 hx hv) hv'
  | .sortBy a e, π, cur, env, h, hc, hv => by
    simp only [INode.all, Bool.and_eq_true] at h
    simp only [ievalO]
    exact Sat.bind (ievalO_good hroot a _ cur env h.1.2 hc hv) fun v hv' =>
      sortArrayByO_good (fun i x hx => ievalO_good hroot e _ x env h.2 hx hv) hv'
  | .merge args, π, cur, env, h, hc, hv => by
    simp only [INode.all, Bool.and_eq_true] at h
    simp only [ievalO]
    exact Sat.bind (ievalMergeO_good hroot args _ cur env [] h.2 hc hv rfl) fun kvs hk => Sat.pure (good_obj.mpr hk)
  | .notNull args, π, cur, env, h, hc, hv => by
    simp only [INode.all, Bool.and_eq_true] at h
    simp only [ievalO]
    exact ievalNotNullO_good hroot args _ cur env h.2 hc hv
  | .zip args, π, cur, env, h, hc, hv => by
    simp only [INode.all, Bool.and_eq_true] at h
    simp only [ievalO]
    refine Sat.bind (ievalZipO_good hroot args _ cur env h.2 hc hv) fun vs hvs =>
      Sat.bind (zipArgs_sat hvs) fun cols hcols => ?_
    split
    · exact Sat.pure (good_plainArr rfl)
    · exact Sat.pure (good_plainArr (goodL_zipRows _ hcols))
theorem ievalListO_good {root : Val} (hroot : root.Good true = true) :
    ∀ (ns : List INode) (π : Oracle) (cur : Val) (env : Env), INode.allL nodeOkR ns = true → cur.Good true = true →
      Val.GoodF true env = true → GoodLR true (ievalListO π root ns cur env)
  | [], π, cur, env, h, hc, hv => goodL_nil
  | n :: ns, π, cur, env, h, hc, hv => by
    simp only [INode.allL, Bool.and_eq_true] at h
    simp only [ievalListO]
    exact Sat.bind (ievalO_good hroot n _ cur env h.1 hc hv) fun v hv' =>
      Sat.bind (ievalListO_good hroot ns _ cur env h.2 hc hv) fun vs hvs => Sat.pure (goodL_cons.mpr ⟨hv', hvs⟩)
theorem ievalMembersO_good {root : Val} (hroot : root.Good true = true) :
    ∀ (fs : List (Bytes × INode)) (π : Oracle) (cur : Val) (env : Env), INode.allF nodeOkR fs = true →
      cur.Good true = true → Val.GoodF true env = true →
      ∀ o ∈ ievalMembersO π root fs cur env, GoodR true o.2
  | [], π, cur, env, h, hc, hv => by intro o ho; simp [ievalMembersO] at ho
  | (k, n) :: rest, π, cur, env, h, hc, hv => by
    simp only [INode.allF, Bool.and_eq_true] at h
    intro o ho
    simp only [ievalMembersO, List.mem_cons] at ho
    rcases ho with rfl | ho
    · exact ievalO_good hroot n _ cur env h.1 hc hv
    · exact ievalMembersO_good hroot rest _ cur env h.2 hc hv o ho
theorem ievalMergeO_good {root : Val} (hroot : root.Good true = true) :
    ∀ (ns : List INode) (π : Oracle) (cur : Val) (env : Env) (acc : List (Bytes × Val)),
      INode.allL nodeOkR ns = true → cur.Good true = true → Val.GoodF true env = true → Val.GoodF true acc = true →
      GoodFR true (ievalMergeO π root ns cur env acc)
  | [], π, cur, env, acc, h, hc, hv, ha => ha
  | n :: ns, π, cur, env, acc, h, hc, hv, ha => by
    simp only [INode.allL, Bool.and_eq_true] at h
    simp only [ievalMergeO]
    refine Sat.bind (ievalO_good hroot n _ cur env h.1 hc hv) fun v hv' => ?_
    split
    · exact ievalMergeO_good hroot ns _ cur env _ h.2 hc hv (goodF_foldInsert (good_obj.mp hv') ha)
    · exact Sat.errType
theorem ievalNotNullO_good {root : Val} (hroot : root.Good true = true) :
    ∀ (ns : List INode) (π : Oracle) (cur : Val) (env : Env), INode.allL nodeOkR ns = true → cur.Good true = true →
      Val.GoodF true env = true → GoodR true (ievalNotNullO π root ns cur env)
  | [], π, cur, env, h, hc, hv => good_null
  | n :: ns, π, cur, env, h, hc, hv => by
    simp only [INode.allL, Bool.and_eq_true] at h
    simp only [ievalNotNullO]
    refine Sat.bind (ievalO_good hroot n _ cur env h.1 hc hv) fun v hv' => ?_
    split
    · exact ievalNotNullO_good hroot ns _ cur env h.2 hc hv
    · exact Sat.pure hv'
theorem ievalZipO_good {root : Val} (hroot : root.Good true = true) :
    ∀ (ns : List INode) (π : Oracle) (cur : Val) (env : Env), INode.allL nodeOkR ns = true → cur.Good true = true →
      Val.GoodF true env = true → GoodLR true (ievalZipO π root ns cur env)
  | [], π, cur, env, h, hc, hv => goodL_nil
  | n :: ns, π, cur, env, h, hc, hv => by
    simp only [INode.allL, Bool.and_eq_true] at h
    simp only [ievalZipO]
    refine Sat.bind (ievalO_good hroot n _ cur env h.1 hc hv) fun v hv' => ?_
    split
    · exact Sat.bind (ievalZipO_good hroot ns _ cur env h.2 hc hv) fun vs hvs => Sat.pure (goodL_cons.mpr ⟨hv', hvs⟩)
    · exact Sat.errType
end

end Jmes.C15C
