/-
  Property C20, fourth pass — helper: `==` over ALL of `Val`.

  1. `valX a`: the value `==` sees in a number of any kind, defined for EVERY `Num` (no `NumOk`, no `Covered`): the
     decimal `toDecimal` produces, read as an extended rational; `none` when `toDecimal` gives nothing or NaN.
     `equal_num_iff_valX`: two numbers are `==` iff both have a value and the values have the same normal form.
  2. the classes of `json.Number` texts of the JSON grammar: `Regular`, `Tiny`, `Huge`, `Subnormal` (`jnum_classes`).
  3. the rounding rule `rhe` as an interval (`rhe_eq_iff`).
  4. `UKeys` (object keys unique at every level): `==` is transitive on all of `Val` (`equal_trans_all`), symmetric
     on `UKeys` values (`equal_symm_ukeys`), and `v == v` iff `JsonVal v` (`equal_self_iff`).
-/
import Jmes.Properties.C20C
namespace Jmes.C20E
open Jmes Jmes.Dec Jmes.C05 Jmes.C20 Jmes.C20B Jmes.C20C

/-! ## 1. the value of a number, for every `Num` -/

/-- the value of a decimal: none for NaN -/
def decX : Dec → Option XRat
  | .nan => none
  | .inf n => some (.inf n)
  | .fin n c e => some (.fin (decRat (.fin n c e)))

/-- **the value `==` (and `<`, `sort`, …) sees in a number**, for every `Num` whatsoever: what `toDecimal` makes of it,
    read as an extended rational.  `none` exactly when the number is not `NumOk`: `toDecimal` refuses the text (a
    `json.Number` that `decimal128.Parse` rejects: `1e7000`, `abc`) or produces NaN. -/
def valX (a : Num) : Option XRat := (toDecimal (.num a)).bind decX

theorem decX_den {d : Dec} {x : XRat} (h : decX d = some x) : Den d x := by
  cases d with
  | nan => cases h
  | inf n => cases h; exact den_inf n
  | fin n c e => cases h; exact den_fin n c e

theorem decX_some_of_ne_nan {d : Dec} (h : d ≠ .nan) : ∃ x, decX d = some x := by
  cases d with
  | nan => exact absurd rfl h
  | inf n => exact ⟨_, rfl⟩
  | fin n c e => exact ⟨_, rfl⟩

theorem decX_none_iff {d : Dec} : decX d = none ↔ d = .nan := by
  cases d <;> simp [decX]

/-- `Cmp` returns 0 iff both decimals have a value and the values are the same -/
theorem cmp_zero_iff_decX (dx dy : Dec) :
    Dec.cmp dx dy = some 0 ↔ ∃ x y, decX dx = some x ∧ decX dy = some y ∧ x.norm = y.norm := by
  constructor
  · intro h
    obtain ⟨h1, h2⟩ := ne_nan_of_cmp h
    obtain ⟨x, hx⟩ := decX_some_of_ne_nan h1
    obtain ⟨y, hy⟩ := decX_some_of_ne_nan h2
    exact ⟨x, y, hx, hy, (den_equal (decX_den hx) (decX_den hy)).mp h⟩
  · rintro ⟨x, y, hx, hy, h⟩
    exact (den_equal (decX_den hx) (decX_den hy)).mpr h

theorem valX_eq_some_iff {a : Num} {x : XRat} :
    valX a = some x ↔ ∃ d, toDecimal (.num a) = some d ∧ decX d = some x := by
  unfold valX
  cases toDecimal (.num a) <;> simp

/-- a number has a value iff it is `NumOk` -/
theorem valX_isSome_iff (a : Num) : (∃ x, valX a = some x) ↔ NumOk a := by
  constructor
  · rintro ⟨x, hx⟩
    obtain ⟨d, hd, hdx⟩ := valX_eq_some_iff.mp hx
    refine ⟨d, hd, ?_⟩
    rintro rfl; cases hdx
  · rintro ⟨d, hd, hn⟩
    obtain ⟨x, hx⟩ := decX_some_of_ne_nan hn
    exact ⟨x, valX_eq_some_iff.mpr ⟨d, hd, hx⟩⟩

theorem valX_none_iff (a : Num) : valX a = none ↔ ¬ NumOk a := by
  rw [← valX_isSome_iff]
  cases valX a <;> simp

/-- on the numbers C20C covers, `valX` is the value `numX` of C20C (up to the representative) -/
theorem valX_numX {a : Num} (hok : NumOk a) (hc : Covered a) : (valX a).map XRat.norm = (numX a).map XRat.norm := by
  obtain ⟨d, x, hd, hx, hden⟩ := numDen hok hc
  obtain ⟨y, hy⟩ := decX_some_of_ne_nan hden.ne_nan
  have hv : valX a = some y := valX_eq_some_iff.mpr ⟨d, hd, hy⟩
  rw [hv, hx]
  simp only [Option.map_some, Option.some.injEq]
  exact (den_equal (decX_den hy) hden).mp (Dec.cmp_self hden.ne_nan)

/-! ## 2. the classes of `json.Number` texts of the JSON grammar -/

/-- a number text in the subnormal band of decimal128: non-zero digits, an exponent field `≤ 6189`, the last digit
    below `10^EMIN` but the first digit at most 39 places below it.  `decimal128.Parse` rounds such a text to a
    multiple of `10^EMIN` — possibly to zero — without any error (known finding KF07, silent underflow), or rejects
    it when it has so many digits that its value is out of range. -/
structure Subnormal (t : Bytes) : Prop where
  gram : Lexical.JNumber t
  efield : (numParts t).efield ≤ 6189
  nz : (numParts t).mant ≠ 0
  below : (ratRaw t).2 < EMIN
  near : EMIN - 39 ≤ (ratRaw t).2 + ((numParts t).ndig : Int)

theorem subnormal_iff (t : Bytes) : Subnormal t ↔ (Json.isValidNumber t = true ∧ (numParts t).efield ≤ 6189 ∧
    (numParts t).mant ≠ 0 ∧ (ratRaw t).2 < EMIN ∧ EMIN - 39 ≤ (ratRaw t).2 + ((numParts t).ndig : Int)) := by
  rw [JsonGrammar.isValidNumber_iff]
  exact ⟨fun h => ⟨h.gram, h.efield, h.nz, h.below, h.near⟩, fun ⟨a, b, c, d, e⟩ => ⟨a, b, c, d, e⟩⟩

instance (t : Bytes) : Decidable (Subnormal t) := decidable_of_iff _ (subnormal_iff t).symm

/-- **every text of the JSON number grammar is regular, tiny, huge or subnormal** -/
theorem jnum_classes {t : Bytes} (hg : Lexical.JNumber t) : Regular t ∨ Tiny t ∨ Huge t ∨ Subnormal t := by
  by_cases hm : (numParts t).mant = 0
  · exact .inr (.inl ⟨hg, .inl hm⟩)
  by_cases he : (numParts t).efield ≤ 6189
  · by_cases hlo : EMIN ≤ (ratRaw t).2
    · rcases regular_or_huge hg he hlo hm with h | h
      · exact .inl h
      · exact .inr (.inr (.inl h))
    · by_cases hn : (ratRaw t).2 + ((numParts t).ndig : Int) < EMIN - 39
      · exact .inr (.inl ⟨hg, .inr (.inr ⟨he, hn⟩)⟩)
      · exact .inr (.inr (.inr ⟨hg, he, hm, by omega, by omega⟩))
  · cases hs : (numParts t).eneg with
    | true => exact .inr (.inl ⟨hg, .inr (.inl ⟨by omega, hs⟩)⟩)
    | false => exact .inr (.inr (.inl ⟨hg, hm, .inl ⟨by omega, hs⟩⟩))

/-- the classes exclude one another, except that a zero digit string is both regular and tiny when its exponent is
    in range (`0`, `0.0`, `0e5`) -/
theorem jnum_classes_disjoint {t : Bytes} :
    ¬ (Regular t ∧ Huge t) ∧ ¬ (Tiny t ∧ Huge t) ∧ ¬ (Regular t ∧ Subnormal t) ∧ ¬ (Tiny t ∧ Subnormal t) ∧
    ¬ (Huge t ∧ Subnormal t) ∧ (Regular t ∧ Tiny t → (numParts t).mant = 0) := by
  refine ⟨?_, ?_, ?_, ?_, ?_, ?_⟩
  · rintro ⟨h1, h2⟩; exact not_numOk_huge h2 (numOk_regular h1)
  · rintro ⟨h1, h2⟩; exact not_numOk_huge h2 (numOk_tiny h1)
  · rintro ⟨h1, h2⟩; have := h1.lo; have := h2.below; omega
  · rintro ⟨h1, h2⟩
    have := h2.nz; have := h2.efield; have := h2.near
    rcases h1.small with h | ⟨h, _⟩ | ⟨_, h⟩ <;> omega
  · rintro ⟨h1, h2⟩
    have := h2.efield; have := h2.below
    have hE : EMIN < EMAX := by decide
    rcases h1.big with ⟨h, _⟩ | ⟨_, h⟩ | ⟨_, h, _⟩ | ⟨_, _, h, _⟩ <;> omega
  · rintro ⟨h1, h2⟩
    have := h1.efield; have := h1.lo
    have hn : (0 : Int) ≤ ((numParts t).ndig : Int) := Int.natCast_nonneg _
    rcases h2.small with h | ⟨h, _⟩ | ⟨_, h⟩
    · exact h
    · omega
    · omega

/-- a text of moderate size (C20B: what `InRange` asks of a document) whose last digit is not below `10^EMIN` is
    regular or tiny: the only moderate texts C20C does not cover are the subnormal ones -/
theorem band_of_moderate {t : Bytes} (hg : Lexical.JNumber t) (hm : Moderate t) (hlo : EMIN ≤ (ratRaw t).2) :
    Regular t ∨ Tiny t := by
  rcases jnum_classes hg with h | h | h | h
  · exact .inl h
  · exact .inr h
  · exact absurd (numOk_moderate hg hm) (not_numOk_huge h)
  · have := h.below; omega

/-- a moderate text is regular, tiny or subnormal -/
theorem moderate_classes {t : Bytes} (hg : Lexical.JNumber t) (hm : Moderate t) : Regular t ∨ Tiny t ∨ Subnormal t := by
  rcases jnum_classes hg with h | h | h | h
  · exact .inl h
  · exact .inr (.inl h)
  · exact absurd (numOk_moderate hg hm) (not_numOk_huge h)
  · exact .inr (.inr h)

/-! ## 3. the rounding rule as an interval -/

/-- **`rhe V k = q` (round `V / 10^k` to nearest, ties to even) iff `V` lies within half a unit of `q · 10^k`**:
    strictly inside, or exactly on a boundary with `q` even -/
theorem rhe_eq_iff (V k q : Nat) :
    rhe V k = q ↔ (2 * q * 10 ^ k < 2 * V + 10 ^ k ∧ 2 * V < 2 * q * 10 ^ k + 10 ^ k) ∨
      (2 * V = 2 * q * 10 ^ k + 10 ^ k ∧ q % 2 = 0) ∨ (2 * V + 10 ^ k = 2 * q * 10 ^ k ∧ q % 2 = 0) := by
  have hP : 0 < 10 ^ k := Nat.pow_pos (by decide)
  unfold rhe
  generalize 10 ^ k = P at hP ⊢
  have hdm := Nat.div_add_mod V P
  have hr := Nat.mod_lt V hP
  generalize hd : V / P = d at *
  generalize hrr : V % P = r at *
  have hV : V = d * P + r := by rw [Nat.mul_comm]; omega
  have hq : ∀ q : Nat, 2 * q * P = 2 * (q * P) := fun q => Nat.mul_assoc 2 q P
  have hd1 : (d + 1) * P = d * P + P := Nat.succ_mul d P
  rw [hq]
  constructor
  · intro h
    split at h
    · next hc =>
      subst h
      rw [hd1]
      rcases hc with hc | ⟨hc, hodd⟩
      · left; omega
      · right; right; refine ⟨by omega, by omega⟩
    · next hc =>
      subst h
      by_cases ht : 2 * r = P
      · right; left; refine ⟨by omega, by omega⟩
      · left; omega
  · intro h
    -- `q` is `d` or `d + 1`
    have hqd : q = d ∨ q = d + 1 := by
      rcases Nat.lt_or_ge q d with hlt | hge
      · exfalso
        have : (q + 1) * P ≤ d * P := Nat.mul_le_mul_right P hlt
        rw [Nat.succ_mul] at this
        rcases h with h | h | h <;> omega
      · rcases Nat.lt_or_ge (d + 1) q with hgt | hle
        · exfalso
          have : (d + 2) * P ≤ q * P := Nat.mul_le_mul_right P hgt
          rw [show (d + 2) * P = d * P + 2 * P by rw [Nat.add_mul]] at this
          rcases h with h | h | h <;> omega
        · omega
    rcases hqd with rfl | rfl
    · have hno : ¬ (2 * r > P ∨ 2 * r = P ∧ q % 2 = 1) := by
        rintro (hc | ⟨hc, hodd⟩)
        · rcases h with h | h | h <;> omega
        · rcases h with h | h | h <;> omega
      simp only [hno, if_false]
    · rw [hd1] at h
      have hyes : 2 * r > P ∨ 2 * r = P ∧ d % 2 = 1 := by
        rcases h with h | h | h
        · left; omega
        · omega
        · right; omega
      simp only [hyes, if_true]

example : rhe 12980742146337069071326240823050245 1 = 1298074214633706907132624082305024 ∧
    rhe 12980742146337069071326240823050246 1 = 1298074214633706907132624082305025 ∧
    rhe 12980742146337069071326240823050255 1 = 1298074214633706907132624082305026 := by decide

/-! ## 4. symmetry, transitivity and reflexivity over all of `Val` -/

mutual
/-- object keys are unique at every level (true of every decoded document and of every value the evaluator computes
    from one; a Go `map[string]any` cannot violate it) -/
def UKeys : Val → Prop
  | .arr _ xs => UKeysL xs
  | .obj kvs => ObjOk kvs ∧ UKeysF kvs
  | _ => True
def UKeysL : List Val → Prop
  | [] => True
  | x :: xs => UKeys x ∧ UKeysL xs
def UKeysF : List (Bytes × Val) → Prop
  | [] => True
  | (_, x) :: kvs => UKeys x ∧ UKeysF kvs
end

theorem UKeysL_iff : ∀ {xs : List Val}, UKeysL xs ↔ ∀ x ∈ xs, UKeys x
  | [] => by simp [UKeysL]
  | x :: xs => by simp [UKeysL, UKeysL_iff (xs := xs)]

theorem UKeysF_iff : ∀ {kvs : List (Bytes × Val)}, UKeysF kvs ↔ ∀ k x, (k, x) ∈ kvs → UKeys x
  | [] => by simp [UKeysF]
  | (k, x) :: kvs => by
    simp only [UKeysF, UKeysF_iff (kvs := kvs), List.mem_cons, Prod.mk.injEq]
    constructor
    · rintro ⟨h1, h2⟩ k' x' (⟨_, rfl⟩ | hm)
      · exact h1
      · exact h2 k' x' hm
    · intro h
      exact ⟨h k x (Or.inl ⟨rfl, rfl⟩), fun k' x' hm => h k' x' (Or.inr hm)⟩

/-- a `JsonVal` has unique keys at every level -/
theorem jsonVal_ukeys : ∀ v, JsonVal v → UKeys v := by
  intro v
  induction v using Val.ind_mem with
  | null | bool | str | num | foreign => intro _; trivial
  | arr t xs ih =>
    intro h
    simp only [JsonVal] at h
    simp only [UKeys]
    exact UKeysL_iff.mpr fun x hx => ih x hx (JsonValL_iff.mp h x hx)
  | obj kvs ih =>
    intro h
    simp only [JsonVal] at h
    simp only [UKeys]
    exact ⟨h.1, UKeysF_iff.mpr fun k x hm => ih k x hm (JsonValF_iff.mp h.2 k x hm)⟩

theorem equal_foreign_right (a : Val) (t : Nat) : equal a (.foreign t) = false := by
  cases a with
  | num n => exact equal_num_left_false _ _ rfl
  | _ => simp [equal, Val.isNull]

/-- **transitivity holds on ALL of `Val`**: no hypothesis on the numbers (NaN, unparsable and out-of-range texts are
    equal to nothing, so they never occur in a true premise), none on the keys -/
theorem equal_trans_all : ∀ a b c : Val, equal a b = true → equal b c = true → equal a c = true := by
  intro a
  induction a using Val.ind_mem with
  | null =>
    intro b c h1 h2
    cases b <;> simp [equal, Val.isNull] at h1
    exact h2
  | bool x =>
    intro b c h1 h2
    cases b <;> simp [equal] at h1
    subst h1; exact h2
  | str s =>
    intro b c h1 h2
    cases b <;> simp [equal] at h1
    subst h1; exact h2
  | num n =>
    intro b c h1 h2
    obtain ⟨x, y, hx, hy, hxy⟩ := (equal_num_left_iff n b).mp h1
    obtain ⟨m, rfl⟩ := toDecimal_some_num hy
    obtain ⟨y', z, hy', hz, hyz⟩ := (equal_num_left_iff m c).mp h2
    rw [hy] at hy'; cases hy'
    exact (equal_num_left_iff n c).mpr ⟨x, z, hx, hz, Dec.equal_trans hxy hyz⟩
  | arr t xs ih =>
    intro b c h1 h2
    cases b with
    | arr u ys =>
      cases c with
      | arr w zs =>
        simp only [equal] at h1 h2 ⊢
        exact equalL_trans_of (fun x hx y _ z _ => ih x hx y z) h1 h2
      | _ => simp [equal] at h2
    | _ => simp [equal] at h1
  | obj xs ih =>
    intro b c h1 h2
    cases b with
    | obj ys =>
      cases c with
      | obj zs =>
        simp only [equal, Bool.and_eq_true, beq_iff_eq] at h1 h2 ⊢
        refine ⟨h1.1.trans h2.1, equalF_trans_of ?_ h1.2 h2.2⟩
        intro k x y z hx _ _
        exact ih k x hx y z
      | _ => simp [equal] at h2
    | _ => simp [equal] at h1
  | foreign t => intro b c h1 _; simp [equal] at h1

/-- **symmetry holds whenever object keys are unique**: no hypothesis on the numbers -/
theorem equal_symm_ukeys : ∀ a, UKeys a → ∀ b, UKeys b → equal a b = equal b a := by
  intro a
  induction a using Val.ind_mem with
  | null =>
    intro _ b _
    cases b with
    | null => rfl
    | _ => rw [equal_type_strict _ _ (by simp [jsonType]), equal_type_strict _ _ (by simp [jsonType])]
  | bool x =>
    intro _ b _
    cases b with
    | bool y => simp only [equal]; exact Bool.beq_comm
    | _ => rw [equal_type_strict _ _ (by simp [jsonType]), equal_type_strict _ _ (by simp [jsonType])]
  | str s =>
    intro _ b _
    cases b with
    | str s' => simp only [equal]; exact Bool.beq_comm
    | _ => rw [equal_type_strict _ _ (by simp [jsonType]), equal_type_strict _ _ (by simp [jsonType])]
  | num n =>
    intro _ b _
    cases b with
    | num m =>
      rw [Bool.eq_iff_iff, equal_num_left_iff, equal_num_left_iff]
      constructor
      · rintro ⟨x, y, hx, hy, he⟩; exact ⟨y, x, hy, hx, (Dec.equal_comm x y) ▸ he⟩
      · rintro ⟨x, y, hx, hy, he⟩; exact ⟨y, x, hy, hx, (Dec.equal_comm x y) ▸ he⟩
    | _ => rw [equal_type_strict _ _ (by simp [jsonType]), equal_type_strict _ _ (by simp [jsonType])]
  | arr t xs ih =>
    intro ha b hb
    cases b with
    | arr u ys =>
      simp only [UKeys] at ha hb
      simp only [equal]
      exact equalL_symm_of fun x hx y hy => ih x hx (UKeysL_iff.mp ha x hx) y (UKeysL_iff.mp hb y hy)
    | _ => rw [equal_type_strict _ _ (by simp [jsonType]), equal_type_strict _ _ (by simp [jsonType])]
  | obj xs ih =>
    intro ha b hb
    cases b with
    | obj ys =>
      simp only [UKeys] at ha hb
      have jx := UKeysF_iff.mp ha.2
      have jy := UKeysF_iff.mp hb.2
      simp only [equal]
      rw [Bool.eq_iff_iff]
      simp only [Bool.and_eq_true, beq_iff_eq]
      constructor
      · rintro ⟨hl, h⟩
        refine ⟨hl.symm, equalF_symm_of ha.1 hb.1 hl ?_ h⟩
        intro k x y hx hy he
        rw [← ih k x hx (jx k x hx) y (jy k y hy)]; exact he
      · rintro ⟨hl, h⟩
        refine ⟨hl.symm, equalF_symm_of hb.1 ha.1 hl ?_ h⟩
        intro k y x hy hx he
        rw [ih k x hx (jx k x hx) y (jy k y hy)]; exact he
    | _ => rw [equal_type_strict _ _ (by simp [jsonType]), equal_type_strict _ _ (by simp [jsonType])]
  | foreign t =>
    intro _ b _
    rw [equal_foreign_right]; simp [equal]

theorem equalL_self_elim : ∀ {xs : List Val}, equalL xs xs = true → ∀ x ∈ xs, equal x x = true
  | [], _ => by simp
  | x :: xs, h => by
    simp only [equalL, Bool.and_eq_true] at h
    intro y hy
    rcases List.mem_cons.mp hy with rfl | hy
    · exact h.1
    · exact equalL_self_elim h.2 y hy

/-- **`v == v` iff `v` is a `JsonVal`** (for values with unique keys): every number inside is one `toDecimal`
    understands and not NaN, and there is no foreign Go value inside -/
theorem equal_self_iff : ∀ v, UKeys v → (equal v v = true ↔ JsonVal v) := by
  intro v hu
  refine ⟨?_, equal_refl v⟩
  revert hu
  induction v using Val.ind_mem with
  | null | bool | str => intro _ _; trivial
  | num n =>
    intro _ h
    obtain ⟨x, y, hx, hy, hxy⟩ := (equal_num_left_iff n _).mp h
    rw [hx] at hy; cases hy
    refine ⟨x, hx, ?_⟩
    rintro rfl
    rw [Dec.equal_iff, cmp_nan_left] at hxy; cases hxy
  | arr t xs ih =>
    intro hu h
    simp only [UKeys] at hu
    simp only [equal] at h
    simp only [JsonVal]
    exact JsonValL_iff.mpr fun x hx => ih x hx (UKeysL_iff.mp hu x hx) (equalL_self_elim h x hx)
  | obj kvs ih =>
    intro hu h
    simp only [UKeys] at hu
    simp only [equal, Bool.and_eq_true, beq_self_eq_true, true_and] at h
    simp only [JsonVal]
    refine ⟨hu.1, JsonValF_iff.mpr fun k x hm => ih k x hm (UKeysF_iff.mp hu.2 k x hm) ?_⟩
    obtain ⟨y, hl, he⟩ := (equalF_iff kvs kvs).mp h k x hm
    rw [objLookup_of_mem hu.1 hm] at hl
    cases hl; exact he
  | foreign t => intro _ h; simp [equal] at h

end Jmes.C20E
